(* The program DSL: terms of public-API calls, their interpreter over the model
   (`run`), and the wire codec (nested integer lists) used by both the extracted
   runner and the in-Coq `vm_compute` cross-check. *)
From Coq Require Import List ZArith Bool Lia.
Import ListNotations.
Require Import DV.Common.Base DV.Core.Diagram DV.Core.Rewriting DV.Core.Foliate DV.Core.Perm DV.Core.Rigid DV.Core.Functor.
Open Scope Z_scope.

Inductive prog :=
| PId (t : ty)
| PBox (b : box)
| PMk (dom cod : ty) (bs : list box) (offs : list Z)
| PThen (p q : prog)
| PTensor (p q : prog)
| PDagger (p : prog)
| PSlice (p : prog) (start stop : option Z)
| PSliceRev (p : prog) (start stop : option Z)
| PGetItem (p : prog) (i : Z)
| PInterchange (p : prog) (i j : Z) (left : bool)
| PNormalize (p : prog) (left : bool)
| PNormalForm (p : prog) (left : bool)
| PSwap (l r : ty)
| PPermutation (perm : list Z) (dom : ty)
| PPermute (p : prog) (perm : list Z)
| PCups (l r : ty)
| PCaps (l r : ty)
| PTranspose (p : prog) (left : bool)
| PFunctor (obs : list (Z * ty)) (ars : arlist) (p : prog)
| PFoliate (p : prog)
| PFoliation (p : prog)
with arlist :=
| ANil
| ACons (b : box) (img : prog) (rest : arlist).

Inductive value :=
| VD (d : diagram)
| VL (ds : list diagram).

(* bound on the number of diagrams a normalisation may yield before the harness
   (and the model) give up with OutOfFuel *)
Definition trace_limit : nat := 60.

Definition as_diagram (v : res value) : res diagram :=
  match v with Ok (VD d) => Ok d | Ok _ => Err BadProgram | Err e => Err e end.

Fixpoint run (p : prog) : res value :=
  let rd := fun q => as_diagram (run q) in
  let ret := fun (r : res diagram) => do d <- r; Ok (VD d) in
  match p with
  | PId t => Ok (VD (did t))
  | PBox b => Ok (VD (dbox b))
  | PMk dom cod bs offs => ret (mk dom cod bs offs)
  | PThen p q => ret (do a <- rd p; do b <- rd q; dthen a b)
  | PTensor p q => ret (do a <- rd p; do b <- rd q; dtensor a b)
  | PDagger p => ret (do a <- rd p; Ok (ddagger a))
  | PSlice p s e => ret (do a <- rd p; Ok (dslice a s e))
  | PSliceRev p s e => ret (do a <- rd p; Ok (dslice_rev a s e))
  | PGetItem p i => ret (do a <- rd p; dgetitem a i)
  | PInterchange p i j l => ret (do a <- rd p; interchange a i j l)
  | PNormalize p l =>
      do a <- rd p;
      do tr <- normalize (S trace_limit) a l;
      if Nat.ltb trace_limit (length tr) then Err OutOfFuel else Ok (VL tr)
  | PNormalForm p l => ret (do a <- rd p; normal_form 400 a l)
  | PSwap l r => ret (dswap l r)
  | PPermutation perm dom => ret (dpermutation perm dom)
  | PPermute p perm => ret (do a <- rd p; dpermute a perm)
  | PCups l r => ret (dcups l r)
  | PCaps l r => ret (dcaps l r)
  | PTranspose p l => ret (do a <- rd p; dtranspose a l)
  | PFunctor obs ars p =>
      ret (do a <- rd p; do m <- run_ars ars; f_apply (F obs m) a)
  | PFoliate p => do a <- rd p; do r <- foliate a; Ok (VL (fst r))
  | PFoliation p => do a <- rd p; do r <- foliate a; Ok (VL (snd r))
  end
with run_ars (a : arlist) : res (list (box * diagram)) :=
  match a with
  | ANil => Ok []
  | ACons b img rest =>
      do d <- as_diagram (run img); do m <- run_ars rest; Ok ((b, d) :: m)
  end.

(* ------------------------------------------------------------------ codec *)
Definition dec_ob (s : sexp) : res ob :=
  match s with L [I n; I z] => Ok (Ob n z) | _ => Err BadProgram end.
Definition dec_ty (s : sexp) : res ty := do l <- sx_list s; mapM dec_ob l.
Definition dec_kind (z : Z) : res bkind :=
  if z =? 0 then Ok KBox else if z =? 1 then Ok KSwap
  else if z =? 2 then Ok KCup else if z =? 3 then Ok KCap else Err BadProgram.
Definition dec_box (s : sexp) : res box :=
  match s with
  | L [I k; I n; d; c; dg; dt] =>
      do k' <- dec_kind k; do d' <- dec_ty d; do c' <- dec_ty c;
      do dg' <- sx_bool dg; do dt' <- sx_opt dt;
      Ok (Box k' n d' c' dg' dt')
  | _ => Err BadProgram
  end.
Definition dec_boxes (s : sexp) : res (list box) := do l <- sx_list s; mapM dec_box l.
Definition dec_obmap (s : sexp) : res (list (Z * ty)) :=
  do l <- sx_list s;
  mapM (fun e => match e with L [I n; t] => do t' <- dec_ty t; Ok (n, t') | _ => Err BadProgram end) l.

Fixpoint dec_prog (fuel : nat) (s : sexp) : res prog :=
  match fuel with
  | O => Err BadProgram
  | S f =>
    let dp := dec_prog f in
    let dars := fix dars (l : list sexp) : res arlist :=
      match l with
      | [] => Ok ANil
      | L [b; img] :: l' => do b' <- dec_box b; do i' <- dp img; do r <- dars l'; Ok (ACons b' i' r)
      | _ => Err BadProgram
      end in
    match s with
    | L [I 0; t] => do t' <- dec_ty t; Ok (PId t')
    | L [I 1; b] => do b' <- dec_box b; Ok (PBox b')
    | L [I 2; d; c; bs; offs] =>
        do d' <- dec_ty d; do c' <- dec_ty c; do bs' <- dec_boxes bs; do o' <- sx_ints offs;
        Ok (PMk d' c' bs' o')
    | L [I 3; p; q] => do p' <- dp p; do q' <- dp q; Ok (PThen p' q')
    | L [I 4; p; q] => do p' <- dp p; do q' <- dp q; Ok (PTensor p' q')
    | L [I 5; p] => do p' <- dp p; Ok (PDagger p')
    | L [I 6; p; a; b] => do p' <- dp p; do a' <- sx_opt a; do b' <- sx_opt b; Ok (PSlice p' a' b')
    | L [I 7; p; a; b] => do p' <- dp p; do a' <- sx_opt a; do b' <- sx_opt b; Ok (PSliceRev p' a' b')
    | L [I 8; p; I i] => do p' <- dp p; Ok (PGetItem p' i)
    | L [I 9; p; I i; I j; l] => do p' <- dp p; do l' <- sx_bool l; Ok (PInterchange p' i j l')
    | L [I 10; p; l] => do p' <- dp p; do l' <- sx_bool l; Ok (PNormalize p' l')
    | L [I 11; p; l] => do p' <- dp p; do l' <- sx_bool l; Ok (PNormalForm p' l')
    | L [I 12; l; r] => do l' <- dec_ty l; do r' <- dec_ty r; Ok (PSwap l' r')
    | L [I 13; perm; d] => do p' <- sx_ints perm; do d' <- dec_ty d; Ok (PPermutation p' d')
    | L [I 14; p; perm] => do p' <- dp p; do pm <- sx_ints perm; Ok (PPermute p' pm)
    | L [I 15; l; r] => do l' <- dec_ty l; do r' <- dec_ty r; Ok (PCups l' r')
    | L [I 16; l; r] => do l' <- dec_ty l; do r' <- dec_ty r; Ok (PCaps l' r')
    | L [I 17; p; l] => do p' <- dp p; do l' <- sx_bool l; Ok (PTranspose p' l')
    | L [I 18; obs; L ars; p] =>
        do o' <- dec_obmap obs; do a' <- dars ars; do p' <- dp p; Ok (PFunctor o' a' p')
    | L [I 19; p] => do p' <- dp p; Ok (PFoliate p')
    | L [I 20; p] => do p' <- dp p; Ok (PFoliation p')
    | _ => Err BadProgram
    end
  end.

Definition enc_ob (x : ob) : sexp := L [I (oname x); I (oz x)].
Definition enc_ty (t : ty) : sexp := L (map enc_ob t).
Definition enc_box (b : box) : sexp :=
  L [I (bkind_code (bk b)); I (bname b); enc_ty (bdom b); enc_ty (bcod b);
     of_bool (bdag b); of_opt (bdata b)].
Definition enc_layer (l : layer) : sexp := L [enc_ty (lleft l); enc_box (lbox l); enc_ty (lright l)].
Definition enc_diagram (d : diagram) : sexp :=
  L [enc_ty (ddom d); enc_ty (dcod d); L (map enc_box (dboxes d)); of_ints (doffs d);
     L [enc_ty (la_dom (dlayers d)); enc_ty (la_cod (dlayers d)); L (map enc_layer (la_ls (dlayers d)))]].
Definition enc_value (v : value) : sexp :=
  match v with
  | VD d => L [I 0; enc_diagram d]
  | VL ds => L [I 1; L (map enc_diagram ds)]
  end.
Definition enc_res (r : res value) : sexp :=
  match r with
  | Ok v => L [I 0; enc_value v]
  | Err e => L [I 1; I (err_code e)]
  end.

(* the single entry point of the extracted runner *)
Definition run_sexp (s : sexp) : sexp :=
  match dec_prog 1000 s with
  | Ok p => enc_res (run p)
  | Err e => L [I 1; I (err_code e)]
  end.
