(* Proofs for C10 (and the C01 cases for swap / permutation). *)
From Coq Require Import List ZArith Bool Lia.
Import ListNotations.
Require Import DV.Common.Base DV.Common.ListLemmas DV.Core.Diagram DV.Core.WF
  DV.Core.DiagramLemmas DV.Core.Perm DV.Core.Route.
Open Scope Z_scope.

(* ------------------------------------------------------------ route algebra *)
Lemma swap_at_length {A} o (ws : list A) : length (swap_at o ws) = length ws.
Proof.
  revert ws. induction o as [|o IH]; intros ws.
  - destruct ws as [|a [|b ws]]; reflexivity.
  - destruct ws as [|a ws]; cbn; [reflexivity|]. f_equal. apply IH.
Qed.

Lemma route_length {A} offs (ws : list A) : length (route offs ws) = length ws.
Proof.
  revert ws. induction offs as [|o offs IH]; intros ws; cbn; [auto|].
  unfold route in IH. rewrite IH. apply swap_at_length.
Qed.

Lemma route_app {A} o1 o2 (ws : list A) : route (o1 ++ o2) ws = route o2 (route o1 ws).
Proof. unfold route. apply fold_left_app. Qed.

Lemma swap_at_prefix {A} (pre ws : list A) o :
  swap_at (length pre + o) (pre ++ ws) = pre ++ swap_at o ws.
Proof. induction pre as [|a pre IH]; cbn; [auto|]. now rewrite IH. Qed.

Lemma swap_at_suffix {A} (ws post : list A) o : (o + 2 <= length ws)%nat ->
  swap_at o (ws ++ post) = swap_at o ws ++ post.
Proof.
  revert ws. induction o as [|o IH]; intros ws H.
  - destruct ws as [|a [|b ws]]; cbn in *; try lia. reflexivity.
  - destruct ws as [|a ws]; cbn in *; [lia|]. f_equal. apply IH. lia.
Qed.

Lemma route_shift {A} (pre ws : list A) offs : Forall (fun o => 0 <= o) offs ->
  route (map (fun o => o + len pre) offs) (pre ++ ws) = pre ++ route offs ws.
Proof.
  revert ws. induction offs as [|o offs IH]; intros ws H; cbn; [auto|].
  inversion H; subst. unfold route in *.
  replace (Z.to_nat (o + len pre)) with (length pre + Z.to_nat o)%nat by (unfold len; lia).
  rewrite swap_at_prefix. apply IH; auto.
Qed.

Lemma route_suffix {A} (ws post : list A) offs : offsets_in_range (length ws) offs ->
  route offs (ws ++ post) = route offs ws ++ post.
Proof.
  revert ws. induction offs as [|o offs IH]; intros ws H; cbn; [auto|].
  inversion H as [|? ? [H1 H2] H3]; subst. unfold route in *.
  rewrite swap_at_suffix by lia. apply IH. now rewrite swap_at_length.
Qed.

(* one wire x travelling to the right across the wires wr *)
Lemma route_row {A} (pre : list A) x wr :
  route (zrange (len pre) (length wr)) (pre ++ x :: wr) = pre ++ wr ++ [x].
Proof.
  revert pre. induction wr as [|w wr IH]; intros pre; cbn [zrange length]; [reflexivity|].
  cbn [route fold_left]. replace (Z.to_nat (len pre)) with (length pre + 0)%nat by (unfold len; lia).
  rewrite swap_at_prefix. cbn [swap_at].
  specialize (IH (pre ++ [w])). rewrite len_app in IH. cbn [len length] in IH.
  replace (len pre + Z.of_nat 1) with (len pre + 1) in IH by lia.
  rewrite <- !app_assoc in IH. cbn [app] in IH. exact IH.
Qed.

Lemma zrange_in_range k n m : 0 <= k -> (Z.to_nat k + n + 1 <= m)%nat ->
  offsets_in_range m (zrange k n).
Proof.
  revert k. induction n as [|n IH]; intros k Hk H; cbn; constructor.
  - lia.
  - apply IH; lia.
Qed.

(* ------------------------------------------------------------ swap rows *)
Lemma swap_row_spec x r : exists bs, swap_row [x] r = Ok bs /\
  bs = map (fun y => Box KSwap (-1) [x; y] [y; x] false None) r.
Proof.
  induction r as [|y r IH]; cbn; [eauto|].
  destruct IH as (bs & -> & ->). cbn. eauto.
Qed.


(* ------------------------------------------------------------ Diagram.swap *)
Lemma swap_row_only_swaps x r bs : swap_row [x] r = Ok bs ->
  Forall (fun b => bk b = KSwap /\ length (bdom b) = 2%nat /\ length (bcod b) = 2%nat) bs.
Proof.
  destruct (swap_row_spec x r) as (bs' & E & ->). rewrite E. intros H; inversion H; subst.
  apply Forall_forall. intros b Hb. apply in_map_iff in Hb. destruct Hb as (y & <- & _). cbn. auto.
Qed.

Definition swap_post (l r : ty) (d : diagram) : Prop :=
  wf d /\ ddom d = l ++ r /\ dcod d = r ++ l /\ only_swaps d /\
  offsets_in_range (length (l ++ r)) (doffs d) /\
  forall (A : Type) (wl wr : list A), length wl = length l -> length wr = length r ->
    route (doffs d) (wl ++ wr) = wr ++ wl.

Lemma swap_single x r d :
  (do bs <- swap_row [x] r; mk ([x] ++ r) (r ++ [x]) bs (zrange 0 (length r))) = Ok d ->
  swap_post [x] r d.
Proof.
  destruct (swap_row [x] r) as [bs|] eqn:E; [|discriminate]. cbn [bind]. intros H.
  pose proof (mk_wf _ _ _ _ _ H) as W. destruct (mk_fields _ _ _ _ _ H) as (F1 & F2 & F3 & F4).
  unfold swap_post. split; [exact W|]. split; [exact F1|]. split; [exact F2|]. split; [|split].
  - unfold only_swaps. rewrite F3. eapply swap_row_only_swaps; eauto.
  - rewrite F4. apply zrange_in_range; [lia|]. cbn [app length Z.to_nat]. lia.
  - intros A wl wr Hl Hr. rewrite F4. destruct wl as [|w [|? ?]]; try discriminate.
    rewrite <- Hr. apply (route_row [] w wr).
Qed.

Lemma Forall_map_iff {A B} (f : A -> B) (P : B -> Prop) l : Forall P (map f l) <-> Forall (fun x => P (f x)) l.
Proof. rewrite !Forall_forall. split; intros H x Hx; [apply H, in_map, Hx|]. apply in_map_iff in Hx. destruct Hx as (y & <- & Hy). auto. Qed.

Lemma dswap_cons2 x y l' r : dswap (x :: y :: l') r =
  (do s1 <- dswap (y :: l') r;
   do a <- dtensor (did [x]) s1;
   do s2 <- (do bs <- swap_row [x] r; mk ([x] ++ r) (r ++ [x]) bs (zrange 0 (length r)));
   do b <- dtensor s2 (did (y :: l'));
   dthen a b).
Proof. reflexivity. Qed.

Theorem dswap_spec l : forall r d, dswap l r = Ok d -> swap_post l r d.
Proof.
  induction l as [|x l IH]; intros r d H.
  - cbn in H. inversion H; subst d. unfold swap_post. cbn [app]. rewrite app_nil_r.
    repeat split; auto using did_wf; try constructor.
    intros A wl wr Hl Hr. destruct wl; [|discriminate]. cbn. now rewrite app_nil_r.
  - destruct l as [|y l'].
    + apply swap_single. exact H.
    + rewrite dswap_cons2 in H. remember (y :: l') as l eqn:El.
      destruct (dswap l r) as [s1|] eqn:E1; [|discriminate]. cbn [bind] in H.
      destruct (IH _ _ E1) as (W1 & D1 & C1 & S1 & R1 & T1).
      destruct (dtensor_ok (did [x]) s1 (did_wf _) W1) as (a & Ea & Wa & Da & Ca & Ba & Oa).
      rewrite Ea in H. cbn [bind] in H.
      destruct (do bs <- swap_row [x] r; mk ([x] ++ r) (r ++ [x]) bs (zrange 0 (length r))) as [s2|] eqn:E2; [|discriminate].
      cbn [bind] in H.
      destruct (swap_single _ _ _ E2) as (W2 & D2 & C2 & S2 & R2 & T2).
      destruct (dtensor_ok s2 (did l) W2 (did_wf _)) as (b & Eb & Wb & Db & Cb & Bb & Ob).
      rewrite Eb in H. cbn [bind] in H.
      assert (Hm : dcod a = ddom b).
      { rewrite Ca, Db, C1, D2. cbn [did dcod ddom]. rewrite <- !app_assoc. reflexivity. }
      destruct (dthen_ok a b Wa Wb Hm) as (d' & Ed & Wd & Dd & Cd & Bd & Od).
      rewrite Ed in H. inversion H; subst d'. clear H.
      cbn [did dboxes doffs dcod ddom app map] in *.
      unfold swap_post. split; [auto|]. split; [rewrite Dd, Da, D1; reflexivity|].
      split; [rewrite Cd, Cb, C2; rewrite <- !app_assoc; reflexivity|].
      split; [unfold only_swaps in *; rewrite Bd, Ba, Bb, app_nil_r; apply Forall_app; auto|].
      rewrite app_nil_r in Ob.
      split.
      * rewrite Od, Oa, Ob. apply Forall_app. split.
        -- apply Forall_map_iff. eapply Forall_impl; [|exact R1]. cbn. intros o [Ho1 Ho2].
           rewrite !app_length in *. cbn [length] in *. unfold len in *. cbn [length] in *. lia.
        -- eapply Forall_impl; [|exact R2]. cbn. intros o [Ho1 Ho2]. rewrite !app_length in *. cbn [length] in *. lia.
      * intros A wl wr Hl Hr. destruct wl as [|w wl']; [discriminate|]. cbn [length] in Hl.
        rewrite Od, Oa, Ob, route_app. cbn [app].
        change (w :: wl' ++ wr) with ([w] ++ (wl' ++ wr)).
        replace (len [x]) with (len [w]) by reflexivity.
        rewrite route_shift by (eapply Forall_impl; [|exact R1]; cbn; intros; tauto).
        rewrite T1 by lia. cbn [app].
        change (w :: wr ++ wl') with ((w :: wr) ++ wl').
        rewrite route_suffix.
        -- change (w :: wr) with ([w] ++ wr). rewrite (T2 A [w] wr) by (auto; lia). rewrite <- app_assoc. reflexivity.
        -- eapply Forall_impl; [|exact R2]. cbn [app length]. intros o. rewrite Hr. lia.
Qed.

(* ------------------------------------------------------------ swaps are never refused *)
Lemma zrange_length k n : length (zrange k n) = n.
Proof. revert k. induction n; intros; cbn; auto. Qed.

Lemma scan_swap_row_ok x r : forall pre, exists ls,
  scan_layers (pre ++ x :: r) (map (fun y => Box KSwap (-1) [x; y] [y; x] false None) r)
              (zrange (len pre) (length r)) = Ok (pre ++ r ++ [x], ls).
Proof.
  induction r as [|y r IH]; intros pre; cbn [map zrange length scan_layers].
  - eexists. reflexivity.
  - cbn [bdom bcod]. rewrite py_slice_prefix, py_slice_suffix by (unfold len; lia).
    replace (Z.to_nat (len pre)) with (length pre) by (unfold len; lia).
    replace (Z.to_nat (len pre + len [x; y])) with (length pre + 2)%nat by (unfold len; cbn [length]; lia).
    rewrite firstn_app_exact.
    replace (skipn (length pre + 2) (pre ++ x :: y :: r)) with r.
    2: { rewrite skipn_app. rewrite skipn_all2 by lia.
         replace (length pre + 2 - length pre)%nat with 2%nat by lia. reflexivity. }
    assert (Hr : (0 <=? len pre) && (len pre <=? len (pre ++ x :: y :: r) - len [x; y]) = true).
    { apply andb_true_iff. split; apply Z.leb_le; [apply len_nonneg|].
      rewrite len_app, !len_cons, len_nil. pose proof (len_nonneg r). lia. }
    rewrite Hr. cbn [negb].
    unfold ldom, lcod, lleft, lbox, lright. cbn [fst snd bdom bcod].
    rewrite ty_eqb_refl.
    destruct (IH (pre ++ [y])) as (ls & Hls).
    rewrite len_app, len_cons, len_nil in Hls. replace (len pre + (1 + 0)) with (len pre + 1) in Hls by lia.
    rewrite <- !app_assoc in Hls. cbn [app] in Hls. cbn [app]. rewrite Hls. cbn [bind fst snd].
    eexists. reflexivity.
Qed.

Lemma swap_single_ok x r : exists d,
  (do bs <- swap_row [x] r; mk ([x] ++ r) (r ++ [x]) bs (zrange 0 (length r))) = Ok d.
Proof.
  destruct (swap_row_spec x r) as (bs & E & ->). rewrite E. cbn [bind]. unfold mk.
  rewrite len_map. unfold len at 2. rewrite zrange_length.
  unfold len. rewrite Z.eqb_refl. cbn [negb].
  destruct (scan_swap_row_ok x r []) as (ls & Hls). rewrite len_nil in Hls. cbn [app] in Hls.
  cbn [app]. rewrite Hls. cbn [bind fst snd]. rewrite ty_eqb_refl. eauto.
Qed.

Theorem dswap_total l : forall r, exists d, dswap l r = Ok d.
Proof.
  induction l as [|x l IH]; intros r.
  - cbn. eauto.
  - destruct l as [|y l'].
    + apply swap_single_ok.
    + rewrite dswap_cons2. remember (y :: l') as l eqn:El.
      destruct (IH r) as (s1 & E1). rewrite E1. cbn [bind].
      destruct (dswap_spec _ _ _ E1) as (W1 & D1 & C1 & _).
      destruct (dtensor_ok (did [x]) s1 (did_wf _) W1) as (a & Ea & Wa & Da & Ca & _).
      rewrite Ea. cbn [bind].
      destruct (swap_single_ok x r) as (s2 & E2). rewrite E2. cbn [bind].
      destruct (swap_single _ _ _ E2) as (W2 & D2 & C2 & _).
      destruct (dtensor_ok s2 (did l) W2 (did_wf _)) as (b & Eb & Wb & Db & Cb & _).
      rewrite Eb. cbn [bind].
      assert (Hm : dcod a = ddom b).
      { rewrite Ca, Db, C1, D2. cbn [did dcod ddom]. rewrite <- !app_assoc. reflexivity. }
      destruct (dthen_ok a b Wa Wb Hm) as (d' & Ed & _). eauto.
Qed.

(* ------------------------------------------------------------ Diagram.permutation *)
Definition perm_inv (dom : ty) (d : diagram) : Prop :=
  wf d /\ ddom d = dom /\ length (dcod d) = length dom /\ only_swaps d.

Lemma perm_step_inv dom d perm i d' perm' : perm_inv dom d ->
  perm_step d perm i = Ok (d', perm') -> perm_inv dom d'.
Proof.
  intros (W & D & L & S). unfold perm_step.
  destruct (zindex (Z.of_nat i) perm) as [j|]; [|discriminate].
  destruct (dswap _ _) as [s|] eqn:Es; [|discriminate]. cbn [bind].
  destruct (dswap_spec _ _ _ Es) as (Ws & Ds & Cs & Ss & _).
  destruct (dtensor_ok (did (py_slice (dcod d) None (Some (Z.of_nat i)))) s (did_wf _) Ws)
    as (t1 & E1 & W1 & D1 & C1 & B1 & _). rewrite E1. cbn [bind].
  destruct (dtensor_ok t1 (did (py_slice (dcod d) (Some (Z.of_nat j + 1)) None)) W1 (did_wf _))
    as (t2 & E2 & W2 & D2 & C2 & B2 & _). rewrite E2. cbn [bind].
  destruct (dthen d t2) as [d2|] eqn:Ed; [|discriminate]. cbn [bind].
  intros H; inversion H; subst d2 perm'. clear H.
  destruct (dthen_wf _ _ _ W W2 Ed) as (Wd & Dd & Cd).
  destruct (dthen_inv _ _ _ Ed) as [Hm Hd'].
  assert (Hty : dcod d = ddom t2).
  { destruct W as (_ & A2 & _), W2 as (B1' & _). congruence. }
  unfold perm_inv. split; [auto|]. split; [congruence|]. split.
  - assert (Hl : length (dcod t2) = length (ddom t2)).
    { rewrite C2, C1, Cs, D2, D1, Ds. cbn [did dcod ddom]. rewrite !app_length. lia. }
    rewrite Cd, Hl, <- Hty. exact L.
  - unfold only_swaps in *. rewrite Hd'. cbn [dboxes]. apply Forall_app. split; [auto|].
    rewrite B2, B1. cbn [did dboxes app]. rewrite app_nil_r. exact Ss.
Qed.

Lemma perm_loop_inv dom n : forall d perm i d', perm_inv dom d ->
  perm_loop d perm i n = Ok d' -> perm_inv dom d'.
Proof.
  induction n as [|n IH]; cbn [perm_loop]; intros d perm i d' Hinv H.
  - inversion H; subst. auto.
  - destruct (perm_step d perm i) as [[d1 p1]|] eqn:E; [|discriminate]. cbn [bind fst snd] in H.
    eapply IH; [|exact H]. eapply perm_step_inv; eauto.
Qed.

Theorem dpermutation_spec perm dom d : dpermutation perm dom = Ok d ->
  wf d /\ ddom d = dom /\ length (dcod d) = length dom /\ only_swaps d /\
  is_perm perm = true /\ len dom = len perm.
Proof.
  unfold dpermutation. destruct (is_perm perm) eqn:Ep; [|discriminate]. cbn [negb].
  destruct (len dom =? len perm) eqn:El; [|discriminate]. cbn [negb]. intros H.
  destruct (perm_loop_inv dom _ _ _ _ _ (conj (did_wf dom) (conj eq_refl (conj eq_refl (Forall_nil _)))) H)
    as (W & D & L & S).
  apply Z.eqb_eq in El. auto 10.
Qed.
