(* rewriting.py: interchange, normalize, normal_form (monoidal part). *)
From Coq Require Import List ZArith Bool Lia.
Import ListNotations.
Require Import DV.Common.Base DV.Core.Diagram.
Open Scope Z_scope.

(* the adjacent exchange of boxes i, i+1 (the tail of rewriting.interchange) *)
Definition interchange_adj (d : diagram) (i : nat) (left : bool) : res diagram :=
  match nth_error (la_ls (dlayers d)) i, nth_error (la_ls (dlayers d)) (S i),
        nth_error (doffs d) i, nth_error (doffs d) (S i) with
  | Some (left0, box0, right0), Some (left1, box1, right1), Some off0, Some off1 =>
    let caseL :=
      let off1' := off1 - len (bcod box0) + len (bdom box0) in
      let middle := py_slice left1 (Some (len (left0 ++ bcod box0))) None in
      let layer0 : layer := (left0, box0, middle ++ bcod box1 ++ right1) in
      let layer1 : layer := (left0 ++ bdom box0 ++ middle, box1, right1) in
      (off0, off1', layer0, layer1) in
    let caseR :=
      let off0' := off0 - len (bdom box1) + len (bcod box1) in
      let middle := py_slice left0 (Some (len (left1 ++ bdom box1))) None in
      let layer0 : layer := (left1 ++ bcod box1 ++ middle, box0, right0) in
      let layer1 : layer := (left1, box1, middle ++ bdom box0 ++ right0) in
      (off0', off1, layer0, layer1) in
    let pick :=
      if left && (off0 + len (bcod box0) <=? off1) then Some caseL
      else if off1 + len (bdom box1) <=? off0 then Some caseR
      else if off0 + len (bcod box0) <=? off1 then Some caseL
      else None in
    match pick with
    | None => Err InterchangerError
    | Some (o0, o1, l0, l1) =>
      let iz := Z.of_nat i in
      do a1 <- la_then (la_slice (dlayers d) None (Some iz)) (la_of l1);
      do a2 <- la_then a1 (la_of l0);
      do a3 <- la_then a2 (la_slice (dlayers d) (Some (iz + 2)) None);
      Ok (D (ddom d) (dcod d)
            (firstn i (dboxes d) ++ [box1; box0] ++ skipn (2 + i) (dboxes d))
            (firstn i (doffs d) ++ [o1; o0] ++ skipn (2 + i) (doffs d))
            a3)
    end
  | _, _, _, _ => Err IndexError
  end.

(* for k in range(n): result = result.interchange(i + k, i + k + 1) *)
Fixpoint interchange_up (d : diagram) (i n : nat) (left : bool) : res diagram :=
  match n with
  | O => Ok d
  | S n' => do d' <- interchange_adj d i left; interchange_up d' (S i) n' left
  end.

(* for k in range(n): result = result.interchange(i - k, i - k - 1);
   called with i the index of the moving box; the adjacent exchange is at i-1 *)
Fixpoint interchange_down (d : diagram) (i n : nat) (left : bool) : res diagram :=
  match n with
  | O => Ok d
  | S n' => do d' <- interchange_adj d (i - 1) left; interchange_down d' (i - 1) n' left
  end.

Definition interchange (d : diagram) (i j : Z) (left : bool) : res diagram :=
  let n := len (dboxes d) in
  if negb ((0 <=? i) && (i <? n) && (0 <=? j) && (j <? n)) then Err IndexError
  else if i =? j then Ok d
  else if j <? i then interchange_down d (Z.to_nat i) (Z.to_nat (i - j)) left
  else interchange_up d (Z.to_nat i) (Z.to_nat (j - i)) left.

(* one `for i in range(len(diagram) - 1)` pass of rewriting.normalize, the
   diagram being updated as the pass proceeds; returns the yielded diagrams
   (most recent first), the current diagram and whether a move happened *)
Definition can_move (d : diagram) (i : nat) (left : bool) : bool :=
  match nth_error (dboxes d) i, nth_error (dboxes d) (S i),
        nth_error (doffs d) i, nth_error (doffs d) (S i) with
  | Some box0, Some box1, Some off0, Some off1 =>
      if left then off0 + len (bcod box0) <=? off1 else off1 + len (bdom box1) <=? off0
  | _, _, _, _ => false
  end.

Fixpoint normalize_pass (d : diagram) (i n : nat) (left : bool) (acc : list diagram) (moved : bool)
  : res (diagram * list diagram * bool) :=
  match n with
  | O => Ok (d, acc, moved)
  | S n' =>
      if can_move d i left then
        do d' <- interchange_adj d i left;
        normalize_pass d' (S i) n' left (d' :: acc) true
      else normalize_pass d (S i) n' left acc moved
  end.

Fixpoint normalize_loop (fuel : nat) (d : diagram) (left : bool) (acc : list diagram)
  : res (list diagram) :=
  match fuel with
  | O => Err OutOfFuel
  | S fuel' =>
      do r <- normalize_pass d 0 (length (dboxes d) - 1) left acc false;
      let '(d', acc', moved) := r in
      if moved then normalize_loop fuel' d' left acc' else Ok acc'
  end.

(* the list of diagrams yielded by d.normalize(left), in order *)
Definition normalize (fuel : nat) (d : diagram) (left : bool) : res (list diagram) :=
  do acc <- normalize_loop fuel d left []; Ok (rev acc).

(* rewriting.normal_form with the default normalizer: NotImplementedError as soon
   as a yielded diagram is (==) one yielded before.  The cache is checked on the
   finished trace, which gives the same outcome whenever the trace is finite;
   the model's fuel bound is part of the statement of every theorem using it. *)
Fixpoint first_repeat (seen : list diagram) (l : list diagram) : bool :=
  match l with
  | [] => false
  | d :: l' => existsb (deqb d) seen || first_repeat (d :: seen) l'
  end.

(* interleaved version: stops at the first repeat even if the trace is infinite *)
Fixpoint nf_loop (fuel : nat) (d : diagram) (left : bool) (seen : list diagram) : res diagram :=
  match fuel with
  | O => Err OutOfFuel
  | S fuel' =>
      do r <- normalize_pass d 0 (length (dboxes d) - 1) left [] false;
      let '(d', ys, moved) := r in
      if first_repeat seen (rev ys) then Err NotImplementedError
      else if moved then nf_loop fuel' d' left (ys ++ seen) else Ok d'
  end.

Definition normal_form (fuel : nat) (d : diagram) (left : bool) : res diagram :=
  nf_loop fuel d left [].
