(* C04, the dagger law F(d[::-1]) = F(d)[::-1] for diagrams of plain boxes (no
   swaps: for composite swaps the law fails as an equality of values, finding F19). *)
From Coq Require Import List ZArith Bool Lia.
Import ListNotations.
Require Import DV.Common.Base DV.Common.ListLemmas DV.Core.Diagram DV.Core.WF DV.Core.DiagramLemmas
  DV.Core.Laws DV.Core.Perm DV.Core.Route DV.Core.PermLemmas DV.Core.Rigid DV.Core.Functor DV.Core.Sum DV.Core.SumLemmas DV.Core.FunctorLemmas.
Open Scope Z_scope.

(* dagger commutes with whiskering by identities *)
Lemma ddagger_tensor_val_l z t : wf t ->
  ddagger (tensor_val (did z) t) = tensor_val (did z) (ddagger t).
Proof.
  intros (W1 & W2 & W3 & W4 & W5). rewrite !ddagger_eq. unfold tensor_val, of_layers.
  cbn [did ddom dcod dboxes doffs dlayers la_id la_dom la_cod la_ls map app].
  rewrite W1, W2. f_equal.
  - rewrite map_map, <- !map_rev, !map_map. reflexivity.
  - rewrite <- !map_rev, !map_map. apply map_ext. intros l. unfold whisk_l, layer_dagger, lleft; cbn.
    rewrite len_app. lia.
  - f_equal. rewrite <- !map_rev, !map_map. apply map_ext. intros l. reflexivity.
Qed.

Lemma ddagger_tensor_val_r z t : wf t ->
  ddagger (tensor_val t (did z)) = tensor_val (ddagger t) (did z).
Proof.
  intros (W1 & W2 & W3 & W4 & W5). rewrite !ddagger_eq. unfold tensor_val, of_layers.
  cbn [did ddom dcod dboxes doffs dlayers la_id la_dom la_cod la_ls map app]. rewrite !app_nil_r.
  rewrite W1, W2. f_equal.
  - rewrite <- !map_rev, !map_map. reflexivity.
  - rewrite <- !map_rev, !map_map. reflexivity.
  - f_equal. rewrite <- !map_rev, !map_map. apply map_ext. intros l. reflexivity.
Qed.

Lemma dchain_app l1 : forall X l2 Z M, dchain X l1 M -> dchain M l2 Z -> dchain X (l1 ++ l2) Z.
Proof.
  induction l1 as [|a l1 IH]; intros X l2 Z M H1 H2; cbn in *; [now subst|].
  destruct H1 as (W & D & H1). split; [exact W|]. split; [exact D|]. eapply IH; eauto.
Qed.

Lemma dchain_rev_dagger ts : forall X Y, dchain X ts Y -> dchain Y (rev (map ddagger ts)) X.
Proof.
  induction ts as [|a ts IH]; intros X Y H; cbn in *; [now subst|].
  destruct H as (W & D & H). destruct (ddagger_dom_cod a W) as [Da Ca].
  eapply dchain_app; [apply IH; exact H|]. cbn [dchain]. split; [apply ddagger_wf, W|]. split; congruence.
Qed.

(* composing the daggers in reverse order *)
Lemma then_all_dagger ts : forall X Y, dchain X ts Y ->
  exists u, then_all (did X) ts = Ok u /\
            then_all (did Y) (rev (map ddagger ts)) = Ok (ddagger u).
Proof.
  induction ts as [|t ts IH] using rev_ind; intros X Y Hc.
  - cbn in *. subst. eexists; split; reflexivity.
  - (* split the chain at the last element *)
    assert (Hsplit : exists M, dchain X ts M /\ wf t /\ ddom t = M /\ dcod t = Y).
    { clear IH. revert X Hc. induction ts as [|a ts IHts]; intros X Hc; cbn in *.
      - destruct Hc as (W & D & E). exists X. auto.
      - destruct Hc as (W & D & Hc). destruct (IHts _ Hc) as (M & H1 & H2). exists M. cbn. auto. }
    destruct Hsplit as (M & Hc1 & Wt & Dt & Ct).
    destruct (IH X M Hc1) as (u & Eu & Ed).
    destruct (then_all_ok ts (did X) X M (did_wf _) eq_refl Hc1) as (u' & Eu' & Wu & Du & Cu).
    rewrite Eu in Eu'. inversion Eu'; subst u'.
    rewrite then_all_app, Eu. cbn [bind then_all].
    destruct (dthen_val u t Wu Wt (eq_trans Cu (eq_sym Dt))) as [E (Wut & _)].
    rewrite E. eexists; split; [reflexivity|].
    rewrite map_app, rev_app_distr. cbn [map rev app then_all].
    (* did Y ; t^dagger = t^dagger, then continue with the reversed prefix *)
    destruct (ddagger_dom_cod t Wt) as [Dd Cd].
    assert (E0 : dthen (did Y) (ddagger t) = Ok (ddagger t)).
    { rewrite <- Ct, <- Dd. apply dthen_id_l, ddagger_wf, Wt. }
    rewrite E0. cbn [bind].
    pose proof (dchain_rev_dagger ts X M Hc1) as Hcr.
    rewrite (then_all_prefix _ (ddagger t) M X (ddagger_wf _ Wt) ltac:(congruence) Hcr).
    rewrite Ed. cbn [bind].
    apply (ddagger_then u t _ E).
Qed.

(* a plain box whose table entry is a well-typed diagram of library-shaped boxes *)
Definition plain_ok (Fn : functor) (b : box) : Prop :=
  bk b = KBox /\
  exists X, lookup_ar (far Fn) (if bdag b then box_dagger b else b) = Ok X /\ wf X /\ boxes_ok X.

Lemma kbox_dagger_facts b : bk b = KBox ->
  bk (box_dagger b) = KBox /\ bdag (box_dagger b) = negb (bdag b) /\ box_dagger (box_dagger b) = b.
Proof.
  intros Hk. split; [|split].
  - unfold box_dagger. rewrite Hk. reflexivity.
  - unfold box_dagger. rewrite Hk. reflexivity.
  - apply box_dagger_invol. unfold box_ok. now rewrite Hk.
Qed.

Lemma f_box_kbox Fn b : bk b = KBox ->
  f_box Fn b = if bdag b then (do d <- lookup_ar (far Fn) (box_dagger b); Ok (ddagger d))
               else lookup_ar (far Fn) b.
Proof. intros Hk. unfold f_box. now rewrite Hk. Qed.

Lemma f_box_dagger Fn b : plain_ok Fn b ->
  f_box Fn (box_dagger b) = (do t <- f_box Fn b; Ok (ddagger t)).
Proof.
  intros (Hk & X & HX & WX & BX). destruct (kbox_dagger_facts b Hk) as (K1 & K2 & K3).
  rewrite (f_box_kbox Fn _ K1), (f_box_kbox Fn _ Hk), K2, K3.
  destruct (bdag b); cbn [negb] in *.
  - rewrite HX. cbn [bind]. now rewrite ddagger_invol.
  - rewrite HX. reflexivity.
Qed.

Lemma F_layer_dagger Fn l : covers Fn (ldom l) -> typed_img Fn (lbox l) -> plain_ok Fn (lbox l) ->
  F_layer Fn (layer_dagger l) = (do t <- F_layer Fn l; Ok (ddagger t)).
Proof.
  intros Hc (d & fd & fc & Eb & Wd & Fd & Fc & Dd & Cd) Hp. unfold ldom in Hc.
  apply covers_app in Hc. destruct Hc as [(fl & El) Hc]. apply covers_app in Hc. destruct Hc as [_ (fr & Er)].
  unfold F_layer, layer_dagger, lleft, lbox, lright. cbn [fst snd].
  fold (lleft l) (lright l) (lbox l). rewrite El, Er. cbn [bind].
  rewrite (f_box_dagger Fn _ Hp), Eb. cbn [bind].
  destruct (dtensor_val (did fl) d (did_wf _) Wd) as [E1 W1]. rewrite E1. cbn [bind].
  destruct (dtensor_val (did fl) (ddagger d) (did_wf _) (ddagger_wf _ Wd)) as [E1' _]. rewrite E1'. cbn [bind].
  destruct (dtensor_val _ (did fr) W1 (did_wf _)) as [E2 _]. rewrite E2. cbn [bind].
  rewrite <- (ddagger_tensor_val_l fl d Wd).
  destruct (dtensor_val _ (did fr) (ddagger_wf _ W1) (did_wf _)) as [E2' _]. rewrite E2'.
  now rewrite (ddagger_tensor_val_r fr _ W1).
Qed.

Lemma Forall2_rev {A B} (R : A -> B -> Prop) l1 l2 : Forall2 R l1 l2 -> Forall2 R (rev l1) (rev l2).
Proof.
  induction 1; cbn; [constructor|]. apply Forall2_app; [assumption|]. constructor; [assumption|constructor].
Qed.

(* F(d[::-1]) = F(d)[::-1] for diagrams of plain boxes *)
Theorem functor_dagger_plain Fn d : wf d -> defined_on Fn d -> Forall (plain_ok Fn) (dboxes d) ->
  f_apply Fn (ddagger d) = (do fd <- f_apply Fn d; Ok (ddagger fd)).
Proof.
  intros W Hd Hp. pose proof W as (W1 & W2 & W3 & W4 & W5).
  destruct (f_apply_imgs Fn d W Hd) as (ts & fd & fc & Efd & Efc & F2 & Hch & E).
  destruct (then_all_dagger ts fd fc Hch) as (u & Eu & Ed).
  rewrite E, Eu. cbn [bind].
  rewrite (f_apply_layers Fn _ (ddagger_wf d W)). destruct (ddagger_dom_cod d W) as [Dd Cd].
  rewrite Dd, Efc. cbn [bind]. rewrite ddagger_eq. cbn [of_layers dlayers la_ls].
  rewrite <- Ed. apply f_layers_imgs.
  rewrite (map_rev layer_dagger).
  (* every layer's covering and box conditions *)
  pose proof (defined_layers Fn d W Hd) as Lt.
  assert (Lp : Forall (fun l => plain_ok Fn (lbox l)) (la_ls (dlayers d))).
  { rewrite W4 in Hp. apply (Forall_map_iff lbox (plain_ok Fn)) in Hp. exact Hp. }
  assert (Lc : Forall (fun l => covers Fn (ldom l)) (la_ls (dlayers d))).
  { unfold la_wf in W3. rewrite W1 in W3. clear - W3 Efd Lt. revert W3 Efd Lt. generalize (ddom d) fd.
    induction (la_ls (dlayers d)) as [|l ls IH]; intros X fX Hc HX Hl; [constructor|].
    destruct Hc as [-> Hc]. inversion Hl; subst. constructor; [eexists; eauto|].
    destruct (F_layer_typed Fn l (ex_intro _ fX HX) H1) as (t & fa' & fb' & _ & _ & _ & Fb' & _).
    eapply IH; eauto. }
  apply Forall2_rev.
  clear - F2 Lt Lp Lc. induction F2 as [|l t ls ts0 Hlt Hrest IH]; cbn [map]; [constructor|].
  inversion Lt; inversion Lp; inversion Lc; subst. constructor; [|apply IH; assumption].
  rewrite (F_layer_dagger Fn l) by assumption. rewrite Hlt. reflexivity.
Qed.
