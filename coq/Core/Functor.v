(* monoidal.Functor.__call__ and rigid.Functor.__call__ into the free
   (monoidal / rigid) category, object and arrow maps given as finite maps. *)
From Coq Require Import List ZArith Bool Lia.
Import ListNotations.
Require Import DV.Common.Base DV.Core.Diagram DV.Core.Perm DV.Core.Rigid.
Open Scope Z_scope.

Record functor := F { fob : list (Z * ty); far : list (box * diagram) }.

Fixpoint lookup_ob (m : list (Z * ty)) (n : Z) : res ty :=
  match m with
  | [] => Err BadProgram      (* KeyError: generators never ask for a missing key *)
  | (k, v) :: m' => if k =? n then Ok v else lookup_ob m' n
  end.

Fixpoint lookup_ar (m : list (box * diagram)) (b : box) : res diagram :=
  match m with
  | [] => Err BadProgram
  | (k, v) :: m' => if box_eqb k b then Ok v else lookup_ar m' b
  end.

Fixpoint iter {A} (n : nat) (f : A -> A) (x : A) : A :=
  match n with O => x | S n' => iter n' f (f x) end.

(* rigid.Functor.__call__ on one object: image of the z = 0 object, then .l / .r *)
Definition f_ob (Fn : functor) (x : ob) : res ty :=
  do t <- lookup_ob (fob Fn) (oname x);
  if oz x <? 0 then Ok (iter (Z.to_nat (- oz x)) ty_l t)
  else Ok (iter (Z.to_nat (oz x)) ty_r t).

Fixpoint f_ty (Fn : functor) (t : ty) : res ty :=
  match t with
  | [] => Ok []
  | x :: t' => do a <- f_ob Fn x; do b <- f_ty Fn t'; Ok (a ++ b)
  end.

(* image of a box: Swap, Cup, Cap, daggered and plain boxes *)
Definition f_box (Fn : functor) (b : box) : res diagram :=
  match bk b with
  | KSwap =>
      do l <- f_ty Fn (py_slice (bdom b) None (Some 1));
      do r <- f_ty Fn (py_slice (bdom b) (Some 1) None);
      dswap l r
  | KCup =>
      do l <- f_ty Fn (py_slice (bdom b) None (Some 1));
      do r <- f_ty Fn (py_slice (bdom b) (Some 1) None);
      dcups l r
  | KCap =>
      do l <- f_ty Fn (py_slice (bcod b) None (Some 1));
      do r <- f_ty Fn (py_slice (bcod b) (Some 1) None);
      dcaps l r
  | KBox =>
      if bdag b then do d <- lookup_ar (far Fn) (box_dagger b); Ok (ddagger d)
      else lookup_ar (far Fn) b
  end.

Fixpoint f_loop (Fn : functor) (scan : ty) (result : diagram)
         (bs : list box) (offs : list Z) : res diagram :=
  match bs, offs with
  | b :: bs', off :: offs' =>
      let l := py_slice scan None (Some off) in
      let r := py_slice scan (Some (off + len (bdom b))) None in
      do fl <- f_ty Fn l;
      do fr <- f_ty Fn r;
      do fb <- f_box Fn b;
      do t1 <- dtensor (did fl) fb;
      do t2 <- dtensor t1 (did fr);
      do result' <- dthen result t2;
      f_loop Fn (l ++ bcod b ++ r) result' bs' offs'
  | _, _ => Ok result
  end.

Definition f_apply (Fn : functor) (d : diagram) : res diagram :=
  do fd <- f_ty Fn (ddom d);
  f_loop Fn (ddom d) (did fd) (dboxes d) (doffs d).
