(* DSL of operations on formal sums (on top of the diagram DSL), interpreter and
   wire codec. *)
From Coq Require Import List ZArith Bool Lia.
Import ListNotations.
Require Import DV.Common.Base DV.Core.Diagram DV.Core.Prog DV.Core.Sum.
Open Scope Z_scope.

Inductive sprog :=
| SOf (ps : list prog) (dom cod : option ty)
| SAdd (a b : sprog)
| SThen (a b : sprog)
| STensor (a b : sprog)
| SDagger (a : sprog).

Fixpoint run_s (p : sprog) : res dsum :=
  match p with
  | SOf ps dom cod => do ds <- mapM (fun q => as_diagram (run q)) ps; sum_mk ds dom cod
  | SAdd a b => do x <- run_s a; do y <- run_s b; sum_add x y
  | SThen a b => do x <- run_s a; do y <- run_s b; sum_then x y
  | STensor a b => do x <- run_s a; do y <- run_s b; sum_tensor x y
  | SDagger a => do x <- run_s a; sum_dagger x
  end.

Definition dec_opt_ty (s : sexp) : res (option ty) :=
  match s with
  | L [] => Ok None
  | L [t] => do t' <- dec_ty t; Ok (Some t')
  | _ => Err BadProgram
  end.

Fixpoint dec_sprog (fuel : nat) (s : sexp) : res sprog :=
  match fuel with
  | O => Err BadProgram
  | S f =>
    match s with
    | L [I 0; L ps; d; c] =>
        do ps' <- mapM (dec_prog 1000) ps; do d' <- dec_opt_ty d; do c' <- dec_opt_ty c;
        Ok (SOf ps' d' c')
    | L [I 1; a; b] => do a' <- dec_sprog f a; do b' <- dec_sprog f b; Ok (SAdd a' b')
    | L [I 2; a; b] => do a' <- dec_sprog f a; do b' <- dec_sprog f b; Ok (SThen a' b')
    | L [I 3; a; b] => do a' <- dec_sprog f a; do b' <- dec_sprog f b; Ok (STensor a' b')
    | L [I 4; a] => do a' <- dec_sprog f a; Ok (SDagger a')
    | _ => Err BadProgram
    end
  end.

Definition enc_sum (s : dsum) : sexp :=
  L [L (map enc_diagram (sterms s)); enc_ty (sdom s); enc_ty (scod s)].

(* entry point of the `sums` runner: (0 <diagram program>) or (1 <sum program>) *)
Definition run_sexp2 (s : sexp) : sexp :=
  match s with
  | L [I 0; p] => run_sexp p
  | L [I 1; p] =>
      match dec_sprog 100 p with
      | Ok sp => match run_s sp with
                 | Ok v => L [I 0; L [I 2; enc_sum v]]
                 | Err e => L [I 1; I (err_code e)]
                 end
      | Err e => L [I 1; I (err_code e)]
      end
  | _ => L [I 1; I (err_code BadProgram)]
  end.
