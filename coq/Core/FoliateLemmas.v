(* Proofs about rewriting.foliate / foliation / depth (Core/Foliate.v): every
   yielded diagram and every slice is well-typed, the slices compose from dom to
   cod and flatten to the last yielded diagram, no slice is empty, every slice
   has depth 1 (its boxes sit side by side), and foliate never fails on a
   well-typed diagram.  The section is parametric in a relation R preserved by
   adjacent interchanges, instantiated in Sem/FoliateSem.v by "same denotation". *)
From Coq Require Import List ZArith Bool Lia.
Import ListNotations.
Require Import DV.Common.Base DV.Common.ListLemmas DV.Core.Diagram DV.Core.WF
  DV.Core.DiagramLemmas DV.Core.Rewriting DV.Core.RewritingLemmas DV.Core.Foliate.
Open Scope Z_scope.

(* ------------------------------------------------------------ lists *)
Lemma last_cons_def {A} (x : A) l d : last (x :: l) d = last l x.
Proof.
  revert x d. induction l as [|y l IH]; intros x d; [reflexivity|].
  change (last (x :: y :: l) d) with (last (y :: l) d). rewrite IH.
  symmetry. apply IH.
Qed.

Lemma last_app_def {A} (a b : list A) d : last (a ++ b) d = last b (last a d).
Proof.
  revert d. induction a as [|x a IH]; intros d; [reflexivity|].
  change ((x :: a) ++ b) with (x :: (a ++ b)). rewrite !last_cons_def. apply IH.
Qed.

Lemma firstn_eq_le {A} (l l' : list A) p q : (q <= p)%nat ->
  firstn p l = firstn p l' -> firstn q l = firstn q l'.
Proof.
  intros Hq H. replace q with (Nat.min q p) by lia.
  rewrite <- !firstn_firstn. now rewrite H.
Qed.

Lemma firstn_splice {A} (l x r : list A) p i : (p <= i)%nat -> (i <= length l)%nat ->
  firstn p (firstn i l ++ x ++ r) = firstn p l.
Proof.
  intros Hp Hi. rewrite firstn_app, firstn_firstn, firstn_length.
  replace (Nat.min p i) with p by lia.
  replace (p - Nat.min i (length l))%nat with 0%nat by lia.
  cbn [firstn]. apply app_nil_r.
Qed.

Lemma nth_error_firstn_lt {A} (l : list A) p j : (j < p)%nat ->
  nth_error (firstn p l) j = nth_error l j.
Proof.
  revert p j. induction l as [|x l IH]; intros p j Hj.
  - now rewrite firstn_nil.
  - destruct p as [|p]; [lia|]. destruct j as [|j]; cbn [firstn nth_error]; [reflexivity|].
    apply IH. lia.
Qed.

Lemma nth_error_firstn_eq {A} (l l' : list A) p j : (j < p)%nat ->
  firstn p l = firstn p l' -> nth_error l j = nth_error l' j.
Proof.
  intros Hj H. rewrite <- (nth_error_firstn_lt l p j Hj), <- (nth_error_firstn_lt l' p j Hj).
  now rewrite H.
Qed.

Lemma nth_error_skipn_add {A} (l : list A) i j : nth_error (skipn i l) j = nth_error l (i + j).
Proof.
  revert l. induction i as [|i IH]; intros l; [reflexivity|].
  destruct l as [|x l]; cbn [skipn Nat.add nth_error]; [now destruct j|]. apply IH.
Qed.

Lemma firstn_skipn_mid {A} (l : list A) i j : (i <= j)%nat ->
  firstn (j - i) (skipn i l) ++ skipn j l = skipn i l.
Proof.
  intros Hij. rewrite <- (firstn_skipn (j - i) (skipn i l)) at 2. f_equal.
  rewrite skipn_skipn'. f_equal. lia.
Qed.

Lemma firstn_skipn_eq {A} (l l' : list A) i j :
  firstn j l = firstn j l' -> firstn (j - i) (skipn i l) = firstn (j - i) (skipn i l').
Proof.
  intros H. destruct (Nat.le_gt_cases i j) as [Hij|Hij].
  - rewrite !firstn_skipn_comm. replace (i + (j - i))%nat with j by lia. now rewrite H.
  - replace (j - i)%nat with 0%nat by lia. reflexivity.
Qed.

Lemma concat_map_map {A B C} (f : B -> C) (g : A -> list B) (l : list A) :
  concat (map (fun s => map f (g s)) l) = map f (concat (map g l)).
Proof. rewrite concat_map, map_map. reflexivity. Qed.

(* ------------------------------------------------------------ types along a chain *)
Lemma type_at_firstn a ls p k : (k <= p)%nat -> type_at a (firstn p ls) k = type_at a ls k.
Proof.
  revert a p k. induction ls as [|l ls IH]; intros a p k Hk.
  - now rewrite firstn_nil.
  - destruct k as [|k]; [now rewrite !type_at_0|]. destruct p as [|p]; [lia|].
    cbn [firstn type_at]. apply IH. lia.
Qed.

Lemma type_at_firstn_eq a ls ls' p k : (k <= p)%nat -> firstn p ls = firstn p ls' ->
  type_at a ls k = type_at a ls' k.
Proof.
  intros Hk H. rewrite <- (type_at_firstn a ls p k Hk), <- (type_at_firstn a ls' p k Hk).
  now rewrite H.
Qed.

Lemma type_at_skipn a ls i m : (i <= length ls)%nat ->
  type_at (type_at a ls i) (skipn i ls) m = type_at a ls (i + m).
Proof.
  revert a i. induction ls as [|l ls IH]; intros a i Hi.
  - cbn [length] in Hi. replace i with 0%nat by lia. reflexivity.
  - destruct i as [|i]; [now rewrite type_at_0|].
    cbn [type_at skipn Nat.add]. apply IH. cbn [length] in Hi. lia.
Qed.

(* d[i:j] for i < j within range, in the style of la_slice_prefix *)
Lemma la_slice_mid a i j : la_wf a -> (i < j)%nat -> (j <= length (la_ls a))%nat ->
  la_slice a (Some (Z.of_nat i)) (Some (Z.of_nat j)) =
  LA (type_at (la_dom a) (la_ls a) i) (type_at (la_dom a) (la_ls a) j)
     (firstn (j - i) (skipn i (la_ls a))).
Proof.
  intros H Hij Hj. unfold la_slice. rewrite py_slice_mid by lia.
  unfold len.
  replace (Z.to_nat (Z.min (Z.of_nat j) (Z.of_nat (length (la_ls a))) -
                     Z.min (Z.of_nat i) (Z.of_nat (length (la_ls a))))) with (j - i)%nat by lia.
  replace (Z.to_nat (Z.min (Z.of_nat i) (Z.of_nat (length (la_ls a))))) with i by lia.
  assert (Hc : chain (type_at (la_dom a) (la_ls a) i) (firstn (j - i) (skipn i (la_ls a)))
                     (type_at (la_dom a) (la_ls a) j)).
  { pose proof (chain_skipn _ _ _ i H ltac:(lia)) as Hs.
    pose proof (chain_firstn _ _ _ (j - i)%nat Hs) as Hf.
    rewrite type_at_skipn in Hf by lia. replace (i + (j - i))%nat with j in Hf by lia.
    apply Hf. rewrite skipn_length. lia. }
  destruct (firstn (j - i) (skipn i (la_ls a))) as [|l0 sub] eqn:E.
  - exfalso. apply (f_equal (@length _)) in E. rewrite firstn_length, skipn_length in E.
    cbn [length] in E. lia.
  - destruct (chain_ends _ _ _ _ Hc) as [H1 H2]. now rewrite <- H1, <- H2.
Qed.

Lemma dslice_mid d i j : wf d -> (i < j)%nat -> (j <= length (dboxes d))%nat ->
  wf (dslice d (Some (Z.of_nat i)) (Some (Z.of_nat j))) /\
  ddom (dslice d (Some (Z.of_nat i)) (Some (Z.of_nat j))) = type_at (ddom d) (la_ls (dlayers d)) i /\
  dcod (dslice d (Some (Z.of_nat i)) (Some (Z.of_nat j))) = type_at (ddom d) (la_ls (dlayers d)) j /\
  la_ls (dlayers (dslice d (Some (Z.of_nat i)) (Some (Z.of_nat j)))) =
    firstn (j - i) (skipn i (la_ls (dlayers d))).
Proof.
  intros Hwf Hij Hj. split; [now apply dslice_wf|].
  destruct (wf_lengths d Hwf) as [Lb _]. pose proof Hwf as (W1 & _ & W3 & _).
  unfold dslice. rewrite la_slice_mid by (auto; lia). unfold of_layers.
  cbn [ddom dcod dlayers la_dom la_cod la_ls]. rewrite W1. auto.
Qed.

(* ------------------------------------------------------------ what an exchange leaves alone *)
Section Stable.
  (* any relation between diagrams that adjacent interchanges establish, e.g.
     "same denotation"; (fun _ _ => True) for the structural results *)
  Variable R : diagram -> diagram -> Prop.
  Hypothesis R_refl : forall d, R d d.
  Hypothesis R_trans : forall a b c, R a b -> R b c -> R a c.
  Hypothesis R_adj : forall d i left d', wf d -> interchange_adj d i left = Ok d' -> R d d'.

  (* d' is a well-typed rearrangement of d whose first p layers are those of d *)
  Definition stable (p : nat) (d d' : diagram) : Prop :=
    wf d' /\ same_shape d d' /\
    firstn p (la_ls (dlayers d')) = firstn p (la_ls (dlayers d)) /\ R d d'.

  Lemma stable_refl p d : wf d -> stable p d d.
  Proof. intros H. unfold stable. auto using same_shape_refl. Qed.

  Lemma stable_trans p a b c : stable p a b -> stable p b c -> stable p a c.
  Proof.
    intros (W1 & S1 & F1 & R1) (W2 & S2 & F2 & R2). unfold stable.
    split; [exact W2|]. split; [eapply same_shape_trans; eauto|].
    split; [congruence|eauto].
  Qed.

  Lemma stable_le p q d d' : (q <= p)%nat -> stable p d d' -> stable q d d'.
  Proof.
    intros Hq (W & S & F & HR). unfold stable.
    split; [exact W|]. split; [exact S|]. split; [|exact HR].
    eapply firstn_eq_le; eauto.
  Qed.

  Lemma stable_wf p d d' : stable p d d' -> wf d'.
  Proof. intros H; apply H. Qed.
  Lemma stable_len p d d' : stable p d d' -> length (dboxes d') = length (dboxes d).
  Proof. intros (_ & S & _). apply S. Qed.

  Lemma adj_stable p d i left d' : wf d -> interchange_adj d i left = Ok d' -> (p <= i)%nat ->
    stable p d d'.
  Proof.
    intros Hwf H Hp. destruct (interchange_adj_shape _ _ _ _ Hwf H) as [W S].
    unfold stable. split; [exact W|]. split; [exact S|]. split; [|eapply R_adj; eauto].
    destruct (interchange_adj_inv d i left d' Hwf H)
      as (left0 & box0 & right0 & left1 & box1 & right1 & mid & E0 & E1 & _ & Hcase).
    assert (Hi : (i <= length (la_ls (dlayers d)))%nat).
    { assert (i < length (la_ls (dlayers d)))%nat by (apply nth_error_Some; rewrite E0; discriminate). lia. }
    destruct Hcase as [(_ & _ & Hls)|(_ & _ & Hls)]; rewrite Hls; apply firstn_splice; auto.
  Qed.

  Lemma up_stable p n : forall d i left d', wf d -> interchange_up d i n left = Ok d' -> (p <= i)%nat ->
    stable p d d'.
  Proof.
    induction n as [|n IH]; cbn [interchange_up]; intros d i left d' Hwf H Hp.
    - inversion H; subst. now apply stable_refl.
    - destruct (interchange_adj d i left) as [d1|] eqn:E; [|discriminate]. cbn [bind] in H.
      pose proof (adj_stable p _ _ _ _ Hwf E Hp) as S1.
      eapply stable_trans; [exact S1|]. eapply IH; [eapply stable_wf; eauto|exact H|lia].
  Qed.

  Lemma down_stable p n : forall d i left d', wf d -> interchange_down d i n left = Ok d' ->
    (p <= i - n)%nat -> stable p d d'.
  Proof.
    induction n as [|n IH]; cbn [interchange_down]; intros d i left d' Hwf H Hp.
    - inversion H; subst. now apply stable_refl.
    - destruct (interchange_adj d (i - 1) left) as [d1|] eqn:E; [|discriminate]. cbn [bind] in H.
      pose proof (adj_stable p _ _ _ _ Hwf E ltac:(lia)) as S1.
      eapply stable_trans; [exact S1|]. eapply IH; [eapply stable_wf; eauto|exact H|lia].
  Qed.

  Lemma interchange_stable p d i j left d' : wf d ->
    interchange d (Z.of_nat i) (Z.of_nat j) left = Ok d' -> (p <= i)%nat -> (p <= j)%nat ->
    stable p d d'.
  Proof.
    intros Hwf H Hi Hj. unfold interchange in H. destruct (negb _); [discriminate|].
    destruct (Z.of_nat i =? Z.of_nat j) eqn:E1; [inversion H; subst; now apply stable_refl|].
    destruct (Z.of_nat j <? Z.of_nat i) eqn:E2.
    - apply Z.ltb_lt in E2. rewrite Nat2Z.id in H.
      replace (Z.to_nat (Z.of_nat i - Z.of_nat j)) with (i - j)%nat in H by lia.
      eapply down_stable; eauto. lia.
    - rewrite Nat2Z.id in H. eapply up_stable; eauto.
  Qed.

  (* ---------------------------------------------------------- move_in_slice *)
  Lemma move_in_slice_eq first m k d : move_in_slice first m k d =
    (do r1 <- catch_ie (if Nat.eqb k (S (first + m)) then Ok d
                        else interchange d (Z.of_nat k) (Z.of_nat (S (first + m))) false);
     match r1 with
     | None => Ok None
     | Some result =>
       do side <- is_right_of result (first + m);
       match side with
       | None => Ok None
       | Some true => Ok (Some result)
       | Some false =>
         do r2 <- catch_ie (interchange result (Z.of_nat (S (first + m))) (Z.of_nat (first + m)) false);
         match r2 with
         | None => Ok None
         | Some result' =>
           match m with
           | O => Ok (Some result')
           | S m' => move_in_slice first m' (first + m) result'
           end
         end
       end
     end).
  Proof. destruct m; reflexivity. Qed.

  Lemma catch_bind_some {B} (r : res diagram) (f : diagram -> res (option B)) v :
    (do x <- catch_ie r; match x with None => Ok None | Some y => f y end) = Ok (Some v) ->
    exists y, r = Ok y /\ f y = Ok (Some v).
  Proof.
    destruct r as [y|e]; cbn [catch_ie bind]; [eauto|]. destruct e; cbn [bind]; discriminate.
  Qed.

  (* what a successful move_in_slice did *)
  Lemma move_in_slice_inv first m k d d' :
    move_in_slice first m k d = Ok (Some d') ->
    exists result,
      (if Nat.eqb k (S (first + m)) then Ok d
       else interchange d (Z.of_nat k) (Z.of_nat (S (first + m))) false) = Ok result /\
      ((is_right_of result (first + m) = Ok (Some true) /\ d' = result) \/
       (is_right_of result (first + m) = Ok (Some false) /\
        exists result',
          interchange result (Z.of_nat (S (first + m))) (Z.of_nat (first + m)) false = Ok result' /\
          match m with
          | O => d' = result'
          | S m' => move_in_slice first m' (first + m) result' = Ok (Some d')
          end)).
  Proof.
    rewrite move_in_slice_eq. intros H.
    apply catch_bind_some in H. destruct H as (result & H1 & H).
    exists result. split; [exact H1|].
    destruct (is_right_of result (first + m)) as [[[|]|]|] eqn:Es; cbn [bind] in H; try discriminate.
    - left. split; [reflexivity|]. inversion H; reflexivity.
    - right. split; [reflexivity|].
      apply catch_bind_some in H. destruct H as (result' & H2 & H).
      exists result'. split; [exact H2|]. destruct m; [inversion H; reflexivity|exact H].
  Qed.

  Lemma move_in_slice_stable first m : forall k d d', wf d -> (first + m < k)%nat ->
    move_in_slice first m k d = Ok (Some d') -> stable first d d'.
  Proof.
    induction m as [|m IH]; intros k d d' Hwf Hk H;
      destruct (move_in_slice_inv _ _ _ _ _ H) as (result & H1 & Hcase);
      (assert (S1 : stable first d result);
       [ destruct (Nat.eqb k _);
         [ inversion H1; subst; now apply stable_refl
         | eapply interchange_stable; [exact Hwf|exact H1|lia|lia] ] | ]);
      (destruct Hcase as [[_ ->]|(_ & result' & H2 & H3)]; [exact S1|]);
      (assert (S2 : stable first result result');
       [ eapply interchange_stable; [eapply stable_wf; exact S1|exact H2|lia|lia] | ]).
    - subst d'. eapply stable_trans; eauto.
    - eapply stable_trans; [exact S1|]. eapply stable_trans; [exact S2|].
      eapply IH; [eapply stable_wf; exact S2| |exact H3]. lia.
  Qed.

  (* ---------------------------------------------------------- the inner loop *)
  Lemma Forall_last {A} (P : A -> Prop) l : forall d, P d -> Forall P l -> P (last l d).
  Proof.
    induction l as [|x l IH]; intros d Hd HF; [exact Hd|].
    inversion HF; subst. rewrite last_cons_def. apply IH; auto.
  Qed.

  Lemma fol_inner_spec n : forall start lst k d acc d' lst' acc',
    wf d -> (start <= lst)%nat -> (lst < k)%nat ->
    fol_inner n start lst k d acc = Ok (d', lst', acc') ->
    exists new, acc' = rev new ++ acc /\ d' = last new d /\
      Forall (stable start d) new /\ stable start d d' /\
      (lst <= lst')%nat /\ (lst' < k + n)%nat.
  Proof.
    induction n as [|n IH]; cbn [fol_inner]; intros start lst k d acc d' lst' acc' Hwf Hs Hk H.
    - inversion H; subst. exists []. cbn [rev app last].
      split; [reflexivity|]. split; [reflexivity|]. split; [constructor|].
      split; [now apply stable_refl|]. lia.
    - destruct (move_in_slice start (lst - start) k d) as [[d1|]|] eqn:E; cbn [bind] in H; [| |discriminate].
      + pose proof (move_in_slice_stable start (lst - start) k d d1 Hwf ltac:(lia) E) as S1.
        destruct (IH start (S lst) (S k) d1 (d1 :: acc) d' lst' acc' (stable_wf _ _ _ S1)
                    ltac:(lia) ltac:(lia) H) as (new & Ha & Hd & HF & S2 & L1 & L2).
        exists (d1 :: new). cbn [rev]. rewrite <- app_assoc. cbn [app].
        split; [exact Ha|]. split; [now rewrite last_cons_def|].
        split; [|split; [eapply stable_trans; eauto|lia]].
        constructor; [exact S1|]. eapply Forall_impl; [|exact HF].
        intros x Hx. eapply stable_trans; eauto.
      + destruct (IH start lst (S k) d acc d' lst' acc' Hwf ltac:(lia) ltac:(lia) H)
          as (new & Ha & Hd & HF & S2 & L1 & L2).
        exists new. repeat (split; [assumption|]). lia.
  Qed.

  (* ---------------------------------------------------------- the outer loop *)
  Lemma fol_outer_spec fuel : forall start d acc slices steps sl,
    wf d -> (start <= length (dboxes d))%nat ->
    fol_outer fuel start d acc slices = Ok (steps, sl) ->
    exists new nsl, steps = rev acc ++ new /\ sl = rev slices ++ nsl /\
      Forall (stable start d) new /\
      concat (map (fun s => la_ls (dlayers s)) nsl) = skipn start (la_ls (dlayers (last new d))) /\
      slices_chain (type_at (ddom d) (la_ls (dlayers d)) start) nsl (dcod d) /\
      Forall wf nsl /\ Forall (fun s => dboxes s <> []) nsl.
  Proof.
    induction fuel as [|fuel IH]; cbn [fol_outer]; intros start d acc slices steps sl Hwf Hs H; [discriminate|].
    destruct (wf_lengths d Hwf) as [Lb _]. pose proof Hwf as (W1 & W2 & W3 & _).
    destruct (Nat.ltb start (length (dboxes d))) eqn:Elt.
    - apply Nat.ltb_lt in Elt.
      destruct (fol_inner _ start start (S start) d acc) as [[[d1 lst] acc1]|] eqn:E; [|discriminate].
      cbn [bind] in H.
      destruct (fol_inner_spec _ _ _ _ _ _ _ _ _ Hwf (Nat.le_refl _) (Nat.lt_succ_diag_r _) E)
        as (new1 & Ha1 & Hd1 & F1 & S1 & L1 & L2).
      pose proof (stable_wf _ _ _ S1) as Hwf1. pose proof (stable_len _ _ _ S1) as Len1.
      destruct (wf_lengths d1 Hwf1) as [Lb1 _].
      destruct S1 as (_ & (Dd1 & Dc1 & _) & Fs1 & R1).
      destruct (dslice_mid d1 start (S lst) Hwf1 ltac:(lia) ltac:(lia)) as (Ws & Sd & Sc & Sl).
      set (slice := dslice d1 (Some (Z.of_nat start)) (Some (Z.of_nat (S lst)))) in *.
      destruct (IH (S lst) d1 acc1 (slice :: slices) steps sl Hwf1 ltac:(lia) H) as (new2 & nsl2 & Hst & Hsl & F2 & C2 & Ch2 & Wn2 & Ne2).
      exists (new1 ++ new2), (slice :: nsl2).
      split. { rewrite Hst, Ha1, rev_app_distr, rev_involutive, <- app_assoc. reflexivity. }
      split. { rewrite Hsl. cbn [rev]. rewrite <- app_assoc. reflexivity. }
      assert (S1 : stable start d d1).
      { unfold stable, same_shape. auto 10. }
      split.
      { apply Forall_app. split; [exact F1|]. eapply Forall_impl; [|exact F2].
        intros x Hx. eapply stable_trans; [exact S1|]. eapply stable_le; [|exact Hx]. lia. }
      rewrite last_app_def, <- Hd1.
      assert (Sdl : stable (S lst) d1 (last new2 d1)).
      { apply Forall_last; [now apply stable_refl|exact F2]. }
      destruct Sdl as (_ & _ & Fdl & _).
      split.
      { cbn [map concat]. rewrite C2, Sl.
        rewrite (firstn_skipn_eq _ _ start (S lst) (eq_sym Fdl)).
        apply firstn_skipn_mid. lia. }
      split.
      { cbn [slices_chain]. split.
        - rewrite Sd, Dd1. apply type_at_firstn_eq with (p := start); [lia|]. now rewrite Fs1.
        - rewrite Sc, <- Dc1. exact Ch2. }
      split; [constructor; assumption|].
      constructor; [|exact Ne2].
      destruct Ws as (_ & _ & _ & W4s & _). rewrite W4s, Sl. intros Hnil.
      apply (f_equal (@length _)) in Hnil.
      rewrite map_length, firstn_length, skipn_length in Hnil. cbn [length] in Hnil. lia.
    - apply Nat.ltb_ge in Elt. inversion H; subst.
      exists [], []. rewrite !app_nil_r. cbn [last map concat slices_chain].
      split; [reflexivity|]. split; [reflexivity|]. split; [constructor|].
      split; [rewrite skipn_all2; [reflexivity|lia]|].
      split; [|split; constructor].
      replace start with (length (la_ls (dlayers d))) by lia.
      rewrite <- W1, <- W2. apply type_at_all. exact W3.
  Qed.

  Theorem foliate_spec d steps slices : wf d -> foliate d = Ok (steps, slices) ->
    Forall (stable 0 d) steps /\
    concat (map (fun s => la_ls (dlayers s)) slices) = la_ls (dlayers (last_step d steps)) /\
    slices_chain (ddom d) slices (dcod d) /\
    Forall wf slices /\ Forall (fun s => dboxes s <> []) slices.
  Proof.
    intros Hwf H. unfold foliate in H.
    destruct (fol_outer_spec _ _ _ _ _ _ _ Hwf (Nat.le_0_l _) H)
      as (new & nsl & Hst & Hsl & F & C & Ch & Wn & Ne).
    cbn [rev app] in Hst, Hsl. subst new nsl. rewrite type_at_0 in Ch.
    unfold last_step. auto.
  Qed.
End Stable.

(* ------------------------------------------------------------ the structural theorems *)
Definition RT : diagram -> diagram -> Prop := fun _ _ => True.
Lemma RT_refl d : RT d d. Proof. exact Logic.I. Qed.
Lemma RT_trans a b c : RT a b -> RT b c -> RT a c. Proof. intros _ _. exact Logic.I. Qed.
Lemma RT_adj d i left d' : wf d -> interchange_adj d i left = Ok d' -> RT d d'.
Proof. intros _ _. exact Logic.I. Qed.

Lemma stable_shape R p d x : stable R p d x ->
  wf x /\ ddom x = ddom d /\ dcod x = dcod d /\ length (dboxes x) = length (dboxes d).
Proof. intros (W & (S1 & S2 & S3) & _). auto. Qed.

(* every yielded diagram is well-typed with the input's domain and codomain; every slice is well-typed *)
Theorem foliate_wf d steps slices : wf d -> foliate d = Ok (steps, slices) ->
  Forall (fun x => wf x /\ ddom x = ddom d /\ dcod x = dcod d /\ length (dboxes x) = length (dboxes d)) steps
  /\ Forall wf slices.
Proof.
  intros Hwf H.
  destruct (foliate_spec RT RT_refl RT_trans RT_adj d steps slices Hwf H) as (F & _ & _ & Ws & _).
  split; [|exact Ws]. eapply Forall_impl; [|exact F]. intros x Hx. eapply stable_shape; eauto.
Qed.

(* the slices compose from dom to cod *)
Theorem foliation_well_typed d steps slices : wf d -> foliate d = Ok (steps, slices) ->
  slices_chain (ddom d) slices (dcod d).
Proof.
  intros Hwf H.
  destruct (foliate_spec RT RT_refl RT_trans RT_adj d steps slices Hwf H) as (_ & _ & Ch & _). exact Ch.
Qed.

Lemma concat_wf_boxes slices : Forall wf slices ->
  concat (map dboxes slices) = map lbox (concat (map (fun s => la_ls (dlayers s)) slices)) /\
  concat (map doffs slices) =
    map (fun l => len (lleft l)) (concat (map (fun s => la_ls (dlayers s)) slices)).
Proof.
  induction 1 as [|s slices Hs _ [IH1 IH2]]; cbn [map concat]; [auto|].
  destruct Hs as (_ & _ & _ & W4 & W5). rewrite !map_app, IH1, IH2, <- W4, <- W5. auto.
Qed.

(* flattening the foliation gives the last yielded diagram back *)
Theorem foliation_flatten d steps slices : wf d -> foliate d = Ok (steps, slices) ->
  concat (map (fun s => la_ls (dlayers s)) slices) = la_ls (dlayers (last_step d steps)) /\
  concat (map dboxes slices) = dboxes (last_step d steps) /\
  concat (map doffs slices) = doffs (last_step d steps).
Proof.
  intros Hwf H.
  destruct (foliate_spec RT RT_refl RT_trans RT_adj d steps slices Hwf H) as (F & C & _ & Ws & _).
  split; [exact C|].
  assert (Wl : wf (last_step d steps)).
  { unfold last_step. apply Forall_last; [exact Hwf|].
    eapply Forall_impl; [|exact F]. intros x Hx. eapply stable_wf; eauto. }
  destruct Wl as (_ & _ & _ & W4 & W5). destruct (concat_wf_boxes slices Ws) as [B O].
  rewrite B, O, C, W4, W5. auto.
Qed.

(* no slice is empty, so depth <= number of boxes, and depth = 0 iff no box *)
Theorem foliation_slices_nonempty d steps slices : wf d -> foliate d = Ok (steps, slices) ->
  Forall (fun s => dboxes s <> []) slices.
Proof.
  intros Hwf H.
  destruct (foliate_spec RT RT_refl RT_trans RT_adj d steps slices Hwf H) as (_ & _ & _ & _ & Ne). exact Ne.
Qed.

Lemma length_concat_ge {A} (ls : list (list A)) : Forall (fun s => s <> []) ls ->
  (length ls <= length (concat ls))%nat.
Proof.
  induction 1 as [|s ls Hs _ IH]; cbn [concat length]; [lia|].
  rewrite app_length. destruct s; [congruence|cbn [length]; lia].
Qed.

(* depth <= number of boxes; depth = 0 iff there is no box *)
Corollary depth_bounds d n : wf d -> depth d = Ok n ->
  0 <= n <= len (dboxes d) /\ (n = 0 <-> dboxes d = []).
Proof.
  intros Hwf. unfold depth. destruct (foliate d) as [[steps slices]|] eqn:E; [|discriminate].
  cbn [bind snd]. intros H; inversion H; subst n. clear H.
  pose proof (foliation_slices_nonempty _ _ _ Hwf E) as Ne.
  destruct (foliation_flatten _ _ _ Hwf E) as (_ & B & _).
  destruct (foliate_wf _ _ _ Hwf E) as [F _].
  assert (Ll : length (dboxes (last_step d steps)) = length (dboxes d)).
  { unfold last_step. apply (Forall_last (fun x => length (dboxes x) = length (dboxes d))); [reflexivity|].
    eapply Forall_impl; [|exact F]. intros x Hx. apply Hx. }
  assert (Ne' : Forall (fun s : list box => s <> []) (map dboxes slices)).
  { apply Forall_map. exact Ne. }
  pose proof (length_concat_ge _ Ne') as Hle. rewrite B, Ll, map_length in Hle.
  unfold len. split; [lia|]. split.
  - intros H0. assert (Hs : slices = []) by (destruct slices; [reflexivity|cbn [length] in H0; lia]).
    subst slices. cbn [map concat] in B. rewrite <- B in Ll. cbn [length] in Ll.
    destruct (dboxes d); [reflexivity|discriminate].
  - intros Hnil. rewrite Hnil in Hle. cbn [length] in Hle. lia.
Qed.

(* ------------------------------------------------------------ totality *)
Lemma interchange_down_error n : forall d i left e, wf d -> (n <= i)%nat -> (i < length (dboxes d))%nat ->
  interchange_down d i n left = Err e -> e = InterchangerError.
Proof.
  induction n as [|n IH]; cbn [interchange_down]; intros d i left e Hwf Hn Hi H; [discriminate|].
  pose proof (interchange_adj_total d (i - 1) left Hwf ltac:(lia)) as T.
  destruct (interchange_adj d (i - 1) left) as [d1|e1] eqn:E; cbn [bind] in H.
  - destruct (interchange_adj_shape _ _ _ _ Hwf E) as [W1 (_ & _ & L1)].
    eapply (IH d1 (i - 1)%nat left e W1); [lia|lia|exact H].
  - inversion H; subst e1. apply T.
Qed.

(* a well-typed interchange with indices in range can only fail with InterchangerError *)
Lemma interchange_error d i j left e : wf d -> (i < length (dboxes d))%nat -> (j < length (dboxes d))%nat ->
  interchange d (Z.of_nat i) (Z.of_nat j) left = Err e -> e = InterchangerError.
Proof.
  intros Hwf Hi Hj. unfold interchange.
  assert (Hr : negb ((0 <=? Z.of_nat i) && (Z.of_nat i <? len (dboxes d)) &&
                     (0 <=? Z.of_nat j) && (Z.of_nat j <? len (dboxes d))) = false).
  { apply negb_false_iff. rewrite !andb_true_iff. unfold len.
    repeat split; try apply Z.leb_le; try apply Z.ltb_lt; lia. }
  rewrite Hr. destruct (Z.of_nat i =? Z.of_nat j); [discriminate|].
  destruct (Z.of_nat j <? Z.of_nat i) eqn:E2; intros H.
  - apply Z.ltb_lt in E2. rewrite Nat2Z.id in H.
    eapply interchange_down_error; [exact Hwf| |exact Hi|exact H]. lia.
  - apply Z.ltb_ge in E2. rewrite Nat2Z.id in H.
    eapply interchange_up_error; [exact Hwf| |exact H]. lia.
Qed.

Lemma interchange_wf_len d i j left d' : wf d ->
  interchange d (Z.of_nat i) (Z.of_nat j) left = Ok d' ->
  wf d' /\ length (dboxes d') = length (dboxes d).
Proof.
  intros Hwf H.
  pose proof (interchange_stable RT RT_refl RT_trans RT_adj 0 d i j left d' Hwf H
                (Nat.le_0_l _) (Nat.le_0_l _)) as S.
  apply stable_shape in S. tauto.
Qed.

Lemma catch_interchange d i j : wf d -> (i < length (dboxes d))%nat -> (j < length (dboxes d))%nat ->
  exists r, catch_ie (interchange d (Z.of_nat i) (Z.of_nat j) false) = Ok r /\
    match r with
    | Some d' => wf d' /\ length (dboxes d') = length (dboxes d)
    | None => True
    end.
Proof.
  intros Hwf Hi Hj. destruct (interchange d (Z.of_nat i) (Z.of_nat j) false) as [d'|e] eqn:E.
  - exists (Some d'). split; [reflexivity|]. eapply interchange_wf_len; eauto.
  - rewrite (interchange_error _ _ _ _ _ Hwf Hi Hj E). exists None. split; [reflexivity|exact Logic.I].
Qed.

Lemma is_right_of_ok d lst : wf d -> (S lst < length (dboxes d))%nat ->
  exists s, is_right_of d lst = Ok s.
Proof.
  intros Hwf Hl. destruct (wf_lengths d Hwf) as [Lb Lo]. unfold is_right_of.
  destruct (nth_error (doffs d) lst) as [o0|] eqn:E0; [|apply nth_error_None in E0; lia].
  destruct (nth_error (doffs d) (S lst)) as [o1|] eqn:E1; [|apply nth_error_None in E1; lia].
  destruct (nth_error (dboxes d) lst) as [b0|] eqn:E2; [|apply nth_error_None in E2; lia].
  destruct (nth_error (dboxes d) (S lst)) as [b1|] eqn:E3; [|apply nth_error_None in E3; lia].
  destruct (_ <=? _); [eauto|]. destruct (_ <=? _); eauto.
Qed.

Lemma move_in_slice_total_step first m k d :
  (forall result', wf result' -> length (dboxes result') = length (dboxes d) ->
     exists r, match m with
               | O => Ok (Some result')
               | S m' => move_in_slice first m' (first + m) result'
               end = Ok r) ->
  wf d -> (first + m < k)%nat -> (k < length (dboxes d))%nat ->
  exists r, move_in_slice first m k d = Ok r.
Proof.
  intros Hrec Hwf Hk Hlen. rewrite move_in_slice_eq.
  assert (H1 : exists r1,
    catch_ie (if Nat.eqb k (S (first + m)) then Ok d
              else interchange d (Z.of_nat k) (Z.of_nat (S (first + m))) false) = Ok r1 /\
    match r1 with
    | Some result => wf result /\ length (dboxes result) = length (dboxes d)
    | None => True
    end).
  { destruct (Nat.eqb k (S (first + m))).
    - exists (Some d). cbn [catch_ie]. auto.
    - apply catch_interchange; [exact Hwf|lia|lia]. }
  destruct H1 as ([result|] & -> & H1); cbn [bind]; [|eauto].
  destruct H1 as [W1 L1].
  destruct (is_right_of_ok result (first + m) W1 ltac:(lia)) as (s & ->). cbn [bind].
  destruct s as [[|]|]; [eauto| |eauto].
  destruct (catch_interchange result (S (first + m)) (first + m) W1 ltac:(lia) ltac:(lia))
    as ([result'|] & -> & H2); cbn [bind]; [|eauto].
  destruct H2 as [W2 L2]. apply Hrec; [exact W2|lia].
Qed.

Lemma move_in_slice_total first m : forall k d, wf d -> (first + m < k)%nat ->
  (k < length (dboxes d))%nat -> exists r, move_in_slice first m k d = Ok r.
Proof.
  induction m as [|m IH]; intros k d Hwf Hk Hlen; apply move_in_slice_total_step; auto.
  - intros result' _ _. eauto.
  - intros result' W L. apply IH; [exact W|lia|lia].
Qed.

Lemma fol_inner_total n : forall start lst k d acc, wf d -> (start <= lst)%nat -> (lst < k)%nat ->
  (k + n = length (dboxes d))%nat -> exists r, fol_inner n start lst k d acc = Ok r.
Proof.
  induction n as [|n IH]; cbn [fol_inner]; intros start lst k d acc Hwf Hs Hk Hn; [eauto|].
  destruct (move_in_slice_total start (lst - start) k d Hwf ltac:(lia) ltac:(lia)) as (r & E).
  rewrite E. cbn [bind]. destruct r as [d1|].
  - pose proof (move_in_slice_stable RT RT_refl RT_trans RT_adj start (lst - start) k d d1 Hwf
                  ltac:(lia) E) as S1.
    apply stable_shape in S1. destruct S1 as (W1 & _ & _ & L1).
    apply IH; [exact W1|lia|lia|lia].
  - apply IH; [exact Hwf|lia|lia|lia].
Qed.

Lemma fol_outer_total fuel : forall start d acc slices, wf d ->
  (length (dboxes d) - start < fuel)%nat -> exists r, fol_outer fuel start d acc slices = Ok r.
Proof.
  induction fuel as [|fuel IH]; intros start d acc slices Hwf Hf; [lia|]. cbn [fol_outer].
  destruct (Nat.ltb start (length (dboxes d))) eqn:Elt; [|eauto].
  apply Nat.ltb_lt in Elt.
  destruct (fol_inner_total (length (dboxes d) - S start) start start (S start) d acc Hwf
              (Nat.le_refl _) (Nat.lt_succ_diag_r _) ltac:(lia)) as ([[d1 lst] acc1] & E).
  rewrite E. cbn [bind].
  destruct (fol_inner_spec RT RT_refl RT_trans RT_adj _ _ _ _ _ _ _ _ _ Hwf
              (Nat.le_refl _) (Nat.lt_succ_diag_r _) E) as (_ & _ & _ & _ & S1 & L1 & _).
  apply stable_shape in S1. destruct S1 as (W1 & _ & _ & Len1).
  apply IH; [exact W1|lia].
Qed.

(* on a well-typed diagram foliate never fails: the fuel is never exhausted, no
   IndexError, every InterchangerError is caught *)
Theorem foliate_total d : wf d -> exists r, foliate d = Ok r.
Proof. intros Hwf. unfold foliate. apply fol_outer_total; [exact Hwf|lia]. Qed.

Corollary depth_total d : wf d -> exists n, depth d = Ok n.
Proof.
  intros Hwf. destruct (foliate_total d Hwf) as (r & E). unfold depth. rewrite E. cbn [bind]. eauto.
Qed.

(* ------------------------------------------------------------ every slice has depth 1 *)
(* boxes j and j+1 sit side by side, left to right *)
Definition par (d : diagram) (j : nat) : Prop :=
  forall b0 o0 o1, nth_error (dboxes d) j = Some b0 -> nth_error (doffs d) j = Some o0 ->
    nth_error (doffs d) (S j) = Some o1 -> o0 + len (bcod b0) <= o1.
Definition par_range (d : diagram) (a b : nat) : Prop :=
  forall j, (a <= j)%nat -> (j < b)%nat -> par d j.

(* box lst would still be left of box lst+2 once box lst+1 has moved to its left *)
Definition bridge (d : diagram) (lst top : nat) : Prop :=
  (S lst < top)%nat -> forall b0 b1 o0 o2,
    nth_error (dboxes d) lst = Some b0 -> nth_error (dboxes d) (S lst) = Some b1 ->
    nth_error (doffs d) lst = Some o0 -> nth_error (doffs d) (S (S lst)) = Some o2 ->
    o0 + len (bcod b0) + len (bcod b1) - len (bdom b1) <= o2.

Lemma par_join d first lst top : par_range d first lst -> par d lst -> par_range d (S lst) top ->
  par_range d first top.
Proof.
  intros H1 H2 H3 j Ha Hb. destruct (Nat.lt_trichotomy j lst) as [Hj|[Hj|Hj]].
  - apply H1; lia. - subst j. exact H2. - apply H3; lia.
Qed.

Lemma nth_error_splice {A} (l : list A) i a b j : (S i < length l)%nat ->
  nth_error (firstn i l ++ [a; b] ++ skipn (2 + i) l) j =
  if (j <? i)%nat then nth_error l j else if (j =? i)%nat then Some a
  else if (j =? S i)%nat then Some b else nth_error l j.
Proof.
  intros Hl. assert (Hf : length (firstn i l) = i) by (rewrite firstn_length; lia).
  destruct (j <? i)%nat eqn:E1.
  { apply Nat.ltb_lt in E1. rewrite nth_error_app1 by lia. apply nth_error_firstn_lt; lia. }
  apply Nat.ltb_ge in E1. rewrite nth_error_app2 by lia. rewrite Hf.
  destruct (j =? i)%nat eqn:E2.
  { apply Nat.eqb_eq in E2. subst j. rewrite Nat.sub_diag. reflexivity. }
  apply Nat.eqb_neq in E2. destruct (j =? S i)%nat eqn:E3.
  { apply Nat.eqb_eq in E3. subst j. replace (S i - i)%nat with 1%nat by lia. reflexivity. }
  apply Nat.eqb_neq in E3. replace (j - i)%nat with (S (S (j - i - 2))) by lia.
  cbn [app nth_error]. rewrite nth_error_skipn_add. f_equal. lia.
Qed.

Lemma splice_lt {A} (l : list A) i a b j : (S i < length l)%nat -> (j < i)%nat ->
  nth_error (firstn i l ++ [a; b] ++ skipn (2 + i) l) j = nth_error l j.
Proof.
  intros Hl Hj. rewrite nth_error_splice by exact Hl.
  destruct (Nat.ltb_spec j i); [reflexivity|lia].
Qed.
Lemma splice_0 {A} (l : list A) i a b : (S i < length l)%nat ->
  nth_error (firstn i l ++ [a; b] ++ skipn (2 + i) l) i = Some a.
Proof.
  intros Hl. rewrite nth_error_splice by exact Hl.
  destruct (Nat.ltb_spec i i); [lia|]. now rewrite Nat.eqb_refl.
Qed.
Lemma splice_1 {A} (l : list A) i a b : (S i < length l)%nat ->
  nth_error (firstn i l ++ [a; b] ++ skipn (2 + i) l) (S i) = Some b.
Proof.
  intros Hl. rewrite nth_error_splice by exact Hl.
  destruct (Nat.ltb_spec (S i) i); [lia|].
  destruct (Nat.eqb_spec (S i) i); [lia|]. now rewrite Nat.eqb_refl.
Qed.
Lemma splice_gt {A} (l : list A) i a b j : (S i < length l)%nat -> (S i < j)%nat ->
  nth_error (firstn i l ++ [a; b] ++ skipn (2 + i) l) j = nth_error l j.
Proof.
  intros Hl Hj. rewrite nth_error_splice by exact Hl.
  destruct (Nat.ltb_spec j i); [lia|].
  destruct (Nat.eqb_spec j i); [lia|]. destruct (Nat.eqb_spec j (S i)); [lia|reflexivity].
Qed.

Lemma is_right_of_true d lst : is_right_of d lst = Ok (Some true) -> par d lst.
Proof.
  unfold is_right_of.
  destruct (nth_error (doffs d) lst) as [o0|] eqn:E0; [|discriminate].
  destruct (nth_error (doffs d) (S lst)) as [o1|] eqn:E1; [|discriminate].
  destruct (nth_error (dboxes d) lst) as [b0|] eqn:E2; [|discriminate].
  destruct (nth_error (dboxes d) (S lst)) as [b1|] eqn:E3; [|discriminate].
  destruct (o0 + len (bcod b0) <=? o1) eqn:C1.
  - intros _. apply Z.leb_le in C1. intros b o o' Hb Ho Ho'.
    rewrite E2 in Hb. rewrite E0 in Ho. rewrite E1 in Ho'.
    inversion Hb; inversion Ho; inversion Ho'; subst. exact C1.
  - destruct (o1 + len (bdom b1) <=? o0); intros HH; discriminate HH.
Qed.

(* d' is d with box lst+1 moved to the left of box lst, which it was left of *)
Definition exch (d d' : diagram) (lst : nat) : Prop :=
  exists b0 b1 o0 o1,
    nth_error (dboxes d) lst = Some b0 /\ nth_error (dboxes d) (S lst) = Some b1 /\
    nth_error (doffs d) lst = Some o0 /\ nth_error (doffs d) (S lst) = Some o1 /\
    o1 + len (bdom b1) <= o0 /\
    (S lst < length (dboxes d))%nat /\ (S lst < length (doffs d))%nat /\
    dboxes d' = firstn lst (dboxes d) ++ [b1; b0] ++ skipn (2 + lst) (dboxes d) /\
    doffs d' = firstn lst (doffs d) ++ [o1; o0 - len (bdom b1) + len (bcod b1)]
                 ++ skipn (2 + lst) (doffs d).

Lemma interchange_succ_adj d i left d' :
  interchange d (Z.of_nat (S i)) (Z.of_nat i) left = Ok d' -> interchange_adj d i left = Ok d'.
Proof.
  unfold interchange. destruct (negb _); [discriminate|].
  destruct (Z.of_nat (S i) =? Z.of_nat i) eqn:E1; [apply Z.eqb_eq in E1; lia|].
  destruct (Z.of_nat i <? Z.of_nat (S i)) eqn:E2; [|apply Z.ltb_ge in E2; lia].
  rewrite Nat2Z.id. replace (Z.to_nat (Z.of_nat (S i) - Z.of_nat i)) with 1%nat by lia.
  cbn [interchange_down]. replace (S i - 1)%nat with i by lia.
  destruct (interchange_adj d i left) as [d1|]; cbn [bind]; [auto|discriminate].
Qed.

Lemma exchange_desc d lst d' : wf d -> is_right_of d lst = Ok (Some false) ->
  interchange d (Z.of_nat (S lst)) (Z.of_nat lst) false = Ok d' -> exch d d' lst.
Proof.
  intros Hwf Hs H. apply interchange_succ_adj in H.
  destruct (interchange_adj_spec d lst false d' Hwf H)
    as (_ & _ & _ & b0 & b1 & o0 & o1 & o0' & o1' & B0 & B1 & O0 & O1 & Hb & Ho & Hcase).
  unfold is_right_of in Hs. rewrite O0, O1, B0, B1 in Hs.
  destruct (o0 + len (bcod b0) <=? o1) eqn:C1; [discriminate|]. apply Z.leb_gt in C1.
  destruct (o1 + len (bdom b1) <=? o0) eqn:C2; [|discriminate]. apply Z.leb_le in C2.
  destruct Hcase as [(Hc & _ & _)|(_ & -> & ->)]; [lia|].
  exists b0, b1, o0, o1. repeat (split; [assumption|]).
  split; [apply nth_error_Some; rewrite B1; discriminate|].
  split; [apply nth_error_Some; rewrite O1; discriminate|]. auto.
Qed.

Lemma exch_lt d d' lst j : exch d d' lst -> (j < lst)%nat ->
  nth_error (dboxes d') j = nth_error (dboxes d) j /\ nth_error (doffs d') j = nth_error (doffs d) j.
Proof.
  intros (b0 & b1 & o0 & o1 & B0 & B1 & O0 & O1 & Hle & Lb & Lo & Hb & Ho) Hj.
  rewrite Hb, Ho. split; apply splice_lt; assumption.
Qed.

Lemma exch_par d d' lst top : exch d d' lst -> par_range d (S lst) top -> bridge d lst top ->
  par_range d' lst top.
Proof.
  intros (b0 & b1 & o0 & o1 & B0 & B1 & O0 & O1 & Hle & Lb & Lo & Hb & Ho) Hp Hbr j Hj1 Hj2
    b o o' Eb Eo Eo'.
  rewrite Hb in Eb. rewrite Ho in Eo, Eo'.
  destruct (Nat.lt_trichotomy j (S lst)) as [Hj|[Hj|Hj]].
  - assert (j = lst) by lia. subst j.
    rewrite splice_0 in Eb by assumption. rewrite splice_0 in Eo by assumption.
    rewrite splice_1 in Eo' by assumption.
    inversion Eb; inversion Eo; inversion Eo'; subst. lia.
  - subst j. rewrite splice_1 in Eb by assumption. rewrite splice_1 in Eo by assumption.
    rewrite splice_gt in Eo' by (auto; lia).
    inversion Eb; inversion Eo; subst.
    pose proof (Hbr Hj2 _ _ _ _ B0 B1 O0 Eo'). lia.
  - rewrite splice_gt in Eb by (auto; lia). rewrite splice_gt in Eo by (auto; lia).
    rewrite splice_gt in Eo' by (auto; lia).
    apply (Hp j ltac:(lia) Hj2 _ _ _ Eb Eo Eo').
Qed.

Lemma exch_bridge d d' l top : exch d d' (S l) -> par d l -> bridge d' l top.
Proof.
  intros (b0 & b1 & o0 & o1 & B0 & B1 & O0 & O1 & Hle & Lb & Lo & Hb & Ho) Hp _ c0 c1 p0 p2
    E0 E1 E2 E3.
  rewrite Hb in E0, E1. rewrite Ho in E2, E3.
  rewrite splice_lt in E0 by (auto; lia). rewrite splice_lt in E2 by (auto; lia).
  rewrite splice_0 in E1 by assumption.
  rewrite splice_1 in E3 by assumption. inversion E1; inversion E3; subst.
  pose proof (Hp _ _ _ E0 E2 O0). lia.
Qed.

(* what is left of move_in_slice once box k has been brought to position last+1 *)
Definition ms_case (first m : nat) (result d' : diagram) : Prop :=
  (is_right_of result (first + m) = Ok (Some true) /\ d' = result) \/
  (is_right_of result (first + m) = Ok (Some false) /\
   exists result',
     interchange result (Z.of_nat (S (first + m))) (Z.of_nat (first + m)) false = Ok result' /\
     match m with
     | O => d' = result'
     | S m' => move_in_slice first m' (first + m) result' = Ok (Some d')
     end).

Lemma move_core_par first m : forall result d' top, wf result ->
  par_range result first (first + m) -> par_range result (S (first + m)) top ->
  bridge result (first + m) top -> ms_case first m result d' -> par_range d' first top.
Proof.
  induction m as [|m IH]; intros result d' top Hwf Ha Hb Hc [[Hs ->]|(Hs & result' & H2 & H3)].
  - eapply par_join; [exact Ha|now apply is_right_of_true|exact Hb].
  - subst d'. pose proof (exchange_desc _ _ _ Hwf Hs H2) as Hx.
    intros j Hj1 Hj2. apply (exch_par _ _ _ top Hx Hb Hc); lia.
  - eapply par_join; [exact Ha|now apply is_right_of_true|exact Hb].
  - pose proof (exchange_desc _ _ _ Hwf Hs H2) as Hx.
    destruct (interchange_wf_len _ _ _ _ _ Hwf H2) as [W2 _].
    destruct (move_in_slice_inv _ _ _ _ _ H3) as (result2 & H1' & Hcase').
    rewrite Nat.add_succ_r, Nat.eqb_refl in H1'. inversion H1'; subst result2. clear H1'.
    rewrite Nat.add_succ_r in Hx.
    apply (IH result' d' top W2).
    + intros j Hj1 Hj2 b o o' Eb Eo Eo'.
      destruct (exch_lt _ _ _ j Hx ltac:(lia)) as [Xb Xo].
      destruct (exch_lt _ _ _ (S j) Hx ltac:(lia)) as [_ Xo'].
      rewrite Xb in Eb. rewrite Xo in Eo. rewrite Xo' in Eo'.
      apply (Ha j Hj1 ltac:(lia) _ _ _ Eb Eo Eo').
    + apply (exch_par _ _ _ top Hx); [|rewrite <- Nat.add_succ_r; exact Hc].
      rewrite <- Nat.add_succ_r. exact Hb.
    + eapply exch_bridge; [exact Hx|]. apply Ha; lia.
    + exact Hcase'.
Qed.

Lemma stable_nth R p d d' j : wf d -> stable R p d d' -> (j < p)%nat ->
  nth_error (dboxes d') j = nth_error (dboxes d) j /\ nth_error (doffs d') j = nth_error (doffs d) j.
Proof.
  intros (_ & _ & _ & W4 & W5) ((_ & _ & _ & W4' & W5') & _ & F & _) Hj.
  rewrite W4, W5, W4', W5', !nth_error_map.
  rewrite (nth_error_firstn_eq _ _ p j Hj F). auto.
Qed.

Lemma move_in_slice_par first m k d d' : wf d -> (first + m < k)%nat ->
  par_range d first (first + m) -> move_in_slice first m k d = Ok (Some d') ->
  par_range d' first (S (first + m)).
Proof.
  intros Hwf Hk Hp H. destruct (move_in_slice_inv _ _ _ _ _ H) as (result & H1 & Hcase).
  assert (S1 : stable RT (S (first + m)) d result).
  { destruct (Nat.eqb k _).
    - inversion H1; subst. apply stable_refl; [exact RT_refl|exact Hwf].
    - eapply (interchange_stable RT RT_refl RT_trans RT_adj); [exact Hwf|exact H1|lia|lia]. }
  apply (move_core_par first m result d' (S (first + m))).
  - eapply stable_wf; exact S1.
  - intros j Hj1 Hj2 b o o' Eb Eo Eo'.
    destruct (stable_nth _ _ _ _ j Hwf S1 ltac:(lia)) as [Xb Xo].
    destruct (stable_nth _ _ _ _ (S j) Hwf S1 ltac:(lia)) as [_ Xo'].
    rewrite Xb in Eb. rewrite Xo in Eo. rewrite Xo' in Eo'.
    apply (Hp j Hj1 Hj2 _ _ _ Eb Eo Eo').
  - intros j Hj1 Hj2. lia.
  - intros Hlt. lia.
  - exact Hcase.
Qed.

Lemma fol_inner_par n : forall start lst k d acc d' lst' acc',
  wf d -> (start <= lst)%nat -> (lst < k)%nat -> par_range d start lst ->
  fol_inner n start lst k d acc = Ok (d', lst', acc') -> par_range d' start lst'.
Proof.
  induction n as [|n IH]; cbn [fol_inner]; intros start lst k d acc d' lst' acc' Hwf Hs Hk Hp H.
  - inversion H; subst. exact Hp.
  - destruct (move_in_slice start (lst - start) k d) as [[d1|]|] eqn:E; cbn [bind] in H; [| |discriminate].
    + pose proof (move_in_slice_stable RT RT_refl RT_trans RT_adj start (lst - start) k d d1 Hwf
                    ltac:(lia) E) as S1.
      assert (Hp1 : par_range d1 start (S lst)).
      { replace (S lst) with (S (start + (lst - start))) by lia.
        apply (move_in_slice_par start (lst - start) k d d1 Hwf); [lia| |exact E].
        replace (start + (lst - start))%nat with lst by lia. exact Hp. }
      apply (IH start (S lst) (S k) d1 (d1 :: acc) d' lst' acc'); auto; try lia.
      eapply stable_wf; exact S1.
    + apply (IH start lst (S k) d acc d' lst' acc'); auto; lia.
Qed.

Definition slice_par (s : diagram) : Prop :=
  forall j b0 o0 o1, nth_error (dboxes s) j = Some b0 -> nth_error (doffs s) j = Some o0 ->
    nth_error (doffs s) (S j) = Some o1 -> o0 + len (bcod b0) <= o1.

Lemma nth_error_firstn_some {A} (l : list A) p j x : nth_error (firstn p l) j = Some x ->
  (j < p)%nat /\ nth_error l j = Some x.
Proof.
  intros H. assert (Hj : (j < p)%nat).
  { assert (Hl : (j < length (firstn p l))%nat) by (apply nth_error_Some; rewrite H; discriminate).
    rewrite firstn_length in Hl. lia. }
  split; [exact Hj|]. now rewrite nth_error_firstn_lt in H.
Qed.

Lemma dslice_par d i j : wf d -> (i < j)%nat -> (j <= length (dboxes d))%nat ->
  par_range d i (j - 1) -> slice_par (dslice d (Some (Z.of_nat i)) (Some (Z.of_nat j))).
Proof.
  intros Hwf Hij Hj Hp. destruct (dslice_mid d i j Hwf Hij Hj) as (Ws & _ & _ & Sl).
  pose proof Hwf as (_ & _ & _ & W4 & W5). destruct Ws as (_ & _ & _ & W4s & W5s).
  intros q b o o' Eb Eo Eo'.
  rewrite W4s, Sl, <- firstn_map, <- skipn_map, <- W4 in Eb.
  rewrite W5s, Sl, <- firstn_map, <- skipn_map, <- W5 in Eo, Eo'.
  apply nth_error_firstn_some in Eb, Eo, Eo'.
  destruct Eb as [_ Eb], Eo as [_ Eo], Eo' as [Hq Eo'].
  rewrite nth_error_skipn_add in Eb. rewrite nth_error_skipn_add in Eo.
  rewrite nth_error_skipn_add in Eo'.
  replace (i + S q)%nat with (S (i + q)) in Eo' by lia.
  apply (Hp (i + q)%nat ltac:(lia) ltac:(lia) _ _ _ Eb Eo Eo').
Qed.

Lemma fol_outer_par fuel : forall start d acc slices steps sl, wf d ->
  (start <= length (dboxes d))%nat -> Forall slice_par slices ->
  fol_outer fuel start d acc slices = Ok (steps, sl) -> Forall slice_par sl.
Proof.
  induction fuel as [|fuel IH]; cbn [fol_outer]; intros start d acc slices steps sl Hwf Hs Hsl H; [discriminate|].
  destruct (Nat.ltb start (length (dboxes d))) eqn:Elt.
  - apply Nat.ltb_lt in Elt.
    destruct (fol_inner _ start start (S start) d acc) as [[[d1 lst] acc1]|] eqn:E; [|discriminate].
    cbn [bind] in H.
    destruct (fol_inner_spec RT RT_refl RT_trans RT_adj _ _ _ _ _ _ _ _ _ Hwf
                (Nat.le_refl _) (Nat.lt_succ_diag_r _) E) as (_ & _ & _ & _ & S1 & L1 & L2).
    apply stable_shape in S1. destruct S1 as (W1 & _ & _ & Len1).
    assert (Hp : par_range d1 start lst).
    { apply (fol_inner_par _ _ _ _ _ _ _ _ _ Hwf (Nat.le_refl _) (Nat.lt_succ_diag_r _)) in E; [exact E|].
      intros j Hj1 Hj2. lia. }
    apply (IH (S lst) d1 acc1
             (dslice d1 (Some (Z.of_nat start)) (Some (Z.of_nat (S lst))) :: slices)
             steps sl W1 ltac:(lia)); [|exact H].
    constructor; [|exact Hsl].
    apply dslice_par; [exact W1|lia|lia|]. replace (S lst - 1)%nat with lst by lia. exact Hp.
  - inversion H; subst. now apply Forall_rev.
Qed.

(* in every slice consecutive boxes sit side by side, left to right *)
Theorem foliation_slices_parallel d steps slices : wf d -> foliate d = Ok (steps, slices) ->
  Forall (fun s => forall j b0 o0 o1, nth_error (dboxes s) j = Some b0 -> nth_error (doffs s) j = Some o0 ->
                   nth_error (doffs s) (S j) = Some o1 -> o0 + len (bcod b0) <= o1) slices.
Proof.
  intros Hwf H. unfold foliate in H.
  apply (fol_outer_par _ _ _ _ _ _ _ Hwf (Nat.le_0_l _) (Forall_nil _) H).
Qed.

(* ------------------------------------------------------------ non-vacuity *)
(* the docstring example (f0 @ Id(x) >> f0.dagger() @ f1.dagger()) @ (f0 >> f1):
   five boxes, three yielded diagrams, two slices f0 @ f1[::-1] @ f0 and
   f0[::-1] @ Id(y @ y) >> Id(x @ y) @ f1 *)
Example foliate_example :
  let x := Ob 0 0 in let y := Ob 1 0 in
  let f0 := Box KBox 0 [x] [y] false None in
  let f1 := Box KBox 1 [y] [x] false None in
  exists d steps slices,
    mk [x; x; x] [x; y; x] [f0; box_dagger f0; box_dagger f1; f0; f1] [0; 0; 1; 2; 2] = Ok d /\
    wf d /\
    foliate d = Ok (steps, slices) /\
    map doffs steps = [[0; 1; 0; 2; 2]; [0; 1; 2; 0; 2]; [0; 1; 2; 0; 2]] /\
    map dboxes slices = [[f0; box_dagger f1; f0]; [box_dagger f0; f1]] /\
    map doffs slices = [[0; 1; 2]; [0; 2]] /\
    depth d = Ok 2.
Proof.
  cbv zeta.
  match goal with |- context [mk ?a ?b ?c ?o] => destruct (mk a b c o) as [d|er] eqn:E end;
    [|vm_compute in E; discriminate E].
  pose proof (mk_wf _ _ _ _ _ E) as W. vm_compute in E. injection E as E. subst d.
  eexists. eexists. eexists.
  split; [reflexivity|]. split; [exact W|].
  split; [vm_compute; reflexivity|].
  repeat split; vm_compute; reflexivity.
Qed.
