(* "DisCoPy in Gallina", structural core: types, boxes, layers, diagrams with
   their redundant layer view, constructor scan, then / tensor / dagger /
   slicing / indexing.  Definitions only; proofs live in Core/DiagramLemmas.v.
   Each definition names the Python code it mirrors. *)
From Coq Require Import List ZArith Bool Lia.
Import ListNotations.
Require Import DV.Common.Base.
Open Scope Z_scope.

(* cat.Ob / rigid.Ob: a name (interned to an integer) and a winding number *)
Record ob := Ob { oname : Z; oz : Z }.
Definition ty := list ob.

Definition ob_eqb (a b : ob) : bool := (oname a =? oname b) && (oz a =? oz b).
Definition ty_eqb : ty -> ty -> bool := list_eqb ob_eqb.

(* box kinds that the library treats specially *)
Inductive bkind := KBox | KSwap | KCup | KCap.
Definition bkind_code (k : bkind) : Z :=
  match k with KBox => 0 | KSwap => 1 | KCup => 2 | KCap => 3 end.
Definition bkind_eqb (a b : bkind) : bool := bkind_code a =? bkind_code b.

Record box := Box {
  bk : bkind; bname : Z; bdom : ty; bcod : ty; bdag : bool; bdata : option Z }.

Definition box_eqb (a b : box) : bool :=
  bkind_eqb (bk a) (bk b) && (bname a =? bname b) && ty_eqb (bdom a) (bdom b)
  && ty_eqb (bcod a) (bcod b) && Bool.eqb (bdag a) (bdag b)
  && opt_eqb Z.eqb (bdata a) (bdata b).

(* cat.Box.dagger / monoidal.Swap.dagger / rigid.Cup.dagger / rigid.Cap.dagger *)
Definition box_dagger (b : box) : box :=
  match bk b with
  | KBox => Box KBox (bname b) (bcod b) (bdom b) (negb (bdag b)) (bdata b)
  | KSwap => Box KSwap (bname b) (bcod b) (bdom b) false (bdata b)
  | KCup => Box KCap (-3) (bcod b) (bdom b) false (bdata b)
  | KCap => Box KCup (-2) (bcod b) (bdom b) false (bdata b)
  end.

(* monoidal.Layer *)
Definition layer := (ty * box * ty)%type.
Definition lleft (l : layer) : ty := fst (fst l).
Definition lbox (l : layer) : box := snd (fst l).
Definition lright (l : layer) : ty := snd l.
Definition ldom (l : layer) : ty := lleft l ++ bdom (lbox l) ++ lright l.
Definition lcod (l : layer) : ty := lleft l ++ bcod (lbox l) ++ lright l.
Definition layer_dagger (l : layer) : layer := (lleft l, box_dagger (lbox l), lright l).
Definition layer_eqb (a b : layer) : bool :=
  ty_eqb (lleft a) (lleft b) && box_eqb (lbox a) (lbox b) && ty_eqb (lright a) (lright b).

(* the cat.Arrow of layers that a diagram carries in `_layers` *)
Record larrow := LA { la_dom : ty; la_cod : ty; la_ls : list layer }.

Definition la_id (t : ty) : larrow := LA t t [].
Definition la_of (l : layer) : larrow := LA (ldom l) (lcod l) [l].

(* cat.Arrow.then on layer arrows: the only place where types are compared *)
Definition la_then (a b : larrow) : res larrow :=
  if ty_eqb (la_cod a) (la_dom b)
  then Ok (LA (la_dom a) (la_cod b) (la_ls a ++ la_ls b))
  else Err AxiomError.

(* cat.Arrow.__getitem__ with a slice, step in {None, 1} *)
Definition la_slice (a : larrow) (start stop : option Z) : larrow :=
  let ls := py_slice (la_ls a) start stop in
  let n := len (la_ls a) in
  let s0 := match start with None => 0 | Some s => s end in
  match ls with
  | [] =>
      if n <=? s0 then la_id (la_cod a)
      else if s0 <=? - n then la_id (la_dom a)
      else match py_index (la_ls a) s0 with
           | Ok l => la_id (ldom l)
           | Err _ => la_id (la_dom a)   (* unreachable: -n < s0 < n *)
           end
  | l0 :: _ => LA (ldom l0) (lcod (last ls l0)) ls
  end.

(* cat.Arrow.__getitem__ with step == -1 (after the F17 repair): the full
   reversal uses the arrow's (cod, dom); a partial one reads them off the
   reversed boxes; an empty one is an identity chosen from `start` *)
Definition la_slice_rev (a : larrow) (start stop : option Z) : larrow :=
  let ls := map layer_dagger (py_slice_rev (la_ls a) start stop) in
  match start, stop with
  | None, None => LA (la_cod a) (la_dom a) ls
  | _, _ =>
    match ls with
    | [] =>
        let n := len (la_ls a) in
        let s := match start with None => n - 1 | Some s => s end in
        if n - 1 <=? s then la_id (la_cod a)
        else if s <? - n then la_id (la_dom a)
        else match py_index (la_ls a) s with
             | Ok l => la_id (lcod l)
             | Err _ => la_id (la_dom a)   (* unreachable: -n <= s < n - 1 *)
             end
    | l0 :: _ => LA (ldom l0) (lcod (last ls l0)) ls
    end
  end.

(* monoidal.Diagram *)
Record diagram := D {
  ddom : ty; dcod : ty; dboxes : list box; doffs : list Z; dlayers : larrow }.

(* monoidal.Diagram.__init__ without `layers`: the type scan *)
Fixpoint scan_layers (scan : ty) (bs : list box) (offs : list Z) : res (ty * list layer) :=
  match bs, offs with
  | b :: bs', off :: offs' =>
      let left := py_slice scan None (Some off) in
      let right := py_slice scan (Some (off + len (bdom b))) None in
      let l : layer := (left, b, right) in
      if negb ((0 <=? off) && (off <=? len scan - len (bdom b))) then Err AxiomError
      else if ty_eqb scan (ldom l) then
        do r <- scan_layers (lcod l) bs' offs';
        Ok (fst r, l :: snd r)
      else Err AxiomError
  | _, _ => Ok (scan, [])
  end.

Definition mk (dom cod : ty) (bs : list box) (offs : list Z) : res diagram :=
  if negb (len bs =? len offs) then Err ValueError else
  do r <- scan_layers dom bs offs;
  if ty_eqb (fst r) cod then Ok (D dom cod bs offs (LA dom cod (snd r)))
  else Err AxiomError.

(* monoidal.Id *)
Definition did (t : ty) : diagram := D t t [] [] (la_id t).

(* monoidal.Box.__init__ : boxes == [self], offsets == [0], one layer *)
Definition dbox (b : box) : diagram :=
  D (bdom b) (bcod b) [b] [0] (LA (bdom b) (bcod b) [([], b, [])]).

(* monoidal.Diagram.then *)
Definition dthen (a b : diagram) : res diagram :=
  do ls <- la_then (dlayers a) (dlayers b);
  Ok (D (ddom a) (dcod b) (dboxes a ++ dboxes b) (doffs a ++ doffs b) ls).

(* the two loops of monoidal.Diagram.tensor: layers >> Layer(...) one at a time *)
Fixpoint la_extend (acc : larrow) (ls : list layer) : res larrow :=
  match ls with
  | [] => Ok acc
  | l :: ls' => do acc' <- la_then acc (la_of l); la_extend acc' ls'
  end.

Definition dtensor (a b : diagram) : res diagram :=
  let dom := ddom a ++ ddom b in
  let cod := dcod a ++ dcod b in
  let la := map (fun l : layer => (lleft l, lbox l, lright l ++ ddom b)) (la_ls (dlayers a)) in
  let lb := map (fun l : layer => (dcod a ++ lleft l, lbox l, lright l)) (la_ls (dlayers b)) in
  do l1 <- la_extend (la_id dom) la;
  do l2 <- la_extend l1 lb;
  Ok (D dom cod (dboxes a ++ dboxes b)
        (doffs a ++ map (fun n => n + len (dcod a)) (doffs b)) l2).

(* monoidal.Diagram.__getitem__ with a slice: boxes and offsets are read back
   from the sliced layers *)
Definition of_layers (la : larrow) : diagram :=
  D (la_dom la) (la_cod la) (map lbox (la_ls la))
    (map (fun l => len (lleft l)) (la_ls la)) la.

Definition dslice (d : diagram) (start stop : option Z) : diagram :=
  of_layers (la_slice (dlayers d) start stop).

Definition dslice_rev (d : diagram) (start stop : option Z) : diagram :=
  of_layers (la_slice_rev (dlayers d) start stop).

(* d[::-1] *)
Definition ddagger (d : diagram) : diagram := dslice_rev d None None.

(* d[i] : Id(left) @ box @ Id(right) *)
Definition dgetitem (d : diagram) (i : Z) : res diagram :=
  do l <- py_index (la_ls (dlayers d)) i;
  do t <- dtensor (did (lleft l)) (dbox (lbox l));
  dtensor t (did (lright l)).

(* Diagram.__eq__ : dom, cod, boxes, offsets (the layer view is not compared) *)
Definition deqb (a b : diagram) : bool :=
  ty_eqb (ddom a) (ddom b) && ty_eqb (dcod a) (dcod b)
  && list_eqb box_eqb (dboxes a) (dboxes b) && list_eqb Z.eqb (doffs a) (doffs b).
