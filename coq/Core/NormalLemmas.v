(* C06: the normalisation trace is a path of legal interchanges; the normal form is
   normal and a fixed point; NotImplementedError only on a repeat. *)
From Coq Require Import List ZArith Bool Lia Permutation Relations.
Import ListNotations.
Require Import DV.Common.Base DV.Common.ListLemmas DV.Core.Diagram DV.Core.WF DV.Core.DiagramLemmas
  DV.Core.Rewriting DV.Core.RewritingLemmas DV.Core.Normal.
Open Scope Z_scope.

Lemma legal_path_app d tr1 tr2 left :
  legal_path d tr1 left -> legal_path (last tr1 d) tr2 left -> legal_path d (tr1 ++ tr2) left.
Proof.
  revert d. induction tr1 as [|x tr1 IH]; intros d H1 H2; cbn in *; [exact H2|].
  destruct H1 as [Hs H1]. split; [exact Hs|]. apply IH; [exact H1|].
  destruct tr1 as [|y tr1']; [exact H2|]. rewrite (last_cons_indep y tr1' x d). exact H2.
Qed.

Lemma last_app_single {A} (l : list A) x d : last (l ++ [x]) d = x.
Proof. induction l as [|a l IH]; cbn; [reflexivity|]. destruct (l ++ [x]) eqn:E; [destruct l; discriminate|]. exact IH. Qed.

(* one pass: what it yields (acc is most-recent-first) extends a legal path *)
Lemma normalize_pass_legal n : forall d0 d i left acc moved d' acc' moved',
  legal_path d0 (rev acc) left -> last (rev acc) d0 = d ->
  normalize_pass d i n left acc moved = Ok (d', acc', moved') ->
  legal_path d0 (rev acc') left /\ last (rev acc') d0 = d' /\
  (moved' = false -> moved = false /\ d' = d /\ acc' = acc /\
     forall k, (i <= k < i + n)%nat -> can_move d k left = false).
Proof.
  induction n as [|n IH]; cbn [normalize_pass]; intros d0 d i left acc moved d' acc' moved' Hp Hl H.
  - inversion H; subst. repeat split; auto. intros k Hk; lia.
  - destruct (can_move d i left) eqn:Hc.
    + destruct (interchange_adj d i left) as [d1|] eqn:E; [|discriminate]. cbn [bind] in H.
      destruct (IH d0 d1 (S i) left (d1 :: acc) true d' acc' moved') as (P & L & Hm); auto.
      * cbn [rev]. apply legal_path_app; [exact Hp|]. rewrite Hl. cbn. split; [|exact Logic.I].
        exists i. auto.
      * cbn [rev]. apply last_app_single.
      * split; [exact P|]. split; [exact L|]. intros Hf. destruct (Hm Hf) as [Hx _]. discriminate.
    + destruct (IH d0 d (S i) left acc moved d' acc' moved' Hp Hl H) as (P & L & Hm).
      split; [exact P|]. split; [exact L|]. intros Hf. destruct (Hm Hf) as (M1 & M2 & M3 & M4).
      repeat split; auto. intros k Hk. destruct (Nat.eq_dec k i) as [->|Hne]; [exact Hc|]. apply M4. lia.
Qed.

Lemma normalize_loop_legal fuel : forall d0 d left acc tr,
  legal_path d0 (rev acc) left -> last (rev acc) d0 = d ->
  normalize_loop fuel d left acc = Ok tr -> legal_path d0 (rev tr) left.
Proof.
  induction fuel as [|fuel IH]; cbn [normalize_loop]; intros d0 d left acc tr Hp Hl H; [discriminate|].
  destruct (normalize_pass d 0 (length (dboxes d) - 1) left acc false) as [[[d1 acc1] moved]|] eqn:E; [|discriminate].
  cbn [bind] in H. destruct (normalize_pass_legal _ _ _ _ _ _ _ _ _ _ Hp Hl E) as (P & L & _).
  destruct moved; [eapply IH; eauto|]. inversion H; subst. exact P.
Qed.

Theorem normalize_legal fuel d left tr : wf d -> normalize fuel d left = Ok tr -> legal_path d tr left.
Proof.
  intros _. unfold normalize. destruct (normalize_loop fuel d left []) as [acc|] eqn:E; [|discriminate].
  cbn [bind]. intros H; inversion H; subst tr.
  eapply normalize_loop_legal; [| |exact E]; cbn; auto.
Qed.

(* a legal step permutes the boxes *)
Lemma legal_step_perm left d d' : wf d -> legal_step left d d' -> wf d' /\ Permutation (dboxes d) (dboxes d').
Proof.
  intros Hwf (i & _ & E). destruct (interchange_adj_shape _ _ _ _ Hwf E) as [W _]. split; [exact W|].
  destruct (interchange_adj_boxes _ _ _ _ Hwf E) as (b0 & b1 & B0 & B1 & Hb).
  rewrite Hb. rewrite (nth_error_split3 _ _ _ _ B0 B1) at 1.
  apply Permutation_app_head. cbn [app]. apply perm_swap.
Qed.

Lemma legal_path_perm tr : forall d left, wf d -> legal_path d tr left ->
  Forall (fun x => Permutation (dboxes d) (dboxes x)) tr.
Proof.
  induction tr as [|x tr IH]; intros d left Hwf H; [constructor|].
  destruct H as [Hs Hp]. destruct (legal_step_perm _ _ _ Hwf Hs) as [Wx Px].
  constructor; [exact Px|]. eapply Forall_impl; [|apply (IH x left Wx Hp)].
  cbn. intros y Hy. eapply Permutation_trans; eauto.
Qed.

Theorem normalize_perm fuel d left tr : wf d -> normalize fuel d left = Ok tr ->
  Forall (fun x => Permutation (dboxes d) (dboxes x)) tr.
Proof. intros Hwf H. eapply legal_path_perm; [exact Hwf|]. eapply normalize_legal; eauto. Qed.

(* ---------------------------------------------------------------- normality *)
Lemma can_move_out_of_range d k left : (length (dboxes d) - 1 <= k)%nat -> can_move d k left = false.
Proof.
  intros Hk. unfold can_move. destruct (nth_error (dboxes d) k) eqn:E0; [|reflexivity].
  destruct (nth_error (dboxes d) (S k)) eqn:E1; [|reflexivity].
  assert (S k < length (dboxes d))%nat by (apply nth_error_Some; rewrite E1; discriminate). lia.
Qed.

Lemma nf_loop_normal fuel : forall d left seen d', nf_loop fuel d left seen = Ok d' -> is_normal d' left.
Proof.
  induction fuel as [|fuel IH]; cbn [nf_loop]; intros d left seen d' H; [discriminate|].
  destruct (normalize_pass d 0 (length (dboxes d) - 1) left [] false) as [[[d1 ys] moved]|] eqn:E; [|discriminate].
  cbn [bind] in H. destruct (first_repeat seen (rev ys)); [discriminate|].
  destruct moved; [eapply IH; eauto|]. inversion H; subst d1.
  destruct (normalize_pass_legal _ d d 0 left [] false d' ys false Logic.I eq_refl E) as (_ & _ & Hm).
  destruct (Hm eq_refl) as (_ & -> & _ & Hk).
  intros k. destruct (Nat.lt_ge_cases k (length (dboxes d) - 1)) as [Hlt|Hge].
  - apply Hk. lia.
  - now apply can_move_out_of_range.
Qed.

Theorem normal_form_normal fuel d left d' : normal_form fuel d left = Ok d' -> is_normal d' left.
Proof. apply nf_loop_normal. Qed.

Lemma normalize_pass_normal n : forall d i left acc moved, is_normal d left ->
  normalize_pass d i n left acc moved = Ok (d, acc, moved).
Proof.
  induction n as [|n IH]; cbn [normalize_pass]; intros d i left acc moved Hn; [reflexivity|].
  rewrite (Hn i). apply IH, Hn.
Qed.

Theorem normal_form_idem fuel fuel' d left d' : normal_form fuel d left = Ok d' ->
  (0 < fuel')%nat -> normal_form fuel' d' left = Ok d'.
Proof.
  intros H Hf. apply normal_form_normal in H. destruct fuel' as [|f]; [lia|].
  unfold normal_form. cbn [nf_loop]. rewrite normalize_pass_normal by exact H. reflexivity.
Qed.

(* ---------------------------------------------------------------- NotImplementedError *)
Lemma la_then_err_axiom a b e : la_then a b = Err e -> e = AxiomError.
Proof. intros H. apply la_then_err in H. tauto. Qed.

Lemma interchange_adj_err d i left e : interchange_adj d i left = Err e -> e <> NotImplementedError.
Proof.
  unfold interchange_adj.
  destruct (nth_error (la_ls (dlayers d)) i) as [[[left0 box0] right0]|]; [|intros H; inversion H; discriminate].
  destruct (nth_error (la_ls (dlayers d)) (S i)) as [[[left1 box1] right1]|]; [|intros H; inversion H; discriminate].
  destruct (nth_error (doffs d) i) as [off0|]; [|intros H; inversion H; discriminate].
  destruct (nth_error (doffs d) (S i)) as [off1|]; [|intros H; inversion H; discriminate].
  cbv zeta.
  assert (G : forall o0 o1 (l0 l1 : layer),
    (do a1 <- la_then (la_slice (dlayers d) None (Some (Z.of_nat i))) (la_of l1);
     do a2 <- la_then a1 (la_of l0);
     do a3 <- la_then a2 (la_slice (dlayers d) (Some (Z.of_nat i + 2)) None);
     Ok (D (ddom d) (dcod d) (firstn i (dboxes d) ++ [box1; box0] ++ skipn (2 + i) (dboxes d))
            (firstn i (doffs d) ++ [o1; o0] ++ skipn (2 + i) (doffs d)) a3)) = Err e ->
    e <> NotImplementedError).
  { intros o0 o1 l0 l1 H.
    destruct (la_then _ (la_of l1)) as [a1|e1] eqn:A1; cbn [bind] in H.
    2: { inversion H; subst. apply la_then_err_axiom in A1. subst. discriminate. }
    destruct (la_then a1 (la_of l0)) as [a2|e2] eqn:A2; cbn [bind] in H.
    2: { inversion H; subst. apply la_then_err_axiom in A2. subst. discriminate. }
    destruct (la_then a2 _) as [a3|e3] eqn:A3; cbn [bind] in H; [discriminate|].
    inversion H; subst. apply la_then_err_axiom in A3. subst. discriminate. }
  destruct (left && _); [apply G|]. destruct (_ <=? off0); [apply G|]. destruct (_ <=? off1); [apply G|].
  intros H; inversion H; discriminate.
Qed.

Lemma normalize_pass_err n : forall d i left acc moved e,
  normalize_pass d i n left acc moved = Err e -> e <> NotImplementedError.
Proof.
  induction n as [|n IH]; cbn [normalize_pass]; intros d i left acc moved e H; [discriminate|].
  destruct (can_move d i left); [|eapply IH; eauto].
  destruct (interchange_adj d i left) as [d1|e1] eqn:E; cbn [bind] in H; [eapply IH; eauto|].
  inversion H; subst. eapply interchange_adj_err; eauto.
Qed.

Lemma existsb_app_comm {A} (f : A -> bool) a b : existsb f (a ++ b) = existsb f (b ++ a).
Proof. rewrite !existsb_app. apply orb_comm. Qed.

Lemma existsb_rev {A} (f : A -> bool) l : existsb f (rev l) = existsb f l.
Proof. induction l as [|x l IH]; cbn; [reflexivity|]. rewrite existsb_app, IH. cbn. rewrite orb_false_r. apply orb_comm. Qed.

(* membership tests only depend on the set of seen diagrams *)
Lemma first_repeat_ext tr : forall s1 s2, (forall f, existsb f s1 = existsb f s2) ->
  first_repeat s1 tr = first_repeat s2 tr.
Proof.
  induction tr as [|x tr IH]; intros s1 s2 H; cbn; [reflexivity|].
  rewrite (H (deqb x)). f_equal. apply IH. intros f. cbn. now rewrite H.
Qed.

Lemma first_repeat_app a : forall seen b,
  first_repeat seen (a ++ b) = first_repeat seen a || first_repeat (rev a ++ seen) b.
Proof.
  induction a as [|x a IH]; intros seen b; cbn [app first_repeat rev]; [reflexivity|].
  rewrite IH. rewrite <- orb_assoc. f_equal. f_equal.
  apply first_repeat_ext. intros f. rewrite <- app_assoc. cbn [app].
  rewrite existsb_app. cbn [existsb]. rewrite existsb_rev. now rewrite orb_comm at 1; cbn; rewrite orb_comm.
Qed.

Lemma nf_loop_not_implemented fuel : forall d left seen,
  nf_loop fuel d left seen = Err NotImplementedError ->
  exists tr, legal_path d tr left /\ first_repeat seen tr = true.
Proof.
  induction fuel as [|fuel IH]; cbn [nf_loop]; intros d left seen H; [discriminate|].
  destruct (normalize_pass d 0 (length (dboxes d) - 1) left [] false) as [[[d1 ys] moved]|e] eqn:E.
  2: { cbn [bind] in H. inversion H; subst. exfalso. eapply normalize_pass_err; eauto. }
  cbn [bind] in H.
  destruct (normalize_pass_legal _ d d 0 left [] false d1 ys moved Logic.I eq_refl E) as (P & L & _).
  destruct (first_repeat seen (rev ys)) eqn:Hr.
  - exists (rev ys). auto.
  - destruct moved; [|discriminate].
    destruct (IH _ _ _ H) as (tr' & P' & R').
    exists (rev ys ++ tr'). split.
    + apply legal_path_app; [exact P|]. rewrite L. exact P'.
    + rewrite first_repeat_app, Hr, rev_involutive. exact R'.
Qed.

Theorem nf_not_implemented_repeat fuel d left :
  normal_form fuel d left = Err NotImplementedError -> exists tr, repeats_within d left tr.
Proof.
  intros H. destruct (nf_loop_not_implemented _ _ _ _ H) as (tr & P & R). exists tr. split; auto.
Qed.

(* ---- the normal form stays inside the input's interchanger-equivalence class ---- *)
Lemma legal_step_equiv left d d' : legal_step left d d' -> interchanger_equiv d d'.
Proof. intros (i & _ & E). apply Relation_Operators.rst_step. exists i, left. exact E. Qed.

Lemma legal_path_equiv tr : forall d left, legal_path d tr left -> interchanger_equiv d (last tr d).
Proof.
  induction tr as [|x tr IH]; intros d left H; cbn [legal_path] in H.
  - cbn. apply Relation_Operators.rst_refl.
  - destruct H as [Hs Hp]. eapply Relation_Operators.rst_trans; [eapply legal_step_equiv; exact Hs|].
    destruct tr as [|y tr']; [cbn; apply Relation_Operators.rst_refl|].
    change (last (x :: y :: tr') d) with (last (y :: tr') d).
    rewrite (last_cons_indep y tr' d x). apply (IH x left Hp).
Qed.

Lemma nf_loop_equiv fuel : forall d left seen d', nf_loop fuel d left seen = Ok d' -> interchanger_equiv d d'.
Proof.
  induction fuel as [|fuel IH]; cbn [nf_loop]; intros d left seen d' H; [discriminate|].
  destruct (normalize_pass d 0 (length (dboxes d) - 1) left [] false) as [[[d1 ys] moved]|] eqn:E; [|discriminate].
  cbn [bind] in H.
  destruct (normalize_pass_legal _ d d _ left [] false _ _ _ Logic.I eq_refl E) as (P & L & _).
  destruct (first_repeat seen (rev ys)); [discriminate|].
  assert (Q : interchanger_equiv d d1) by (rewrite <- L; eapply legal_path_equiv; exact P).
  destruct moved.
  - eapply Relation_Operators.rst_trans; [exact Q|]. eapply IH; exact H.
  - inversion H; subst. exact Q.
Qed.

Theorem normal_form_equiv fuel d left d' : normal_form fuel d left = Ok d' -> interchanger_equiv d d'.
Proof. apply nf_loop_equiv. Qed.

(* every diagram yielded by normalize is in the class too *)
Lemma legal_path_all_equiv tr : forall d left, legal_path d tr left -> Forall (interchanger_equiv d) tr.
Proof.
  induction tr as [|x tr IH]; intros d left H; [constructor|]. cbn [legal_path] in H. destruct H as [Hs Hp].
  pose proof (legal_step_equiv _ _ _ Hs) as Q. constructor; [exact Q|].
  eapply Forall_impl; [|exact (IH x left Hp)]. intros y Hy. eapply Relation_Operators.rst_trans; eauto.
Qed.

Theorem normalize_equiv fuel d left tr : wf d -> normalize fuel d left = Ok tr -> Forall (interchanger_equiv d) tr.
Proof. intros W H. eapply legal_path_all_equiv. eapply normalize_legal; eauto. Qed.

(* canonicity reduces to uniqueness of normal diagrams inside one class: what is left
   unproved is exactly the hypothesis U (confluence of the interchanger system) *)
Theorem normal_form_canonical_if_unique_normal d d' left fuel fuel' n n' :
  (forall a b, interchanger_equiv d a -> interchanger_equiv d b ->
     is_normal a left -> is_normal b left -> a = b) ->
  interchanger_equiv d d' ->
  normal_form fuel d left = Ok n -> normal_form fuel' d' left = Ok n' -> n = n'.
Proof.
  intros U E H H'. apply U.
  - eapply normal_form_equiv; exact H.
  - eapply Relation_Operators.rst_trans; [exact E|]. eapply normal_form_equiv; exact H'.
  - eapply normal_form_normal; exact H.
  - eapply normal_form_normal; exact H'.
Qed.

(* non-vacuity: a concrete diagram (two states f, g feeding a box h, written g-first)
   whose right normal form is a different diagram of its class, and on which the left
   and right normal forms of both presentations agree with each other *)
Section NonVacuity.
  Let x := Ob 1 0. Let y := Ob 2 0.
  Let f := Box KBox 10 [] [x] false None.
  Let g := Box KBox 11 [] [y] false None.
  Let h := Box KBox 12 [x; y] [x] false None.
  Let get (r : res diagram) : diagram := match r with Ok d => d | Err _ => did [] end.
  Let d1 := get (mk [] [x] [f; g; h] [0; 1; 0]).
  Let d2 := get (mk [] [x] [g; f; h] [0; 0; 0]).
  Example normal_form_nonvacuous :
    deqb d1 d2 = false /\ interchanger_equiv d2 d1 /\
    normal_form 10 d2 false = Ok d1 /\ normal_form 10 d1 false = Ok d1 /\
    normal_form 10 d1 true = Ok d2 /\ normal_form 10 d2 true = Ok d2.
  Proof.
    assert (H : normal_form 10 d2 false = Ok d1) by (vm_compute; reflexivity).
    split; [vm_compute; reflexivity|]. split; [exact (normal_form_equiv _ _ _ _ H)|].
    split; [exact H|]. repeat split; vm_compute; reflexivity.
  Qed.
End NonVacuity.
