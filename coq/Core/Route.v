(* Following wires through a network of adjacent swaps: the statement side of
   C10.  Definitions only. *)
From Coq Require Import List ZArith Bool Lia.
Import ListNotations.
Require Import DV.Common.Base DV.Core.Diagram.
Open Scope Z_scope.

(* exchange the labels at positions o and o+1 (nothing happens when out of range) *)
Fixpoint swap_at {A} (o : nat) (ws : list A) : list A :=
  match o, ws with
  | O, a :: b :: ws' => b :: a :: ws'
  | S o', a :: ws' => a :: swap_at o' ws'
  | _, _ => ws
  end.

(* carry arbitrary labels on the wires through the boxes at the given offsets *)
Definition route {A} (offs : list Z) (ws : list A) : list A :=
  fold_left (fun ws o => swap_at (Z.to_nat o) ws) offs ws.

Definition only_swaps (d : diagram) : Prop :=
  Forall (fun b => bk b = KSwap /\ length (bdom b) = 2%nat /\ length (bcod b) = 2%nat) (dboxes d).

(* every offset is a legal position for a two-wire box on n wires *)
Definition offsets_in_range (n : nat) (offs : list Z) : Prop :=
  Forall (fun o => 0 <= o /\ o + 2 <= Z.of_nat n) offs.
