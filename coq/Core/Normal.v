(* Vocabulary for C06: legal rewriting paths, normality, connectivity,
   interchanger equivalence.  Definitions only. *)
From Coq Require Import List ZArith Bool Lia Relations.
Import ListNotations.
Require Import DV.Common.Base DV.Core.Diagram DV.Core.Rewriting.
Open Scope Z_scope.

(* one step of normalize: an adjacent exchange whose guard holds *)
Definition legal_step (left : bool) (d d' : diagram) : Prop :=
  exists i, can_move d i left = true /\ interchange_adj d i left = Ok d'.

Fixpoint legal_path (d : diagram) (tr : list diagram) (left : bool) : Prop :=
  match tr with
  | [] => True
  | x :: tr' => legal_step left d x /\ legal_path x tr' left
  end.

(* no exchange is possible in the preferred direction *)
Definition is_normal (d : diagram) (left : bool) : Prop := forall i, can_move d i left = false.

(* a trace in which some diagram == an earlier one *)
Definition repeats_within (d : diagram) (left : bool) (tr : list diagram) : Prop :=
  legal_path d tr left /\ first_repeat [] tr = true.

(* ---- wiring: give every wire an identity and follow it through the layers ---- *)
Definition wire := (Z * Z)%type.     (* (producer, port): producer -1 = an input of the diagram *)

Fixpoint zrange' (start : Z) (n : nat) : list Z :=
  match n with O => [] | S n' => start :: zrange' (start + 1) n' end.

Fixpoint consumed (scan : list wire) (k : Z) (bs : list box) (offs : list Z) : list (list wire) :=
  match bs, offs with
  | b :: bs', off :: offs' =>
      let l := firstn (Z.to_nat off) scan in
      let m := firstn (length (bdom b)) (skipn (Z.to_nat off) scan) in
      let r := skipn (Z.to_nat off + length (bdom b)) scan in
      let out := map (fun p => (k, p)) (zrange' 0 (length (bcod b))) in
      m :: consumed (l ++ out ++ r) (k + 1) bs' offs'
  | _, _ => []
  end.

Definition consumed_wires (d : diagram) : list (list wire) :=
  consumed (map (fun p => (-1, p)) (zrange' 0 (length (ddom d)))) 0 (dboxes d) (doffs d).

(* box j consumes a wire produced by box i *)
Definition linked (d : diagram) (i j : nat) : Prop :=
  exists ws p, nth_error (consumed_wires d) j = Some ws /\ In (Z.of_nat i, p) ws.

(* all boxes are connected to one another through wires *)
Definition connected (d : diagram) : Prop :=
  forall i j, (i < length (dboxes d))%nat -> (j < length (dboxes d))%nat ->
    clos_refl_sym_trans nat (linked d) i j.

Definition interchanger_equiv : diagram -> diagram -> Prop :=
  clos_refl_sym_trans diagram (fun d d' => exists i left, interchange_adj d i left = Ok d').
