(* cat.Sum / monoidal.Sum: formal sums of diagrams.  Definitions only. *)
From Coq Require Import List ZArith Bool Lia.
Import ListNotations.
Require Import DV.Common.Base DV.Core.Diagram.
Open Scope Z_scope.

Record dsum := MkSum { sterms : list diagram; sdom : ty; scod : ty }.

(* cat.Sum.__init__ *)
Definition sum_mk (terms : list diagram) (dom cod : option ty) : res dsum :=
  match terms with
  | [] => match dom, cod with
          | Some d, Some c => Ok (MkSum [] d c)
          | _, _ => Err ValueError
          end
  | t0 :: _ =>
      let d := match dom with Some d => d | None => ddom t0 end in
      let c := match cod with Some c => c | None => dcod t0 end in
      if forallb (fun t => ty_eqb (ddom t) d && ty_eqb (dcod t) c) terms
      then Ok (MkSum terms d c) else Err AxiomError
  end.

(* Sum([d]) *)
Definition sum_of (d : diagram) : dsum := MkSum [d] (ddom d) (dcod d).

(* Sum.__add__ : self.sum(self.terms + other.terms, self.dom, self.cod) *)
Definition sum_add (s t : dsum) : res dsum :=
  sum_mk (sterms s ++ sterms t) (Some (sdom s)) (Some (scod s)).

(* the builtin sum(terms, unit): unit + t1 + t2 + ... *)
Fixpoint sum_fold (acc : dsum) (terms : list diagram) : res dsum :=
  match terms with
  | [] => Ok acc
  | t :: ts => do acc' <- sum_add acc (sum_of t); sum_fold acc' ts
  end.

(* [op f g for f in s.terms for g in t.terms], first failure wins *)
Definition pairwise (op : diagram -> diagram -> res diagram) (s t : dsum) : res (list diagram) :=
  mapM (fun fg => op (fst fg) (snd fg)) (list_prod (sterms s) (sterms t)).

(* Sum.then *)
Definition sum_then (s t : dsum) : res dsum :=
  do terms <- pairwise dthen s t;
  do r <- sum_fold (MkSum [] (sdom s) (scod t)) terms;
  sum_mk (sterms r) (Some (sdom r)) (Some (scod r)).     (* monoidal.Sum.upgrade *)

(* monoidal.Sum.tensor *)
Definition sum_tensor (s t : dsum) : res dsum :=
  do terms <- pairwise dtensor s t;
  do r <- sum_fold (MkSum [] (sdom s ++ sdom t) (scod s ++ scod t)) terms;
  sum_mk (sterms r) (Some (sdom r)) (Some (scod r)).

(* Sum.dagger *)
Definition sum_dagger (s : dsum) : res dsum :=
  do r <- sum_fold (MkSum [] (scod s) (sdom s)) (map ddagger (sterms s));
  sum_mk (sterms r) (Some (sdom r)) (Some (scod r)).

(* Sum.__eq__ : dom, cod and the ORDERED list of terms *)
Definition sum_eqb (s t : dsum) : bool :=
  ty_eqb (sdom s) (sdom t) && ty_eqb (scod s) (scod t) && list_eqb deqb (sterms s) (sterms t).
