(* A well-typed diagram is determined by (dom, boxes, offsets): the layer view and the
   codomain are redundant.  This is what makes Diagram.__eq__ / __hash__, which read
   only dom, cod, boxes and offsets, an equality on whole diagram values (C01 / C03),
   and it is the stepping stone for class-level statements about rewriting (C06). *)
From Coq Require Import List ZArith Bool Lia.
Import ListNotations.
Require Import DV.Common.Base DV.Core.Diagram DV.Core.WF DV.Core.DiagramLemmas.
Open Scope Z_scope.

Lemma app_eq_len_l {A} (l1 l2 r1 r2 : list A) :
  l1 ++ r1 = l2 ++ r2 -> length l1 = length l2 -> l1 = l2 /\ r1 = r2.
Proof.
  revert l2. induction l1 as [|a l1 IH]; intros [|b l2] H L; cbn in *; try discriminate.
  - split; [reflexivity|exact H].
  - inversion H; subst. destruct (IH l2) as [-> ->]; auto.
Qed.

Lemma layer_ext (l1 l2 : layer) :
  ldom l1 = ldom l2 -> lbox l1 = lbox l2 -> len (lleft l1) = len (lleft l2) -> l1 = l2.
Proof.
  destruct l1 as [[a1 b1] r1], l2 as [[a2 b2] r2]. unfold ldom, lbox, lleft, lright, len; cbn [fst snd].
  intros H -> L. apply Nat2Z.inj in L. destruct (app_eq_len_l _ _ _ _ H L) as [-> H'].
  apply app_inv_head in H'. subst. reflexivity.
Qed.

Lemma chain_layers_ext ls1 : forall ls2 a b1 b2, chain a ls1 b1 -> chain a ls2 b2 ->
  map lbox ls1 = map lbox ls2 ->
  map (fun l => len (lleft l)) ls1 = map (fun l => len (lleft l)) ls2 -> ls1 = ls2.
Proof.
  induction ls1 as [|l1 ls1 IH]; intros [|l2 ls2] a b1 b2 C1 C2 HB HO; cbn in *; try discriminate; [reflexivity|].
  destruct C1 as [D1 C1], C2 as [D2 C2]. inversion HB as [[B HB']]. inversion HO as [[O HO']].
  assert (l1 = l2) by (apply layer_ext; congruence). subst l2.
  f_equal. eapply IH; eauto.
Qed.

Theorem wf_determined_by_dom_boxes_offsets a b : wf a -> wf b ->
  ddom a = ddom b -> dboxes a = dboxes b -> doffs a = doffs b -> a = b.
Proof.
  intros (A1 & A2 & A3 & A4 & A5) (B1 & B2 & B3 & B4 & B5) HD HB HO.
  destruct a as [da ca ba oa [lda lca lsa]], b as [db cb bb ob [ldb lcb lsb]].
  unfold la_wf in *. cbn in *. subst.
  assert (lsa = lsb) by (eapply chain_layers_ext; eauto). subst lsb.
  assert (ca = cb) by (eapply chain_fun; eauto). subst. reflexivity.
Qed.

Theorem deqb_leibniz_on_wf a b : wf a -> wf b -> (deqb a b = true <-> a = b).
Proof.
  intros Wa Wb. split.
  - intros H. apply deqb_eq in H. destruct H as (H1 & _ & H3 & H4).
    apply wf_determined_by_dom_boxes_offsets; assumption.
  - intros ->. apply deqb_eq. repeat split; reflexivity.
Qed.
