(* Proofs about Core/Diagram.v: boolean equalities reflect Leibniz equality,
   chains of layers, and well-typedness (wf) of everything the basic
   operations return. *)
From Coq Require Import List ZArith Bool Lia.
Import ListNotations.
Require Import DV.Common.Base DV.Common.ListLemmas DV.Core.Diagram DV.Core.WF.
Open Scope Z_scope.

(* ------------------------------------------------------------ reflection *)
Lemma ob_eqb_eq a b : ob_eqb a b = true <-> a = b.
Proof.
  destruct a, b; unfold ob_eqb; cbn. rewrite andb_true_iff, !Z.eqb_eq.
  split; [intros []; congruence|intros H; inversion H; auto].
Qed.
Lemma ty_eqb_eq a b : ty_eqb a b = true <-> a = b.
Proof. apply list_eqb_eq, ob_eqb_eq. Qed.
Lemma ty_eqb_refl a : ty_eqb a a = true.
Proof. now apply ty_eqb_eq. Qed.
Lemma bkind_eqb_eq a b : bkind_eqb a b = true <-> a = b.
Proof. unfold bkind_eqb. rewrite Z.eqb_eq. destruct a, b; cbn; split; congruence. Qed.
Lemma bool_eqb_eq a b : Bool.eqb a b = true <-> a = b.
Proof. destruct a, b; cbn; split; congruence. Qed.
Lemma box_eqb_eq a b : box_eqb a b = true <-> a = b.
Proof.
  destruct a, b; unfold box_eqb; cbn.
  rewrite !andb_true_iff, bkind_eqb_eq, Z.eqb_eq, !ty_eqb_eq, bool_eqb_eq.
  rewrite (opt_eqb_eq Z.eqb Z.eqb_eq).
  split; [intros [[[[[? ?] ?] ?] ?] ?]; congruence|intros H; inversion H; auto 10].
Qed.
Lemma box_eqb_refl a : box_eqb a a = true.
Proof. now apply box_eqb_eq. Qed.
Lemma layer_eqb_eq a b : layer_eqb a b = true <-> a = b.
Proof.
  destruct a as [[l1 b1] r1], b as [[l2 b2] r2]; unfold layer_eqb, lleft, lbox, lright; cbn.
  rewrite !andb_true_iff, !ty_eqb_eq, box_eqb_eq.
  split; [intros [[? ?] ?]; congruence|intros H; inversion H; auto].
Qed.
Lemma deqb_eq a b : deqb a b = true <->
  ddom a = ddom b /\ dcod a = dcod b /\ dboxes a = dboxes b /\ doffs a = doffs b.
Proof.
  unfold deqb. rewrite !andb_true_iff, !ty_eqb_eq.
  rewrite (list_eqb_eq box_eqb box_eqb_eq), (list_eqb_eq Z.eqb Z.eqb_eq). tauto.
Qed.

(* ------------------------------------------------------------ box dagger *)
Lemma box_dagger_dom b : bdom (box_dagger b) = bcod b.
Proof. unfold box_dagger; destruct (bk b); reflexivity. Qed.
Lemma box_dagger_cod b : bcod (box_dagger b) = bdom b.
Proof. unfold box_dagger; destruct (bk b); reflexivity. Qed.
Lemma layer_dagger_dom l : ldom (layer_dagger l) = lcod l.
Proof. unfold ldom, lcod, layer_dagger, lleft, lbox, lright; cbn. now rewrite box_dagger_dom. Qed.
Lemma layer_dagger_cod l : lcod (layer_dagger l) = ldom l.
Proof. unfold ldom, lcod, layer_dagger, lleft, lbox, lright; cbn. now rewrite box_dagger_cod. Qed.
Lemma layer_dagger_left l : lleft (layer_dagger l) = lleft l.
Proof. reflexivity. Qed.

(* ------------------------------------------------------------ chains *)
Lemma chain_app a ls1 : forall ls2 b m, chain a ls1 m -> chain m ls2 b -> chain a (ls1 ++ ls2) b.
Proof.
  revert a. induction ls1 as [|l ls1 IH]; cbn; intros a ls2 b m H1 H2.
  - subst; auto.
  - destruct H1 as [-> H1]. split; auto. eapply IH; eauto.
Qed.

Lemma chain_split a ls1 : forall ls2 b, chain a (ls1 ++ ls2) b -> exists m, chain a ls1 m /\ chain m ls2 b.
Proof.
  revert a. induction ls1 as [|l ls1 IH]; cbn; intros a ls2 b H.
  - exists a; auto.
  - destruct H as [-> H]. destruct (IH _ _ _ H) as [m [H1 H2]]. exists m; auto.
Qed.

Lemma chain_fun a ls b b' : chain a ls b -> chain a ls b' -> b = b'.
Proof.
  revert a. induction ls as [|l ls IH]; cbn; intros a H H'.
  - congruence.
  - destruct H as [_ H], H' as [_ H']. eauto.
Qed.

Lemma last_cons_indep {A} (x : A) l d d' : last (x :: l) d = last (x :: l) d'.
Proof. revert x. induction l as [|y l IH]; intros x; [reflexivity|]. cbn [last] in *. apply IH. Qed.

Lemma chain_ends x l0 ls y : chain x (l0 :: ls) y -> x = ldom l0 /\ y = lcod (last (l0 :: ls) l0).
Proof.
  revert x l0. induction ls as [|l ls IH]; intros x l0 H.
  - cbn in *. destruct H; auto.
  - destruct H as [-> H]. split; [auto|]. destruct (IH _ _ H) as [_ ->].
    cbn [last]. f_equal. apply last_cons_indep.
Qed.

Lemma chain_sub a ls b m k : chain a ls b ->
  match firstn k (skipn m ls) with
  | [] => True
  | (l0 :: _) as sub => chain (ldom l0) sub (lcod (last sub l0))
  end.
Proof.
  intros H.
  rewrite <- (firstn_skipn m ls) in H. apply chain_split in H. destruct H as (x & _ & H).
  rewrite <- (firstn_skipn k (skipn m ls)) in H. apply chain_split in H. destruct H as (y & H & _).
  destruct (firstn k (skipn m ls)) as [|l0 sub] eqn:E; [exact Logic.I|].
  destruct (chain_ends _ _ _ _ H) as [H1 H2].
  change (chain (ldom l0) (l0 :: sub) (lcod (last (l0 :: sub) l0))).
  rewrite <- H1, <- H2. exact H.
Qed.

Lemma chain_rev a ls b : chain a ls b -> chain b (map layer_dagger (rev ls)) a.
Proof.
  revert a. induction ls as [|l ls IH]; cbn [chain map rev]; intros a H.
  - auto.
  - destruct H as [-> H]. rewrite map_app. eapply chain_app; [apply IH; exact H|].
    cbn [chain map]. rewrite layer_dagger_dom, layer_dagger_cod. auto.
Qed.

(* whiskering a chain with extra wires on the right / on the left *)
Lemma chain_whisker_r a ls b x : chain a ls b ->
  chain (a ++ x) (map (fun l : layer => (lleft l, lbox l, lright l ++ x)) ls) (b ++ x).
Proof.
  revert a. induction ls as [|l ls IH]; cbn; intros a H.
  - now subst.
  - destruct H as [-> H]. split.
    + unfold ldom, lleft, lbox, lright; cbn. now rewrite <- !app_assoc.
    + specialize (IH _ H). unfold lcod, lleft, lbox, lright in *; cbn in *.
      now rewrite <- !app_assoc in *.
Qed.

Lemma chain_whisker_l a ls b x : chain a ls b ->
  chain (x ++ a) (map (fun l : layer => (x ++ lleft l, lbox l, lright l)) ls) (x ++ b).
Proof.
  revert a. induction ls as [|l ls IH]; cbn; intros a H.
  - now subst.
  - destruct H as [-> H]. split.
    + unfold ldom, lleft, lbox, lright; cbn. now rewrite <- !app_assoc.
    + specialize (IH _ H). unfold lcod, lleft, lbox, lright in *; cbn in *.
      now rewrite <- !app_assoc in *.
Qed.

(* ------------------------------------------------------------ layer arrows *)
Lemma la_id_wf t : la_wf (la_id t).
Proof. reflexivity. Qed.
Lemma la_of_wf l : la_wf (la_of l).
Proof. unfold la_wf, la_of; cbn. auto. Qed.

Lemma la_then_ok a b c : la_then a b = Ok c ->
  la_cod a = la_dom b /\ c = LA (la_dom a) (la_cod b) (la_ls a ++ la_ls b).
Proof.
  unfold la_then. destruct (ty_eqb (la_cod a) (la_dom b)) eqn:E; [|discriminate].
  apply ty_eqb_eq in E. intros H; inversion H; auto.
Qed.

Lemma la_then_eq a b : la_cod a = la_dom b ->
  la_then a b = Ok (LA (la_dom a) (la_cod b) (la_ls a ++ la_ls b)).
Proof. intros H. unfold la_then. rewrite H, ty_eqb_refl. reflexivity. Qed.

Lemma la_then_err a b e : la_then a b = Err e -> e = AxiomError /\ la_cod a <> la_dom b.
Proof.
  unfold la_then. destruct (ty_eqb (la_cod a) (la_dom b)) eqn:E; [discriminate|].
  intros H; inversion H. split; auto. intros Heq. apply ty_eqb_eq in Heq. congruence.
Qed.

Lemma la_then_wf a b c : la_wf a -> la_wf b -> la_then a b = Ok c -> la_wf c.
Proof.
  intros Ha Hb H. apply la_then_ok in H. destruct H as [Hm ->].
  unfold la_wf in *; cbn. eapply chain_app; eauto. now rewrite Hm.
Qed.

Lemma la_extend_chain ls : forall acc t, chain (la_cod acc) ls t ->
  la_extend acc ls = Ok (LA (la_dom acc) t (la_ls acc ++ ls)).
Proof.
  induction ls as [|l ls IH]; cbn; intros acc t H.
  - subst. rewrite app_nil_r. destruct acc; reflexivity.
  - destruct H as [Hd H]. rewrite la_then_eq by (cbn; auto). cbn [bind].
    rewrite IH with (t := t) by (cbn; auto). cbn. now rewrite <- app_assoc.
Qed.

Lemma la_slice_wf a s e : la_wf a -> la_wf (la_slice a s e).
Proof.
  intros H. unfold la_slice.
  destruct (py_slice (la_ls a) s e) as [|l0 sub] eqn:E.
  - destruct (len (la_ls a) <=? _); [apply la_id_wf|].
    destruct (_ <=? - len (la_ls a)); [apply la_id_wf|].
    destruct (py_index _ _); apply la_id_wf.
  - unfold py_slice in E. pose proof (chain_sub _ _ _ (Z.to_nat (clip (len (la_ls a)) s 0))
      (Z.to_nat (clip (len (la_ls a)) e (len (la_ls a)) - clip (len (la_ls a)) s 0)) H) as Hs.
    rewrite E in Hs. exact Hs.
Qed.

Lemma la_slice_rev_wf a s e : la_wf a -> la_wf (la_slice_rev a s e).
Proof.
  intros H. unfold la_slice_rev, py_slice_rev.
  match goal with |- context [rev (firstn ?k (skipn ?m ?l))] =>
    pose proof (chain_sub _ _ _ m k H) as Hsub;
    remember (firstn k (skipn m l)) as sub eqn:Esub end.
  assert (Hgen : match map layer_dagger (rev sub) with
                 | [] => True
                 | (l0 :: _) as ls => la_wf (LA (ldom l0) (lcod (last ls l0)) ls) end).
  { destruct sub as [|l0 sub'] eqn:Es; [exact Logic.I|].
    apply chain_rev in Hsub. rewrite <- Es in *.
    destruct (map layer_dagger (rev sub)) as [|k0 ks] eqn:Ek; [exact Logic.I|].
    destruct (chain_ends _ _ _ _ Hsub) as [H1 H2]. unfold la_wf; cbn [la_dom la_cod la_ls].
    rewrite <- H1, <- H2. exact Hsub. }
  destruct s as [s|], e as [e|].
  1-3: destruct (map layer_dagger (rev sub)) as [|k0 ks] eqn:Ek;
    [ destruct (_ - 1 <=? _); [apply la_id_wf|]; destruct (_ <? - _); [apply la_id_wf|];
      destruct (py_index _ _); apply la_id_wf
    | exact Hgen ].
  (* full reversal *)
  unfold la_wf; cbn [la_dom la_cod la_ls].
  assert (sub = la_ls a) as ->.
  { subst sub. unfold clip_rev. replace (-1 + 1) with 0 by lia. cbn [Z.to_nat skipn].
    replace (len (la_ls a) - 1 - -1) with (len (la_ls a)) by lia.
    unfold len. rewrite Nat2Z.id. apply firstn_all. }
  apply chain_rev. exact H.
Qed.

(* ------------------------------------------------------------ diagrams *)
Lemma of_layers_wf la : la_wf la -> wf (of_layers la).
Proof. intros H. unfold wf, of_layers; cbn. auto. Qed.

Lemma did_wf t : wf (did t).
Proof. unfold wf, did, la_wf; cbn. auto. Qed.

Lemma dbox_wf b : wf (dbox b).
Proof.
  unfold wf, dbox, la_wf; cbn. repeat split; auto; unfold ldom, lcod, lleft, lbox, lright; cbn;
  now rewrite ?app_nil_r.
Qed.

Lemma dslice_wf d s e : wf d -> wf (dslice d s e).
Proof. intros (_ & _ & H & _). apply of_layers_wf, la_slice_wf, H. Qed.

Lemma dslice_rev_wf d s e : wf d -> wf (dslice_rev d s e).
Proof. intros (_ & _ & H & _). apply of_layers_wf, la_slice_rev_wf, H. Qed.

Lemma ddagger_wf d : wf d -> wf (ddagger d).
Proof. apply dslice_rev_wf. Qed.

Lemma ddagger_dom_cod d : wf d -> ddom (ddagger d) = dcod d /\ dcod (ddagger d) = ddom d.
Proof. intros (H1 & H2 & _). unfold ddagger, dslice_rev, of_layers, la_slice_rev; cbn. auto. Qed.

(* the constructor scan *)
Lemma scan_layers_spec bs : forall scan offs t ls,
  length bs = length offs ->
  scan_layers scan bs offs = Ok (t, ls) ->
  chain scan ls t /\ bs = map lbox ls /\ offs = map (fun l => len (lleft l)) ls.
Proof.
  induction bs as [|b bs IH]; intros scan offs t ls Hlen H.
  - destruct offs; [|discriminate]. cbn in H. inversion H; subst. cbn. auto.
  - destruct offs as [|off offs]; [discriminate|]. cbn [scan_layers] in H.
    destruct (negb _) eqn:Er; [discriminate|].
    apply negb_false_iff, andb_true_iff in Er. destruct Er as [E1 E2].
    apply Z.leb_le in E1, E2.
    destruct (ty_eqb scan _) eqn:Et; [|discriminate]. apply ty_eqb_eq in Et.
    destruct (scan_layers _ bs offs) as [[t' ls']|] eqn:Er; [|discriminate].
    cbn in H. inversion H; subst t ls. clear H.
    assert (Hlen' : length bs = length offs) by (cbn [length] in Hlen; lia).
    destruct (IH _ _ _ _ Hlen' Er) as (Hc & Hb & Ho).
    cbn [chain map]. repeat split; auto.
    + f_equal; auto.
    + f_equal; auto. unfold lleft; cbn [fst].
      rewrite py_slice_prefix by lia. unfold len. rewrite firstn_length.
      unfold len in E2. lia.
Qed.

Theorem mk_wf dom cod bs offs d : mk dom cod bs offs = Ok d -> wf d.
Proof.
  unfold mk. destruct (negb (len bs =? len offs)) eqn:El; [discriminate|].
  apply negb_false_iff, Z.eqb_eq in El.
  destruct (scan_layers dom bs offs) as [[t ls]|] eqn:Es; [|discriminate]. cbn [bind fst snd].
  destruct (ty_eqb t cod) eqn:Et; [|discriminate]. apply ty_eqb_eq in Et. subst t.
  intros H; inversion H; subst d. clear H.
  assert (Hlen : length bs = length offs) by (unfold len in El; lia).
  destruct (scan_layers_spec bs dom offs cod ls Hlen Es) as (Hc & Hb & Ho).
  unfold wf, la_wf; cbn. auto.
Qed.

Lemma mk_fields dom cod bs offs d : mk dom cod bs offs = Ok d ->
  ddom d = dom /\ dcod d = cod /\ dboxes d = bs /\ doffs d = offs.
Proof.
  unfold mk. destruct (negb _); [discriminate|].
  destruct (scan_layers dom bs offs) as [[t ls]|]; [|discriminate]. cbn [bind fst snd].
  destruct (ty_eqb t cod); [|discriminate]. intros H; inversion H; cbn; auto.
Qed.

Lemma dthen_ok a b : wf a -> wf b -> dcod a = ddom b ->
  exists d, dthen a b = Ok d /\ wf d /\ ddom d = ddom a /\ dcod d = dcod b
            /\ dboxes d = dboxes a ++ dboxes b /\ doffs d = doffs a ++ doffs b.
Proof.
  intros (A1 & A2 & A3 & A4 & A5) (B1 & B2 & B3 & B4 & B5) Hm.
  unfold dthen. rewrite la_then_eq by congruence. cbn [bind].
  eexists; split; [reflexivity|]. unfold wf, la_wf in *; cbn.
  rewrite A4, A5, B4, B5, !map_app. repeat split; auto.
  eapply chain_app; [exact A3|]. rewrite A2, Hm, <- B1. exact B3.
Qed.

Lemma dthen_inv a b d : dthen a b = Ok d ->
  la_cod (dlayers a) = la_dom (dlayers b) /\
  d = D (ddom a) (dcod b) (dboxes a ++ dboxes b) (doffs a ++ doffs b)
        (LA (la_dom (dlayers a)) (la_cod (dlayers b)) (la_ls (dlayers a) ++ la_ls (dlayers b))).
Proof.
  unfold dthen. destruct (la_then _ _) eqn:E; [|discriminate]. cbn.
  apply la_then_ok in E. destruct E as [E ->]. intros H; inversion H; auto.
Qed.

Theorem dthen_wf a b d : wf a -> wf b -> dthen a b = Ok d ->
  wf d /\ ddom d = ddom a /\ dcod d = dcod b.
Proof.
  intros Ha Hb H. pose proof (dthen_inv _ _ _ H) as [Hm _].
  assert (Heq : dcod a = ddom b).
  { destruct Ha as (_ & A2 & _), Hb as (B1 & _). congruence. }
  destruct (dthen_ok a b Ha Hb Heq) as (d' & Hd & Hw & H1 & H2 & _).
  rewrite H in Hd. inversion Hd; subst. auto.
Qed.

(* refusal: composition fails exactly when the types do not match *)
Theorem dthen_err_iff a b : wf a -> wf b ->
  (dthen a b = Err AxiomError <-> dcod a <> ddom b).
Proof.
  intros Ha Hb. split.
  - intros H Heq. destruct (dthen_ok a b Ha Hb Heq) as (d & Hd & _). congruence.
  - intros Hne. unfold dthen, la_then.
    destruct Ha as (_ & A2 & _), Hb as (B1 & _).
    destruct (ty_eqb _ _) eqn:E; [|reflexivity]. apply ty_eqb_eq in E. congruence.
Qed.

Lemma dtensor_ok a b : wf a -> wf b ->
  exists d, dtensor a b = Ok d /\ wf d /\
    ddom d = ddom a ++ ddom b /\ dcod d = dcod a ++ dcod b /\
    dboxes d = dboxes a ++ dboxes b /\
    doffs d = doffs a ++ map (fun n => n + len (dcod a)) (doffs b).
Proof.
  intros (A1 & A2 & A3 & A4 & A5) (B1 & B2 & B3 & B4 & B5). unfold dtensor.
  unfold la_wf in A3, B3. rewrite A1, A2 in A3. rewrite B1, B2 in B3.
  pose proof (chain_whisker_r _ _ _ (ddom b) A3) as C1.
  pose proof (chain_whisker_l _ _ _ (dcod a) B3) as C2.
  rewrite (la_extend_chain _ (la_id (ddom a ++ ddom b)) _ C1). cbn [bind la_id la_dom la_cod la_ls app].
  match goal with |- context [la_extend ?acc _] => rewrite (la_extend_chain _ acc _ C2) end.
  cbn [bind la_dom la_cod la_ls].
  eexists; split; [reflexivity|]. unfold wf, la_wf; cbn [ddom dcod dboxes doffs dlayers la_dom la_cod la_ls].
  repeat split; auto.
  - eapply chain_app; eauto.
  - rewrite A4, B4, !map_app, !map_map. reflexivity.
  - rewrite A5, B5, !map_app, !map_map. f_equal.
    apply map_ext. intros l. unfold lleft; cbn [fst]. rewrite len_app. lia.
Qed.

Theorem dtensor_wf a b d : wf a -> wf b -> dtensor a b = Ok d ->
  wf d /\ ddom d = ddom a ++ ddom b /\ dcod d = dcod a ++ dcod b.
Proof.
  intros Ha Hb H. destruct (dtensor_ok a b Ha Hb) as (d' & Hd & Hw & ? & ? & _).
  rewrite H in Hd. inversion Hd; subst. auto.
Qed.

Theorem dgetitem_wf d i d' : wf d -> dgetitem d i = Ok d' -> wf d'.
Proof.
  intros Hd. unfold dgetitem. destruct (py_index _ i) as [l|]; [|discriminate]. cbn [bind].
  destruct (dtensor_ok (did (lleft l)) (dbox (lbox l)) (did_wf _) (dbox_wf _)) as (t & Ht & Hw & _).
  rewrite Ht. cbn [bind]. intros H.
  eapply dtensor_wf; [exact Hw|apply did_wf|exact H].
Qed.

(* ------------------------------------------------------------ slicing at a depth *)
Lemma type_at_all a ls b : chain a ls b -> type_at a ls (length ls) = b.
Proof.
  revert a. induction ls as [|l ls IH]; cbn; intros a H; [auto|]. destruct H as [_ H]. auto.
Qed.

Lemma type_at_0 a ls : type_at a ls 0 = a.
Proof. destruct ls; reflexivity. Qed.

Lemma chain_firstn a ls b k : chain a ls b -> (k <= length ls)%nat ->
  chain a (firstn k ls) (type_at a ls k).
Proof.
  revert a k. induction ls as [|l ls IH]; intros a k H Hk.
  - destruct k; cbn in *; [reflexivity|lia].
  - destruct k as [|k]; cbn; [reflexivity|]. destruct H as [-> H]. split; [auto|].
    apply IH; [auto|cbn in Hk; lia].
Qed.

Lemma chain_skipn a ls b k : chain a ls b -> (k <= length ls)%nat ->
  chain (type_at a ls k) (skipn k ls) b.
Proof.
  revert a k. induction ls as [|l ls IH]; intros a k H Hk.
  - destruct k; cbn in *; [auto|lia].
  - destruct k as [|k]; cbn [skipn type_at]; [exact H|]. destruct H as [-> H].
    apply IH; [auto|cbn in Hk; lia].
Qed.

Lemma type_at_nth a ls b k l : chain a ls b -> nth_error ls k = Some l ->
  type_at a ls k = ldom l /\ type_at a ls (S k) = lcod l.
Proof.
  revert a k. induction ls as [|l0 ls IH]; intros a k H Hn.
  - destruct k; discriminate.
  - destruct H as [-> H]. destruct k as [|k]; cbn in Hn.
    + inversion Hn; subst. cbn. split; [reflexivity|apply type_at_0].
    + cbn [type_at]. apply IH; auto.
Qed.

Lemma la_slice_prefix a i : la_wf a -> (i <= length (la_ls a))%nat ->
  la_slice a None (Some (Z.of_nat i)) =
  LA (la_dom a) (type_at (la_dom a) (la_ls a) i) (firstn i (la_ls a)).
Proof.
  intros H Hi. unfold la_slice. rewrite py_slice_prefix by lia. rewrite Nat2Z.id.
  pose proof (chain_firstn _ _ _ i H Hi) as Hc.
  destruct (firstn i (la_ls a)) as [|l0 sub] eqn:E.
  - cbn in Hc. rewrite <- Hc.
    destruct (la_ls a) as [|l ls] eqn:El.
    + cbn. unfold la_wf in H. rewrite El in H. cbn in H. unfold la_id. now rewrite H.
    + rewrite len_cons. pose proof (len_nonneg ls).
      destruct (1 + len ls <=? 0) eqn:E1; [lia|]. destruct (0 <=? - (1 + len ls)) eqn:E2; [lia|].
      cbn. unfold la_wf in H. rewrite El in H. destruct H as [-> _]. reflexivity.
  - destruct (chain_ends _ _ _ _ Hc) as [H1 H2]. now rewrite <- H1, <- H2.
Qed.

Lemma la_slice_suffix a i : la_wf a -> (i <= length (la_ls a))%nat ->
  la_slice a (Some (Z.of_nat i)) None =
  LA (type_at (la_dom a) (la_ls a) i) (la_cod a) (skipn i (la_ls a)).
Proof.
  intros H Hi. unfold la_slice. rewrite py_slice_suffix by lia. rewrite Nat2Z.id.
  pose proof (chain_skipn _ _ _ i H Hi) as Hc.
  destruct (skipn i (la_ls a)) as [|l0 sub] eqn:E.
  - cbn in Hc. rewrite Hc.
    assert (i = length (la_ls a)).
    { apply (f_equal (@length _)) in E. rewrite skipn_length in E. cbn in E. lia. }
    subst i. unfold len. rewrite Z.leb_refl. reflexivity.
  - destruct (chain_ends _ _ _ _ Hc) as [H1 H2]. now rewrite <- H1, <- H2.
Qed.

(* ------------------------------------------------------------ wf means what C01 says *)
Lemma chain_reads a ls b : chain a ls b ->
  reads a (map lbox ls) (map (fun l => len (lleft l)) ls) b.
Proof.
  revert a. induction ls as [|l ls IH]; cbn; intros a H; [auto|].
  destruct H as [-> H]. split; [apply len_nonneg|].
  exists (lleft l), (lright l). repeat split; auto.
Qed.

Theorem wf_reads d : wf d -> reads (ddom d) (dboxes d) (doffs d) (dcod d).
Proof.
  intros (W1 & W2 & W3 & W4 & W5). rewrite W4, W5, <- W1, <- W2. apply chain_reads, W3.
Qed.

Lemma reads_scan bs : forall a offs b, reads a bs offs b ->
  exists ls, scan_layers a bs offs = Ok (b, ls).
Proof.
  induction bs as [|bx bs IH]; intros a offs b H; destruct offs as [|off offs]; cbn in H; try contradiction.
  - subst. cbn. eauto.
  - destruct H as (Hoff & l & r & -> & Hl & H). cbn [scan_layers].
    assert (Hr : (0 <=? off) && (off <=? len (l ++ bdom bx ++ r) - len (bdom bx)) = true).
    { apply andb_true_iff. split; apply Z.leb_le; [lia|]. rewrite !len_app. pose proof (len_nonneg r). lia. }
    rewrite Hr. cbn [negb].
    rewrite py_slice_prefix, py_slice_suffix by (pose proof (len_nonneg (bdom bx)); lia).
    replace (Z.to_nat off) with (length l) by (unfold len in Hl; lia).
    replace (Z.to_nat (off + len (bdom bx))) with (length (l ++ bdom bx)) by (rewrite app_length; unfold len in *; lia).
    rewrite firstn_app_exact. rewrite app_assoc, skipn_app_exact.
    unfold ldom, lcod, lleft, lbox, lright. cbn [fst snd]. rewrite <- app_assoc, ty_eqb_refl.
    destruct (IH _ _ _ H) as (ls & Hls). rewrite Hls. cbn [bind fst snd]. eauto.
Qed.

(* the constructor accepts exactly the well-typed requests *)
Theorem mk_ok_iff dom cod bs offs :
  (exists d, mk dom cod bs offs = Ok d) <-> (length bs = length offs /\ reads dom bs offs cod).
Proof.
  split.
  - intros (d & H). pose proof (mk_wf _ _ _ _ _ H) as W. destruct (mk_fields _ _ _ _ _ H) as (F1 & F2 & F3 & F4).
    apply wf_reads in W. rewrite F1, F2, F3, F4 in W. split; [|exact W].
    unfold mk in H. destruct (negb (len bs =? len offs)) eqn:E; [discriminate|].
    apply negb_false_iff, Z.eqb_eq in E. unfold len in E. lia.
  - intros [Hl Hr]. unfold mk. unfold len. rewrite Hl, Z.eqb_refl. cbn [negb].
    destruct (reads_scan _ _ _ _ Hr) as (ls & Hls). rewrite Hls. cbn [bind fst snd].
    rewrite ty_eqb_refl. eauto.
Qed.
