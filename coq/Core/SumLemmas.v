(* C02, sums: composition, tensor and dagger distribute over formal sums and the
   empty sum is their unit. *)
From Coq Require Import List ZArith Bool Lia Permutation.
Import ListNotations.
Require Import DV.Common.Base DV.Common.ListLemmas DV.Core.Diagram DV.Core.WF DV.Core.DiagramLemmas
  DV.Core.Laws DV.Core.Sum.
Open Scope Z_scope.

Definition typed (d c : ty) (t : diagram) : Prop := wf t /\ ddom t = d /\ dcod t = c.
Definition sum_wf (s : dsum) : Prop := Forall (typed (sdom s) (scod s)) (sterms s).

Lemma forallb_typed d c terms : Forall (typed d c) terms ->
  forallb (fun t => ty_eqb (ddom t) d && ty_eqb (dcod t) c) terms = true.
Proof.
  intros H. apply forallb_forall. intros t Ht. rewrite Forall_forall in H.
  destruct (H t Ht) as (_ & -> & ->). now rewrite !ty_eqb_refl.
Qed.

Lemma sum_mk_ok terms d c : Forall (typed d c) terms ->
  sum_mk terms (Some d) (Some c) = Ok (MkSum terms d c).
Proof.
  intros H. unfold sum_mk. destruct terms as [|t0 ts]; [reflexivity|].
  now rewrite (forallb_typed _ _ _ H).
Qed.

Lemma sum_add_ok s t : sum_wf s -> Forall (typed (sdom s) (scod s)) (sterms t) ->
  sum_add s t = Ok (MkSum (sterms s ++ sterms t) (sdom s) (scod s)).
Proof. intros Hs Ht. unfold sum_add. apply sum_mk_ok. apply Forall_app; auto. Qed.

Lemma sum_fold_ok terms : forall acc, sum_wf acc -> Forall (typed (sdom acc) (scod acc)) terms ->
  sum_fold acc terms = Ok (MkSum (sterms acc ++ terms) (sdom acc) (scod acc)).
Proof.
  induction terms as [|t ts IH]; intros acc Ha Ht; cbn [sum_fold].
  - rewrite app_nil_r. destruct acc; reflexivity.
  - inversion Ht; subst. rewrite sum_add_ok by (auto; cbn; auto). cbn [bind sum_of sterms].
    rewrite IH; cbn [sterms sdom scod].
    + now rewrite <- app_assoc.
    + unfold sum_wf; cbn. apply Forall_app; auto.
    + auto.
Qed.

(* ------------------------------------------------------------ explicit values *)
Definition then_val (a b : diagram) : diagram :=
  D (ddom a) (dcod b) (dboxes a ++ dboxes b) (doffs a ++ doffs b)
    (LA (la_dom (dlayers a)) (la_cod (dlayers b)) (la_ls (dlayers a) ++ la_ls (dlayers b))).

Lemma dthen_val a b : wf a -> wf b -> dcod a = ddom b ->
  dthen a b = Ok (then_val a b) /\ typed (ddom a) (dcod b) (then_val a b).
Proof.
  intros Ha Hb Hm. destruct (dthen_ok a b Ha Hb Hm) as (d & Ed & Wd & Dd & Cd & _).
  assert (E : dthen a b = Ok (then_val a b)).
  { apply dthen_eq. destruct Ha as (_ & A2 & _), Hb as (B1 & _). congruence. }
  rewrite E in Ed. inversion Ed; subst d. split; [exact E|]. unfold typed. auto.
Qed.

Lemma mapM_ok_map {A B} (f : A -> res B) (g : A -> B) l :
  Forall (fun x => f x = Ok (g x)) l -> mapM f l = Ok (map g l).
Proof.
  induction l as [|x l IH]; intros H; cbn; [reflexivity|].
  inversion H; subst. rewrite H2. cbn. rewrite IH by auto. reflexivity.
Qed.

Lemma in_prod_typed {A} (P Q : A -> Prop) (l1 l2 : list A) :
  Forall P l1 -> Forall Q l2 -> Forall (fun fg => P (fst fg) /\ Q (snd fg)) (list_prod l1 l2).
Proof.
  intros H1 H2. apply Forall_forall. intros [f g] Hin. apply in_prod_iff in Hin.
  rewrite Forall_forall in H1, H2. cbn. destruct Hin; auto.
Qed.

Definition pair_vals (val : diagram -> diagram -> diagram) (s t : dsum) : list diagram :=
  map (fun fg => val (fst fg) (snd fg)) (list_prod (sterms s) (sterms t)).

Lemma sum_then_ok s t : sum_wf s -> sum_wf t -> scod s = sdom t ->
  sum_then s t = Ok (MkSum (pair_vals then_val s t) (sdom s) (scod t)) /\
  sum_wf (MkSum (pair_vals then_val s t) (sdom s) (scod t)).
Proof.
  intros Hs Ht Hm.
  pose proof (in_prod_typed _ _ _ _ Hs Ht) as Hp.
  assert (Hty : Forall (typed (sdom s) (scod t)) (pair_vals then_val s t)).
  { unfold pair_vals. apply Forall_forall. intros x Hx. apply in_map_iff in Hx.
    destruct Hx as ([f g] & <- & Hin). rewrite Forall_forall in Hp.
    destruct (Hp _ Hin) as [(Wf & Df & Cf) (Wg & Dg & Cg)]. cbn [fst snd] in *.
    destruct (dthen_val f g Wf Wg) as [_ T]; [congruence|]. rewrite Df, Cg in T. exact T. }
  split; [|exact Hty].
  unfold sum_then, pairwise.
  rewrite (mapM_ok_map _ (fun fg => then_val (fst fg) (snd fg))).
  2: { eapply Forall_impl; [|exact Hp]. intros [f g] [(Wf & Df & Cf) (Wg & Dg & Cg)]. cbn [fst snd] in *.
       apply dthen_val; auto. congruence. }
  cbn [bind]. fold (pair_vals then_val s t).
  rewrite sum_fold_ok; cbn [sterms sdom scod app bind]; auto.
  - apply sum_mk_ok; auto.
  - constructor.
Qed.

Lemma sum_tensor_ok s t : sum_wf s -> sum_wf t ->
  sum_tensor s t = Ok (MkSum (pair_vals tensor_val s t) (sdom s ++ sdom t) (scod s ++ scod t)) /\
  sum_wf (MkSum (pair_vals tensor_val s t) (sdom s ++ sdom t) (scod s ++ scod t)).
Proof.
  intros Hs Ht.
  pose proof (in_prod_typed _ _ _ _ Hs Ht) as Hp.
  assert (Hty : Forall (typed (sdom s ++ sdom t) (scod s ++ scod t)) (pair_vals tensor_val s t)).
  { unfold pair_vals. apply Forall_forall. intros x Hx. apply in_map_iff in Hx.
    destruct Hx as ([f g] & <- & Hin). rewrite Forall_forall in Hp.
    destruct (Hp _ Hin) as [(Wf & Df & Cf) (Wg & Dg & Cg)]. cbn [fst snd] in *.
    destruct (dtensor_val f g Wf Wg) as [_ W]. unfold typed. split; [exact W|].
    unfold tensor_val; cbn. now rewrite Df, Cf, Dg, Cg. }
  split; [|exact Hty].
  unfold sum_tensor, pairwise.
  rewrite (mapM_ok_map _ (fun fg => tensor_val (fst fg) (snd fg))).
  2: { eapply Forall_impl; [|exact Hp]. intros [f g] [(Wf & _) (Wg & _)]. cbn [fst snd] in *.
       apply dtensor_val; auto. }
  cbn [bind]. fold (pair_vals tensor_val s t).
  rewrite sum_fold_ok; cbn [sterms sdom scod app bind]; auto.
  - apply sum_mk_ok; auto.
  - constructor.
Qed.

Lemma sum_dagger_ok s : sum_wf s ->
  sum_dagger s = Ok (MkSum (map ddagger (sterms s)) (scod s) (sdom s)) /\
  sum_wf (MkSum (map ddagger (sterms s)) (scod s) (sdom s)).
Proof.
  intros Hs.
  assert (Hty : Forall (typed (scod s) (sdom s)) (map ddagger (sterms s))).
  { apply Forall_forall. intros x Hx. apply in_map_iff in Hx. destruct Hx as (f & <- & Hin).
    unfold sum_wf in Hs. rewrite Forall_forall in Hs. destruct (Hs _ Hin) as (Wf & Df & Cf).
    destruct (ddagger_dom_cod f Wf) as [D1 C1]. unfold typed. split; [apply ddagger_wf, Wf|]. split; congruence. }
  split; [|exact Hty].
  unfold sum_dagger. rewrite sum_fold_ok; cbn [sterms sdom scod app bind]; auto.
  - apply sum_mk_ok; auto.
  - constructor.
Qed.

(* ------------------------------------------------------------ distributivity *)
Lemma list_prod_app_l {A B} (a b : list A) (c : list B) :
  list_prod (a ++ b) c = list_prod a c ++ list_prod b c.
Proof. induction a as [|x a IH]; cbn; [reflexivity|]. now rewrite IH, app_assoc. Qed.

Lemma list_prod_app_r_perm {A B} (a : list A) (b c : list B) :
  Permutation (list_prod a (b ++ c)) (list_prod a b ++ list_prod a c).
Proof.
  induction a as [|x a IH]; cbn; [constructor|].
  rewrite map_app, <- !app_assoc. apply Permutation_app_head.
  rewrite IH. rewrite !app_assoc. apply Permutation_app_tail. apply Permutation_app_comm.
Qed.

Lemma list_prod_single_r {A B} (x : A) (b c : list B) :
  list_prod [x] (b ++ c) = list_prod [x] b ++ list_prod [x] c.
Proof. cbn. now rewrite !app_nil_r, map_app. Qed.

Definition same_sig (s t : dsum) : Prop := sdom t = sdom s /\ scod t = scod s.

Lemma sum_add_val s t : sum_wf s -> sum_wf t -> same_sig s t ->
  sum_add s t = Ok (MkSum (sterms s ++ sterms t) (sdom s) (scod s)) /\
  sum_wf (MkSum (sterms s ++ sterms t) (sdom s) (scod s)).
Proof.
  intros Hs Ht [Hd Hc]. unfold sum_wf in Ht. rewrite Hd, Hc in Ht. split.
  - apply sum_add_ok; auto.
  - unfold sum_wf; cbn. apply Forall_app; auto.
Qed.

(* (s + t) >> u == (s >> u) + (t >> u), as equality of values *)
Theorem sum_then_distr_l s t u : sum_wf s -> sum_wf t -> sum_wf u -> same_sig s t -> scod s = sdom u ->
  (do st <- sum_add s t; sum_then st u) =
  (do a <- sum_then s u; do b <- sum_then t u; sum_add a b).
Proof.
  intros Hs Ht Hu Hsig Hm. destruct Hsig as [Hd Hc].
  destruct (sum_add_val s t Hs Ht (conj Hd Hc)) as [E1 W1]. rewrite E1. cbn [bind].
  destruct (sum_then_ok _ u W1 Hu Hm) as [E2 _]. rewrite E2.
  destruct (sum_then_ok s u Hs Hu Hm) as [E3 W3]. destruct (sum_then_ok t u Ht Hu) as [E4 W4]; [congruence|].
  rewrite E3, E4. cbn [bind].
  destruct (sum_add_val _ _ W3 W4) as [E5 _]; [split; cbn; congruence|]. rewrite E5.
  unfold pair_vals; cbn [sterms sdom scod]. now rewrite list_prod_app_l, map_app.
Qed.

(* (s + t) @ u == (s @ u) + (t @ u) *)
Theorem sum_tensor_distr_l s t u : sum_wf s -> sum_wf t -> sum_wf u -> same_sig s t ->
  (do st <- sum_add s t; sum_tensor st u) =
  (do a <- sum_tensor s u; do b <- sum_tensor t u; sum_add a b).
Proof.
  intros Hs Ht Hu [Hd Hc].
  destruct (sum_add_val s t Hs Ht (conj Hd Hc)) as [E1 W1]. rewrite E1. cbn [bind].
  destruct (sum_tensor_ok _ u W1 Hu) as [E2 _]. rewrite E2.
  destruct (sum_tensor_ok s u Hs Hu) as [E3 W3]. destruct (sum_tensor_ok t u Ht Hu) as [E4 W4].
  rewrite E3, E4. cbn [bind].
  destruct (sum_add_val _ _ W3 W4) as [E5 _]; [split; cbn; congruence|]. rewrite E5.
  unfold pair_vals; cbn [sterms sdom scod]. now rewrite list_prod_app_l, map_app.
Qed.

(* u >> (s + t) versus (u >> s) + (u >> t): the same terms, but in a different ORDER
   as soon as u has two or more terms; equal on the nose when u has at most one *)
Theorem sum_then_distr_r_perm u s t : sum_wf u -> sum_wf s -> sum_wf t -> same_sig s t -> scod u = sdom s ->
  exists l r, (do st <- sum_add s t; sum_then u st) = Ok l /\
              (do a <- sum_then u s; do b <- sum_then u t; sum_add a b) = Ok r /\
              sdom l = sdom r /\ scod l = scod r /\ Permutation (sterms l) (sterms r).
Proof.
  intros Hu Hs Ht [Hd Hc] Hm.
  destruct (sum_add_val s t Hs Ht (conj Hd Hc)) as [E1 W1]. rewrite E1. cbn [bind].
  destruct (sum_then_ok u _ Hu W1 Hm) as [E2 _]. rewrite E2.
  destruct (sum_then_ok u s Hu Hs Hm) as [E3 W3]. destruct (sum_then_ok u t Hu Ht) as [E4 W4]; [congruence|].
  rewrite E3, E4. cbn [bind].
  destruct (sum_add_val _ _ W3 W4) as [E5 _]; [split; cbn; congruence|]. rewrite E5.
  eexists. eexists. split; [reflexivity|]. split; [reflexivity|]. cbn [sterms sdom scod]. repeat split; auto.
  unfold pair_vals; cbn [sterms]. rewrite <- map_app. apply Permutation_map, list_prod_app_r_perm.
Qed.

Theorem sum_then_distr_r_single f s t : wf f -> sum_wf s -> sum_wf t -> same_sig s t -> dcod f = sdom s ->
  (do st <- sum_add s t; sum_then (sum_of f) st) =
  (do a <- sum_then (sum_of f) s; do b <- sum_then (sum_of f) t; sum_add a b).
Proof.
  intros Wf Hs Ht [Hd Hc] Hm.
  assert (Hu : sum_wf (sum_of f)) by (unfold sum_wf, sum_of, typed; cbn; auto).
  destruct (sum_add_val s t Hs Ht (conj Hd Hc)) as [E1 W1]. rewrite E1. cbn [bind].
  destruct (sum_then_ok (sum_of f) _ Hu W1 Hm) as [E2 _]. rewrite E2.
  destruct (sum_then_ok (sum_of f) s Hu Hs Hm) as [E3 W3].
  destruct (sum_then_ok (sum_of f) t Hu Ht) as [E4 W4]; [cbn; congruence|].
  rewrite E3, E4. cbn [bind].
  destruct (sum_add_val _ _ W3 W4) as [E5 _]; [split; cbn; congruence|]. rewrite E5.
  unfold pair_vals; cbn [sterms sdom scod sum_of list_prod app]. rewrite !app_nil_r, !map_app, !map_map. reflexivity.
Qed.

(* dagger distributes: (s + t)[::-1] == s[::-1] + t[::-1] *)
Theorem sum_dagger_distr s t : sum_wf s -> sum_wf t -> same_sig s t ->
  (do st <- sum_add s t; sum_dagger st) =
  (do a <- sum_dagger s; do b <- sum_dagger t; sum_add a b).
Proof.
  intros Hs Ht [Hd Hc].
  destruct (sum_add_val s t Hs Ht (conj Hd Hc)) as [E1 W1]. rewrite E1. cbn [bind].
  destruct (sum_dagger_ok _ W1) as [E2 _]. rewrite E2.
  destruct (sum_dagger_ok s Hs) as [E3 W3]. destruct (sum_dagger_ok t Ht) as [E4 W4].
  rewrite E3, E4. cbn [bind].
  destruct (sum_add_val _ _ W3 W4) as [E5 _]; [split; cbn; congruence|]. rewrite E5.
  cbn [sterms sdom scod]. now rewrite map_app.
Qed.

(* the empty sum is a unit for + and absorbing for >> and @ *)
Theorem sum_unit_r s : sum_wf s -> sum_add s (MkSum [] (sdom s) (scod s)) = Ok s.
Proof.
  intros Hs. rewrite sum_add_ok by (auto; constructor). cbn. rewrite app_nil_r. destruct s; reflexivity.
Qed.
Theorem sum_unit_l s : sum_wf s -> sum_add (MkSum [] (sdom s) (scod s)) s = Ok s.
Proof.
  intros Hs. rewrite sum_add_ok; cbn [sterms sdom scod app]; auto; try (constructor; fail).
  destruct s; reflexivity.
Qed.
Theorem sum_then_empty_l d m s : sum_wf s -> m = sdom s ->
  sum_then (MkSum [] d m) s = Ok (MkSum [] d (scod s)).
Proof.
  intros Hs ->. assert (He : sum_wf (MkSum [] d (sdom s))) by constructor.
  destruct (sum_then_ok (MkSum [] d (sdom s)) s He Hs eq_refl) as [E _].
  rewrite E. reflexivity.
Qed.

(* the two sides of right-distributivity really differ as values: the witness is
   (f1 + f2) >> (g1 + g2) with four distinct boxes on one wire *)
Definition wbox (n : Z) : diagram := dbox (Box KBox n [Ob 1 0] [Ob 1 0] false None).
Definition w_u : dsum := MkSum [wbox 1; wbox 2] [Ob 1 0] [Ob 1 0].
Definition w_s : dsum := MkSum [wbox 3] [Ob 1 0] [Ob 1 0].
Definition w_t : dsum := MkSum [wbox 4] [Ob 1 0] [Ob 1 0].
Theorem sum_then_distr_r_refuted :
  exists l r, (do st <- sum_add w_s w_t; sum_then w_u st) = Ok l /\
              (do a <- sum_then w_u w_s; do b <- sum_then w_u w_t; sum_add a b) = Ok r /\
              sum_eqb l r = false.
Proof. eexists. eexists. split; [vm_compute; reflexivity|]. split; [vm_compute; reflexivity|]. vm_compute. reflexivity. Qed.
