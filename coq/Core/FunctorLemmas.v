(* C04: functoriality of monoidal.Functor / rigid.Functor application (model:
   Core/Functor.v). *)
From Coq Require Import List ZArith Bool Lia.
Import ListNotations.
Require Import DV.Common.Base DV.Common.ListLemmas DV.Core.Diagram DV.Core.WF DV.Core.DiagramLemmas
  DV.Core.Laws DV.Core.Perm DV.Core.Route DV.Core.PermLemmas DV.Core.Rigid DV.Core.Functor
  DV.Core.Prog DV.Core.ProgLemmas DV.Core.Sum DV.Core.SumLemmas.
Open Scope Z_scope.

(* ------------------------------------------------------------ types *)
Lemma f_ty_app Fn a : forall b ta tb, f_ty Fn a = Ok ta -> f_ty Fn b = Ok tb ->
  f_ty Fn (a ++ b) = Ok (ta ++ tb).
Proof.
  induction a as [|x a IH]; intros b ta tb Ha Hb; cbn in *.
  - inversion Ha; subst. exact Hb.
  - destruct (f_ob Fn x) as [tx|]; [|discriminate]. cbn in *.
    destruct (f_ty Fn a) as [ta'|] eqn:Ea; [|discriminate]. cbn in Ha. inversion Ha; subst.
    rewrite (IH b ta' tb eq_refl Hb). cbn. now rewrite app_assoc.
Qed.

Lemma f_ty_app_inv Fn a : forall b t, f_ty Fn (a ++ b) = Ok t ->
  exists ta tb, f_ty Fn a = Ok ta /\ f_ty Fn b = Ok tb /\ t = ta ++ tb.
Proof.
  induction a as [|x a IH]; intros b t H; cbn in *.
  - exists [], t. auto.
  - destruct (f_ob Fn x) as [tx|]; [|discriminate]. cbn in *.
    destruct (f_ty Fn (a ++ b)) as [tab|] eqn:E; [|discriminate]. cbn in H. inversion H; subst.
    destruct (IH b tab E) as (ta & tb & Ha & Hb & ->). rewrite Ha. cbn.
    exists (tx ++ ta), tb. repeat split; auto. now rewrite app_assoc.
Qed.

(* adjoints: F(t.l) = F(t).l and F(t.r) = F(t).r *)
Lemma ty_l_app a b : ty_l (a ++ b) = ty_l b ++ ty_l a.
Proof. unfold ty_l. now rewrite rev_app_distr, map_app. Qed.
Lemma ty_r_app a b : ty_r (a ++ b) = ty_r b ++ ty_r a.
Proof. unfold ty_r. now rewrite rev_app_distr, map_app. Qed.

Lemma ob_l_r x : ob_l (ob_r x) = x.
Proof. destruct x; unfold ob_l, ob_r; cbn. f_equal. lia. Qed.
Lemma ob_r_l x : ob_r (ob_l x) = x.
Proof. destruct x; unfold ob_l, ob_r; cbn. f_equal. lia. Qed.
Lemma ty_l_r t : ty_l (ty_r t) = t.
Proof.
  unfold ty_l, ty_r. rewrite <- map_rev, rev_involutive, map_map.
  apply map_id_ext. apply ob_l_r.
Qed.
Lemma ty_r_l t : ty_r (ty_l t) = t.
Proof.
  unfold ty_l, ty_r. rewrite <- map_rev, rev_involutive, map_map.
  apply map_id_ext. apply ob_r_l.
Qed.

Lemma iter_S_out {A} (f : A -> A) n x : iter (S n) f x = f (iter n f x).
Proof. revert x. induction n as [|n IH]; intros x; cbn in *; [reflexivity|]. now rewrite <- IH. Qed.

Lemma f_ob_l Fn x t : f_ob Fn x = Ok t -> f_ob Fn (ob_l x) = Ok (ty_l t).
Proof.
  unfold f_ob, ob_l; cbn. destruct (lookup_ob (fob Fn) (oname x)) as [t0|]; [|discriminate]. cbn.
  destruct (oz x <? 0) eqn:E1; intros H; inversion H; subst; clear H.
  - apply Z.ltb_lt in E1. destruct (oz x - 1 <? 0) eqn:E2; [|apply Z.ltb_ge in E2; lia].
    replace (Z.to_nat (- (oz x - 1))) with (S (Z.to_nat (- oz x))) by lia. now rewrite iter_S_out.
  - apply Z.ltb_ge in E1. destruct (oz x - 1 <? 0) eqn:E2.
    + apply Z.ltb_lt in E2. assert (oz x = 0) by lia. rewrite H. reflexivity.
    + apply Z.ltb_ge in E2. replace (Z.to_nat (oz x)) with (S (Z.to_nat (oz x - 1))) by lia.
      now rewrite iter_S_out, ty_l_r.
Qed.

Lemma f_ob_r Fn x t : f_ob Fn x = Ok t -> f_ob Fn (ob_r x) = Ok (ty_r t).
Proof.
  unfold f_ob, ob_r; cbn. destruct (lookup_ob (fob Fn) (oname x)) as [t0|]; [|discriminate]. cbn.
  destruct (oz x <? 0) eqn:E1; intros H; inversion H; subst; clear H.
  - apply Z.ltb_lt in E1. destruct (oz x + 1 <? 0) eqn:E2.
    + apply Z.ltb_lt in E2. replace (Z.to_nat (- oz x)) with (S (Z.to_nat (- (oz x + 1)))) by lia.
      now rewrite iter_S_out, ty_r_l.
    + apply Z.ltb_ge in E2. assert (oz x = -1) by lia. rewrite H.
      change (Z.to_nat (- (-1))) with 1%nat. change (Z.to_nat (-1 + 1)) with 0%nat. cbn [iter]. now rewrite ty_r_l.
  - apply Z.ltb_ge in E1. destruct (oz x + 1 <? 0) eqn:E2; [apply Z.ltb_lt in E2; lia|].
    replace (Z.to_nat (oz x + 1)) with (S (Z.to_nat (oz x))) by lia. now rewrite iter_S_out.
Qed.

Theorem f_ty_l Fn t : forall ft, f_ty Fn t = Ok ft -> f_ty Fn (ty_l t) = Ok (ty_l ft).
Proof.
  induction t as [|x t IH]; intros ft H; cbn in H.
  - inversion H; reflexivity.
  - destruct (f_ob Fn x) as [tx|] eqn:Ex; [|discriminate]. cbn in H.
    destruct (f_ty Fn t) as [ft'|] eqn:Et; [|discriminate]. cbn in H. inversion H; subst.
    change (x :: t) with ([x] ++ t). rewrite ty_l_app, (ty_l_app tx ft').
    apply f_ty_app; [apply IH; reflexivity|].
    unfold ty_l at 1. cbn [rev app map f_ty]. rewrite (f_ob_l _ _ _ Ex). cbn. now rewrite app_nil_r.
Qed.

Theorem f_ty_r Fn t : forall ft, f_ty Fn t = Ok ft -> f_ty Fn (ty_r t) = Ok (ty_r ft).
Proof.
  induction t as [|x t IH]; intros ft H; cbn in H.
  - inversion H; reflexivity.
  - destruct (f_ob Fn x) as [tx|] eqn:Ex; [|discriminate]. cbn in H.
    destruct (f_ty Fn t) as [ft'|] eqn:Et; [|discriminate]. cbn in H. inversion H; subst.
    change (x :: t) with ([x] ++ t). rewrite ty_r_app, (ty_r_app tx ft').
    apply f_ty_app; [apply IH; reflexivity|].
    unfold ty_r at 1. cbn [rev app map f_ty]. rewrite (f_ob_r _ _ _ Ex). cbn. now rewrite app_nil_r.
Qed.

(* ------------------------------------------------------------ composing a list of images *)
Fixpoint then_all (r : diagram) (ts : list diagram) : res diagram :=
  match ts with
  | [] => Ok r
  | t :: ts' => do r' <- dthen r t; then_all r' ts'
  end.

(* a composable chain of well-typed diagrams from type X to type Y *)
Fixpoint dchain (X : ty) (ts : list diagram) (Y : ty) : Prop :=
  match ts with
  | [] => X = Y
  | t :: ts' => wf t /\ ddom t = X /\ dchain (dcod t) ts' Y
  end.

Lemma then_all_app r ts1 ts2 : then_all r (ts1 ++ ts2) = (do r' <- then_all r ts1; then_all r' ts2).
Proof.
  revert r. induction ts1 as [|t ts1 IH]; intros r; cbn; [reflexivity|].
  destruct (dthen r t); cbn; auto.
Qed.

Lemma then_all_ok ts : forall r X Y, wf r -> dcod r = X -> dchain X ts Y ->
  exists d, then_all r ts = Ok d /\ wf d /\ ddom d = ddom r /\ dcod d = Y.
Proof.
  induction ts as [|t ts IH]; intros r X Y Wr Hr Hc; cbn in *.
  - subst. eauto.
  - destruct Hc as (Wt & Dt & Hc).
    destruct (dthen_ok r t Wr Wt (eq_trans Hr (eq_sym Dt))) as (r' & E & W' & D' & C' & _).
    rewrite E. cbn. destruct (IH r' (dcod t) Y W' C' Hc) as (d & Ed & Wd & Dd & Cd).
    exists d. split; [exact Ed|]. split; [exact Wd|]. split; [congruence|exact Cd].
Qed.

Lemma then_all_prefix ts : forall r X Y, wf r -> dcod r = X -> dchain X ts Y ->
  then_all r ts = (do u <- then_all (did X) ts; dthen r u).
Proof.
  induction ts as [|t ts IH]; intros r X Y Wr Hr Hc; cbn [then_all dchain] in *.
  - cbn. subst X. symmetry. apply dthen_id_r, Wr.
  - destruct Hc as (Wt & Dt & Hc).
    assert (E0 : dthen (did X) t = Ok t) by (rewrite <- Dt; apply dthen_id_l, Wt).
    rewrite E0. cbn [bind].
    destruct (dthen_ok r t Wr Wt (eq_trans Hr (eq_sym Dt))) as (r' & E & W' & D' & C' & _).
    rewrite E. cbn [bind].
    rewrite (IH r' (dcod t) Y W' C' Hc), (IH t (dcod t) Y Wt eq_refl Hc).
    destruct (then_all_ok ts (did (dcod t)) (dcod t) Y (did_wf _) eq_refl Hc) as (u & Eu & Wu & Du & Cu).
    rewrite Eu. cbn [bind].
    pose proof (dthen_assoc r t u) as A. rewrite E in A. cbn [bind] in A. exact A.
Qed.

(* whiskering distributes over composition, as equalities of values *)
Lemma dtensor_then_r a b x : wf a -> wf b -> dcod a = ddom b ->
  (do ab <- dthen a b; dtensor ab (did x)) =
  (do a' <- dtensor a (did x); do b' <- dtensor b (did x); dthen a' b').
Proof.
  intros Wa Wb Hm.
  destruct (dthen_val a b Wa Wb Hm) as [E (Wab & _)]. rewrite E. cbn [bind].
  rewrite (dtensor_eq _ (did x) Wab (did_wf _)), (dtensor_eq a (did x) Wa (did_wf _)),
          (dtensor_eq b (did x) Wb (did_wf _)). cbn [bind].
  rewrite dthen_eq by (cbn; congruence).
  unfold then_val. cbn [did ddom dcod dboxes doffs dlayers la_id la_dom la_cod la_ls map app].
  rewrite !app_nil_r, !map_app. reflexivity.
Qed.

Lemma dtensor_then_l a b x : wf a -> wf b -> dcod a = ddom b ->
  (do ab <- dthen a b; dtensor (did x) ab) =
  (do a' <- dtensor (did x) a; do b' <- dtensor (did x) b; dthen a' b').
Proof.
  intros Wa Wb Hm.
  destruct (dthen_val a b Wa Wb Hm) as [E (Wab & _)]. rewrite E. cbn [bind].
  rewrite (dtensor_eq (did x) _ (did_wf _) Wab), (dtensor_eq (did x) a (did_wf _) Wa),
          (dtensor_eq (did x) b (did_wf _) Wb). cbn [bind].
  rewrite dthen_eq by (cbn; congruence).
  unfold then_val. cbn [did ddom dcod dboxes doffs dlayers la_id la_dom la_cod la_ls map app].
  rewrite !map_app. reflexivity.
Qed.

Lemma did_tensor a b : dtensor (did a) (did b) = Ok (did (a ++ b)).
Proof. reflexivity. Qed.

(* ------------------------------------------------------------ the functor, layer by layer *)
Definition F_layer (Fn : functor) (l : layer) : res diagram :=
  do fl <- f_ty Fn (lleft l); do fr <- f_ty Fn (lright l); do fb <- f_box Fn (lbox l);
  do t1 <- dtensor (did fl) fb; dtensor t1 (did fr).

Fixpoint f_layers (Fn : functor) (result : diagram) (ls : list layer) : res diagram :=
  match ls with
  | [] => Ok result
  | l :: ls' => do t <- F_layer Fn l; do r <- dthen result t; f_layers Fn r ls'
  end.

Lemma to_nat_len_f {A} (l : list A) : Z.to_nat (len l) = length l.
Proof. unfold len. apply Nat2Z.id. Qed.

Lemma slices_of_layer (l : layer) :
  py_slice (ldom l) None (Some (len (lleft l))) = lleft l /\
  py_slice (ldom l) (Some (len (lleft l) + len (bdom (lbox l)))) None = lright l.
Proof.
  unfold ldom. split.
  - rewrite py_slice_prefix by apply len_nonneg. rewrite to_nat_len_f. apply firstn_app_exact.
  - rewrite py_slice_suffix by (pose proof (len_nonneg (lleft l)); pose proof (len_nonneg (bdom (lbox l))); lia).
    rewrite <- len_app, to_nat_len_f, app_assoc. apply skipn_app_exact.
Qed.

Lemma f_loop_layers Fn ls : forall a b result, chain a ls b ->
  f_loop Fn a result (map lbox ls) (map (fun l => len (lleft l)) ls) = f_layers Fn result ls.
Proof.
  induction ls as [|l ls IH]; intros a b result Hc; cbn [map f_loop f_layers]; [reflexivity|].
  destruct Hc as [-> Hc]. destruct (slices_of_layer l) as [S1 S2]. rewrite S1, S2.
  unfold F_layer.
  destruct (f_ty Fn (lleft l)) as [fl|]; cbn [bind]; [|reflexivity].
  destruct (f_ty Fn (lright l)) as [fr|]; cbn [bind]; [|reflexivity].
  destruct (f_box Fn (lbox l)) as [fb|]; cbn [bind]; [|reflexivity].
  destruct (dtensor (did fl) fb) as [t1|]; cbn [bind]; [|reflexivity].
  destruct (dtensor t1 (did fr)) as [t2|]; cbn [bind]; [|reflexivity].
  destruct (dthen result t2) as [r'|]; cbn [bind]; [|reflexivity].
  apply (IH _ b). exact Hc.
Qed.

Theorem f_apply_layers Fn d : wf d ->
  f_apply Fn d = (do fd <- f_ty Fn (ddom d); f_layers Fn (did fd) (la_ls (dlayers d))).
Proof.
  intros (W1 & W2 & W3 & W4 & W5). unfold f_apply. rewrite W4, W5.
  destruct (f_ty Fn (ddom d)) as [fd|]; cbn [bind]; [|reflexivity].
  apply (f_loop_layers Fn _ (ddom d) (dcod d)). unfold la_wf in W3. now rewrite W1, W2 in W3.
Qed.

(* the image of a box is a well-typed diagram between the images of its types *)
Definition typed_img (Fn : functor) (b : box) : Prop :=
  exists d fd fc, f_box Fn b = Ok d /\ wf d /\
    f_ty Fn (bdom b) = Ok fd /\ f_ty Fn (bcod b) = Ok fc /\ ddom d = fd /\ dcod d = fc.

Definition covers (Fn : functor) (t : ty) : Prop := exists ft, f_ty Fn t = Ok ft.

Lemma covers_app Fn a b : covers Fn (a ++ b) <-> covers Fn a /\ covers Fn b.
Proof.
  split.
  - intros (t & H). destruct (f_ty_app_inv _ _ _ _ H) as (ta & tb & Ha & Hb & _). split; eexists; eauto.
  - intros [(ta & Ha) (tb & Hb)]. exists (ta ++ tb). now apply f_ty_app.
Qed.

Lemma F_layer_typed Fn l : covers Fn (ldom l) -> typed_img Fn (lbox l) ->
  exists t fa fb, F_layer Fn l = Ok t /\ wf t /\ f_ty Fn (ldom l) = Ok fa /\ f_ty Fn (lcod l) = Ok fb /\
    ddom t = fa /\ dcod t = fb.
Proof.
  intros Hc (d & fd & fc & Eb & Wd & Fd & Fc & Dd & Cd). unfold ldom in Hc.
  apply covers_app in Hc. destruct Hc as [(fl & El) Hc]. apply covers_app in Hc. destruct Hc as [_ (fr & Er)].
  unfold F_layer. rewrite El, Er, Eb. cbn [bind].
  destruct (dtensor_ok (did fl) d (did_wf _) Wd) as (t1 & E1 & W1 & D1 & C1 & _). rewrite E1. cbn [bind].
  destruct (dtensor_ok t1 (did fr) W1 (did_wf _)) as (t2 & E2 & W2 & D2 & C2 & _). rewrite E2.
  exists t2, (fl ++ fd ++ fr), (fl ++ fc ++ fr). split; [reflexivity|]. split; [exact W2|].
  unfold ldom, lcod. split; [|split].
  - apply f_ty_app; [exact El|]. apply f_ty_app; [exact Fd|exact Er].
  - apply f_ty_app; [exact El|]. apply f_ty_app; [exact Fc|exact Er].
  - split.
    + rewrite D2, D1, Dd. cbn [did ddom]. now rewrite <- app_assoc.
    + rewrite C2, C1, Cd. cbn [did dcod]. now rewrite <- app_assoc.
Qed.

(* images of the layers of a well-typed diagram form a composable chain *)
Lemma layer_images Fn ls : forall a b fa, chain a ls b -> f_ty Fn a = Ok fa ->
  Forall (fun l => typed_img Fn (lbox l)) ls ->
  exists ts fb, Forall2 (fun l t => F_layer Fn l = Ok t) ls ts /\ f_ty Fn b = Ok fb /\ dchain fa ts fb.
Proof.
  induction ls as [|l ls IH]; intros a b fa Hc Ha Hb; cbn in Hc.
  - subst. exists [], fa. split; [constructor|]. split; [exact Ha|reflexivity].
  - destruct Hc as [-> Hc]. inversion Hb as [|? ? Hl Hrest]; subst.
    destruct (F_layer_typed Fn l (ex_intro _ fa Ha) Hl) as (t & fa' & fb' & Et & Wt & Fa & Fb & Dt & Ct).
    assert (Hfa : fa' = fa) by congruence.
    destruct (IH _ b fb' Hc Fb Hrest) as (ts & fb & F2 & Efb & Hch).
    exists (t :: ts), fb. split; [constructor; auto|]. split; [exact Efb|].
    cbn [dchain]. split; [exact Wt|]. split; [congruence|]. rewrite Ct. exact Hch.
Qed.

Lemma f_layers_imgs Fn ls : forall ts r, Forall2 (fun l t => F_layer Fn l = Ok t) ls ts ->
  f_layers Fn r ls = then_all r ts.
Proof.
  induction ls as [|l ls IH]; intros ts r H; inversion H; subst; cbn; [reflexivity|].
  match goal with Hx : F_layer Fn l = Ok _ |- _ => rewrite Hx end. cbn.
  destruct (dthen r _); cbn; auto.
Qed.

(* hypotheses under which F is defined on d *)
Definition defined_on (Fn : functor) (d : diagram) : Prop :=
  covers Fn (ddom d) /\ Forall (typed_img Fn) (dboxes d).

Lemma defined_layers Fn d : wf d -> defined_on Fn d ->
  Forall (fun l => typed_img Fn (lbox l)) (la_ls (dlayers d)).
Proof.
  intros (_ & _ & _ & W4 & _) [_ H]. rewrite W4 in H.
  apply (Forall_map_iff lbox (typed_img Fn)) in H. exact H.
Qed.

(* the image in closed form: Id(F dom) composed with the images of the layers *)
Lemma f_apply_imgs Fn d : wf d -> defined_on Fn d ->
  exists ts fd fc, f_ty Fn (ddom d) = Ok fd /\ f_ty Fn (dcod d) = Ok fc /\
    Forall2 (fun l t => F_layer Fn l = Ok t) (la_ls (dlayers d)) ts /\ dchain fd ts fc /\
    f_apply Fn d = then_all (did fd) ts.
Proof.
  intros W Hd. pose proof W as (W1 & W2 & W3 & _). destruct Hd as [(fd & Efd) Hb].
  unfold la_wf in W3. rewrite W1, W2 in W3.
  destruct (layer_images Fn _ _ _ fd W3 Efd (defined_layers Fn d W (conj (ex_intro _ fd Efd) Hb)))
    as (ts & fc & F2 & Efc & Hch).
  exists ts, fd, fc. split; [exact Efd|]. split; [exact Efc|]. split; [exact F2|]. split; [exact Hch|].
  rewrite (f_apply_layers Fn d W), Efd. cbn [bind]. now apply f_layers_imgs.
Qed.

(* ------------------------------------------------------------ C04 *)
Theorem functor_dom_cod Fn d : wf d -> defined_on Fn d ->
  exists d' fd fc, f_apply Fn d = Ok d' /\ wf d' /\ f_ty Fn (ddom d) = Ok fd /\ f_ty Fn (dcod d) = Ok fc /\
    ddom d' = fd /\ dcod d' = fc.
Proof.
  intros W Hd. destruct (f_apply_imgs Fn d W Hd) as (ts & fd & fc & Efd & Efc & _ & Hch & E).
  destruct (then_all_ok ts (did fd) fd fc (did_wf _) eq_refl Hch) as (d' & Ed & Wd & Dd & Cd).
  exists d', fd, fc. rewrite E. split; [exact Ed|]. split; [exact Wd|]. split; [exact Efd|]. split; [exact Efc|].
  split; [exact Dd|exact Cd].
Qed.

Theorem functor_id Fn t ft : f_ty Fn t = Ok ft -> f_apply Fn (did t) = Ok (did ft).
Proof. intros H. unfold f_apply. cbn. rewrite H. reflexivity. Qed.

Theorem functor_then Fn a b ab : wf a -> wf b -> defined_on Fn a -> defined_on Fn b ->
  dthen a b = Ok ab ->
  f_apply Fn ab = (do fa <- f_apply Fn a; do fb <- f_apply Fn b; dthen fa fb).
Proof.
  intros Wa Wb Ha Hb Hab.
  assert (Hm : dcod a = ddom b).
  { destruct (dthen_inv _ _ _ Hab) as [Hm _]. destruct Wa as (_ & A2 & _), Wb as (B1 & _). congruence. }
  destruct (dthen_val a b Wa Wb Hm) as [E (Wab & Dab & Cab)]. rewrite E in Hab. inversion Hab; subst ab.
  destruct (f_apply_imgs Fn a Wa Ha) as (ta & fda & fca & Efda & Efca & F2a & Cha & Ea).
  destruct (f_apply_imgs Fn b Wb Hb) as (tb & fdb & fcb & Efdb & Efcb & F2b & Chb & Eb).
  assert (fca = fdb) by (rewrite Hm in Efca; congruence). subst fdb.
  rewrite (f_apply_layers Fn _ Wab). unfold then_val at 1 2. cbn [ddom dlayers la_ls].
  rewrite Efda. cbn [bind].
  rewrite (f_layers_imgs Fn _ (ta ++ tb)) by (apply Forall2_app; assumption).
  rewrite then_all_app, Ea, Eb.
  destruct (then_all_ok ta (did fda) fda fca (did_wf _) eq_refl Cha) as (ra & Era & Wra & Dra & Cra).
  rewrite Era. cbn [bind].
  apply (then_all_prefix tb ra fca fcb Wra Cra Chb).
Qed.

(* ------------------------------------------------------------ tensor *)
Lemma F_layer_whisk_r Fn l x fx t : covers Fn (ldom l) -> typed_img Fn (lbox l) ->
  F_layer Fn l = Ok t -> f_ty Fn x = Ok fx ->
  F_layer Fn (whisk_r x l) = dtensor t (did fx).
Proof.
  intros Hc (d & fd & fc & Eb & Wd & Fd & Fc & Dd & Cd) Ht Hx. unfold ldom in Hc.
  apply covers_app in Hc. destruct Hc as [(fl & El) Hc]. apply covers_app in Hc. destruct Hc as [_ (fr & Er)].
  unfold F_layer in *. unfold whisk_r, lleft, lbox, lright in *. cbn [fst snd] in *.
  rewrite El, Er, Eb in Ht. cbn [bind] in Ht.
  rewrite El, (f_ty_app Fn _ _ _ _ Er Hx), Eb. cbn [bind].
  destruct (dtensor_ok (did fl) d (did_wf _) Wd) as (t1 & E1 & W1 & _). rewrite E1 in *. cbn [bind] in *.
  pose proof (dtensor_assoc t1 (did fr) (did fx) W1 (did_wf _) (did_wf _)) as A.
  rewrite Ht in A. cbn [bind] in A. rewrite A. rewrite did_tensor. reflexivity.
Qed.

Lemma F_layer_whisk_l Fn l x fx t : covers Fn (ldom l) -> typed_img Fn (lbox l) ->
  F_layer Fn l = Ok t -> f_ty Fn x = Ok fx ->
  F_layer Fn (whisk_l x l) = dtensor (did fx) t.
Proof.
  intros Hc (d & fd & fc & Eb & Wd & Fd & Fc & Dd & Cd) Ht Hx. unfold ldom in Hc.
  apply covers_app in Hc. destruct Hc as [(fl & El) Hc]. apply covers_app in Hc. destruct Hc as [_ (fr & Er)].
  unfold F_layer in *. unfold whisk_l, lleft, lbox, lright in *. cbn [fst snd] in *.
  rewrite El, Er, Eb in Ht. cbn [bind] in Ht.
  rewrite (f_ty_app Fn _ _ _ _ Hx El), Er, Eb. cbn [bind].
  destruct (dtensor_ok (did fl) d (did_wf _) Wd) as (t1 & E1 & W1 & _). rewrite E1 in Ht. cbn [bind] in Ht.
  (* (id fx @ id fl) @ d = id fx @ (id fl @ d) *)
  pose proof (dtensor_assoc (did fx) (did fl) d (did_wf _) (did_wf _) Wd) as A1.
  rewrite did_tensor, E1 in A1. cbn [bind] in A1. rewrite A1.
  destruct (dtensor_ok (did fx) t1 (did_wf _) W1) as (u & Eu & Wu & _). rewrite Eu. cbn [bind].
  pose proof (dtensor_assoc (did fx) t1 (did fr) (did_wf _) W1 (did_wf _)) as A2.
  rewrite Eu, Ht in A2. cbn [bind] in A2. exact A2.
Qed.

Lemma then_all_whisk_r z ts : forall r X Y, wf r -> dcod r = X -> dchain X ts Y ->
  then_all (tensor_val r (did z)) (map (fun t => tensor_val t (did z)) ts) =
  (do u <- then_all r ts; dtensor u (did z)).
Proof.
  induction ts as [|t ts IH]; intros r X Y Wr Hr Hc; cbn [then_all map dchain] in *.
  - cbn [bind]. symmetry. apply (dtensor_val r (did z) Wr (did_wf _)).
  - destruct Hc as (Wt & Dt & Hc).
    destruct (dthen_val r t Wr Wt (eq_trans Hr (eq_sym Dt))) as [E (Wrt & Drt & Crt)].
    rewrite E. cbn [bind].
    pose proof (dtensor_then_r r t z Wr Wt (eq_trans Hr (eq_sym Dt))) as A.
    rewrite E in A. cbn [bind] in A.
    destruct (dtensor_val r (did z) Wr (did_wf _)) as [E1 _]. destruct (dtensor_val t (did z) Wt (did_wf _)) as [E2 _].
    destruct (dtensor_val _ (did z) Wrt (did_wf _)) as [E3 _].
    rewrite E1, E2, E3 in A. cbn [bind] in A. rewrite <- A. cbn [bind].
    apply (IH _ (dcod t) Y Wrt Crt Hc).
Qed.

Lemma then_all_whisk_l z ts : forall r X Y, wf r -> dcod r = X -> dchain X ts Y ->
  then_all (tensor_val (did z) r) (map (fun t => tensor_val (did z) t) ts) =
  (do u <- then_all r ts; dtensor (did z) u).
Proof.
  induction ts as [|t ts IH]; intros r X Y Wr Hr Hc; cbn [then_all map dchain] in *.
  - cbn [bind]. symmetry. apply (dtensor_val (did z) r (did_wf _) Wr).
  - destruct Hc as (Wt & Dt & Hc).
    destruct (dthen_val r t Wr Wt (eq_trans Hr (eq_sym Dt))) as [E (Wrt & Drt & Crt)].
    rewrite E. cbn [bind].
    pose proof (dtensor_then_l r t z Wr Wt (eq_trans Hr (eq_sym Dt))) as A.
    rewrite E in A. cbn [bind] in A.
    destruct (dtensor_val (did z) r (did_wf _) Wr) as [E1 _]. destruct (dtensor_val (did z) t (did_wf _) Wt) as [E2 _].
    destruct (dtensor_val (did z) _ (did_wf _) Wrt) as [E3 _].
    rewrite E1, E2, E3 in A. cbn [bind] in A. rewrite <- A. cbn [bind].
    apply (IH _ (dcod t) Y Wrt Crt Hc).
Qed.

Lemma dchain_whisk_r z ts : forall X Y, dchain X ts Y ->
  dchain (X ++ z) (map (fun t => tensor_val t (did z)) ts) (Y ++ z).
Proof.
  induction ts as [|t ts IH]; intros X Y H; cbn [map dchain] in *; [now subst|].
  destruct H as (Wt & Dt & H). destruct (dtensor_val t (did z) Wt (did_wf _)) as [_ W].
  split; [exact W|]. split; [unfold tensor_val; cbn; now rewrite Dt|].
  unfold tensor_val at 1; cbn [dcod did]. apply IH, H.
Qed.

Lemma dchain_whisk_l z ts : forall X Y, dchain X ts Y ->
  dchain (z ++ X) (map (fun t => tensor_val (did z) t) ts) (z ++ Y).
Proof.
  induction ts as [|t ts IH]; intros X Y H; cbn [map dchain] in *; [now subst|].
  destruct H as (Wt & Dt & H). destruct (dtensor_val (did z) t (did_wf _) Wt) as [_ W].
  split; [exact W|]. split; [unfold tensor_val; cbn; now rewrite Dt|].
  unfold tensor_val at 1; cbn [dcod did]. apply IH, H.
Qed.

Theorem functor_tensor Fn a b : wf a -> wf b -> defined_on Fn a -> defined_on Fn b ->
  (do ab <- dtensor a b; f_apply Fn ab) =
  (do fa <- f_apply Fn a; do fb <- f_apply Fn b; dtensor fa fb).
Proof.
  intros Wa Wb Ha Hb.
  destruct (dtensor_val a b Wa Wb) as [E Wab]. rewrite E. cbn [bind].
  destruct (f_apply_imgs Fn a Wa Ha) as (ta & fda & fca & Efda & Efca & F2a & Cha & Ea).
  destruct (f_apply_imgs Fn b Wb Hb) as (tb & fdb & fcb & Efdb & Efcb & F2b & Chb & Eb).
  rewrite (f_apply_layers Fn _ Wab). unfold tensor_val at 1 2. cbn [ddom dlayers la_ls].
  rewrite (f_ty_app Fn _ _ _ _ Efda Efdb). cbn [bind].
  (* images of the whiskered layers *)
  pose proof (defined_layers Fn a Wa Ha) as La. pose proof (defined_layers Fn b Wb Hb) as Lb.
  assert (Ca : forall l, In l (la_ls (dlayers a)) -> covers Fn (ldom l)).
  { destruct Wa as (W1 & W2 & W3 & _). unfold la_wf in W3. rewrite W1 in W3.
    clear - W3 Efda La. revert W3 Efda La. generalize (ddom a) fda. 
    induction (la_ls (dlayers a)) as [|l ls IH]; intros X fX Hc HX Hl l0 Hin; [destruct Hin|].
    destruct Hc as [-> Hc]. inversion Hl; subst. destruct Hin as [<-|Hin]; [eexists; eauto|].
    destruct (F_layer_typed Fn l (ex_intro _ fX HX) H1) as (t & fa' & fb' & _ & _ & _ & Fb' & _).
    eapply IH; eauto. }
  assert (Cb : forall l, In l (la_ls (dlayers b)) -> covers Fn (ldom l)).
  { destruct Wb as (W1 & W2 & W3 & _). unfold la_wf in W3. rewrite W1 in W3.
    clear - W3 Efdb Lb. revert W3 Efdb Lb. generalize (ddom b) fdb.
    induction (la_ls (dlayers b)) as [|l ls IH]; intros X fX Hc HX Hl l0 Hin; [destruct Hin|].
    destruct Hc as [-> Hc]. inversion Hl; subst. destruct Hin as [<-|Hin]; [eexists; eauto|].
    destruct (F_layer_typed Fn l (ex_intro _ fX HX) H1) as (t & fa' & fb' & _ & _ & _ & Fb' & _).
    eapply IH; eauto. }
  assert (IA : Forall2 (fun l t => F_layer Fn l = Ok t) (map (whisk_r (ddom b)) (la_ls (dlayers a)))
                 (map (fun t => tensor_val t (did fdb)) ta)).
  { clear Ea Cha. revert Ca La. induction F2a as [|l t ls ts Hlt Hrest IH]; intros Ca La; cbn [map]; constructor.
    - inversion La; subst. rewrite (F_layer_whisk_r Fn l (ddom b) fdb t (Ca l (or_introl eq_refl)) H1 Hlt Efdb).
      destruct (F_layer_typed Fn l (Ca l (or_introl eq_refl)) H1) as (t' & _ & _ & Et' & Wt' & _).
      assert (t' = t) by congruence. subst t'. apply (dtensor_val t (did fdb) Wt' (did_wf _)).
    - inversion La; subst. apply IH; auto. intros l0 Hin. apply Ca. now right. }
  assert (IB : Forall2 (fun l t => F_layer Fn l = Ok t) (map (whisk_l (dcod a)) (la_ls (dlayers b)))
                 (map (fun t => tensor_val (did fca) t) tb)).
  { clear Eb Chb. revert Cb Lb. induction F2b as [|l t ls ts Hlt Hrest IH]; intros Cb Lb; cbn [map]; constructor.
    - inversion Lb; subst. rewrite (F_layer_whisk_l Fn l (dcod a) fca t (Cb l (or_introl eq_refl)) H1 Hlt Efca).
      destruct (F_layer_typed Fn l (Cb l (or_introl eq_refl)) H1) as (t' & _ & _ & Et' & Wt' & _).
      assert (t' = t) by congruence. subst t'. apply (dtensor_val (did fca) t (did_wf _) Wt').
    - inversion Lb; subst. apply IH; auto. intros l0 Hin. apply Cb. now right. }
  rewrite (f_layers_imgs Fn _ _ _ (Forall2_app IA IB)).
  rewrite then_all_app.
  change (did (fda ++ fdb)) with (tensor_val (did fda) (did fdb)).
  rewrite (then_all_whisk_r fdb ta (did fda) fda fca (did_wf _) eq_refl Cha).
  rewrite Ea, Eb.
  destruct (then_all_ok ta (did fda) fda fca (did_wf _) eq_refl Cha) as (A & EA & WA & DA & CA).
  destruct (then_all_ok tb (did fdb) fdb fcb (did_wf _) eq_refl Chb) as (B & EB & WB & DB & CB).
  rewrite EA, EB. cbn [bind].
  destruct (dtensor_val A (did fdb) WA (did_wf _)) as [E1 W1]. rewrite E1. cbn [bind].
  rewrite (then_all_prefix _ _ (fca ++ fdb) (fca ++ fcb) W1
             ltac:(unfold tensor_val; cbn; now rewrite CA) (dchain_whisk_l fca tb fdb fcb Chb)).
  change (did (fca ++ fdb)) with (tensor_val (did fca) (did fdb)).
  rewrite (then_all_whisk_l fca tb (did fdb) fdb fcb (did_wf _) eq_refl Chb).
  rewrite EB. cbn [bind].
  rewrite (dtensor_whiskered A B WA WB). rewrite CA. cbn [ddom did] in DB. rewrite DB.
  rewrite E1. cbn [bind]. reflexivity.
Qed.
