(* C10: the wire map of Diagram.permutation.  Carrying the label perm[i] on input
   wire i through the returned swap network, the labels arrive sorted: input wire
   i ends at output position perm[i]. *)
From Coq Require Import List ZArith Bool Lia.
Import ListNotations.
Require Import DV.Common.Base DV.Common.ListLemmas DV.Core.Diagram DV.Core.WF DV.Core.DiagramLemmas
  DV.Core.Perm DV.Core.Route DV.Core.PermLemmas DV.Core.Rewriting DV.Core.RewritingLemmas.
Open Scope Z_scope.

Lemma nth_error_firstn_lt' {A} (l : list A) n k : (k < n)%nat -> nth_error (firstn n l) k = nth_error l k.
Proof.
  revert n k. induction l as [|a l IH]; intros n k H.
  - rewrite firstn_nil. reflexivity.
  - destruct n as [|n]; [lia|]. destruct k as [|k]; cbn; [reflexivity|]. apply IH. lia.
Qed.

(* move the element at position j to position i <= j *)
Definition upd {A} (ws : list A) (i j : nat) : list A :=
  firstn i ws ++ firstn 1 (skipn j ws) ++ firstn (j - i) (skipn i ws) ++ skipn (S j) ws.

Lemma py_slice_nat {A} (l : list A) (a b : nat) : (a <= b)%nat -> (b <= length l)%nat ->
  py_slice l (Some (Z.of_nat a)) (Some (Z.of_nat b)) = firstn (b - a) (skipn a l).
Proof.
  intros Hab Hb. rewrite py_slice_mid by lia. unfold len.
  rewrite !Z.min_l by lia. rewrite Nat2Z.id. f_equal. lia.
Qed.

Lemma zindex_spec x l j : zindex x l = Some j ->
  nth_error l j = Some x /\ forall k y, (k < j)%nat -> nth_error l k = Some y -> y <> x.
Proof.
  revert j. induction l as [|y l IH]; intros j H; cbn in H; [discriminate|].
  destruct (y =? x) eqn:E.
  - inversion H; subst. apply Z.eqb_eq in E. subst. split; [reflexivity|]. intros k z Hk; lia.
  - destruct (zindex x l) as [j'|] eqn:E'; [|discriminate]. cbn in H. inversion H; subst.
    destruct (IH j' eq_refl) as [H1 H2]. split; [exact H1|].
    intros [|k] z Hk Hz; cbn in Hz.
    + inversion Hz; subst. apply Z.eqb_neq in E. exact E.
    + apply (H2 k z); [lia|exact Hz].
Qed.

Lemma zindex_in x l : In x l -> exists j, zindex x l = Some j.
Proof.
  induction l as [|y l IH]; intros H; [destruct H|]. cbn.
  destruct (y =? x) eqn:E; [eauto|]. destruct H as [->|H]; [rewrite Z.eqb_refl in E; discriminate|].
  destruct (IH H) as (j & ->). cbn. eauto.
Qed.

Lemma upd_length {A} (ws : list A) i j : (i <= j)%nat -> (j < length ws)%nat -> length (upd ws i j) = length ws.
Proof.
  intros Hij Hj. unfold upd. rewrite !app_length, !firstn_length, !skipn_length. lia.
Qed.

Lemma skipn_split_at {A} (ws : list A) j x : nth_error ws j = Some x -> skipn j ws = x :: skipn (S j) ws.
Proof.
  revert j. induction ws as [|a ws IH]; intros [|j] H; cbn in *; try discriminate.
  - inversion H; reflexivity.
  - apply IH, H.
Qed.

(* the pieces of ws: ws = ws[:i] ++ ws[i:j] ++ [ws[j]] ++ ws[j+1:] *)
Lemma split_ij {A} (ws : list A) i j x : (i <= j)%nat -> nth_error ws j = Some x ->
  ws = firstn i ws ++ firstn (j - i) (skipn i ws) ++ [x] ++ skipn (S j) ws.
Proof.
  intros Hij Hx.
  rewrite <- (firstn_skipn i ws) at 1. f_equal.
  rewrite <- (firstn_skipn (j - i) (skipn i ws)) at 1. f_equal.
  rewrite skipn_skipn'. replace (i + (j - i))%nat with j by lia.
  apply skipn_split_at, Hx.
Qed.

Lemma upd_In {A} (ws : list A) i j x : (i <= j)%nat -> nth_error ws j = Some x ->
  forall v, In v (upd ws i j) <-> In v ws.
Proof.
  intros Hij Hx v. unfold upd. rewrite (skipn_split_at _ _ _ Hx). cbn [firstn app].
  pose proof (split_ij ws i j x Hij Hx) as Hsp.
  set (a := firstn i ws) in *. set (b := firstn (j - i) (skipn i ws)) in *. set (c := skipn (S j) ws) in *.
  rewrite Hsp. rewrite !in_app_iff. cbn [In app]. rewrite !in_app_iff. cbn [In]. tauto.
Qed.

Lemma upd_prefix {A} (ws : list A) i j k : (k < i)%nat -> (i <= j)%nat -> (j < length ws)%nat ->
  nth_error (upd ws i j) k = nth_error ws k.
Proof.
  intros Hk Hij Hj. unfold upd. rewrite nth_error_app1 by (rewrite firstn_length; lia).
  rewrite nth_error_firstn_lt' by lia. reflexivity.
Qed.

Lemma upd_at {A} (ws : list A) i j x : (i <= j)%nat -> nth_error ws j = Some x ->
  nth_error (upd ws i j) i = Some x.
Proof.
  intros Hij Hx. unfold upd. assert (j < length ws)%nat by (apply nth_error_Some; congruence).
  rewrite nth_error_app2 by (rewrite firstn_length; lia). rewrite firstn_length.
  replace (i - Nat.min i (length ws))%nat with 0%nat by lia.
  rewrite (skipn_split_at _ _ _ Hx). reflexivity.
Qed.

Lemma py_slice_prefix_nat {A} (l : list A) (a : nat) : py_slice l None (Some (Z.of_nat a)) = firstn a l.
Proof. rewrite py_slice_prefix by lia. now rewrite Nat2Z.id. Qed.
Lemma py_slice_suffix_nat {A} (l : list A) (a : nat) : py_slice l (Some (Z.of_nat a)) None = skipn a l.
Proof. rewrite py_slice_suffix by lia. now rewrite Nat2Z.id. Qed.

Lemma firstn1_skipn {A} (l : list A) j x : nth_error l j = Some x -> firstn 1 (skipn j l) = [x].
Proof. intros H. now rewrite (skipn_split_at _ _ _ H). Qed.

(* one iteration of the selection loop moves wire j to position i and leaves the
   rest in order -- on every labelling, and on the running `perm` list itself *)
Lemma perm_step_route d perm i j N d' perm' :
  wf d -> length (dcod d) = N -> length perm = N ->
  zindex (Z.of_nat i) perm = Some j -> (i <= j)%nat ->
  perm_step d perm i = Ok (d', perm') ->
  wf d' /\ length (dcod d') = N /\ ddom d' = ddom d /\ perm' = upd perm i j /\
  exists offs, doffs d' = doffs d ++ offs /\
    forall (A : Type) (ws : list A), length ws = N -> route offs ws = upd ws i j.
Proof.
  intros W Hc Hp Hz Hij H. unfold perm_step in H. rewrite Hz in H.
  destruct (zindex_spec _ _ _ Hz) as [Hnth _].
  assert (HjN : (j < N)%nat) by (rewrite <- Hp; apply nth_error_Some; congruence).
  set (c := dcod d) in *.
  replace (Z.of_nat j + 1) with (Z.of_nat (S j)) in H by lia.
  rewrite !py_slice_prefix_nat, !py_slice_suffix_nat in H.
  rewrite (py_slice_nat c i j) in H by lia. rewrite (py_slice_nat c j (S j)) in H by lia.
  rewrite (py_slice_nat perm i j) in H by lia.
  replace (S j - j)%nat with 1%nat in H by lia.
  destruct (dswap _ _) as [s|] eqn:Es; [|discriminate]. cbn [bind] in H.
  destruct (dswap_spec _ _ _ Es) as (Ws & Ds & Cs & Ss & Rs & Ts).
  destruct (dtensor_ok (did (firstn i c)) s (did_wf _) Ws) as (t1 & E1 & W1 & D1 & C1 & B1 & O1).
  rewrite E1 in H. cbn [bind] in H.
  destruct (dtensor_ok t1 (did (skipn (S j) c)) W1 (did_wf _)) as (t2 & E2 & W2 & D2 & C2 & B2 & O2).
  rewrite E2 in H. cbn [bind] in H.
  destruct (dthen d t2) as [d2|] eqn:Ed; [|discriminate]. cbn [bind] in H.
  inversion H; subst d2 perm'. clear H.
  destruct (dthen_wf _ _ _ W W2 Ed) as (Wd & Dd & Cd).
  destruct (dthen_inv _ _ _ Ed) as [_ Hd'].
  assert (Lmid : length (firstn (j - i) (skipn i c)) = (j - i)%nat) by (rewrite firstn_length, skipn_length; lia).
  assert (L1 : length (firstn 1 (skipn j c)) = 1%nat) by (rewrite firstn_length, skipn_length; lia).
  split; [exact Wd|]. split.
  { rewrite Cd, C2, C1, Cs. cbn [did dcod]. rewrite !app_length, firstn_length, skipn_length, Lmid, L1. lia. }
  split; [exact Dd|]. split.
  { unfold upd. rewrite (firstn1_skipn _ _ _ Hnth). reflexivity. }
  exists (doffs t2). split; [rewrite Hd'; reflexivity|].
  intros A ws Hws.
  rewrite O2, O1. cbn [did doffs dcod map app]. rewrite app_nil_r.
  assert (Hwj : exists x, nth_error ws j = Some x).
  { destruct (nth_error ws j) eqn:E; [eauto|]. apply nth_error_None in E. lia. }
  destruct Hwj as (x & Hx).
  rewrite (split_ij ws i j x Hij Hx) at 1.
  replace (len (firstn i c)) with (len (firstn i ws)) by (unfold len; rewrite !firstn_length; lia).
  rewrite route_shift by (eapply Forall_impl; [|exact Rs]; cbn; intros; tauto).
  rewrite (app_assoc (firstn (j - i) (skipn i ws))).
  rewrite route_suffix.
  - rewrite (Ts A (firstn (j - i) (skipn i ws)) [x]).
    + unfold upd. rewrite (firstn1_skipn _ _ _ Hx). now rewrite <- !app_assoc.
    + rewrite firstn_length, skipn_length, Lmid. lia.
    + rewrite L1. reflexivity.
  - rewrite app_length, firstn_length, skipn_length. cbn [length].
    rewrite app_length, Lmid, L1 in Rs. replace (Nat.min (j - i) (length ws - i) + 1)%nat with (j - i + 1)%nat by lia.
    exact Rs.
Qed.

Definition sorted_prefix (perm : list Z) (i : nat) : Prop :=
  forall k, (k < i)%nat -> nth_error perm k = Some (Z.of_nat k).

Definition has_all (perm : list Z) (N : nat) : Prop :=
  forall v, (v < N)%nat -> In (Z.of_nat v) perm.

Lemma index_after_prefix perm i j : sorted_prefix perm i -> zindex (Z.of_nat i) perm = Some j -> (i <= j)%nat.
Proof.
  intros Hs Hz. destruct (zindex_spec _ _ _ Hz) as [Hj _].
  destruct (Nat.le_gt_cases i j) as [H|H]; [exact H|].
  rewrite (Hs j H) in Hj. inversion Hj. lia.
Qed.

Lemma perm_loop_route N n : forall d perm i d' (perm0 : list Z),
  (i + n = N)%nat -> wf d -> length (dcod d) = N -> length perm = N -> length perm0 = N ->
  has_all perm N -> sorted_prefix perm i -> route (doffs d) perm0 = perm ->
  perm_loop d perm i n = Ok d' ->
  exists permf, route (doffs d') perm0 = permf /\ length permf = N /\ sorted_prefix permf N /\
    wf d' /\ ddom d' = ddom d.
Proof.
  induction n as [|n IH]; intros d perm i d' perm0 HiN W Hc Hp Hp0 Hall Hs Hr H; cbn [perm_loop] in H.
  - inversion H; subst d'. exists perm. assert (i = N) by lia. subst i.
    split; [exact Hr|]. split; [exact Hp|]. split; [exact Hs|]. split; [exact W|reflexivity].
  - destruct (perm_step d perm i) as [[d1 p1]|] eqn:E; [|discriminate]. cbn [bind fst snd] in H.
    assert (Hin : In (Z.of_nat i) perm) by (apply Hall; lia).
    destruct (zindex_in _ _ Hin) as (j & Hz).
    pose proof (index_after_prefix _ _ _ Hs Hz) as Hij.
    destruct (zindex_spec _ _ _ Hz) as [Hj _].
    assert (HjN : (j < N)%nat) by (rewrite <- Hp; apply nth_error_Some; congruence).
    destruct (perm_step_route d perm i j N d1 p1 W Hc Hp Hz Hij E) as (W1 & C1 & D1 & P1 & offs & O1 & R1).
    destruct (IH d1 p1 (S i) d' perm0) as (pf & Rf & Lf & Sf & Wf & Df); auto; try lia.
    + rewrite P1, upd_length; lia.
    + intros v Hv. rewrite P1. apply (upd_In perm i j _ Hij Hj). apply Hall, Hv.
    + intros k Hk. rewrite P1. destruct (Nat.eq_dec k i) as [->|Hne].
      * apply (upd_at perm i j _ Hij Hj).
      * rewrite upd_prefix by lia. apply Hs. lia.
    + rewrite O1, route_app, Hr, P1. apply R1, Hp.
    + exists pf. split; [exact Rf|]. split; [exact Lf|]. split; [exact Sf|]. split; [exact Wf|congruence].
Qed.

Lemma sorted_is_range N : forall (l : list Z) k, length l = N ->
  (forall m, (m < N)%nat -> nth_error l m = Some (Z.of_nat (k + m))) -> l = zrange (Z.of_nat k) N.
Proof.
  induction N as [|N IH]; intros l k Hl Hn.
  - destruct l; [reflexivity|discriminate].
  - destruct l as [|x l]; [discriminate|]. cbn [zrange]. f_equal.
    + specialize (Hn 0%nat ltac:(lia)). cbn in Hn. inversion Hn. f_equal. lia.
    + replace (Z.of_nat k + 1) with (Z.of_nat (S k)) by lia. apply IH; [cbn in Hl; lia|].
      intros m Hm. specialize (Hn (S m) ltac:(lia)). cbn in Hn. rewrite Hn. f_equal. lia.
Qed.

Lemma is_perm_has_all perm : is_perm perm = true -> has_all perm (length perm).
Proof.
  unfold is_perm. intros H. apply andb_true_iff in H. destruct H as [_ H].
  rewrite forallb_forall in H. intros v Hv.
  assert (Hin : In (Z.of_nat v) (zrange 0 (length perm))).
  { clear H. generalize 0%nat as k. intros _. revert v Hv. generalize (length perm) as n.
    assert (G : forall n k v, (v < n)%nat -> In (Z.of_nat (k + v)) (zrange (Z.of_nat k) n)).
    { induction n as [|n IHn]; intros k v Hv; [lia|]. cbn [zrange]. destruct v as [|v].
      - left. f_equal. lia.
      - right. replace (Z.of_nat k + 1) with (Z.of_nat (S k)) by lia.
        replace (k + S v)%nat with (S k + v)%nat by lia. apply IHn. lia. }
    intros n v Hv. apply (G n 0%nat v Hv). }
  specialize (H _ Hin). apply existsb_exists in H. destruct H as (x & Hx & E).
  apply Z.eqb_eq in E. now subst.
Qed.

(* the wire map of Diagram.permutation(perm, dom) *)
Theorem permutation_wire_map perm dom d : dpermutation perm dom = Ok d ->
  route (doffs d) perm = zrange 0 (length perm).
Proof.
  unfold dpermutation. destruct (is_perm perm) eqn:Ep; [|discriminate]. cbn [negb].
  destruct (len dom =? len perm) eqn:El; [|discriminate]. cbn [negb]. intros H.
  apply Z.eqb_eq in El. assert (Hl : length dom = length perm) by (unfold len in El; lia).
  destruct (perm_loop_route (length perm) (length dom) (did dom) perm 0 d perm) as (pf & Rf & Lf & Sf & _);
    auto using did_wf, is_perm_has_all; try lia.
  - intros k Hk; lia.
  - rewrite Rf. apply (sorted_is_range (length perm) pf 0 Lf). intros m Hm. apply Sf, Hm.
Qed.

(* ------------------------------------------------------------ the codomain is the permuted domain *)
Definition swap_shaped (b : box) : Prop := exists x y, bdom b = [x; y] /\ bcod b = [y; x].

Lemma swap_at_types (l r : ty) x y : swap_at (length l) (l ++ [x; y] ++ r) = l ++ [y; x] ++ r.
Proof. replace (length l) with (length l + 0)%nat by lia. rewrite swap_at_prefix. reflexivity. Qed.

Lemma route_types ls : forall a b, chain a ls b -> Forall (fun l => swap_shaped (lbox l)) ls ->
  route (map (fun l => len (lleft l)) ls) a = b.
Proof.
  induction ls as [|l ls IH]; intros a b Hc Hs; cbn in *; [exact Hc|].
  destruct Hc as [-> Hc]. inversion Hs as [|? ? (x & y & Hd & Hcd) Hrest]; subst.
  unfold route in *. cbn [fold_left]. rewrite to_nat_len.
  unfold ldom. rewrite Hd, swap_at_types. apply IH; [|exact Hrest].
  unfold lcod in Hc. now rewrite Hcd in Hc.
Qed.

Lemma swap_at_map {A B} (f : A -> B) n : forall ws, swap_at n (map f ws) = map f (swap_at n ws).
Proof.
  induction n as [|n IH]; intros ws.
  - destruct ws as [|a [|b ws]]; reflexivity.
  - destruct ws as [|a ws]; cbn; [reflexivity|]. f_equal. apply IH.
Qed.

Lemma swap_at_In {A} (v : A) n : forall ws, In v ws -> In v (swap_at n ws).
Proof.
  induction n as [|n IH]; intros ws H.
  - destruct ws as [|a [|b ws]]; cbn in *; tauto.
  - destruct ws as [|a ws]; cbn in *; [tauto|]. destruct H as [->|H]; [now left|]. right. now apply IH.
Qed.

Lemma route_map {A B} (f : A -> B) offs : forall ws, route offs (map f ws) = map f (route offs ws).
Proof.
  induction offs as [|o offs IH]; intros ws; [reflexivity|]. unfold route in *. cbn [fold_left].
  rewrite <- IH. f_equal. apply swap_at_map.
Qed.

Lemma route_In {A} (v : A) offs : forall ws, In v ws -> In v (route offs ws).
Proof.
  induction offs as [|o offs IH]; intros ws H; [exact H|]. unfold route in *. cbn [fold_left].
  apply IH. now apply swap_at_In.
Qed.

Lemma swap_row_shaped x r bs : swap_row [x] r = Ok bs -> Forall swap_shaped bs.
Proof.
  destruct (swap_row_spec x r) as (bs' & E & ->). rewrite E. intros H; inversion H; subst.
  apply Forall_forall. intros b Hb. apply in_map_iff in Hb. destruct Hb as (y & <- & _).
  exists x, y. auto.
Qed.

Lemma dswap_shaped l : forall r d, dswap l r = Ok d -> Forall swap_shaped (dboxes d).
Proof.
  induction l as [|x l IH]; intros r d H.
  - cbn in H. inversion H; subst. constructor.
  - destruct l as [|y l'].
    + cbn [dswap] in H. destruct (swap_row [x] r) as [bs|] eqn:E; [|discriminate]. cbn [bind] in H.
      destruct (mk_fields _ _ _ _ _ H) as (_ & _ & -> & _). eapply swap_row_shaped; eauto.
    + rewrite dswap_cons2 in H. remember (y :: l') as l0.
      destruct (dswap l0 r) as [s1|] eqn:E1; [|discriminate]. cbn [bind] in H.
      destruct (dswap_spec _ _ _ E1) as (W1 & _).
      destruct (dtensor_ok (did [x]) s1 (did_wf _) W1) as (a & Ea & Wa & _ & _ & Ba & _). rewrite Ea in H. cbn [bind] in H.
      destruct (do bs <- swap_row [x] r; mk ([x] ++ r) (r ++ [x]) bs (zrange 0 (length r))) as [s2|] eqn:E2; [|discriminate].
      cbn [bind] in H. destruct (swap_single _ _ _ E2) as (W2 & _).
      destruct (dtensor_ok s2 (did l0) W2 (did_wf _)) as (b & Eb & Wb & _ & _ & Bb & _). rewrite Eb in H. cbn [bind] in H.
      destruct (dthen_inv _ _ _ H) as [_ ->]. cbn [dboxes]. rewrite Ba, Bb. cbn [did dboxes app]. rewrite app_nil_r.
      apply Forall_app. split; [apply (IH r s1 E1)|].
      destruct (swap_row [x] r) as [bs|] eqn:E; [|discriminate]. cbn [bind] in E2.
      destruct (mk_fields _ _ _ _ _ E2) as (_ & _ & -> & _). eapply swap_row_shaped; eauto.
Qed.

Lemma perm_step_shaped d perm i d' perm' : wf d -> Forall swap_shaped (dboxes d) ->
  perm_step d perm i = Ok (d', perm') -> wf d' /\ Forall swap_shaped (dboxes d').
Proof.
  intros W S. unfold perm_step. destruct (zindex (Z.of_nat i) perm) as [j|]; [|discriminate].
  destruct (dswap _ _) as [s|] eqn:Es; [|discriminate]. cbn [bind].
  destruct (dswap_spec _ _ _ Es) as (Ws & _). pose proof (dswap_shaped _ _ _ Es) as Ss.
  destruct (dtensor_ok (did (py_slice (dcod d) None (Some (Z.of_nat i)))) s (did_wf _) Ws)
    as (t1 & E1 & W1 & _ & _ & B1 & _). rewrite E1. cbn [bind].
  destruct (dtensor_ok t1 (did (py_slice (dcod d) (Some (Z.of_nat j + 1)) None)) W1 (did_wf _))
    as (t2 & E2 & W2 & _ & _ & B2 & _). rewrite E2. cbn [bind].
  destruct (dthen d t2) as [d2|] eqn:Ed; [|discriminate]. cbn [bind].
  intros H; inversion H; subst d2 perm'. destruct (dthen_wf _ _ _ W W2 Ed) as (Wd & _).
  split; [exact Wd|]. destruct (dthen_inv _ _ _ Ed) as [_ ->]. cbn [dboxes].
  apply Forall_app. split; [exact S|]. rewrite B2, B1. cbn [did dboxes app]. now rewrite app_nil_r.
Qed.

Lemma perm_loop_shaped n : forall d perm i d', wf d -> Forall swap_shaped (dboxes d) ->
  perm_loop d perm i n = Ok d' -> wf d' /\ Forall swap_shaped (dboxes d').
Proof.
  induction n as [|n IH]; cbn [perm_loop]; intros d perm i d' W S H.
  - inversion H; subst. auto.
  - destruct (perm_step d perm i) as [[d1 p1]|] eqn:E; [|discriminate]. cbn [bind fst snd] in H.
    destruct (perm_step_shaped _ _ _ _ _ W S E) as [W1 S1]. eapply IH; eauto.
Qed.

(* reading the types as labels: the codomain is the routed domain *)
Theorem permutation_cod_is_routed_dom perm dom d : dpermutation perm dom = Ok d ->
  route (doffs d) dom = dcod d.
Proof.
  intros H. destruct (dpermutation_spec _ _ _ H) as (W & D & _).
  unfold dpermutation in H. destruct (negb (is_perm perm)); [discriminate|].
  destruct (negb (len dom =? len perm)); [discriminate|].
  destruct (perm_loop_shaped _ _ _ _ _ (did_wf dom) (Forall_nil _) H) as [_ S].
  destruct W as (W1 & W2 & W3 & W4 & W5). rewrite W5, <- D, <- W1, <- W2.
  apply route_types; [exact W3|]. rewrite W4 in S. apply (Forall_map_iff lbox swap_shaped) in S. exact S.
Qed.

Lemma map_fst_combine_eq {A B} (a : list A) : forall (b : list B), length a = length b -> map fst (combine a b) = a.
Proof. induction a as [|x a IH]; intros [|y b] H; cbn in *; try discriminate; [reflexivity|]. f_equal. apply IH. lia. Qed.
Lemma map_snd_combine_eq {A B} (a : list A) : forall (b : list B), length a = length b -> map snd (combine a b) = b.
Proof. induction a as [|x a IH]; intros [|y b] H; cbn in *; try discriminate; [reflexivity|]. f_equal. apply IH. lia. Qed.

(* cod[perm[i]] = dom[i] : output position perm[i] carries the type of input wire i *)
Theorem permutation_cod perm dom d i p x : dpermutation perm dom = Ok d ->
  nth_error perm i = Some p -> nth_error dom i = Some x ->
  nth_error (dcod d) (Z.to_nat p) = Some x.
Proof.
  intros H Hp Hx.
  pose proof (permutation_wire_map _ _ _ H) as Wm.
  pose proof (permutation_cod_is_routed_dom _ _ _ H) as Cd.
  destruct (dpermutation_spec _ _ _ H) as (_ & _ & _ & _ & Ep & El).
  assert (Hl : length dom = length perm) by (unfold len in El; lia).
  (* label wire k with the pair (perm[k], dom[k]) *)
  set (ws := combine perm dom).
  assert (E1 : map fst ws = perm) by (unfold ws; apply map_fst_combine_eq; lia).
  assert (E2 : map snd ws = dom) by (unfold ws; apply map_snd_combine_eq; lia).
  rewrite <- E1 in Wm. rewrite route_map in Wm. rewrite <- E2 in Cd. rewrite route_map in Cd.
  set (rw := route (doffs d) ws) in *.
  (* the pair (p, x) is a label of ws, hence of rw; its position in rw is given by its first component *)
  assert (Hin : In (p, x) ws).
  { unfold ws. clear - Hp Hx. revert dom i Hp Hx. induction perm as [|q perm IH]; intros [|y dom] [|i] Hp Hx; cbn in *; try discriminate.
    - inversion Hp; inversion Hx; subst. now left.
    - right. eapply IH; eauto. }
  assert (Hin' : In (p, x) rw) by (apply route_In, Hin).
  apply In_nth_error in Hin'. destruct Hin' as (k & Hk).
  assert (Hfst : nth_error (map fst rw) k = Some p) by (rewrite nth_error_map, Hk; reflexivity).
  rewrite Wm in Hfst.
  assert (Hkp : Z.of_nat k = p).
  { assert (G : forall n s m, nth_error (zrange (Z.of_nat s) n) m = Some p -> Z.of_nat (s + m) = p).
    { induction n as [|n IHn]; intros s m H0; [destruct m; discriminate|]. cbn [zrange] in H0.
      destruct m as [|m]; cbn in H0; [inversion H0; f_equal; lia|].
      replace (Z.of_nat s + 1) with (Z.of_nat (S s)) in H0 by lia. rewrite <- (IHn (S s) m H0). f_equal. lia. }
    apply (G (length (map fst ws)) 0%nat k Hfst). }
  rewrite <- Hkp, Nat2Z.id, <- Cd, nth_error_map, Hk. reflexivity.
Qed.
