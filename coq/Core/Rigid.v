(* rigid.py: adjoints, Cup / Cap, cups / caps, transpose. *)
From Coq Require Import List ZArith Bool Lia.
Import ListNotations.
Require Import DV.Common.Base DV.Core.Diagram DV.Core.Perm.
Open Scope Z_scope.

Definition ob_r (x : ob) : ob := Ob (oname x) (oz x + 1).
Definition ob_l (x : ob) : ob := Ob (oname x) (oz x - 1).
Definition ty_r (t : ty) : ty := map ob_r (rev t).
Definition ty_l (t : ty) : ty := map ob_l (rev t).

(* rigid.Cup.__init__ / rigid.Cap.__init__ *)
Definition adjoint_ok (l r : ty) : bool := ty_eqb (ty_r l) r || ty_eqb l (ty_r r).

Definition cup_box (l r : ty) : res box :=
  if negb ((len l =? 1) && (len r =? 1)) then Err ValueError
  else if negb (adjoint_ok l r) then Err AxiomError
  else Ok (Box KCup (-2) (l ++ r) [] false None).

Definition cap_box (l r : ty) : res box :=
  if negb ((len l =? 1) && (len r =? 1)) then Err ValueError
  else if negb (adjoint_ok l r) then Err AxiomError
  else Ok (Box KCap (-3) [] (l ++ r) false None).

(* rigid.cups(left, right, reverse): for i in range(len(left)) *)
Fixpoint cups_loop (factory : ty -> ty -> res box) (reverse : bool)
         (l r : ty) (result : diagram) (i n : nat) : res diagram :=
  match n with
  | O => Ok result
  | S n' =>
      let iz := Z.of_nat i in
      let j := len l - iz - 1 in
      do c <- factory (py_slice l (Some j) (Some (j + 1))) (py_slice r (Some iz) (Some (iz + 1)));
      do t1 <- dtensor (did (py_slice l None (Some j))) (dbox c);
      do lay <- dtensor t1 (did (py_slice r (Some (iz + 1)) None));
      do result' <- (if reverse then dthen lay result else dthen result lay);
      cups_loop factory reverse l r result' (S i) n'
  end.

Definition dcups (l r : ty) : res diagram :=
  if negb (adjoint_ok l r) then Err AxiomError
  else cups_loop cup_box false l r (did (l ++ r)) 0 (length l).

Definition dcaps (l r : ty) : res diagram :=
  if negb (adjoint_ok l r) then Err AxiomError
  else cups_loop cap_box true l r (did (l ++ r)) 0 (length l).

(* rigid.Diagram.transpose *)
Definition dtranspose (d : diagram) (left : bool) : res diagram :=
  if left then
    do caps <- dcaps (ddom d) (ty_l (ddom d));
    do a <- dtensor (did (ty_l (dcod d))) caps;
    do b0 <- dtensor (did (ty_l (dcod d))) d;
    do b <- dtensor b0 (did (ty_l (ddom d)));
    do cups <- dcups (ty_l (dcod d)) (dcod d);
    do c <- dtensor cups (did (ty_l (ddom d)));
    do ab <- dthen a b; dthen ab c
  else
    do caps <- dcaps (ty_r (ddom d)) (ddom d);
    do a <- dtensor caps (did (ty_r (dcod d)));
    do b0 <- dtensor (did (ty_r (ddom d))) d;
    do b <- dtensor b0 (did (ty_r (dcod d)));
    do cups <- dcups (dcod d) (ty_r (dcod d));
    do c <- dtensor (did (ty_r (ddom d))) cups;
    do ab <- dthen a b; dthen ab c.
