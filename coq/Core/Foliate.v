(* rewriting.py: foliate, foliation, depth (monoidal part).  Definitions only;
   proofs in Core/FoliateLemmas.v and Sem/FoliateSem.v. *)
From Coq Require Import List ZArith Bool Lia.
Import ListNotations.
Require Import DV.Common.Base DV.Core.Diagram DV.Core.Rewriting.
Open Scope Z_scope.

(* is_right_of(last, diagram): True / False / None; reading offsets[last + 1]
   outside the diagram would be an IndexError (never met by foliate) *)
Definition is_right_of (d : diagram) (last : nat) : res (option bool) :=
  match nth_error (doffs d) last, nth_error (doffs d) (S last),
        nth_error (dboxes d) last, nth_error (dboxes d) (S last) with
  | Some off0, Some off1, Some box0, Some box1 =>
      if off0 + len (bcod box0) <=? off1 then Ok (Some true)
      else if off1 + len (bdom box1) <=? off0 then Ok (Some false)
      else Ok None
  | _, _, _, _ => Err IndexError
  end.

(* `try: ... except InterchangerError: return None` *)
Definition catch_ie (r : res diagram) : res (option diagram) :=
  match r with
  | Ok d => Ok (Some d)
  | Err InterchangerError => Ok None
  | Err e => Err e
  end.

(* move_in_slice(first, last, k, diagram) with last = first + m: structural in m *)
Fixpoint move_in_slice (first m k : nat) (d : diagram) : res (option diagram) :=
  let last := (first + m)%nat in
  do r1 <- catch_ie (if Nat.eqb k (S last) then Ok d
                     else interchange d (Z.of_nat k) (Z.of_nat (S last)) false);
  match r1 with
  | None => Ok None
  | Some result =>
    do side <- is_right_of result last;
    match side with
    | None => Ok None
    | Some true => Ok (Some result)
    | Some false =>
      do r2 <- catch_ie (interchange result (Z.of_nat (S last)) (Z.of_nat last) false);
      match r2 with
      | None => Ok None
      | Some result' =>
        match m with
        | O => Ok (Some result')
        | S m' => move_in_slice first m' last result'
        end
      end
    end
  end.

(* the inner `while k < len(diagram)` loop: n iterations from k; returns the
   current diagram, the index of the last box of the slice and the diagrams
   yielded so far (most recent first) *)
Fixpoint fol_inner (n : nat) (start last k : nat) (d : diagram) (acc : list diagram)
  : res (diagram * nat * list diagram) :=
  match n with
  | O => Ok (d, last, acc)
  | S n' =>
    do r <- move_in_slice start (last - start) k d;
    match r with
    | None => fol_inner n' start last (S k) d acc
    | Some d' => fol_inner n' start (S last) (S k) d' (d' :: acc)
    end
  end.

(* the outer `while start < len(diagram)` loop; fuel only guards the recursion:
   foliate_total shows it is never exhausted *)
Fixpoint fol_outer (fuel : nat) (start : nat) (d : diagram) (acc slices : list diagram)
  : res (list diagram * list diagram) :=
  match fuel with
  | O => Err OutOfFuel
  | S fuel' =>
    if Nat.ltb start (length (dboxes d)) then
      do r <- fol_inner (length (dboxes d) - S start) start start (S start) d acc;
      let '(d', last, acc') := r in
      fol_outer fuel' (S last) d' acc'
        (dslice d' (Some (Z.of_nat start)) (Some (Z.of_nat (S last))) :: slices)
    else Ok (rev acc, rev slices)
  end.

(* (the diagrams yielded by d.foliate(), the slices yielded last with
   yield_slices=True) *)
Definition foliate (d : diagram) : res (list diagram * list diagram) :=
  fol_outer (S (length (dboxes d))) 0 d [] [].

(* d.foliation().boxes *)
Definition foliation_boxes (d : diagram) : res (list diagram) :=
  do r <- foliate d; Ok (snd r).

(* d.depth() *)
Definition depth (d : diagram) : res Z :=
  do r <- foliate d; Ok (len (snd r)).

(* what monoidal.Diagram(dom, cod, slices, len(slices) * [0]) requires of the
   slices: they compose, from dom to cod (every offset is 0 and the scan must be
   exactly the domain of the next slice) *)
Fixpoint slices_chain (a : ty) (ss : list diagram) (b : ty) : Prop :=
  match ss with
  | [] => a = b
  | s :: ss' => a = ddom s /\ slices_chain (dcod s) ss' b
  end.

(* the last diagram yielded by foliate, the input itself if nothing was yielded *)
Definition last_step (d : diagram) (steps : list diagram) : diagram := last steps d.
