(* Proofs about rewriting.interchange / normalize / normal_form (C01, C05, C06). *)
From Coq Require Import List ZArith Bool Lia.
Import ListNotations.
Require Import DV.Common.Base DV.Common.ListLemmas DV.Core.Diagram DV.Core.WF
  DV.Core.DiagramLemmas DV.Core.Rewriting.
Open Scope Z_scope.

(* replacing two consecutive layers L0, L1 of a well-typed diagram by l1', l0'
   with matching boundary types gives a well-typed diagram, and the three checked
   compositions of layer arrows that rewriting.interchange performs succeed *)
Lemma splice_wf d i L0 L1 l1' l0' o1 o0 :
  wf d ->
  nth_error (la_ls (dlayers d)) i = Some L0 ->
  nth_error (la_ls (dlayers d)) (S i) = Some L1 ->
  ldom l1' = ldom L0 -> lcod l1' = ldom l0' -> lcod l0' = lcod L1 ->
  o1 = len (lleft l1') -> o0 = len (lleft l0') ->
  exists a3,
    (do a1 <- la_then (la_slice (dlayers d) None (Some (Z.of_nat i))) (la_of l1');
     do a2 <- la_then a1 (la_of l0');
     la_then a2 (la_slice (dlayers d) (Some (Z.of_nat i + 2)) None)) = Ok a3 /\
    wf (D (ddom d) (dcod d)
          (firstn i (dboxes d) ++ [lbox l1'; lbox l0'] ++ skipn (2 + i) (dboxes d))
          (firstn i (doffs d) ++ [o1; o0] ++ skipn (2 + i) (doffs d)) a3).
Proof.
  intros (W1 & W2 & W3 & W4 & W5) E0 E1 H1 H2 H3 -> ->.
  assert (Hlen : (2 + i <= length (la_ls (dlayers d)))%nat).
  { assert (S i < length (la_ls (dlayers d)))%nat by (apply nth_error_Some; rewrite E1; discriminate). lia. }
  destruct (type_at_nth _ _ _ _ _ W3 E0) as [T0 _].
  destruct (type_at_nth _ _ _ _ _ W3 E1) as [_ T1].
  rewrite la_slice_prefix by (auto; lia).
  replace (Z.of_nat i + 2) with (Z.of_nat (2 + i)) by lia.
  rewrite la_slice_suffix by (auto; lia).
  rewrite la_then_eq by (cbn [la_cod la_dom la_of]; rewrite T0; auto). cbn [bind la_dom la_cod la_ls la_of].
  rewrite la_then_eq by (cbn [la_cod la_dom la_of]; auto). cbn [bind la_dom la_cod la_ls].
  change (2 + i)%nat with (S (S i)) in *.
  rewrite la_then_eq by (cbn [la_cod la_dom]; rewrite T1; auto).
  eexists; split; [reflexivity|].
  unfold wf, la_wf; cbn [ddom dcod dboxes doffs dlayers la_dom la_cod la_ls].
  repeat split; auto.
  - rewrite <- !app_assoc.
    eapply chain_app; [eapply chain_firstn; [exact W3|lia]|]. rewrite T0.
    cbn [app chain]. repeat split; auto.
    rewrite H3, <- T1. eapply chain_skipn; [exact W3|lia].
  - rewrite W4. rewrite !map_app, <- !firstn_map, <- !skipn_map. cbn [map].
    rewrite <- !app_assoc. reflexivity.
  - rewrite W5. rewrite !map_app, <- !firstn_map, <- !skipn_map. cbn [map].
    rewrite <- !app_assoc. reflexivity.
Qed.

(* what an adjacent interchange returns, in full *)
Definition wires_disjoint_l (d : diagram) (i : nat) : Prop :=
  exists L0 L1, nth_error (la_ls (dlayers d)) i = Some L0 /\ nth_error (la_ls (dlayers d)) (S i) = Some L1
    /\ len (lleft L0) + len (bcod (lbox L0)) <= len (lleft L1).
Definition wires_disjoint_r (d : diagram) (i : nat) : Prop :=
  exists L0 L1, nth_error (la_ls (dlayers d)) i = Some L0 /\ nth_error (la_ls (dlayers d)) (S i) = Some L1
    /\ len (lleft L1) + len (bdom (lbox L1)) <= len (lleft L0).

Lemma nth_error_map_some {A B} (f : A -> B) l i x :
  nth_error l i = Some x -> nth_error (map f l) i = Some (f x).
Proof. intros H. rewrite nth_error_map, H. reflexivity. Qed.

Theorem interchange_adj_spec d i left d' :
  wf d -> interchange_adj d i left = Ok d' ->
  wf d' /\ ddom d' = ddom d /\ dcod d' = dcod d /\
  exists b0 b1 o0 o1 o0' o1',
    nth_error (dboxes d) i = Some b0 /\ nth_error (dboxes d) (S i) = Some b1 /\
    nth_error (doffs d) i = Some o0 /\ nth_error (doffs d) (S i) = Some o1 /\
    dboxes d' = firstn i (dboxes d) ++ [b1; b0] ++ skipn (2 + i) (dboxes d) /\
    doffs d' = firstn i (doffs d) ++ [o1'; o0'] ++ skipn (2 + i) (doffs d) /\
    ((o0 + len (bcod b0) <= o1 /\ o0' = o0 /\ o1' = o1 - len (bcod b0) + len (bdom b0)) \/
     (o1 + len (bdom b1) <= o0 /\ o1' = o1 /\ o0' = o0 - len (bdom b1) + len (bcod b1))).
Proof.
  intros Hwf H. pose proof Hwf as (W1 & W2 & W3 & W4 & W5). unfold interchange_adj in H.
  destruct (nth_error (la_ls (dlayers d)) i) as [[[left0 box0] right0]|] eqn:E0; try discriminate.
  destruct (nth_error (la_ls (dlayers d)) (S i)) as [[[left1 box1] right1]|] eqn:E1; try discriminate.
  destruct (nth_error (doffs d) i) as [off0|] eqn:O0; try discriminate.
  destruct (nth_error (doffs d) (S i)) as [off1|] eqn:O1; try discriminate.
  assert (Hoff0 : off0 = len left0).
  { rewrite W5 in O0. rewrite (nth_error_map_some _ _ _ _ E0) in O0. inversion O0; reflexivity. }
  assert (Hoff1 : off1 = len left1).
  { rewrite W5 in O1. rewrite (nth_error_map_some _ _ _ _ E1) in O1. inversion O1; reflexivity. }
  assert (B0 : nth_error (dboxes d) i = Some box0).
  { rewrite W4. now rewrite (nth_error_map_some _ _ _ _ E0). }
  assert (B1 : nth_error (dboxes d) (S i) = Some box1).
  { rewrite W4. now rewrite (nth_error_map_some _ _ _ _ E1). }
  (* the two layers are consecutive: cod of the first = dom of the second *)
  destruct (type_at_nth _ _ _ _ _ W3 E0) as [_ T0].
  destruct (type_at_nth _ _ _ _ _ W3 E1) as [T1 _].
  assert (Hmid : left0 ++ bcod box0 ++ right0 = left1 ++ bdom box1 ++ right1).
  { rewrite T0 in T1. exact T1. }
  (* case L: box1 is entirely to the right of box0's outputs *)
  assert (CaseL : off0 + len (bcod box0) <= off1 ->
    forall a3,
    (do a1 <- la_then (la_slice (dlayers d) None (Some (Z.of_nat i)))
               (la_of (left0 ++ bdom box0 ++ py_slice left1 (Some (len (left0 ++ bcod box0))) None, box1, right1));
     do a2 <- la_then a1 (la_of (left0, box0, py_slice left1 (Some (len (left0 ++ bcod box0))) None ++ bcod box1 ++ right1));
     la_then a2 (la_slice (dlayers d) (Some (Z.of_nat i + 2)) None)) = Ok a3 ->
    wf (D (ddom d) (dcod d)
          (firstn i (dboxes d) ++ [box1; box0] ++ skipn (2 + i) (dboxes d))
          (firstn i (doffs d) ++ [off1 - len (bcod box0) + len (bdom box0); off0] ++ skipn (2 + i) (doffs d)) a3)).
  { intros Hge a3 Ha3.
    rewrite py_slice_suffix in * by apply len_nonneg. unfold len in Ha3 |- * at 1. rewrite Nat2Z.id in *.
    destruct (app_overlap left1 (bdom box1) right1 left0 (bcod box0) right0 (eq_sym Hmid)) as [HA HB].
    { unfold len in *; lia. }
    set (mid := skipn (length (left0 ++ bcod box0)) left1) in *.
    destruct (splice_wf d i _ _
      (left0 ++ bdom box0 ++ mid, box1, right1) (left0, box0, mid ++ bcod box1 ++ right1)
      (off1 - len (bcod box0) + len (bdom box0)) off0 Hwf E0 E1) as (a3' & Ha3' & Hw).
    - unfold ldom, lleft, lbox, lright; cbn [fst snd]. rewrite HB, <- !app_assoc. reflexivity.
    - unfold ldom, lcod, lleft, lbox, lright; cbn [fst snd]. rewrite <- !app_assoc. reflexivity.
    - unfold lcod, lleft, lbox, lright; cbn [fst snd]. rewrite HA at 1. rewrite <- !app_assoc. reflexivity.
    - unfold lleft; cbn [fst]. rewrite Hoff1. rewrite HA at 1. rewrite !len_app. lia.
    - unfold lleft; cbn [fst]. exact Hoff0.
    - rewrite Ha3 in Ha3'. inversion Ha3'; subst a3'. exact Hw. }
  assert (CaseR : off1 + len (bdom box1) <= off0 ->
    forall a3,
    (do a1 <- la_then (la_slice (dlayers d) None (Some (Z.of_nat i)))
               (la_of (left1, box1, py_slice left0 (Some (len (left1 ++ bdom box1))) None ++ bdom box0 ++ right0));
     do a2 <- la_then a1 (la_of (left1 ++ bcod box1 ++ py_slice left0 (Some (len (left1 ++ bdom box1))) None, box0, right0));
     la_then a2 (la_slice (dlayers d) (Some (Z.of_nat i + 2)) None)) = Ok a3 ->
    wf (D (ddom d) (dcod d)
          (firstn i (dboxes d) ++ [box1; box0] ++ skipn (2 + i) (dboxes d))
          (firstn i (doffs d) ++ [off1; off0 - len (bdom box1) + len (bcod box1)] ++ skipn (2 + i) (doffs d)) a3)).
  { intros Hge a3 Ha3.
    rewrite py_slice_suffix in * by apply len_nonneg. unfold len in Ha3 |- * at 1. rewrite Nat2Z.id in *.
    destruct (app_overlap left0 (bcod box0) right0 left1 (bdom box1) right1 Hmid) as [HA HB].
    { unfold len in *; lia. }
    set (mid := skipn (length (left1 ++ bdom box1)) left0) in *.
    destruct (splice_wf d i _ _
      (left1, box1, mid ++ bdom box0 ++ right0) (left1 ++ bcod box1 ++ mid, box0, right0)
      off1 (off0 - len (bdom box1) + len (bcod box1)) Hwf E0 E1) as (a3' & Ha3' & Hw).
    - unfold ldom, lleft, lbox, lright; cbn [fst snd]. rewrite HA at 1. rewrite <- !app_assoc. reflexivity.
    - unfold ldom, lcod, lleft, lbox, lright; cbn [fst snd]. rewrite <- !app_assoc. reflexivity.
    - unfold lcod, lleft, lbox, lright; cbn [fst snd]. rewrite HB, <- !app_assoc. reflexivity.
    - unfold lleft; cbn [fst]. exact Hoff1.
    - unfold lleft; cbn [fst]. rewrite Hoff0. rewrite HA at 1. rewrite !len_app. lia.
    - rewrite Ha3 in Ha3'. inversion Ha3'; subst a3'. exact Hw. }
  assert (Fin : forall o0' o1' l0 l1 (P : Prop),
    (forall a3, (do a1 <- la_then (la_slice (dlayers d) None (Some (Z.of_nat i))) (la_of l1);
                 do a2 <- la_then a1 (la_of l0);
                 la_then a2 (la_slice (dlayers d) (Some (Z.of_nat i + 2)) None)) = Ok a3 ->
       wf (D (ddom d) (dcod d) (firstn i (dboxes d) ++ [box1; box0] ++ skipn (2 + i) (dboxes d))
            (firstn i (doffs d) ++ [o1'; o0'] ++ skipn (2 + i) (doffs d)) a3)) ->
    P ->
    (do a1 <- la_then (la_slice (dlayers d) None (Some (Z.of_nat i))) (la_of l1);
     do a2 <- la_then a1 (la_of l0);
     do a3 <- la_then a2 (la_slice (dlayers d) (Some (Z.of_nat i + 2)) None);
     Ok (D (ddom d) (dcod d) (firstn i (dboxes d) ++ [box1; box0] ++ skipn (2 + i) (dboxes d))
            (firstn i (doffs d) ++ [o1'; o0'] ++ skipn (2 + i) (doffs d)) a3)) = Ok d' ->
    wf d' /\ ddom d' = ddom d /\ dcod d' = dcod d /\
    dboxes d' = firstn i (dboxes d) ++ [box1; box0] ++ skipn (2 + i) (dboxes d) /\
    doffs d' = firstn i (doffs d) ++ [o1'; o0'] ++ skipn (2 + i) (doffs d) /\ P).
  { intros o0' o1' l0 l1 P HW HP Hrun.
    destruct (la_then (la_slice (dlayers d) None (Some (Z.of_nat i))) (la_of l1)) as [a1|] eqn:A1; [|discriminate].
    cbn [bind] in Hrun, HW.
    destruct (la_then a1 (la_of l0)) as [a2|] eqn:A2; [|discriminate]. cbn [bind] in Hrun, HW.
    destruct (la_then a2 _) as [a3|] eqn:A3; [|discriminate]. cbn [bind] in Hrun.
    inversion Hrun; subst d'. cbn [ddom dcod dboxes doffs].
    split; [apply (HW a3 eq_refl)|]. repeat split; auto. }
  destruct (left && (off0 + len (bcod box0) <=? off1)) eqn:C1.
  { apply andb_true_iff in C1. destruct C1 as [_ C1]. apply Z.leb_le in C1.
    destruct (Fin _ _ _ _ True (CaseL C1) Logic.I H) as (F1 & F2 & F3 & F4 & F5 & _).
    split; [exact F1|]. split; [exact F2|]. split; [exact F3|].
    exists box0, box1, off0, off1, off0, (off1 - len (bcod box0) + len (bdom box0)).
    split; [exact B0|]. split; [exact B1|]. split; [reflexivity|]. split; [reflexivity|].
    split; [exact F4|]. split; [exact F5|]. left. auto. }
  destruct (off1 + len (bdom box1) <=? off0) eqn:C2.
  { apply Z.leb_le in C2.
    destruct (Fin _ _ _ _ True (CaseR C2) Logic.I H) as (F1 & F2 & F3 & F4 & F5 & _).
    split; [exact F1|]. split; [exact F2|]. split; [exact F3|].
    exists box0, box1, off0, off1, (off0 - len (bdom box1) + len (bcod box1)), off1.
    split; [exact B0|]. split; [exact B1|]. split; [reflexivity|]. split; [reflexivity|].
    split; [exact F4|]. split; [exact F5|]. right. auto. }
  destruct (off0 + len (bcod box0) <=? off1) eqn:C3; [|discriminate].
  { apply Z.leb_le in C3.
    destruct (Fin _ _ _ _ True (CaseL C3) Logic.I H) as (F1 & F2 & F3 & F4 & F5 & _).
    split; [exact F1|]. split; [exact F2|]. split; [exact F3|].
    exists box0, box1, off0, off1, off0, (off1 - len (bcod box0) + len (bdom box0)).
    split; [exact B0|]. split; [exact B1|]. split; [reflexivity|]. split; [reflexivity|].
    split; [exact F4|]. split; [exact F5|]. left. auto. }
Qed.

Lemma bind3 {A B C E} (X : res A) (f : A -> res B) (g : B -> res C) (k : C -> res E) c :
  (do a <- X; do b <- f a; g b) = Ok c ->
  (do a <- X; do b <- f a; do c' <- g b; k c') = k c.
Proof.
  destruct X as [a|]; cbn; [|discriminate]. destruct (f a) as [b|]; cbn; [|discriminate].
  intros ->. reflexivity.
Qed.

Lemma to_nat_len {A} (l : list A) : Z.to_nat (len l) = length l.
Proof. unfold len. apply Nat2Z.id. Qed.

(* ---------------------------------------------------------------- refusal *)
(* the two boxes at depth i, i+1 share no wire iff one is entirely to the side
   of the other's wires at the level where they meet *)
Definition disjoint_at (d : diagram) (i : nat) : Prop :=
  exists b0 b1 o0 o1,
    nth_error (dboxes d) i = Some b0 /\ nth_error (dboxes d) (S i) = Some b1 /\
    nth_error (doffs d) i = Some o0 /\ nth_error (doffs d) (S i) = Some o1 /\
    (o0 + len (bcod b0) <= o1 \/ o1 + len (bdom b1) <= o0).

Lemma wf_lengths d : wf d ->
  length (dboxes d) = length (la_ls (dlayers d)) /\ length (doffs d) = length (la_ls (dlayers d)).
Proof. intros (_ & _ & _ & W4 & W5). rewrite W4, W5, !map_length. auto. Qed.

Theorem interchange_adj_total d i left : wf d -> (S i < length (dboxes d))%nat ->
  match interchange_adj d i left with
  | Ok _ => disjoint_at d i
  | Err e => e = InterchangerError /\ ~ disjoint_at d i
  end.
Proof.
  intros Hwf Hi. pose proof Hwf as (W1 & W2 & W3 & W4 & W5).
  destruct (wf_lengths d Hwf) as [Lb Lo].
  destruct (nth_error (la_ls (dlayers d)) i) as [[[left0 box0] right0]|] eqn:E0.
  2: { apply nth_error_None in E0. lia. }
  destruct (nth_error (la_ls (dlayers d)) (S i)) as [[[left1 box1] right1]|] eqn:E1.
  2: { apply nth_error_None in E1. lia. }
  assert (O0 : nth_error (doffs d) i = Some (len left0)).
  { rewrite W5. now rewrite (nth_error_map_some _ _ _ _ E0). }
  assert (O1 : nth_error (doffs d) (S i) = Some (len left1)).
  { rewrite W5. now rewrite (nth_error_map_some _ _ _ _ E1). }
  assert (B0 : nth_error (dboxes d) i = Some box0).
  { rewrite W4. now rewrite (nth_error_map_some _ _ _ _ E0). }
  assert (B1 : nth_error (dboxes d) (S i) = Some box1).
  { rewrite W4. now rewrite (nth_error_map_some _ _ _ _ E1). }
  destruct (type_at_nth _ _ _ _ _ W3 E0) as [_ T0].
  destruct (type_at_nth _ _ _ _ _ W3 E1) as [T1 _].
  assert (Hmid : left0 ++ bcod box0 ++ right0 = left1 ++ bdom box1 ++ right1).
  { rewrite T0 in T1. exact T1. }
  assert (Dis : forall P : Prop, (len left0 + len (bcod box0) <= len left1 \/ len left1 + len (bdom box1) <= len left0) -> disjoint_at d i).
  { intros _ HD. exists box0, box1, (len left0), (len left1). auto 10. }
  assert (NDis : ~ (len left0 + len (bcod box0) <= len left1) -> ~ (len left1 + len (bdom box1) <= len left0) -> ~ disjoint_at d i).
  { intros N1 N2 (b0 & b1 & o0 & o1 & H0 & H1 & H2 & H3 & HD).
    rewrite B0 in H0. rewrite B1 in H1. rewrite O0 in H2. rewrite O1 in H3.
    inversion H0; inversion H1; inversion H2; inversion H3; subst. tauto. }
  assert (OkL : len left0 + len (bcod box0) <= len left1 ->
    exists a3,
    (do a1 <- la_then (la_slice (dlayers d) None (Some (Z.of_nat i)))
               (la_of (left0 ++ bdom box0 ++ py_slice left1 (Some (len (left0 ++ bcod box0))) None, box1, right1));
     do a2 <- la_then a1 (la_of (left0, box0, py_slice left1 (Some (len (left0 ++ bcod box0))) None ++ bcod box1 ++ right1));
     la_then a2 (la_slice (dlayers d) (Some (Z.of_nat i + 2)) None)) = Ok a3).
  { intros Hge.
    rewrite !py_slice_suffix by apply len_nonneg. rewrite !to_nat_len.
    destruct (app_overlap left1 (bdom box1) right1 left0 (bcod box0) right0 (eq_sym Hmid)) as [HA HB].
    { unfold len in *; lia. }
    set (mid := skipn (length (left0 ++ bcod box0)) left1) in *.
    destruct (splice_wf d i _ _
      (left0 ++ bdom box0 ++ mid, box1, right1) (left0, box0, mid ++ bcod box1 ++ right1)
      (len (left0 ++ bdom box0 ++ mid)) (len left0) Hwf E0 E1) as (a3' & Ha3' & Hw); try reflexivity.
    - unfold ldom, lleft, lbox, lright; cbn [fst snd]. rewrite HB, <- !app_assoc. reflexivity.
    - unfold ldom, lcod, lleft, lbox, lright; cbn [fst snd]. rewrite <- !app_assoc. reflexivity.
    - unfold lcod, lleft, lbox, lright; cbn [fst snd]. rewrite HA at 1. rewrite <- !app_assoc. reflexivity.
    - eauto. }
  assert (OkR : len left1 + len (bdom box1) <= len left0 ->
    exists a3,
    (do a1 <- la_then (la_slice (dlayers d) None (Some (Z.of_nat i)))
               (la_of (left1, box1, py_slice left0 (Some (len (left1 ++ bdom box1))) None ++ bdom box0 ++ right0));
     do a2 <- la_then a1 (la_of (left1 ++ bcod box1 ++ py_slice left0 (Some (len (left1 ++ bdom box1))) None, box0, right0));
     la_then a2 (la_slice (dlayers d) (Some (Z.of_nat i + 2)) None)) = Ok a3).
  { intros Hge.
    rewrite !py_slice_suffix by apply len_nonneg. rewrite !to_nat_len.
    destruct (app_overlap left0 (bcod box0) right0 left1 (bdom box1) right1 Hmid) as [HA HB].
    { unfold len in *; lia. }
    set (mid := skipn (length (left1 ++ bdom box1)) left0) in *.
    destruct (splice_wf d i _ _
      (left1, box1, mid ++ bdom box0 ++ right0) (left1 ++ bcod box1 ++ mid, box0, right0)
      (len left1) (len (left1 ++ bcod box1 ++ mid)) Hwf E0 E1) as (a3' & Ha3' & Hw); try reflexivity.
    - unfold ldom, lleft, lbox, lright; cbn [fst snd]. rewrite HA at 1. rewrite <- !app_assoc. reflexivity.
    - unfold ldom, lcod, lleft, lbox, lright; cbn [fst snd]. rewrite <- !app_assoc. reflexivity.
    - unfold lcod, lleft, lbox, lright; cbn [fst snd]. rewrite HB, <- !app_assoc. reflexivity.
    - eauto. }
  unfold interchange_adj. rewrite E0, E1, O0, O1. cbv zeta.
  destruct (left && (len left0 + len (bcod box0) <=? len left1)) eqn:C1.
  { apply andb_true_iff in C1. destruct C1 as [_ C1]. apply Z.leb_le in C1.
    destruct (OkL C1) as (a3 & Ha3).
    rewrite (bind3 _ _ _ _ _ Ha3). apply (Dis True). auto. }
  destruct (len left1 + len (bdom box1) <=? len left0) eqn:C2.
  { apply Z.leb_le in C2.
    destruct (OkR C2) as (a3 & Ha3).
    rewrite (bind3 _ _ _ _ _ Ha3). apply (Dis True). auto. }
  destruct (len left0 + len (bcod box0) <=? len left1) eqn:C3.
  { apply Z.leb_le in C3.
    destruct (OkL C3) as (a3 & Ha3).
    rewrite (bind3 _ _ _ _ _ Ha3). apply (Dis True). auto. }
  split; [reflexivity|]. apply Z.leb_gt in C2, C3. apply NDis; lia.
Qed.

(* ---------------------------------------------------------------- general interchange *)
Definition same_shape (d d' : diagram) : Prop :=
  ddom d' = ddom d /\ dcod d' = dcod d /\ length (dboxes d') = length (dboxes d).

Lemma same_shape_refl d : same_shape d d.
Proof. unfold same_shape; auto. Qed.
Lemma same_shape_trans a b c : same_shape a b -> same_shape b c -> same_shape a c.
Proof. unfold same_shape; intros (?&?&?) (?&?&?); repeat split; congruence. Qed.

Lemma interchange_adj_shape d i left d' : wf d -> interchange_adj d i left = Ok d' ->
  wf d' /\ same_shape d d'.
Proof.
  intros Hwf H. destruct (interchange_adj_spec d i left d' Hwf H)
    as (W & Hd & Hc & b0 & b1 & o0 & o1 & o0' & o1' & B0 & B1 & _ & _ & Hb & _).
  split; [auto|]. repeat split; auto.
  rewrite Hb. pose proof (nth_error_split3 _ _ _ _ B0 B1) as S3.
  rewrite S3 at 3. rewrite !app_length. reflexivity.
Qed.

Lemma interchange_up_wf n : forall d i left d', wf d -> interchange_up d i n left = Ok d' ->
  wf d' /\ same_shape d d'.
Proof.
  induction n as [|n IH]; cbn; intros d i left d' Hwf H.
  - inversion H; subst. split; [auto|apply same_shape_refl].
  - destruct (interchange_adj d i left) as [d1|] eqn:E; [|discriminate]. cbn in H.
    destruct (interchange_adj_shape _ _ _ _ Hwf E) as [W1 S1].
    destruct (IH _ _ _ _ W1 H) as [W2 S2]. split; [auto|eapply same_shape_trans; eauto].
Qed.

Lemma interchange_down_wf n : forall d i left d', wf d -> interchange_down d i n left = Ok d' ->
  wf d' /\ same_shape d d'.
Proof.
  induction n as [|n IH]; cbn; intros d i left d' Hwf H.
  - inversion H; subst. split; [auto|apply same_shape_refl].
  - destruct (interchange_adj d (i - 1) left) as [d1|] eqn:E; [|discriminate]. cbn in H.
    destruct (interchange_adj_shape _ _ _ _ Hwf E) as [W1 S1].
    destruct (IH _ _ _ _ W1 H) as [W2 S2]. split; [auto|eapply same_shape_trans; eauto].
Qed.

Theorem interchange_wf d i j left d' : wf d -> interchange d i j left = Ok d' ->
  wf d' /\ ddom d' = ddom d /\ dcod d' = dcod d.
Proof.
  intros Hwf. unfold interchange. destruct (negb _); [discriminate|].
  destruct (i =? j); [intros H; inversion H; subst; auto|].
  destruct (j <? i); intros H.
  - destruct (interchange_down_wf _ _ _ _ _ Hwf H) as [W (?&?&_)]. auto.
  - destruct (interchange_up_wf _ _ _ _ _ Hwf H) as [W (?&?&_)]. auto.
Qed.

(* out-of-range indices are refused with IndexError *)
Theorem interchange_out_of_range d i j left :
  ~ (0 <= i < len (dboxes d) /\ 0 <= j < len (dboxes d)) -> interchange d i j left = Err IndexError.
Proof.
  intros H. unfold interchange.
  destruct (negb _) eqn:E; [reflexivity|]. exfalso. apply H.
  apply negb_false_iff in E. rewrite !andb_true_iff in E.
  destruct E as [[[E1 E2] E3] E4]. apply Z.leb_le in E1, E3. apply Z.ltb_lt in E2, E4. lia.
Qed.

(* ---------------------------------------------------------------- normalize *)
Lemma normalize_pass_wf n : forall d i left acc moved d' acc' moved',
  wf d -> Forall wf acc -> Forall (same_shape d) acc ->
  normalize_pass d i n left acc moved = Ok (d', acc', moved') ->
  wf d' /\ same_shape d d' /\ Forall wf acc' /\ Forall (same_shape d) acc'.
Proof.
  induction n as [|n IH]; cbn [normalize_pass]; intros d i left acc moved d' acc' moved' Hwf Ha Hs H.
  - inversion H; subst. split; [auto|]. split; [apply same_shape_refl|]. auto.
  - destruct (can_move d i left).
    + destruct (interchange_adj d i left) as [d1|] eqn:E; [|discriminate]. cbn [bind] in H.
      destruct (interchange_adj_shape _ _ _ _ Hwf E) as [W1 S1].
      assert (S1' : same_shape d1 d) by (destruct S1 as (?&?&?); repeat split; congruence).
      destruct (IH d1 (S i) left (d1 :: acc) true d' acc' moved' W1) as (W2 & S2 & F1 & F2); auto.
      * constructor; [apply same_shape_refl|].
        eapply Forall_impl; [|exact Hs]. intros x Hx. eapply same_shape_trans; eauto.
      * split; [auto|]. split; [eapply same_shape_trans; eauto|]. split; [auto|].
        eapply Forall_impl; [|exact F2]. intros x Hx. eapply same_shape_trans; eauto.
    + apply (IH d (S i) left acc moved d' acc' moved'); auto.
Qed.

Lemma normalize_loop_wf fuel : forall d left acc tr,
  wf d -> Forall wf acc -> Forall (same_shape d) acc ->
  normalize_loop fuel d left acc = Ok tr ->
  Forall wf tr /\ Forall (same_shape d) tr.
Proof.
  induction fuel as [|fuel IH]; cbn [normalize_loop]; intros d left acc tr Hwf Ha Hs H; [discriminate|].
  destruct (normalize_pass d 0 (length (dboxes d) - 1) left acc false) as [[[d1 acc1] moved]|] eqn:E; [|discriminate].
  cbn [bind] in H.
  destruct (normalize_pass_wf _ _ _ _ _ _ _ _ _ Hwf Ha Hs E) as (W1 & S1 & F1 & F2).
  destruct moved.
  - assert (S1' : same_shape d1 d) by (destruct S1 as (?&?&?); repeat split; congruence).
    destruct (IH d1 left acc1 tr W1 F1) as [G1 G2]; auto.
    + eapply Forall_impl; [|exact F2]. intros x Hx. eapply same_shape_trans; eauto.
    + split; auto. eapply Forall_impl; [|exact G2]. intros x Hx. eapply same_shape_trans; eauto.
  - inversion H; subst. auto.
Qed.

(* every diagram yielded by d.normalize() is well-typed with d's domain and codomain *)
Theorem normalize_wf fuel d left tr : wf d -> normalize fuel d left = Ok tr ->
  Forall (fun x => wf x /\ ddom x = ddom d /\ dcod x = dcod d) tr.
Proof.
  intros Hwf. unfold normalize.
  destruct (normalize_loop fuel d left []) as [acc|] eqn:E; [|discriminate]. cbn [bind].
  intros H; inversion H; subst tr.
  destruct (normalize_loop_wf _ _ _ _ _ Hwf (Forall_nil _) (Forall_nil _) E) as [G1 G2].
  apply Forall_rev. rewrite Forall_forall in *. intros x Hx.
  destruct (G2 x Hx) as (?&?&_). auto.
Qed.

Lemma nf_loop_wf fuel : forall d left seen d', wf d -> nf_loop fuel d left seen = Ok d' ->
  wf d' /\ same_shape d d'.
Proof.
  induction fuel as [|fuel IH]; cbn [nf_loop]; intros d left seen d' Hwf H; [discriminate|].
  destruct (normalize_pass d 0 (length (dboxes d) - 1) left [] false) as [[[d1 ys] moved]|] eqn:E; [|discriminate].
  cbn [bind] in H.
  destruct (normalize_pass_wf _ _ _ _ _ _ _ _ _ Hwf (Forall_nil _) (Forall_nil _) E) as (W1 & S1 & _).
  destruct (first_repeat seen (rev ys)); [discriminate|].
  destruct moved.
  - destruct (IH _ _ _ _ W1 H) as [W2 S2]. split; [auto|eapply same_shape_trans; eauto].
  - inversion H; subst. auto.
Qed.

Theorem normal_form_wf fuel d left d' : wf d -> normal_form fuel d left = Ok d' ->
  wf d' /\ ddom d' = ddom d /\ dcod d' = dcod d.
Proof.
  intros Hwf H. destruct (nf_loop_wf _ _ _ _ _ Hwf H) as [W (?&?&_)]. auto.
Qed.

(* ---------------------------------------------------------------- the layers of an exchange *)
Lemma splice_val d i L0 L1 l1' l0' :
  wf d ->
  nth_error (la_ls (dlayers d)) i = Some L0 ->
  nth_error (la_ls (dlayers d)) (S i) = Some L1 ->
  ldom l1' = ldom L0 -> lcod l1' = ldom l0' -> lcod l0' = lcod L1 ->
  (do a1 <- la_then (la_slice (dlayers d) None (Some (Z.of_nat i))) (la_of l1');
   do a2 <- la_then a1 (la_of l0');
   la_then a2 (la_slice (dlayers d) (Some (Z.of_nat i + 2)) None)) =
  Ok (LA (la_dom (dlayers d)) (la_cod (dlayers d))
         (firstn i (la_ls (dlayers d)) ++ [l1'; l0'] ++ skipn (2 + i) (la_ls (dlayers d)))).
Proof.
  intros (W1 & W2 & W3 & W4 & W5) E0 E1 H1 H2 H3.
  assert (Hlen : (2 + i <= length (la_ls (dlayers d)))%nat).
  { assert (S i < length (la_ls (dlayers d)))%nat by (apply nth_error_Some; rewrite E1; discriminate). lia. }
  destruct (type_at_nth _ _ _ _ _ W3 E0) as [T0 _].
  destruct (type_at_nth _ _ _ _ _ W3 E1) as [_ T1].
  rewrite la_slice_prefix by (auto; lia).
  replace (Z.of_nat i + 2) with (Z.of_nat (2 + i)) by lia.
  rewrite la_slice_suffix by (auto; lia).
  rewrite la_then_eq by (cbn [la_cod la_dom la_of]; rewrite T0; auto). cbn [bind la_dom la_cod la_ls la_of].
  rewrite la_then_eq by (cbn [la_cod la_dom la_of]; auto). cbn [bind la_dom la_cod la_ls].
  change (2 + i)%nat with (S (S i)) in *.
  rewrite la_then_eq by (cbn [la_cod la_dom]; rewrite T1; auto).
  cbn [la_dom la_cod la_ls]. now rewrite <- !app_assoc.
Qed.

(* Full description of an adjacent exchange: which two layers it acts on, how their
   wires are related, and the two layers that replace them. *)
Theorem interchange_adj_inv d i left d' :
  wf d -> interchange_adj d i left = Ok d' ->
  exists left0 box0 right0 left1 box1 right1 mid,
    nth_error (la_ls (dlayers d)) i = Some (left0, box0, right0) /\
    nth_error (la_ls (dlayers d)) (S i) = Some (left1, box1, right1) /\
    ddom d' = ddom d /\
    ((left1 = left0 ++ bcod box0 ++ mid /\ right0 = mid ++ bdom box1 ++ right1 /\
      la_ls (dlayers d') = firstn i (la_ls (dlayers d)) ++
        [(left0 ++ bdom box0 ++ mid, box1, right1); (left0, box0, mid ++ bcod box1 ++ right1)] ++
        skipn (2 + i) (la_ls (dlayers d)))
     \/
     (left0 = left1 ++ bdom box1 ++ mid /\ right1 = mid ++ bcod box0 ++ right0 /\
      la_ls (dlayers d') = firstn i (la_ls (dlayers d)) ++
        [(left1, box1, mid ++ bdom box0 ++ right0); (left1 ++ bcod box1 ++ mid, box0, right0)] ++
        skipn (2 + i) (la_ls (dlayers d)))).
Proof.
  intros Hwf H. pose proof Hwf as (W1 & W2 & W3 & W4 & W5). unfold interchange_adj in H.
  destruct (nth_error (la_ls (dlayers d)) i) as [[[left0 box0] right0]|] eqn:E0; try discriminate.
  destruct (nth_error (la_ls (dlayers d)) (S i)) as [[[left1 box1] right1]|] eqn:E1; try discriminate.
  destruct (nth_error (doffs d) i) as [off0|] eqn:O0; try discriminate.
  destruct (nth_error (doffs d) (S i)) as [off1|] eqn:O1; try discriminate.
  assert (Hoff0 : off0 = len left0).
  { rewrite W5 in O0. rewrite (nth_error_map_some _ _ _ _ E0) in O0. inversion O0; reflexivity. }
  assert (Hoff1 : off1 = len left1).
  { rewrite W5 in O1. rewrite (nth_error_map_some _ _ _ _ E1) in O1. inversion O1; reflexivity. }
  destruct (type_at_nth _ _ _ _ _ W3 E0) as [_ T0].
  destruct (type_at_nth _ _ _ _ _ W3 E1) as [T1 _].
  assert (Hmid : left0 ++ bcod box0 ++ right0 = left1 ++ bdom box1 ++ right1).
  { rewrite T0 in T1. exact T1. }
  cbv zeta in H. rewrite !py_slice_suffix in H by apply len_nonneg. rewrite !to_nat_len in H.
  exists left0, box0, right0, left1, box1, right1.
  assert (CL : off0 + len (bcod box0) <= off1 ->
     left1 = left0 ++ bcod box0 ++ skipn (length (left0 ++ bcod box0)) left1 /\
     right0 = skipn (length (left0 ++ bcod box0)) left1 ++ bdom box1 ++ right1).
  { intros Hge. apply (app_overlap left1 (bdom box1) right1 left0 (bcod box0) right0 (eq_sym Hmid)).
    unfold len in *; lia. }
  assert (CR : off1 + len (bdom box1) <= off0 ->
     left0 = left1 ++ bdom box1 ++ skipn (length (left1 ++ bdom box1)) left0 /\
     right1 = skipn (length (left1 ++ bdom box1)) left0 ++ bcod box0 ++ right0).
  { intros Hge. apply (app_overlap left0 (bcod box0) right0 left1 (bdom box1) right1 Hmid).
    unfold len in *; lia. }
  assert (DoL : off0 + len (bcod box0) <= off1 -> forall o0' o1',
    (do a1 <- la_then (la_slice (dlayers d) None (Some (Z.of_nat i)))
               (la_of (left0 ++ bdom box0 ++ skipn (length (left0 ++ bcod box0)) left1, box1, right1));
     do a2 <- la_then a1 (la_of (left0, box0, skipn (length (left0 ++ bcod box0)) left1 ++ bcod box1 ++ right1));
     do a3 <- la_then a2 (la_slice (dlayers d) (Some (Z.of_nat i + 2)) None);
     Ok (D (ddom d) (dcod d) (firstn i (dboxes d) ++ [box1; box0] ++ skipn (2 + i) (dboxes d))
            (firstn i (doffs d) ++ [o1'; o0'] ++ skipn (2 + i) (doffs d)) a3)) = Ok d' ->
    ddom d' = ddom d /\
    la_ls (dlayers d') = firstn i (la_ls (dlayers d)) ++
        [(left0 ++ bdom box0 ++ skipn (length (left0 ++ bcod box0)) left1, box1, right1);
         (left0, box0, skipn (length (left0 ++ bcod box0)) left1 ++ bcod box1 ++ right1)] ++
        skipn (2 + i) (la_ls (dlayers d))).
  { intros Hge o0' o1' Hrun. destruct (CL Hge) as [HA HB].
    set (mid := skipn (length (left0 ++ bcod box0)) left1) in *.
    rewrite (bind3 _ _ _ _ _ (splice_val d i _ _ (left0 ++ bdom box0 ++ mid, box1, right1)
               (left0, box0, mid ++ bcod box1 ++ right1) Hwf E0 E1
               ltac:(unfold ldom, lleft, lbox, lright; cbn [fst snd]; rewrite HB, <- !app_assoc; reflexivity)
               ltac:(unfold ldom, lcod, lleft, lbox, lright; cbn [fst snd]; rewrite <- !app_assoc; reflexivity)
               ltac:(unfold lcod, lleft, lbox, lright; cbn [fst snd]; rewrite HA at 1; rewrite <- !app_assoc; reflexivity)))
      in Hrun.
    inversion Hrun; subst d'. cbn. auto. }
  assert (DoR : off1 + len (bdom box1) <= off0 -> forall o0' o1',
    (do a1 <- la_then (la_slice (dlayers d) None (Some (Z.of_nat i)))
               (la_of (left1, box1, skipn (length (left1 ++ bdom box1)) left0 ++ bdom box0 ++ right0));
     do a2 <- la_then a1 (la_of (left1 ++ bcod box1 ++ skipn (length (left1 ++ bdom box1)) left0, box0, right0));
     do a3 <- la_then a2 (la_slice (dlayers d) (Some (Z.of_nat i + 2)) None);
     Ok (D (ddom d) (dcod d) (firstn i (dboxes d) ++ [box1; box0] ++ skipn (2 + i) (dboxes d))
            (firstn i (doffs d) ++ [o1'; o0'] ++ skipn (2 + i) (doffs d)) a3)) = Ok d' ->
    ddom d' = ddom d /\
    la_ls (dlayers d') = firstn i (la_ls (dlayers d)) ++
        [(left1, box1, skipn (length (left1 ++ bdom box1)) left0 ++ bdom box0 ++ right0);
         (left1 ++ bcod box1 ++ skipn (length (left1 ++ bdom box1)) left0, box0, right0)] ++
        skipn (2 + i) (la_ls (dlayers d))).
  { intros Hge o0' o1' Hrun. destruct (CR Hge) as [HA HB].
    set (mid := skipn (length (left1 ++ bdom box1)) left0) in *.
    rewrite (bind3 _ _ _ _ _ (splice_val d i _ _ (left1, box1, mid ++ bdom box0 ++ right0)
               (left1 ++ bcod box1 ++ mid, box0, right0) Hwf E0 E1
               ltac:(unfold ldom, lleft, lbox, lright; cbn [fst snd]; rewrite HA at 1; rewrite <- !app_assoc; reflexivity)
               ltac:(unfold ldom, lcod, lleft, lbox, lright; cbn [fst snd]; rewrite <- !app_assoc; reflexivity)
               ltac:(unfold lcod, lleft, lbox, lright; cbn [fst snd]; rewrite HB, <- !app_assoc; reflexivity)))
      in Hrun.
    inversion Hrun; subst d'. cbn. auto. }
  destruct (left && (off0 + len (bcod box0) <=? off1)) eqn:C1.
  { apply andb_true_iff in C1. destruct C1 as [_ C1]. apply Z.leb_le in C1.
    exists (skipn (length (left0 ++ bcod box0)) left1).
    destruct (DoL C1 _ _ H) as [Hd Hl]. destruct (CL C1) as [HA HB].
    split; [reflexivity|]. split; [reflexivity|]. split; [exact Hd|]. left. auto. }
  destruct (off1 + len (bdom box1) <=? off0) eqn:C2.
  { apply Z.leb_le in C2.
    exists (skipn (length (left1 ++ bdom box1)) left0).
    destruct (DoR C2 _ _ H) as [Hd Hl]. destruct (CR C2) as [HA HB].
    split; [reflexivity|]. split; [reflexivity|]. split; [exact Hd|]. right. auto. }
  destruct (off0 + len (bcod box0) <=? off1) eqn:C3; [|discriminate].
  { apply Z.leb_le in C3.
    exists (skipn (length (left0 ++ bcod box0)) left1).
    destruct (DoL C3 _ _ H) as [Hd Hl]. destruct (CL C3) as [HA HB].
    split; [reflexivity|]. split; [reflexivity|]. split; [exact Hd|]. left. auto. }
Qed.

(* ---------------------------------------------------------------- where the boxes go *)
(* exchanging positions i, i+1, n times while following the moving element upwards *)
Fixpoint bubble_up {A} (l : list A) (i n : nat) : list A :=
  match n with
  | O => l
  | S n' =>
      match nth_error l i, nth_error l (S i) with
      | Some x, Some y => bubble_up (firstn i l ++ [y; x] ++ skipn (2 + i) l) (S i) n'
      | _, _ => l
      end
  end.

Fixpoint bubble_down {A} (l : list A) (i n : nat) : list A :=
  match n with
  | O => l
  | S n' =>
      match nth_error l (i - 1), nth_error l (S (i - 1)) with
      | Some x, Some y => bubble_down (firstn (i - 1) l ++ [y; x] ++ skipn (2 + (i - 1)) l) (i - 1) n'
      | _, _ => l
      end
  end.

Lemma interchange_adj_boxes d i left d' : wf d -> interchange_adj d i left = Ok d' ->
  exists b0 b1, nth_error (dboxes d) i = Some b0 /\ nth_error (dboxes d) (S i) = Some b1 /\
    dboxes d' = firstn i (dboxes d) ++ [b1; b0] ++ skipn (2 + i) (dboxes d).
Proof.
  intros Hwf H. destruct (interchange_adj_spec d i left d' Hwf H)
    as (_ & _ & _ & b0 & b1 & o0 & o1 & o0' & o1' & B0 & B1 & _ & _ & Hb & _). eauto.
Qed.

Lemma interchange_up_boxes n : forall d i left d', wf d -> interchange_up d i n left = Ok d' ->
  dboxes d' = bubble_up (dboxes d) i n.
Proof.
  induction n as [|n IH]; cbn [interchange_up bubble_up]; intros d i left d' Hwf H.
  - inversion H; reflexivity.
  - destruct (interchange_adj d i left) as [d1|] eqn:E; [|discriminate]. cbn [bind] in H.
    destruct (interchange_adj_boxes _ _ _ _ Hwf E) as (b0 & b1 & B0 & B1 & Hb).
    destruct (interchange_adj_shape _ _ _ _ Hwf E) as [W1 _].
    rewrite B0, B1, <- Hb. eapply IH; eauto.
Qed.

Lemma interchange_down_boxes n : forall d i left d', wf d -> interchange_down d i n left = Ok d' ->
  dboxes d' = bubble_down (dboxes d) i n.
Proof.
  induction n as [|n IH]; cbn [interchange_down bubble_down]; intros d i left d' Hwf H.
  - inversion H; reflexivity.
  - destruct (interchange_adj d (i - 1) left) as [d1|] eqn:E; [|discriminate]. cbn [bind] in H.
    destruct (interchange_adj_boxes _ _ _ _ Hwf E) as (b0 & b1 & B0 & B1 & Hb).
    destruct (interchange_adj_shape _ _ _ _ Hwf E) as [W1 _].
    rewrite B0, B1, <- Hb. eapply IH; eauto.
Qed.

Lemma skipn_skipn' {A} (a b : nat) (l : list A) : skipn a (skipn b l) = skipn (b + a) l.
Proof.
  revert l. induction b as [|b IH]; intros l; cbn [skipn Nat.add]; [reflexivity|].
  destruct l as [|x l]; [now rewrite skipn_nil|]. apply IH.
Qed.

(* closed form: the element at i ends n places later, the n elements it passed
   move one place earlier, everything else stays *)
Lemma bubble_up_closed {A} n : forall (l : list A) i x, nth_error l i = Some x -> (i + n < length l)%nat ->
  bubble_up l i n = firstn i l ++ firstn n (skipn (S i) l) ++ [x] ++ skipn (S i + n) l.
Proof.
  induction n as [|n IH]; intros l i x Hx Hlen; cbn [bubble_up].
  - cbn [firstn app]. rewrite Nat.add_0_r.
    rewrite <- (firstn_skipn i l) at 1. f_equal.
    clear Hlen. revert i Hx. induction l as [|a l IHl]; intros [|i] Hx; cbn in *; try discriminate.
    + inversion Hx; reflexivity.
    + apply IHl; auto.
  - destruct (nth_error l (S i)) as [y|] eqn:Hy.
    2: { apply nth_error_None in Hy. lia. }
    rewrite Hx.
    pose proof (nth_error_split3 _ _ _ _ Hx Hy) as SL.
    set (l' := firstn i l ++ [y; x] ++ skipn (2 + i) l).
    assert (Hl' : length l' = length l).
    { unfold l'. rewrite SL at 3. rewrite !app_length. reflexivity. }
    assert (Hi : length (firstn i l) = i) by (rewrite firstn_length; lia).
    assert (Hx' : nth_error l' (S i) = Some x).
    { unfold l'. rewrite nth_error_app2 by lia. rewrite Hi. replace (S i - i)%nat with 1%nat by lia. reflexivity. }
    rewrite (IH l' (S i) x Hx') by lia.
    assert (F1 : firstn (S i) l' = firstn i l ++ [y]).
    { unfold l'. rewrite firstn_app, Hi. replace (S i - i)%nat with 1%nat by lia.
      rewrite firstn_all2 by lia. reflexivity. }
    assert (S1 : forall k, skipn (S (S i) + k) l' = skipn (S (S i) + k) l).
    { intros k. unfold l'. rewrite skipn_app, Hi. rewrite skipn_all2 by lia. cbn [app].
      replace (S (S i) + k - i)%nat with (2 + k)%nat by lia. change (2 + k)%nat with (S (S k)). cbn [skipn].
      rewrite skipn_skipn'. try (f_equal; lia). }
    rewrite F1. replace (S (S i)) with (S (S i) + 0)%nat at 1 by lia. rewrite (S1 0%nat).
    replace (S (S i) + 0)%nat with (2 + i)%nat by lia.
    replace (S (S i) + n)%nat with (S (S i) + n)%nat by lia. rewrite (S1 n).
    replace (S i + S n)%nat with (S (S i) + n)%nat by lia.
    rewrite <- !app_assoc. f_equal. cbn [app].
    (* firstn (S n) (skipn (S i) l) = y :: firstn n (skipn (2 + i) l) *)
    assert (Hsk : skipn (S i) l = y :: skipn (2 + i) l).
    { rewrite SL at 1. rewrite skipn_app, Hi. rewrite skipn_all2 by lia. cbn [app].
      replace (S i - i)%nat with 1%nat by lia. reflexivity. }
    rewrite Hsk. cbn [firstn app]. reflexivity.
Qed.

Theorem interchange_up_moves_box d i n left d' x : wf d -> interchange_up d i n left = Ok d' ->
  nth_error (dboxes d) i = Some x -> (i + n < length (dboxes d))%nat ->
  dboxes d' = firstn i (dboxes d) ++ firstn n (skipn (S i) (dboxes d)) ++ [x] ++ skipn (S i + n) (dboxes d).
Proof.
  intros Hwf H Hx Hlen. rewrite (interchange_up_boxes _ _ _ _ _ Hwf H). now apply bubble_up_closed.
Qed.

(* ---------------------------------------------------------------- refusal on the way *)
(* a move is refused exactly when, at some step, the moving box and the next box
   on its way share a wire at the level where they meet *)
Theorem interchange_up_error n : forall d i left e, wf d -> (i + n < length (dboxes d))%nat ->
  interchange_up d i n left = Err e ->
  e = InterchangerError /\
  exists k dk, (k < n)%nat /\ interchange_up d i k left = Ok dk /\ ~ disjoint_at dk (i + k).
Proof.
  induction n as [|n IH]; cbn [interchange_up]; intros d i left e Hwf Hlen H; [discriminate|].
  pose proof (interchange_adj_total d i left Hwf ltac:(lia)) as T.
  destruct (interchange_adj d i left) as [d1|e1] eqn:E; cbn [bind] in H.
  - destruct (interchange_adj_shape _ _ _ _ Hwf E) as [W1 (_ & _ & L1)].
    destruct (IH d1 (S i) left e W1 ltac:(lia) H) as (He & k & dk & Hk & Hrun & Hnd).
    split; [exact He|]. exists (S k), dk. split; [lia|]. split.
    + cbn [interchange_up]. rewrite E. exact Hrun.
    + replace (i + S k)%nat with (S i + k)%nat by lia. exact Hnd.
  - inversion H; subst e1. destruct T as [-> Hnd]. split; [reflexivity|].
    exists 0%nat, d. split; [lia|]. split; [reflexivity|]. now rewrite Nat.add_0_r.
Qed.

Theorem interchange_up_ok_disjoint n : forall d i left d', wf d ->
  interchange_up d i n left = Ok d' ->
  forall k, (k < n)%nat -> exists dk, interchange_up d i k left = Ok dk /\ disjoint_at dk (i + k).
Proof.
  induction n as [|n IH]; cbn [interchange_up]; intros d i left d' Hwf H k Hk; [lia|].
  destruct (interchange_adj d i left) as [d1|] eqn:E; [|discriminate]. cbn [bind] in H.
  destruct (interchange_adj_shape _ _ _ _ Hwf E) as [W1 (_ & _ & L1)].
  destruct k as [|k].
  - exists d. split; [reflexivity|]. rewrite Nat.add_0_r.
    assert (Hi : (S i < length (dboxes d))%nat).
    { destruct (interchange_adj_boxes _ _ _ _ Hwf E) as (b0 & b1 & _ & B1 & _).
      apply nth_error_Some. rewrite B1. discriminate. }
    pose proof (interchange_adj_total d i left Hwf Hi) as T. rewrite E in T. exact T.
  - destruct (IH d1 (S i) left d' W1 H k ltac:(lia)) as (dk & Hrun & Hd).
    exists dk. split.
    + cbn [interchange_up]. rewrite E. exact Hrun.
    + replace (i + S k)%nat with (S i + k)%nat by lia. exact Hd.
Qed.
