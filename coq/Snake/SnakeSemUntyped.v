(* The first formulation of C07's semantic soundness, SnakeLemmas.snake_removal_sound_stmt
   (an untyped carrier with a typing relation `rm_ok`, laws `rigid_laws`), PROVED
   as stated.  The loops of snake removal are handled once and for all by
   SnakeSem.Generic (any denotation invariant under an adjacent interchange and
   under the deletion of an adjacent connected matching cap / cup pair); this file
   shows the two invariances from `rigid_laws`: the exchange of two boxes that share
   no wire (category + strict monoidal laws + the interchange law) and the two
   snake equations whiskered by identities.  New file. *)
From Coq Require Import List ZArith Bool Lia.
Import ListNotations.
Require Import DV.Common.Base DV.Common.ListLemmas DV.Core.Diagram DV.Core.WF DV.Core.DiagramLemmas
  DV.Core.Rewriting DV.Core.RewritingLemmas DV.Core.Rigid DV.Core.Prog
  DV.Snake.Snake DV.Snake.SnakeLemmas DV.Snake.SnakeWire DV.Snake.SnakeSem.
Open Scope Z_scope.

Section Untyped.
  Variable R : rigid_model.
  Hypothesis HL : rigid_laws R.

  Notation ok := (rm_ok R).
  Notation rid := (rm_id R).
  Notation rcomp := (rm_comp R).
  Notation rtens := (rm_tens R).
  Notation rbox := (rm_box R).
  Notation IL := (SnakeLemmas.interp_layer R).

  (* ---------------------------------------------------------------- the laws, one by one *)
  Lemma l_id t : ok t t (rid t).
  Proof. destruct HL as (H & _). apply H. Qed.
  Lemma l_comp a b c f g : ok a b f -> ok b c g -> ok a c (rcomp f g).
  Proof. destruct HL as (_ & H & _). apply H. Qed.
  Lemma l_tens a b c e f g : ok a b f -> ok c e g -> ok (a ++ c) (b ++ e) (rtens f g).
  Proof. destruct HL as (_ & _ & H & _). apply H. Qed.
  Lemma l_idl a b f : ok a b f -> rcomp (rid a) f = f.
  Proof. destruct HL as (_ & _ & _ & H & _). intros Hf. apply (H a b f Hf). Qed.
  Lemma l_idr a b f : ok a b f -> rcomp f (rid b) = f.
  Proof. destruct HL as (_ & _ & _ & H & _). intros Hf. apply (H a b f Hf). Qed.
  Lemma l_assoc a b c e f g h : ok a b f -> ok b c g -> ok c e h ->
    rcomp (rcomp f g) h = rcomp f (rcomp g h).
  Proof. destruct HL as (_ & _ & _ & _ & H & _). apply H. Qed.
  Lemma l_tassoc f g h : rtens (rtens f g) h = rtens f (rtens g h).
  Proof. destruct HL as (_ & _ & _ & _ & _ & H & _). apply H. Qed.
  Lemma l_tunit_l f : rtens (rid []) f = f.
  Proof. destruct HL as (_ & _ & _ & _ & _ & _ & H & _). apply H. Qed.
  Lemma l_tunit_r f : rtens f (rid []) = f.
  Proof. destruct HL as (_ & _ & _ & _ & _ & _ & H & _). apply H. Qed.
  Lemma l_tid a b : rtens (rid a) (rid b) = rid (a ++ b).
  Proof. destruct HL as (_ & _ & _ & _ & _ & _ & _ & H & _). apply H. Qed.
  Lemma l_ich a b c a' b' c' f g f' g' : ok a b f -> ok b c g -> ok a' b' f' -> ok b' c' g' ->
    rtens (rcomp f g) (rcomp f' g') = rcomp (rtens f f') (rtens g g').
  Proof. destruct HL as (_ & _ & _ & _ & _ & _ & _ & _ & H & _). apply H. Qed.
  Lemma l_box b : ok (bdom b) (bcod b) (rbox b).
  Proof. destruct HL as (_ & _ & _ & _ & _ & _ & _ & _ & _ & H & _). apply H. Qed.
  Lemma l_snake cap cup a b : bk cap = KCap -> bk cup = KCup ->
    bdom cap = [] -> bcod cap = [a; b] -> bdom cup = [b; a] -> bcod cup = [] ->
    rcomp (rtens (rid [b]) (rbox cap)) (rtens (rbox cup) (rid [b])) = rid [b] /\
    rcomp (rtens (rbox cap) (rid [a])) (rtens (rid [a]) (rbox cup)) = rid [a].
  Proof. destruct HL as (_ & _ & _ & _ & _ & _ & _ & _ & _ & _ & H). apply H. Qed.

  (* ---------------------------------------------------------------- n-ary tensors with their types *)
  Definition tm := (ty * ty * rm_M R)%type.
  Definition idT (t : ty) : tm := (t, t, rid t).

  Fixpoint tlv (fs : list tm) : rm_M R :=
    match fs with [] => rid [] | t :: fs' => rtens (snd t) (tlv fs') end.
  Fixpoint tld (fs : list tm) : ty :=
    match fs with [] => [] | t :: fs' => fst (fst t) ++ tld fs' end.
  Fixpoint tlc (fs : list tm) : ty :=
    match fs with [] => [] | t :: fs' => snd (fst t) ++ tlc fs' end.

  Definition okT (t : tm) : Prop := ok (fst (fst t)) (snd (fst t)) (snd t).

  Lemma ok_tl fs : Forall okT fs -> ok (tld fs) (tlc fs) (tlv fs).
  Proof.
    induction 1 as [|t fs Ht _ IH]; cbn [tld tlc tlv]; [apply l_id|]. apply l_tens; [exact Ht|exact IH].
  Qed.

  Fixpoint comp2 (fs gs : list tm) : list tm :=
    match fs, gs with
    | t :: fs', u :: gs' => (fst (fst t), snd (fst u), rcomp (snd t) (snd u)) :: comp2 fs' gs'
    | _, _ => []
    end.

  Definition meets (t u : tm) : Prop := snd (fst t) = fst (fst u).

  Lemma meets_types fs gs : Forall2 meets fs gs -> tlc fs = tld gs.
  Proof. induction 1 as [|t u fs gs H _ IH]; cbn [tlc tld]; [reflexivity|]. unfold meets in H. now rewrite H, IH. Qed.

  (* the generalised interchange law *)
  Lemma tl_comp fs gs : Forall2 meets fs gs -> Forall okT fs -> Forall okT gs ->
    rcomp (tlv fs) (tlv gs) = tlv (comp2 fs gs).
  Proof.
    induction 1 as [|t u fs gs H Hrest IH]; intros Hf Hg; cbn [tlv comp2 snd].
    - apply (l_idl [] []). apply l_id.
    - inversion Hf as [|? ? Ht Hfs]; subst. inversion Hg as [|? ? Hu Hgs]; subst.
      rewrite <- (IH Hfs Hgs). symmetry.
      unfold okT in Ht, Hu. unfold meets in H.
      eapply l_ich; [exact Ht| |apply ok_tl; exact Hfs| ].
      + rewrite H. exact Hu.
      + rewrite (meets_types _ _ Hrest). apply ok_tl. exact Hgs.
  Qed.

  (* Id(left) @ f @ Id(right) *)
  Definition wh (l : ty) (f : rm_M R) (r : ty) : rm_M R := rtens (rtens (rid l) f) (rid r).

  Lemma IL_wh L : IL L = wh (lleft L) (rbox (lbox L)) (lright L).
  Proof. reflexivity. Qed.

  Lemma wh_split_r l f da ca a b c :
    wh l f (a ++ b ++ c) = tlv [idT l; (da, ca, f); idT a; idT b; idT c].
  Proof.
    unfold wh. cbn [tlv idT snd]. rewrite <- (l_tid a (b ++ c)), <- (l_tid b c).
    now rewrite !l_tassoc, l_tunit_r.
  Qed.

  Lemma wh_split_l a b c f da ca r :
    wh (a ++ b ++ c) f r = tlv [idT a; idT b; idT c; (da, ca, f); idT r].
  Proof.
    unfold wh. cbn [tlv idT snd]. rewrite <- (l_tid a (b ++ c)), <- (l_tid b c).
    now rewrite !l_tassoc, l_tunit_r.
  Qed.

  Lemma comp_id_id t : rcomp (rid t) (rid t) = rid t.
  Proof. apply (l_idl t t). apply l_id. Qed.

  Lemma okT_id t : okT (idT t).
  Proof. apply l_id. Qed.
  Lemma okT_box b : okT (bdom b, bcod b, rbox b).
  Proof. apply l_box. Qed.

  (* two boxes that share no wire commute *)
  Theorem exchange_u l0 b0 mid b1 r1 :
    rcomp (wh l0 (rbox b0) (mid ++ bdom b1 ++ r1)) (wh (l0 ++ bcod b0 ++ mid) (rbox b1) r1)
    = rcomp (wh (l0 ++ bdom b0 ++ mid) (rbox b1) r1) (wh l0 (rbox b0) (mid ++ bcod b1 ++ r1)).
  Proof.
    rewrite (wh_split_r l0 (rbox b0) (bdom b0) (bcod b0) mid (bdom b1) r1).
    rewrite (wh_split_l l0 (bcod b0) mid (rbox b1) (bdom b1) (bcod b1) r1).
    rewrite (wh_split_l l0 (bdom b0) mid (rbox b1) (bdom b1) (bcod b1) r1).
    rewrite (wh_split_r l0 (rbox b0) (bdom b0) (bcod b0) mid (bcod b1) r1).
    rewrite !tl_comp.
    - cbn [comp2 tlv idT fst snd]. rewrite !comp_id_id.
      rewrite (l_idr _ _ _ (l_box b0)), (l_idl _ _ _ (l_box b1)), (l_idl _ _ _ (l_box b0)), (l_idr _ _ _ (l_box b1)).
      reflexivity.
    - repeat constructor.
    - repeat constructor; try apply okT_id; apply okT_box.
    - repeat constructor; try apply okT_id; apply okT_box.
    - repeat constructor.
    - repeat constructor; try apply okT_id; apply okT_box.
    - repeat constructor; try apply okT_id; apply okT_box.
  Qed.

  (* ---------------------------------------------------------------- typing along a chain *)
  Lemma ok_wh l f r a b : ok a b f -> ok (l ++ a ++ r) (l ++ b ++ r) (wh l f r).
  Proof.
    intros H. unfold wh. rewrite !app_assoc. apply l_tens; [|apply l_id]. apply l_tens; [apply l_id|exact H].
  Qed.

  Lemma ok_layer L : ok (ldom L) (lcod L) (IL L).
  Proof. rewrite IL_wh. unfold ldom, lcod. apply ok_wh. apply l_box. Qed.

  Definition run (acc : rm_M R) (ls : list layer) : rm_M R :=
    fold_left (fun acc l => rcomp acc (IL l)) ls acc.

  Lemma run_app acc l1 l2 : run acc (l1 ++ l2) = run (run acc l1) l2.
  Proof. unfold run. apply fold_left_app. Qed.

  Lemma ok_run ls : forall acc t a b, chain a ls b -> ok t a acc -> ok t b (run acc ls).
  Proof.
    induction ls as [|l ls IH]; intros acc t a b Hc Hacc; cbn in *.
    - now subst.
    - destruct Hc as [-> Hc]. eapply IH; [exact Hc|]. eapply l_comp; [exact Hacc|apply ok_layer].
  Qed.

  Lemma interp_run d : SnakeLemmas.interp R d = run (rid (ddom d)) (la_ls (dlayers d)).
  Proof. reflexivity. Qed.

  (* replacing two consecutive layers by two others with the same composite *)
  Lemma splice_u acc pre post L0 L1 L0' L1' t a m :
    chain a pre m -> ok t a acc ->
    m = ldom L0 -> lcod L0 = ldom L1 -> m = ldom L1' -> lcod L1' = ldom L0' ->
    rcomp (IL L0) (IL L1) = rcomp (IL L1') (IL L0') ->
    run acc (pre ++ [L0; L1] ++ post) = run acc (pre ++ [L1'; L0'] ++ post).
  Proof.
    intros Hc Hacc H0 H01 H1' H10' Heq.
    rewrite !run_app. f_equal. unfold run at 1 3. cbn [fold_left].
    set (X := run acc pre).
    assert (HX : ok t m X) by (eapply ok_run; eauto).
    rewrite (l_assoc t m (lcod L0) (lcod L1) X (IL L0) (IL L1)).
    - rewrite (l_assoc t m (lcod L1') (lcod L0') X (IL L1') (IL L0')).
      + now rewrite Heq.
      + exact HX.
      + rewrite H1'. apply ok_layer.
      + rewrite H10'. apply ok_layer.
    - exact HX.
    - rewrite H0. apply ok_layer.
    - rewrite H01. apply ok_layer.
  Qed.

  (* an adjacent interchange keeps the denotation *)
  Theorem den_adj_u d i left d' : wf d -> interchange_adj d i left = Ok d' ->
    SnakeLemmas.interp R d' = SnakeLemmas.interp R d.
  Proof.
    intros Hwf H. pose proof Hwf as (W1 & W2 & W3 & W4 & W5).
    destruct (interchange_adj_inv d i left d' Hwf H)
      as (left0 & box0 & right0 & left1 & box1 & right1 & mid & E0 & E1 & Hd & Hcase).
    pose proof (nth_error_split3 _ _ _ _ E0 E1) as SL.
    assert (Hlen : (i <= length (la_ls (dlayers d)))%nat).
    { assert (i < length (la_ls (dlayers d)))%nat by (apply nth_error_Some; rewrite E0; discriminate). lia. }
    pose proof (chain_firstn _ _ _ i W3 Hlen) as Hpre.
    destruct (type_at_nth _ _ _ _ _ W3 E0) as [T0a T0].
    destruct (type_at_nth _ _ _ _ _ W3 E1) as [T1 _].
    assert (H01 : lcod (left0, box0, right0) = ldom (left1, box1, right1)) by (rewrite <- T0, T1; reflexivity).
    rewrite !interp_run. rewrite Hd. rewrite SL at 1.
    assert (Hacc : ok (ddom d) (la_dom (dlayers d)) (rid (ddom d))) by (rewrite W1; apply l_id).
    destruct Hcase as [(HA & HB & Hls) | (HA & HB & Hls)]; rewrite Hls; symmetry.
    - eapply splice_u; [exact Hpre|exact Hacc|exact T0a|exact H01| | | ].
      + rewrite T0a. unfold ldom, lleft, lbox, lright; cbn [fst snd]. rewrite HB, <- !app_assoc. reflexivity.
      + unfold ldom, lcod, lleft, lbox, lright; cbn [fst snd]. rewrite <- !app_assoc. reflexivity.
      + rewrite !IL_wh. unfold lleft, lbox, lright; cbn [fst snd]. rewrite HA, HB. apply exchange_u.
    - eapply splice_u; [exact Hpre|exact Hacc|exact T0a|exact H01| | | ].
      + rewrite T0a. unfold ldom, lleft, lbox, lright; cbn [fst snd]. rewrite HA, <- !app_assoc. reflexivity.
      + unfold ldom, lcod, lleft, lbox, lright; cbn [fst snd]. rewrite <- !app_assoc. reflexivity.
      + rewrite !IL_wh. unfold lleft, lbox, lright; cbn [fst snd]. rewrite HA, HB. symmetry. apply exchange_u.
  Qed.

  (* ---------------------------------------------------------------- the snake equations, whiskered *)
  Lemma wh_mid_l l m f dm cm r : wh (l ++ m) f r = tlv [idT l; (dm, cm, rtens (rid m) f); idT r].
  Proof. unfold wh. cbn [tlv idT snd]. rewrite <- (l_tid l m). now rewrite !l_tassoc, l_tunit_r. Qed.

  Lemma wh_mid_r l f m dm cm r : wh l f (m ++ r) = tlv [idT l; (dm, cm, rtens f (rid m)); idT r].
  Proof. unfold wh. cbn [tlv idT snd]. rewrite <- (l_tid m r). now rewrite !l_tassoc, l_tunit_r. Qed.

  Lemma tl3_id l m r : tlv [idT l; idT m; idT r] = rid (l ++ m ++ r).
  Proof. cbn [tlv idT snd]. now rewrite l_tunit_r, !l_tid. Qed.

  Lemma snake_wh_left l r cap cup a b :
    bk cap = KCap -> bk cup = KCup ->
    bdom cap = [] -> bcod cap = [a; b] -> bdom cup = [b; a] -> bcod cup = [] ->
    rcomp (wh (l ++ [b]) (rbox cap) r) (wh l (rbox cup) (b :: r)) = rid (l ++ [b] ++ r).
  Proof.
    intros K1 K2 D1 C1 D2 C2. destruct (l_snake cap cup a b K1 K2 D1 C1 D2 C2) as [E _].
    pose proof (l_box cap) as Hcap. rewrite D1, C1 in Hcap.
    pose proof (l_box cup) as Hcup. rewrite D2, C2 in Hcup.
    change (b :: r) with ([b] ++ r).
    rewrite (wh_mid_l l [b] (rbox cap) [b] [b; a; b] r), (wh_mid_r l (rbox cup) [b] [b; a; b] [b] r).
    rewrite tl_comp.
    - cbn [comp2 idT fst snd]. rewrite !comp_id_id, E. apply tl3_id.
    - repeat constructor.
    - repeat constructor; try apply okT_id. exact (l_tens [b] [b] [] [a; b] _ _ (l_id [b]) Hcap).
    - repeat constructor; try apply okT_id. exact (l_tens [b; a] [] [b] [b] _ _ Hcup (l_id [b])).
  Qed.

  Lemma snake_wh_right l r cap cup a b :
    bk cap = KCap -> bk cup = KCup ->
    bdom cap = [] -> bcod cap = [a; b] -> bdom cup = [b; a] -> bcod cup = [] ->
    rcomp (wh l (rbox cap) (a :: r)) (wh (l ++ [a]) (rbox cup) r) = rid (l ++ [a] ++ r).
  Proof.
    intros K1 K2 D1 C1 D2 C2. destruct (l_snake cap cup a b K1 K2 D1 C1 D2 C2) as [_ E].
    pose proof (l_box cap) as Hcap. rewrite D1, C1 in Hcap.
    pose proof (l_box cup) as Hcup. rewrite D2, C2 in Hcup.
    change (a :: r) with ([a] ++ r).
    rewrite (wh_mid_r l (rbox cap) [a] [a] [a; b; a] r), (wh_mid_l l [a] (rbox cup) [a; b; a] [a] r).
    rewrite tl_comp.
    - cbn [comp2 idT fst snd]. rewrite !comp_id_id, E. apply tl3_id.
    - repeat constructor.
    - repeat constructor; try apply okT_id. exact (l_tens [] [a; b] [a] [a] _ _ Hcap (l_id [a])).
    - repeat constructor; try apply okT_id. exact (l_tens [a] [a] [b; a] [] _ _ (l_id [a]) Hcup).
  Qed.

  (* deleting two consecutive layers that compose to an identity *)
  Lemma delete_layers_u d c Lc Lu d' : wf d ->
    nth_error (la_ls (dlayers d)) c = Some Lc -> nth_error (la_ls (dlayers d)) (S c) = Some Lu ->
    rcomp (IL Lc) (IL Lu) = rid (ldom Lc) ->
    ddom d' = ddom d ->
    la_ls (dlayers d') = firstn c (la_ls (dlayers d)) ++ skipn (2 + c) (la_ls (dlayers d)) ->
    SnakeLemmas.interp R d' = SnakeLemmas.interp R d.
  Proof.
    intros Hwf E0 E1 Heq Hd Hl. pose proof Hwf as (W1 & W2 & W3 & W4 & W5).
    assert (Hlen : (c <= length (la_ls (dlayers d)))%nat).
    { assert (c < length (la_ls (dlayers d)))%nat by (apply nth_error_Some; rewrite E0; discriminate). lia. }
    pose proof (chain_firstn _ _ _ c W3 Hlen) as Hpre.
    destruct (type_at_nth _ _ _ _ _ W3 E0) as [T0a T0].
    destruct (type_at_nth _ _ _ _ _ W3 E1) as [T1 _].
    rewrite !interp_run. rewrite Hd, Hl. rewrite (nth_error_split3 _ _ _ _ E0 E1) at 3.
    rewrite !run_app. f_equal. unfold run at 2. cbn [fold_left].
    set (X := run (rid (ddom d)) (firstn c (la_ls (dlayers d)))).
    assert (HX : ok (ddom d) (ldom Lc) X).
    { rewrite <- T0a. eapply ok_run; [exact Hpre|]. rewrite W1. apply l_id. }
    rewrite (l_assoc _ _ (lcod Lc) (lcod Lu) X (IL Lc) (IL Lu) HX (ok_layer Lc)).
    - rewrite Heq. symmetry. exact (l_idr _ _ _ HX).
    - assert (E : lcod Lc = ldom Lu) by congruence. rewrite E. apply ok_layer.
  Qed.

  Theorem den_del_u ls x y d c bcap oc bcup ou d' : wf d ->
    nth_error (dboxes d) c = Some bcap -> nth_error (doffs d) c = Some oc ->
    nth_error (dboxes d) (S c) = Some bcup -> nth_error (doffs d) (S c) = Some ou ->
    capP x y bcap -> cupP x y bcup -> True -> True ->
    oc + dl_cap ls = ou + dl_cup ls ->
    delete_pair d (Z.of_nat c) (Z.of_nat c + 1) = Ok d' ->
    SnakeLemmas.interp R d' = SnakeLemmas.interp R d.
  Proof.
    intros Hwf B O Bc Oc (K1 & D1 & C1) (K2 & D2 & C2) _ _ Hoff Hdel.
    pose proof Hwf as (W1 & W2 & W3 & W4 & W5).
    assert (Hn : (S c < length (dboxes d))%nat) by (apply nth_error_Some; rewrite Bc; discriminate).
    destruct (delete_pair_layers _ _ _ Hwf Hn Hdel) as [Hd Hl].
    destruct (nth_error_layer _ _ _ _ Hwf B O) as ([[l0 b0] r0] & NL & BL & OL).
    destruct (nth_error_layer _ _ _ _ Hwf Bc Oc) as ([[l1 b1] r1] & NU & BU & OU).
    unfold lbox, lleft in BL, OL, BU, OU; cbn [fst snd] in BL, OL, BU, OU. subst b0 b1.
    destruct (type_at_nth _ _ _ _ _ W3 NL) as [_ TB].
    destruct (type_at_nth _ _ _ _ _ W3 NU) as [TC _].
    assert (Hmid : l0 ++ [x; y] ++ r0 = l1 ++ [y; x] ++ r1).
    { rewrite TB in TC. unfold lcod, ldom, lleft, lbox, lright in TC; cbn [fst snd] in TC.
      rewrite C1, D2 in TC. exact TC. }
    apply (delete_layers_u d c _ _ d' Hwf NL NU); [|exact Hd|exact Hl].
    rewrite !IL_wh. unfold ldom, lleft, lbox, lright; cbn [fst snd]. rewrite D1. cbn [app].
    unfold dl_cap, dl_cup in Hoff. destruct ls.
    - destruct (snake_split_left _ _ _ _ _ _ _ _ Hmid) as (-> & _ & ->); [unfold len in *; lia|].
      rewrite (snake_wh_left l1 r0 bcap bcup x y K1 K2 D1 C1 D2 C2).
      now rewrite <- app_assoc.
    - destruct (snake_split_right _ _ _ _ _ _ _ _ Hmid) as (-> & _ & ->); [unfold len in *; lia|].
      rewrite (snake_wh_right l0 r1 bcap bcup x y K1 K2 D1 C1 D2 C2).
      reflexivity.
  Qed.
End Untyped.

(* ================================================================ the statement of SnakeLemmas, proved *)
Theorem snake_removal_sound_untyped : snake_removal_sound_stmt.
Proof.
  intros R HL d limit left tr st Hwf Hr H.
  exact (gen_rigid_trace_sound (rm_M R) (SnakeLemmas.interp R) (fun _ => True)
           (den_adj_u R HL) (den_del_u R HL) limit d left tr st Hwf (rigid_ok_in d Hr) H).
Qed.

(* the laws are met by a model that is not one-point: a morphism is the number of
   proper boxes it contains (cups and caps count 0), every morphism has every type *)
Definition ucount_model : rigid_model :=
  RM nat (fun _ _ _ => True) (fun _ => 0%nat) Nat.add Nat.add
     (fun b => match bk b with KCup | KCap => 0%nat | _ => 1%nat end).

Example ucount_laws : rigid_laws ucount_model.
Proof.
  unfold rigid_laws; cbn. repeat split; auto; intros; try lia.
  - match goal with H1 : bk cap = _, H2 : bk cup = _ |- _ => rewrite H1, H2 end. reflexivity.
  - match goal with H1 : bk cap = _, H2 : bk cup = _ |- _ => rewrite H1, H2 end. reflexivity.
Qed.

Example ucount_values :
  SnakeLemmas.interp ucount_model obstructed_d = 4%nat /\ SnakeLemmas.interp ucount_model plain_d = 0%nat.
Proof. split; vm_compute; reflexivity. Qed.
