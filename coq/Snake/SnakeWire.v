(* The planar invariant behind unsnake: "the followed leg of the cap runs
   straight into the opposite leg of the matching cup" is preserved by every
   adjacent interchange, wherever it happens, with the indices of the two boxes
   moving as the exchange dictates.  Together with the index bookkeeping of the
   four loops of unsnake (the obstruction lists are increasing, disjoint and lie
   strictly between cap and cup; the in-place update of right_obstruction keeps
   them so) this shows: when the loops of unsnake complete, the boxes at the
   indices handed to the final deletion ARE the cap and the cup, adjacent, with
   the cup's offset one to the left (left snake) / right (right snake) of the
   cap's.  No legality of the interchanges is claimed here (partial
   correctness).  New file; nothing in Snake.v / SnakeLemmas.v is changed. *)
From Coq Require Import List ZArith Bool Lia.
Import ListNotations.
Require Import DV.Common.Base DV.Common.ListLemmas DV.Core.Diagram DV.Core.WF DV.Core.DiagramLemmas
  DV.Core.Rewriting DV.Core.RewritingLemmas DV.Core.Rigid DV.Core.Prog DV.Snake.Snake DV.Snake.SnakeLemmas.
Open Scope Z_scope.

(* ================================================================ boxes with their offsets *)
Definition pr := (box * Z)%type.

Definition pairs (d : diagram) : list pr := combine (dboxes d) (doffs d).

(* follow_wire's two tests on one (box, offset) pair *)
Definition taken (p : pr) (j : Z) : bool := (snd p <=? j) && (j <? snd p + len (bdom (fst p))).
Definition shift (p : pr) (j : Z) : Z :=
  if snd p <=? j then j + (len (bcod (fst p)) - len (bdom (fst p))) else j.

(* what interchange_adj does to the two pairs: p0 p1 become q1 q0 *)
Definition adj_swap (p0 p1 q1 q0 : pr) : Prop :=
  fst q1 = fst p1 /\ fst q0 = fst p0 /\
  ((snd p0 + len (bcod (fst p0)) <= snd p1 /\ snd q0 = snd p0 /\
    snd q1 = snd p1 - len (bcod (fst p0)) + len (bdom (fst p0))) \/
   (snd p1 + len (bdom (fst p1)) <= snd p0 /\ snd q1 = snd p1 /\
    snd q0 = snd p0 - len (bdom (fst p1)) + len (bcod (fst p1)))).

Inductive step : nat -> list pr -> list pr -> Prop :=
| step_here p0 p1 q1 q0 rest : adj_swap p0 p1 q1 q0 -> step 0 (p0 :: p1 :: rest) (q1 :: q0 :: rest)
| step_skip i p ps ps' : step i ps ps' -> step (S i) (p :: ps) (p :: ps').

(* where an index goes when positions i, i+1 are exchanged *)
Definition tr (i t : nat) : nat :=
  if Nat.eqb t i then S i else if Nat.eqb t (S i) then i else t.

Ltac tr_solve :=
  unfold tr in *;
  repeat match goal with
  | |- context [Nat.eqb ?a ?b] => destruct (Nat.eqb_spec a b)
  | H : context [Nat.eqb ?a ?b] |- _ => destruct (Nat.eqb_spec a b)
  end; try lia.

Lemma tr_S i t : tr (S i) (S t) = S (tr i t).
Proof. tr_solve. Qed.
Lemma tr_S0 i : tr (S i) 0 = 0%nat.
Proof. tr_solve. Qed.

Ltac zbool :=
  repeat match goal with
  | H : context [?a <=? ?b] |- _ => destruct (Z.leb_spec a b)
  | H : context [?a <? ?b] |- _ => destruct (Z.ltb_spec a b)
  | |- context [?a <=? ?b] => destruct (Z.leb_spec a b)
  | |- context [?a <? ?b] => destruct (Z.ltb_spec a b)
  end; cbn [andb orb negb] in *; try discriminate; try lia.

(* ================================================================ arithmetic of one exchange *)
Section Arith.
  Definition tk (o d j : Z) : bool := (o <=? j) && (j <? o + d).
  Definition sh (o d c j : Z) : Z := if o <=? j then j + (c - d) else j.

  Definition sw (o0 d0 c0 o1 d1 c1 o0' o1' : Z) : Prop :=
    (o0 + c0 <= o1 /\ o0' = o0 /\ o1' = o1 - c0 + d0) \/
    (o1 + d1 <= o0 /\ o1' = o1 /\ o0' = o0 - d1 + c1).

  (* two passed boxes are exchanged: the wire passes both again and ends where it did *)
  Lemma pass2 o0 d0 c0 o1 d1 c1 o0' o1' j :
    0 <= d0 -> 0 <= c0 -> 0 <= d1 -> 0 <= c1 -> sw o0 d0 c0 o1 d1 c1 o0' o1' ->
    tk o0 d0 j = false -> tk o1 d1 (sh o0 d0 c0 j) = false ->
    tk o1' d1 j = false /\ tk o0' d0 (sh o1' d1 c1 j) = false /\
    sh o0' d0 c0 (sh o1' d1 c1 j) = sh o1 d1 c1 (sh o0 d0 c0 j).
  Proof.
    intros H1 H2 H3 H4 [(A & -> & ->)|(A & -> & ->)] T0 T1; unfold tk, sh in *.
    - repeat split; zbool.
    - repeat split; zbool.
  Qed.

  (* the cap (dom 0, cod 2) at o0 is exchanged with the first passed box *)
  Lemma cap_down o0 o1 d1 c1 o0' o1' (dl : Z) :
    0 <= d1 -> 0 <= c1 -> 0 <= dl <= 1 -> sw o0 0 2 o1 d1 c1 o0' o1' ->
    tk o1 d1 (o0 + dl) = false -> o0' + dl = sh o1 d1 c1 (o0 + dl).
  Proof.
    intros H1 H2 H3 [(A & -> & ->)|(A & -> & ->)] T; unfold tk, sh in *; zbool.
  Qed.

  (* the box above the cap is exchanged with the cap at o1 *)
  Lemma cap_up o0 d0 c0 o1 o0' o1' (dl : Z) :
    0 <= d0 -> 0 <= c0 -> 0 <= dl <= 1 -> sw o0 d0 c0 o1 0 2 o0' o1' ->
    tk o0' d0 (o1' + dl) = false /\ sh o0' d0 c0 (o1' + dl) = o1 + dl.
  Proof.
    intros H1 H2 H3 [(A & -> & ->)|(A & -> & ->)]; unfold tk, sh in *; split; zbool.
  Qed.

  (* the last passed box is exchanged with the cup (dom 2, cod 0) at o1 *)
  Lemma cup_up o0 d0 c0 o1 o0' o1' (dl j : Z) :
    0 <= d0 -> 0 <= c0 -> 0 <= dl <= 1 -> sw o0 d0 c0 o1 2 0 o0' o1' ->
    tk o0 d0 j = false -> sh o0 d0 c0 j = o1 + dl -> j = o1' + dl.
  Proof.
    intros H1 H2 H3 [(A & -> & ->)|(A & -> & ->)] T E; unfold tk, sh in *; zbool.
  Qed.

  (* the cup at o0 is exchanged with the box below it *)
  Lemma cup_down o0 o1 d1 c1 o0' o1' (dl : Z) :
    0 <= d1 -> 0 <= c1 -> 0 <= dl <= 1 -> sw o0 2 0 o1 d1 c1 o0' o1' ->
    tk o1' d1 (o0 + dl) = false /\ sh o1' d1 c1 (o0 + dl) = o0' + dl.
  Proof.
    intros H1 H2 H3 [(A & -> & ->)|(A & -> & ->)]; unfold tk, sh in *; split; zbool.
  Qed.

  (* the cap directly above its cup cannot be exchanged with it *)
  Lemma cap_cup_stuck o0 o1 o0' o1' (dl dl' : Z) :
    0 <= dl <= 1 -> 0 <= dl' <= 1 -> dl + dl' = 1 ->
    sw o0 0 2 o1 2 0 o0' o1' -> o0 + dl = o1 + dl' -> False.
  Proof. intros H1 H2 H3 [(A & -> & ->)|(A & -> & ->)] E; lia. Qed.
End Arith.

(* ================================================================ the invariant *)
Section Conn.
  Variable ls : bool.          (* left snake: the cap's left leg is followed *)
  Variables x y : ob.          (* the cap is [] -> [x; y], the cup [y; x] -> [] *)

  Definition capP (b : box) : Prop := bk b = KCap /\ bdom b = [] /\ bcod b = [x; y].
  Definition cupP (b : box) : Prop := bk b = KCup /\ bdom b = [y; x] /\ bcod b = [].

  Definition dl_cap : Z := if ls then 0 else 1.   (* which leg of the cap *)
  Definition dl_cup : Z := if ls then 1 else 0.   (* which leg of the cup *)

  Lemma dl_range : 0 <= dl_cap <= 1 /\ 0 <= dl_cup <= 1 /\ dl_cap + dl_cup = 1.
  Proof. unfold dl_cap, dl_cup. destruct ls; lia. Qed.

  (* the wire at position j passes the first k pairs of ps untouched and arrives
     in the right leg (left snake) / left leg (right snake) of the cup after them *)
  Fixpoint seg (ps : list pr) (k : nat) (j : Z) : Prop :=
    match ps with
    | [] => False
    | p :: ps' =>
        match k with
        | O => cupP (fst p) /\ j = snd p + dl_cup
        | S k' => taken p j = false /\ seg ps' k' (shift p j)
        end
    end.

  (* the cap is at index c, then k passed boxes, then the cup *)
  Fixpoint conn (ps : list pr) (c k : nat) : Prop :=
    match ps with
    | [] => False
    | p :: ps' =>
        match c with
        | O => capP (fst p) /\ seg ps' k (snd p + dl_cap)
        | S c' => conn ps' c' k
        end
    end.

  Lemma capP_len b : capP b -> len (bdom b) = 0 /\ len (bcod b) = 2.
  Proof. intros (_ & -> & ->). split; reflexivity. Qed.
  Lemma cupP_len b : cupP b -> len (bdom b) = 2 /\ len (bcod b) = 0.
  Proof. intros (_ & -> & ->). split; reflexivity. Qed.

  Lemma adj_swap_sw p0 p1 q1 q0 : adj_swap p0 p1 q1 q0 ->
    sw (snd p0) (len (bdom (fst p0))) (len (bcod (fst p0)))
       (snd p1) (len (bdom (fst p1))) (len (bcod (fst p1))) (snd q0) (snd q1).
  Proof. intros (_ & _ & H). exact H. Qed.

  Lemma taken_tk p j : taken p j = tk (snd p) (len (bdom (fst p))) j.
  Proof. reflexivity. Qed.
  Lemma shift_sh p j : shift p j = sh (snd p) (len (bdom (fst p))) (len (bcod (fst p))) j.
  Proof. reflexivity. Qed.

  (* an exchange strictly below the cap *)
  Lemma seg_step i ps ps' : step i ps ps' -> forall k j, seg ps k j -> seg ps' (tr i k) j.
  Proof.
    induction 1 as [p0 p1 q1 q0 rest Hsw|i p ps ps' Hst IH]; intros k j Hs.
    - pose proof (adj_swap_sw _ _ _ _ Hsw) as SW. destruct Hsw as (F1 & F0 & _).
      pose proof (len_nonneg (bdom (fst p0))) as N1. pose proof (len_nonneg (bcod (fst p0))) as N2.
      pose proof (len_nonneg (bdom (fst p1))) as N3. pose proof (len_nonneg (bcod (fst p1))) as N4.
      pose proof dl_range as (R1 & R2 & R3).
      destruct k as [|[|k]].
      + (* the cup is p0: it goes below p1 *)
        change (tr 0 0) with 1%nat. cbn [seg] in Hs |- *. destruct Hs as [Hc ->].
        destruct (cupP_len _ Hc) as [L1 L2]. rewrite L1, L2 in SW.
        destruct (cup_down _ _ _ _ _ _ dl_cup N3 N4 R2 SW) as [T E].
        rewrite taken_tk, shift_sh, F1, F0. auto.
      + (* p0 is the last passed box, p1 the cup: the cup goes above it *)
        change (tr 0 1) with 0%nat. cbn [seg] in Hs |- *. destruct Hs as (T & Hc & E).
        destruct (cupP_len _ Hc) as [L1 L2]. rewrite L1, L2 in SW.
        rewrite taken_tk in T. rewrite shift_sh in E. rewrite F1. split; [exact Hc|].
        exact (cup_up _ _ _ _ _ _ dl_cup j N1 N2 R2 SW T E).
      + (* both are passed boxes *)
        change (tr 0 (S (S k))) with (S (S k)). cbn [seg] in Hs |- *. destruct Hs as (T0 & T1 & Hs).
        rewrite !taken_tk, !shift_sh in *. rewrite F1, F0.
        destruct (pass2 _ _ _ _ _ _ _ _ j N1 N2 N3 N4 SW T0 T1) as (A & B & C).
        rewrite C. auto.
    - destruct k as [|k].
      + rewrite tr_S0. destruct ps; destruct ps'; cbn [seg] in *; try exact Hs; inversion Hst.
      + rewrite tr_S. cbn [seg] in Hs |- *. destruct Hs as [T Hs]. split; [exact T|]. apply IH; exact Hs.
  Qed.

  (* an exchange anywhere: the connection survives, cap and cup follow their boxes;
     the cap directly above the cup is never exchanged with it *)
  Lemma conn_step i ps ps' : step i ps ps' -> forall c k, conn ps c k ->
    exists c2 k2, conn ps' c2 k2 /\ c2 = tr i c /\ (c2 + 1 + k2 = tr i (c + 1 + k))%nat.
  Proof.
    induction 1 as [p0 p1 q1 q0 rest Hsw|i p ps ps' Hst IH]; intros c k Hc.
    - pose proof (adj_swap_sw _ _ _ _ Hsw) as SW. destruct Hsw as (F1 & F0 & _).
      pose proof (len_nonneg (bdom (fst p0))) as N1. pose proof (len_nonneg (bcod (fst p0))) as N2.
      pose proof (len_nonneg (bdom (fst p1))) as N3. pose proof (len_nonneg (bcod (fst p1))) as N4.
      pose proof dl_range as (R1 & R2 & R3).
      destruct c as [|[|c]].
      + (* the cap is p0 *)
        cbn [conn] in Hc. destruct Hc as [Hcap Hs].
        destruct (capP_len _ Hcap) as [L1 L2]. rewrite L1, L2 in SW.
        destruct k as [|k].
        * (* ... and p1 its cup: impossible *)
          exfalso. cbn [seg] in Hs. destruct Hs as [Hcup E].
          destruct (cupP_len _ Hcup) as [L3 L4]. rewrite L3, L4 in SW.
          exact (cap_cup_stuck _ _ _ _ dl_cap dl_cup R1 R2 R3 SW E).
        * cbn [seg] in Hs. destruct Hs as [T Hs]. rewrite taken_tk in T. rewrite shift_sh in Hs.
          exists 1%nat, k. split.
          -- cbn [conn]. rewrite F0. split; [exact Hcap|].
             rewrite (cap_down _ _ _ _ _ _ dl_cap N3 N4 R1 SW T). exact Hs.
          -- split; tr_solve.
      + (* the cap is p1: it goes above p0 *)
        cbn [conn] in Hc. destruct Hc as [Hcap Hs].
        destruct (capP_len _ Hcap) as [L1 L2]. rewrite L1, L2 in SW.
        destruct (cap_up _ _ _ _ _ _ dl_cap N1 N2 R1 SW) as [T E].
        exists 0%nat, (S k). split.
        * cbn [conn seg]. rewrite F1, taken_tk, shift_sh, F0, E. auto.
        * split; tr_solve.
      + exists (S (S c)), k. split; [exact Hc|]. split; tr_solve.
    - destruct c as [|c].
      + cbn [conn] in Hc. destruct Hc as [Hcap Hs].
        exists 0%nat, (tr i k). split; [cbn [conn]; split; [exact Hcap|apply (seg_step _ _ _ Hst); exact Hs]|].
        split; [tr_solve|]. change (0 + 1 + k)%nat with (S k). rewrite tr_S. lia.
      + cbn [conn] in Hc. destruct (IH _ _ Hc) as (c2 & k2 & H2 & E1 & E2).
        exists (S c2), k2. split; [exact H2|]. split.
        * rewrite tr_S. lia.
        * change (S c + 1 + k)%nat with (S (c + 1 + k)). rewrite tr_S. lia.
  Qed.

  (* ---------------------------------------------------------------- reading the invariant *)
  Lemma conn_intro ps : forall c k p, nth_error ps c = Some p -> capP (fst p) ->
    seg (skipn (S c) ps) k (snd p + dl_cap) -> conn ps c k.
  Proof.
    induction ps as [|q ps IH]; intros [|c] k p Hn Hcap Hs; cbn in Hn; try discriminate.
    - inversion Hn; subst q. cbn [conn]. auto.
    - cbn [conn]. eapply IH; eauto.
  Qed.

  Lemma conn_adjacent ps : forall c, conn ps c 0 ->
    exists pc pu, nth_error ps c = Some pc /\ nth_error ps (S c) = Some pu /\
      capP (fst pc) /\ cupP (fst pu) /\ snd pc + dl_cap = snd pu + dl_cup.
  Proof.
    induction ps as [|q ps IH]; intros [|c] H; cbn [conn] in H; try contradiction.
    - destruct H as [Hcap Hs]. destruct ps as [|pu ps]; cbn [seg] in Hs; [contradiction|].
      destruct Hs as [Hcup E]. exists q, pu. cbn. auto.
    - destruct (IH _ H) as (pc & pu & A & B & C). exists pc, pu. cbn [nth_error]. auto.
  Qed.

  (* follow_wire's own recursion establishes the segment *)
  Lemma fw_seg rest : forall i j c w lo ro, fw rest i j = (c, w, lo, ro) ->
    forall p, nth_error rest (c - i) = Some p -> cupP (fst p) -> w = snd p + dl_cup ->
    seg rest (c - i) j.
  Proof.
    induction rest as [|[b off] rest IH]; intros i j c w lo ro H p Hn Hcup Hw.
    - destruct (c - i)%nat; discriminate.
    - cbn [fw] in H. destruct ((off <=? j) && (j <? off + len (bdom b))) eqn:T.
      + inversion H; subst. rewrite Nat.sub_diag in *. cbn in Hn. inversion Hn; subst p.
        cbn [seg]. auto.
      + assert (Hrec : exists lo1 ro1,
                 fw rest (S i) (if off <=? j then j + (len (bcod b) - len (bdom b)) else j) = (c, w, lo1, ro1)).
        { destruct (off <=? j).
          - destruct (fw rest (S i) _) as [[[c1 w1] lo1] ro1] eqn:E. inversion H; subst. eauto.
          - destruct (fw rest (S i) _) as [[[c1 w1] lo1] ro1] eqn:E. inversion H; subst. eauto. }
        destruct Hrec as (lo1 & ro1 & E).
        pose proof (fw_count _ _ _ _ _ _ _ E) as [Hc _].
        replace (c - i)%nat with (S (c - S i)) in * by lia. cbn [nth_error] in Hn.
        cbn [seg]. split; [exact T|]. unfold shift; cbn [fst snd].
        eapply IH; eauto.
  Qed.
End Conn.

(* ================================================================ increasing index lists *)
(* lo < x1 < x2 < ... < xn < hi *)
Fixpoint inc_in (lo : Z) (l : list Z) (hi : Z) : Prop :=
  match l with
  | [] => True
  | x :: l' => lo < x < hi /\ inc_in x l' hi
  end.

(* hi > x1 > x2 > ... > xn > lo *)
Fixpoint dec_in (lo : Z) (l : list Z) (hi : Z) : Prop :=
  match l with
  | [] => True
  | x :: l' => lo < x < hi /\ dec_in lo l' x
  end.

Lemma inc_in_lo lo lo' l hi : inc_in lo l hi -> lo' <= lo -> inc_in lo' l hi.
Proof. destruct l as [|x l]; cbn; [auto|]. intros [H1 H2] H. split; [lia|auto]. Qed.

Lemma dec_in_hi lo l hi hi' : dec_in lo l hi -> hi <= hi' -> dec_in lo l hi'.
Proof. destruct l as [|x l]; cbn; [auto|]. intros [H1 H2] H. split; [lia|auto]. Qed.

Lemma inc_in_In l : forall lo hi x, inc_in lo l hi -> In x l -> lo < x < hi.
Proof.
  induction l as [|a l IH]; intros lo hi x H Hx; [contradiction|].
  destruct H as [H1 H2]. destruct Hx as [->|Hx]; [exact H1|].
  pose proof (IH _ _ _ H2 Hx). lia.
Qed.

Lemma dec_in_In l : forall lo hi x, dec_in lo l hi -> In x l -> lo < x < hi.
Proof.
  induction l as [|a l IH]; intros lo hi x H Hx; [contradiction|].
  destruct H as [H1 H2]. destruct Hx as [->|Hx]; [exact H1|].
  pose proof (IH _ _ _ H2 Hx). lia.
Qed.

Lemma dec_snoc m : forall lo x hi, dec_in x m hi -> lo < x < hi -> dec_in lo (m ++ [x]) hi.
Proof.
  induction m as [|a m IH]; intros lo x hi H Hx; cbn [app dec_in] in *; [auto|].
  destruct H as [H1 H2]. split; [lia|]. apply IH; [exact H2|lia].
Qed.

Lemma inc_rev l : forall lo hi, inc_in lo l hi -> dec_in lo (rev l) hi.
Proof.
  induction l as [|a l IH]; intros lo hi H; cbn [rev]; [exact Logic.I|].
  destruct H as [H1 H2]. apply dec_snoc; [apply IH; exact H2|exact H1].
Qed.

(* the in-place updates of right_obstruction by the first loop *)
Lemma upd_up_inc b hi ro : forall lo, inc_in lo ro hi -> ~ In b ro -> lo <> b -> b < hi ->
  inc_in (upd_up b lo) (map (upd_up b) ro) hi.
Proof.
  induction ro as [|r ro IH]; intros lo H Hn Hlo Hb; cbn [map inc_in]; [exact Logic.I|].
  destruct H as [H1 H2].
  assert (Hr : r <> b) by (intros ->; apply Hn; left; reflexivity).
  split.
  - unfold upd_up. zbool.
  - apply IH; auto. intros Hi. apply Hn. right. exact Hi.
Qed.

Lemma upd_down_inc b hi ro : forall lo, inc_in lo ro hi -> ~ In b ro -> lo <> b -> b < hi ->
  inc_in (upd_down b lo) (map (upd_down b) ro) (hi - 1).
Proof.
  induction ro as [|r ro IH]; intros lo H Hn Hlo Hb; cbn [map inc_in]; [exact Logic.I|].
  destruct H as [H1 H2].
  assert (Hr : r <> b) by (intros ->; apply Hn; left; reflexivity).
  split.
  - unfold upd_down. zbool.
  - apply IH; auto. intros Hi. apply Hn. right. exact Hi.
Qed.

Definition ro_after (upd : Z -> Z -> Z) (l ro : list Z) : list Z :=
  fold_left (fun r bx => map (upd bx) r) l ro.

(* left snake: after the left obstructions (increasing) went above the cap, the
   updated right obstructions are still increasing, now between cap + |lo| and cup *)
Lemma ro_after_up l : forall c ro u, inc_in c l u -> inc_in c ro u ->
  (forall z, In z l -> ~ In z ro) -> inc_in (c + len l) (ro_after upd_up l ro) u.
Proof.
  induction l as [|b l IH]; intros c ro u Hl Hro Hd; unfold ro_after; cbn [fold_left].
  - rewrite len_nil, Z.add_0_r. exact Hro.
  - destruct Hl as [Hb Hl]. rewrite len_cons.
    replace (c + (1 + len l)) with ((c + 1) + len l) by lia.
    apply IH.
    + apply (inc_in_lo b); [exact Hl|lia].
    + assert (E : c + 1 = upd_up b c) by (unfold upd_up; zbool). rewrite E.
      apply upd_up_inc; [exact Hro|apply Hd; left; reflexivity|lia|lia].
    + intros z Hz Hz'. apply in_map_iff in Hz'. destruct Hz' as (r & Er & Hr).
      pose proof (inc_in_In _ _ _ _ Hl Hz) as Hzb.
      assert (Hrb : r <> b) by (intros ->; apply (Hd b); [left; reflexivity|exact Hr]).
      unfold upd_up in Er. destruct (Z.ltb_spec r b).
      * lia.
      * subst z. apply (Hd r); [right; exact Hz|exact Hr].
Qed.

(* right snake: after the left obstructions (taken in decreasing order) went below
   the cup, the updated right obstructions are increasing between cap and cup - |lo| *)
Lemma ro_after_down l : forall c ro u, dec_in c l u -> inc_in c ro u ->
  (forall z, In z l -> ~ In z ro) -> inc_in c (ro_after upd_down l ro) (u - len l).
Proof.
  induction l as [|b l IH]; intros c ro u Hl Hro Hd; unfold ro_after; cbn [fold_left].
  - rewrite len_nil, Z.sub_0_r. exact Hro.
  - destruct Hl as [Hb Hl]. rewrite len_cons.
    replace (u - (1 + len l)) with ((u - 1) - len l) by lia.
    apply IH.
    + apply (dec_in_hi _ _ b); [exact Hl|lia].
    + assert (E : c = upd_down b c) by (unfold upd_down; zbool). rewrite E at 1.
      apply upd_down_inc; [exact Hro|apply Hd; left; reflexivity|lia|lia].
    + intros z Hz Hz'. apply in_map_iff in Hz'. destruct Hz' as (r & Er & Hr).
      pose proof (dec_in_In _ _ _ _ Hl Hz) as Hzb.
      assert (Hrb : r <> b) by (intros ->; apply (Hd b); [left; reflexivity|exact Hr]).
      unfold upd_down in Er. destruct (Z.ltb_spec b r).
      * lia.
      * subst z. apply (Hd r); [right; exact Hz|exact Hr].
Qed.

(* follow_wire's two lists: increasing, strictly between cap and cup, disjoint *)
Lemma fw_lists rest : forall i j c w lo ro, fw rest i j = (c, w, lo, ro) ->
  inc_in (Z.of_nat i - 1) (map Z.of_nat lo) (Z.of_nat c) /\
  inc_in (Z.of_nat i - 1) (map Z.of_nat ro) (Z.of_nat c) /\
  (forall z, In z (map Z.of_nat lo) -> ~ In z (map Z.of_nat ro)).
Proof.
  induction rest as [|[b off] rest IH]; intros i j c w lo ro H; cbn [fw] in H.
  - inversion H; subst. cbn. auto.
  - destruct ((off <=? j) && (j <? off + len (bdom b))).
    + inversion H; subst. cbn. auto.
    + destruct (off <=? j).
      * destruct (fw rest (S i) _) as [[[c1 w1] lo1] ro1] eqn:E. inversion H; subst.
        pose proof (fw_count _ _ _ _ _ _ _ E) as [Hc _].
        destruct (IH _ _ _ _ _ _ E) as (A & B & C).
        replace (Z.of_nat (S i) - 1) with (Z.of_nat i) in A, B by lia.
        split; [cbn [map inc_in]; split; [lia|exact A]|].
        split; [apply (inc_in_lo (Z.of_nat i)); [exact B|lia]|].
        intros z [<-|Hz] Hz'; [|exact (C z Hz Hz')].
        pose proof (inc_in_In _ _ _ _ B Hz'). lia.
      * destruct (fw rest (S i) _) as [[[c1 w1] lo1] ro1] eqn:E. inversion H; subst.
        pose proof (fw_count _ _ _ _ _ _ _ E) as [Hc _].
        destruct (IH _ _ _ _ _ _ E) as (A & B & C).
        replace (Z.of_nat (S i) - 1) with (Z.of_nat i) in A, B by lia.
        split; [apply (inc_in_lo (Z.of_nat i)); [exact A|lia]|].
        split; [cbn [map inc_in]; split; [lia|exact B]|].
        intros z Hz [<-|Hz']; [|exact (C z Hz Hz')].
        pose proof (inc_in_In _ _ _ _ A Hz). lia.
Qed.

(* ================================================================ diagrams *)
Lemma step_splice i : forall bs os b0 b1 o0 o1 o0' o1',
  nth_error bs i = Some b0 -> nth_error bs (S i) = Some b1 ->
  nth_error os i = Some o0 -> nth_error os (S i) = Some o1 ->
  adj_swap (b0, o0) (b1, o1) (b1, o1') (b0, o0') ->
  step i (combine bs os)
    (combine (firstn i bs ++ [b1; b0] ++ skipn (2 + i) bs) (firstn i os ++ [o1'; o0'] ++ skipn (2 + i) os)).
Proof.
  induction i as [|i IH]; intros bs os b0 b1 o0 o1 o0' o1' B0 B1 O0 O1 Hsw.
  - destruct bs as [|x [|x' bs]]; cbn in B0, B1; try discriminate.
    destruct os as [|z [|z' os]]; cbn in O0, O1; try discriminate.
    inversion B0; inversion B1; inversion O0; inversion O1; subst. cbn. apply step_here. exact Hsw.
  - destruct bs as [|x bs]; cbn in B0; try discriminate. destruct os as [|z os]; cbn in O0; try discriminate.
    cbn [firstn app combine Nat.add skipn]. apply step_skip.
    apply (IH bs os b0 b1 o0 o1 o0' o1'); auto.
Qed.

Lemma adj_step d i left d' : wf d -> interchange_adj d i left = Ok d' -> step i (pairs d) (pairs d').
Proof.
  intros Hwf H. destruct (interchange_adj_spec d i left d' Hwf H)
    as (_ & _ & _ & b0 & b1 & o0 & o1 & o0' & o1' & B0 & B1 & O0 & O1 & Hb & Ho & Hcase).
  unfold pairs. rewrite Hb, Ho. apply step_splice with (o0 := o0) (o1 := o1); auto.
  unfold adj_swap; cbn [fst snd]. split; [reflexivity|]. split; [reflexivity|]. exact Hcase.
Qed.

Ltac nbool :=
  repeat match goal with
  | |- context [Nat.eqb ?a ?b] => destruct (Nat.eqb_spec a b)
  | |- context [Nat.ltb ?a ?b] => destruct (Nat.ltb_spec a b)
  | |- context [Nat.leb ?a ?b] => destruct (Nat.leb_spec a b)
  end; cbn [andb]; try lia.

(* where an index goes when the box at i is moved n places down the list / up the list *)
Definition mv_up (i n t : nat) : nat :=
  if Nat.eqb t i then (i + n)%nat
  else if Nat.ltb i t && Nat.leb t (i + n) then (t - 1)%nat else t.
Definition mv_down (i n t : nat) : nat :=
  if Nat.eqb t i then (i - n)%nat
  else if Nat.leb (i - n) t && Nat.ltb t i then (t + 1)%nat else t.

Lemma mv_up_0 i t : mv_up i 0 t = t.
Proof. unfold mv_up. nbool. Qed.
Lemma mv_down_0 i t : mv_down i 0 t = t.
Proof. unfold mv_down. nbool. Qed.
Lemma tr_cases i t : (t = i /\ tr i t = S i) \/ (t = S i /\ tr i t = i) \/ (t <> i /\ t <> S i /\ tr i t = t).
Proof. unfold tr. nbool. Qed.
Lemma mv_up_S i n t : mv_up i (S n) t = mv_up (S i) n (tr i t).
Proof.
  destruct (tr_cases i t) as [[-> ->]|[[-> ->]|(H1 & H2 & ->)]]; unfold mv_up; nbool.
Qed.
Lemma mv_down_S i n t : (S n <= i)%nat -> mv_down i (S n) t = mv_down (i - 1) n (tr (i - 1) t).
Proof.
  intros H. destruct (tr_cases (i - 1) t) as [[-> ->]|[[-> ->]|(H1 & H2 & ->)]]; unfold mv_down; nbool.
Qed.

Section Track.
  Variable ls : bool.
  Variables x y : ob.

  (* in d, the followed leg of the cap at index c runs into the opposite leg of
     the matching cup at index u *)
  Definition Conn (d : diagram) (c u : nat) : Prop :=
    (c < u)%nat /\ conn ls x y (pairs d) c (u - c - 1).

  Lemma Conn_adj d i left d' c u : wf d -> interchange_adj d i left = Ok d' ->
    Conn d c u -> Conn d' (tr i c) (tr i u).
  Proof.
    intros Hwf H [Hlt Hc].
    destruct (conn_step ls x y _ _ _ (adj_step _ _ _ _ Hwf H) _ _ Hc) as (c2 & k2 & H2 & E1 & E2).
    replace (c + 1 + (u - c - 1))%nat with u in E2 by lia.
    split; [lia|]. replace (tr i u - tr i c - 1)%nat with k2 by lia. subst c2; exact H2.
  Qed.

  Lemma Conn_up n : forall d i left d' c u, wf d -> interchange_up d i n left = Ok d' ->
    Conn d c u -> Conn d' (mv_up i n c) (mv_up i n u).
  Proof.
    induction n as [|n IH]; cbn [interchange_up]; intros d i left d' c u Hwf H Hc.
    - inversion H; subst. now rewrite !mv_up_0.
    - destruct (interchange_adj d i left) as [d1|] eqn:E; [|discriminate]. cbn [bind] in H.
      destruct (interchange_adj_shape _ _ _ _ Hwf E) as [W1 _].
      rewrite !mv_up_S. apply (IH d1 (S i) left d' (tr i c) (tr i u) W1 H).
      exact (Conn_adj _ _ _ _ _ _ Hwf E Hc).
  Qed.

  Lemma Conn_down n : forall d i left d' c u, wf d -> (n <= i)%nat ->
    interchange_down d i n left = Ok d' -> Conn d c u -> Conn d' (mv_down i n c) (mv_down i n u).
  Proof.
    induction n as [|n IH]; cbn [interchange_down]; intros d i left d' c u Hwf Hn H Hc.
    - inversion H; subst. now rewrite !mv_down_0.
    - destruct (interchange_adj d (i - 1) left) as [d1|] eqn:E; [|discriminate]. cbn [bind] in H.
      destruct (interchange_adj_shape _ _ _ _ Hwf E) as [W1 _].
      rewrite !mv_down_S by exact Hn.
      apply (IH d1 (i - 1)%nat left d' (tr (i - 1) c) (tr (i - 1) u) W1 ltac:(lia) H).
      exact (Conn_adj _ _ _ _ _ _ Hwf E Hc).
  Qed.

  (* interchange(box, cap) for a box strictly between cap and cup: cap += 1 *)
  Lemma Conn_to_cap d bx c u d' : wf d -> Conn d c u -> Z.of_nat c < bx < Z.of_nat u ->
    interchange d bx (Z.of_nat c) false = Ok d' -> Conn d' (S c) u.
  Proof.
    intros Hwf Hc Hb H. unfold interchange in H. destruct (negb _); [discriminate|].
    destruct (Z.eqb_spec bx (Z.of_nat c)); [lia|]. destruct (Z.ltb_spec (Z.of_nat c) bx); [|lia].
    assert (Hle : (Z.to_nat (bx - Z.of_nat c) <= Z.to_nat bx)%nat) by lia.
    pose proof (Conn_down _ _ _ _ _ c u Hwf Hle H Hc) as G.
    replace (mv_down (Z.to_nat bx) (Z.to_nat (bx - Z.of_nat c)) c) with (S c) in G by (unfold mv_down; nbool).
    replace (mv_down (Z.to_nat bx) (Z.to_nat (bx - Z.of_nat c)) u) with u in G by (unfold mv_down; nbool).
    exact G.
  Qed.

  (* interchange(box, cup) for a box strictly between cap and cup: cup -= 1 *)
  Lemma Conn_to_cup d bx c u d' : wf d -> Conn d c u -> Z.of_nat c < bx < Z.of_nat u ->
    interchange d bx (Z.of_nat u) false = Ok d' -> Conn d' c (u - 1).
  Proof.
    intros Hwf Hc Hb H. unfold interchange in H. destruct (negb _); [discriminate|].
    destruct (Z.eqb_spec bx (Z.of_nat u)); [lia|]. destruct (Z.ltb_spec (Z.of_nat u) bx); [lia|].
    pose proof (Conn_up _ _ _ _ _ c u Hwf H Hc) as G.
    replace (mv_up (Z.to_nat bx) (Z.to_nat (Z.of_nat u - bx)) c) with c in G by (unfold mv_up; nbool).
    replace (mv_up (Z.to_nat bx) (Z.to_nat (Z.of_nat u - bx)) u) with (u - 1)%nat in G by (unfold mv_up; nbool).
    exact G.
  Qed.

  (* the state of unsnake's loops knows where the cap and the cup are *)
  Definition tracked (s : ustate) (c u : nat) : Prop :=
    wf (us_d s) /\ us_cap s = Z.of_nat c /\ us_cup s = Z.of_nat u /\ Conn (us_d s) c u.

  Lemma move_to_cap upd l : forall s c u s' e, tracked s c u ->
    inc_in (Z.of_nat c) l (Z.of_nat u) -> move_loop true upd l s = (s', e) ->
    exists c', tracked s' c' u.
  Proof.
    induction l as [|bx l IH]; cbn [move_loop]; intros s c u s' e T Hl H.
    - inversion H; subst. eauto.
    - destruct (interchange (us_d s) bx (us_cap s) false) as [d1|e1] eqn:E.
      2: { inversion H; subst. eauto. }
      destruct T as (W & Ec & Eu & Hc). destruct Hl as [Hb Hl]. rewrite Ec in E.
      destruct (interchange_shape _ _ _ _ _ W E) as [W1 _].
      assert (Hl' : inc_in (Z.of_nat (S c)) l (Z.of_nat u)) by (apply (inc_in_lo bx); [exact Hl|lia]).
      refine (IH _ (S c) u s' e _ Hl' H).
      unfold tracked; cbn [us_d us_cap us_cup]. split; [exact W1|]. split; [lia|]. split; [exact Eu|].
      exact (Conn_to_cap _ _ _ _ _ W Hc Hb E).
  Qed.

  Lemma move_to_cup upd l : forall s c u s' e, tracked s c u ->
    dec_in (Z.of_nat c) l (Z.of_nat u) -> move_loop false upd l s = (s', e) ->
    exists u', tracked s' c u'.
  Proof.
    induction l as [|bx l IH]; cbn [move_loop]; intros s c u s' e T Hl H.
    - inversion H; subst. eauto.
    - destruct (interchange (us_d s) bx (us_cup s) false) as [d1|e1] eqn:E.
      2: { inversion H; subst. eauto. }
      destruct T as (W & Ec & Eu & Hc). destruct Hl as [Hb Hl]. rewrite Eu in E.
      destruct (interchange_shape _ _ _ _ _ W E) as [W1 _].
      assert (Hl' : dec_in (Z.of_nat c) l (Z.of_nat (u - 1))) by (apply (dec_in_hi _ _ bx); [exact Hl|lia]).
      refine (IH _ c (u - 1)%nat s' e _ Hl' H).
      unfold tracked; cbn [us_d us_cap us_cup]. split; [exact W1|]. split; [exact Ec|]. split; [lia|].
      exact (Conn_to_cup _ _ _ _ _ W Hc Hb E).
  Qed.
End Track.

Lemma move_loop_ro to_cap upd l : forall s s', move_loop to_cap upd l s = (s', None) ->
  us_ro s' = ro_after upd l (us_ro s).
Proof.
  induction l as [|bx l IH]; cbn [move_loop]; intros s s' H.
  - inversion H; subst. reflexivity.
  - destruct (interchange (us_d s) bx _ false) as [d1|e1]; [|discriminate].
    rewrite (IH _ _ H). reflexivity.
Qed.

(* when the two loops of unsnake complete, cap and cup are adjacent, the state's
   indices point at them, and the connection still holds *)
Theorem unsnake_loops_adjacent ls x y d cup cap lo ro s2 :
  wf d -> Conn ls x y d cap cup ->
  inc_in (Z.of_nat cap) (map Z.of_nat lo) (Z.of_nat cup) ->
  inc_in (Z.of_nat cap) (map Z.of_nat ro) (Z.of_nat cup) ->
  (forall z, In z (map Z.of_nat lo) -> ~ In z (map Z.of_nat ro)) ->
  (cup = S cap + length lo + length ro)%nat ->
  unsnake_loops d cup cap lo ro ls = (s2, None) ->
  exists c, tracked ls x y s2 c (S c).
Proof.
  intros Hwf Hc Hlo Hro Hdis Hcount H.
  destruct (unsnake_loops_idx _ _ _ _ _ _ _ H) as [I1 I2].
  unfold unsnake_loops in H.
  set (s0 := US d (Z.of_nat cap) (Z.of_nat cup) (map Z.of_nat ro) []) in *.
  assert (T0 : tracked ls x y s0 cap cup) by (unfold tracked, s0; cbn; auto).
  destruct ls.
  - destruct (move_loop true upd_up _ s0) as [s1 e1] eqn:E1. destruct e1 as [e1|]; [discriminate|].
    destruct (move_to_cap true x y _ _ _ _ _ _ _ T0 Hlo E1) as (c1 & T1).
    destruct (move_loop_idx _ _ _ _ _ E1) as (A1 & A2 & _).
    pose proof (move_loop_ro _ _ _ _ _ E1) as R1. cbn [us_ro us_cap us_cup s0] in A1, A2, R1.
    assert (Hc1 : Z.of_nat c1 = Z.of_nat cap + len (map Z.of_nat lo)).
    { destruct T1 as (_ & Ec & _). lia. }
    pose proof (ro_after_up _ _ _ _ Hlo Hro Hdis) as Hro1. rewrite <- R1, <- Hc1 in Hro1.
    destruct (move_to_cup true x y _ _ _ _ _ _ _ T1 (inc_rev _ _ _ Hro1) H) as (u2 & T2).
    assert (u2 = S c1).
    { destruct T2 as (_ & Ec & Eu & _). rewrite len_map in Hc1. unfold len in *. lia. }
    subst u2. eauto.
  - destruct (move_loop false upd_down _ s0) as [s1 e1] eqn:E1. destruct e1 as [e1|]; [discriminate|].
    destruct (move_to_cup false x y _ _ _ _ _ _ _ T0 (inc_rev _ _ _ Hlo) E1) as (u1 & T1).
    destruct (move_loop_idx _ _ _ _ _ E1) as (A1 & A2 & _).
    pose proof (move_loop_ro _ _ _ _ _ E1) as R1. cbn [us_ro us_cap us_cup s0] in A1, A2, R1.
    assert (Hu1 : Z.of_nat u1 = Z.of_nat cup - len (rev (map Z.of_nat lo))).
    { destruct T1 as (_ & _ & Eu & _). lia. }
    assert (Hdis' : forall z, In z (rev (map Z.of_nat lo)) -> ~ In z (map Z.of_nat ro)).
    { intros z Hz. apply Hdis. apply in_rev. exact Hz. }
    pose proof (ro_after_down _ _ _ _ (inc_rev _ _ _ Hlo) Hro Hdis') as Hro1. rewrite <- R1, <- Hu1 in Hro1.
    destruct (move_to_cap false x y _ _ _ _ _ _ _ T1 Hro1 H) as (c2 & T2).
    assert (u1 = S c2).
    { destruct T2 as (_ & Ec & Eu & _). rewrite len_rev, len_map in Hu1. unfold len in *. lia. }
    subst u1. eauto.
Qed.

(* ================================================================ what find_snake selects is connected *)
Lemma nth_error_skipn' {A} n : forall (l : list A) k, nth_error (skipn n l) k = nth_error l (n + k).
Proof.
  induction n as [|n IH]; intros l k; [reflexivity|]. destruct l as [|a l]; cbn [skipn Nat.add nth_error].
  - destruct k; reflexivity.
  - apply IH.
Qed.

Lemma nth_error_combine {A B} (l : list A) : forall (l' : list B) k a b,
  nth_error l k = Some a -> nth_error l' k = Some b -> nth_error (combine l l') k = Some (a, b).
Proof.
  induction l as [|a0 l IH]; intros [|b0 l'] [|k] a b Ha Hb; cbn in *; try discriminate.
  - inversion Ha; inversion Hb; reflexivity.
  - apply IH; auto.
Qed.

Lemma nth_error_combine_inv {A B} (l : list A) : forall (l' : list B) k a b,
  nth_error (combine l l') k = Some (a, b) -> nth_error l k = Some a /\ nth_error l' k = Some b.
Proof.
  induction l as [|a0 l IH]; intros [|b0 l'] [|k] a b H; cbn in *; try discriminate.
  - inversion H; auto.
  - apply IH; auto.
Qed.

Theorem find_snake_connected d cup cap lo ro ls : wf d -> rigid_ok d ->
  find_snake d = Some (cup, cap, (lo, ro), ls) ->
  exists x y, Conn ls x y d cap cup /\
    inc_in (Z.of_nat cap) (map Z.of_nat lo) (Z.of_nat cup) /\
    inc_in (Z.of_nat cap) (map Z.of_nat ro) (Z.of_nat cup) /\
    (forall z, In z (map Z.of_nat lo) -> ~ In z (map Z.of_nat ro)) /\
    (cup = S cap + length lo + length ro)%nat.
Proof.
  intros Hwf Hr F.
  destruct (find_snake_some _ _ _ _ _ _ F) as (R & _ & _ & (off & w & O & FW) & Hc & Hlt & _).
  destruct R as (bcap & off' & B & O' & C & R). rewrite O in O'. inversion O'; subst off'. clear O'.
  rewrite FW in R. destruct R as (bcup & offc & Bc & Oc & Cc & Hw & M).
  assert (Kcap : bk bcap = KCap) by (unfold is_cap in C; apply bkind_eqb_eq in C; exact C).
  assert (Kcup : bk bcup = KCup) by (unfold is_cup in Cc; apply bkind_eqb_eq in Cc; exact Cc).
  pose proof (Hr bcap (nth_error_In _ _ B)) as OKcap. unfold box_ok in OKcap. rewrite Kcap in OKcap.
  pose proof (Hr bcup (nth_error_In _ _ Bc)) as OKcup. unfold box_ok in OKcup. rewrite Kcup in OKcup.
  apply andb_true_iff in OKcap, OKcup. destruct OKcap as [Cd Cc2], OKcup as [Ud Uc].
  apply Z.eqb_eq in Cd, Cc2, Ud, Uc.
  apply len_zero_nil in Cd, Uc. destruct (list2 _ Cc2) as (a & b & Ecap).
  rewrite Ecap in M. cbn [rev app] in M.
  exists a, b.
  assert (Hcap : capP a b bcap) by (unfold capP; auto).
  assert (Hcup : cupP a b bcup) by (unfold cupP; auto).
  unfold follow_wire in FW. fold (pairs d) in FW.
  destruct (fw_lists _ _ _ _ _ _ _ FW) as (L1 & L2 & L3).
  replace (Z.of_nat (S cap) - 1) with (Z.of_nat cap) in L1, L2 by lia.
  split; [|auto].
  split; [lia|].
  apply (conn_intro ls a b _ _ _ (bcap, off)); [apply nth_error_combine; auto|exact Hcap|].
  cbn [snd]. replace (cup - cap - 1)%nat with (cup - S cap)%nat by lia.
  replace (off + dl_cap ls) with (if ls then off else off + 1) by (unfold dl_cap; destruct ls; lia).
  apply (fw_seg ls a b _ _ _ _ _ _ _ FW (bcup, offc)).
  - rewrite nth_error_skipn'. replace (S cap + (cup - S cap))%nat with cup by lia.
    apply nth_error_combine; auto.
  - exact Hcup.
  - cbn [snd]. rewrite Hw. unfold dl_cup. destruct ls; lia.
Qed.

(* the outcome, read on the diagram: the two boxes handed to delete_pair *)
Lemma tracked_adjacent ls x y s c : tracked ls x y s c (S c) ->
  exists bcap oc bcup ou,
    nth_error (dboxes (us_d s)) c = Some bcap /\ nth_error (doffs (us_d s)) c = Some oc /\
    nth_error (dboxes (us_d s)) (S c) = Some bcup /\ nth_error (doffs (us_d s)) (S c) = Some ou /\
    capP x y bcap /\ cupP x y bcup /\ oc + dl_cap ls = ou + dl_cup ls /\
    us_cap s = Z.of_nat c /\ us_cup s = Z.of_nat c + 1 /\ wf (us_d s).
Proof.
  intros (W & Ec & Eu & (_ & Hc)). replace (S c - c - 1)%nat with 0%nat in Hc by lia.
  destruct (conn_adjacent _ _ _ _ _ Hc) as ([bcap oc] & [bcup ou] & A & B & C & D & E).
  unfold pairs in A, B. apply nth_error_combine_inv in A, B. destruct A as [A1 A2], B as [B1 B2].
  exists bcap, oc, bcup, ou. cbn [fst snd] in *.
  split; [exact A1|]. split; [exact A2|]. split; [exact B1|]. split; [exact B2|].
  split; [exact C|]. split; [exact D|]. split; [exact E|]. split; [exact Ec|]. split; [lia|exact W].
Qed.

(* The bookkeeping of unsnake, in full and for ANY obstructions: when its two
   loops complete on what find_snake selected, the indices `cap`, `cup` of the
   state are adjacent and point at a Cap and a matching Cup (cup.dom = rev cap.cod)
   of the current diagram, the cup one wire to the left (left snake) / right
   (right snake) of the cap: the stretch that delete_pair removes is a snake. *)
Theorem unsnake_pair_adjacent d cup cap lo ro ls s2 : wf d -> rigid_ok d ->
  find_snake d = Some (cup, cap, (lo, ro), ls) ->
  unsnake_loops d cup cap lo ro ls = (s2, None) ->
  exists c bcap oc bcup ou,
    us_cap s2 = Z.of_nat c /\ us_cup s2 = Z.of_nat c + 1 /\
    nth_error (dboxes (us_d s2)) c = Some bcap /\ nth_error (doffs (us_d s2)) c = Some oc /\
    nth_error (dboxes (us_d s2)) (S c) = Some bcup /\ nth_error (doffs (us_d s2)) (S c) = Some ou /\
    is_cap bcap = true /\ is_cup bcup = true /\ bdom bcup = rev (bcod bcap) /\
    ou = (if ls then oc - 1 else oc + 1).
Proof.
  intros Hwf Hr Fs E.
  destruct (find_snake_connected _ _ _ _ _ _ Hwf Hr Fs) as (x & y & Hc & L1 & L2 & L3 & Hcount).
  destruct (unsnake_loops_adjacent _ _ _ _ _ _ _ _ _ Hwf Hc L1 L2 L3 Hcount E) as (c & T).
  destruct (tracked_adjacent _ _ _ _ _ T)
    as (bcap & oc & bcup & ou & N1 & N2 & N3 & N4 & (K1 & D1 & C1) & (K2 & D2 & C2) & Ho & Ec & Eu & W).
  exists c, bcap, oc, bcup, ou. repeat (split; [assumption|]).
  split; [unfold is_cap; rewrite K1; reflexivity|].
  split; [unfold is_cup; rewrite K2; reflexivity|].
  split; [rewrite D2, C1; reflexivity|].
  unfold dl_cap, dl_cup in Ho. destruct ls; lia.
Qed.

(* non-vacuity: the obstructed left snake of SnakeLemmas (two obstructions on each
   side, four interchanges) satisfies the hypotheses, and its loops complete *)
Example unsnake_pair_adjacent_hyps :
  wf obstructed_d /\ rigid_ok obstructed_d /\
  find_snake obstructed_d = Some (5%nat, 0%nat, ([2%nat; 4%nat], [1%nat; 3%nat]), true) /\
  exists s2, unsnake_loops obstructed_d 5 0 [2%nat; 4%nat] [1%nat; 3%nat] true = (s2, None) /\
             us_cap s2 = 2 /\ us_cup s2 = 3.
Proof.
  split; [exact obstructed_wf|]. split; [exact obstructed_rigid_ok|]. split; [exact obstructed_find|].
  eexists. split; [vm_compute; reflexivity|]. split; reflexivity.
Qed.

(* consequence for totality: once the two loops have completed, the deletion is
   never refused -- the only errors unsnake can end with come from an interchange *)
Theorem unsnake_deletion_accepted d cup cap lo ro ls s2 : wf d -> rigid_ok d ->
  find_snake d = Some (cup, cap, (lo, ro), ls) ->
  unsnake_loops d cup cap lo ro ls = (s2, None) ->
  exists d', delete_pair (us_d s2) (us_cap s2) (us_cup s2) = Ok d'.
Proof.
  intros Hwf Hr Fs E.
  destruct (find_snake_connected _ _ _ _ _ _ Hwf Hr Fs) as (x & y & Hc & L1 & L2 & L3 & Hcount).
  destruct (unsnake_loops_adjacent _ _ _ _ _ _ _ _ _ Hwf Hc L1 L2 L3 Hcount E) as (c & T).
  destruct (tracked_adjacent _ _ _ _ _ T)
    as (bcap & oc & bcup & ou & N1 & N2 & N3 & N4 & (K1 & D1 & C1) & (K2 & D2 & C2) & Ho & Ec & Eu & W).
  pose proof W as (W1 & W2 & W3 & W4 & W5).
  assert (Hn : (S c < length (dboxes (us_d s2)))%nat) by (apply nth_error_Some; rewrite N3; discriminate).
  destruct (nth_error_layer _ _ _ _ W N1 N2) as ([[l0 b0] r0] & NL & BL & OL).
  destruct (nth_error_layer _ _ _ _ W N3 N4) as ([[l1 b1] r1] & NU & BU & OU).
  unfold lbox, lleft in BL, OL, BU, OU; cbn [fst snd] in BL, OL, BU, OU. subst b0 b1.
  destruct (type_at_nth _ _ _ _ _ W3 NL) as [TA TB].
  destruct (type_at_nth _ _ _ _ _ W3 NU) as [TC TD].
  rewrite W1 in TA, TB, TC, TD.
  unfold ldom, lcod, lleft, lbox, lright in TA, TB, TC, TD; cbn [fst snd] in TA, TB, TC, TD.
  rewrite D1 in TA. rewrite C1 in TB. rewrite D2 in TC. rewrite C2 in TD. cbn [app] in TA, TD.
  assert (Hmid : l0 ++ [x; y] ++ r0 = l1 ++ [y; x] ++ r1) by congruence.
  rewrite Ec, Eu. replace (Z.of_nat c + 1) with (Z.of_nat (S c)) by lia.
  destruct (delete_pair_adjacent _ c W Hn) as [Dok _]. apply Dok. rewrite TA, TD.
  unfold dl_cap, dl_cup in Ho. destruct ls.
  - destruct (snake_types_left _ _ _ _ _ _ _ _ Hmid) as [_ Hx]; [unfold len in *; lia|].
    apply Hx. reflexivity.
  - destruct (snake_types_right _ _ _ _ _ _ _ _ Hmid) as [_ Hx]; [unfold len in *; lia|].
    apply Hx. reflexivity.
Qed.

Corollary unsnake_errors_only_from_interchange d cup cap lo ro ls d' ys e : wf d -> rigid_ok d ->
  find_snake d = Some (cup, cap, (lo, ro), ls) ->
  unsnake d cup cap lo ro ls = (d', ys, Some e) ->
  exists s2, unsnake_loops d cup cap lo ro ls = (s2, Some e).
Proof.
  intros Hwf Hr Fs H. rewrite unsnake_unfold in H.
  destruct (unsnake_loops d cup cap lo ro ls) as [s2 [e2|]] eqn:E.
  - inversion H; subst. eauto.
  - destruct (unsnake_deletion_accepted _ _ _ _ _ _ _ Hwf Hr Fs E) as (d1 & D). rewrite D in H. discriminate.
Qed.
