(* Proofs about the snake-removal model (Snake/Snake.v). *)
From Coq Require Import List ZArith Bool Lia.
Import ListNotations.
Require Import DV.Common.Base DV.Common.ListLemmas DV.Core.Diagram DV.Core.WF DV.Core.DiagramLemmas
  DV.Core.Rewriting DV.Core.RewritingLemmas DV.Core.Rigid DV.Core.Prog DV.Snake.Snake.
Open Scope Z_scope.

(* ================================================================ slicing *)
(* l[:e] and l[s:] for ANY integers e, s (negative, overlong) are a firstn / skipn
   at an index that only depends on the length *)
Definition pre_k (n e : Z) : nat := Z.to_nat (clip n (Some e) n).
Definition suf_k (n s : Z) : nat := Z.to_nat (clip n (Some s) 0).

Lemma clip_range n i dflt : 0 <= n -> 0 <= clip n (Some i) dflt <= n.
Proof. intros Hn. unfold clip. destruct (i <? 0) eqn:E; [apply Z.ltb_lt in E|apply Z.ltb_ge in E]; lia. Qed.

Lemma pre_k_le {A} (l : list A) e : (pre_k (len l) e <= length l)%nat.
Proof. unfold pre_k. pose proof (clip_range (len l) e (len l) (len_nonneg l)). unfold len in *. lia. Qed.
Lemma suf_k_le {A} (l : list A) s : (suf_k (len l) s <= length l)%nat.
Proof. unfold suf_k. pose proof (clip_range (len l) s 0 (len_nonneg l)). unfold len in *. lia. Qed.

Lemma py_slice_prefix_k {A} (l : list A) e : py_slice l None (Some e) = firstn (pre_k (len l) e) l.
Proof. unfold py_slice, pre_k. cbn [clip Z.to_nat skipn]. now rewrite Z.sub_0_r. Qed.

Lemma py_slice_suffix_k {A} (l : list A) s : py_slice l (Some s) None = skipn (suf_k (len l) s) l.
Proof.
  unfold py_slice, suf_k. cbn [clip]. apply firstn_all2. rewrite skipn_length.
  pose proof (clip_range (len l) s 0 (len_nonneg l)). unfold len in *. lia.
Qed.

Lemma pre_k_nonneg n e : 0 <= e <= n -> pre_k n e = Z.to_nat e.
Proof. intros H. unfold pre_k, clip. destruct (e <? 0) eqn:E; [apply Z.ltb_lt in E; lia|]. f_equal. lia. Qed.
Lemma suf_k_nonneg n s : 0 <= s <= n -> suf_k n s = Z.to_nat s.
Proof. intros H. unfold suf_k, clip. destruct (s <? 0) eqn:E; [apply Z.ltb_lt in E; lia|]. f_equal. lia. Qed.

Lemma la_slice_prefix_gen a e : la_wf a ->
  la_slice a None (Some e) =
  LA (la_dom a) (type_at (la_dom a) (la_ls a) (pre_k (len (la_ls a)) e)) (firstn (pre_k (len (la_ls a)) e) (la_ls a)).
Proof.
  intros H. rewrite <- (la_slice_prefix a _ H (pre_k_le _ e)).
  unfold la_slice. rewrite !py_slice_prefix_k.
  rewrite (pre_k_nonneg (len (la_ls a)) (Z.of_nat (pre_k (len (la_ls a)) e))).
  - rewrite Nat2Z.id. reflexivity.
  - pose proof (pre_k_le (la_ls a) e) as Hk. split; [lia|]. unfold len at 2. lia.
Qed.

Lemma la_slice_suffix_gen a s : la_wf a ->
  la_slice a (Some s) None =
  LA (type_at (la_dom a) (la_ls a) (suf_k (len (la_ls a)) s)) (la_cod a) (skipn (suf_k (len (la_ls a)) s) (la_ls a)).
Proof.
  intros H. set (k := suf_k (len (la_ls a)) s). pose proof (suf_k_le (la_ls a) s) as Hk. fold k in Hk.
  unfold la_slice. rewrite py_slice_suffix_k. fold k.
  pose proof (chain_skipn _ _ _ k H Hk) as Hc.
  destruct (skipn k (la_ls a)) as [|l0 sub] eqn:E.
  - cbn in Hc. rewrite Hc.
    assert (Hkn : k = length (la_ls a)).
    { apply (f_equal (@length _)) in E. rewrite skipn_length in E. cbn in E. lia. }
    destruct (la_ls a) as [|l ls] eqn:El.
    + (* no layers at all: dom = cod, every branch is that identity *)
      unfold la_wf in H. rewrite El in H. cbn in H.
      assert (HH : la_cod a = la_dom a) by auto.
      destruct (len [] <=? s); [reflexivity|]. destruct (s <=? - len []); [unfold la_id; now rewrite HH|].
      unfold py_index. cbn. destruct (s <? 0); cbn; destruct ((_ <? 0) || (0 <=? _)); cbn;
        try (unfold la_id; now rewrite HH).
      all: destruct (Z.to_nat _); cbn; unfold la_id; now rewrite HH.
    + (* k = n > 0 forces s >= n *)
      assert (Hs : len (l :: ls) <= s).
      { subst k. unfold suf_k, clip in Hkn. rewrite <- El in Hkn. unfold len in *.
        rewrite El in *. cbn [length] in *.
        destruct (s <? 0) eqn:E0; [apply Z.ltb_lt in E0|apply Z.ltb_ge in E0]; lia. }
      apply Z.leb_le in Hs. rewrite Hs. reflexivity.
  - destruct (chain_ends _ _ _ _ Hc) as [H1 H2]. now rewrite <- H1, <- H2.
Qed.

Lemma len_eq_length {A B} (a : list A) (b : list B) : length a = length b -> len a = len b.
Proof. unfold len. intros ->. reflexivity. Qed.

(* ================================================================ deleting the pair *)
Theorem delete_pair_wf d cap cup d' : wf d -> delete_pair d cap cup = Ok d' ->
  wf d' /\ ddom d' = ddom d /\ dcod d' = dcod d.
Proof.
  intros Hwf H. pose proof Hwf as (W1 & W2 & W3 & W4 & W5). unfold delete_pair in H.
  destruct (la_then _ _) as [la|] eqn:E; [|discriminate]. cbn [bind] in H. inversion H; subst d'; clear H.
  cbn [ddom dcod]. split; [|auto].
  rewrite la_slice_prefix_gen, la_slice_suffix_gen in E by exact W3.
  pose proof (wf_lengths d Hwf) as [Lb Lo].
  apply la_then_ok in E. cbn [la_dom la_cod la_ls] in E. destruct E as [Hm ->].
  unfold wf; cbn [dlayers ddom dcod dboxes doffs la_dom la_cod la_ls].
  split; [exact W1|]. split; [exact W2|]. split.
  - unfold la_wf; cbn [la_dom la_cod la_ls]. eapply chain_app.
    + apply chain_firstn with (b := la_cod (dlayers d)); [exact W3|apply pre_k_le].
    + rewrite Hm. apply chain_skipn; [exact W3|apply suf_k_le].
  - rewrite !py_slice_prefix_k, !py_slice_suffix_k.
    rewrite (len_eq_length _ _ Lb), (len_eq_length _ _ Lo).
    rewrite W4 at 1 2. rewrite W5 at 1 2. rewrite !map_app, !firstn_map, !skipn_map. auto.
Qed.

(* the two removed layers compose to an arrow from a type to itself: whatever is
   deleted, the type before it equals the type after it *)
Lemma delete_pair_types d cap cup d' : wf d -> delete_pair d cap cup = Ok d' ->
  type_at (ddom d) (la_ls (dlayers d)) (pre_k (len (dboxes d)) cap) =
  type_at (ddom d) (la_ls (dlayers d)) (suf_k (len (dboxes d)) (cup + 1)).
Proof.
  intros Hwf H. pose proof Hwf as (W1 & W2 & W3 & W4 & W5). unfold delete_pair in H.
  destruct (la_then _ _) as [la|] eqn:E; [|discriminate].
  rewrite la_slice_prefix_gen, la_slice_suffix_gen in E by exact W3.
  apply la_then_ok in E. cbn [la_dom la_cod la_ls] in E. destruct E as [Hm _].
  pose proof (wf_lengths d Hwf) as [Lb _]. rewrite (len_eq_length _ _ Lb), <- W1. exact Hm.
Qed.

Lemma delete_pair_err d cap cup e : delete_pair d cap cup = Err e -> e = AxiomError.
Proof.
  unfold delete_pair. destruct (la_then _ _) eqn:E; [discriminate|]. cbn. intros H; inversion H; subst.
  apply la_then_err in E. tauto.
Qed.

Lemma delete_pair_count d cap cup d' : wf d -> delete_pair d cap cup = Ok d' ->
  0 <= cap -> cup = cap + 1 -> cup < len (dboxes d) ->
  (length (dboxes d') + 2 = length (dboxes d))%nat.
Proof.
  intros Hwf H Hc Hcup Hn. unfold delete_pair in H.
  destruct (la_then _ _) as [la|]; [|discriminate]. cbn [bind] in H. inversion H; subst d'; clear H.
  cbn [dboxes]. rewrite py_slice_prefix_k, py_slice_suffix_k, app_length, firstn_length, skipn_length.
  rewrite pre_k_nonneg, suf_k_nonneg by lia. unfold len in *. lia.
Qed.

(* ================================================================ interchange *)
Lemma interchange_shape d i j left d' : wf d -> interchange d i j left = Ok d' ->
  wf d' /\ same_shape d d'.
Proof.
  intros Hwf. unfold interchange. destruct (negb _); [discriminate|].
  destruct (i =? j); [intros H; inversion H; subst; split; [auto|apply same_shape_refl]|].
  destruct (j <? i); intros H.
  - exact (interchange_down_wf _ _ _ _ _ Hwf H).
  - exact (interchange_up_wf _ _ _ _ _ Hwf H).
Qed.

Lemma interchange_ok_range d i j left d' : interchange d i j left = Ok d' ->
  0 <= i < len (dboxes d) /\ 0 <= j < len (dboxes d).
Proof.
  unfold interchange. destruct (negb _) eqn:E; [discriminate|]. intros _.
  apply negb_false_iff in E. rewrite !andb_true_iff in E.
  destruct E as [[[E1 E2] E3] E4]. apply Z.leb_le in E1, E3. apply Z.ltb_lt in E2, E4. lia.
Qed.

(* ================================================================ the four loops of unsnake *)
Definition good (d0 x : diagram) : Prop := wf x /\ same_shape d0 x.

Lemma move_loop_wf to_cap upd l d0 : forall s s' e,
  good d0 (us_d s) -> Forall (good d0) (us_acc s) ->
  move_loop to_cap upd l s = (s', e) ->
  good d0 (us_d s') /\ Forall (good d0) (us_acc s').
Proof.
  induction l as [|bx l IH]; cbn [move_loop]; intros s s' e Hg Ha H.
  - inversion H; subst. auto.
  - destruct (interchange (us_d s) bx _ false) as [d1|e1] eqn:E.
    + destruct Hg as [Hw Hs]. destruct (interchange_shape _ _ _ _ _ Hw E) as [W1 S1].
      assert (G1 : good d0 d1) by (split; [auto|eapply same_shape_trans; eauto]).
      eapply IH; [| |exact H]; cbn [us_d us_acc]; auto.
    + inversion H; subst. auto.
Qed.

(* index bookkeeping: a loop that ran to completion moved its target index by
   the number of boxes it lifted / lowered, and kept the other one *)
Lemma move_loop_idx to_cap upd l : forall s s',
  move_loop to_cap upd l s = (s', None) ->
  us_cap s' = us_cap s + (if to_cap then len l else 0) /\
  us_cup s' = us_cup s - (if to_cap then 0 else len l) /\
  length (us_ro s') = length (us_ro s) /\
  (upd = upd_none -> us_ro s' = us_ro s).
Proof.
  induction l as [|bx l IH]; cbn [move_loop]; intros s s' H.
  - inversion H; subst. rewrite len_nil. destruct to_cap; repeat split; auto; lia.
  - destruct (interchange (us_d s) bx _ false) as [d1|e1] eqn:E; [|discriminate].
    destruct (IH _ _ H) as (I1 & I2 & I3 & I4). cbn [us_cap us_cup us_ro] in *.
    rewrite len_cons, map_length in *. destruct to_cap; repeat split; try lia.
    all: intros ->; rewrite I4 by reflexivity; unfold upd_none; apply map_id.
Qed.

Lemma move_loop_cup_lower to_cap upd l : forall s s' e,
  move_loop to_cap upd l s = (s', e) -> us_cup s' <= us_cup s /\ us_cap s <= us_cap s'.
Proof.
  induction l as [|bx l IH]; cbn [move_loop]; intros s s' e H.
  - inversion H; subst. lia.
  - destruct (interchange (us_d s) bx _ false) as [d1|e1] eqn:E.
    + apply IH in H. cbn [us_cap us_cup] in H. destruct to_cap; lia.
    + inversion H; subst. lia.
Qed.

(* ================================================================ unsnake *)
Definition keeps (d x : diagram) : Prop := wf x /\ ddom x = ddom d /\ dcod x = dcod d.

Lemma good_keeps d x : good d x -> keeps d x.
Proof. intros [W (S1 & S2 & _)]. unfold keeps. auto. Qed.

(* the state after the two obstruction loops *)
Definition unsnake_loops (d : diagram) (cup cap : nat) (lo ro : list nat) (left_snake : bool)
  : ustate * option err :=
  let s0 := US d (Z.of_nat cap) (Z.of_nat cup) (map Z.of_nat ro) [] in
  let loz := map Z.of_nat lo in
  if left_snake then
    let '(s1, e1) := move_loop true upd_up loz s0 in
    match e1 with
    | Some _ => (s1, e1)
    | None => move_loop false upd_none (rev (us_ro s1)) s1
    end
  else
    let '(s1, e1) := move_loop false upd_down (rev loz) s0 in
    match e1 with
    | Some _ => (s1, e1)
    | None => move_loop true upd_none (us_ro s1) s1
    end.

Lemma unsnake_unfold d cup cap lo ro ls :
  unsnake d cup cap lo ro ls =
  let '(s2, e) := unsnake_loops d cup cap lo ro ls in
  match e with
  | Some _ => (us_d s2, us_acc s2, e)
  | None =>
      match delete_pair (us_d s2) (us_cap s2) (us_cup s2) with
      | Ok d' => (d', d' :: us_acc s2, None)
      | Err e' => (us_d s2, us_acc s2, Some e')
      end
  end.
Proof. reflexivity. Qed.

Lemma unsnake_loops_wf d cup cap lo ro ls s2 e : wf d ->
  unsnake_loops d cup cap lo ro ls = (s2, e) ->
  good d (us_d s2) /\ Forall (good d) (us_acc s2).
Proof.
  intros Hwf H. unfold unsnake_loops in H.
  assert (G0 : good d d) by (split; [auto|apply same_shape_refl]).
  destruct ls.
  - destruct (move_loop true upd_up _ _) as [s1 e1] eqn:E1.
    assert (X := fun G A => move_loop_wf _ _ _ d _ _ _ G A E1). cbn [us_d us_acc] in X.
    destruct (X G0 (Forall_nil _)) as [G1 A1]. clear X.
    destruct e1; [inversion H; subst; auto|].
    exact (move_loop_wf _ _ _ d _ _ _ G1 A1 H).
  - destruct (move_loop false upd_down _ _) as [s1 e1] eqn:E1.
    assert (X := fun G A => move_loop_wf _ _ _ d _ _ _ G A E1). cbn [us_d us_acc] in X.
    destruct (X G0 (Forall_nil _)) as [G1 A1]. clear X.
    destruct e1; [inversion H; subst; auto|].
    exact (move_loop_wf _ _ _ d _ _ _ G1 A1 H).
Qed.

Lemma unsnake_loops_idx d cup cap lo ro ls s2 :
  unsnake_loops d cup cap lo ro ls = (s2, None) ->
  us_cap s2 = Z.of_nat cap + (if ls then len lo else len ro) /\
  us_cup s2 = Z.of_nat cup - (if ls then len ro else len lo).
Proof.
  intros H. unfold unsnake_loops in H. destruct ls.
  - destruct (move_loop true upd_up _ _) as [s1 e1] eqn:E1. destruct e1; [discriminate|].
    destruct (move_loop_idx _ _ _ _ _ E1) as (A1 & A2 & A3 & _).
    destruct (move_loop_idx _ _ _ _ _ H) as (B1 & B2 & _). cbn [us_cap us_cup us_ro] in *.
    rewrite len_rev in B2. unfold len in *. rewrite !map_length in *. lia.
  - destruct (move_loop false upd_down _ _) as [s1 e1] eqn:E1. destruct e1; [discriminate|].
    destruct (move_loop_idx _ _ _ _ _ E1) as (A1 & A2 & A3 & _).
    destruct (move_loop_idx _ _ _ _ _ H) as (B1 & B2 & _). cbn [us_cap us_cup us_ro] in *.
    rewrite len_rev in A2. unfold len in *. rewrite !map_length in *. lia.
Qed.

(* C07, clause 1: everything unsnake yields -- the interchange steps and the
   diagram with the pair deleted -- is well-typed with the input's dom and cod,
   whether or not the generator then raises *)
Theorem unsnake_steps_wf d cup cap lo ro ls d' ys e : wf d ->
  unsnake d cup cap lo ro ls = (d', ys, e) ->
  keeps d d' /\ Forall (keeps d) ys.
Proof.
  intros Hwf H. rewrite unsnake_unfold in H.
  destruct (unsnake_loops d cup cap lo ro ls) as [s2 e2] eqn:E.
  destruct (unsnake_loops_wf _ _ _ _ _ _ _ _ Hwf E) as [G A].
  assert (A' : Forall (keeps d) (us_acc s2)) by (eapply Forall_impl; [|exact A]; apply good_keeps).
  destruct e2.
  - inversion H; subst. split; [apply good_keeps|]; auto.
  - destruct (delete_pair _ _ _) as [d1|e1] eqn:D; inversion H; subst; clear H.
    + destruct G as [W (S1 & S2 & _)]. destruct (delete_pair_wf _ _ _ _ W D) as (W1 & D1 & D2).
      assert (K : keeps d d') by (unfold keeps; rewrite D1, D2; auto).
      split; [exact K|]. constructor; auto.
    + split; [apply good_keeps|]; auto.
Qed.

(* the errors unsnake can end with *)
Lemma unsnake_success_count d cup cap lo ro ls d' ys : wf d ->
  unsnake d cup cap lo ro ls = (d', ys, None) ->
  (cup = S cap + length lo + length ro)%nat -> (cup < length (dboxes d))%nat ->
  (length (dboxes d') + 2 = length (dboxes d))%nat.
Proof.
  intros Hwf H Hc Hn. rewrite unsnake_unfold in H.
  destruct (unsnake_loops d cup cap lo ro ls) as [s2 e2] eqn:E.
  destruct (unsnake_loops_wf _ _ _ _ _ _ _ _ Hwf E) as [[W (_ & _ & S3)] _].
  destruct e2; [discriminate|].
  destruct (unsnake_loops_idx _ _ _ _ _ _ _ E) as [I1 I2].
  destruct (delete_pair _ _ _) as [d1|e1] eqn:D; inversion H; subst; clear H.
  rewrite <- S3. apply (delete_pair_count _ _ _ _ W D).
  - unfold len in *. destruct ls; lia.
  - unfold len in *. destruct ls; lia.
  - unfold len in *. destruct ls; lia.
Qed.

(* ================================================================ follow_wire *)
Lemma fw_count rest : forall i j c w lo ro, fw rest i j = (c, w, lo, ro) ->
  (c = i + length lo + length ro)%nat /\ (c <= i + length rest)%nat.
Proof.
  induction rest as [|[b off] rest IH]; cbn [fw]; intros i j c w lo ro H.
  - inversion H; subst. cbn. lia.
  - destruct ((off <=? j) && (j <? off + len (bdom b))).
    + inversion H; subst. cbn. lia.
    + destruct (off <=? j).
      * destruct (fw rest (S i) _) as [[[c1 w1] lo1] ro1] eqn:E. inversion H; subst.
        apply IH in E. cbn [length]. lia.
      * destruct (fw rest (S i) _) as [[[c1 w1] lo1] ro1] eqn:E. inversion H; subst.
        apply IH in E. cbn [length]. lia.
Qed.

(* an independent reading of "following a wire": its position after passing the
   first k boxes of `rest` (boxes entirely to its left shift it by their change
   of width), whether a box takes it as input, on which side a box lies *)
Fixpoint wire_at (rest : list (box * Z)) (j : Z) (k : nat) : Z :=
  match k, rest with
  | S k', (b, off) :: rest' =>
      wire_at rest' (if off <=? j then j + (len (bcod b) - len (bdom b)) else j) k'
  | _, _ => j
  end.

Definition takes (bo : box * Z) (j : Z) : Prop := snd bo <= j < snd bo + len (bdom (fst bo)).

Definition on_left (rest : list (box * Z)) (j : Z) (m : nat) : bool :=
  match nth_error rest m with
  | Some bo => snd bo <=? wire_at rest j m
  | None => false
  end.

Lemma filter_map_comm {A B} (f : B -> bool) (g : A -> B) l :
  filter f (map g l) = map g (filter (fun x => f (g x)) l).
Proof. induction l as [|x l IH]; cbn; [auto|]. destruct (f (g x)); cbn; now rewrite IH. Qed.

(* follow_wire returns: the first box below the start that takes the wire as an
   input (or the number of boxes if it reaches the codomain), the position of the
   wire there, and the boxes passed on the way split into those entirely to the
   left of the wire and those to its right, each list in increasing order *)
Theorem fw_spec rest : forall i j c w lo ro, fw rest i j = (c, w, lo, ro) ->
  exists k, c = (i + k)%nat /\ (k <= length rest)%nat /\ w = wire_at rest j k /\
    (forall m bo, (m < k)%nat -> nth_error rest m = Some bo -> ~ takes bo (wire_at rest j m)) /\
    (forall bo, nth_error rest k = Some bo -> takes bo w) /\
    lo = map (Nat.add i) (filter (on_left rest j) (seq 0 k)) /\
    ro = map (Nat.add i) (filter (fun m => negb (on_left rest j m)) (seq 0 k)).
Proof.
  induction rest as [|[b off] rest IH]; cbn [fw]; intros i j c w lo ro H.
  - inversion H; subst. exists 0%nat. cbn [seq filter map wire_at length].
    split; [lia|]. split; [lia|]. split; [reflexivity|]. split; [intros m bo Hm; lia|].
    split; [intros bo Hbo; discriminate Hbo|]. split; reflexivity.
  - destruct ((off <=? j) && (j <? off + len (bdom b))) eqn:T.
    + inversion H; subst. exists 0%nat. cbn [seq filter map wire_at length].
      split; [lia|]. split; [lia|]. split; [reflexivity|]. split; [intros m bo Hm; lia|].
      split; [|split; reflexivity].
      intros bo Hbo. cbn in Hbo. inversion Hbo; subst. unfold takes; cbn [fst snd].
      apply andb_true_iff in T. destruct T as [T1 T2]. apply Z.leb_le in T1. apply Z.ltb_lt in T2. lia.
    + assert (NT : ~ takes (b, off) j).
      { unfold takes; cbn. intros [T1 T2]. apply Z.leb_le in T1. apply Z.ltb_lt in T2.
        rewrite T1, T2 in T. discriminate. }
      set (j' := if off <=? j then j + (len (bcod b) - len (bdom b)) else j).
      assert (Hrec : exists c1 w1 lo1 ro1, fw rest (S i) j' = (c1, w1, lo1, ro1) /\ c = c1 /\ w = w1 /\
                lo = (if off <=? j then i :: lo1 else lo1) /\ ro = (if off <=? j then ro1 else i :: ro1)).
      { subst j'. destruct (off <=? j).
        - destruct (fw rest (S i) _) as [[[c1 w1] lo1] ro1] eqn:E. inversion H; subst.
          exists c, w, lo1, ro. auto.
        - destruct (fw rest (S i) _) as [[[c1 w1] lo1] ro1] eqn:E. inversion H; subst.
          exists c, w, lo, ro1. auto. }
      destruct Hrec as (c1 & w1 & lo1 & ro1 & E & -> & -> & Hlo & Hro).
      destruct (IH _ _ _ _ _ _ E) as (k & Hc & Hk & Hw & Hnt & Htk & Hl & Hr).
      exists (S k). split; [lia|]. split; [cbn; lia|]. split; [exact Hw|]. split; [|split].
      * intros m bo Hm Hbo. destruct m as [|m]; cbn in Hbo |- *.
        -- inversion Hbo; subst. exact NT.
        -- apply Hnt; [lia|exact Hbo].
      * intros bo Hbo. cbn in Hbo. apply Htk; exact Hbo.
      * assert (Hside : forall m, on_left ((b, off) :: rest) j (S m) = on_left rest j' m) by reflexivity.
        assert (H0 : on_left ((b, off) :: rest) j 0 = (off <=? j)) by reflexivity.
        cbn [seq]. rewrite <- seq_shift. cbn [filter]. rewrite H0, !filter_map_comm.
        assert (Hmm : forall l, map (Nat.add i) (map S l) = map (Nat.add (S i)) l).
        { intros l. rewrite map_map. apply map_ext. intros a. lia. }
        rewrite (filter_ext (fun x => on_left ((b, off) :: rest) j (S x)) (on_left rest j') Hside).
        rewrite (filter_ext (fun x => negb (on_left ((b, off) :: rest) j (S x)))
                   (fun m => negb (on_left rest j' m)) (fun m => f_equal negb (Hside m))).
        rewrite Hlo, Hro, Hl, Hr.
        destruct (off <=? j); cbn [negb map]; rewrite !Hmm, ?Nat.add_0_r; split; reflexivity.
Qed.

(* ================================================================ find_snake *)
(* one leg of one cap, as find_snake tries it *)
Definition leg (d : diagram) (cap : nat) (ls : bool) : option snake :=
  match nth_error (dboxes d) cap, nth_error (doffs d) cap with
  | Some b, Some off => if is_cap b then try_leg d cap ls (if ls then off else off + 1) else None
  | _, _ => None
  end.

Lemma find_snake_from_step d cap n :
  find_snake_from d cap (S n) =
  match leg d cap true with
  | Some r => Some r
  | None => match leg d cap false with
            | Some r => Some r
            | None => find_snake_from d (S cap) n
            end
  end.
Proof.
  cbn [find_snake_from]. unfold leg.
  destruct (nth_error (dboxes d) cap) as [b|]; [|reflexivity].
  destruct (nth_error (doffs d) cap) as [off|]; [|reflexivity].
  destruct (is_cap b); reflexivity.
Qed.

(* the pair satisfies a snake equation: Cap(a, b) against Cup(b, a) *)
Definition matched (d : diagram) (cup cap : nat) : bool :=
  match nth_error (dboxes d) cup, nth_error (dboxes d) cap with
  | Some bu, Some ba => ty_eqb (bdom bu) (rev (bcod ba))
  | _, _ => false
  end.

(* "a leg of the cap at index cap runs straight into the opposite leg of a
   MATCHING cup": following the left (right) leg, the first box that takes the
   wire is a cup, the wire is its right (left) input, and the cup eats the cap's
   two types in the opposite order (the test added by the repair of F2) *)
Definition runs_into_cup (d : diagram) (cap : nat) (ls : bool) : Prop :=
  exists bcap off, nth_error (dboxes d) cap = Some bcap /\ nth_error (doffs d) cap = Some off /\
    is_cap bcap = true /\
    let '(c, w, _, _) := follow_wire d cap (if ls then off else off + 1) in
    exists bcup offc, nth_error (dboxes d) c = Some bcup /\ nth_error (doffs d) c = Some offc /\
      is_cup bcup = true /\ w = (if ls then offc + 1 else offc) /\ bdom bcup = rev (bcod bcap).

Lemma try_leg_some d cap ls wire r : try_leg d cap ls wire = Some r ->
  exists c w lo ro bcup offc bcap, follow_wire d cap wire = (c, w, lo, ro) /\ r = (c, cap, (lo, ro), ls) /\
    nth_error (dboxes d) c = Some bcup /\ nth_error (doffs d) c = Some offc /\
    is_cup bcup = true /\ w = (if ls then offc + 1 else offc) /\
    nth_error (dboxes d) cap = Some bcap /\ bdom bcup = rev (bcod bcap).
Proof.
  unfold try_leg. destruct (follow_wire d cap wire) as [[[c w] lo] ro] eqn:F.
  destruct (Nat.eqb c (length (dboxes d))); cbn [orb]; [discriminate|].
  destruct (nth_error (dboxes d) c) as [bcup|] eqn:B; [|discriminate].
  destruct (nth_error (doffs d) c) as [offc|] eqn:O; [|discriminate].
  destruct (is_cup bcup) eqn:C; cbn [negb orb]; [|discriminate].
  destruct (nth_error (dboxes d) cap) as [bcap|] eqn:Bc.
  2: { rewrite !orb_true_r. discriminate. }
  destruct (ty_eqb (bdom bcup) (rev (bcod bcap))) eqn:M; cbn [negb].
  2: { rewrite !orb_true_r. discriminate. }
  apply ty_eqb_eq in M. rewrite orb_false_r.
  intros H. exists c, w, lo, ro, bcup, offc, bcap.
  destruct ls; cbn [negb andb orb] in H.
  - destruct (offc + 1 =? w) eqn:E; cbn in H; [|discriminate]. apply Z.eqb_eq in E.
    inversion H; subst. repeat split; auto.
  - destruct (offc =? w) eqn:E; cbn in H; [|discriminate]. apply Z.eqb_eq in E.
    inversion H; subst. repeat split; auto.
Qed.

Lemma try_leg_none d cap ls wire bcap : try_leg d cap ls wire = None ->
  nth_error (dboxes d) cap = Some bcap ->
  let '(c, w, _, _) := follow_wire d cap wire in
  ~ exists bcup offc, nth_error (dboxes d) c = Some bcup /\ nth_error (doffs d) c = Some offc /\
      is_cup bcup = true /\ w = (if ls then offc + 1 else offc) /\ bdom bcup = rev (bcod bcap).
Proof.
  unfold try_leg. destruct (follow_wire d cap wire) as [[[c w] lo] ro].
  intros H Bc (bcup & offc & B & O & C & W & M).
  rewrite B, O, C, Bc, M, ty_eqb_refl in H. cbn [negb orb] in H. rewrite orb_false_r in H.
  assert (Hn : Nat.eqb c (length (dboxes d)) = false).
  { apply Nat.eqb_neq. intros ->. assert (X : nth_error (dboxes d) (length (dboxes d)) <> None) by (rewrite B; discriminate).
    apply nth_error_Some in X. lia. }
  rewrite Hn in H. cbn [orb] in H. subst w.
  destruct ls; cbn [negb andb orb] in H; rewrite Z.eqb_refl in H; discriminate.
Qed.

Lemma leg_none_iff d cap ls : leg d cap ls = None <-> ~ runs_into_cup d cap ls.
Proof.
  unfold leg, runs_into_cup. split.
  - intros H (bcap & off & B & O & C & R). rewrite B, O, C in H.
    apply (try_leg_none _ _ _ _ bcap) in H; [|exact B].
    destruct (follow_wire d cap _) as [[[c w] lo] ro]. auto.
  - intros H. destruct (nth_error (dboxes d) cap) as [b|] eqn:B; [|reflexivity].
    destruct (nth_error (doffs d) cap) as [off|] eqn:O; [|reflexivity].
    destruct (is_cap b) eqn:C; [|reflexivity].
    destruct (try_leg d cap ls _) as [r|] eqn:T; [|reflexivity].
    exfalso. apply H. exists b, off. repeat split; auto.
    apply try_leg_some in T.
    destruct T as (c & w & lo & ro & bcup & offc & bcap & F & _ & T1 & T2 & T3 & T4 & T5 & T6).
    rewrite F. exists bcup, offc. rewrite B in T5. inversion T5; subst bcap. auto.
Qed.

Lemma leg_some d cap ls r : leg d cap ls = Some r ->
  runs_into_cup d cap ls /\
  exists c w lo ro off, nth_error (doffs d) cap = Some off /\
    follow_wire d cap (if ls then off else off + 1) = (c, w, lo, ro) /\ r = (c, cap, (lo, ro), ls) /\
    (c < length (dboxes d))%nat /\ matched d c cap = true.
Proof.
  unfold leg, runs_into_cup. intros H.
  destruct (nth_error (dboxes d) cap) as [b|] eqn:B; [|discriminate].
  destruct (nth_error (doffs d) cap) as [off|] eqn:O; [|discriminate].
  destruct (is_cap b) eqn:C; [|discriminate].
  apply try_leg_some in H.
  destruct H as (c & w & lo & ro & bcup & offc & bcap & F & -> & Bc & Oc & Cc & Hw & Bcap & M).
  rewrite B in Bcap. inversion Bcap; subst bcap.
  split.
  - exists b, off. repeat split; auto. rewrite F. exists bcup, offc. auto.
  - exists c, w, lo, ro, off. repeat split; auto.
    + apply nth_error_Some. rewrite Bc. discriminate.
    + unfold matched. rewrite Bc, B. apply ty_eqb_eq. exact M.
Qed.

Lemma find_snake_from_none d n : forall cap, find_snake_from d cap n = None <->
  forall c ls, (cap <= c < cap + n)%nat -> ~ runs_into_cup d c ls.
Proof.
  induction n as [|n IH]; intros cap.
  - cbn. split; [intros _ c ls Hc; lia|auto].
  - rewrite find_snake_from_step. split.
    + intros H. destruct (leg d cap true) eqn:L1; [discriminate|].
      destruct (leg d cap false) eqn:L2; [discriminate|].
      intros c ls Hc. destruct (Nat.eq_dec c cap) as [->|Hne].
      * destruct ls; apply leg_none_iff; auto.
      * apply (proj1 (IH (S cap)) H). lia.
    + intros H. rewrite (proj2 (leg_none_iff d cap true)) by (apply H; lia).
      rewrite (proj2 (leg_none_iff d cap false)) by (apply H; lia).
      apply IH. intros c ls Hc. apply H. lia.
Qed.

Lemma find_snake_from_some d n : forall cap0 r, find_snake_from d cap0 n = Some r ->
  exists cap ls, (cap0 <= cap < cap0 + n)%nat /\ leg d cap ls = Some r /\
    (forall c ls', (cap0 <= c < cap)%nat -> ~ runs_into_cup d c ls') /\
    (ls = false -> ~ runs_into_cup d cap true).
Proof.
  induction n as [|n IH]; intros cap0 r H; [discriminate|].
  rewrite find_snake_from_step in H.
  destruct (leg d cap0 true) eqn:L1.
  - inversion H; subst. exists cap0, true.
    split; [lia|]. split; [exact L1|]. split; [intros c ls' Hc; lia|discriminate].
  - destruct (leg d cap0 false) eqn:L2.
    + inversion H; subst. exists cap0, false.
      split; [lia|]. split; [exact L2|]. split; [intros c ls' Hc; lia|].
      intros _. apply leg_none_iff. exact L1.
    + destruct (IH _ _ H) as (cap & ls & Hc & Hl & Hfirst & Hleft).
      exists cap, ls. split; [lia|]. split; [exact Hl|]. split; [|exact Hleft].
      intros c ls' Hc'. destruct (Nat.eq_dec c cap0) as [->|Hne].
      * destruct ls'; apply leg_none_iff; auto.
      * apply Hfirst. lia.
Qed.

(* C07, result clause: find_snake gives up exactly when no cap has a leg running
   straight into the opposite leg of a cup *)
Theorem find_snake_none_iff d :
  find_snake d = None <-> forall cap ls, ~ runs_into_cup d cap ls.
Proof.
  unfold find_snake. rewrite find_snake_from_none. split.
  - intros H cap ls. destruct (Nat.lt_ge_cases cap (length (dboxes d))) as [Hlt|Hge].
    + apply H. lia.
    + intros (bcap & off & B & _). apply nth_error_None in Hge. congruence.
  - intros H c ls _. apply H.
Qed.

(* ... and what it returns otherwise: the first such cap from the top, left leg
   first, together with what follow_wire found on the way *)
Theorem find_snake_some d cup cap lo ro ls : find_snake d = Some (cup, cap, (lo, ro), ls) ->
  runs_into_cup d cap ls /\
  (forall c ls', (c < cap)%nat -> ~ runs_into_cup d c ls') /\
  (ls = false -> ~ runs_into_cup d cap true) /\
  (exists off w, nth_error (doffs d) cap = Some off /\
     follow_wire d cap (if ls then off else off + 1) = (cup, w, lo, ro)) /\
  (cup = S cap + length lo + length ro)%nat /\ (cup < length (dboxes d))%nat /\
  matched d cup cap = true.
Proof.
  unfold find_snake. intros H.
  destruct (find_snake_from_some _ _ _ _ H) as (cap' & ls' & Hc & Hl & Hfirst & Hleft).
  destruct (leg_some _ _ _ _ Hl) as (R & c & w & lo' & ro' & off & O & F & Er & Hn & Hm).
  inversion Er; subst. split; [exact R|]. split; [intros c0 l0 H0; apply Hfirst; lia|].
  split; [exact Hleft|]. split; [exists off, w; auto|].
  unfold follow_wire in F. apply fw_count in F. split; [lia|]. split; [exact Hn|exact Hm].
Qed.

(* ================================================================ errors of interchange *)
Lemma interchange_adj_err d i l e : interchange_adj d i l = Err e -> e <> OutOfFuel.
Proof.
  unfold interchange_adj.
  destruct (nth_error (la_ls (dlayers d)) i) as [[[left0 box0] right0]|];
    [|intros H; inversion H; discriminate].
  destruct (nth_error (la_ls (dlayers d)) (S i)) as [[[left1 box1] right1]|];
    [|intros H; inversion H; discriminate].
  destruct (nth_error (doffs d) i) as [off0|]; [|intros H; inversion H; discriminate].
  destruct (nth_error (doffs d) (S i)) as [off1|]; [|intros H; inversion H; discriminate].
  match goal with |- context [match ?p with Some _ => _ | None => _ end] =>
    destruct p as [[[[o0 o1] l0] l1]|] end; [|intros H; inversion H; discriminate].
  destruct (la_then _ _) as [a1|e1] eqn:A1; cbn [bind].
  2: { intros H; inversion H; subst. apply la_then_err in A1. destruct A1 as [-> _]. discriminate. }
  destruct (la_then a1 _) as [a2|e2] eqn:A2; cbn [bind].
  2: { intros H; inversion H; subst. apply la_then_err in A2. destruct A2 as [-> _]. discriminate. }
  destruct (la_then a2 _) as [a3|e3] eqn:A3; cbn [bind]; [discriminate|].
  intros H; inversion H; subst. apply la_then_err in A3. destruct A3 as [-> _]. discriminate.
Qed.

Lemma interchange_err d i j l e : interchange d i j l = Err e -> e <> OutOfFuel.
Proof.
  unfold interchange. destruct (negb _); [intros H; inversion H; discriminate|].
  destruct (i =? j); [discriminate|].
  assert (Up : forall n d i, interchange_up d i n l = Err e -> e <> OutOfFuel).
  { induction n as [|n IH]; cbn; intros d0 i0 H; [discriminate|].
    destruct (interchange_adj d0 i0 l) eqn:E; cbn in H; [eauto|].
    inversion H; subst. eapply interchange_adj_err; eauto. }
  assert (Down : forall n d i, interchange_down d i n l = Err e -> e <> OutOfFuel).
  { induction n as [|n IH]; cbn; intros d0 i0 H; [discriminate|].
    destruct (interchange_adj d0 (i0 - 1) l) eqn:E; cbn in H; [eauto|].
    inversion H; subst. eapply interchange_adj_err; eauto. }
  destruct (j <? i); eauto.
Qed.

Lemma move_loop_err to_cap upd l : forall s s' e,
  move_loop to_cap upd l s = (s', Some e) -> e <> OutOfFuel.
Proof.
  induction l as [|bx l IH]; cbn [move_loop]; intros s s' e H; [discriminate|].
  destruct (interchange (us_d s) bx _ false) as [d1|e1] eqn:E; [eauto|].
  inversion H; subst. eapply interchange_err; eauto.
Qed.

Lemma unsnake_err d cup cap lo ro ls d' ys e :
  unsnake d cup cap lo ro ls = (d', ys, Some e) -> e <> OutOfFuel.
Proof.
  rewrite unsnake_unfold. destruct (unsnake_loops d cup cap lo ro ls) as [s2 e2] eqn:E.
  destruct e2 as [e2|].
  - intros H; inversion H; subst. unfold unsnake_loops in E. destruct ls.
    + destruct (move_loop true upd_up _ _) as [s1 [e1|]] eqn:E1.
      * inversion E; subst. eapply move_loop_err; eauto.
      * eapply move_loop_err; eauto.
    + destruct (move_loop false upd_down _ _) as [s1 [e1|]] eqn:E1.
      * inversion E; subst. eapply move_loop_err; eauto.
      * eapply move_loop_err; eauto.
  - destruct (delete_pair _ _ _) eqn:D; [discriminate|]. intros H; inversion H; subst.
    apply delete_pair_err in D. subst. discriminate.
Qed.

(* ================================================================ the outer loop *)
Lemma keeps_refl d : wf d -> keeps d d.
Proof. unfold keeps; auto. Qed.
Lemma keeps_trans d0 d x : keeps d0 d -> keeps d x -> keeps d0 x.
Proof. unfold keeps. intros (W0 & A0 & B0) (W1 & A1 & B1). rewrite A1, B1. auto. Qed.

Lemma snake_loop_wf d0 fuel : forall d acc d' ys e,
  keeps d0 d -> Forall (keeps d0) acc ->
  snake_loop fuel d acc = (d', ys, e) -> keeps d0 d' /\ Forall (keeps d0) ys.
Proof.
  induction fuel as [|fuel IH]; cbn [snake_loop]; intros d acc d' ys e K A H.
  - inversion H; subst. auto.
  - destruct (find_snake d) as [[[[cup cap] [lo ro]] ls]|]; [|inversion H; subst; auto].
    destruct (unsnake d cup cap lo ro ls) as [[d1 ys1] e1] eqn:U.
    destruct (unsnake_steps_wf _ _ _ _ _ _ _ _ _ (proj1 K) U) as [K1 A1].
    assert (K1' : keeps d0 d1) by exact (keeps_trans _ _ _ K K1).
    assert (A1' : Forall (keeps d0) (ys1 ++ acc)).
    { apply Forall_app. split; [|exact A]. eapply Forall_impl; [|exact A1].
      intros x Hx. exact (keeps_trans _ _ _ K Hx). }
    destruct e1; [inversion H; subst; auto|]. eapply IH; eauto.
Qed.

(* each successful unsnake removes exactly two boxes, so the loop stops within
   length / 2 iterations: the model's fuel is never exhausted *)
Theorem snake_loop_fuel fuel : forall d acc d' ys e, wf d ->
  (length (dboxes d) < 2 * fuel)%nat ->
  snake_loop fuel d acc = (d', ys, e) -> e <> Some OutOfFuel.
Proof.
  induction fuel as [|fuel IH]; cbn [snake_loop]; intros d acc d' ys e Hwf Hn H; [lia|].
  destruct (find_snake d) as [[[[cup cap] [lo ro]] ls]|] eqn:F; [|inversion H; subst; discriminate].
  destruct (unsnake d cup cap lo ro ls) as [[d1 ys1] e1] eqn:U.
  destruct (unsnake_steps_wf _ _ _ _ _ _ _ _ _ Hwf U) as [K1 _].
  destruct e1 as [e1|].
  - inversion H; subst. intros Heq. inversion Heq; subst. eapply unsnake_err; eauto.
  - destruct (find_snake_some _ _ _ _ _ _ F) as (_ & _ & _ & _ & Hc & Hlt & _).
    pose proof (unsnake_success_count _ _ _ _ _ _ _ _ Hwf U Hc Hlt) as Hcount.
    eapply IH; [exact (proj1 K1)| |exact H]. lia.
Qed.

Theorem snake_removal_box_count d cup cap lo ro ls d' ys : wf d ->
  find_snake d = Some (cup, cap, (lo, ro), ls) ->
  unsnake d cup cap lo ro ls = (d', ys, None) ->
  (length (dboxes d') + 2 = length (dboxes d))%nat.
Proof.
  intros Hwf F U. destruct (find_snake_some _ _ _ _ _ _ F) as (_ & _ & _ & _ & Hc & Hlt & _).
  exact (unsnake_success_count _ _ _ _ _ _ _ _ Hwf U Hc Hlt).
Qed.

Theorem snake_phase_terminates d d' ys e : wf d -> snake_phase d = (d', ys, e) -> e <> Some OutOfFuel.
Proof. intros Hwf H. eapply snake_loop_fuel; [exact Hwf| |exact H]. lia. Qed.

(* ================================================================ traces *)
Lemma normalize_pass_acc n : forall d i left acc moved d' acc' moved',
  normalize_pass d i n left acc moved = Ok (d', acc', moved') ->
  exists new, acc' = new ++ acc /\
    forall acc2, normalize_pass d i n left acc2 moved = Ok (d', new ++ acc2, moved').
Proof.
  induction n as [|n IH]; cbn [normalize_pass]; intros d i left acc moved d' acc' moved' H.
  - inversion H; subst. exists []. split; [reflexivity|]. intros acc2. reflexivity.
  - destruct (can_move d i left).
    + destruct (interchange_adj d i left) as [d1|] eqn:E; cbn [bind] in H |- *; [|discriminate].
      destruct (IH _ _ _ _ _ _ _ _ H) as (new & -> & Hall).
      exists (new ++ [d1]). split; [now rewrite <- app_assoc|].
      intros acc2. rewrite <- app_assoc. apply Hall.
    + exact (IH _ _ _ _ _ _ _ _ H).
Qed.

Lemma norm_loop_wf d0 fuel : forall d left acc acc' st,
  keeps d0 d -> Forall (keeps d0) acc ->
  norm_loop fuel d left acc = (acc', st) -> Forall (keeps d0) acc'.
Proof.
  induction fuel as [|fuel IH]; cbn [norm_loop]; intros d left acc acc' st K A H.
  - inversion H; subst. exact A.
  - destruct (normalize_pass d 0 (length (dboxes d) - 1) left acc false) as [[[d1 acc1] moved]|] eqn:E.
    2: { inversion H; subst. exact A. }
    destruct (normalize_pass_acc _ _ _ _ _ _ _ _ _ E) as (new & -> & Hall).
    pose proof (Hall []) as E0. rewrite app_nil_r in E0.
    destruct (normalize_pass_wf _ _ _ _ _ _ _ _ _ (proj1 K) (Forall_nil _) (Forall_nil _) E0)
      as (W1 & S1 & Wn & Sn).
    assert (Kx : forall x, wf x -> same_shape d x -> keeps d0 x).
    { intros x Wx (Sa & Sb & _). destruct K as (_ & Ka & Kb). unfold keeps. rewrite Sa, Sb. auto. }
    assert (A1 : Forall (keeps d0) (new ++ acc)).
    { apply Forall_app. split; [|exact A]. rewrite Forall_forall in *. intros x Hx. apply Kx; auto. }
    destruct moved.
    + eapply IH; [apply Kx; eauto|exact A1|exact H].
    + inversion H; subst. exact A1.
Qed.

Lemma Forall_firstn {A} (P : A -> Prop) n : forall l, Forall P l -> Forall P (firstn n l).
Proof.
  induction n as [|n IH]; intros l H; [constructor|]. destruct l; [constructor|].
  inversion H; subst. cbn. constructor; auto.
Qed.

(* C07, clause 1 for the whole generator: every diagram yielded by
   rigid.Diagram.normalize -- interchange steps of unsnake, diagrams with a pair
   deleted, steps of the final monoidal normalisation -- is well-typed and has
   the input's domain and codomain; holds for every prefix of the trace (any
   yield limit), whether the generator then stops, raises or is cut *)
Theorem snake_removal_steps_wf limit d left tr st : wf d ->
  rigid_trace limit d left = (tr, st) -> Forall (keeps d) tr.
Proof.
  intros Hwf H. unfold rigid_trace in H.
  destruct (snake_phase d) as [[d1 ys] e] eqn:SP. unfold snake_phase in SP.
  destruct (snake_loop_wf d _ _ _ _ _ _ (keeps_refl d Hwf) (Forall_nil _) SP) as [K1 A1].
  assert (HA : forall acc st0, (match e with Some e' => (ys, Raised e') | None => norm_loop (S limit) d1 left ys end)
                                 = (acc, st0) -> Forall (keeps d) acc).
  { intros acc st0 Hacc. destruct e; [inversion Hacc; subst; exact A1|].
    eapply norm_loop_wf; eauto. }
  destruct (match e with Some e' => (ys, Raised e') | None => norm_loop (S limit) d1 left ys end)
    as [acc st0] eqn:Eacc.
  pose proof (HA _ _ eq_refl) as Hacc.
  destruct (Nat.ltb limit (length (rev acc))); inversion H; subst.
  - apply Forall_firstn, Forall_rev, Hacc.
  - apply Forall_rev, Hacc.
Qed.

(* ... and the normal form, when there is one *)
Theorem rigid_normal_form_wf fuel d left d' : wf d ->
  rigid_normal_form fuel d left = Ok d' -> keeps d d'.
Proof.
  intros Hwf H. unfold rigid_normal_form in H.
  destruct (snake_phase d) as [[d1 ys] e] eqn:SP. unfold snake_phase in SP.
  destruct (snake_loop_wf d _ _ _ _ _ _ (keeps_refl d Hwf) (Forall_nil _) SP) as [K1 A1].
  destruct (first_repeat [] (rev ys)); [discriminate|]. destruct e; [discriminate|].
  destruct (nf_loop_wf _ _ _ _ _ (proj1 K1) H) as [W (Sa & Sb & _)].
  destruct K1 as (_ & Ka & Kb). unfold keeps. rewrite Sa, Sb. auto.
Qed.

(* ================================================================ which pairs are removed *)
(* rigid diagrams: cups are 2 -> 0, caps are 0 -> 2 (what Cup / Cap build) *)
Definition rigid_ok (d : diagram) : Prop := forall b, In b (dboxes d) -> box_ok b = true.

(* C07: only cap / cup pairs that satisfy a snake equation are ever removed --
   FULL, obstructions or not: unsnake is only ever called on what find_snake
   selected, and that pair is type-matched (Cap(a, b) against Cup(b, a)) *)
Theorem unsnake_removes_matching_pair_only d cup cap lo ro ls :
  find_snake d = Some (cup, cap, (lo, ro), ls) -> matched d cup cap = true.
Proof. intros F. destruct (find_snake_some _ _ _ _ _ _ F) as (_ & _ & _ & _ & _ & _ & M). exact M. Qed.

(* one call of unsnake runs to completion (no InterchangerError, IndexError or
   AxiomError) *)
Definition unsnake_completes (d : diagram) (cup cap : nat) (lo ro : list nat) (ls : bool) : Prop :=
  exists d' ys, unsnake d cup cap lo ro ls = (d', ys, None).

(* FULL statements (never asserted): totality of snake removal for arbitrary
   obstructions, per call of unsnake and for normal_form as a whole *)
Definition snake_removal_total_stmt : Prop :=
  forall d cup cap lo ro ls, wf d -> rigid_ok d ->
    find_snake d = Some (cup, cap, (lo, ro), ls) -> unsnake_completes d cup cap lo ro ls.

Definition normal_form_total_stmt : Prop :=
  forall d left fuel, wf d -> rigid_ok d ->
    match rigid_normal_form fuel d left with
    | Ok _ => True
    | Err e => e = NotImplementedError \/ e = OutOfFuel
    end.

Lemma unsnake_nil d cup cap ls :
  unsnake d cup cap [] [] ls =
  match delete_pair d (Z.of_nat cap) (Z.of_nat cup) with
  | Ok d' => (d', [d'], None)
  | Err e' => (d, [], Some e')
  end.
Proof. destruct ls; reflexivity. Qed.

Lemma delete_pair_adjacent d cap : wf d -> (S cap < length (dboxes d))%nat ->
  let T1 := type_at (ddom d) (la_ls (dlayers d)) cap in
  let T2 := type_at (ddom d) (la_ls (dlayers d)) (S (S cap)) in
  (T1 = T2 -> exists d', delete_pair d (Z.of_nat cap) (Z.of_nat (S cap)) = Ok d') /\
  (T1 <> T2 -> delete_pair d (Z.of_nat cap) (Z.of_nat (S cap)) = Err AxiomError).
Proof.
  intros Hwf Hn T1 T2. pose proof Hwf as (W1 & W2 & W3 & W4 & W5).
  pose proof (wf_lengths d Hwf) as [Lb _].
  unfold delete_pair. rewrite la_slice_prefix_gen, la_slice_suffix_gen by exact W3.
  rewrite pre_k_nonneg, suf_k_nonneg by (unfold len; lia).
  replace (Z.to_nat (Z.of_nat cap)) with cap by lia.
  replace (Z.to_nat (Z.of_nat (S cap) + 1)) with (S (S cap)) by lia.
  rewrite W1. fold T1 T2. unfold la_then; cbn [la_dom la_cod la_ls]. split.
  - intros ->. rewrite ty_eqb_refl. cbn [bind]. eexists; reflexivity.
  - intros Hne. destruct (ty_eqb T1 T2) eqn:E; [apply ty_eqb_eq in E; contradiction|]. reflexivity.
Qed.

Lemma nth_error_layer d k b off : wf d ->
  nth_error (dboxes d) k = Some b -> nth_error (doffs d) k = Some off ->
  exists L, nth_error (la_ls (dlayers d)) k = Some L /\ lbox L = b /\ len (lleft L) = off.
Proof.
  intros (_ & _ & _ & W4 & W5) B O. rewrite W4 in B. rewrite W5 in O.
  rewrite nth_error_map in B, O.
  destruct (nth_error (la_ls (dlayers d)) k) as [L|]; [|discriminate].
  cbn in B, O. inversion B; inversion O; subst. exists L. auto.
Qed.

Lemma list2 {A} (l : list A) : len l = 2 -> exists a b, l = [a; b].
Proof.
  destruct l as [|a [|b [|c l]]]; rewrite ?len_cons, ?len_nil; try lia.
  - intros _. exists a, b. reflexivity.
  - pose proof (len_nonneg l). lia.
Qed.

(* the type algebra of an adjacent cap / cup pair *)
Lemma snake_types_left {A} (L R L' R' : list A) a b c e :
  L ++ [a; b] ++ R = L' ++ [c; e] ++ R' -> length L = S (length L') ->
  e = a /\ (L ++ R = L' ++ R' <-> c = b).
Proof.
  intros H HL. change (L' ++ [c; e] ++ R') with (L' ++ [c] ++ e :: R') in H.
  rewrite (app_assoc L' [c] (e :: R')) in H. apply app_eq_len_split in H; [|rewrite app_length; cbn; lia].
  destruct H as [-> H]. inversion H; subst. split; [reflexivity|].
  rewrite <- app_assoc. split.
  - intros E. apply app_inv_head in E. inversion E; reflexivity.
  - intros ->. reflexivity.
Qed.

Lemma snake_types_right {A} (L R L' R' : list A) a b c e :
  L ++ [a; b] ++ R = L' ++ [c; e] ++ R' -> length L' = S (length L) ->
  c = b /\ (L ++ R = L' ++ R' <-> e = a).
Proof.
  intros H HL. change (L ++ [a; b] ++ R) with (L ++ [a] ++ b :: R) in H.
  rewrite (app_assoc L [a] (b :: R)) in H. symmetry in H. apply app_eq_len_split in H; [|rewrite app_length; cbn; lia].
  destruct H as [-> H]. inversion H; subst. split; [reflexivity|].
  rewrite <- app_assoc. split.
  - intros E. apply app_inv_head in E. inversion E; reflexivity.
  - intros ->. reflexivity.
Qed.

(* PARTIAL: the full statement for snakes without obstructions (the cap is
   immediately followed by the cup).  What is missing for the general case is the
   planar argument that every interchange requested by the two obstruction loops
   is legal and that the bookkeeping leaves the pair adjacent at the right
   offsets (DESIGN.md, C07, "route to completion"). *)
Theorem snake_removal_total_partial d cup cap ls : wf d -> rigid_ok d ->
  find_snake d = Some (cup, cap, ([], []), ls) -> unsnake_completes d cup cap [] [] ls.
Proof.
  intros Hwf Hr F. pose proof Hwf as (W1 & W2 & W3 & W4 & W5).
  destruct (find_snake_some _ _ _ _ _ _ F) as (R & _ & _ & (off & w & O & FW) & Hc & Hlt & Hm).
  cbn [length] in Hc. rewrite !Nat.add_0_r in Hc. subst cup.
  destruct R as (bcap & off' & B & O' & C & R). rewrite O in O'. inversion O'; subst off'. clear O'.
  rewrite FW in R. destruct R as (bcup & offc & Bc & Oc & Cc & Hw & _).
  (* the wire was not displaced: no box was passed *)
  assert (Hwire : w = if ls then off else off + 1).
  { unfold follow_wire in FW. destruct (fw_spec _ _ _ _ _ _ _ FW) as (k & Hk & _ & Hwk & _).
    assert (k = 0)%nat by lia. subst k. rewrite Hwk. destruct (skipn _ _) as [|[? ?] ?]; reflexivity. }
  destruct (nth_error_layer _ _ _ _ Hwf B O) as (Lcap & NL & BL & OL).
  destruct (nth_error_layer _ _ _ _ Hwf Bc Oc) as (Lcup & NU & BU & OU).
  destruct (type_at_nth _ _ _ _ _ W3 NL) as [TA TB].
  destruct (type_at_nth _ _ _ _ _ W3 NU) as [TC TD].
  rewrite W1 in TA, TB, TC, TD.
  (* shapes of the two boxes *)
  assert (Kcap : bk bcap = KCap).
  { unfold is_cap in C. apply bkind_eqb_eq in C. exact C. }
  assert (Kcup : bk bcup = KCup).
  { unfold is_cup in Cc. apply bkind_eqb_eq in Cc. exact Cc. }
  pose proof (Hr bcap (nth_error_In _ _ B)) as OKcap. unfold box_ok in OKcap. rewrite Kcap in OKcap.
  pose proof (Hr bcup (nth_error_In _ _ Bc)) as OKcup. unfold box_ok in OKcup. rewrite Kcup in OKcup.
  apply andb_true_iff in OKcap, OKcup. destruct OKcap as [Cd Cc2], OKcup as [Ud Uc].
  apply Z.eqb_eq in Cd, Cc2, Ud, Uc.
  apply len_zero_nil in Cd, Uc. destruct (list2 _ Cc2) as (a & b & Ecap). destruct (list2 _ Ud) as (c & e & Ecup).
  (* the types before, between and after the two layers *)
  unfold ldom, lcod in TA, TB, TC, TD. rewrite BL in TA, TB. rewrite BU in TC, TD.
  rewrite Cd in TA. rewrite Ecap in TB. rewrite Ecup in TC. rewrite Uc in TD. cbn [app] in TA, TD.
  assert (Hmid : lleft Lcap ++ [a; b] ++ lright Lcap = lleft Lcup ++ [c; e] ++ lright Lcup) by congruence.
  (* matched <-> the type before equals the type after *)
  assert (Hiff : type_at (ddom d) (la_ls (dlayers d)) cap = type_at (ddom d) (la_ls (dlayers d)) (S (S cap))
                 <-> matched d (S cap) cap = true).
  { unfold matched. rewrite Bc, B, Ecup, Ecap. cbn [rev app]. rewrite ty_eqb_eq. rewrite TA, TD.
    destruct ls.
    - destruct (snake_types_left _ _ _ _ _ _ _ _ Hmid) as [-> Hx]; [unfold len in *; lia|].
      rewrite Hx. split; [intros ->; reflexivity|intros E; inversion E; reflexivity].
    - destruct (snake_types_right _ _ _ _ _ _ _ _ Hmid) as [-> Hx]; [unfold len in *; lia|].
      rewrite Hx. split; [intros ->; reflexivity|intros E; inversion E; reflexivity]. }
  unfold unsnake_completes. rewrite unsnake_nil.
  destruct (delete_pair_adjacent d cap Hwf Hlt) as [Dok _].
  destruct (Dok (proj2 Hiff Hm)) as [d' ->]. eauto.
Qed.

(* ================================================================ the finding and non-vacuity *)
Definition ox (z : Z) : ob := Ob 1 z.
Definition oy : ob := Ob 2 0.
Definition bcap_ (a b : ob) : box := Box KCap (-3) [] [a; b] false None.
Definition bcup_ (a b : ob) : box := Box KCup (-2) [a; b] [] false None.

Definition get (r : res diagram) : diagram := match r with Ok d => d | Err _ => did [] end.

(* the former finding F2: Id(x.l) @ Cap(x, x.r) >> Cup(x.l, x) @ Id(x.r) *)
Definition twisted_d : diagram :=
  Eval vm_compute in get (build [ox (-1)] [ox 1] [bcap_ (ox 0) (ox 1); bcup_ (ox (-1)) (ox 0)] [1; 0]).

Lemma twisted_build :
  build [ox (-1)] [ox 1] [bcap_ (ox 0) (ox 1); bcup_ (ox (-1)) (ox 0)] [1; 0] = Ok twisted_d.
Proof. vm_compute. reflexivity. Qed.

Lemma build_wf dom cod bs offs d : build dom cod bs offs = Ok d -> wf d.
Proof. unfold build. destruct (mapM check_box bs); cbn [bind]; [apply mk_wf|discriminate]. Qed.

Lemma twisted_rigid_ok : rigid_ok twisted_d.
Proof. intros b [<-|[<-|[]]]; reflexivity. Qed.

(* regression for F2 (fixed by 0cc87cd): the twisted snake -- a well-typed rigid
   diagram whose cap leg runs into the opposite leg of a cup of the WRONG types --
   is not selected, nothing is yielded, nothing is raised, and the normal form is
   the diagram itself *)
Example twisted_left_in_place :
  wf twisted_d /\ rigid_ok twisted_d /\
  find_snake twisted_d = None /\
  rigid_trace trace_limit twisted_d false = ([], Done) /\
  rigid_normal_form nf_fuel twisted_d false = Ok twisted_d.
Proof.
  split; [exact (build_wf _ _ _ _ _ twisted_build)|]. split; [exact twisted_rigid_ok|].
  repeat split; vm_compute; reflexivity.
Qed.

(* non-vacuity: a left snake obstructed on both sides
   (y x y: Cap(x.r, x) at 2, k at 4, k at 0, u at 3, u at 0, Cup(x, x.r) at 1) *)
Definition bk_ : box := Box KBox 15 [oy] [] false None.
Definition bu_ : box := Box KBox 14 [] [oy] false None.
Definition obstructed_d : diagram :=
  Eval vm_compute in get (build [oy; ox 0; oy] [oy; ox 0; oy]
    [bcap_ (ox 1) (ox 0); bk_; bk_; bu_; bu_; bcup_ (ox 0) (ox 1)] [2; 4; 0; 3; 0; 1]).

Lemma obstructed_build :
  build [oy; ox 0; oy] [oy; ox 0; oy]
    [bcap_ (ox 1) (ox 0); bk_; bk_; bu_; bu_; bcup_ (ox 0) (ox 1)] [2; 4; 0; 3; 0; 1] = Ok obstructed_d.
Proof. vm_compute. reflexivity. Qed.

Example obstructed_wf : wf obstructed_d.
Proof. exact (build_wf _ _ _ _ _ obstructed_build). Qed.

Example obstructed_rigid_ok : rigid_ok obstructed_d.
Proof. intros b [<-|[<-|[<-|[<-|[<-|[<-|[]]]]]]]; reflexivity. Qed.

Example obstructed_find : find_snake obstructed_d = Some (5%nat, 0%nat, ([2%nat; 4%nat], [1%nat; 3%nat]), true).
Proof. vm_compute. reflexivity. Qed.

(* four interchanges, then the deletion; the snake is matched and the full
   statement holds at this instance although it has obstructions on both sides *)
Example obstructed_unsnake :
  let '(d', ys, e) := unsnake obstructed_d 5 0 [2%nat; 4%nat] [1%nat; 3%nat] true in
  e = None /\ length ys = 5%nat /\ length (dboxes d') = 4%nat /\ matched obstructed_d 5 0 = true.
Proof. vm_compute. repeat split; reflexivity. Qed.

Example obstructed_total : unsnake_completes obstructed_d 5 0 [2%nat; 4%nat] [1%nat; 3%nat] true.
Proof. eexists. eexists. vm_compute. reflexivity. Qed.

Example obstructed_normal_form :
  exists d', rigid_normal_form nf_fuel obstructed_d false = Ok d' /\ length (dboxes d') = 4%nat.
Proof. eexists. split; [vm_compute; reflexivity|reflexivity]. Qed.

(* non-vacuity of the partial theorem: the plain left snake Id(x) @ Cap(x.r, x) >> Cup(x, x.r) @ Id(x) *)
Definition plain_d : diagram :=
  Eval vm_compute in get (build [ox 0] [ox 0] [bcap_ (ox 1) (ox 0); bcup_ (ox 0) (ox 1)] [1; 0]).
Lemma plain_build : build [ox 0] [ox 0] [bcap_ (ox 1) (ox 0); bcup_ (ox 0) (ox 1)] [1; 0] = Ok plain_d.
Proof. vm_compute. reflexivity. Qed.
Example plain_hyps : wf plain_d /\ rigid_ok plain_d /\
  find_snake plain_d = Some (1%nat, 0%nat, ([], []), true).
Proof.
  split; [exact (build_wf _ _ _ _ _ plain_build)|]. split; [|vm_compute; reflexivity].
  intros b [<-|[<-|[]]]; reflexivity.
Qed.
Example plain_removed : rigid_normal_form nf_fuel plain_d false = Ok (did [ox 0]).
Proof. vm_compute. reflexivity. Qed.
(* ================================================================ semantic soundness: statement only *)
(* "denote the same morphism under every rigid functor": an abstract strict
   rigid monoidal category with an interpretation of the generators.  The
   statement below is kept visible and is NOT asserted or proved in Coq; equality
   of denotations is checked by the oracle of harness/props/c07.py on every
   yielded step under two random integer tensor functors. *)
Record rigid_model := RM {
  rm_M : Type;
  rm_ok : ty -> ty -> rm_M -> Prop;        (* f : a -> b *)
  rm_id : ty -> rm_M;
  rm_comp : rm_M -> rm_M -> rm_M;          (* diagrammatic order *)
  rm_tens : rm_M -> rm_M -> rm_M;
  rm_box : box -> rm_M }.

Definition interp_layer (R : rigid_model) (l : layer) : rm_M R :=
  rm_tens R (rm_tens R (rm_id R (lleft l)) (rm_box R (lbox l))) (rm_id R (lright l)).

Definition interp (R : rigid_model) (d : diagram) : rm_M R :=
  fold_left (fun acc l => rm_comp R acc (interp_layer R l)) (la_ls (dlayers d)) (rm_id R (ddom d)).

Definition rigid_laws (R : rigid_model) : Prop :=
  let ok := rm_ok R in let id := rm_id R in let comp := rm_comp R in let tens := rm_tens R in
  (forall t, ok t t (id t)) /\
  (forall a b c f g, ok a b f -> ok b c g -> ok a c (comp f g)) /\
  (forall a b c e f g, ok a b f -> ok c e g -> ok (a ++ c) (b ++ e) (tens f g)) /\
  (forall a b f, ok a b f -> comp (id a) f = f /\ comp f (id b) = f) /\
  (forall a b c e f g h, ok a b f -> ok b c g -> ok c e h -> comp (comp f g) h = comp f (comp g h)) /\
  (forall f g h, tens (tens f g) h = tens f (tens g h)) /\
  (forall f, tens (id []) f = f /\ tens f (id []) = f) /\
  (forall a b, tens (id a) (id b) = id (a ++ b)) /\
  (forall a b c a' b' c' f g f' g', ok a b f -> ok b c g -> ok a' b' f' -> ok b' c' g' ->
     tens (comp f g) (comp f' g') = comp (tens f f') (tens g g')) /\
  (forall b, ok (bdom b) (bcod b) (rm_box R b)) /\
  (* the two snake equations, for every type-matched cap / cup pair *)
  (forall cap cup a b, bk cap = KCap -> bk cup = KCup ->
     bdom cap = [] -> bcod cap = [a; b] -> bdom cup = [b; a] -> bcod cup = [] ->
     comp (tens (id [b]) (rm_box R cap)) (tens (rm_box R cup) (id [b])) = id [b] /\
     comp (tens (rm_box R cap) (id [a])) (tens (id [a]) (rm_box R cup)) = id [a]).

Definition snake_removal_sound_stmt : Prop :=
  forall (R : rigid_model), rigid_laws R ->
  forall d limit left tr st, wf d -> rigid_ok d ->
    rigid_trace limit d left = (tr, st) -> Forall (fun x => interp R x = interp R d) tr.

(* the laws are consistent (a one-point model satisfies them) *)
Definition trivial_model : rigid_model :=
  RM unit (fun _ _ _ => True) (fun _ => tt) (fun _ _ => tt) (fun _ _ => tt) (fun _ => tt).
Example trivial_model_laws : rigid_laws trivial_model.
Proof.
  unfold rigid_laws; cbn. repeat split; auto; intros; try (destruct f; reflexivity).
Qed.
