(* Non-vacuity of C07's semantic soundness with a genuinely rigid model: the
   strict monoidal category of well-formed tensors over the Gaussian integers
   (TFun/TFunMonoidal.tensor_model, the instance behind C09), every wire a qubit
   (dimension 2), Cap / Cup sent to discopy's Tensor.caps / Tensor.cups, every
   other box to a tensor of its type filled with its name.  The two snake
   equations are checked by computation on the 2 x 2 x 2 tensors.  In this model
   a circle Cap >> Cup denotes the scalar 2 (cups and caps are not identities), and
   the plain snake denotes the identity matrix.  New file. *)
From Coq Require Import List ZArith Bool Arith Lia.
Import ListNotations.
Require Import DV.Common.Base DV.Core.Diagram DV.Core.WF
  DV.Tensor.NumpyModel DV.Tensor.Tensor DV.Tensor.TensorLemmas
  DV.Sem.Monoidal DV.TFun.TFunMonoidal
  DV.Snake.Snake DV.Snake.SnakeLemmas DV.Snake.SnakeSem.

Definition qubit_om (_ : ob) : list nat := [2%nat].
Definition QM : monoidal_model := tensor_model qubit_om.

(* a tensor of type d -> c all of whose entries are z *)
Definition const_t (d c : list nat) (z : Z) : tensor :=
  mkT d c (mkArr (shape_of d c) (repeat (z, 0%Z) (size (d ++ c)))).
Lemma const_t_tok d c z : tok (const_t d c z).
Proof. apply tok_mk. apply repeat_length. Qed.

(* Tensor.caps(Dim(2), Dim(2)) and Tensor.cups(Dim(2), Dim(2)) *)
Definition cap2 : tensor := force (tcaps [2%nat] [2%nat]) (zero_t [] [2%nat; 2%nat]).
Definition cup2 : tensor := force (tcups [2%nat] [2%nat]) (zero_t [2%nat; 2%nat] []).

Lemma caps_cups_2 : tcaps [2%nat] [2%nat] = Ok cap2 /\ tcups [2%nat] [2%nat] = Ok cup2.
Proof. split; vm_compute; reflexivity. Qed.

Lemma cap2_ok : tensor_ok cap2 = true.
Proof. vm_compute. reflexivity. Qed.
Lemma cup2_ok : tensor_ok cup2 = true.
Proof. vm_compute. reflexivity. Qed.

Definition wcap2 : wt := exist _ cap2 cap2_ok.
Definition wcup2 : wt := exist _ cup2 cup2_ok.

Definition qubit_F_of (k : bkind) (name : Z) (dom cod : ty) : wt :=
  match k, dom, cod with
  | KCap, [], [_; _] => wcap2
  | KCup, [_; _], [] => wcup2
  | _, _, _ => mk_wt (const_t (obj_ty QM dom) (obj_ty QM cod) name) (const_t_tok _ _ _)
  end.

Definition qubit_F (b : box) : wt := qubit_F_of (bk b) (bname b) (bdom b) (bcod b).

Lemma qubit_respects : respects_types QM qubit_F.
Proof.
  intros [k n dom cod dg dt]. unfold qubit_F; cbn [bk bname bdom bcod].
  destruct k; try (split; reflexivity).
  - destruct dom as [|a [|b [|c dom]]]; try (split; reflexivity).
    destruct cod as [|c cod]; split; reflexivity.
  - destruct dom as [|a dom]; try (split; reflexivity).
    destruct cod as [|a [|b [|c cod]]]; split; reflexivity.
Qed.

Lemma qubit_snakes : snake_eqs QM qubit_F (fun _ => True).
Proof.
  intros cap cup a b K1 K2 _ _ D1 C1 D2 C2. unfold qubit_F. rewrite K1, K2, D1, C1, D2, C2.
  split; apply wt_eq; vm_compute; reflexivity.
Qed.

Definition qubit_sem : rigid_sem := RS QM qubit_F qubit_respects qubit_snakes.

(* the circle Cap(x, x.r) >> Cup(x, x.r) : [] -> [] *)
Definition circle_d : diagram :=
  Eval vm_compute in get (build [] [] [bcap_ (ox 0) (ox 1); bcup_ (ox 0) (ox 1)] [0; 0]%Z).
Lemma circle_build : build [] [] [bcap_ (ox 0) (ox 1); bcup_ (ox 0) (ox 1)] [0; 0]%Z = Ok circle_d.
Proof. vm_compute. reflexivity. Qed.

(* what the model says: the plain snake is the 2 x 2 identity matrix, the circle
   is the scalar 2, the obstructed snake keeps its denotation through snake removal *)
Example qubit_denotations :
  val (rs_den qubit_sem plain_d) = id_t [2%nat] /\
  data (tarr (val (rs_den qubit_sem plain_d))) = [(1, 0); (0, 0); (0, 0); (1, 0)]%Z /\
  data (tarr (val (rs_den qubit_sem circle_d))) = [(2, 0)]%Z /\
  (exists d', rigid_normal_form nf_fuel obstructed_d false = Ok d' /\
              val (rs_den qubit_sem d') = val (rs_den qubit_sem obstructed_d)).
Proof.
  split; [vm_compute; reflexivity|]. split; [vm_compute; reflexivity|]. split; [vm_compute; reflexivity|].
  eexists. split; [vm_compute; reflexivity|]. vm_compute. reflexivity.
Qed.
