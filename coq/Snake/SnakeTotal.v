(* C07, totality of snake removal for ARBITRARY obstructions: every interchange
   requested by the loops of unsnake on what find_snake selected is legal.

   The planar argument.  SnakeWire's invariant is refined with the SIDE of every
   passed box (follow_wire's own test `off <= wire`: true = the box lies entirely
   to the left of the followed wire at its depth).  Two adjacent passed boxes on
   different sides share no wire (the followed wire separates them); a box on the
   side of the followed leg shares no wire with the cap just above it; a box on the
   other side shares no wire with the cup just below it.  The loops of unsnake only
   ever ask for such exchanges:
     left snake   loop 1 lifts the first left box over right boxes, then the cap;
                  loop 2 lowers the last (right) box under the cup, one step each;
     right snake  loop 1 lowers the last left box under right boxes, then the cup;
                  loop 2 lifts the first (right) box over the cap, one step each;
   so by RewritingLemmas.interchange_adj_total none of them is refused, and by
   SnakeWire.unsnake_deletion_accepted neither is the final deletion.
   New file; nothing existing is changed. *)
From Coq Require Import List ZArith Bool Lia.
Import ListNotations.
Require Import DV.Common.Base DV.Common.ListLemmas DV.Core.Diagram DV.Core.WF DV.Core.DiagramLemmas
  DV.Core.Rewriting DV.Core.RewritingLemmas DV.Core.Rigid DV.Core.Prog
  DV.Snake.Snake DV.Snake.SnakeLemmas DV.Snake.SnakeWire DV.Snake.SnakeSem.
Open Scope Z_scope.

(* ================================================================ arithmetic of sides *)
Lemma pass2_sides o0 d0 c0 o1 d1 c1 o0' o1' j :
  0 <= d0 -> 0 <= c0 -> 0 <= d1 -> 0 <= c1 -> sw o0 d0 c0 o1 d1 c1 o0' o1' ->
  tk o0 d0 j = false -> tk o1 d1 (sh o0 d0 c0 j) = false ->
  (o1' <=? j) = (o1 <=? sh o0 d0 c0 j) /\ (o0' <=? sh o1' d1 c1 j) = (o0 <=? j).
Proof.
  intros H1 H2 H3 H4 [(A & -> & ->)|(A & -> & ->)] T0 T1; unfold tk, sh in *.
  - split; zbool.
  - split; zbool.
Qed.

(* two passed boxes on different sides of the wire share no wire *)
Lemma mid_disj o0 d0 c0 o1 d1 j :
  0 <= d0 -> 0 <= c0 -> 0 <= d1 ->
  tk o0 d0 j = false -> tk o1 d1 (sh o0 d0 c0 j) = false ->
  (o0 <=? j) <> (o1 <=? sh o0 d0 c0 j) ->
  o0 + c0 <= o1 \/ o1 + d1 <= o0.
Proof.
  intros H1 H2 H3 T0 T1 N. unfold tk, sh in *. zbool; exfalso; apply N; reflexivity.
Qed.

(* the cap [] -> 2 at o0 and the box just below it, on the side of the followed leg *)
Lemma cap_disj o0 o1 d1 (dl : Z) (s : bool) :
  0 <= d1 -> (dl = 0 /\ s = true) \/ (dl = 1 /\ s = false) ->
  tk o1 d1 (o0 + dl) = false -> (o1 <=? o0 + dl) = s ->
  o0 + 2 <= o1 \/ o1 + d1 <= o0.
Proof.
  intros H1 [[-> ->]|[-> ->]] T S; unfold tk in *; zbool.
Qed.

(* the cup 2 -> [] at o1 and the box just above it, on the other side *)
Lemma cup_disj o0 d0 c0 o1 (dl j : Z) (s : bool) :
  0 <= d0 -> 0 <= c0 -> (dl = 1 /\ s = false) \/ (dl = 0 /\ s = true) ->
  tk o0 d0 j = false -> (o0 <=? j) = s -> sh o0 d0 c0 j = o1 + dl ->
  o0 + c0 <= o1 \/ o1 + 2 <= o0.
Proof.
  intros H1 H2 [[-> ->]|[-> ->]] T S E; unfold tk, sh in *; zbool.
Qed.

Definition disj (p0 p1 : pr) : Prop :=
  snd p0 + len (bcod (fst p0)) <= snd p1 \/ snd p1 + len (bdom (fst p1)) <= snd p0.

(* ================================================================ the sided invariant *)
Section Sided.
  Variable ls : bool.
  Variables x y : ob.

  Definition side (p : pr) (j : Z) : bool := snd p <=? j.

  (* as SnakeWire.seg, recording on which side of the wire each passed box lies *)
  Fixpoint segS (ps : list pr) (sd : list bool) (j : Z) : Prop :=
    match ps with
    | [] => False
    | p :: ps' =>
        match sd with
        | [] => cupP x y (fst p) /\ j = snd p + dl_cup ls
        | s :: sd' => taken p j = false /\ side p j = s /\ segS ps' sd' (shift p j)
        end
    end.

  Fixpoint connS (ps : list pr) (c : nat) (sd : list bool) : Prop :=
    match ps with
    | [] => False
    | p :: ps' =>
        match c with
        | O => capP x y (fst p) /\ segS ps' sd (snd p + dl_cap ls)
        | S c' => connS ps' c' sd
        end
    end.

  Lemma segS_length ps : forall sd j, segS ps sd j -> (length sd < length ps)%nat.
  Proof.
    induction ps as [|p ps IH]; intros sd j H; cbn [segS] in H; [contradiction|].
    destruct sd as [|s sd]; cbn [length]; [lia|]. destruct H as (_ & _ & H). apply IH in H. lia.
  Qed.

  Lemma connS_length ps : forall c sd, connS ps c sd -> (c + 1 + length sd < length ps)%nat.
  Proof.
    induction ps as [|p ps IH]; intros c sd H; cbn [connS] in H; [contradiction|].
    destruct c as [|c]; cbn [length].
    - destruct H as [_ H]. apply segS_length in H. lia.
    - apply IH in H. lia.
  Qed.

  Ltac nn p := pose proof (len_nonneg (bdom (fst p))); pose proof (len_nonneg (bcod (fst p))).

  (* ---------------------------------------------------------------- two passed boxes *)
  Lemma segS_mid a : forall ps j s0 s1 b, segS ps (a ++ s0 :: s1 :: b) j -> s0 <> s1 ->
    exists p0 p1, nth_error ps (length a) = Some p0 /\ nth_error ps (S (length a)) = Some p1 /\ disj p0 p1.
  Proof.
    induction a as [|s a IH]; intros ps j s0 s1 b H N; cbn [app length] in *.
    - destruct ps as [|p0 [|p1 ps]]; cbn [segS] in H; try contradiction; try (destruct H as (_ & _ & []); fail).
      destruct H as (T0 & S0 & T1 & S1 & _). exists p0, p1. split; [reflexivity|]. split; [reflexivity|].
      nn p0. nn p1. unfold disj. rewrite taken_tk in T0, T1. rewrite shift_sh in T1, S1. unfold side in S0, S1.
      apply (mid_disj (snd p0) (len (bdom (fst p0))) (len (bcod (fst p0))) (snd p1) (len (bdom (fst p1))) j);
        try assumption. rewrite S0, S1. exact N.
    - destruct ps as [|p ps]; cbn [segS] in H; [contradiction|]. destruct H as (_ & _ & H).
      destruct (IH _ _ _ _ _ H N) as (p0 & p1 & A & B & C). exists p0, p1. cbn [nth_error]. auto.
  Qed.

  Lemma segS_mid_step a : forall ps ps' j s0 s1 b, step (length a) ps ps' ->
    segS ps (a ++ s0 :: s1 :: b) j -> segS ps' (a ++ s1 :: s0 :: b) j.
  Proof.
    induction a as [|s a IH]; intros ps ps' j s0 s1 b Hst H; cbn [app length] in *.
    - inversion Hst as [p0 p1 q1 q0 rest Hsw|]; subst. cbn [segS] in H |- *.
      destruct H as (T0 & S0 & T1 & S1 & H).
      pose proof (adj_swap_sw _ _ _ _ Hsw) as SW. destruct Hsw as (F1 & F0 & _).
      pose proof (len_nonneg (bdom (fst p0))) as N1. pose proof (len_nonneg (bcod (fst p0))) as N2.
      pose proof (len_nonneg (bdom (fst p1))) as N3. pose proof (len_nonneg (bcod (fst p1))) as N4.
      unfold side in *. rewrite !taken_tk, !shift_sh in *. rewrite F1, F0.
      destruct (pass2 _ _ _ _ _ _ _ _ j N1 N2 N3 N4 SW T0 T1) as (A & B & C).
      destruct (pass2_sides _ _ _ _ _ _ _ _ j N1 N2 N3 N4 SW T0 T1) as (D & E).
      rewrite C. repeat split; auto; congruence.
    - inversion Hst as [|i p ps0 ps0' Hst']; subst. cbn [segS] in H |- *.
      destruct H as (T & S0 & H). repeat split; auto. eapply IH; eauto.
  Qed.

  (* ---------------------------------------------------------------- the last passed box and the cup *)
  Lemma segS_last a : forall ps j s, segS ps (a ++ [s]) j -> s = negb ls ->
    exists p0 p1, nth_error ps (length a) = Some p0 /\ nth_error ps (S (length a)) = Some p1 /\ disj p0 p1.
  Proof.
    induction a as [|s' a IH]; intros ps j s H N; cbn [app length] in *.
    - destruct ps as [|p0 [|p1 ps]]; cbn [segS] in H; try contradiction; try (destruct H as (_ & _ & []); fail).
      destruct H as (T0 & S0 & Hcup & E). exists p0, p1. split; [reflexivity|]. split; [reflexivity|].
      nn p0. destruct (cupP_len _ _ _ Hcup) as [L1 L2]. unfold disj. rewrite L1.
      rewrite taken_tk in T0. rewrite shift_sh in E. unfold side in S0.
      apply (cup_disj (snd p0) (len (bdom (fst p0))) (len (bcod (fst p0))) (snd p1) (dl_cup ls) j s);
        try assumption.
      unfold dl_cup. subst s. destruct ls; cbn; auto.
    - destruct ps as [|p ps]; cbn [segS] in H; [contradiction|]. destruct H as (_ & _ & H).
      destruct (IH _ _ _ H N) as (p0 & p1 & A & B & C). exists p0, p1. cbn [nth_error]. auto.
  Qed.

  Lemma segS_last_step a : forall ps ps' j s, step (length a) ps ps' ->
    segS ps (a ++ [s]) j -> segS ps' a j.
  Proof.
    induction a as [|s' a IH]; intros ps ps' j s Hst H; cbn [app length] in *.
    - inversion Hst as [p0 p1 q1 q0 rest Hsw|]; subst. cbn [segS] in H |- *.
      destruct H as (T0 & _ & Hcup & E).
      pose proof (adj_swap_sw _ _ _ _ Hsw) as SW. destruct Hsw as (F1 & F0 & _).
      pose proof (len_nonneg (bdom (fst p0))) as N1. pose proof (len_nonneg (bcod (fst p0))) as N2.
      destruct (cupP_len _ _ _ Hcup) as [L1 L2]. rewrite L1, L2 in SW.
      rewrite taken_tk in T0. rewrite shift_sh in E. rewrite F1. split; [exact Hcup|].
      pose proof (dl_range ls) as (_ & R2 & _).
      exact (cup_up _ _ _ _ _ _ (dl_cup ls) j N1 N2 R2 SW T0 E).
    - inversion Hst as [|i p ps0 ps0' Hst']; subst. cbn [segS] in H |- *.
      destruct H as (T & S0 & H). repeat split; auto. eapply IH; eauto.
  Qed.

  (* ---------------------------------------------------------------- below the cap *)
  Lemma connS_mid c : forall ps a s0 s1 b, connS ps c (a ++ s0 :: s1 :: b) -> s0 <> s1 ->
    exists p0 p1, nth_error ps (c + 1 + length a) = Some p0 /\ nth_error ps (S (c + 1 + length a)) = Some p1 /\
                  disj p0 p1.
  Proof.
    induction c as [|c IH]; intros ps a s0 s1 b H N; destruct ps as [|p ps]; cbn [connS] in H; try contradiction.
    - destruct H as [_ H]. exact (segS_mid _ _ _ _ _ _ H N).
    - exact (IH _ _ _ _ _ H N).
  Qed.

  Lemma connS_mid_step c : forall ps ps' a s0 s1 b, step (c + 1 + length a) ps ps' ->
    connS ps c (a ++ s0 :: s1 :: b) -> connS ps' c (a ++ s1 :: s0 :: b).
  Proof.
    induction c as [|c IH]; intros ps ps' a s0 s1 b Hst H; destruct ps as [|p ps]; cbn [connS] in H; try contradiction.
    - cbn [Nat.add] in Hst. inversion Hst as [|i p' ps0 ps0' Hst']; subst. cbn [connS].
      destruct H as [Hcap H]. split; [exact Hcap|]. eapply segS_mid_step; eauto.
    - cbn [Nat.add] in Hst. inversion Hst as [|i p' ps0 ps0' Hst']; subst. cbn [connS]. eapply IH; eauto.
  Qed.

  Lemma connS_last c : forall ps a s, connS ps c (a ++ [s]) -> s = negb ls ->
    exists p0 p1, nth_error ps (c + 1 + length a) = Some p0 /\ nth_error ps (S (c + 1 + length a)) = Some p1 /\
                  disj p0 p1.
  Proof.
    induction c as [|c IH]; intros ps a s H N; destruct ps as [|p ps]; cbn [connS] in H; try contradiction.
    - destruct H as [_ H]. exact (segS_last _ _ _ _ H N).
    - exact (IH _ _ _ H N).
  Qed.

  Lemma connS_last_step c : forall ps ps' a s, step (c + 1 + length a) ps ps' ->
    connS ps c (a ++ [s]) -> connS ps' c a.
  Proof.
    induction c as [|c IH]; intros ps ps' a s Hst H; destruct ps as [|p ps]; cbn [connS] in H; try contradiction.
    - cbn [Nat.add] in Hst. inversion Hst as [|i p' ps0 ps0' Hst']; subst. cbn [connS].
      destruct H as [Hcap H]. split; [exact Hcap|]. eapply segS_last_step; eauto.
    - cbn [Nat.add] in Hst. inversion Hst as [|i p' ps0 ps0' Hst']; subst. cbn [connS]. eapply IH; eauto.
  Qed.

  (* ---------------------------------------------------------------- the cap and the first passed box *)
  Lemma connS_cap c : forall ps s sd, connS ps c (s :: sd) -> s = ls ->
    exists p0 p1, nth_error ps c = Some p0 /\ nth_error ps (S c) = Some p1 /\ disj p0 p1.
  Proof.
    induction c as [|c IH]; intros ps s sd H N; destruct ps as [|p ps]; cbn [connS] in H; try contradiction.
    - destruct H as [Hcap H]. destruct ps as [|p1 ps]; cbn [segS] in H; [contradiction|].
      destruct H as (T & S0 & _). exists p, p1. split; [reflexivity|]. split; [reflexivity|].
      nn p1. destruct (capP_len _ _ _ Hcap) as [L1 L2]. unfold disj. rewrite L2.
      rewrite taken_tk in T. unfold side in S0.
      apply (cap_disj (snd p) (snd p1) (len (bdom (fst p1))) (dl_cap ls) s); try assumption.
      unfold dl_cap. subst s. destruct ls; auto.
    - destruct (IH _ _ _ H N) as (p0 & p1 & A & B & C). exists p0, p1. cbn [nth_error]. auto.
  Qed.

  Lemma connS_cap_step c : forall ps ps' s sd, step c ps ps' ->
    connS ps c (s :: sd) -> connS ps' (S c) sd.
  Proof.
    induction c as [|c IH]; intros ps ps' s sd Hst H; destruct ps as [|p ps]; cbn [connS] in H; try contradiction.
    - destruct H as [Hcap H]. inversion Hst as [p0 p1 q1 q0 rest Hsw|]; subst. cbn [segS] in H.
      destruct H as (T & _ & H).
      pose proof (adj_swap_sw _ _ _ _ Hsw) as SW. destruct Hsw as (F1 & F0 & _).
      pose proof (len_nonneg (bdom (fst p1))) as N3. pose proof (len_nonneg (bcod (fst p1))) as N4.
      destruct (capP_len _ _ _ Hcap) as [L1 L2]. rewrite L1, L2 in SW.
      rewrite taken_tk in T. rewrite shift_sh in H.
      pose proof (dl_range ls) as (R1 & _ & _).
      cbn [connS]. rewrite F0. split; [exact Hcap|].
      rewrite (cap_down _ _ _ _ _ _ (dl_cap ls) N3 N4 R1 SW T). exact H.
    - inversion Hst as [|i p' ps0 ps0' Hst']; subst. cbn [connS]. eapply IH; eauto.
  Qed.

  (* ---------------------------------------------------------------- from follow_wire *)
  Fixpoint trues_from (i : Z) (sd : list bool) : list Z :=
    match sd with
    | [] => []
    | s :: sd' => (if s then [i] else []) ++ trues_from (i + 1) sd'
    end.

  Lemma fw_segS rest : forall i j c w lo ro, fw rest i j = (c, w, lo, ro) ->
    forall p, nth_error rest (c - i) = Some p -> cupP x y (fst p) -> w = snd p + dl_cup ls ->
    exists sd, length sd = (c - i)%nat /\ segS rest sd j /\ map Z.of_nat lo = trues_from (Z.of_nat i) sd.
  Proof.
    induction rest as [|[b off] rest IH]; intros i j c w lo ro H p Hn Hcup Hw.
    - destruct (c - i)%nat; discriminate.
    - cbn [fw] in H. destruct ((off <=? j) && (j <? off + len (bdom b))) eqn:T.
      + inversion H; subst. rewrite Nat.sub_diag in *. cbn in Hn. inversion Hn; subst p.
        exists []. cbn [segS length map trues_from]. auto.
      + assert (T' : taken (b, off) j = false) by exact T.
        destruct (off <=? j) eqn:Sd.
        * destruct (fw rest (S i) _) as [[[c1 w1] lo1] ro1] eqn:E. inversion H; subst.
          pose proof (fw_count _ _ _ _ _ _ _ E) as [Hc _].
          replace (c - i)%nat with (S (c - S i)) in * by lia. cbn [nth_error] in Hn.
          destruct (IH _ _ _ _ _ _ E p Hn Hcup eq_refl) as (sd & L & Hs & Hl).
          exists (true :: sd). cbn [length segS map trues_from app]. split; [lia|]. split.
          -- split; [exact T'|]. split; [exact Sd|]. unfold shift; cbn [fst snd]. rewrite Sd. exact Hs.
          -- rewrite Hl. f_equal. f_equal. lia.
        * destruct (fw rest (S i) _) as [[[c1 w1] lo1] ro1] eqn:E. inversion H; subst.
          pose proof (fw_count _ _ _ _ _ _ _ E) as [Hc _].
          replace (c - i)%nat with (S (c - S i)) in * by lia. cbn [nth_error] in Hn.
          destruct (IH _ _ _ _ _ _ E p Hn Hcup eq_refl) as (sd & L & Hs & Hl).
          exists (false :: sd). cbn [length segS map trues_from app]. split; [lia|]. split.
          -- split; [exact T'|]. split; [exact Sd|]. unfold shift; cbn [fst snd]. rewrite Sd. exact Hs.
          -- rewrite Hl. f_equal. lia.
  Qed.

  Lemma connS_intro ps : forall c sd p, nth_error ps c = Some p -> capP x y (fst p) ->
    segS (skipn (S c) ps) sd (snd p + dl_cap ls) -> connS ps c sd.
  Proof.
    induction ps as [|q ps IH]; intros [|c] sd p Hn Hcap Hs; cbn in Hn; try discriminate.
    - inversion Hn; subst q. cbn [connS]. auto.
    - cbn [connS]. eapply IH; eauto.
  Qed.
End Sided.

(* ================================================================ lists of indices *)
Lemma trues_from_app a : forall i b, trues_from i (a ++ b) = trues_from i a ++ trues_from (i + len a) b.
Proof.
  induction a as [|s a IH]; intros i b; cbn [app trues_from].
  - rewrite len_nil, Z.add_0_r. reflexivity.
  - rewrite IH, len_cons, <- app_assoc. do 3 f_equal. lia.
Qed.

Lemma trues_from_repeat m : forall i, trues_from i (repeat false m) = [].
Proof. induction m as [|m IH]; intros i; cbn; auto. Qed.

Lemma trues_from_nil sd : forall i, trues_from i sd = [] -> sd = repeat false (length sd).
Proof.
  induction sd as [|s sd IH]; intros i H; cbn in *; [reflexivity|].
  destruct s; [discriminate|]. f_equal. eapply IH; eauto.
Qed.

Lemma trues_from_length sd : forall i, (length (trues_from i sd) <= length sd)%nat.
Proof.
  induction sd as [|s sd IH]; intros i; cbn [trues_from length]; [lia|].
  rewrite app_length. specialize (IH (i + 1)). destruct s; cbn [length]; lia.
Qed.

(* the first left box: only right boxes before it *)
Lemma trues_from_cons sd : forall i bx l', trues_from i sd = bx :: l' ->
  exists m rest, sd = repeat false m ++ true :: rest /\ bx = i + Z.of_nat m /\
                 l' = trues_from (i + Z.of_nat m + 1) rest.
Proof.
  induction sd as [|s sd IH]; intros i bx l' H; cbn [trues_from] in H; [discriminate|].
  destruct s; cbn [app] in H.
  - inversion H; subst. exists 0%nat, sd. cbn. rewrite Z.add_0_r. auto.
  - destruct (IH _ _ _ H) as (m & rest & -> & -> & ->). exists (S m), rest. cbn [repeat app].
    split; [reflexivity|]. split; [lia|]. f_equal. lia.
Qed.

(* the last left box: only right boxes after it *)
Lemma trues_from_snoc sd : forall i lo' bx, trues_from i sd = lo' ++ [bx] ->
  exists a m, sd = a ++ true :: repeat false m /\ bx = i + len a /\ lo' = trues_from i a.
Proof.
  induction sd as [|s sd IH] using rev_ind; intros i lo' bx H.
  - destruct lo'; discriminate.
  - rewrite trues_from_app in H. cbn [trues_from] in H. destruct s.
    + cbn [app] in H. apply app_inj_tail in H. destruct H as [<- <-].
      exists sd, 0%nat. cbn. auto.
    + cbn [app] in H. rewrite app_nil_r in H. destruct (IH _ _ _ H) as (a & m & -> & -> & ->).
      exists a, (S m). split; [|auto]. rewrite <- app_assoc. cbn [app]. do 2 f_equal.
      change (false :: repeat false m) with (repeat false (S m)). rewrite <- repeat_cons. reflexivity.
Qed.

Fixpoint seqZ (i : Z) (n : nat) : list Z :=
  match n with O => [] | S n' => i :: seqZ (i + 1) n' end.

Lemma seqZ_snoc n : forall i, seqZ i (S n) = seqZ i n ++ [i + Z.of_nat n].
Proof.
  induction n as [|n IH]; intros i.
  - cbn. rewrite Z.add_0_r. reflexivity.
  - change (seqZ i (S (S n))) with (i :: seqZ (i + 1) (S n)). rewrite IH. cbn [seqZ app]. do 3 f_equal. lia.
Qed.

Lemma inc_in_bound l : forall lo hi, inc_in lo l hi -> l <> [] -> len l <= hi - lo - 1.
Proof.
  induction l as [|a l IH]; intros lo hi H N; [contradiction|]. destruct H as [H1 H2]. rewrite len_cons.
  destruct l as [|b l]; [rewrite len_nil; lia|].
  assert (G : len (b :: l) <= hi - a - 1) by (apply IH; [exact H2|discriminate]). lia.
Qed.

(* pigeonhole: an increasing list that fills the open interval is the interval *)
Lemma inc_in_full l : forall lo hi, inc_in lo l hi -> len l = hi - lo - 1 -> l = seqZ (lo + 1) (length l).
Proof.
  induction l as [|a l IH]; intros lo hi H E; [reflexivity|]. destruct H as [H1 H2]. rewrite len_cons in E.
  assert (Ha : a = lo + 1).
  { destruct l as [|b l]; [rewrite len_nil in E; lia|].
    assert (G : len (b :: l) <= hi - a - 1) by (apply inc_in_bound; [exact H2|discriminate]). lia. }
  subst a. cbn [length seqZ]. f_equal. apply (IH _ hi); [exact H2|lia].
Qed.

Lemma ro_after_length upd l : forall ro, length (ro_after upd l ro) = length ro.
Proof.
  unfold ro_after. induction l as [|b l IH]; intros ro; cbn [fold_left]; [reflexivity|].
  rewrite IH, map_length. reflexivity.
Qed.

(* ================================================================ diagrams *)
Lemma pairs_length d : wf d -> length (pairs d) = length (dboxes d).
Proof. intros Hwf. destruct (wf_lengths d Hwf) as [A B]. unfold pairs. etransitivity; [apply combine_length|lia]. Qed.

(* a disjoint adjacent pair is exchanged *)
Lemma adj_total_ok d i left p0 p1 : wf d ->
  nth_error (pairs d) i = Some p0 -> nth_error (pairs d) (S i) = Some p1 -> disj p0 p1 ->
  exists d', interchange_adj d i left = Ok d' /\ wf d' /\ step i (pairs d) (pairs d').
Proof.
  intros Hwf N0 N1 Hd.
  assert (Hi : (S i < length (dboxes d))%nat).
  { rewrite <- (pairs_length d Hwf). apply nth_error_Some. rewrite N1. discriminate. }
  pose proof (interchange_adj_total d i left Hwf Hi) as T.
  destruct (interchange_adj d i left) as [d'|e] eqn:E.
  - exists d'. split; [reflexivity|]. split; [exact (proj1 (interchange_adj_shape _ _ _ _ Hwf E))|].
    exact (adj_step _ _ _ _ Hwf E).
  - exfalso. destruct T as [_ T]. apply T.
    destruct p0 as [b0 o0], p1 as [b1 o1]. unfold pairs in N0, N1.
    apply nth_error_combine_inv in N0, N1. destruct N0 as [A0 B0], N1 as [A1 B1].
    exists b0, b1, o0, o1. unfold disj in Hd; cbn [fst snd] in Hd. auto.
Qed.

Section Moves.
  Variable ls : bool.
  Variables x y : ob.

  Definition ConnS (d : diagram) (c : nat) (sd : list bool) : Prop := connS ls x y (pairs d) c sd.

  (* two passed boxes on different sides are exchanged *)
  Lemma K_mid d c a s0 s1 b : wf d -> ConnS d c (a ++ s0 :: s1 :: b) -> s0 <> s1 ->
    exists d', interchange_adj d (c + 1 + length a) false = Ok d' /\ wf d' /\ ConnS d' c (a ++ s1 :: s0 :: b).
  Proof.
    intros Hwf H N. destruct (connS_mid _ _ _ _ _ _ _ _ _ H N) as (p0 & p1 & N0 & N1 & Hd).
    destruct (adj_total_ok d _ false p0 p1 Hwf N0 N1 Hd) as (d' & E & W & St).
    exists d'. split; [exact E|]. split; [exact W|]. exact (connS_mid_step _ _ _ _ _ _ _ _ _ _ St H).
  Qed.

  (* the cap and the box below it, when that box is on the side of the followed leg *)
  Lemma K_cap d c sd : wf d -> ConnS d c (ls :: sd) ->
    exists d', interchange_adj d c false = Ok d' /\ wf d' /\ ConnS d' (S c) sd.
  Proof.
    intros Hwf H. destruct (connS_cap _ _ _ _ _ _ _ H eq_refl) as (p0 & p1 & N0 & N1 & Hd).
    destruct (adj_total_ok d _ false p0 p1 Hwf N0 N1 Hd) as (d' & E & W & St).
    exists d'. split; [exact E|]. split; [exact W|]. exact (connS_cap_step _ _ _ _ _ _ _ _ St H).
  Qed.

  (* the last passed box and the cup, when that box is on the other side *)
  Lemma K_cup d c a : wf d -> ConnS d c (a ++ [negb ls]) ->
    exists d', interchange_adj d (c + 1 + length a) false = Ok d' /\ wf d' /\ ConnS d' c a.
  Proof.
    intros Hwf H. destruct (connS_last _ _ _ _ _ _ _ H eq_refl) as (p0 & p1 & N0 & N1 & Hd).
    destruct (adj_total_ok d _ false p0 p1 Hwf N0 N1 Hd) as (d' & E & W & St).
    exists d'. split; [exact E|]. split; [exact W|]. exact (connS_last_step _ _ _ _ _ _ _ _ St H).
  Qed.

  Lemma repeat_snoc {A} (v : A) m l : repeat v m ++ v :: l = v :: repeat v m ++ l.
  Proof. induction m as [|m IH]; cbn; [reflexivity|]. now rewrite IH. Qed.

  (* left snake: a left box under m right boxes is lifted over them and over the cap *)
  Lemma lift_left : ls = true -> forall m d c rest, wf d ->
    ConnS d c (repeat false m ++ true :: rest) ->
    exists d', interchange_down d (c + 1 + m) (S m) false = Ok d' /\ wf d' /\
               ConnS d' (S c) (repeat false m ++ rest).
  Proof.
    intros Hls. induction m as [|m IH]; intros d c rest Hwf H.
    - cbn [repeat app] in *. rewrite <- Hls in H.
      destruct (K_cap d c rest Hwf H) as (d' & E & W & C').
      exists d'. cbn [interchange_down]. replace (c + 1 + 0 - 1)%nat with c by lia. rewrite E. cbn [bind]. auto.
    - replace (repeat false (S m) ++ true :: rest) with (repeat false m ++ false :: true :: rest) in H
        by (rewrite repeat_snoc; reflexivity).
      destruct (K_mid d c (repeat false m) false true rest Hwf H ltac:(discriminate)) as (d1 & E & W1 & C1).
      rewrite repeat_length in E.
      destruct (IH d1 c (false :: rest) W1 C1) as (d' & E' & W' & C').
      exists d'. cbn [interchange_down]. replace (c + 1 + S m - 1)%nat with (c + 1 + m)%nat by lia.
      rewrite E. cbn [bind]. split; [exact E'|]. split; [exact W'|].
      rewrite repeat_snoc in C'. exact C'.
  Qed.

  (* right snake: a left box above m right boxes is lowered under them and under the cup *)
  Lemma lower_left : ls = false -> forall m d c a, wf d ->
    ConnS d c (a ++ true :: repeat false m) ->
    exists d', interchange_up d (c + 1 + length a) (S m) false = Ok d' /\ wf d' /\
               ConnS d' c (a ++ repeat false m).
  Proof.
    intros Hls. induction m as [|m IH]; intros d c a Hwf H.
    - cbn [repeat] in *. rewrite app_nil_r. replace true with (negb ls) in H by (rewrite Hls; reflexivity).
      destruct (K_cup d c a Hwf H) as (d' & E & W & C').
      exists d'. cbn [interchange_up]. rewrite E. cbn [bind]. auto.
    - cbn [repeat] in H.
      destruct (K_mid d c a true false (repeat false m) Hwf H ltac:(discriminate)) as (d1 & E & W1 & C1).
      replace (a ++ false :: true :: repeat false m) with ((a ++ [false]) ++ true :: repeat false m) in C1
        by (rewrite <- app_assoc; reflexivity).
      destruct (IH d1 c (a ++ [false]) W1 C1) as (d' & E' & W' & C').
      exists d'. cbn [interchange_up]. rewrite E. cbn [bind].
      rewrite app_length in E'. cbn [length] in E'.
      replace (S (c + 1 + length a)) with (c + 1 + (length a + 1))%nat by lia.
      split; [exact E'|]. split; [exact W'|].
      rewrite <- app_assoc in C'. exact C'.
  Qed.

  (* ---------------------------------------------------------------- interchange with integer indices *)
  Lemma interchange_down_eq d i j : (j < i)%nat -> (i < length (dboxes d))%nat ->
    interchange d (Z.of_nat i) (Z.of_nat j) false = interchange_down d i (i - j) false.
  Proof.
    intros H1 H2. unfold interchange.
    assert (R : (0 <=? Z.of_nat i) && (Z.of_nat i <? len (dboxes d)) && (0 <=? Z.of_nat j)
                && (Z.of_nat j <? len (dboxes d)) = true).
    { rewrite !andb_true_iff. repeat split; (apply Z.leb_le || apply Z.ltb_lt); unfold len; lia. }
    rewrite R. cbn [negb].
    destruct (Z.eqb_spec (Z.of_nat i) (Z.of_nat j)); [lia|].
    destruct (Z.ltb_spec (Z.of_nat j) (Z.of_nat i)); [|lia].
    rewrite Nat2Z.id. f_equal. lia.
  Qed.

  Lemma interchange_up_eq d i j : (i < j)%nat -> (j < length (dboxes d))%nat ->
    interchange d (Z.of_nat i) (Z.of_nat j) false = interchange_up d i (j - i) false.
  Proof.
    intros H1 H2. unfold interchange.
    assert (R : (0 <=? Z.of_nat i) && (Z.of_nat i <? len (dboxes d)) && (0 <=? Z.of_nat j)
                && (Z.of_nat j <? len (dboxes d)) = true).
    { rewrite !andb_true_iff. repeat split; (apply Z.leb_le || apply Z.ltb_lt); unfold len; lia. }
    rewrite R. cbn [negb].
    destruct (Z.eqb_spec (Z.of_nat i) (Z.of_nat j)); [lia|].
    destruct (Z.ltb_spec (Z.of_nat j) (Z.of_nat i)); [lia|].
    rewrite Nat2Z.id. f_equal. lia.
  Qed.

  Lemma ConnS_length d c sd : wf d -> ConnS d c sd -> (c + 1 + length sd < length (dboxes d))%nat.
  Proof. intros Hwf H. rewrite <- (pairs_length d Hwf). exact (connS_length _ _ _ _ _ _ H). Qed.

  (* ---------------------------------------------------------------- the four loops *)
  Definition trackedS (s : ustate) (c : nat) (sd : list bool) : Prop :=
    wf (us_d s) /\ us_cap s = Z.of_nat c /\ us_cup s = Z.of_nat (c + 1 + length sd) /\ ConnS (us_d s) c sd.

  (* left snake, first loop: `for box in left_obstruction: interchange(box, cap); cap += 1` *)
  Lemma loop1_left : ls = true -> forall upd l s c sd, trackedS s c sd ->
    l = trues_from (Z.of_nat c + 1) sd ->
    exists s', move_loop true upd l s = (s', None) /\
               trackedS s' (c + length l) (repeat false (length sd - length l)).
  Proof.
    intros Hls upd. induction l as [|bx l IH]; intros s c sd T Hl; cbn [move_loop].
    - exists s. split; [reflexivity|]. symmetry in Hl. apply trues_from_nil in Hl.
      cbn [length]. rewrite Nat.add_0_r, Nat.sub_0_r, <- Hl. exact T.
    - symmetry in Hl. destruct (trues_from_cons _ _ _ _ Hl) as (m & rest & Hsd & Hbx & Hl').
      subst sd. clear Hl.
      destruct T as (W & Ec & Eu & Hc).
      pose proof (ConnS_length _ _ _ W Hc) as Hlen. rewrite app_length, repeat_length in Hlen. cbn [length] in Hlen.
      destruct (lift_left Hls m _ c rest W Hc) as (d' & E & W' & C').
      assert (Hbx' : bx = Z.of_nat (c + 1 + m)) by lia. rewrite Hbx', Ec.
      rewrite interchange_down_eq by lia. replace (c + 1 + m - c)%nat with (S m) by lia. rewrite E.
      set (s1 := US d' (Z.of_nat c + 1) (us_cup s) (map (upd (Z.of_nat (c + 1 + m))) (us_ro s)) (d' :: us_acc s)).
      assert (T1 : trackedS s1 (S c) (repeat false m ++ rest)).
      { unfold trackedS, s1; cbn [us_d us_cap us_cup]. split; [exact W'|]. split; [lia|]. split; [|exact C'].
        rewrite Eu. rewrite !app_length, !repeat_length. cbn [length]. lia. }
      destruct (IH s1 (S c) (repeat false m ++ rest) T1) as (s' & Es & T').
      { rewrite Hl', trues_from_app, trues_from_repeat. cbn [app]. unfold len. rewrite repeat_length. f_equal. lia. }
      exists s'. split; [exact Es|].
      cbn [length].
      replace (c + S (length l))%nat with (S c + length l)%nat by lia.
      replace (length (repeat false m ++ true :: rest) - S (length l))%nat
        with (length (repeat false m ++ rest) - length l)%nat
        by (rewrite !app_length; cbn [length]; lia).
      exact T'.
  Qed.

  (* left snake, second loop: the remaining boxes are all right boxes, taken from the
     bottom: each is directly above the cup *)
  Lemma loop2_left : ls = true -> forall upd n s c, trackedS s c (repeat false n) ->
    exists s', move_loop false upd (rev (seqZ (Z.of_nat c + 1) n)) s = (s', None) /\ trackedS s' c [].
  Proof.
    intros Hls upd. induction n as [|n IH]; intros s c T.
    - exists s. cbn. auto.
    - rewrite seqZ_snoc, rev_app_distr. cbn [rev app move_loop].
      destruct T as (W & Ec & Eu & Hc). rewrite repeat_length in Eu.
      replace (repeat false (S n)) with (repeat false n ++ [negb ls]) in Hc
        by (rewrite Hls; cbn [negb]; rewrite <- repeat_cons; reflexivity).
      pose proof (ConnS_length _ _ _ W Hc) as Hlen. rewrite app_length, repeat_length in Hlen. cbn [length] in Hlen.
      destruct (K_cup _ c (repeat false n) W Hc) as (d' & E & W' & C'). rewrite repeat_length in E.
      rewrite Eu. replace (Z.of_nat c + 1 + Z.of_nat n) with (Z.of_nat (c + 1 + n)) by lia.
      rewrite interchange_up_eq by lia. replace (c + 1 + S n - (c + 1 + n))%nat with 1%nat by lia.
      cbn [interchange_up]. rewrite E. cbn [bind].
      apply IH. unfold trackedS; cbn [us_d us_cap us_cup]. rewrite repeat_length.
      split; [exact W'|]. split; [exact Ec|]. split; [lia|exact C'].
  Qed.

  (* right snake, first loop: `for box in left_obstruction[::-1]: interchange(box, cup); cup -= 1` *)
  Lemma loop1_right : ls = false -> forall upd lo s c sd, trackedS s c sd ->
    lo = trues_from (Z.of_nat c + 1) sd ->
    exists s', move_loop false upd (rev lo) s = (s', None) /\
               trackedS s' c (repeat false (length sd - length lo)).
  Proof.
    intros Hls upd. induction lo as [|bx lo IH] using rev_ind; intros s c sd T Hl.
    - exists s. split; [reflexivity|]. symmetry in Hl. apply trues_from_nil in Hl.
      cbn [length]. rewrite Nat.sub_0_r, <- Hl. exact T.
    - rewrite rev_app_distr. cbn [rev app move_loop].
      symmetry in Hl. destruct (trues_from_snoc _ _ _ _ Hl) as (a & m & Hsd & Hbx & Hlo).
      subst sd. clear Hl.
      destruct T as (W & Ec & Eu & Hc).
      pose proof (ConnS_length _ _ _ W Hc) as Hlen. rewrite app_length in Hlen. cbn [length] in Hlen.
      rewrite repeat_length in Hlen.
      destruct (lower_left Hls m _ c a W Hc) as (d' & E & W' & C').
      assert (Hbx' : bx = Z.of_nat (c + 1 + length a)) by (unfold len in Hbx; lia).
      rewrite app_length in Eu. cbn [length] in Eu. rewrite repeat_length in Eu.
      rewrite Hbx', Eu.
      rewrite interchange_up_eq by lia.
      replace (c + 1 + (length a + S m) - (c + 1 + length a))%nat with (S m) by lia. rewrite E.
      set (s1 := US d' (us_cap s) (Z.of_nat (c + 1 + (length a + S m)) - 1)
                    (map (upd (Z.of_nat (c + 1 + length a))) (us_ro s)) (d' :: us_acc s)).
      assert (T1 : trackedS s1 c (a ++ repeat false m)).
      { unfold trackedS, s1; cbn [us_d us_cap us_cup]. split; [exact W'|]. split; [exact Ec|]. split; [|exact C'].
        rewrite app_length, repeat_length. lia. }
      destruct (IH s1 c (a ++ repeat false m) T1) as (s' & Es & T').
      { rewrite Hlo, trues_from_app, trues_from_repeat, app_nil_r. reflexivity. }
      exists s'. split; [exact Es|].
      replace (length (a ++ true :: repeat false m) - length (lo ++ [Z.of_nat (c + 1 + length a)]))%nat
        with (length (a ++ repeat false m) - length lo)%nat.
      + exact T'.
      + rewrite !app_length. cbn [length]. rewrite repeat_length.
        pose proof (trues_from_length a (Z.of_nat c + 1)) as G. rewrite <- Hlo in G. lia.
  Qed.

  (* right snake, second loop: all right boxes, taken from the top: each is directly
     below the cap *)
  Lemma loop2_right : ls = false -> forall upd n s c, trackedS s c (repeat false n) ->
    exists s', move_loop true upd (seqZ (Z.of_nat c + 1) n) s = (s', None) /\ trackedS s' (c + n) [].
  Proof.
    intros Hls upd. induction n as [|n IH]; intros s c T.
    - exists s. cbn. rewrite Nat.add_0_r. auto.
    - cbn [seqZ move_loop]. destruct T as (W & Ec & Eu & Hc). rewrite repeat_length in Eu.
      cbn [repeat] in Hc. rewrite <- Hls in Hc at 1.
      pose proof (ConnS_length _ _ _ W Hc) as Hlen. cbn [length] in Hlen. rewrite repeat_length in Hlen.
      destruct (K_cap _ c (repeat false n) W Hc) as (d' & E & W' & C').
      rewrite Ec. replace (Z.of_nat c + 1) with (Z.of_nat (c + 1)) by lia.
      rewrite interchange_down_eq by lia. replace (c + 1 - c)%nat with 1%nat by lia.
      cbn [interchange_down]. replace (c + 1 - 1)%nat with c by lia. rewrite E. cbn [bind].
      replace (c + S n)%nat with (S c + n)%nat by lia.
      replace (Z.of_nat (c + 1) + 1) with (Z.of_nat (S c) + 1) by lia.
      apply IH. unfold trackedS; cbn [us_d us_cap us_cup]. rewrite repeat_length.
      split; [exact W'|]. split; [lia|]. split; [lia|exact C'].
  Qed.
End Moves.

(* ================================================================ totality of unsnake *)
(* the two loops of unsnake always complete on what find_snake selected *)
Theorem unsnake_loops_complete d cup cap lo ro ls : wf d -> rigid_ok d ->
  find_snake d = Some (cup, cap, (lo, ro), ls) ->
  exists s2, unsnake_loops d cup cap lo ro ls = (s2, None).
Proof.
  intros Hwf Hr F.
  destruct (find_snake_connected _ _ _ _ _ _ Hwf Hr F) as (x0 & y0 & _ & L1 & L2 & L3 & Hcount).
  destruct (find_snake_some _ _ _ _ _ _ F) as (R & _ & _ & (off & w & O & FW) & Hc & Hlt & _).
  destruct R as (bcap & off' & B & O' & C & R). rewrite O in O'. inversion O'; subst off'. clear O'.
  rewrite FW in R. destruct R as (bcup & offc & Bc & Oc & Cc & Hw & M).
  assert (Kcap : bk bcap = KCap) by (unfold is_cap in C; apply bkind_eqb_eq in C; exact C).
  assert (Kcup : bk bcup = KCup) by (unfold is_cup in Cc; apply bkind_eqb_eq in Cc; exact Cc).
  pose proof (Hr bcap (nth_error_In _ _ B)) as OKcap. unfold box_ok in OKcap. rewrite Kcap in OKcap.
  pose proof (Hr bcup (nth_error_In _ _ Bc)) as OKcup. unfold box_ok in OKcup. rewrite Kcup in OKcup.
  apply andb_true_iff in OKcap, OKcup. destruct OKcap as [Cd Cc2], OKcup as [Ud Uc].
  apply Z.eqb_eq in Cd, Cc2, Ud, Uc.
  apply len_zero_nil in Cd, Uc. destruct (list2 _ Cc2) as (a & b & Ecap).
  rewrite Ecap in M. cbn [rev app] in M.
  assert (Hcap : capP a b bcap) by (unfold capP; auto).
  assert (Hcup : cupP a b bcup) by (unfold cupP; auto).
  unfold follow_wire in FW. fold (pairs d) in FW.
  destruct (fw_segS ls a b _ _ _ _ _ _ _ FW (bcup, offc)) as (sd & Lsd & Hs & Hlo).
  { rewrite nth_error_skipn'. replace (S cap + (cup - S cap))%nat with cup by lia.
    apply nth_error_combine; auto. }
  { exact Hcap || exact Hcup. }
  { cbn [snd]. rewrite Hw. unfold dl_cup. destruct ls; lia. }
  assert (C0 : ConnS ls a b d cap sd).
  { apply (connS_intro ls a b _ _ _ (bcap, off)); [apply nth_error_combine; auto|exact Hcap|].
    cbn [snd]. replace (off + dl_cap ls) with (if ls then off else off + 1) by (unfold dl_cap; destruct ls; lia).
    exact Hs. }
  replace (Z.of_nat (S cap)) with (Z.of_nat cap + 1) in Hlo by lia.
  unfold unsnake_loops.
  set (s0 := US d (Z.of_nat cap) (Z.of_nat cup) (map Z.of_nat ro) []).
  assert (T0 : trackedS ls a b s0 cap sd).
  { unfold trackedS, s0; cbn [us_d us_cap us_cup]. split; [exact Hwf|]. split; [reflexivity|]. split; [|exact C0].
    f_equal. lia. }
  assert (Hn : (length sd - length (map Z.of_nat lo) = length ro)%nat) by (rewrite map_length; lia).
  destruct ls.
  - destruct (loop1_left true a b eq_refl upd_up (map Z.of_nat lo) s0 cap sd T0 Hlo) as (s1 & E1 & T1).
    rewrite E1. rewrite Hn in T1.
    pose proof (move_loop_ro _ _ _ _ _ E1) as R1. cbn [us_ro s0] in R1.
    pose proof (ro_after_up _ _ _ _ L1 L2 L3) as Hro1. rewrite <- R1 in Hro1.
    assert (Hfull : us_ro s1 = seqZ (Z.of_nat (cap + length (map Z.of_nat lo)) + 1) (length ro)).
    { rewrite (inc_in_full _ _ _ Hro1).
      - rewrite R1, ro_after_length, map_length. f_equal. unfold len. lia.
      - unfold len. rewrite R1, ro_after_length, !map_length. lia. }
    rewrite Hfull.
    destruct (loop2_left true a b eq_refl upd_none (length ro) s1 _ T1) as (s2 & E2 & _).
    exists s2. exact E2.
  - destruct (loop1_right false a b eq_refl upd_down (map Z.of_nat lo) s0 cap sd T0 Hlo) as (s1 & E1 & T1).
    rewrite E1. rewrite Hn in T1.
    pose proof (move_loop_ro _ _ _ _ _ E1) as R1. cbn [us_ro s0] in R1.
    assert (L3' : forall z, In z (rev (map Z.of_nat lo)) -> ~ In z (map Z.of_nat ro)).
    { intros z Hz. apply L3. apply in_rev. exact Hz. }
    pose proof (ro_after_down _ _ _ _ (inc_rev _ _ _ L1) L2 L3') as Hro1. rewrite <- R1 in Hro1.
    assert (Hfull : us_ro s1 = seqZ (Z.of_nat cap + 1) (length ro)).
    { rewrite (inc_in_full _ _ _ Hro1).
      - rewrite R1, ro_after_length, map_length. reflexivity.
      - rewrite len_rev. unfold len. rewrite R1, ro_after_length, !map_length. lia. }
    rewrite Hfull.
    destruct (loop2_right false a b eq_refl upd_none (length ro) s1 _ T1) as (s2 & E2 & _).
    exists s2. exact E2.
Qed.

(* C07, totality, FULL: on a well-typed rigid diagram every call of unsnake on what
   find_snake selected runs to completion -- no InterchangerError, no IndexError, no
   AxiomError -- whatever the obstructions *)
Theorem snake_removal_total : snake_removal_total_stmt.
Proof.
  intros d cup cap lo ro ls Hwf Hr F.
  destruct (unsnake_loops_complete _ _ _ _ _ _ Hwf Hr F) as (s2 & E).
  destruct (unsnake_deletion_accepted _ _ _ _ _ _ _ Hwf Hr F E) as (d' & D).
  unfold unsnake_completes. rewrite unsnake_unfold, E, D. eauto.
Qed.

(* ================================================================ the whole normal form *)
Lemma normalize_pass_total n : forall d i left acc moved, wf d ->
  exists r, normalize_pass d i n left acc moved = Ok r.
Proof.
  induction n as [|n IH]; intros d i left acc moved Hwf; cbn [normalize_pass]; [eauto|].
  destruct (can_move d i left) eqn:Cm; [|apply IH; exact Hwf].
  assert (Hd : disjoint_at d i /\ (S i < length (dboxes d))%nat).
  { unfold can_move in Cm.
    destruct (nth_error (dboxes d) i) as [b0|] eqn:B0; [|discriminate].
    destruct (nth_error (dboxes d) (S i)) as [b1|] eqn:B1; [|discriminate].
    destruct (nth_error (doffs d) i) as [o0|] eqn:O0; [|discriminate].
    destruct (nth_error (doffs d) (S i)) as [o1|] eqn:O1; [|discriminate].
    split; [|apply nth_error_Some; rewrite B1; discriminate].
    exists b0, b1, o0, o1. repeat (split; [assumption|]). destruct left; apply Z.leb_le in Cm; auto. }
  destruct Hd as [Hd Hi]. pose proof (interchange_adj_total d i left Hwf Hi) as T.
  destruct (interchange_adj d i left) as [d1|e] eqn:E.
  - cbn [bind]. apply IH. exact (proj1 (interchange_adj_shape _ _ _ _ Hwf E)).
  - exfalso. destruct T as [_ T]. exact (T Hd).
Qed.

Lemma nf_loop_errors fuel : forall d left seen e, wf d ->
  nf_loop fuel d left seen = Err e -> e = NotImplementedError \/ e = OutOfFuel.
Proof.
  induction fuel as [|fuel IH]; cbn [nf_loop]; intros d left seen e Hwf H.
  - inversion H; auto.
  - destruct (normalize_pass_total (length (dboxes d) - 1) d 0 left [] false Hwf) as ([[d1 ys] moved] & E).
    rewrite E in H. cbn [bind] in H.
    destruct (normalize_pass_wf _ _ _ _ _ _ _ _ _ Hwf (Forall_nil _) (Forall_nil _) E) as (W1 & _).
    destruct (first_repeat seen (rev ys)); [inversion H; auto|].
    destruct moved; [exact (IH _ _ _ _ W1 H)|discriminate].
Qed.

Lemma unsnake_sub d cup cap lo ro ls d' ys e : wf d -> rigid_ok d ->
  find_snake d = Some (cup, cap, (lo, ro), ls) ->
  unsnake d cup cap lo ro ls = (d', ys, e) -> sub_boxes d d'.
Proof.
  intros Hwf Hr F U.
  destruct (gen_unsnake_sound unit (fun _ => tt) (fun _ => True)
              ltac:(reflexivity) ltac:(reflexivity) d cup cap lo ro ls d' ys e Hwf (rigid_ok_in d Hr) F U)
    as (_ & _ & S). exact S.
Qed.

Lemma snake_loop_total fuel : forall d acc d' ys e, wf d -> rigid_ok d ->
  snake_loop fuel d acc = (d', ys, e) -> wf d' /\ (e = None \/ e = Some OutOfFuel).
Proof.
  induction fuel as [|fuel IH]; cbn [snake_loop]; intros d acc d' ys e Hwf Hr H.
  - inversion H; subst. auto.
  - destruct (find_snake d) as [[[[cup cap] [lo ro]] ls]|] eqn:F; [|inversion H; subst; auto].
    destruct (snake_removal_total d cup cap lo ro ls Hwf Hr F) as (d1 & ys1 & U). rewrite U in H.
    destruct (unsnake_steps_wf _ _ _ _ _ _ _ _ _ Hwf U) as [[W1 _] _].
    pose proof (unsnake_sub _ _ _ _ _ _ _ _ _ Hwf Hr F U) as S1.
    refine (IH d1 (ys1 ++ acc) d' ys e W1 _ H). intros b Hb. apply Hr, S1, Hb.
Qed.

(* hence rigid.Diagram.normal_form only ever fails with NotImplementedError (the
   cache found a repeat) -- or the model's fuel *)
Theorem normal_form_total : normal_form_total_stmt.
Proof.
  intros d left fuel Hwf Hr. unfold rigid_normal_form.
  destruct (snake_phase d) as [[d1 ys] e] eqn:SP. unfold snake_phase in SP.
  destruct (snake_loop_total _ _ _ _ _ _ Hwf Hr SP) as [W1 He].
  destruct (first_repeat [] (rev ys)); [left; reflexivity|].
  destruct He as [->| ->]; [|right; reflexivity].
  destruct (nf_loop fuel d1 left ys) as [d'|e'] eqn:E; [exact Logic.I|].
  exact (nf_loop_errors _ _ _ _ _ W1 E).
Qed.

(* ... and the trace of rigid.Diagram.normalize never ends with an exception *)
Theorem rigid_trace_never_raises limit d left tr st e : wf d -> rigid_ok d ->
  rigid_trace limit d left = (tr, st) -> st <> Raised e.
Proof.
  intros Hwf Hr H. unfold rigid_trace in H.
  destruct (snake_phase d) as [[d1 ys] e0] eqn:SP. unfold snake_phase in SP.
  destruct (snake_loop_total _ _ _ _ _ _ Hwf Hr SP) as [W1 He].
  assert (e0 = None).
  { destruct He as [->| ->]; [reflexivity|]. exfalso. exact (snake_phase_terminates _ _ _ _ Hwf SP eq_refl). }
  subst e0.
  assert (NL : forall fuel d0 acc acc' st0, wf d0 -> norm_loop fuel d0 left acc = (acc', st0) -> st0 <> Raised e).
  { induction fuel as [|fuel IH]; cbn [norm_loop]; intros d0 acc acc' st0 W0 H0.
    - inversion H0; discriminate.
    - destruct (normalize_pass_total (length (dboxes d0) - 1) d0 0 left acc false W0) as ([[d2 acc2] moved] & E).
      rewrite E in H0.
      destruct (normalize_pass_acc _ _ _ _ _ _ _ _ _ E) as (new & -> & Hall).
      pose proof (Hall []) as E0. rewrite app_nil_r in E0.
      destruct (normalize_pass_wf _ _ _ _ _ _ _ _ _ W0 (Forall_nil _) (Forall_nil _) E0) as (W2 & _).
      destruct moved; [exact (IH _ _ _ _ W2 H0)|inversion H0; discriminate]. }
  destruct (norm_loop (S limit) d1 left ys) as [acc st0] eqn:En.
  pose proof (NL _ _ _ _ _ W1 En) as Hst.
  destruct (Nat.ltb limit (length (rev acc))); inversion H; subst; [discriminate|exact Hst].
Qed.

(* non-vacuity: the obstructed left snake (two obstructions on each side) *)
Example total_hyps_obstructed :
  wf obstructed_d /\ rigid_ok obstructed_d /\
  find_snake obstructed_d = Some (5%nat, 0%nat, ([2%nat; 4%nat], [1%nat; 3%nat]), true).
Proof. split; [exact obstructed_wf|]. split; [exact obstructed_rigid_ok|exact obstructed_find]. Qed.
