(* rewriting.py: snake_removal (follow_wire, find_snake, unsnake, the outer loop,
   then monoidal normalize) and rigid.Diagram.normalize / normal_form.
   Definitions only; proofs live in Snake/SnakeLemmas.v.  The model follows the
   code after the repair of finding F2 (commit 0cc87cd): find_snake's
   `not_yankable` test ends with `or boxes[cup].dom != boxes[cap].cod[::-1]`, so a
   type-mismatched "twisted" snake is no longer selected (it used to be, and the
   final `layers[:cap] >> layers[cup + 1:]` then raised AxiomError). *)
From Coq Require Import List ZArith Bool Lia.
Import ListNotations.
Require Import DV.Common.Base DV.Core.Diagram DV.Core.Rewriting DV.Core.Rigid DV.Core.Prog.
Open Scope Z_scope.

(* isinstance(box, Cap) / isinstance(box, Cup) *)
Definition is_cap (b : box) : bool := bkind_eqb (bk b) KCap.
Definition is_cup (b : box) : bool := bkind_eqb (bk b) KCup.

(* ------------------------------------------------------------ follow_wire *)
(* the `while i < len(diagram) - 1: i += 1 ...` loop of follow_wire, run over the
   (box, offset) pairs below the starting box; `i` is the index of the head of
   `rest`.  Returns (i, j, left_obstruction, right_obstruction). *)
Fixpoint fw (rest : list (box * Z)) (i : nat) (j : Z) : nat * Z * list nat * list nat :=
  match rest with
  | [] => (i, j, [], [])                            (* return len(diagram), j, ... *)
  | (b, off) :: rest' =>
      if (off <=? j) && (j <? off + len (bdom b)) then (i, j, [], [])
      else if off <=? j then
        let '(c, w, lo, ro) := fw rest' (S i) (j + (len (bcod b) - len (bdom b))) in
        (c, w, i :: lo, ro)
      else
        let '(c, w, lo, ro) := fw rest' (S i) j in
        (c, w, lo, i :: ro)
  end.

(* follow_wire(diagram, i, j) *)
Definition follow_wire (d : diagram) (i : nat) (j : Z) : nat * Z * list nat * list nat :=
  fw (skipn (S i) (combine (dboxes d) (doffs d))) (S i) j.

(* ------------------------------------------------------------ find_snake *)
(* (cup, cap, (left_obstruction, right_obstruction), left_snake) *)
Definition snake := (nat * nat * (list nat * list nat) * bool)%type.

(* one iteration of `for left_snake, wire in [(True, off), (False, off + 1)]`;
   None stands for `continue` *)
Definition try_leg (d : diagram) (cap : nat) (left_snake : bool) (wire : Z) : option snake :=
  let '(cup, w, lo, ro) := follow_wire d cap wire in
  let not_yankable :=
    (Nat.eqb cup (length (dboxes d)))
    || match nth_error (dboxes d) cup, nth_error (doffs d) cup with
       | Some b, Some off =>
           negb (is_cup b)
           || (left_snake && negb (off + 1 =? w))
           || (negb left_snake && negb (off =? w))
           || match nth_error (dboxes d) cap with      (* boxes[cup].dom != boxes[cap].cod[::-1] *)
              | Some bc => negb (ty_eqb (bdom b) (rev (bcod bc)))
              | None => true
              end
       | _, _ => true
       end in
  if not_yankable then None else Some (cup, cap, (lo, ro), left_snake).

(* `for cap in range(len(diagram))`, from index `cap`, `n` indices to go *)
Fixpoint find_snake_from (d : diagram) (cap n : nat) : option snake :=
  match n with
  | O => None
  | S n' =>
    match nth_error (dboxes d) cap, nth_error (doffs d) cap with
    | Some b, Some off =>
        if is_cap b then
          match try_leg d cap true off with
          | Some r => Some r
          | None =>
            match try_leg d cap false (off + 1) with
            | Some r => Some r
            | None => find_snake_from d (S cap) n'
            end
          end
        else find_snake_from d (S cap) n'
    | _, _ => find_snake_from d (S cap) n'
    end
  end.

Definition find_snake (d : diagram) : option snake :=
  find_snake_from d 0 (length (dboxes d)).

(* ------------------------------------------------------------ unsnake *)
(* the mutable state of unsnake: current diagram, cap and cup indices, the
   right_obstruction list (mutated in place by the first loop), and the
   diagrams yielded so far (most recent first) *)
Record ustate := US {
  us_d : diagram; us_cap : Z; us_cup : Z; us_ro : list Z; us_acc : list diagram }.

(* one of the four `for box in ...: diagram = diagram.interchange(box, target);
   yield diagram; <update right_obstruction>; target +-= 1` loops.
   to_cap = true : target is cap, cap += 1;  false : target is cup, cup -= 1 *)
Fixpoint move_loop (to_cap : bool) (upd : Z -> Z -> Z) (l : list Z) (s : ustate)
  : ustate * option err :=
  match l with
  | [] => (s, None)
  | bx :: l' =>
      match interchange (us_d s) bx (if to_cap then us_cap s else us_cup s) false with
      | Err e => (s, Some e)
      | Ok d' =>
          move_loop to_cap upd l'
            (US d' (if to_cap then us_cap s + 1 else us_cap s)
                   (if to_cap then us_cup s else us_cup s - 1)
                   (map (upd bx) (us_ro s)) (d' :: us_acc s))
      end
  end.

(* if right_box < box: right_obstruction[i] += 1 *)
Definition upd_up (bx r : Z) : Z := if r <? bx then r + 1 else r.
(* if right_box > box: right_obstruction[i] -= 1 *)
Definition upd_down (bx r : Z) : Z := if bx <? r then r - 1 else r.
Definition upd_none (bx r : Z) : Z := r.

(* boxes = diagram.boxes[:cap] + diagram.boxes[cup + 1:]; offsets likewise;
   layers = diagram.layers[:cap] >> diagram.layers[cup + 1:]   (checked composition);
   Diagram(diagram.dom, diagram.cod, boxes, offsets, layers) *)
Definition delete_pair (d : diagram) (cap cup : Z) : res diagram :=
  let boxes := py_slice (dboxes d) None (Some cap) ++ py_slice (dboxes d) (Some (cup + 1)) None in
  let offs := py_slice (doffs d) None (Some cap) ++ py_slice (doffs d) (Some (cup + 1)) None in
  do layers <- la_then (la_slice (dlayers d) None (Some cap))
                       (la_slice (dlayers d) (Some (cup + 1)) None);
  Ok (D (ddom d) (dcod d) boxes offs layers).

(* unsnake(diagram, cup, cap, obstructions, left_snake) as a finished generator:
   (current diagram, yielded diagrams most recent first, exception if any) *)
Definition unsnake (d : diagram) (cup cap : nat) (lo ro : list nat) (left_snake : bool)
  : diagram * list diagram * option err :=
  let s0 := US d (Z.of_nat cap) (Z.of_nat cup) (map Z.of_nat ro) [] in
  let loz := map Z.of_nat lo in
  let '(s2, e) :=
    if left_snake then
      let '(s1, e1) := move_loop true upd_up loz s0 in
      match e1 with
      | Some _ => (s1, e1)
      | None => move_loop false upd_none (rev (us_ro s1)) s1
      end
    else
      let '(s1, e1) := move_loop false upd_down (rev loz) s0 in
      match e1 with
      | Some _ => (s1, e1)
      | None => move_loop true upd_none (us_ro s1) s1
      end in
  match e with
  | Some _ => (us_d s2, us_acc s2, e)
  | None =>
      match delete_pair (us_d s2) (us_cap s2) (us_cup s2) with
      | Ok d' => (d', d' :: us_acc s2, None)
      | Err e' => (us_d s2, us_acc s2, Some e')
      end
  end.

(* ------------------------------------------------------------ the outer loop *)
(* `while True: yankable = find_snake(diagram); if yankable is None: break; ...`
   Every successful unsnake removes two boxes (SnakeLemmas.unsnake_box_count), so
   S (length boxes) iterations always suffice; OutOfFuel is unreachable on
   well-typed input (SnakeLemmas.snake_loop_fuel). *)
Fixpoint snake_loop (fuel : nat) (d : diagram) (acc : list diagram)
  : diagram * list diagram * option err :=
  match fuel with
  | O => (d, acc, Some OutOfFuel)
  | S fuel' =>
      match find_snake d with
      | None => (d, acc, None)
      | Some (cup, cap, (lo, ro), left_snake) =>
          let '(d', ys, e) := unsnake d cup cap lo ro left_snake in
          match e with
          | Some _ => (d', ys ++ acc, e)
          | None => snake_loop fuel' d' (ys ++ acc)
          end
      end
  end.

Definition snake_phase (d : diagram) : diagram * list diagram * option err :=
  snake_loop (S (length (dboxes d))) d [].

(* ------------------------------------------------------------ traces *)
(* how a generator ended: exhausted, raised, or cut off by the observer *)
Inductive status := Done | Raised (e : err) | Cut.

(* monoidal.Diagram.normalize run for at most `fuel` passes of its while loop,
   keeping what was yielded so far (most recent first) *)
Fixpoint norm_loop (fuel : nat) (d : diagram) (left : bool) (acc : list diagram)
  : list diagram * status :=
  match fuel with
  | O => (acc, Cut)
  | S fuel' =>
      match normalize_pass d 0 (length (dboxes d) - 1) left acc false with
      | Err e => (acc, Raised e)
      | Ok (d', acc', moved) =>
          if moved then norm_loop fuel' d' left acc' else (acc', Done)
      end
  end.

(* the first `limit` diagrams yielded by rigid.Diagram.normalize(d, left) and how
   the generator ended within that prefix.  Each pass of normalize that does not
   end the generator yields at least one diagram, so limit + 1 passes decide. *)
Definition rigid_trace (limit : nat) (d : diagram) (left : bool) : list diagram * status :=
  let '(d', ys, e) := snake_phase d in
  let '(acc, st) :=
    match e with
    | Some e' => (ys, Raised e')
    | None => norm_loop (S limit) d' left ys
    end in
  let tr := rev acc in
  if Nat.ltb limit (length tr) then (firstn limit tr, Cut) else (tr, st).

(* rigid.Diagram.normal_form(left=left) = rewriting.normal_form with
   normalizer = snake_removal: every yielded diagram is looked up in the cache
   before the generator is resumed, so a repeat among the snake-removal steps
   wins over an exception raised later by unsnake. *)
Definition rigid_normal_form (fuel : nat) (d : diagram) (left : bool) : res diagram :=
  let '(d', ys, e) := snake_phase d in
  if first_repeat [] (rev ys) then Err NotImplementedError
  else match e with
       | Some e' => Err e'
       | None => nf_loop fuel d' left ys
       end.

(* ------------------------------------------------------------ DSL + codec *)
Definition trace_limit : nat := 60.
Definition nf_fuel : nat := 400.

(* what harness/core_impl.Cls.box does before the diagram is built:
   rigid.Cup(dom[:1], dom[1:]) / rigid.Cap(cod[:1], cod[1:]) run their checks *)
Definition check_box (b : box) : res unit :=
  match bk b with
  | KCup => do _ <- cup_box (py_slice (bdom b) None (Some 1)) (py_slice (bdom b) (Some 1) None); Ok tt
  | KCap => do _ <- cap_box (py_slice (bcod b) None (Some 1)) (py_slice (bcod b) (Some 1) None); Ok tt
  | _ => Ok tt
  end.

(* shape of the box descriptions the harness may send (anything else is a
   harness bug, answered with BadProgram) *)
Definition box_ok (b : box) : bool :=
  match bk b with
  | KCup => (len (bdom b) =? 2) && (len (bcod b) =? 0)
  | KCap => (len (bdom b) =? 0) && (len (bcod b) =? 2)
  | KSwap => false
  | KBox => true
  end.
Definition shape_ok (b : box) : bool :=
  match bk b with
  | KCup => len (bcod b) =? 0
  | KCap => len (bdom b) =? 0
  | KSwap => false
  | KBox => true
  end.

Definition enc_status (st : status) : sexp :=
  match st with Done => I 0 | Raised e => I (err_code e) | Cut => I (-1) end.

Definition enc_err (e : err) : sexp := L [I 1; I (err_code e)].

(* rigid.Diagram(dom, cod, boxes, offsets) with the boxes built first *)
Definition build (dom cod : ty) (bs : list box) (offs : list Z) : res diagram :=
  do _ <- mapM check_box bs; mk dom cod bs offs.

Definition enc_nats (l : list nat) : sexp := L (map (fun n => I (Z.of_nat n)) l).

Definition run_request (mode : Z) (d : diagram) (left : bool) : sexp :=
  if mode =? 0 then
    let '(tr, st) := rigid_trace trace_limit d left in
    L [I 0; L (map enc_diagram tr); enc_status st]
  else if mode =? 1 then
    match rigid_normal_form nf_fuel d left with
    | Ok d' => L [I 0; enc_diagram d']
    | Err e => enc_err e
    end
  else if mode =? 2 then
    match find_snake d with
    | None => L [I 0; L []]
    | Some (cup, cap, (lo, ro), ls) =>
        L [I 0; L [I (Z.of_nat cup); I (Z.of_nat cap); enc_nats lo; enc_nats ro; of_bool ls]]
    end
  else enc_err BadProgram.

(* the single entry point of the extracted runner:
   (mode dom cod boxes offsets left), mode 0 = the trace of d.normalize(left),
   1 = d.normal_form(left=left), 2 = find_snake(d) *)
Definition run_sexp (s : sexp) : sexp :=
  match s with
  | L [I mode; dom; cod; bs; offs; l] =>
      match (do d' <- dec_ty dom; do c' <- dec_ty cod; do bs' <- dec_boxes bs;
             do o' <- sx_ints offs; do l' <- sx_bool l; Ok (d', c', bs', o', l')) with
      | Err e => enc_err e
      | Ok (d', c', bs', o', l') =>
          if negb (forallb shape_ok bs') then enc_err BadProgram
          else match build d' c' bs' o' with
               | Err e => enc_err e
               | Ok d => run_request mode d l'
               end
      end
  | _ => enc_err BadProgram
  end.
