(* C07, semantic soundness of snake removal, PROVED: in every strict monoidal
   category (Sem/Monoidal.v's `monoidal_model`, the record of C05 / C06) with an
   interpretation F of the boxes that respects their types and sends every
   type-matched Cap(a, b) / Cup(b, a) pair to morphisms satisfying the two snake
   equations, every diagram yielded by one call of unsnake, every diagram of every
   prefix of the trace of rigid.Diagram.normalize and the rigid normal form denote
   the same morphism as the input.

   One unsnake = interchanges (denotation kept by MonoidalLemmas.interchange_interp)
   then the deletion of the pair; SnakeWire.v shows that when the loops complete
   the two boxes handed to delete_pair are the cap and its cup, adjacent, leg into
   opposite leg, so the deleted stretch is a snake equation whiskered by
   identities.  New file; nothing in Snake.v / SnakeLemmas.v / Sem/*.v is changed. *)
From Coq Require Import List ZArith Bool Lia.
Import ListNotations.
Require Import DV.Common.Base DV.Common.ListLemmas DV.Core.Diagram DV.Core.WF DV.Core.DiagramLemmas
  DV.Core.Rewriting DV.Core.RewritingLemmas DV.Core.Rigid DV.Core.Prog
  DV.Snake.Snake DV.Snake.SnakeLemmas DV.Snake.SnakeWire
  DV.Sem.Monoidal DV.Sem.MonoidalLemmas DV.Sem.Instances.
Open Scope Z_scope.

(* ================================================================ the boxes never grow *)
Definition sub_boxes (d d' : diagram) : Prop := forall b, In b (dboxes d') -> In b (dboxes d).

Lemma sub_boxes_refl d : sub_boxes d d.
Proof. intros b H; exact H. Qed.
Lemma sub_boxes_trans a b c : sub_boxes a b -> sub_boxes b c -> sub_boxes a c.
Proof. intros H1 H2 x Hx. apply H1, H2, Hx. Qed.

Lemma In_firstn {A} n : forall (l : list A) x, In x (firstn n l) -> In x l.
Proof. intros l x H. rewrite <- (firstn_skipn n l). apply in_or_app. left; exact H. Qed.
Lemma In_skipn {A} n : forall (l : list A) x, In x (skipn n l) -> In x l.
Proof. intros l x H. rewrite <- (firstn_skipn n l). apply in_or_app. right; exact H. Qed.

Lemma interchange_adj_sub d i left d' : wf d -> interchange_adj d i left = Ok d' -> sub_boxes d d'.
Proof.
  intros Hwf H. destruct (interchange_adj_boxes _ _ _ _ Hwf H) as (b0 & b1 & B0 & B1 & Hb).
  intros b Hin. rewrite Hb in Hin. rewrite (nth_error_split3 _ _ _ _ B0 B1).
  apply in_app_or in Hin. apply in_or_app. destruct Hin as [Hin|Hin]; [left; exact Hin|right].
  apply in_app_or in Hin. apply in_or_app. destruct Hin as [Hin|Hin]; [left|right; exact Hin].
  cbn in Hin |- *. tauto.
Qed.

Lemma interchange_sub d i j left d' : wf d -> interchange d i j left = Ok d' -> sub_boxes d d'.
Proof.
  intros Hwf. unfold interchange. destruct (negb _); [discriminate|].
  destruct (i =? j); [intros H; inversion H; subst; apply sub_boxes_refl|].
  assert (Up : forall n d i d', wf d -> interchange_up d i n left = Ok d' -> sub_boxes d d').
  { induction n as [|n IH]; cbn [interchange_up]; intros d0 i0 d0' W H.
    - inversion H; subst. apply sub_boxes_refl.
    - destruct (interchange_adj d0 i0 left) as [d1|] eqn:E; [|discriminate]. cbn [bind] in H.
      destruct (interchange_adj_shape _ _ _ _ W E) as [W1 _].
      eapply sub_boxes_trans; [exact (interchange_adj_sub _ _ _ _ W E)|exact (IH _ _ _ W1 H)]. }
  assert (Down : forall n d i d', wf d -> interchange_down d i n left = Ok d' -> sub_boxes d d').
  { induction n as [|n IH]; cbn [interchange_down]; intros d0 i0 d0' W H.
    - inversion H; subst. apply sub_boxes_refl.
    - destruct (interchange_adj d0 (i0 - 1) left) as [d1|] eqn:E; [|discriminate]. cbn [bind] in H.
      destruct (interchange_adj_shape _ _ _ _ W E) as [W1 _].
      eapply sub_boxes_trans; [exact (interchange_adj_sub _ _ _ _ W E)|exact (IH _ _ _ W1 H)]. }
  destruct (j <? i); intros H; eauto.
Qed.

Lemma delete_pair_sub d cap cup d' : delete_pair d cap cup = Ok d' -> sub_boxes d d'.
Proof.
  unfold delete_pair. destruct (la_then _ _); [|discriminate]. cbn [bind]. intros H; inversion H; subst d'.
  intros b Hin. cbn [dboxes] in Hin. rewrite py_slice_prefix_k, py_slice_suffix_k in Hin.
  apply in_app_or in Hin. destruct Hin as [Hin|Hin]; [eapply In_firstn|eapply In_skipn]; exact Hin.
Qed.

(* the layers that remain after the deletion of two adjacent boxes *)
Lemma delete_pair_layers d c d' : wf d -> (S c < length (dboxes d))%nat ->
  delete_pair d (Z.of_nat c) (Z.of_nat c + 1) = Ok d' ->
  ddom d' = ddom d /\
  la_ls (dlayers d') = firstn c (la_ls (dlayers d)) ++ skipn (2 + c) (la_ls (dlayers d)).
Proof.
  intros Hwf Hn H. pose proof Hwf as (W1 & W2 & W3 & W4 & W5).
  pose proof (wf_lengths d Hwf) as [Lb _].
  unfold delete_pair in H. destruct (la_then _ _) as [la|] eqn:E; [|discriminate]. cbn [bind] in H.
  inversion H; subst d'. cbn [ddom dlayers]. split; [reflexivity|].
  rewrite la_slice_prefix_gen, la_slice_suffix_gen in E by exact W3.
  rewrite pre_k_nonneg, suf_k_nonneg in E by (unfold len; lia).
  apply la_then_ok in E. destruct E as [_ ->]. cbn [la_ls].
  replace (Z.to_nat (Z.of_nat c)) with c by lia.
  replace (Z.to_nat (Z.of_nat c + 1 + 1)) with (2 + c)%nat by lia. reflexivity.
Qed.

(* the type algebra of the two snakes, with the decomposition of the wires *)
Lemma snake_split_left {A} (L R L' R' : list A) a b c e :
  L ++ [a; b] ++ R = L' ++ [c; e] ++ R' -> length L = S (length L') ->
  L = L' ++ [c] /\ e = a /\ R' = b :: R.
Proof.
  intros H HL. change (L' ++ [c; e] ++ R') with (L' ++ [c] ++ e :: R') in H.
  rewrite (app_assoc L' [c] (e :: R')) in H. apply app_eq_len_split in H; [|rewrite app_length; cbn; lia].
  destruct H as [-> H]. inversion H; subst. auto.
Qed.

Lemma snake_split_right {A} (L R L' R' : list A) a b c e :
  L ++ [a; b] ++ R = L' ++ [c; e] ++ R' -> length L' = S (length L) ->
  L' = L ++ [a] /\ c = b /\ R = e :: R'.
Proof.
  intros H HL. change (L ++ [a; b] ++ R) with (L ++ [a] ++ b :: R) in H.
  rewrite (app_assoc L [a] (b :: R)) in H. symmetry in H. apply app_eq_len_split in H; [|rewrite app_length; cbn; lia].
  destruct H as [-> H]. inversion H; subst. auto.
Qed.

(* ================================================================ the loops, for any denotation *)
(* everything that snake removal does is an adjacent interchange or the deletion of
   an adjacent, connected, matching cap / cup pair: a denotation invariant under
   these two steps is invariant under unsnake, the trace and the normal form *)
Section Generic.
  Variable X : Type.
  Variable den : diagram -> X.
  Variable Q : box -> Prop.

  Hypothesis den_adj : forall d i left d', wf d -> interchange_adj d i left = Ok d' -> den d' = den d.
  Hypothesis den_del : forall ls x y d c bcap oc bcup ou d', wf d ->
    nth_error (dboxes d) c = Some bcap -> nth_error (doffs d) c = Some oc ->
    nth_error (dboxes d) (S c) = Some bcup -> nth_error (doffs d) (S c) = Some ou ->
    capP x y bcap -> cupP x y bcup -> Q bcap -> Q bcup ->
    oc + dl_cap ls = ou + dl_cup ls ->
    delete_pair d (Z.of_nat c) (Z.of_nat c + 1) = Ok d' ->
    den d' = den d.

  Definition same (d0 x : diagram) : Prop := den x = den d0.

  Lemma den_interchange d i j left d' : wf d -> interchange d i j left = Ok d' -> den d' = den d.
  Proof.
    intros Hwf. unfold interchange. destruct (negb _); [discriminate|].
    destruct (i =? j); [intros H; inversion H; reflexivity|].
    assert (Up : forall n d i d', wf d -> interchange_up d i n left = Ok d' -> den d' = den d).
    { induction n as [|n IH]; cbn [interchange_up]; intros d0 i0 d0' W H.
      - inversion H; reflexivity.
      - destruct (interchange_adj d0 i0 left) as [d1|] eqn:E; [|discriminate]. cbn [bind] in H.
        destruct (interchange_adj_shape _ _ _ _ W E) as [W1 _].
        rewrite (IH _ _ _ W1 H). exact (den_adj _ _ _ _ W E). }
    assert (Down : forall n d i d', wf d -> interchange_down d i n left = Ok d' -> den d' = den d).
    { induction n as [|n IH]; cbn [interchange_down]; intros d0 i0 d0' W H.
      - inversion H; reflexivity.
      - destruct (interchange_adj d0 (i0 - 1) left) as [d1|] eqn:E; [|discriminate]. cbn [bind] in H.
        destruct (interchange_adj_shape _ _ _ _ W E) as [W1 _].
        rewrite (IH _ _ _ W1 H). exact (den_adj _ _ _ _ W E). }
    destruct (j <? i); intros H; eauto.
  Qed.

  Lemma normalize_pass_den n : forall d i left acc moved d' acc' moved',
    wf d -> Forall (fun z => den z = den d) acc ->
    normalize_pass d i n left acc moved = Ok (d', acc', moved') ->
    wf d' /\ den d' = den d /\ Forall (fun z => den z = den d) acc'.
  Proof.
    induction n as [|n IH]; cbn [normalize_pass]; intros d i left acc moved d' acc' moved' Hwf Ha H.
    - inversion H; subst. auto.
    - destruct (can_move d i left).
      + destruct (interchange_adj d i left) as [d1|] eqn:E; [|discriminate]. cbn [bind] in H.
        destruct (interchange_adj_shape _ _ _ _ Hwf E) as [W1 _].
        pose proof (den_adj _ _ _ _ Hwf E) as I1.
        destruct (IH d1 (S i) left (d1 :: acc) true d' acc' moved' W1) as (W2 & I2 & F2); auto.
        * constructor; [reflexivity|]. eapply Forall_impl; [|exact Ha]. cbn. intros z Hz. congruence.
        * split; [auto|]. split; [congruence|]. eapply Forall_impl; [|exact F2]. cbn. intros z Hz. congruence.
      + apply (IH d (S i) left acc moved d' acc' moved'); auto.
  Qed.

  Lemma nf_loop_den fuel : forall d left seen d',
    wf d -> nf_loop fuel d left seen = Ok d' -> den d' = den d.
  Proof.
    induction fuel as [|fuel IH]; cbn [nf_loop]; intros d left seen d' Hwf H; [discriminate|].
    destruct (normalize_pass d 0 (length (dboxes d) - 1) left [] false) as [[[d1 ys] moved]|] eqn:E; [|discriminate].
    cbn [bind] in H.
    destruct (normalize_pass_den _ _ _ _ _ _ _ _ _ Hwf (Forall_nil _) E) as (W1 & I1 & _).
    destruct (first_repeat seen (rev ys)); [discriminate|].
    destruct moved.
    - rewrite (IH _ _ _ _ W1 H). exact I1.
    - inversion H; subst. exact I1.
  Qed.

  Lemma move_loop_interp to_cap upd l d0 : forall s s' e,
    wf (us_d s) -> same d0 (us_d s) -> sub_boxes d0 (us_d s) -> Forall (same d0) (us_acc s) ->
    move_loop to_cap upd l s = (s', e) ->
    same d0 (us_d s') /\ sub_boxes d0 (us_d s') /\ Forall (same d0) (us_acc s').
  Proof.
    induction l as [|bx l IH]; cbn [move_loop]; intros s s' e W Hs Hb Ha H.
    - inversion H; subst. auto.
    - destruct (interchange (us_d s) bx _ false) as [d1|e1] eqn:E.
      + destruct (interchange_shape _ _ _ _ _ W E) as [W1 _].
        assert (S1 : same d0 d1).
        { unfold same in *. rewrite (den_interchange _ _ _ _ _ W E). exact Hs. }
        assert (B1 : sub_boxes d0 d1) by (eapply sub_boxes_trans; [exact Hb|exact (interchange_sub _ _ _ _ _ W E)]).
        eapply IH; [| | | |exact H]; cbn [us_d us_acc]; auto.
      + inversion H; subst. auto.
  Qed.

  Lemma unsnake_loops_interp d cup cap lo ro ls s2 e : wf d ->
    unsnake_loops d cup cap lo ro ls = (s2, e) ->
    same d (us_d s2) /\ sub_boxes d (us_d s2) /\ Forall (same d) (us_acc s2).
  Proof.
    intros Hwf H. unfold unsnake_loops in H.
    assert (S0 : same d d) by reflexivity.
    assert (G0 : good d d) by (split; [exact Hwf|apply same_shape_refl]).
    destruct ls.
    - destruct (move_loop true upd_up _ _) as [s1 e1] eqn:E1.
      assert (X0 := fun G A => move_loop_wf _ _ _ d _ _ _ G A E1). cbn [us_d us_acc] in X0.
      destruct (X0 G0 (Forall_nil _)) as [[W1 _] _]. clear X0.
      assert (Y := fun W S B A => move_loop_interp _ _ _ d _ _ _ W S B A E1). cbn [us_d us_acc] in Y.
      destruct (Y Hwf S0 (sub_boxes_refl d) (Forall_nil _)) as (A & B & C). clear Y.
      destruct e1; [inversion H; subst; auto|].
      exact (move_loop_interp _ _ _ d _ _ _ W1 A B C H).
    - destruct (move_loop false upd_down _ _) as [s1 e1] eqn:E1.
      assert (X0 := fun G A => move_loop_wf _ _ _ d _ _ _ G A E1). cbn [us_d us_acc] in X0.
      destruct (X0 G0 (Forall_nil _)) as [[W1 _] _]. clear X0.
      assert (Y := fun W S B A => move_loop_interp _ _ _ d _ _ _ W S B A E1). cbn [us_d us_acc] in Y.
      destruct (Y Hwf S0 (sub_boxes_refl d) (Forall_nil _)) as (A & B & C). clear Y.
      destruct e1; [inversion H; subst; auto|].
      exact (move_loop_interp _ _ _ d _ _ _ W1 A B C H).
  Qed.

  (* rigid diagrams whose cups and caps are among those of the model *)
  Definition rigid_in (d : diagram) : Prop := forall b, In b (dboxes d) -> box_ok b = true /\ Q b.

  Lemma rigid_in_sub d d' : rigid_in d -> sub_boxes d d' -> rigid_in d'.
  Proof. intros H S b Hb. apply H, S, Hb. Qed.

  Lemma rigid_in_ok d : rigid_in d -> rigid_ok d.
  Proof. intros H b Hb. apply H, Hb. Qed.

  (* one call of unsnake on what find_snake selected, ANY obstructions: every
     yielded diagram and the current diagram denote what the input denotes *)
  Theorem gen_unsnake_sound d cup cap lo ro ls d' ys e : wf d -> rigid_in d ->
    find_snake d = Some (cup, cap, (lo, ro), ls) ->
    unsnake d cup cap lo ro ls = (d', ys, e) ->
    same d d' /\ Forall (same d) ys /\ sub_boxes d d'.
  Proof.
    intros Hwf Hr Fs H. rewrite unsnake_unfold in H.
    destruct (unsnake_loops d cup cap lo ro ls) as [s2 e2] eqn:E.
    destruct (unsnake_loops_interp _ _ _ _ _ _ _ _ Hwf E) as (A & B & C).
    destruct e2 as [e2|]; [inversion H; subst; auto|].
    destruct (delete_pair _ _ _) as [d1|e1] eqn:D; inversion H; subst; clear H; [|auto].
    destruct (find_snake_connected _ _ _ _ _ _ Hwf (rigid_in_ok _ Hr) Fs) as (x & y & Hc & L1 & L2 & L3 & Hcount).
    destruct (unsnake_loops_adjacent _ _ _ _ _ _ _ _ _ Hwf Hc L1 L2 L3 Hcount E) as (c & T).
    destruct (tracked_adjacent _ _ _ _ _ T) as (bcap & oc & bcup & ou & N1 & N2 & N3 & N4 & P1 & P2 & Ho & Ec & Eu & W).
    rewrite Ec, Eu in D.
    assert (Q1 : Q bcap) by (apply Hr, B; eapply nth_error_In; exact N1).
    assert (Q2 : Q bcup) by (apply Hr, B; eapply nth_error_In; exact N3).
    assert (S1 : same d d').
    { unfold same in *. rewrite (den_del ls x y _ _ _ _ _ _ _ W N1 N2 N3 N4 P1 P2 Q1 Q2 Ho D). exact A. }
    split; [exact S1|]. split; [constructor; [exact S1|exact C]|].
    eapply sub_boxes_trans; [exact B|exact (delete_pair_sub _ _ _ _ D)].
  Qed.

  Lemma same_trans d0 d x : same d0 d -> same d x -> same d0 x.
  Proof. unfold same. congruence. Qed.

  Lemma snake_loop_sound d0 fuel : forall d acc d' ys e,
    wf d -> rigid_in d -> same d0 d -> Forall (same d0) acc ->
    snake_loop fuel d acc = (d', ys, e) ->
    wf d' /\ same d0 d' /\ Forall (same d0) ys.
  Proof.
    induction fuel as [|fuel IH]; cbn [snake_loop]; intros d acc d' ys e W R S A H.
    - inversion H; subst. auto.
    - destruct (find_snake d) as [[[[cup cap] [lo ro]] ls]|] eqn:Fs; [|inversion H; subst; auto].
      destruct (unsnake d cup cap lo ro ls) as [[d1 ys1] e1] eqn:U.
      destruct (unsnake_steps_wf _ _ _ _ _ _ _ _ _ W U) as [[W1 _] _].
      destruct (gen_unsnake_sound _ _ _ _ _ _ _ _ _ W R Fs U) as (S1 & A1 & B1).
      assert (A1' : Forall (same d0) (ys1 ++ acc)).
      { apply Forall_app. split; [|exact A]. eapply Forall_impl; [|exact A1].
        intros z Hz. exact (same_trans _ _ _ S Hz). }
      destruct e1.
      + inversion H; subst. split; [exact W1|]. split; [exact (same_trans _ _ _ S S1)|exact A1'].
      + eapply (IH d1); [exact W1|exact (rigid_in_sub _ _ R B1)|exact (same_trans _ _ _ S S1)|exact A1'|exact H].
  Qed.

  Lemma norm_loop_sound d0 fuel : forall d left acc acc' st,
    wf d -> same d0 d -> Forall (same d0) acc ->
    norm_loop fuel d left acc = (acc', st) -> Forall (same d0) acc'.
  Proof.
    induction fuel as [|fuel IH]; cbn [norm_loop]; intros d left acc acc' st W S A H.
    - inversion H; subst. exact A.
    - destruct (normalize_pass d 0 (length (dboxes d) - 1) left acc false) as [[[d1 acc1] moved]|] eqn:E.
      2: { inversion H; subst. exact A. }
      assert (A' : Forall (fun z => den z = den d) acc).
      { eapply Forall_impl; [|exact A]. unfold same. intros z Hz. congruence. }
      destruct (normalize_pass_den _ _ _ _ _ _ _ _ _ W A' E) as (W1 & I1 & F1).
      assert (A1 : Forall (same d0) acc1).
      { eapply Forall_impl; [|exact F1]. unfold same in *. cbn. intros z Hz. congruence. }
      destruct moved.
      + eapply (IH d1); [exact W1| |exact A1|exact H]. unfold same in *. congruence.
      + inversion H; subst. exact A1.
  Qed.

  (* the whole generator rigid.Diagram.normalize, every yield limit *)
  Theorem gen_rigid_trace_sound limit d left tr st : wf d -> rigid_in d ->
    rigid_trace limit d left = (tr, st) -> Forall (same d) tr.
  Proof.
    intros Hwf Hr H. unfold rigid_trace in H.
    destruct (snake_phase d) as [[d1 ys] e] eqn:SP. unfold snake_phase in SP.
    destruct (snake_loop_sound d _ _ _ _ _ _ Hwf Hr eq_refl (Forall_nil _) SP) as (W1 & S1 & A1).
    assert (HA : forall acc st0, (match e with Some e' => (ys, Raised e') | None => norm_loop (S limit) d1 left ys end)
                                   = (acc, st0) -> Forall (same d) acc).
    { intros acc st0 Hacc. destruct e; [inversion Hacc; subst; exact A1|].
      eapply norm_loop_sound; eauto. }
    destruct (match e with Some e' => (ys, Raised e') | None => norm_loop (S limit) d1 left ys end)
      as [acc st0] eqn:Eacc.
    pose proof (HA _ _ eq_refl) as Hacc.
    destruct (Nat.ltb limit (length (rev acc))); inversion H; subst.
    - apply Forall_firstn, Forall_rev, Hacc.
    - apply Forall_rev, Hacc.
  Qed.

  (* ... and the normal form, when there is one *)
  Theorem gen_rigid_normal_form_sound fuel d left d' : wf d -> rigid_in d ->
    rigid_normal_form fuel d left = Ok d' -> same d d'.
  Proof.
    intros Hwf Hr H. unfold rigid_normal_form in H.
    destruct (snake_phase d) as [[d1 ys] e] eqn:SP. unfold snake_phase in SP.
    destruct (snake_loop_sound d _ _ _ _ _ _ Hwf Hr eq_refl (Forall_nil _) SP) as (W1 & S1 & A1).
    destruct (first_repeat [] (rev ys)); [discriminate|]. destruct e; [discriminate|].
    unfold same in *. rewrite (nf_loop_den _ _ _ _ _ W1 H). exact S1.
  Qed.
End Generic.
Arguments same {X} den d0 x.

(* ================================================================ the semantics *)
Section Sound.
  Variable Mod : monoidal_model.
  Variable F : box -> M Mod.
  (* the cups and caps for which the model promises the snake equations *)
  Variable Q : box -> Prop.

  Notation "f ;; g" := (comp Mod f g) (at level 40, left associativity).
  Notation "f ⊗ g" := (tens Mod f g) (at level 35, right associativity).
  Notation idt t := (idm Mod (obj_ty Mod t)).
  Notation den := (Monoidal.interp Mod F).

  (* the two snake equations, for every type-matched Cap(a, b) / Cup(b, a) in Q *)
  Definition snake_eqs : Prop :=
    forall cap cup a b, bk cap = KCap -> bk cup = KCup -> Q cap -> Q cup ->
      bdom cap = [] -> bcod cap = [a; b] -> bdom cup = [b; a] -> bcod cup = [] ->
      (idt [b] ⊗ F cap) ;; (F cup ⊗ idt [b]) = idt [b] /\
      (F cap ⊗ idt [a]) ;; (idt [a] ⊗ F cup) = idt [a].

  Hypothesis HF : respects_types Mod F.
  Hypothesis HS : snake_eqs.

  Lemma whisker_mid_l l m f r : whisker Mod (l ++ m) f r = tl Mod [idt l; idt m ⊗ f; idt r].
  Proof. unfold whisker. cbn [tl]. now rewrite idt_app, !tens_assoc, tens_unit_r. Qed.

  Lemma whisker_mid_r l f m r : whisker Mod l f (m ++ r) = tl Mod [idt l; f ⊗ idt m; idt r].
  Proof. unfold whisker. cbn [tl]. now rewrite idt_app, !tens_assoc, tens_unit_r. Qed.

  Lemma tl3_id l m r : tl Mod [idt l; idt m; idt r] = idt (l ++ m ++ r).
  Proof. cbn [tl]. now rewrite tens_unit_r, !idt_app. Qed.

  (* the left snake equation whiskered by identities *)
  Lemma snake_whisker_left l r cap cup a b :
    bk cap = KCap -> bk cup = KCup -> Q cap -> Q cup ->
    bdom cap = [] -> bcod cap = [a; b] -> bdom cup = [b; a] -> bcod cup = [] ->
    whisker Mod (l ++ [b]) (F cap) r ;; whisker Mod l (F cup) (b :: r) = idt (l ++ [b] ++ r).
  Proof.
    intros K1 K2 Q1 Q2 D1 C1 D2 C2.
    destruct (HS cap cup a b K1 K2 Q1 Q2 D1 C1 D2 C2) as [E _].
    change (b :: r) with ([b] ++ r). rewrite whisker_mid_l, whisker_mid_r, tl_comp.
    - cbn [map2]. rewrite !comp_idt_idt, E. apply tl3_id.
    - repeat constructor; rewrite ?dom_id, ?cod_id, ?dom_tens, ?cod_tens, ?dom_id, ?cod_id; try reflexivity.
      rewrite (F_cod Mod F HF), (F_dom Mod F HF), C1, D2, <- !obj_ty_app. reflexivity.
  Qed.

  (* the right snake equation whiskered by identities *)
  Lemma snake_whisker_right l r cap cup a b :
    bk cap = KCap -> bk cup = KCup -> Q cap -> Q cup ->
    bdom cap = [] -> bcod cap = [a; b] -> bdom cup = [b; a] -> bcod cup = [] ->
    whisker Mod l (F cap) (a :: r) ;; whisker Mod (l ++ [a]) (F cup) r = idt (l ++ [a] ++ r).
  Proof.
    intros K1 K2 Q1 Q2 D1 C1 D2 C2.
    destruct (HS cap cup a b K1 K2 Q1 Q2 D1 C1 D2 C2) as [_ E].
    change (a :: r) with ([a] ++ r). rewrite whisker_mid_l, whisker_mid_r, tl_comp.
    - cbn [map2]. rewrite !comp_idt_idt, E. apply tl3_id.
    - repeat constructor; rewrite ?dom_id, ?cod_id, ?dom_tens, ?cod_tens, ?dom_id, ?cod_id; try reflexivity.
      rewrite (F_cod Mod F HF), (F_dom Mod F HF), C1, D2, <- !obj_ty_app. reflexivity.
  Qed.

  (* deleting two consecutive layers that compose to an identity *)
  Lemma delete_layers_interp d c Lc Lu d' : wf d ->
    nth_error (la_ls (dlayers d)) c = Some Lc -> nth_error (la_ls (dlayers d)) (S c) = Some Lu ->
    interp_layer Mod F Lc ;; interp_layer Mod F Lu = idt (ldom Lc) ->
    ddom d' = ddom d ->
    la_ls (dlayers d') = firstn c (la_ls (dlayers d)) ++ skipn (2 + c) (la_ls (dlayers d)) ->
    den d' = den d.
  Proof.
    intros Hwf E0 E1 Heq Hd Hl. pose proof Hwf as (W1 & W2 & W3 & W4 & W5).
    assert (Hlen : (c <= length (la_ls (dlayers d)))%nat).
    { assert (c < length (la_ls (dlayers d)))%nat by (apply nth_error_Some; rewrite E0; discriminate). lia. }
    pose proof (chain_firstn _ _ _ c W3 Hlen) as Hpre.
    destruct (type_at_nth _ _ _ _ _ W3 E0) as [T0a T0].
    destruct (type_at_nth _ _ _ _ _ W3 E1) as [T1 _].
    unfold Monoidal.interp. rewrite Hd, Hl. rewrite (nth_error_split3 _ _ _ _ E0 E1) at 3.
    rewrite !interp_layers_app. cbn [interp_layers app].
    set (X := interp_layers Mod F (idt (ddom d)) (firstn c (la_ls (dlayers d)))).
    assert (HX : codM Mod X = obj_ty Mod (ldom Lc)).
    { rewrite <- T0a. eapply (cod_interp_layers Mod F HF); [exact Hpre|]. now rewrite cod_id, W1. }
    rewrite (comp_assoc Mod X).
    - rewrite Heq, <- HX, comp_id_r. reflexivity.
    - now rewrite HX, (dom_interp_layer Mod F HF).
    - rewrite (cod_interp_layer Mod F HF), (dom_interp_layer Mod F HF). congruence.
  Qed.

  (* the deletion step of unsnake, on what the loops leave behind *)
  Lemma delete_adjacent_interp ls x y d c bcap oc bcup ou d' : wf d ->
    nth_error (dboxes d) c = Some bcap -> nth_error (doffs d) c = Some oc ->
    nth_error (dboxes d) (S c) = Some bcup -> nth_error (doffs d) (S c) = Some ou ->
    capP x y bcap -> cupP x y bcup -> Q bcap -> Q bcup ->
    oc + dl_cap ls = ou + dl_cup ls ->
    delete_pair d (Z.of_nat c) (Z.of_nat c + 1) = Ok d' ->
    den d' = den d.
  Proof.
    intros Hwf B O Bc Oc (K1 & D1 & C1) (K2 & D2 & C2) Q1 Q2 Hoff Hdel.
    pose proof Hwf as (W1 & W2 & W3 & W4 & W5).
    assert (Hn : (S c < length (dboxes d))%nat) by (apply nth_error_Some; rewrite Bc; discriminate).
    destruct (delete_pair_layers _ _ _ Hwf Hn Hdel) as [Hd Hl].
    destruct (nth_error_layer _ _ _ _ Hwf B O) as ([[l0 b0] r0] & NL & BL & OL).
    destruct (nth_error_layer _ _ _ _ Hwf Bc Oc) as ([[l1 b1] r1] & NU & BU & OU).
    unfold lbox, lleft in BL, OL, BU, OU; cbn [fst snd] in BL, OL, BU, OU. subst b0 b1.
    destruct (type_at_nth _ _ _ _ _ W3 NL) as [_ TB].
    destruct (type_at_nth _ _ _ _ _ W3 NU) as [TC _].
    assert (Hmid : l0 ++ [x; y] ++ r0 = l1 ++ [y; x] ++ r1).
    { rewrite TB in TC. unfold lcod, ldom, lleft, lbox, lright in TC; cbn [fst snd] in TC.
      rewrite C1, D2 in TC. exact TC. }
    apply (delete_layers_interp d c _ _ d' Hwf NL NU); [|exact Hd|exact Hl].
    unfold interp_layer, ldom, lleft, lbox, lright; cbn [fst snd]. rewrite D1. cbn [app].
    unfold dl_cap, dl_cup in Hoff. destruct ls.
    - destruct (snake_split_left _ _ _ _ _ _ _ _ Hmid) as (-> & _ & ->); [unfold len in *; lia|].
      rewrite (snake_whisker_left l1 r0 bcap bcup x y K1 K2 Q1 Q2 D1 C1 D2 C2).
      now rewrite <- app_assoc.
    - destruct (snake_split_right _ _ _ _ _ _ _ _ Hmid) as (-> & _ & ->); [unfold len in *; lia|].
      rewrite (snake_whisker_right l0 r1 bcap bcup x y K1 K2 Q1 Q2 D1 C1 D2 C2).
      reflexivity.
  Qed.

  (* ---------------------------------------------------------------- the loops *)
  Lemma den_adj : forall d i left d', wf d -> interchange_adj d i left = Ok d' -> den d' = den d.
  Proof. intros d i left d' W H. exact (interchange_adj_interp Mod F d i left d' HF W H). Qed.

  Lemma den_del : forall ls x y d c bcap oc bcup ou d', wf d ->
    nth_error (dboxes d) c = Some bcap -> nth_error (doffs d) c = Some oc ->
    nth_error (dboxes d) (S c) = Some bcup -> nth_error (doffs d) (S c) = Some ou ->
    capP x y bcap -> cupP x y bcup -> Q bcap -> Q bcup ->
    oc + dl_cap ls = ou + dl_cup ls ->
    delete_pair d (Z.of_nat c) (Z.of_nat c + 1) = Ok d' ->
    den d' = den d.
  Proof. exact delete_adjacent_interp. Qed.

  Theorem unsnake_sound d cup cap lo ro ls d' ys e : wf d -> rigid_in Q d ->
    find_snake d = Some (cup, cap, (lo, ro), ls) ->
    unsnake d cup cap lo ro ls = (d', ys, e) ->
    same den d d' /\ Forall (same den d) ys /\ sub_boxes d d'.
  Proof. exact (gen_unsnake_sound _ den Q den_adj den_del d cup cap lo ro ls d' ys e). Qed.

  Theorem rigid_trace_sound limit d left tr st : wf d -> rigid_in Q d ->
    rigid_trace limit d left = (tr, st) -> Forall (same den d) tr.
  Proof. exact (gen_rigid_trace_sound _ den Q den_adj den_del limit d left tr st). Qed.

  Theorem rigid_normal_form_sound fuel d left d' : wf d -> rigid_in Q d ->
    rigid_normal_form fuel d left = Ok d' -> same den d d'.
  Proof. exact (gen_rigid_normal_form_sound _ den Q den_adj den_del fuel d left d'). Qed.
End Sound.

(* ================================================================ the packaged statements *)
(* a strict monoidal category with a typed interpretation of the boxes in which
   every type-matched cap / cup pair satisfies the two snake equations: the image
   of a rigid functor *)
Record rigid_sem := RS {
  rs_mod : monoidal_model;
  rs_F : box -> M rs_mod;
  rs_types : respects_types rs_mod rs_F;
  rs_snakes : snake_eqs rs_mod rs_F (fun _ => True) }.

Definition rs_den (R : rigid_sem) : diagram -> M (rs_mod R) := Monoidal.interp (rs_mod R) (rs_F R).

Lemma rigid_ok_in d : rigid_ok d -> rigid_in (fun _ => True) d.
Proof. intros H b Hb. split; [apply H, Hb|exact Logic.I]. Qed.

(* the statement of SnakeLemmas.snake_removal_sound_stmt, over the typed record *)
Theorem snake_removal_sound (R : rigid_sem) d limit left tr st : wf d -> rigid_ok d ->
  rigid_trace limit d left = (tr, st) -> Forall (fun x => rs_den R x = rs_den R d) tr.
Proof.
  intros Hwf Hr H.
  exact (rigid_trace_sound (rs_mod R) (rs_F R) _ (rs_types R) (rs_snakes R) _ _ _ _ _ Hwf (rigid_ok_in _ Hr) H).
Qed.

Theorem unsnake_step_sound (R : rigid_sem) d cup cap lo ro ls d' ys e : wf d -> rigid_ok d ->
  find_snake d = Some (cup, cap, (lo, ro), ls) ->
  unsnake d cup cap lo ro ls = (d', ys, e) ->
  rs_den R d' = rs_den R d /\ Forall (fun x => rs_den R x = rs_den R d) ys.
Proof.
  intros Hwf Hr Fs U.
  destruct (unsnake_sound (rs_mod R) (rs_F R) _ (rs_types R) (rs_snakes R) _ _ _ _ _ _ _ _ _
              Hwf (rigid_ok_in _ Hr) Fs U) as (A & B & _). auto.
Qed.

Theorem rigid_normal_form_sound_all (R : rigid_sem) fuel d left d' : wf d -> rigid_ok d ->
  rigid_normal_form fuel d left = Ok d' -> rs_den R d' = rs_den R d.
Proof.
  intros Hwf Hr H.
  exact (rigid_normal_form_sound (rs_mod R) (rs_F R) _ (rs_types R) (rs_snakes R) _ _ _ _ Hwf (rigid_ok_in _ Hr) H).
Qed.

(* the same for functors that are only asked to satisfy the snake equations on the
   cups and caps the library can build (rigid.Cup / rigid.Cap check that the two
   objects are adjoint: Snake.check_box), for diagrams made of such boxes *)
Definition adjoint_checked (b : box) : Prop := check_box b = Ok tt.

Theorem snake_removal_sound_adjoint (Mod : monoidal_model) (F : box -> M Mod) d limit left tr st :
  respects_types Mod F -> snake_eqs Mod F adjoint_checked ->
  wf d -> rigid_ok d -> (forall b, In b (dboxes d) -> adjoint_checked b) ->
  rigid_trace limit d left = (tr, st) ->
  Forall (fun x => Monoidal.interp Mod F x = Monoidal.interp Mod F d) tr.
Proof.
  intros HF HS Hwf Hr Ha H.
  apply (rigid_trace_sound Mod F adjoint_checked HF HS limit d left tr st Hwf); [|exact H].
  intros b Hb. split; [apply Hr, Hb|apply Ha, Hb].
Qed.

(* ================================================================ non-vacuity *)
(* a model that is not one-point: Sem/Instances.counting_model (objects = widths,
   a morphism = width in, width out, a count), boxes count 1, cups and caps 0.
   The denotation of a rigid diagram counts its proper boxes; the snake equations
   hold because a cap followed by its cup contributes 0 = what an identity counts. *)
Definition rcount_F (b : box) : cmor :=
  CM (length (bdom b)) (length (bcod b)) (match bk b with KCup | KCap => 0 | _ => 1 end).

Lemma rcount_respects : respects_types counting_model rcount_F.
Proof. intros b. cbn. now rewrite !counting_obj_ty. Qed.

Lemma rcount_snakes : snake_eqs counting_model rcount_F (fun _ => True).
Proof.
  intros cap cup a b K1 K2 _ _ D1 C1 D2 C2. unfold rcount_F. rewrite K1, K2, D1, C1, D2, C2.
  split; reflexivity.
Qed.

Definition rcount_sem : rigid_sem := RS counting_model rcount_F rcount_respects rcount_snakes.

(* the obstructed left snake of SnakeLemmas (two obstructions on each side): its
   four proper boxes are counted before and after; the model tells diagrams apart *)
Example rcount_obstructed :
  ccount (rs_den rcount_sem obstructed_d) = 4%nat /\
  ccount (rs_den rcount_sem plain_d) = 0%nat /\
  (exists d', rigid_normal_form nf_fuel obstructed_d false = Ok d' /\
              length (dboxes d') = 4%nat /\ ccount (rs_den rcount_sem d') = 4%nat).
Proof.
  split; [vm_compute; reflexivity|]. split; [vm_compute; reflexivity|].
  eexists. split; [vm_compute; reflexivity|]. split; vm_compute; reflexivity.
Qed.

(* the hypotheses of the theorems are met by that diagram, and its trace is not empty *)
Example sound_hyps_obstructed :
  wf obstructed_d /\ rigid_ok obstructed_d /\
  (forall b, In b (dboxes obstructed_d) -> adjoint_checked b) /\
  exists tr st, rigid_trace trace_limit obstructed_d false = (tr, st) /\ (5 <= length tr)%nat.
Proof.
  split; [exact obstructed_wf|]. split; [exact obstructed_rigid_ok|]. split.
  - intros b [<-|[<-|[<-|[<-|[<-|[<-|[]]]]]]]; reflexivity.
  - eexists. eexists. split; [vm_compute; reflexivity|]. cbn. lia.
Qed.
