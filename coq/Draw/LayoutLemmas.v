(* C20 -- proofs about the layout model Draw/Layout.v (diagram2nx).
   Main results, each for ALL well-formed diagrams (wf d = true):
     nodes_layout            the node list is exactly the expected one (NoDup)
     edges_layout            the edges are exactly the planar wiring
     scan_gap_prefix         after any number of boxes the open wires are strictly
                             increasing with gap >= 1
     scan_gap_final          ... and still so in the final positions
     box_between_final       every box is strictly between its neighbouring wires
     wires_vertical_final    wires between boxes are vertical
     edges_downward_final    every edge points downwards
     nx2offsets_correct      nx2diagram (diagramize) reads back the diagram's offsets *)
From Coq Require Import List ZArith QArith Bool Lia Lqa.
Import ListNotations.
Require Import DV.Common.Base DV.Draw.Layout.
Open Scope Q_scope.

(* ------------------------------------------------------------------ numbers *)
Lemma qn_eq : forall x, qn x == x.
Proof. intros; apply Qred_correct. Qed.

Lemma Qltb_true : forall a b, Qltb a b = true <-> a < b.
Proof.
  intros a b; unfold Qltb. rewrite negb_true_iff. split; intro H.
  - apply Qnot_le_lt. intro C. apply Qle_bool_iff in C. congruence.
  - destruct (Qle_bool b a) eqn:E; [|reflexivity].
    apply Qle_bool_iff in E. exfalso. apply (Qlt_not_le _ _ H E).
Qed.

Lemma Qltb_false : forall a b, Qltb a b = false <-> b <= a.
Proof.
  intros a b; unfold Qltb. rewrite negb_false_iff. apply Qle_bool_iff.
Qed.

Lemma Qle_bool_false : forall a b, Qle_bool a b = false <-> b < a.
Proof.
  intros a b. split; intro H.
  - apply Qnot_le_lt. intro C. apply Qle_bool_iff in C. congruence.
  - destruct (Qle_bool a b) eqn:E; [|reflexivity].
    apply Qle_bool_iff in E. exfalso. apply (Qlt_not_le _ _ H E).
Qed.

Lemma qnat_S : forall n, qnat (S n) == qnat n + 1.
Proof.
  intros n; unfold qnat. rewrite Nat2Z.inj_succ. unfold Z.succ.
  rewrite inject_Z_plus. reflexivity.
Qed.

Lemma qnat_le : forall a b, (a <= b)%nat -> qnat a <= qnat b.
Proof. intros a b H; unfold qnat. rewrite <- Zle_Qle. lia. Qed.

Lemma qnat_lt1 : forall a b, (a < b)%nat -> qnat a + 1 <= qnat b.
Proof. intros a b H. rewrite <- qnat_S. apply qnat_le. lia. Qed.

Lemma qnat_nonneg : forall a, 0 <= qnat a.
Proof. intros a. change 0 with (qnat 0). apply qnat_le. lia. Qed.

Lemma half_width_eq : forall nc, half_width nc == qnat (pred nc) * (1 # 2) + 1.
Proof. reflexivity. Qed.

Lemma half_width_ge1 : forall nc, 1 <= half_width nc.
Proof.
  intros nc. unfold half_width, qhalf. pose proof (qnat_nonneg (pred nc)). lra.
Qed.

(* ------------------------------------------------------------------ nodes *)
Lemma node_eqb_eq : forall a b, node_eqb a b = true <-> a = b.
Proof.
  intros a b; destruct a, b; simpl; try (split; [discriminate | intro H; discriminate]);
    rewrite ?andb_true_iff, ?Nat.eqb_eq; split; intro H;
    try (inversion H; subst; auto); try (destruct H; subst; reflexivity); try (subst; reflexivity).
Qed.

Lemma node_eqb_refl : forall a, node_eqb a a = true.
Proof. intros; apply node_eqb_eq; reflexivity. Qed.

Lemma node_eqb_neq : forall a b, a <> b -> node_eqb a b = false.
Proof.
  intros a b H. destruct (node_eqb a b) eqn:E; [|reflexivity].
  apply node_eqb_eq in E. contradiction.
Qed.

Definition keys (pos : posmap) : list node := map fst pos.

(* ------------------------------------------------------------------ lists *)
Lemma nth_firstn_lt : forall {A} (l : list A) n i d, (i < n)%nat -> nth i (firstn n l) d = nth i l d.
Proof.
  intros A l; induction l as [|a l IH]; intros n i d H.
  - rewrite firstn_nil. reflexivity.
  - destruct n; [lia|]. destruct i; simpl; [reflexivity|]. apply IH. lia.
Qed.

Lemma nth_skipn_add : forall {A} (l : list A) n i d, nth i (skipn n l) d = nth (n + i) l d.
Proof.
  intros A l; induction l as [|a l IH]; intros n i d.
  - rewrite skipn_nil. destruct i, n; reflexivity.
  - destruct n; simpl; [reflexivity|]. apply IH.
Qed.

Lemma nth_map_seq : forall {A} (f : nat -> A) n i d, (i < n)%nat -> nth i (map f (seq 0 n)) d = f i.
Proof.
  intros A f n i d H.
  rewrite (nth_indep _ d (f 0%nat)) by (rewrite map_length, seq_length; exact H).
  rewrite map_nth. rewrite seq_nth by exact H. reflexivity.
Qed.

(* ------------------------------------------------------------------ the pos dict *)
Arguments qn : simpl never.
Lemma lookup_in : forall pos n, In n (keys pos) -> exists p, lookup pos n = Some p.
Proof.
  induction pos as [|[m p] pos IH]; intros n H; simpl in *; [contradiction|].
  destruct (node_eqb m n) eqn:E; [eexists; reflexivity|].
  destruct H as [H|H]; [subst; rewrite node_eqb_refl in E; discriminate|]. auto.
Qed.

Lemma lookup_notin : forall pos n, ~ In n (keys pos) -> lookup pos n = None.
Proof.
  induction pos as [|[m p] pos IH]; intros n H; simpl in *; [reflexivity|].
  rewrite node_eqb_neq by (intro; subst; tauto). apply IH. tauto.
Qed.

Definition sl1 (limit pad : Q) (xy : Q * Q) : Q * Q :=
  if Qle_bool (fst xy) limit then (qn (fst xy - pad), snd xy) else xy.
Definition sr1 (limit pad : Q) (xy : Q * Q) : Q * Q :=
  if Qle_bool limit (fst xy) then (qn (fst xy + pad), snd xy) else xy.

Lemma lookup_shift_left : forall limit pad pos n,
  lookup (shift_left limit pad pos) n = option_map (sl1 limit pad) (lookup pos n).
Proof.
  intros limit pad; induction pos as [|[m [x y]] pos IH]; intros n; simpl; [reflexivity|].
  unfold sl1. simpl.
  destruct (Qle_bool x limit) eqn:E; simpl; destruct (node_eqb m n); simpl; auto; rewrite E; reflexivity.
Qed.

Lemma lookup_shift_right : forall limit pad pos n,
  lookup (shift_right limit pad pos) n = option_map (sr1 limit pad) (lookup pos n).
Proof.
  intros limit pad; induction pos as [|[m [x y]] pos IH]; intros n; simpl; [reflexivity|].
  unfold sr1. simpl.
  destruct (Qle_bool limit x) eqn:E; simpl; destruct (node_eqb m n); simpl; auto; rewrite E; reflexivity.
Qed.

Lemma keys_shift_left : forall limit pad pos, keys (shift_left limit pad pos) = keys pos.
Proof.
  intros; unfold keys, shift_left. rewrite map_map. apply map_ext.
  intros [m [x y]]; simpl. destruct (Qle_bool x limit); reflexivity.
Qed.

Lemma keys_shift_right : forall limit pad pos, keys (shift_right limit pad pos) = keys pos.
Proof.
  intros; unfold keys, shift_right. rewrite map_map. apply map_ext.
  intros [m [x y]]; simpl. destruct (Qle_bool limit x); reflexivity.
Qed.

Lemma gety_shift_left : forall limit pad pos n, gety (shift_left limit pad pos) n = gety pos n.
Proof.
  intros; unfold gety. rewrite lookup_shift_left.
  destruct (lookup pos n) as [[x y]|]; simpl; [|reflexivity].
  unfold sl1; simpl. destruct (Qle_bool x limit); reflexivity.
Qed.

Lemma gety_shift_right : forall limit pad pos n, gety (shift_right limit pad pos) n = gety pos n.
Proof.
  intros; unfold gety. rewrite lookup_shift_right.
  destruct (lookup pos n) as [[x y]|]; simpl; [|reflexivity].
  unfold sr1; simpl. destruct (Qle_bool limit x); reflexivity.
Qed.

(* x after a left shift: moved iff x <= limit *)
Lemma getx_shift_left_le : forall limit pad pos n,
  In n (keys pos) -> getx pos n <= limit ->
  getx (shift_left limit pad pos) n == getx pos n - pad.
Proof.
  intros limit pad pos n Hin Hle. unfold getx in *. rewrite lookup_shift_left.
  destruct (lookup_in _ _ Hin) as [[x y] E]. rewrite E in *. simpl in *.
  unfold sl1; simpl. apply Qle_bool_iff in Hle. rewrite Hle. simpl. apply qn_eq.
Qed.

Lemma getx_shift_left_gt : forall limit pad pos n,
  limit < getx pos n -> getx (shift_left limit pad pos) n = getx pos n.
Proof.
  intros limit pad pos n Hlt. unfold getx in *. rewrite lookup_shift_left.
  destruct (lookup pos n) as [[x y]|]; simpl in *; [|reflexivity].
  unfold sl1; simpl. apply Qle_bool_false in Hlt. rewrite Hlt. reflexivity.
Qed.

Lemma getx_shift_right_ge : forall limit pad pos n,
  In n (keys pos) -> limit <= getx pos n ->
  getx (shift_right limit pad pos) n == getx pos n + pad.
Proof.
  intros limit pad pos n Hin Hle. unfold getx in *. rewrite lookup_shift_right.
  destruct (lookup_in _ _ Hin) as [[x y] E]. rewrite E in *. simpl in *.
  unfold sr1; simpl. apply Qle_bool_iff in Hle. rewrite Hle. simpl. apply qn_eq.
Qed.

Lemma getx_shift_right_lt : forall limit pad pos n,
  getx pos n < limit -> getx (shift_right limit pad pos) n = getx pos n.
Proof.
  intros limit pad pos n Hlt. unfold getx in *. rewrite lookup_shift_right.
  destruct (lookup pos n) as [[x y]|]; simpl in *; [|reflexivity].
  unfold sr1; simpl. apply Qle_bool_false in Hlt. rewrite Hlt. reflexivity.
Qed.

(* ------------------------------------------------------------------ expansions *)
(* pos' keeps all nodes of pos, never changes a y, and never decreases a
   horizontal distance between two nodes of pos: any order / gap / equality
   relation between x coordinates established in pos still holds in pos'. *)
Definition expands (pos pos' : posmap) : Prop :=
  (forall n, In n (keys pos) -> In n (keys pos'))
  /\ (forall n, In n (keys pos) -> gety pos' n = gety pos n)
  /\ (forall a b c, In a (keys pos) -> In b (keys pos) -> 0 <= c ->
        getx pos a + c <= getx pos b -> getx pos' a + c <= getx pos' b).

Lemma expands_refl : forall pos, expands pos pos.
Proof. intros; repeat split; auto. Qed.

Lemma expands_trans : forall p1 p2 p3, expands p1 p2 -> expands p2 p3 -> expands p1 p3.
Proof.
  intros p1 p2 p3 (K1 & Y1 & E1) (K2 & Y2 & E2). repeat split.
  - auto.
  - intros n H. rewrite Y2 by auto. auto.
  - intros a b c Ha Hb Hc H. apply E2; auto.
Qed.

Lemma expands_eq : forall pos pos' a b, expands pos pos' ->
  In a (keys pos) -> In b (keys pos) -> getx pos a == getx pos b -> getx pos' a == getx pos' b.
Proof.
  intros pos pos' a b (K & Y & E) Ha Hb H.
  assert (H1 : getx pos' a + 0 <= getx pos' b) by (apply E; auto; lra).
  assert (H2 : getx pos' b + 0 <= getx pos' a) by (apply E; auto; lra).
  lra.
Qed.

Lemma expands_lt : forall pos pos' a b, expands pos pos' ->
  In a (keys pos) -> In b (keys pos) -> getx pos a < getx pos b -> getx pos' a < getx pos' b.
Proof.
  intros pos pos' a b (K & Y & E) Ha Hb H.
  assert (H1 : getx pos' a + (getx pos b - getx pos a) <= getx pos' b) by (apply E; auto; lra).
  lra.
Qed.

Lemma expands_shift_left : forall limit pad pos, 0 < pad -> expands pos (shift_left limit pad pos).
Proof.
  intros limit pad pos Hpad. repeat split.
  - intros n H. rewrite keys_shift_left. exact H.
  - intros n _. apply gety_shift_left.
  - intros a b c Ha Hb Hc H.
    destruct (Qlt_le_dec limit (getx pos a)) as [Ha'|Ha'];
    destruct (Qlt_le_dec limit (getx pos b)) as [Hb'|Hb'].
    + rewrite !getx_shift_left_gt by assumption. exact H.
    + lra.
    + rewrite (getx_shift_left_gt _ _ _ b) by assumption.
      rewrite getx_shift_left_le by assumption. lra.
    + rewrite !getx_shift_left_le by assumption. lra.
Qed.

Lemma expands_shift_right : forall limit pad pos, 0 < pad -> expands pos (shift_right limit pad pos).
Proof.
  intros limit pad pos Hpad. repeat split.
  - intros n H. rewrite keys_shift_right. exact H.
  - intros n _. apply gety_shift_right.
  - intros a b c Ha Hb Hc H.
    destruct (Qlt_le_dec (getx pos a) limit) as [Ha'|Ha'];
    destruct (Qlt_le_dec (getx pos b) limit) as [Hb'|Hb'].
    + rewrite !getx_shift_right_lt by assumption. exact H.
    + rewrite (getx_shift_right_lt _ _ _ a) by assumption.
      rewrite getx_shift_right_ge by assumption. lra.
    + lra.
    + rewrite !getx_shift_right_ge by assumption. lra.
Qed.

(* ------------------------------------------------------------------ make_space *)
(* the open wires, read left to right, are strictly increasing with gap >= 1 *)
Definition gapI (pos : posmap) (scan : list node) : Prop :=
  forall i j, (i < j)%nat -> (j < length scan)%nat ->
    getx pos (scan_at scan i) + 1 <= getx pos (scan_at scan j).

Definition scan_in (pos : posmap) (scan : list node) : Prop :=
  forall i, (i < length scan)%nat -> In (scan_at scan i) (keys pos).

Lemma gapI_expands : forall pos pos' scan,
  expands pos pos' -> scan_in pos scan -> gapI pos scan -> gapI pos' scan.
Proof.
  intros pos pos' scan (K & Y & E) Hin G i j Hij Hj.
  apply E; [apply Hin; lia | apply Hin; lia | lra | apply G; assumption].
Qed.

Lemma scan_in_expands : forall pos pos' scan,
  expands pos pos' -> scan_in pos scan -> scan_in pos' scan.
Proof. intros pos pos' scan (K & _) Hin i Hi. apply K, Hin, Hi. Qed.

Lemma gapI_le : forall pos scan i j, gapI pos scan -> (i <= j)%nat -> (j < length scan)%nat ->
  getx pos (scan_at scan i) <= getx pos (scan_at scan j).
Proof.
  intros pos scan i j G Hij Hj. destruct (Nat.eq_dec i j) as [->|N]; [lra|].
  assert (H := G i j ltac:(lia) Hj). lra.
Qed.

Definition ms_left (pos : posmap) (scan : list node) (off : nat) (x hw : Q) : posmap :=
  if negb (Nat.eqb off 0) && Qltb (x - hw) (getx pos (scan_at scan (off - 1)))
  then shift_left (getx pos (scan_at scan (off - 1)))
                  (getx pos (scan_at scan (off - 1)) - x + hw) pos
  else pos.

Definition ms_right (pos1 : posmap) (scan : list node) (k : nat) (x hw : Q) : posmap :=
  if Nat.ltb k (length scan) && Qltb (getx pos1 (scan_at scan k)) (x + hw)
  then shift_right (getx pos1 (scan_at scan k)) (x + hw - getx pos1 (scan_at scan k)) pos1
  else pos1.

Lemma make_space_unfold : forall pos scan nd nc off, scan <> [] ->
  make_space pos scan nd nc off =
  (ms_right (ms_left pos scan off (choose_x pos scan nd nc off) (half_width nc)) scan (off + nd)
            (choose_x pos scan nd nc off) (half_width nc),
   choose_x pos scan nd nc off).
Proof. intros pos [|s scan] nd nc off H; [congruence|reflexivity]. Qed.

Lemma ms_left_spec : forall pos scan off x hw,
  gapI pos scan -> scan_in pos scan -> (off <= length scan)%nat ->
  expands pos (ms_left pos scan off x hw)
  /\ keys (ms_left pos scan off x hw) = keys pos
  /\ (forall i, (i < off)%nat -> getx (ms_left pos scan off x hw) (scan_at scan i) <= x - hw).
Proof.
  intros pos scan off x hw G Hin Hoff. unfold ms_left.
  destruct (Nat.eqb off 0) eqn:E0; simpl.
  - apply Nat.eqb_eq in E0. split; [apply expands_refl|split; [reflexivity|intros; lia]].
  - apply Nat.eqb_neq in E0.
    assert (Hle : forall i, (i < off)%nat ->
              getx pos (scan_at scan i) <= getx pos (scan_at scan (off - 1)))
      by (intros i Hi; apply gapI_le; [assumption|lia|lia]).
    destruct (Qltb (x - hw) (getx pos (scan_at scan (off - 1)))) eqn:C.
    + apply Qltb_true in C. split; [|split].
      * apply expands_shift_left. lra.
      * apply keys_shift_left.
      * intros i Hi. rewrite getx_shift_left_le; [|apply Hin; lia|apply Hle; assumption].
        specialize (Hle i Hi). lra.
    + apply Qltb_false in C. split; [apply expands_refl|split; [reflexivity|]].
      intros i Hi. specialize (Hle i Hi). lra.
Qed.

Lemma ms_right_spec : forall pos scan k x hw,
  gapI pos scan -> scan_in pos scan ->
  expands pos (ms_right pos scan k x hw)
  /\ keys (ms_right pos scan k x hw) = keys pos
  /\ (forall i, (i < k)%nat -> getx (ms_right pos scan k x hw) (scan_at scan i) = getx pos (scan_at scan i))
  /\ (forall j, (k <= j)%nat -> (j < length scan)%nat ->
        x + hw <= getx (ms_right pos scan k x hw) (scan_at scan j)).
Proof.
  intros pos scan k x hw G Hin. unfold ms_right.
  destruct (Nat.ltb k (length scan)) eqn:E0; simpl.
  - apply Nat.ltb_lt in E0.
    assert (Hle : forall j, (k <= j)%nat -> (j < length scan)%nat ->
              getx pos (scan_at scan k) <= getx pos (scan_at scan j))
      by (intros j Hj Hj'; apply gapI_le; assumption).
    destruct (Qltb (getx pos (scan_at scan k)) (x + hw)) eqn:C.
    + apply Qltb_true in C. split; [|split; [|split]].
      * apply expands_shift_right. lra.
      * apply keys_shift_right.
      * intros i Hi. apply getx_shift_right_lt.
        assert (H := G i k Hi E0). lra.
      * intros j Hj Hj'. rewrite getx_shift_right_ge; [|apply Hin; lia|apply Hle; assumption].
        specialize (Hle j Hj Hj'). lra.
    + apply Qltb_false in C. split; [apply expands_refl|split; [reflexivity|split; [reflexivity|]]].
      intros j Hj Hj'. specialize (Hle j Hj Hj'). lra.
  - apply Nat.ltb_ge in E0.
    split; [apply expands_refl|split; [reflexivity|split; [reflexivity|]]]. intros; lia.
Qed.

(* make_space: whatever x_pos was chosen, afterwards every wire left of the box
   is at distance >= half_width on its left, every wire right of the box at
   distance >= half_width on its right, and no horizontal distance shrank. *)
Lemma make_space_spec : forall pos scan nd nc off,
  gapI pos scan -> scan_in pos scan -> (off + nd <= length scan)%nat ->
  let ms := make_space pos scan nd nc off in
  expands pos (fst ms)
  /\ keys (fst ms) = keys pos
  /\ (forall i, (i < off)%nat -> getx (fst ms) (scan_at scan i) <= snd ms - half_width nc)
  /\ (forall j, (off + nd <= j)%nat -> (j < length scan)%nat ->
        snd ms + half_width nc <= getx (fst ms) (scan_at scan j)).
Proof.
  intros pos scan nd nc off G Hin Hoff.
  destruct scan as [|s0 scan'] eqn:Es.
  - simpl in *. split; [apply expands_refl|split; [reflexivity|split; intros; lia]].
  - rewrite <- Es in *. rewrite make_space_unfold by (rewrite Es; discriminate).
    cbv zeta. simpl fst. simpl snd.
    set (x := choose_x pos scan nd nc off). set (hw := half_width nc).
    destruct (ms_left_spec pos scan off x hw G Hin ltac:(lia)) as (E1 & K1 & L1).
    set (pos1 := ms_left pos scan off x hw) in *.
    assert (G1 : gapI pos1 scan) by (eapply gapI_expands; eassumption).
    assert (Hin1 : scan_in pos1 scan) by (eapply scan_in_expands; eassumption).
    destruct (ms_right_spec pos1 scan (off + nd) x hw G1 Hin1) as (E2 & K2 & S2 & R2).
    split; [|split; [|split]].
    + eapply expands_trans; eassumption.
    + congruence.
    + intros i Hi. rewrite S2 by lia. apply L1. exact Hi.
    + exact R2.
Qed.

(* ------------------------------------------------------------------ adding nodes *)
(* the three loops that add nodes (inputs, dom ports, cod ports, outputs) are
   instances of one fold *)
Definition padd (key : nat -> node) (xv : posmap -> nat -> Q) (yv : nat -> Q)
           (p : posmap) (i : nat) : posmap := add_node (key i) (xv p i, yv i) p.
Definition addmany key xv yv (l : list nat) (p : posmap) : posmap :=
  fold_left (padd key xv yv) l p.

Lemma fold_pair : forall (step : posmap * list (node * node) -> nat -> posmap * list (node * node))
    (f : posmap -> nat -> posmap) (g : nat -> list (node * node)),
  (forall acc i, step acc i = (f (fst acc) i, snd acc ++ g i)) ->
  forall l acc, fold_left step l acc = (fold_left f l (fst acc), snd acc ++ flat_map g l).
Proof.
  intros step f g H; induction l as [|i l IH]; intros acc; simpl.
  - rewrite app_nil_r. destruct acc; reflexivity.
  - rewrite IH, H. simpl. rewrite <- app_assoc. reflexivity.
Qed.

Lemma keys_addmany : forall key xv yv l p,
  keys (addmany key xv yv l p) = rev (map key l) ++ keys p.
Proof.
  intros key xv yv; induction l as [|i l IH]; intros p; simpl; [reflexivity|].
  unfold addmany in *; simpl. rewrite IH. simpl. rewrite <- app_assoc. reflexivity.
Qed.

Lemma lookup_addmany_other : forall key xv yv l p n,
  (forall i, In i l -> key i <> n) ->
  lookup (addmany key xv yv l p) n = lookup p n.
Proof.
  intros key xv yv; induction l as [|i l IH]; intros p n H; [reflexivity|].
  unfold addmany in *; simpl. rewrite IH by (intros; apply H; right; assumption).
  unfold padd, add_node; simpl. rewrite node_eqb_neq; [reflexivity|]. apply H; left; reflexivity.
Qed.

Lemma lookup_addmany_new : forall key xv yv l p i,
  NoDup (map key l) -> In i l ->
  exists p', (forall n, (forall j, In j l -> key j <> n) -> lookup p' n = lookup p n)
             /\ lookup (addmany key xv yv l p) (key i) = Some (qn (xv p' i), qn (yv i)).
Proof.
  intros key xv yv; induction l as [|i0 l IH]; intros p i ND Hi; [contradiction|].
  simpl in ND. inversion ND as [|? ? Hnot ND']; subst.
  destruct (Nat.eq_dec i0 i) as [->|Hne0].
  - (* may also occur later only if key collides: excluded by NoDup *)
    exists p. split; [auto|].
    unfold addmany; simpl. fold (addmany key xv yv l (padd key xv yv p i)).
    rewrite lookup_addmany_other.
    + unfold padd, add_node; simpl. rewrite node_eqb_refl. reflexivity.
    + intros j Hj E. apply Hnot. rewrite <- E. apply in_map. exact Hj.
  - destruct Hi as [Hi|Hi]; [congruence|].
    destruct (IH (padd key xv yv p i0) i ND' Hi) as (p' & Hp' & Hl).
    exists p'. split; [|exact Hl].
    intros n Hn. rewrite Hp' by (intros; apply Hn; right; assumption).
    unfold padd, add_node; simpl. rewrite node_eqb_neq; [reflexivity|].
    apply Hn; left; reflexivity.
Qed.

Lemma NoDup_map_inj : forall {A B} (f : A -> B) l,
  (forall a b, f a = f b -> a = b) -> NoDup l -> NoDup (map f l).
Proof.
  intros A B f l Hinj; induction 1 as [|a l Hn ND IH]; simpl; constructor; [|assumption].
  intro H. apply in_map_iff in H. destruct H as (b & E & Hb). apply Hinj in E. subst. contradiction.
Qed.

(* ------------------------------------------------------------------ ages of nodes *)
(* nodes created before the box at `depth` is processed *)
Definition older (depth : nat) (n : node) : Prop :=
  match n with
  | NInput _ => True
  | NOutput _ => False
  | NBox d | NDom d _ | NCod d _ => (d < depth)%nat
  end.
Definition keys_older (pos : posmap) (depth : nat) : Prop :=
  forall n, In n (keys pos) -> older depth n.

Lemma older_S : forall depth n, older depth n -> older (S depth) n.
Proof. intros depth [] H; simpl in *; auto; lia. Qed.

Lemma lookup_add_node : forall m p pos n,
  lookup (add_node m p pos) n = if node_eqb m n then Some (qn (fst p), qn (snd p)) else lookup pos n.
Proof. reflexivity. Qed.

(* ------------------------------------------------------------------ add_box *)
Definition dom_edges (scan : list node) (off depth i : nat) : list (node * node) :=
  [(scan_at scan (off + i), NDom depth i); (NDom depth i, NBox depth)].
Definition cod_edges (depth i : nat) : list (node * node) := [(NBox depth, NCod depth i)].
Definition dom_xv (scan : list node) (off : nat) (p : posmap) (i : nat) : Q :=
  getx p (scan_at scan (off + i)).
Definition cod_xv (scan : list node) (nd nc off : nat) (x : Q) (p : posmap) (i : nat) : Q :=
  if Nat.eqb nd nc then getx p (scan_at scan (off + i)) else x - qhalf (pred nc) + qnat i.

Definition box_pos (n nd nc off depth : nat) (x : Q) (scan : list node) (pos2 : posmap) : posmap :=
  let h := qnat n - qnat depth in
  addmany (NCod depth) (cod_xv scan nd nc off x) (fun _ => h - (3 # 4)) (seq 0 nc)
    (addmany (NDom depth) (dom_xv scan off) (fun _ => h - (1 # 4)) (seq 0 nd)
       (add_node (NBox depth) (x, h - (1 # 2)) pos2)).

Definition box_edges (scan : list node) (nd nc off depth : nat) : list (node * node) :=
  flat_map (dom_edges scan off depth) (seq 0 nd) ++ flat_map (cod_edges depth) (seq 0 nc).

Definition box_scan (scan : list node) (nd nc off depth : nat) : list node :=
  firstn off scan ++ map (NCod depth) (seq 0 nc) ++ skipn (off + nd) scan.

Lemma add_box_eq : forall n pos2 edges scan nd nc off depth x,
  add_box n (ST pos2 edges scan) nd nc off depth x =
  ST (box_pos n nd nc off depth x scan pos2)
     (edges ++ box_edges scan nd nc off depth)
     (box_scan scan nd nc off depth).
Proof.
  intros. unfold add_box. cbn [st_pos st_edges st_scan].
  rewrite (fold_pair (dom_step scan off depth (qnat n - qnat depth))
             (padd (NDom depth) (dom_xv scan off) (fun _ => qnat n - qnat depth - (1 # 4)))
             (dom_edges scan off depth)) by (intros; reflexivity).
  rewrite (fold_pair (cod_step scan nd nc off depth x (qnat n - qnat depth))
             (padd (NCod depth) (cod_xv scan nd nc off x) (fun _ => qnat n - qnat depth - (3 # 4)))
             (cod_edges depth)) by (intros; reflexivity).
  cbn [fst snd]. unfold box_pos, box_edges, box_scan, addmany.
  rewrite <- app_assoc. reflexivity.
Qed.

Lemma keys_box_pos : forall n nd nc off depth x scan pos2,
  keys (box_pos n nd nc off depth x scan pos2) =
  rev (map (NCod depth) (seq 0 nc)) ++ rev (map (NDom depth) (seq 0 nd)) ++ NBox depth :: keys pos2.
Proof. intros. unfold box_pos. rewrite !keys_addmany. reflexivity. Qed.

Lemma lookup_box_pos_old : forall n nd nc off depth x scan pos2 m,
  older depth m -> lookup (box_pos n nd nc off depth x scan pos2) m = lookup pos2 m.
Proof.
  intros. unfold box_pos.
  rewrite !lookup_addmany_other by (intros i _ E; subst m; simpl in H; lia).
  rewrite lookup_add_node, node_eqb_neq; [reflexivity|].
  intro E; subst m; simpl in H; lia.
Qed.

Lemma getx_box_pos_old : forall n nd nc off depth x scan pos2 m,
  older depth m -> getx (box_pos n nd nc off depth x scan pos2) m = getx pos2 m.
Proof. intros. unfold getx. rewrite lookup_box_pos_old by assumption. reflexivity. Qed.

Lemma gety_box_pos_old : forall n nd nc off depth x scan pos2 m,
  older depth m -> gety (box_pos n nd nc off depth x scan pos2) m = gety pos2 m.
Proof. intros. unfold gety. rewrite lookup_box_pos_old by assumption. reflexivity. Qed.

Lemma lookup_box_pos_box : forall n nd nc off depth x scan pos2,
  lookup (box_pos n nd nc off depth x scan pos2) (NBox depth)
  = Some (qn x, qn (qnat n - qnat depth - (1 # 2))).
Proof.
  intros. unfold box_pos.
  rewrite !lookup_addmany_other by (intros; discriminate).
  rewrite lookup_add_node, node_eqb_refl. reflexivity.
Qed.

Lemma NoDup_doms : forall depth nd, NoDup (map (NDom depth) (seq 0 nd)).
Proof. intros. apply NoDup_map_inj; [intros a b E; congruence|apply seq_NoDup]. Qed.
Lemma NoDup_cods : forall depth nc, NoDup (map (NCod depth) (seq 0 nc)).
Proof. intros. apply NoDup_map_inj; [intros a b E; congruence|apply seq_NoDup]. Qed.

Lemma lookup_box_pos_dom : forall n nd nc off depth x scan pos2 i,
  (i < nd)%nat -> older depth (scan_at scan (off + i)) ->
  lookup (box_pos n nd nc off depth x scan pos2) (NDom depth i)
  = Some (qn (getx pos2 (scan_at scan (off + i))), qn (qnat n - qnat depth - (1 # 4))).
Proof.
  intros n nd nc off depth x scan pos2 i Hi Hold. unfold box_pos.
  rewrite lookup_addmany_other by (intros; discriminate).
  destruct (lookup_addmany_new (NDom depth) (dom_xv scan off)
              (fun _ => qnat n - qnat depth - (1 # 4)) (seq 0 nd)
              (add_node (NBox depth) (x, qnat n - qnat depth - (1 # 2)) pos2) i
              (NoDup_doms depth nd) ltac:(apply in_seq; lia)) as (p' & Hp' & Hl).
  rewrite Hl. unfold dom_xv, getx. rewrite Hp'.
  - rewrite lookup_add_node, node_eqb_neq; [reflexivity|].
    intro E; rewrite <- E in Hold; simpl in Hold; lia.
  - intros j _ E. rewrite <- E in Hold; simpl in Hold; lia.
Qed.

Lemma lookup_box_pos_cod : forall n nd nc off depth x scan pos2 i,
  (i < nc)%nat -> (nd = nc -> older depth (scan_at scan (off + i))) ->
  lookup (box_pos n nd nc off depth x scan pos2) (NCod depth i)
  = Some (qn (if Nat.eqb nd nc then getx pos2 (scan_at scan (off + i))
              else x - qhalf (pred nc) + qnat i),
          qn (qnat n - qnat depth - (3 # 4))).
Proof.
  intros n nd nc off depth x scan pos2 i Hi Hold. unfold box_pos.
  destruct (lookup_addmany_new (NCod depth) (cod_xv scan nd nc off x)
              (fun _ => qnat n - qnat depth - (3 # 4)) (seq 0 nc)
              (addmany (NDom depth) (dom_xv scan off) (fun _ => qnat n - qnat depth - (1 # 4)) (seq 0 nd)
                 (add_node (NBox depth) (x, qnat n - qnat depth - (1 # 2)) pos2)) i
              (NoDup_cods depth nc) ltac:(apply in_seq; lia)) as (p' & Hp' & Hl).
  rewrite Hl. unfold cod_xv. destruct (Nat.eqb nd nc) eqn:E; [|reflexivity].
  apply Nat.eqb_eq in E. specialize (Hold E).
  unfold getx. rewrite Hp'.
  - rewrite lookup_addmany_other
      by (intros j _ E'; rewrite <- E' in Hold; simpl in Hold; lia).
    rewrite lookup_add_node, node_eqb_neq; [reflexivity|].
    intro E'; rewrite <- E' in Hold; simpl in Hold; lia.
  - intros j _ E'. rewrite <- E' in Hold; simpl in Hold; lia.
Qed.

(* ------------------------------------------------------------------ the new scan *)
Lemma box_scan_length : forall scan nd nc off depth, (off + nd <= length scan)%nat ->
  length (box_scan scan nd nc off depth) = (length scan - nd + nc)%nat.
Proof.
  intros. unfold box_scan.
  rewrite !app_length, firstn_length, map_length, seq_length, skipn_length. lia.
Qed.

Lemma box_scan_at : forall scan nd nc off depth k, (off + nd <= length scan)%nat ->
  scan_at (box_scan scan nd nc off depth) k =
  if Nat.ltb k off then scan_at scan k
  else if Nat.ltb k (off + nc) then NCod depth (k - off)
  else scan_at scan (k - nc + nd).
Proof.
  intros scan nd nc off depth k H. unfold scan_at, box_scan.
  assert (HL : length (firstn off scan) = off) by (rewrite firstn_length; lia).
  destruct (Nat.ltb_spec k off) as [Hk|Hk].
  - rewrite app_nth1 by lia. apply nth_firstn_lt. exact Hk.
  - rewrite app_nth2 by lia. rewrite HL.
    destruct (Nat.ltb_spec k (off + nc)) as [Hk'|Hk'].
    + rewrite app_nth1 by (rewrite map_length, seq_length; lia).
      apply nth_map_seq. lia.
    + rewrite app_nth2 by (rewrite map_length, seq_length; lia).
      rewrite map_length, seq_length. rewrite nth_skipn_add. f_equal. lia.
Qed.

Lemma keys_make_space : forall pos scan nd nc off,
  keys (fst (make_space pos scan nd nc off)) = keys pos.
Proof.
  intros. destruct scan as [|s scan']; [reflexivity|].
  unfold make_space. cbv zeta. cbn [fst].
  match goal with |- keys (if ?c then _ else _) = _ => destruct c end;
  match goal with |- context [if ?c then _ else _] => destruct c end;
  rewrite ?keys_shift_right, ?keys_shift_left; reflexivity.
Qed.

(* ------------------------------------------------------------------ the loop invariant *)
Record Inv (depth : nat) (st : state) : Prop := {
  inv_gap : gapI (st_pos st) (st_scan st);
  inv_in : scan_in (st_pos st) (st_scan st);
  inv_old : keys_older (st_pos st) depth }.

(* geometric facts established when the box at `depth` is added, about the
   state st' right after it, in terms of the scan before it *)
Record BoxOk (scan : list node) (nd nc off depth : nat) (pos' : posmap) : Prop := {
  bo_left : forall i, (i < off)%nat ->
      getx pos' (scan_at scan i) + 1 <= getx pos' (NBox depth);
  bo_right : forall j, (off + nd <= j)%nat -> (j < length scan)%nat ->
      getx pos' (NBox depth) + 1 <= getx pos' (scan_at scan j);
  bo_dom : forall i, (i < nd)%nat ->
      getx pos' (NDom depth i) == getx pos' (scan_at scan (off + i));
  bo_cod_left : forall i k, (i < off)%nat -> (k < nc)%nat ->
      getx pos' (scan_at scan i) + 1 <= getx pos' (NCod depth k);
  bo_cod_right : forall j k, (off + nd <= j)%nat -> (j < length scan)%nat -> (k < nc)%nat ->
      getx pos' (NCod depth k) + 1 <= getx pos' (scan_at scan j);
  bo_keys : In (NBox depth) (keys pos')
            /\ (forall i, (i < nd)%nat -> In (NDom depth i) (keys pos'))
            /\ (forall i, (i < nc)%nat -> In (NCod depth i) (keys pos'))
            /\ (forall i, (i < length scan)%nat -> In (scan_at scan i) (keys pos')) }.

Lemma getx_of_lookup : forall pos n x y, lookup pos n = Some (qn x, y) -> getx pos n == x.
Proof. intros pos n x y H. unfold getx. rewrite H. simpl. apply qn_eq. Qed.

Lemma box_step_spec : forall n depth st nd nc off,
  Inv depth st -> (off + nd <= length (st_scan st))%nat ->
  let st' := box_step n st depth ((nd, nc), off) in
  Inv (S depth) st'
  /\ expands (st_pos st) (st_pos st')
  /\ st_scan st' = box_scan (st_scan st) nd nc off depth
  /\ st_edges st' = st_edges st ++ box_edges (st_scan st) nd nc off depth
  /\ keys (st_pos st') =
       rev (map (NCod depth) (seq 0 nc)) ++ rev (map (NDom depth) (seq 0 nd))
       ++ NBox depth :: keys (st_pos st)
  /\ BoxOk (st_scan st) nd nc off depth (st_pos st').
Proof.
  intros n depth [pos edges scan] nd nc off [G Hin Hold] Hoff. cbn [st_pos st_edges st_scan] in *.
  unfold box_step. cbn [st_pos st_edges st_scan].
  destruct (make_space_spec pos scan nd nc off G Hin Hoff) as (E2 & K2 & M1 & M2).
  set (ms := make_space pos scan nd nc off) in *.
  set (pos2 := fst ms) in *. set (x := snd ms) in *.
  rewrite add_box_eq. cbn [st_pos st_edges st_scan].
  set (pos3 := box_pos n nd nc off depth x scan pos2).
  pose proof (half_width_ge1 nc) as Hhw.
  assert (G2 : gapI pos2 scan) by (eapply gapI_expands; eassumption).
  assert (Hin2 : scan_in pos2 scan) by (eapply scan_in_expands; eassumption).
  assert (Hold2 : keys_older pos2 depth) by (intros m Hm; apply Hold; rewrite <- K2; exact Hm).
  assert (Osc : forall i, (i < length scan)%nat -> older depth (scan_at scan i))
    by (intros i Hi; apply Hold2, Hin2, Hi).
  assert (Fold : forall i, (i < length scan)%nat -> getx pos3 (scan_at scan i) = getx pos2 (scan_at scan i))
    by (intros i Hi; apply getx_box_pos_old, Osc, Hi).
  assert (Fbox : getx pos3 (NBox depth) == x)
    by (eapply getx_of_lookup; apply lookup_box_pos_box).
  assert (Fdom : forall i, (i < nd)%nat -> getx pos3 (NDom depth i) == getx pos2 (scan_at scan (off + i)))
    by (intros i Hi; eapply getx_of_lookup; apply lookup_box_pos_dom; [exact Hi|apply Osc; lia]).
  assert (Fcod : forall i, (i < nc)%nat -> getx pos3 (NCod depth i) ==
            if Nat.eqb nd nc then getx pos2 (scan_at scan (off + i)) else x - qhalf (pred nc) + qnat i)
    by (intros i Hi; eapply getx_of_lookup; apply lookup_box_pos_cod; [exact Hi|intros; apply Osc; lia]).
  assert (K3 : keys pos3 = rev (map (NCod depth) (seq 0 nc)) ++ rev (map (NDom depth) (seq 0 nd))
                 ++ NBox depth :: keys pos2) by apply keys_box_pos.
  assert (Kin : forall m, In m (keys pos2) -> In m (keys pos3))
    by (intros m Hm; rewrite K3; apply in_or_app; right; apply in_or_app; right; right; exact Hm).
  assert (E3 : expands pos2 pos3).
  { split; [exact Kin|split].
    - intros m Hm. apply gety_box_pos_old, Hold2, Hm.
    - intros a b c Ha Hb Hc H. unfold pos3.
      rewrite !getx_box_pos_old by (apply Hold2; assumption). exact H. }
  (* x positions of the cod ports relative to x and the neighbours *)
  assert (CodL : forall i k, (i < off)%nat -> (k < nc)%nat ->
            getx pos2 (scan_at scan i) + 1 <= getx pos3 (NCod depth k)).
  { intros i k Hi Hk. rewrite (Fcod k Hk). destruct (Nat.eqb_spec nd nc) as [En|En].
    - apply G2; lia.
    - specialize (M1 i Hi). pose proof (qnat_nonneg k). unfold half_width in M1. lra. }
  assert (CodR : forall j k, (off + nd <= j)%nat -> (j < length scan)%nat -> (k < nc)%nat ->
            getx pos3 (NCod depth k) + 1 <= getx pos2 (scan_at scan j)).
  { intros j k Hj Hj' Hk. rewrite (Fcod k Hk). destruct (Nat.eqb_spec nd nc) as [En|En].
    - apply G2; lia.
    - specialize (M2 j Hj Hj'). assert (Hq := qnat_le k (pred nc) ltac:(lia)).
      unfold half_width, qhalf in *. lra. }
  assert (CodC : forall k k', (k < k')%nat -> (k' < nc)%nat ->
            getx pos3 (NCod depth k) + 1 <= getx pos3 (NCod depth k')).
  { intros k k' Hk Hk'. rewrite (Fcod k ltac:(lia)), (Fcod k' Hk').
    destruct (Nat.eqb_spec nd nc) as [En|En].
    - apply G2; lia.
    - pose proof (qnat_lt1 k k' Hk). lra. }
  split; [|split; [|split; [|split; [|split]]]].
  - (* invariant *)
    constructor; cbn [st_pos st_scan].
    + intros i j Hij Hj. rewrite box_scan_length in Hj by exact Hoff.
      rewrite !box_scan_at by exact Hoff.
      destruct (Nat.ltb_spec i off) as [Hi|Hi]; destruct (Nat.ltb_spec j off) as [Hj0|Hj0]; try lia.
      * rewrite !Fold by lia. apply G2; lia.
      * rewrite Fold by lia.
        destruct (Nat.ltb_spec j (off + nc)) as [Hj1|Hj1].
        -- apply CodL; lia.
        -- rewrite Fold by lia. apply G2; lia.
      * destruct (Nat.ltb_spec i (off + nc)) as [Hi1|Hi1];
        destruct (Nat.ltb_spec j (off + nc)) as [Hj1|Hj1]; try lia.
        -- apply CodC; lia.
        -- rewrite Fold by lia. apply CodR; lia.
        -- rewrite !Fold by lia. apply G2; lia.
    + intros k Hk. rewrite box_scan_length in Hk by exact Hoff.
      rewrite box_scan_at by exact Hoff.
      destruct (Nat.ltb_spec k off) as [Hk0|Hk0]; [apply Kin, Hin2; lia|].
      destruct (Nat.ltb_spec k (off + nc)) as [Hk1|Hk1]; [|apply Kin, Hin2; lia].
      rewrite K3. apply in_or_app; left. apply -> in_rev. apply in_map, in_seq. lia.
    + intros m Hm. rewrite K3 in Hm.
      apply in_app_or in Hm. destruct Hm as [Hm|Hm].
      { apply in_rev, in_map_iff in Hm. destruct Hm as (i & <- & _). simpl. lia. }
      apply in_app_or in Hm. destruct Hm as [Hm|Hm].
      { apply in_rev, in_map_iff in Hm. destruct Hm as (i & <- & _). simpl. lia. }
      destruct Hm as [<-|Hm]; [simpl; lia|]. apply older_S, Hold2, Hm.
  - eapply expands_trans; eassumption.
  - reflexivity.
  - reflexivity.
  - rewrite K3, K2. reflexivity.
  - constructor.
    + intros i Hi. rewrite Fold by lia. rewrite Fbox. specialize (M1 i Hi). lra.
    + intros j Hj Hj'. rewrite Fold by lia. rewrite Fbox. specialize (M2 j Hj Hj'). lra.
    + intros i Hi. rewrite Fold by lia. apply Fdom, Hi.
    + intros i k Hi Hk. rewrite Fold by lia. apply CodL; assumption.
    + intros j k Hj Hj' Hk. rewrite Fold by lia. apply CodR; assumption.
    + split; [|split; [|split]].
      * rewrite K3. apply in_or_app; right. apply in_or_app; right. left; reflexivity.
      * intros i Hi. rewrite K3. apply in_or_app; right. apply in_or_app; left.
        apply -> in_rev. apply in_map, in_seq. lia.
      * intros i Hi. rewrite K3. apply in_or_app; left.
        apply -> in_rev. apply in_map, in_seq. lia.
      * intros i Hi. apply Kin, Hin2, Hi.
Qed.

(* ------------------------------------------------------------------ the initial state *)
Lemma init_state_eq : forall n dom,
  init_state n dom =
  ST (addmany NInput (fun _ i => qnat i) (fun _ => qnat (if Nat.eqb n 0 then 1%nat else n)) (seq 0 dom) [])
     [] (map NInput (seq 0 dom)).
Proof. reflexivity. Qed.

Lemma NoDup_inputs : forall dom, NoDup (map NInput (seq 0 dom)).
Proof. intros. apply NoDup_map_inj; [intros a b E; congruence|apply seq_NoDup]. Qed.

Lemma scan_at_inputs : forall dom i, (i < dom)%nat -> scan_at (map NInput (seq 0 dom)) i = NInput i.
Proof. intros. unfold scan_at. apply nth_map_seq. assumption. Qed.

Lemma init_lookup : forall n dom i, (i < dom)%nat ->
  lookup (st_pos (init_state n dom)) (NInput i)
  = Some (qn (qnat i), qn (qnat (if Nat.eqb n 0 then 1%nat else n))).
Proof.
  intros n dom i Hi. rewrite init_state_eq. cbn [st_pos].
  destruct (lookup_addmany_new NInput (fun _ i => qnat i)
              (fun _ => qnat (if Nat.eqb n 0 then 1%nat else n)) (seq 0 dom) [] i
              (NoDup_inputs dom) ltac:(apply in_seq; lia)) as (p' & _ & Hl).
  exact Hl.
Qed.

Lemma init_keys : forall n dom, keys (st_pos (init_state n dom)) = rev (map NInput (seq 0 dom)).
Proof. intros. rewrite init_state_eq. cbn [st_pos]. rewrite keys_addmany. apply app_nil_r. Qed.

Lemma init_inv : forall n dom, Inv 0 (init_state n dom).
Proof.
  intros n dom. constructor.
  - intros i j Hij Hj. cbn [init_state st_scan] in Hj. rewrite map_length, seq_length in Hj.
    cbn [init_state st_scan]. rewrite !scan_at_inputs by lia.
    rewrite (getx_of_lookup _ _ _ _ (init_lookup n dom i ltac:(lia))).
    rewrite (getx_of_lookup _ _ _ _ (init_lookup n dom j ltac:(lia))).
    apply qnat_lt1, Hij.
  - intros i Hi. cbn [init_state st_scan] in Hi. rewrite map_length, seq_length in Hi.
    rewrite init_keys. cbn [init_state st_scan]. rewrite scan_at_inputs by lia.
    apply -> in_rev. apply in_map, in_seq. lia.
  - intros m Hm. rewrite init_keys in Hm. apply in_rev, in_map_iff in Hm.
    destruct Hm as (i & <- & _). exact Logic.I.
Qed.

(* ------------------------------------------------------------------ the box loop *)
Lemma run_boxes_app : forall n l1 l2 st depth,
  run_boxes n st depth (l1 ++ l2) = run_boxes n (run_boxes n st depth l1) (depth + length l1) l2.
Proof.
  intros n; induction l1 as [|l l1 IH]; intros l2 st depth; simpl.
  - rewrite Nat.add_0_r. reflexivity.
  - rewrite IH. f_equal. lia.
Qed.

Lemma run_boxes_spec : forall n ls depth st w w',
  Inv depth st -> length (st_scan st) = w -> wf_layers w ls = Some w' ->
  Inv (depth + length ls) (run_boxes n st depth ls)
  /\ expands (st_pos st) (st_pos (run_boxes n st depth ls))
  /\ length (st_scan (run_boxes n st depth ls)) = w'.
Proof.
  intros n; induction ls as [|[[nd nc] off] ls IH]; intros depth st w w' HI Hw Hwf; simpl in *.
  - rewrite Nat.add_0_r. split; [exact HI|split; [apply expands_refl|congruence]].
  - destruct (Nat.leb_spec (off + nd) w) as [Hoff|Hoff]; [|discriminate].
    destruct (box_step_spec n depth st nd nc off HI ltac:(lia)) as (HI' & E' & Hs & _).
    destruct (IH (S depth) (box_step n st depth (nd, nc, off)) (w - nd + nc)%nat w' HI') as (HI'' & E'' & Hl).
    + rewrite Hs, box_scan_length by lia. lia.
    + exact Hwf.
    + split; [|split].
      * replace (depth + S (length ls))%nat with (S depth + length ls)%nat by lia. exact HI''.
      * eapply expands_trans; eassumption.
      * exact Hl.
Qed.

Lemma wf_layers_app : forall l1 l2 w w', wf_layers w (l1 ++ l2) = Some w' ->
  exists w1, wf_layers w l1 = Some w1 /\ wf_layers w1 l2 = Some w'.
Proof.
  induction l1 as [|[[nd nc] off] l1 IH]; intros l2 w w' H; simpl in *.
  - eexists; split; [reflexivity|exact H].
  - destruct (Nat.leb (off + nd) w); [|discriminate]. apply IH, H.
Qed.

Lemma wf_unfold : forall d, wf d = true ->
  length (l_boxes d) = length (l_offs d) /\ wf_layers (l_dom d) (l_layers d) = Some (l_cod d).
Proof.
  intros d H. unfold wf in H. apply andb_true_iff in H. destruct H as [H1 H2].
  apply Nat.eqb_eq in H1. split; [exact H1|].
  destruct (wf_layers (l_dom d) (l_layers d)) as [w|]; [|discriminate].
  apply Nat.eqb_eq in H2. congruence.
Qed.

Lemma layers_length : forall d, wf d = true -> length (l_layers d) = length (l_boxes d).
Proof.
  intros d H. destruct (wf_unfold d H) as [H1 _]. unfold l_layers.
  rewrite combine_length. lia.
Qed.

(* the state after k boxes: invariant, and what remains to be done *)
Lemma prefix_spec : forall d k, wf d = true ->
  exists w,
    wf_layers (l_dom d) (firstn k (l_layers d)) = Some w
    /\ wf_layers w (skipn k (l_layers d)) = Some (l_cod d)
    /\ Inv (length (firstn k (l_layers d))) (layout_prefix d k)
    /\ length (st_scan (layout_prefix d k)) = w.
Proof.
  intros d k H. destruct (wf_unfold d H) as [_ Hwf].
  rewrite <- (firstn_skipn k (l_layers d)) in Hwf.
  destruct (wf_layers_app _ _ _ _ Hwf) as (w & H1 & H2). exists w.
  split; [exact H1|split; [exact H2|]].
  unfold layout_prefix.
  destruct (run_boxes_spec (length (l_boxes d)) (firstn k (l_layers d)) 0
              (init_state (length (l_boxes d)) (l_dom d)) (l_dom d) w
              (init_inv _ _)) as (HI & _ & Hl).
  - cbn [init_state st_scan]. rewrite map_length, seq_length. reflexivity.
  - exact H1.
  - split; [exact HI|exact Hl].
Qed.

(* the layout of the first k boxes is a sub-layout of every longer prefix and of
   the final layout, up to expansion *)
Lemma layout_prefix_step : forall d k, (k < length (l_layers d))%nat ->
  layout_prefix d (S k) =
  box_step (length (l_boxes d)) (layout_prefix d k) k (nth k (l_layers d) ((0, 0), 0)%nat).
Proof.
  intros d k Hk. unfold layout_prefix.
  assert (E : firstn (S k) (l_layers d) = firstn k (l_layers d) ++ [nth k (l_layers d) ((0, 0), 0)%nat]).
  { clear - Hk. revert k Hk. induction (l_layers d) as [|a l IH]; intros k Hk; simpl in *; [lia|].
    destruct k; [reflexivity|]. simpl. f_equal. apply IH. lia. }
  rewrite E, run_boxes_app. simpl. rewrite firstn_length. f_equal. lia.
Qed.

Lemma layout_prefix_all : forall d k, (length (l_layers d) <= k)%nat ->
  layout_prefix d k = layout_prefix d (length (l_layers d)).
Proof. intros d k Hk. unfold layout_prefix. rewrite !firstn_all2 by lia. reflexivity. Qed.

Lemma prefix_expands_last : forall d k, wf d = true ->
  expands (st_pos (layout_prefix d k)) (st_pos (layout_prefix d (length (l_layers d)))).
Proof.
  intros d k H. destruct (prefix_spec d k H) as (w & H1 & H2 & HI & Hl).
  unfold layout_prefix at 2. rewrite firstn_all.
  rewrite <- (firstn_skipn k (l_layers d)) at 1. rewrite run_boxes_app.
  fold (layout_prefix d k). simpl.
  destruct (run_boxes_spec (length (l_boxes d)) (skipn k (l_layers d))
              (length (firstn k (l_layers d))) (layout_prefix d k) w (l_cod d) HI Hl H2) as (_ & E & _).
  exact E.
Qed.

(* ------------------------------------------------------------------ outputs *)
Definition out_edges (scan : list node) (i : nat) : list (node * node) := [(scan_at scan i, NOutput i)].
Definition out_pos (scan : list node) (cod : nat) (pos : posmap) : posmap :=
  addmany NOutput (fun p i => getx p (scan_at scan i)) (fun _ => 0) (seq 0 cod) pos.

Lemma add_outputs_eq : forall cod st,
  add_outputs cod st =
  ST (out_pos (st_scan st) cod (st_pos st))
     (st_edges st ++ flat_map (out_edges (st_scan st)) (seq 0 cod)) (st_scan st).
Proof.
  intros. unfold add_outputs.
  rewrite (fold_pair (out_step (st_scan st))
             (padd NOutput (fun p i => getx p (scan_at (st_scan st) i)) (fun _ => 0))
             (out_edges (st_scan st))) by (intros; reflexivity).
  reflexivity.
Qed.

Lemma NoDup_outputs : forall cod, NoDup (map NOutput (seq 0 cod)).
Proof. intros. apply NoDup_map_inj; [intros a b E; congruence|apply seq_NoDup]. Qed.

Lemma out_pos_spec : forall scan cod pos depth,
  keys_older pos depth -> scan_in pos scan -> (cod <= length scan)%nat ->
  expands pos (out_pos scan cod pos)
  /\ (forall m, In m (keys pos) -> getx (out_pos scan cod pos) m = getx pos m)
  /\ (forall i, (i < cod)%nat ->
        getx (out_pos scan cod pos) (NOutput i) == getx pos (scan_at scan i)
        /\ gety (out_pos scan cod pos) (NOutput i) == 0
        /\ In (NOutput i) (keys (out_pos scan cod pos))).
Proof.
  intros scan cod pos depth Hold Hin Hc.
  assert (Hlk : forall m, In m (keys pos) -> lookup (out_pos scan cod pos) m = lookup pos m).
  { intros m Hm. unfold out_pos. apply lookup_addmany_other.
    intros i _ E. subst m. apply Hold in Hm. exact Hm. }
  split.
  - split; [|split].
    + intros m Hm. unfold out_pos. rewrite keys_addmany. apply in_or_app; right; exact Hm.
    + intros m Hm. unfold gety. rewrite Hlk by exact Hm. reflexivity.
    + intros a b c Ha Hb _ H. unfold getx. rewrite !Hlk by assumption. exact H.
  - split; [intros m Hm; unfold getx; rewrite Hlk by exact Hm; reflexivity|].
    intros i Hi.
    destruct (lookup_addmany_new NOutput (fun p i => getx p (scan_at scan i)) (fun _ => 0)
                (seq 0 cod) pos i (NoDup_outputs cod) ltac:(apply in_seq; lia)) as (p' & Hp' & Hl).
    fold (out_pos scan cod pos) in Hl.
    assert (Hx : getx p' (scan_at scan i) = getx pos (scan_at scan i)).
    { unfold getx. rewrite Hp'; [reflexivity|].
      intros j _ E. assert (Ho := Hold _ (Hin i ltac:(lia))). rewrite <- E in Ho. exact Ho. }
    split; [|split].
    + unfold getx at 1. rewrite Hl. simpl. rewrite qn_eq, Hx. reflexivity.
    + unfold gety. rewrite Hl. simpl. apply qn_eq.
    + unfold out_pos. rewrite keys_addmany. apply in_or_app; left.
      apply -> in_rev. apply in_map, in_seq. lia.
Qed.

(* ------------------------------------------------------------------ final layout *)
Definition final_scan (d : ldiag) : list node := st_scan (layout_prefix d (length (l_layers d))).

Lemma layout_eq : forall d,
  layout d =
  ST (out_pos (final_scan d) (l_cod d) (st_pos (layout_prefix d (length (l_layers d)))))
     (st_edges (layout_prefix d (length (l_layers d)))
      ++ flat_map (out_edges (final_scan d)) (seq 0 (l_cod d)))
     (final_scan d).
Proof. intros. unfold layout. rewrite add_outputs_eq. reflexivity. Qed.

Lemma last_prefix_spec : forall d, wf d = true ->
  Inv (length (l_layers d)) (layout_prefix d (length (l_layers d)))
  /\ length (final_scan d) = l_cod d.
Proof.
  intros d H. destruct (prefix_spec d (length (l_layers d)) H) as (w & H1 & H2 & HI & Hl).
  rewrite firstn_all in HI. rewrite skipn_all in H2. simpl in H2. split; [exact HI|].
  unfold final_scan. congruence.
Qed.

Lemma final_out_spec : forall d, wf d = true ->
  expands (st_pos (layout_prefix d (length (l_layers d)))) (st_pos (layout d))
  /\ (forall i, (i < l_cod d)%nat ->
        getx (st_pos (layout d)) (NOutput i) == getx (st_pos (layout d)) (scan_at (final_scan d) i)
        /\ gety (st_pos (layout d)) (NOutput i) == 0
        /\ In (NOutput i) (keys (st_pos (layout d)))).
Proof.
  intros d H. destruct (last_prefix_spec d H) as ([G Hin Hold] & Hl).
  rewrite layout_eq. cbn [st_pos].
  destruct (out_pos_spec (final_scan d) (l_cod d) _ _ Hold Hin ltac:(lia)) as (E & Hsame & Ho).
  split; [exact E|].
  intros i Hi. destruct (Ho i Hi) as (Hx & Hy & Hk). split; [|split; assumption].
  rewrite Hx. rewrite Hsame; [reflexivity|].
  apply Hin; unfold final_scan in Hl; lia.
Qed.

Lemma prefix_expands_final : forall d k, wf d = true ->
  expands (st_pos (layout_prefix d k)) (st_pos (layout d)).
Proof.
  intros d k H. eapply expands_trans; [apply prefix_expands_last, H|apply final_out_spec, H].
Qed.

(* T1: after any number of boxes, the open wires are strictly increasing, gap >= 1 *)
Theorem scan_gap_prefix : forall d k, wf d = true ->
  gapI (st_pos (layout_prefix d k)) (st_scan (layout_prefix d k)).
Proof.
  intros d k H. destruct (prefix_spec d k H) as (w & _ & _ & [G _ _] & _). exact G.
Qed.

(* T2: ... and at every height they still are in the final positions *)
Theorem scan_gap_final : forall d k, wf d = true ->
  gapI (st_pos (layout d)) (st_scan (layout_prefix d k)).
Proof.
  intros d k H. destruct (prefix_spec d k H) as (w & _ & _ & [G Hin _] & _).
  eapply gapI_expands; [apply prefix_expands_final, H|exact Hin|exact G].
Qed.

Lemma BoxOk_expands : forall scan nd nc off depth pos pos',
  (off + nd <= length scan)%nat ->
  expands pos pos' -> BoxOk scan nd nc off depth pos -> BoxOk scan nd nc off depth pos'.
Proof.
  intros scan nd nc off depth pos pos' Hoff E [BL BR BD BCL BCR (Kb & Kd & Kc & Ks)].
  pose proof E as (K & _ & EE).
  constructor.
  - intros i Hi. apply EE; [apply Ks; lia|exact Kb|lra|apply BL, Hi].
  - intros j Hj Hj'. apply EE; [exact Kb|apply Ks; lia|lra|apply BR; assumption].
  - intros i Hi. apply (expands_eq _ _ _ _ E); [apply Kd, Hi|apply Ks; lia|apply BD, Hi].
  - intros i k Hi Hk. apply EE; [apply Ks; lia|apply Kc, Hk|lra|apply BCL; assumption].
  - intros j k Hj Hj' Hk. apply EE; [apply Kc, Hk|apply Ks; lia|lra|apply BCR; assumption].
  - split; [|split; [|split]]; intros; apply K; auto.
Qed.

Lemma skipn_cons_nth : forall {A} (l : list A) k d, (k < length l)%nat ->
  skipn k l = nth k l d :: skipn (S k) l.
Proof.
  intros A l; induction l as [|a l IH]; intros k d Hk; simpl in *; [lia|].
  destruct k; [reflexivity|]. apply IH. lia.
Qed.

Definition layer_at (d : ldiag) (k : nat) : (nat * nat) * nat := nth k (l_layers d) ((0, 0), 0)%nat.

(* T3: every box is, in the final layout, at distance >= 1 from the wires that
   are open at its height on its left and on its right; so are its cod ports;
   its dom ports are vertically below the wires they continue *)
Theorem box_ok_final : forall d k nd nc off, wf d = true ->
  (k < length (l_layers d))%nat -> layer_at d k = ((nd, nc), off) ->
  (off + nd <= length (st_scan (layout_prefix d k)))%nat
  /\ BoxOk (st_scan (layout_prefix d k)) nd nc off k (st_pos (layout d)).
Proof.
  intros d k nd nc off H Hk Hl.
  destruct (prefix_spec d k H) as (w & H1 & H2 & HI & Hw).
  assert (Hoff : (off + nd <= length (st_scan (layout_prefix d k)))%nat).
  { rewrite Hw. clear - H2 Hk Hl. unfold layer_at in Hl.
    rewrite (skipn_cons_nth _ k ((0, 0), 0)%nat Hk), Hl in H2. simpl in H2.
    destruct (Nat.leb_spec (off + nd) w); [assumption|discriminate]. }
  split; [exact Hoff|].
  assert (Hd : length (firstn k (l_layers d)) = k) by (rewrite firstn_length; lia).
  rewrite Hd in HI.
  destruct (box_step_spec (length (l_boxes d)) k (layout_prefix d k) nd nc off HI Hoff)
    as (_ & _ & _ & _ & _ & BO).
  fold (layer_at d k) in *. rewrite <- Hl in BO. unfold layer_at in BO.
  rewrite <- layout_prefix_step in BO by exact Hk.
  eapply BoxOk_expands; [exact Hoff|apply prefix_expands_final, H|exact BO].
Qed.

(* T4: the wires to the outputs are vertical, outputs are at height 0 *)
Theorem outputs_final : forall d i, wf d = true -> (i < l_cod d)%nat ->
  getx (st_pos (layout d)) (NOutput i) == getx (st_pos (layout d)) (scan_at (final_scan d) i)
  /\ gety (st_pos (layout d)) (NOutput i) == 0.
Proof.
  intros d i H Hi. destruct (final_out_spec d H) as (_ & Ho).
  destruct (Ho i Hi) as (Hx & Hy & _). split; assumption.
Qed.

(* ------------------------------------------------------------------ nodes (position-free) *)
(* the nodes a diagram must have, in the order diagram2nx creates them *)
Definition box_nodes (depth : nat) (a : nat * nat) : list node :=
  NBox depth :: map (NDom depth) (seq 0 (fst a)) ++ map (NCod depth) (seq 0 (snd a)).
Fixpoint boxes_nodes (depth : nat) (ls : list ((nat * nat) * nat)) : list node :=
  match ls with
  | [] => []
  | (a, _) :: ls' => box_nodes depth a ++ boxes_nodes (S depth) ls'
  end.
Definition expected_nodes (d : ldiag) : list node :=
  map NInput (seq 0 (l_dom d)) ++ boxes_nodes 0 (l_layers d) ++ map NOutput (seq 0 (l_cod d)).

Lemma keys_box_step : forall n st depth nd nc off,
  keys (st_pos (box_step n st depth ((nd, nc), off))) =
  rev (map (NCod depth) (seq 0 nc)) ++ rev (map (NDom depth) (seq 0 nd)) ++ NBox depth :: keys (st_pos st).
Proof.
  intros. unfold box_step. rewrite add_box_eq. cbn [st_pos].
  rewrite keys_box_pos, keys_make_space. reflexivity.
Qed.

Lemma nodes_run_boxes : forall n ls st depth,
  rev (keys (st_pos (run_boxes n st depth ls))) = rev (keys (st_pos st)) ++ boxes_nodes depth ls.
Proof.
  intros n; induction ls as [|[[nd nc] off] ls IH]; intros st depth; cbn [run_boxes boxes_nodes].
  - rewrite app_nil_r. reflexivity.
  - rewrite IH, keys_box_step. unfold box_nodes. cbn [fst snd].
    rewrite !rev_app_distr, !rev_involutive. cbn [rev].
    rewrite <- !app_assoc. cbn [app]. rewrite <- !app_assoc. reflexivity.
Qed.

Theorem nodes_layout : forall d, nodes_of (layout d) = expected_nodes d.
Proof.
  intros d. unfold nodes_of. rewrite layout_eq. cbn [st_pos]. unfold out_pos.
  rewrite keys_addmany. fold (keys (st_pos (layout_prefix d (length (l_layers d))))).
  rewrite rev_app_distr, rev_involutive.
  unfold layout_prefix. rewrite firstn_all, nodes_run_boxes, init_keys, rev_involutive.
  unfold expected_nodes. rewrite <- app_assoc. reflexivity.
Qed.

Lemma NoDup_app_intro : forall {A} (l1 l2 : list A),
  NoDup l1 -> NoDup l2 -> (forall x, In x l1 -> ~ In x l2) -> NoDup (l1 ++ l2).
Proof.
  intros A l1 l2 H1 H2 H. induction H1 as [|a l Hn ND IH]; simpl; [exact H2|].
  constructor.
  - intro Hin. apply in_app_or in Hin. destruct Hin as [Hin|Hin]; [contradiction|].
    apply (H a); [left; reflexivity|exact Hin].
  - apply IH. intros x Hx. apply H. right; exact Hx.
Qed.

Definition node_depth_ge (k : nat) (n : node) : Prop :=
  match n with
  | NBox d | NDom d _ | NCod d _ => (k <= d)%nat
  | _ => False
  end.

Lemma boxes_nodes_depth : forall ls depth m, In m (boxes_nodes depth ls) -> node_depth_ge depth m.
Proof.
  induction ls as [|[a off] ls IH]; intros depth m H; cbn [boxes_nodes] in H; [contradiction|].
  apply in_app_or in H. destruct H as [H|H].
  - unfold box_nodes in H. destruct H as [<-|H]; [simpl; lia|].
    apply in_app_or in H. destruct H as [H|H]; apply in_map_iff in H;
      destruct H as (i & <- & _); simpl; lia.
  - apply IH in H. destruct m; simpl in *; try lia; contradiction.
Qed.

Lemma NoDup_box_nodes : forall depth a, NoDup (box_nodes depth a).
Proof.
  intros depth [nd nc]. unfold box_nodes. cbn [fst snd]. constructor.
  - intro H. apply in_app_or in H. destruct H as [H|H]; apply in_map_iff in H;
      destruct H as (i & E & _); discriminate.
  - apply NoDup_app_intro; [apply NoDup_doms|apply NoDup_cods|].
    intros x Hx Hx'. apply in_map_iff in Hx. apply in_map_iff in Hx'.
    destruct Hx as (i & <- & _). destruct Hx' as (j & E & _). discriminate.
Qed.

Lemma NoDup_boxes_nodes : forall ls depth, NoDup (boxes_nodes depth ls).
Proof.
  induction ls as [|[a off] ls IH]; intros depth; cbn [boxes_nodes]; [constructor|].
  apply NoDup_app_intro; [apply NoDup_box_nodes|apply IH|].
  intros x Hx Hx'. apply boxes_nodes_depth in Hx'.
  unfold box_nodes in Hx. destruct Hx as [<-|Hx]; [simpl in Hx'; lia|].
  apply in_app_or in Hx. destruct Hx as [Hx|Hx]; apply in_map_iff in Hx;
    destruct Hx as (i & <- & _); simpl in Hx'; lia.
Qed.

Theorem expected_nodes_NoDup : forall d, NoDup (expected_nodes d).
Proof.
  intros d. unfold expected_nodes.
  apply NoDup_app_intro; [apply NoDup_inputs| |].
  - apply NoDup_app_intro; [apply NoDup_boxes_nodes|apply NoDup_outputs|].
    intros x Hx Hx'. apply boxes_nodes_depth in Hx. apply in_map_iff in Hx'.
    destruct Hx' as (i & <- & _). exact Hx.
  - intros x Hx Hx'. apply in_map_iff in Hx. destruct Hx as (i & <- & _).
    apply in_app_or in Hx'. destruct Hx' as [Hx'|Hx'].
    + apply boxes_nodes_depth in Hx'. exact Hx'.
    + apply in_map_iff in Hx'. destruct Hx' as (j & E & _). discriminate.
Qed.

Fixpoint ports_count (ls : list ((nat * nat) * nat)) : nat :=
  match ls with
  | [] => 0
  | ((nd, nc), _) :: ls' => 1 + nd + nc + ports_count ls'
  end.

Lemma boxes_nodes_length : forall ls depth, length (boxes_nodes depth ls) = ports_count ls.
Proof.
  induction ls as [|[[nd nc] off] ls IH]; intros depth; simpl; [reflexivity|].
  rewrite !app_length, !map_length, !seq_length, IH. lia.
Qed.

Theorem expected_nodes_length : forall d,
  length (expected_nodes d) = (l_dom d + ports_count (l_layers d) + l_cod d)%nat.
Proof.
  intros d. unfold expected_nodes.
  rewrite !app_length, !map_length, !seq_length, boxes_nodes_length. lia.
Qed.

(* ------------------------------------------------------------------ edges (position-free) *)
(* the planar wiring of a diagram: scan the open wires box after box *)
Fixpoint wiring (scan : list node) (depth : nat) (ls : list ((nat * nat) * nat))
  : list (node * node) * list node :=
  match ls with
  | [] => ([], scan)
  | ((nd, nc), off) :: ls' =>
      let r := wiring (box_scan scan nd nc off depth) (S depth) ls' in
      (box_edges scan nd nc off depth ++ fst r, snd r)
  end.

Definition expected_edges (d : ldiag) : list (node * node) :=
  let r := wiring (map NInput (seq 0 (l_dom d))) 0 (l_layers d) in
  fst r ++ flat_map (out_edges (snd r)) (seq 0 (l_cod d)).

Lemma box_step_wiring : forall n st depth nd nc off,
  st_scan (box_step n st depth ((nd, nc), off)) = box_scan (st_scan st) nd nc off depth
  /\ st_edges (box_step n st depth ((nd, nc), off)) = st_edges st ++ box_edges (st_scan st) nd nc off depth.
Proof. intros. unfold box_step. rewrite add_box_eq. split; reflexivity. Qed.

Lemma run_boxes_wiring : forall n ls st depth,
  st_edges (run_boxes n st depth ls) = st_edges st ++ fst (wiring (st_scan st) depth ls)
  /\ st_scan (run_boxes n st depth ls) = snd (wiring (st_scan st) depth ls).
Proof.
  intros n; induction ls as [|[[nd nc] off] ls IH]; intros st depth; cbn [run_boxes wiring fst snd].
  - rewrite app_nil_r. split; reflexivity.
  - destruct (IH (box_step n st depth (nd, nc, off)) (S depth)) as [IH1 IH2].
    destruct (box_step_wiring n st depth nd nc off) as [W1 W2].
    rewrite IH1, IH2, W1, W2, <- app_assoc. split; reflexivity.
Qed.

(* the scan reached after k boxes is the position-free one *)
Lemma prefix_scan : forall d k,
  st_scan (layout_prefix d k) = snd (wiring (map NInput (seq 0 (l_dom d))) 0 (firstn k (l_layers d))).
Proof. intros. unfold layout_prefix. apply run_boxes_wiring. Qed.

Theorem edges_layout : forall d, st_edges (layout d) = expected_edges d.
Proof.
  intros d. rewrite layout_eq. cbn [st_edges]. unfold expected_edges, final_scan. cbv zeta.
  unfold layout_prefix. rewrite firstn_all.
  destruct (run_boxes_wiring (length (l_boxes d)) (l_layers d)
              (init_state (length (l_boxes d)) (l_dom d)) 0) as [E1 E2].
  rewrite E1, E2. reflexivity.
Qed.

(* ------------------------------------------------------------------ heights *)
Lemma gety_of_lookup : forall pos n x y, lookup pos n = Some (x, qn y) -> gety pos n == y.
Proof. intros pos n x y H. unfold gety. rewrite H. simpl. apply qn_eq. Qed.

(* every open wire is above the next row of dom ports and above 0; every edge
   created so far points downwards (y strictly decreases) *)
Record YInv (n depth : nat) (st : state) : Prop := {
  y_scan : forall i, (i < length (st_scan st))%nat ->
      qnat n - qnat depth <= gety (st_pos st) (scan_at (st_scan st) i)
      /\ 0 < gety (st_pos st) (scan_at (st_scan st) i);
  y_edges : forall a b, In (a, b) (st_edges st) ->
      In a (keys (st_pos st)) /\ In b (keys (st_pos st))
      /\ gety (st_pos st) b < gety (st_pos st) a }.

Lemma box_step_y : forall n depth st nd nc off,
  Inv depth st -> YInv n depth st -> (off + nd <= length (st_scan st))%nat -> (depth < n)%nat ->
  YInv n (S depth) (box_step n st depth ((nd, nc), off)).
Proof.
  intros n depth [pos edges scan] nd nc off [G Hin Hold] [YS YE] Hoff Hdn.
  cbn [st_pos st_edges st_scan] in *.
  unfold box_step. cbn [st_pos st_edges st_scan].
  destruct (make_space_spec pos scan nd nc off G Hin Hoff) as (E2 & K2 & _ & _).
  set (ms := make_space pos scan nd nc off) in *.
  set (pos2 := fst ms) in *. set (x := snd ms) in *.
  rewrite add_box_eq. cbn [st_pos st_edges st_scan].
  set (pos3 := box_pos n nd nc off depth x scan pos2).
  destruct E2 as (_ & Y2 & _).
  assert (Hold2 : keys_older pos2 depth) by (intros m Hm; apply Hold; rewrite <- K2; exact Hm).
  assert (Osc : forall i, (i < length scan)%nat -> older depth (scan_at scan i))
    by (intros i Hi; apply Hold, Hin, Hi).
  assert (Yold : forall m, In m (keys pos) -> gety pos3 m = gety pos m).
  { intros m Hm. unfold pos3. rewrite gety_box_pos_old by (apply Hold, Hm). apply Y2, Hm. }
  assert (K3 : keys pos3 = rev (map (NCod depth) (seq 0 nc)) ++ rev (map (NDom depth) (seq 0 nd))
                 ++ NBox depth :: keys pos2) by apply keys_box_pos.
  assert (Kin : forall m, In m (keys pos) -> In m (keys pos3))
    by (intros m Hm; rewrite K3, K2; apply in_or_app; right; apply in_or_app; right; right; exact Hm).
  assert (Kbox : In (NBox depth) (keys pos3))
    by (rewrite K3; apply in_or_app; right; apply in_or_app; right; left; reflexivity).
  assert (Kdom : forall i, (i < nd)%nat -> In (NDom depth i) (keys pos3))
    by (intros i Hi; rewrite K3; apply in_or_app; right; apply in_or_app; left;
        apply -> in_rev; apply in_map, in_seq; lia).
  assert (Kcod : forall i, (i < nc)%nat -> In (NCod depth i) (keys pos3))
    by (intros i Hi; rewrite K3; apply in_or_app; left;
        apply -> in_rev; apply in_map, in_seq; lia).
  assert (Ybox : gety pos3 (NBox depth) == qnat n - qnat depth - (1 # 2))
    by (eapply gety_of_lookup; apply lookup_box_pos_box).
  assert (Ydom : forall i, (i < nd)%nat -> gety pos3 (NDom depth i) == qnat n - qnat depth - (1 # 4))
    by (intros i Hi; eapply gety_of_lookup; apply lookup_box_pos_dom; [exact Hi|apply Osc; lia]).
  assert (Ycod : forall i, (i < nc)%nat -> gety pos3 (NCod depth i) == qnat n - qnat depth - (3 # 4))
    by (intros i Hi; eapply gety_of_lookup; apply lookup_box_pos_cod; [exact Hi|intros; apply Osc; lia]).
  assert (Hq : qnat depth + 1 <= qnat n) by (apply qnat_lt1, Hdn).
  constructor; cbn [st_pos st_edges st_scan].
  - intros k Hk. rewrite box_scan_length in Hk by exact Hoff.
    rewrite box_scan_at by exact Hoff. rewrite qnat_S.
    destruct (Nat.ltb_spec k off) as [Hk0|Hk0].
    { rewrite Yold by (apply Hin; lia). destruct (YS k ltac:(lia)). split; lra. }
    destruct (Nat.ltb_spec k (off + nc)) as [Hk1|Hk1].
    { rewrite (Ycod (k - off)%nat) by lia. split; lra. }
    rewrite Yold by (apply Hin; lia). destruct (YS (k - nc + nd)%nat ltac:(lia)). split; lra.
  - intros a b Hab. apply in_app_or in Hab. destruct Hab as [Hab|Hab].
    + destruct (YE a b Hab) as (Ha & Hb & Hy).
      split; [apply Kin, Ha|split; [apply Kin, Hb|]]. rewrite !Yold by assumption. exact Hy.
    + unfold box_edges in Hab. apply in_app_or in Hab. destruct Hab as [Hab|Hab];
        apply in_flat_map in Hab; destruct Hab as (i & Hi & Hab); apply in_seq in Hi.
      * destruct Hab as [Hab|[Hab|[]]]; inversion Hab; subst a b; clear Hab.
        -- split; [apply Kin, Hin; lia|split; [apply Kdom; lia|]].
           rewrite (Yold (scan_at scan (off + i))) by (apply Hin; lia). rewrite Ydom by lia.
           destruct (YS (off + i)%nat ltac:(lia)). lra.
        -- split; [apply Kdom; lia|split; [exact Kbox|]]. rewrite Ydom by lia. rewrite Ybox. lra.
      * destruct Hab as [Hab|[]]; inversion Hab; subst a b; clear Hab.
        split; [exact Kbox|split; [apply Kcod; lia|]]. rewrite Ycod by lia. rewrite Ybox. lra.
Qed.

Lemma init_y : forall n dom, YInv n 0 (init_state n dom).
Proof.
  intros n dom. constructor.
  - intros i Hi. cbn [init_state st_scan] in Hi. rewrite map_length, seq_length in Hi.
    cbn [init_state st_scan]. rewrite scan_at_inputs by lia.
    assert (Hy : gety (st_pos (init_state n dom)) (NInput i) == qnat (if Nat.eqb n 0 then 1%nat else n))
      by (eapply gety_of_lookup; apply init_lookup; exact Hi).
    rewrite Hy. change (qnat 0) with 0.
    destruct (Nat.eqb_spec n 0) as [->|Hn].
    + change (qnat 0) with 0. change (qnat 1) with 1. split; lra.
    + assert (H1 := qnat_lt1 0 n ltac:(lia)). change (qnat 0) with 0 in H1. split; lra.
  - intros a b [].
Qed.

Lemma run_boxes_y : forall n ls depth st w w',
  Inv depth st -> YInv n depth st -> length (st_scan st) = w -> wf_layers w ls = Some w' ->
  (depth + length ls <= n)%nat ->
  YInv n (depth + length ls) (run_boxes n st depth ls).
Proof.
  intros n; induction ls as [|[[nd nc] off] ls IH]; intros depth st w w' HI HY Hw Hwf Hn; simpl in *.
  - rewrite Nat.add_0_r. exact HY.
  - destruct (Nat.leb_spec (off + nd) w) as [Hoff|Hoff]; [|discriminate].
    destruct (box_step_spec n depth st nd nc off HI ltac:(lia)) as (HI' & _ & Hs & _).
    replace (depth + S (length ls))%nat with (S depth + length ls)%nat by lia.
    apply (IH (S depth) _ (w - nd + nc)%nat w' HI').
    + apply box_step_y; [assumption|assumption|lia|lia].
    + rewrite Hs, box_scan_length by lia. lia.
    + exact Hwf.
    + lia.
Qed.

(* T7: every edge of the final graph joins two nodes of the graph and points
   downwards *)
Theorem edges_downward_final : forall d a b, wf d = true ->
  In (a, b) (st_edges (layout d)) ->
  In a (nodes_of (layout d)) /\ In b (nodes_of (layout d))
  /\ gety (st_pos (layout d)) b < gety (st_pos (layout d)) a.
Proof.
  intros d a b H Hab.
  destruct (wf_unfold d H) as [_ Hwf].
  pose proof (layers_length d H) as Hlen.
  destruct (last_prefix_spec d H) as (HI & Hl).
  assert (HY : YInv (length (l_boxes d)) (length (l_layers d)) (layout_prefix d (length (l_layers d)))).
  { unfold layout_prefix. rewrite firstn_all.
    apply (run_boxes_y (length (l_boxes d)) (l_layers d) 0 _ (l_dom d) (l_cod d)
             (init_inv _ _) (init_y _ _)).
    - cbn [init_state st_scan]. rewrite map_length, seq_length. reflexivity.
    - exact Hwf.
    - lia. }
  destruct HY as [YS YE]. destruct (final_out_spec d H) as ((K & Y & _) & Ho).
  unfold nodes_of. rewrite <- !in_rev. fold (keys (st_pos (layout d))).
  rewrite layout_eq in Hab. cbn [st_edges] in Hab.
  apply in_app_or in Hab. destruct Hab as [Hab|Hab].
  - destruct (YE a b Hab) as (Ha & Hb & Hy).
    split; [apply K, Ha|split; [apply K, Hb|]]. rewrite !Y by assumption. exact Hy.
  - apply in_flat_map in Hab. destruct Hab as (i & Hi & Hab). apply in_seq in Hi.
    destruct Hab as [Hab|[]]. inversion Hab; subst a b; clear Hab.
    destruct (Ho i ltac:(lia)) as (_ & Hy0 & Hk).
    destruct HI as [_ Hin _].
    assert (Hs : In (scan_at (final_scan d) i) (keys (st_pos (layout_prefix d (length (l_layers d))))))
      by (apply Hin; unfold final_scan in Hl; lia).
    split; [apply K, Hs|split; [exact Hk|]].
    rewrite Hy0, Y by exact Hs.
    apply (YS i). unfold final_scan in Hl. lia.
Qed.

(* ------------------------------------------------------------------ no run-time error *)
(* on a well-formed diagram every list index of diagram2nx is in range and every
   pos[...] lookup hits: scan[off + i] exists for i < len(box.dom) and every
   open wire has a position *)
Theorem indices_in_range : forall d k nd nc off, wf d = true ->
  (k < length (l_layers d))%nat -> layer_at d k = ((nd, nc), off) ->
  (off + nd <= length (st_scan (layout_prefix d k)))%nat
  /\ scan_in (st_pos (layout_prefix d k)) (st_scan (layout_prefix d k)).
Proof.
  intros d k nd nc off H Hk Hl.
  destruct (box_ok_final d k nd nc off H Hk Hl) as [Hoff _].
  destruct (prefix_spec d k H) as (w & _ & _ & [_ Hin _] & _).
  split; assumption.
Qed.

Theorem final_scan_length : forall d, wf d = true -> length (final_scan d) = l_cod d.
Proof. intros d H. apply last_prefix_spec, H. Qed.

Lemma run_layout_ok : forall d, wf d = true -> run_layout d = Ok (layout d).
Proof. intros d H. unfold run_layout. rewrite H. reflexivity. Qed.

(* ------------------------------------------------------------------ non-vacuity *)
(* x @ f(2->1)  >>  x @ s(0->2) @ x  >>  e(3->0) @ x  >>  x @ c(0->0) :
   a box, a state wider than the gap it is put in (both padding rules fire), an
   effect, a scalar at the right end; positions are proper fractions *)
Definition ex_diagram : ldiag := LD 3 1 [(2, 1); (0, 2); (3, 0); (0, 0)]%nat [1; 1; 0; 1]%nat.

Example ex_wf : wf ex_diagram = true.
Proof. reflexivity. Qed.

Example ex_nodes : length (nodes_of (layout ex_diagram)) = 16%nat.
Proof. vm_compute. reflexivity. Qed.

(* x coordinates of the four boxes and of the output, as the model (and
   drawing.diagram2nx: see the corpus of harness/props/c20.py) computes them *)
Example ex_positions :
  map (fun n => Qred (getx (st_pos (layout ex_diagram)) n))
      [NBox 0; NBox 1; NBox 2; NBox 3; NOutput 0]
  = [(9 # 4); (3 # 4); (1 # 4); (13 # 4); (9 # 4)]%Q.
Proof. vm_compute. reflexivity. Qed.

(* ------------------------------------------------------------------ nx2diagram *)
Lemma index_of_nth : forall l i, NoDup l -> (i < length l)%nat -> index_of (scan_at l i) l = i.
Proof.
  unfold scan_at. induction l as [|a l IH]; intros i ND Hi; simpl in *; [lia|].
  inversion ND as [|? ? Hn ND']; subst.
  destruct i.
  - rewrite node_eqb_refl. reflexivity.
  - rewrite node_eqb_neq.
    + f_equal. apply IH; [assumption|lia].
    + intro E. apply Hn. rewrite E. apply nth_In. lia.
Qed.

Lemma find_app_first : forall {A} (f : A -> bool) l1 x l2,
  (forall e, In e l1 -> f e = false) -> f x = true -> find f (l1 ++ x :: l2) = Some x.
Proof.
  intros A f; induction l1 as [|a l1 IH]; intros x l2 H Hx; simpl.
  - rewrite Hx. reflexivity.
  - rewrite (H a) by (left; reflexivity). apply IH; [|exact Hx]. intros e He. apply H. right; exact He.
Qed.

(* edges created before depth never end in a dom port of depth or later *)
Definition targets_older (depth : nat) (es : list (node * node)) : Prop :=
  forall e k i, In e es -> snd e = NDom k i -> (k < depth)%nat.

Lemma box_edges_targets : forall scan nd nc off depth,
  targets_older (S depth) (box_edges scan nd nc off depth).
Proof.
  intros scan nd nc off depth e k i He Hk. unfold box_edges in He.
  apply in_app_or in He. destruct He as [He|He]; apply in_flat_map in He;
    destruct He as (j & _ & He).
  - destruct He as [<-|[<-|[]]]; simpl in Hk; inversion Hk; lia.
  - destruct He as [<-|[]]; simpl in Hk; discriminate.
Qed.

Lemma box_edges_first : forall scan nd nc off depth, (0 < nd)%nat ->
  exists rest, box_edges scan nd nc off depth = (scan_at scan off, NDom depth 0) :: rest.
Proof.
  intros scan nd nc off depth H. destruct nd as [|nd]; [lia|].
  unfold box_edges. cbn [seq flat_map dom_edges app]. rewrite Nat.add_0_r.
  eexists. reflexivity.
Qed.

Lemma NoDup_app_elim : forall {A} (l1 l2 : list A), NoDup (l1 ++ l2) ->
  NoDup l1 /\ NoDup l2 /\ (forall x, In x l1 -> ~ In x l2).
Proof.
  intros A; induction l1 as [|a l1 IH]; intros l2 H; simpl in *.
  - split; [constructor|split; [exact H|intros x []]].
  - inversion H as [|? ? Hn ND]; subst. destruct (IH l2 ND) as (N1 & N2 & D).
    split; [|split; [exact N2|]].
    + constructor; [|exact N1]. intro Hi. apply Hn. apply in_or_app; left; exact Hi.
    + intros x [->|Hx]; [|apply D, Hx]. intro Hi. apply Hn. apply in_or_app; right; exact Hi.
Qed.

Lemma skipn_add : forall {A} (l : list A) a b, skipn (a + b) l = skipn b (skipn a l).
Proof.
  intros A l; induction l as [|x l IH]; intros a b.
  - rewrite !skipn_nil. reflexivity.
  - destruct a; simpl; [reflexivity|apply IH].
Qed.

Lemma box_scan_NoDup : forall scan nd nc off depth,
  NoDup scan -> (forall s, In s scan -> older depth s) -> NoDup (box_scan scan nd nc off depth).
Proof.
  intros scan nd nc off depth ND Hold. unfold box_scan.
  assert (Hin : forall x, In x (firstn off scan) \/ In x (skipn (off + nd) scan) -> In x scan).
  { intros x [Hx|Hx].
    - rewrite <- (firstn_skipn off scan). apply in_or_app; left; exact Hx.
    - rewrite <- (firstn_skipn (off + nd) scan). apply in_or_app; right; exact Hx. }
  rewrite <- (firstn_skipn off scan) in ND.
  destruct (NoDup_app_elim _ _ ND) as (NL & NR & DLR).
  rewrite <- (firstn_skipn nd (skipn off scan)) in NR.
  destruct (NoDup_app_elim _ _ NR) as (_ & NR' & _).
  rewrite skipn_add.
  apply NoDup_app_intro; [exact NL| |].
  - apply NoDup_app_intro; [apply NoDup_cods|exact NR'|].
    intros x Hx Hx'. apply in_map_iff in Hx. destruct Hx as (i & <- & _).
    rewrite <- skipn_add in Hx'.
    assert (Ho := Hold _ (Hin _ (or_intror Hx'))). simpl in Ho. lia.
  - intros x Hx Hx'. apply in_app_or in Hx'. destruct Hx' as [Hx'|Hx'].
    + apply in_map_iff in Hx'. destruct Hx' as (i & <- & _).
      assert (Ho := Hold _ (Hin _ (or_introl Hx))). simpl in Ho. lia.
    + apply (DLR x Hx). rewrite <- (firstn_skipn nd (skipn off scan)).
      apply in_or_app; right; exact Hx'.
Qed.

Lemma box_scan_older : forall scan nd nc off depth,
  (forall s, In s scan -> older depth s) ->
  forall s, In s (box_scan scan nd nc off depth) -> older (S depth) s.
Proof.
  intros scan nd nc off depth Hold s Hs. unfold box_scan in Hs.
  apply in_app_or in Hs. destruct Hs as [Hs|Hs].
  - apply older_S, Hold. rewrite <- (firstn_skipn off scan). apply in_or_app; left; exact Hs.
  - apply in_app_or in Hs. destruct Hs as [Hs|Hs].
    + apply in_map_iff in Hs. destruct Hs as (i & <- & _). simpl. lia.
    + apply older_S, Hold. rewrite <- (firstn_skipn (off + nd) scan). apply in_or_app; right; exact Hs.
Qed.

Lemma nx_offsets_spec : forall ls scan depth pre post w w',
  NoDup scan -> (forall s, In s scan -> older depth s) -> length scan = w ->
  wf_layers w ls = Some w' -> targets_older depth pre ->
  nx_offsets (pre ++ fst (wiring scan depth ls) ++ post) scan depth ls = map snd ls.
Proof.
  induction ls as [|[[nd nc] off] ls IH]; intros scan depth pre post w w' ND Hold Hw Hwf Hpre;
    [reflexivity|].
  cbn [wiring fst snd map nx_offsets]. simpl in Hwf.
  destruct (Nat.leb_spec (off + nd) w) as [Hoff|Hoff]; [|discriminate].
  assert (Eo : nx_offset (pre ++ (box_edges scan nd nc off depth
                 ++ fst (wiring (box_scan scan nd nc off depth) (S depth) ls)) ++ post)
                 scan depth nd off = off).
  { unfold nx_offset. destruct (Nat.eqb_spec nd 0) as [E|E]; [reflexivity|].
    destruct (box_edges_first scan nd nc off depth ltac:(lia)) as (rest & Er).
    unfold in_wire. rewrite Er. rewrite <- !app_assoc. cbn [app].
    rewrite find_app_first.
    - cbn [fst]. apply index_of_nth; [exact ND|lia].
    - intros e He. destruct (node_eqb (snd e) (NDom depth 0)) eqn:Ee; [|reflexivity].
      apply node_eqb_eq in Ee. apply (Hpre e depth 0%nat He) in Ee. lia.
    - cbn [snd]. apply node_eqb_refl. }
  rewrite Eo. f_equal.
  fold (box_scan scan nd nc off depth).
  rewrite <- app_assoc. rewrite app_assoc.
  apply (IH (box_scan scan nd nc off depth) (S depth) (pre ++ box_edges scan nd nc off depth) post
            (w - nd + nc)%nat w').
  - apply box_scan_NoDup; assumption.
  - apply box_scan_older; assumption.
  - rewrite box_scan_length by lia. lia.
  - exact Hwf.
  - intros e k i He Hk. apply in_app_or in He. destruct He as [He|He].
    + assert (H := Hpre e k i He Hk). lia.
    + apply (box_edges_targets scan nd nc off depth e k i He Hk).
Qed.

Lemma layers_snd : forall d, wf d = true -> map snd (l_layers d) = l_offs d.
Proof.
  intros d H. destruct (wf_unfold d H) as [Hl _]. unfold l_layers.
  revert Hl. generalize (l_boxes d) (l_offs d). clear.
  induction l as [|a l IH]; intros [|o offs] H; simpl in *; try lia; [reflexivity|].
  f_equal. apply IH. lia.
Qed.

(* T9: nx2diagram reads back, from the wiring graph of a well-formed diagram,
   exactly the offsets of that diagram *)
Theorem nx2offsets_correct : forall d, wf d = true -> nx2offsets d = l_offs d.
Proof.
  intros d H. destruct (wf_unfold d H) as [_ Hwf].
  unfold nx2offsets. rewrite edges_layout. unfold expected_edges. cbv zeta.
  rewrite <- (layers_snd d H).
  apply (nx_offsets_spec (l_layers d) (map NInput (seq 0 (l_dom d))) 0 [] _ (l_dom d) (l_cod d)).
  - apply NoDup_inputs.
  - intros s Hs. apply in_map_iff in Hs. destruct Hs as (i & <- & _). exact Logic.I.
  - rewrite map_length, seq_length. reflexivity.
  - exact Hwf.
  - intros e k i [].
Qed.

Example ex_nx : nx2offsets ex_diagram = [1; 1; 0; 1]%nat.
Proof. vm_compute. reflexivity. Qed.
