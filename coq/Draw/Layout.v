(* C20 -- Gallina model of discopy/drawing.py : diagram2nx (with its inner
   add_node / make_space / add_box), over exact rationals.  Definitions only;
   all proofs live in Draw/LayoutLemmas.v.

   What is modelled.  A diagram is seen through what diagram2nx reads of it:
   len(dom), len(cod), the arities (len(box.dom), len(box.cod)) of its boxes and
   its offsets; every box has its drawing attributes at their defaults
   (draw_as_wires = draw_as_spider = False, no bubble_opening / bubble_closing,
   which is what add_drawing_attributes / open_bubbles yield for a diagram
   without bubbles).  The objects carried by the nodes (Node(..., obj=...)) do
   not influence the layout; the harness checks them in its oracle.

   A networkx / dict node Node(kind, i=.., depth=..) is identified by its kind
   and indices (that is exactly what Node.__eq__ / __hash__ see, up to obj/box).

   Numbers.  x and y coordinates are Python floats that are dyadic rationals;
   here they are Q.  Stored coordinates are normalised with Qred (qn) so that
   numerators / denominators stay small in the extracted program; Qred is the
   identity up to ==.

   The `pos` dict is an association list, NEWEST BINDING FIRST, read with
   first-match lookup: that is dict semantics (pos.update overwrites).  The
   insertion order of the nodes (graph.nodes / pos.keys()) is rev (map fst pos). *)
From Coq Require Import List ZArith QArith Bool Lia.
Import ListNotations.
Require Import DV.Common.Base.
Open Scope Z_scope.

(* drawing.Node: Node("input", i), Node("output", i), Node("box", depth),
   Node("dom", i, depth), Node("cod", i, depth) *)
Inductive node :=
| NInput (i : nat) | NOutput (i : nat) | NBox (depth : nat)
| NDom (depth i : nat) | NCod (depth i : nat).

Definition node_eqb (a b : node) : bool :=
  match a, b with
  | NInput i, NInput j => Nat.eqb i j
  | NOutput i, NOutput j => Nat.eqb i j
  | NBox d, NBox e => Nat.eqb d e
  | NDom d i, NDom e j => Nat.eqb d e && Nat.eqb i j
  | NCod d i, NCod e j => Nat.eqb d e && Nat.eqb i j
  | _, _ => false
  end.

(* the part of a monoidal.Diagram that diagram2nx looks at *)
Record ldiag := LD {
  l_dom : nat;                      (* len(diagram.dom) *)
  l_cod : nat;                      (* len(diagram.cod) *)
  l_boxes : list (nat * nat);       (* (len(box.dom), len(box.cod)) *)
  l_offs : list nat }.              (* diagram.offsets *)

(* zip(diagram.boxes, diagram.offsets) *)
Definition l_layers (d : ldiag) : list ((nat * nat) * nat) := combine (l_boxes d) (l_offs d).

(* well-formedness (what monoidal.Diagram.__init__ guarantees about arities):
   same number of boxes and offsets, every box fits at its offset, and the
   width left at the end is len(cod) *)
Fixpoint wf_layers (w : nat) (bs : list ((nat * nat) * nat)) : option nat :=
  match bs with
  | [] => Some w
  | ((nd, nc), off) :: bs' =>
      if Nat.leb (off + nd) w then wf_layers (w - nd + nc) bs' else None
  end.

Definition wf (d : ldiag) : bool :=
  Nat.eqb (length (l_boxes d)) (length (l_offs d))
  && match wf_layers (l_dom d) (l_layers d) with
     | Some w => Nat.eqb w (l_cod d)
     | None => false
     end.

(* ------------------------------------------------------------------ numbers *)
Definition qn (x : Q) : Q := Qred x.
Definition qnat (n : nat) : Q := inject_Z (Z.of_nat n).
Definition qhalf (n : nat) : Q := (qnat n * (1 # 2))%Q.           (* n / 2 *)
Definition Qltb (a b : Q) : bool := negb (Qle_bool b a).           (* a < b *)

(* ------------------------------------------------------------------ pos dict *)
Definition posmap := list (node * (Q * Q)).

Fixpoint lookup (pos : posmap) (n : node) : option (Q * Q) :=
  match pos with
  | [] => None
  | (m, p) :: pos' => if node_eqb m n then Some p else lookup pos' n
  end.

(* pos[node][0]; the default is never reached on well-formed diagrams
   (LayoutLemmas.scan_in_pos) *)
Definition getx (pos : posmap) (n : node) : Q :=
  match lookup pos n with Some p => fst p | None => 0%Q end.
Definition gety (pos : posmap) (n : node) : Q :=
  match lookup pos n with Some p => snd p | None => 0%Q end.

(* add_node: graph.add_node(node); pos.update({node: position}) *)
Definition add_node (n : node) (p : Q * Q) (pos : posmap) : posmap :=
  (n, (qn (fst p), qn (snd p))) :: pos.

(* scan[i]; the default is never reached on well-formed diagrams *)
Definition scan_at (scan : list node) (i : nat) : node := nth i scan (NInput 0).

Record state := ST {
  st_pos : posmap;
  st_edges : list (node * node);     (* graph.add_edge calls, in order *)
  st_scan : list node }.

(* ------------------------------------------------------------------ make_space *)
(* for node, position in pos.items():
       if position[0] <= limit: pos[node] = (pos[node][0] - pad, pos[node][1]) *)
Definition shift_left (limit pad : Q) (pos : posmap) : posmap :=
  map (fun e : node * (Q * Q) =>
         if Qle_bool (fst (snd e)) limit
         then (fst e, (qn (fst (snd e) - pad), snd (snd e))) else e) pos.

(*     if position[0] >= limit: pos[node] = (pos[node][0] + pad, pos[node][1]) *)
Definition shift_right (limit pad : Q) (pos : posmap) : posmap :=
  map (fun e : node * (Q * Q) =>
         if Qle_bool limit (fst (snd e))
         then (fst e, (qn (fst (snd e) + pad), snd (snd e))) else e) pos.

(* half_width = len(box.cod[:-1]) / 2 + 1 *)
Definition half_width (nc : nat) : Q := (qhalf (pred nc) + 1)%Q.

(* the x_pos chosen by make_space when scan is not empty *)
Definition choose_x (pos : posmap) (scan : list node) (nd nc off : nat) : Q :=
  let hw := half_width nc in
  if Nat.eqb nd 0 then
    if Nat.eqb off 0 then (getx pos (scan_at scan 0) - hw)%Q
    else if Nat.eqb off (length scan)
         then (getx pos (last scan (NInput 0)) + hw)%Q               (* scan[-1] *)
         else ((getx pos (scan_at scan (off - 1))
                + getx pos (scan_at scan (off + nd))) * (1 # 2))%Q
  else ((getx pos (scan_at scan off)
         + getx pos (scan_at scan (off + nd - 1))) * (1 # 2))%Q.

(* make_space(scan, box, off): returns the updated pos and x_pos *)
Definition make_space (pos : posmap) (scan : list node) (nd nc off : nat) : posmap * Q :=
  match scan with
  | [] => (pos, 0%Q)
  | _ :: _ =>
      let hw := half_width nc in
      let x_pos := choose_x pos scan nd nc off in
      let pos1 :=
        if negb (Nat.eqb off 0)
           && Qltb (x_pos - hw) (getx pos (scan_at scan (off - 1)))
        then let limit := getx pos (scan_at scan (off - 1)) in
             let pad := (limit - x_pos + hw)%Q in
             shift_left limit pad pos
        else pos in
      let pos2 :=
        if Nat.ltb (off + nd) (length scan)
           && Qltb (getx pos1 (scan_at scan (off + nd))) (x_pos + hw)
        then let limit := getx pos1 (scan_at scan (off + nd)) in
             let pad := (x_pos + hw - limit)%Q in
             shift_right limit pad pos1
        else pos1 in
      (pos2, x_pos)
  end.

(* ------------------------------------------------------------------ add_box *)
(* for i, obj in enumerate(box.dom): one iteration *)
Definition dom_step (scan : list node) (off depth : nat) (h : Q)
           (acc : posmap * list (node * node)) (i : nat) : posmap * list (node * node) :=
  let w := NDom depth i in
  (add_node w (getx (fst acc) (scan_at scan (off + i)), (h - (1 # 4))%Q) (fst acc),
   snd acc ++ [(scan_at scan (off + i), w); (w, NBox depth)]).

(* for i, obj in enumerate(box.cod): one iteration *)
Definition cod_step (scan : list node) (nd nc off depth : nat) (x_pos h : Q)
           (acc : posmap * list (node * node)) (i : nat) : posmap * list (node * node) :=
  let w := NCod depth i in
  (add_node w ((if Nat.eqb nd nc then getx (fst acc) (scan_at scan (off + i))
                else (x_pos - qhalf (pred nc) + qnat i)%Q), (h - (3 # 4))%Q) (fst acc),
   snd acc ++ [(NBox depth, w)]).

(* add_box(scan, box, off, depth, x_pos); n = len(diagram) *)
Definition add_box (n : nat) (st : state) (nd nc off depth : nat) (x_pos : Q) : state :=
  let scan := st_scan st in
  let h := (qnat n - qnat depth)%Q in
  let pos1 := add_node (NBox depth) (x_pos, (h - (1 # 2))%Q) (st_pos st) in
  let pe2 := fold_left (dom_step scan off depth h) (seq 0 nd) (pos1, st_edges st) in
  let pe3 := fold_left (cod_step scan nd nc off depth x_pos h) (seq 0 nc) pe2 in
  ST (fst pe3) (snd pe3)
     (firstn off scan ++ map (NCod depth) (seq 0 nc) ++ skipn (off + nd) scan).

(* one iteration of the box loop of diagram2nx *)
Definition box_step (n : nat) (st : state) (depth : nat) (l : (nat * nat) * nat) : state :=
  let '((nd, nc), off) := l in
  let ms := make_space (st_pos st) (st_scan st) nd nc off in
  add_box n (ST (fst ms) (st_edges st) (st_scan st)) nd nc off depth (snd ms).

Fixpoint run_boxes (n : nat) (st : state) (depth : nat) (ls : list ((nat * nat) * nat)) : state :=
  match ls with
  | [] => st
  | l :: ls' => run_boxes n (box_step n st depth l) (S depth) ls'
  end.

(* for i, obj in enumerate(diagram.dom): add_node(Node("input", i), (i, len(diagram) or 1)) *)
Definition init_state (n dom : nat) : state :=
  let y := qnat (if Nat.eqb n 0 then 1 else n) in
  ST (fold_left (fun pos i => add_node (NInput i) (qnat i, y) pos) (seq 0 dom) [])
     [] (map NInput (seq 0 dom)).

(* for i, obj in enumerate(diagram.cod): one iteration *)
Definition out_step (scan : list node)
           (acc : posmap * list (node * node)) (i : nat) : posmap * list (node * node) :=
  (add_node (NOutput i) (getx (fst acc) (scan_at scan i), 0%Q) (fst acc),
   snd acc ++ [(scan_at scan i, NOutput i)]).

Definition add_outputs (cod : nat) (st : state) : state :=
  let pe := fold_left (out_step (st_scan st)) (seq 0 cod) (st_pos st, st_edges st) in
  ST (fst pe) (snd pe) (st_scan st).

(* the state of diagram2nx after the first k boxes *)
Definition layout_prefix (d : ldiag) (k : nat) : state :=
  run_boxes (length (l_boxes d)) (init_state (length (l_boxes d)) (l_dom d)) 0
            (firstn k (l_layers d)).

(* diagram2nx(diagram): graph.nodes are rev (map fst st_pos), graph.edges are
   st_edges, positions are st_pos *)
Definition layout (d : ldiag) : state :=
  add_outputs (l_cod d) (layout_prefix d (length (l_layers d))).

Definition nodes_of (st : state) : list node := rev (map fst (st_pos st)).

(* diagram2nx on a diagram that the constructor accepts; the arity conditions
   of wf are what Diagram.__init__ enforces (it raises AxiomError otherwise) *)
Definition run_layout (d : ldiag) : res state :=
  if wf d then Ok (layout d) else Err AxiomError.

(* ------------------------------------------------------------------ nx2diagram *)
(* drawing.nx2diagram, the back half of drawing.diagramize: how the offsets of
   the boxes are read back from a graph.  For box number `depth` (graph.nodes
   order = creation order) with a dom:  `edge, = graph.in_edges(dom_node 0);
   wire, _ = edge; offset = scan.index(wire)`; without a dom: the `offset`
   attribute given to the box node (diagramize's `offset=` argument).  Then
   scan = scan[:offset] + outputs + scan[offset + len(box.dom):]. *)
Fixpoint index_of (n : node) (l : list node) : nat :=          (* l.index(n) *)
  match l with
  | [] => 0%nat
  | m :: l' => if node_eqb m n then 0%nat else S (index_of n l')
  end.

Definition in_wire (edges : list (node * node)) (n : node) : option node :=
  match find (fun e => node_eqb (snd e) n) edges with
  | Some e => Some (fst e)
  | None => None
  end.

Definition nx_offset (edges : list (node * node)) (scan : list node)
           (depth nd attr : nat) : nat :=
  if Nat.eqb nd 0 then attr
  else match in_wire edges (NDom depth 0) with
       | Some w => index_of w scan
       | None => attr
       end.

Fixpoint nx_offsets (edges : list (node * node)) (scan : list node) (depth : nat)
         (ls : list ((nat * nat) * nat)) : list nat :=
  match ls with
  | [] => []
  | ((nd, nc), attr) :: ls' =>
      let off := nx_offset edges scan depth nd attr in
      off :: nx_offsets edges
               (firstn off scan ++ map (NCod depth) (seq 0 nc) ++ skipn (off + nd) scan)
               (S depth) ls'
  end.

(* the offsets nx2diagram recovers from the graph of d (the graph diagramize
   builds when the body uses the wires in planar order has these edges); boxes
   without a dom carry their offset as attribute *)
Definition nx2offsets (d : ldiag) : list nat :=
  nx_offsets (st_edges (layout d)) (map NInput (seq 0 (l_dom d))) 0 (l_layers d).

(* ------------------------------------------------------------------ DSL + codec *)
(* program:  (dom cod ((nd nc) ...) (off ...))
   answer:   (0 (((kind a b) xnum xden ynum yden) ...) (((kind a b) (kind a b)) ...))
             nodes in insertion order, edges in insertion order;   or  (1 errcode)
   node:     input i = (0 i 0), output i = (1 i 0), box depth = (2 depth 0),
             dom depth i = (3 depth i), cod depth i = (4 depth i) *)
Definition sx_nat (s : sexp) : res nat :=
  match s with
  | I z => if z <? 0 then Err AxiomError else Ok (Z.to_nat z)
  | _ => Err BadProgram
  end.

Definition dec_arity (s : sexp) : res (nat * nat) :=
  match s with
  | L [a; b] => do a' <- sx_nat a; do b' <- sx_nat b; Ok (a', b')
  | _ => Err BadProgram
  end.

Definition dec_ldiag (s : sexp) : res ldiag :=
  match s with
  | L [d; c; L bs; L offs] =>
      do d' <- sx_nat d; do c' <- sx_nat c;
      do bs' <- mapM dec_arity bs; do offs' <- mapM sx_nat offs;
      Ok (LD d' c' bs' offs')
  | _ => Err BadProgram
  end.

Definition enc_nat (n : nat) : sexp := I (Z.of_nat n).
Definition enc_node (n : node) : sexp :=
  match n with
  | NInput i => L [I 0; enc_nat i; I 0]
  | NOutput i => L [I 1; enc_nat i; I 0]
  | NBox d => L [I 2; enc_nat d; I 0]
  | NDom d i => L [I 3; enc_nat d; enc_nat i]
  | NCod d i => L [I 4; enc_nat d; enc_nat i]
  end.
Definition enc_pos (e : node * (Q * Q)) : sexp :=
  let x := Qred (fst (snd e)) in
  let y := Qred (snd (snd e)) in
  L [enc_node (fst e); I (Qnum x); I (Zpos (Qden x)); I (Qnum y); I (Zpos (Qden y))].
Definition enc_edge (e : node * node) : sexp := L [enc_node (fst e); enc_node (snd e)].
Definition enc_state (st : state) : sexp :=
  L [L (map enc_pos (rev (st_pos st))); L (map enc_edge (st_edges st))].

(* second kind of program: (9 dom cod boxes offs) -> (0 (off ...)), the offsets
   nx2diagram reads back *)
Definition run_nx (s : sexp) : sexp :=
  match dec_ldiag s with
  | Ok d => if wf d then L [I 0; L (map enc_nat (nx2offsets d))] else L [I 1; I (err_code AxiomError)]
  | Err e => L [I 1; I (err_code e)]
  end.

(* the single entry point of the extracted runner *)
Definition run_sexp (s : sexp) : sexp :=
  match s with
  | L [I 9; d; c; bs; offs] => run_nx (L [d; c; bs; offs])
  | _ =>
  match dec_ldiag s with
  | Ok d =>
      match run_layout d with
      | Ok st => L [I 0; enc_state st]
      | Err e => L [I 1; I (err_code e)]
      end
  | Err e => L [I 1; I (err_code e)]
  end
  end.
