(* Extraction of the parametrised-box model (C14, reused by C15).
   Directives in force: those of ExtrOcamlBasic only; no Extract Constant;
   Z, positive, nat, Q, Qc stay the extracted inductive types. *)
From Coq Require Extraction ExtrOcamlBasic.
Require Import DV.Common.Base DV.Param.ParamProg.
Extraction "param_model.ml" run_sexp.
