(* Extraction of the executable grammar model (pregroup parser, brute-force
   search, CFG generation, biclosed2rigid, cat2ty, tree2diagram) for the
   correspondence check of C18.  Directives in force: those of ExtrOcamlBasic
   only; no Extract Constant; Z, positive and nat stay the extracted inductive
   types. *)
From Coq Require Extraction ExtrOcamlBasic.
Require Import DV.Common.Base DV.Grammar.GProg.
Extraction "grammar_model.ml" run_sexp.
