(* Extraction of the executable layout model (C20) for the correspondence check.
   Directives in force: those of ExtrOcamlBasic only (bool, option, unit, list,
   prod, sumbool, sumor mapped to OCaml's); no Extract Constant; Z, positive, Q
   and nat stay the extracted inductive types. *)
From Coq Require Extraction ExtrOcamlBasic.
Require Import DV.Common.Base DV.Draw.Layout.
Extraction "draw_model.ml" run_sexp.
