(* Extraction of the executable tket-translation model (to_tk, from_tk, traces,
   provenance) for the C13 correspondence check.  Directives in force: those of
   ExtrOcamlBasic only; no Extract Constant; Z, positive and nat stay the
   extracted inductive types. *)
From Coq Require Extraction ExtrOcamlBasic.
Require Import DV.Common.Base DV.Tk.Tk DV.Tk.TkProg.
Extraction "tk_model.ml" run_sexp.
