(* Extraction of the diagram + sums model (ExtrOcamlBasic directives only). *)
From Coq Require Extraction ExtrOcamlBasic.
Require Import DV.Common.Base DV.Core.SumProg.
Extraction "sums_model.ml" run_sexp2.
