(* Extraction of the executable cartesian model (C19) for the correspondence check.
   Directives in force: those of ExtrOcamlBasic only (bool, option, unit, list,
   prod, sumbool, sumor mapped to OCaml's); no Extract Constant; Z, positive and
   nat stay the extracted inductive types. *)
From Coq Require Extraction ExtrOcamlBasic.
Require Import DV.Common.Base DV.Cart.Cartesian.
Extraction "cart_model.ml" run_sexp.
