(* Extraction of the executable gates / pure-circuit model (instantiated at
   Cyc32) for the C11 correspondence check.  Directives in force: those of
   ExtrOcamlBasic only (bool, option, unit, list, prod, sumbool, sumor mapped to
   OCaml's); no Extract Constant; Z, positive, nat, Q, Qc stay the extracted
   inductive types. *)
From Coq Require Extraction ExtrOcamlBasic.
Require Import DV.Common.Base DV.Quantum.GatesProg.
Extraction "gates_model.ml" run_sexp.
