(* Extraction of the executable ZX model (gate2zx, circuit2zx, dagger, standard
   interpretation; instantiated at Cyc32 and the grid phases k/16) for the C16
   correspondence check.  Directives in force: those of ExtrOcamlBasic only
   (bool, option, unit, list, prod, sumbool, sumor mapped to OCaml's); no
   Extract Constant; Z, positive, nat, Q, Qc stay the extracted inductive types. *)
From Coq Require Extraction ExtrOcamlBasic.
Require Import DV.Common.Base DV.ZX.ZXProg.
Extraction "zx_model.ml" run_sexp.
