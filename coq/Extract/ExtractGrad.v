(* Extraction of the gradient model (C15).
   Directives in force: those of ExtrOcamlBasic only; no Extract Constant;
   Z, positive, nat, Q, Qc stay the extracted inductive types. *)
From Coq Require Extraction ExtrOcamlBasic.
Require Import DV.Common.Base DV.Grad.GradProg.
Extraction "grad_model.ml" run_sexp.
