(* Extraction of the executable Tensor / numpy model for the C08 correspondence
   check.  Directives in force: those of ExtrOcamlBasic only (bool, option,
   unit, list, prod, sumbool, sumor mapped to OCaml's); no Extract Constant;
   Z, positive and nat stay the extracted inductive types. *)
From Coq Require Extraction ExtrOcamlBasic.
Require Import DV.Common.Base DV.Tensor.NumpyModel DV.Tensor.Tensor.
Extraction "tensor_model.ml" run_sexp.
