(* Extraction of the executable to_pyzx / from_pyzx model (property C17).
   Directives in force: those of ExtrOcamlBasic only; no Extract Constant;
   Z, positive, Q and nat stay the extracted inductive types. *)
From Coq Require Extraction ExtrOcamlBasic.
Require Import DV.Common.Base DV.PyZX.PyzxProg.
Extraction "pyzx_model.ml" run_sexp.
