(* Extraction of the executable model of tensor.Functor / Diagram.eval for the
   C09 correspondence check.  Directives in force: those of ExtrOcamlBasic only
   (bool, option, unit, list, prod, sumbool, sumor mapped to OCaml's); no
   Extract Constant; Z, positive and nat stay the extracted inductive types. *)
From Coq Require Extraction ExtrOcamlBasic.
Require Import DV.Common.Base DV.TFun.TFun.
Extraction "tfun_model.ml" run_sexp.
