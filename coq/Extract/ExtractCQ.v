(* Extraction of the executable CQMap / mixed-circuit model (instantiated at
   Cyc32) for the C12 correspondence check.  Directives in force: those of
   ExtrOcamlBasic only (bool, option, unit, list, prod, sumbool, sumor mapped to
   OCaml's); no Extract Constant; Z, positive, nat, Q, Qc stay the extracted
   inductive types. *)
From Coq Require Extraction ExtrOcamlBasic.
Require Import DV.Common.Base DV.CQ.CQProg.
Extraction "cq_model.ml" run_sexp.
