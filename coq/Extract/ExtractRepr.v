(* Extraction of the repr / equality / parse model of C03 for the
   correspondence check.  Directives in force: those of ExtrOcamlBasic only; no
   Extract Constant; Z, positive, nat and Decimal.uint stay the extracted
   inductive types; strings are lists of character codes (list Z). *)
From Coq Require Extraction ExtrOcamlBasic.
Require Import DV.Common.Base DV.Repr.Repr.
Extraction "repr_model.ml" run_sexp.
