(* The general contraction step of tensor.Functor.__call__ (boxes with wires on
   both sides, swaps, scalar boxes and the axes of length 1 they leave behind)
   and the full loop invariant. *)
From Coq Require Import List ZArith Bool Arith Lia.
Import ListNotations.
Require Import DV.Common.Base DV.Common.ListLemmas DV.Core.Diagram DV.Core.WF DV.Core.DiagramLemmas
  DV.Tensor.NumpyModel DV.Tensor.Tensor DV.Tensor.NumpyLemmas DV.Tensor.TensorLemmas
  DV.Core.Rewriting DV.TFun.TFun DV.TFun.TFunLemmas.
Open Scope nat_scope.

Definition aok (a : arr) : Prop := length (data a) = size (shape a).

(* ------------------------------------------------------------------ three-block rotation *)
Lemma gather_seq : forall (idx : list nat) s m, s + m <= length idx ->
  gather 0 idx (seq s m) = firstn m (skipn s idx).
Proof.
  intros idx s m H.
  apply gather_block' with (A0 := firstn s idx) (T := skipn m (skipn s idx)).
  - rewrite firstn_skipn, firstn_skipn. reflexivity.
  - rewrite firstn_length. lia.
  - rewrite firstn_length, skipn_length. lia.
Qed.

Definition rot (p m e : nat) : list nat := seq 0 p ++ seq (p + m) e ++ seq p m.

Lemma find_index_rot : forall p m e,
  map (fun j => find_index j (rot p m e)) (seq 0 (p + m + e)) = seq 0 p ++ seq (p + e) m ++ seq p e.
Proof.
  intros. unfold rot. rewrite <- Nat.add_assoc, seq_app, (seq_app m e). cbn [Nat.add].
  rewrite !map_app. f_equal; [|f_equal].
  - apply map_seq_shift. intros i Hi.
    rewrite find_index_app_l by (apply in_seq; lia).
    replace i with (0 + i) at 1 by lia. rewrite find_index_seq by lia. lia.
  - apply map_seq_shift. intros i Hi.
    rewrite find_index_app_r by (rewrite in_seq; lia). rewrite seq_length.
    rewrite find_index_app_r by (rewrite in_seq; lia). rewrite seq_length.
    replace i with (p + (i - p)) at 1 by lia. rewrite find_index_seq by lia. lia.
  - apply map_seq_shift. intros i Hi.
    rewrite find_index_app_r by (rewrite in_seq; lia). rewrite seq_length.
    rewrite find_index_app_l by (apply in_seq; lia).
    replace i with ((p + m) + (i - (p + m))) at 1 by lia. rewrite find_index_seq by lia. lia.
Qed.

Lemma scatter_rot : forall p m e yp ye ym,
  length yp = p -> length ye = e -> length ym = m ->
  scatter (rot p m e) (yp ++ ye ++ ym) = yp ++ ym ++ ye.
Proof.
  intros p m e yp ye ym Hp He Hm. unfold scatter.
  replace (length (rot p m e)) with (p + m + e)
    by (unfold rot; rewrite !app_length, !seq_length; lia).
  rewrite <- (map_map (fun j => find_index j (rot p m e)) (fun k => nth k (yp ++ ye ++ ym) 0)).
  rewrite find_index_rot, !map_app.
  change (map (fun k => nth k (yp ++ ye ++ ym) 0)) with (gather 0 (yp ++ ye ++ ym)).
  rewrite (gather_block' 0 (yp ++ ye ++ ym) [] yp (ye ++ ym) 0 p) by (auto).
  rewrite (gather_block' 0 (yp ++ ye ++ ym) (yp ++ ye) ym [] (p + e) m)
    by (rewrite ?app_nil_r, <- ?app_assoc, ?app_length; auto; lia).
  rewrite (gather_block' 0 (yp ++ ye ++ ym) yp ye ym p e) by auto.
  reflexivity.
Qed.

Lemma rot_perm : forall p m e, perm_of (rot p m e) (p + m + e).
Proof.
  intros. split.
  - unfold rot. rewrite !app_length, !seq_length. lia.
  - intros i Hi. unfold rot. rewrite !in_app_iff, !in_seq. lia.
Qed.

Lemma size_perm3 : forall A B C : list nat, size (A ++ B ++ C) = size (A ++ C ++ B).
Proof. intros. rewrite !size_app. lia. Qed.

(* numpy.transpose(a, [0..p) ++ [p+m..p+m+e) ++ [p..p+m)) *)
Lemma transpose_rot_spec : forall a P M E, aok a -> shape a = P ++ M ++ E ->
  exists x, transpose a (rot (length P) (length M) (length E)) = Ok x /\
    shape x = P ++ E ++ M /\ aok x /\
    forall yp ye ym, in_shape yp P -> in_shape ye E -> in_shape ym M ->
      get x (yp ++ ye ++ ym) = get a (yp ++ ym ++ ye).
Proof.
  intros a P M E Ha Sa.
  set (p := length P). set (m := length M). set (e := length E).
  assert (Hn : ndim a = p + m + e) by (unfold ndim; rewrite Sa, !app_length; lia).
  unfold transpose. rewrite Hn, (is_perm_true _ _ (rot_perm p m e)).
  assert (Sx : gather 0 (shape a) (rot p m e) = P ++ E ++ M).
  { rewrite Sa. unfold rot. rewrite !gather_app.
    rewrite (gather_block' 0 (P ++ M ++ E) [] P (M ++ E) 0 p) by auto.
    rewrite (gather_block' 0 (P ++ M ++ E) (P ++ M) E [] (p + m) e)
      by (rewrite ?app_nil_r, <- ?app_assoc, ?app_length; auto).
    rewrite (gather_block' 0 (P ++ M ++ E) P M E p m) by auto. reflexivity. }
  eexists. split; [reflexivity|]. unfold transpose_. rewrite Sx.
  split; [reflexivity|]. split.
  - unfold aok. rewrite data_tabulate_length. reflexivity.
  - intros yp ye ym Hp He Hm.
    rewrite get_tabulate by (repeat apply in_shape_app; assumption).
    rewrite scatter_rot; [reflexivity|..]; unfold p, m, e; apply in_shape_length; assumption.
Qed.

(* ------------------------------------------------------------------ moving the trailing axes into the middle *)
Lemma moveaxis_order_tail : forall p r c,
  moveaxis_order (p + r + c) (seq (p + r) c) (seq p c) = rot p r c.
Proof.
  intros p r c. unfold moveaxis_order.
  assert (E0 : filter (fun k => negb (mem k (seq (p + r) c))) (seq 0 (p + r + c)) = seq 0 p ++ seq p r).
  { rewrite seq_app, filter_app. cbn [Nat.add].
    rewrite filter_all, filter_none; [rewrite app_nil_r; apply seq_app|..]; intros x Hx; apply in_seq in Hx.
    - apply negb_false_iff, mem_true_iff, in_seq. lia.
    - apply negb_true_iff, mem_false_iff. rewrite in_seq. lia. }
  rewrite E0. unfold sort_by_fst. rewrite fold_left_flat_map.
  replace (combine (seq p c) (seq (p + r) c))
    with (combine (seq p c) (seq (p + r) (length (seq p c)))) by (rewrite seq_length; reflexivity).
  set (dst := seq p c).
  assert (Hnd : NoDup dst) by apply seq_NoDup.
  set (step := fun (o : list nat) (d : nat) =>
    fold_left (fun o ds => insert_at (fst ds) (snd ds) o)
      (filter (fun ds : nat * nat => fst ds =? d) (combine dst (seq (p + r) (length dst)))) o).
  assert (Hskip : forall l o, (forall d, In d l -> ~ In d dst) -> fold_left step l o = o).
  { induction l; intros o Hl'; cbn; [reflexivity|].
    rewrite IHl by (intros; apply Hl'; right; assumption).
    unfold step. rewrite filter_fst_none by (apply Hl'; left; reflexivity). reflexivity. }
  assert (Hmid : forall k, k <= c ->
            fold_left step (seq p k) (seq 0 p ++ seq p r) =
            seq 0 p ++ seq (p + r) k ++ seq p r).
  { induction k; intros Hk; [reflexivity|].
    rewrite seq_S, fold_left_app, IHk by lia. cbn [fold_left].
    unfold step at 1.
    rewrite filter_fst_unique by (try assumption; apply in_seq; lia).
    cbn [fold_left fst snd]. unfold insert_at.
    replace (find_index (p + k) dst) with k
      by (symmetry; unfold dst; apply find_index_seq; lia).
    rewrite app_assoc.
    assert (Hlen : length (seq 0 p ++ seq (p + r) k) = p + k)
      by (rewrite app_length, !seq_length; reflexivity).
    rewrite (firstn_app_exact _ _ _ Hlen), (skipn_app_exact _ _ _ Hlen).
    rewrite (seq_S k (p + r)), <- !app_assoc. reflexivity. }
  replace (seq 0 (p + r + c)) with (seq 0 p ++ seq p c ++ seq (p + c) r).
  2:{ rewrite <- !seq_app. f_equal. lia. }
  rewrite !fold_left_app.
  rewrite (Hskip (seq 0 p)) by (intros d Hd Hin; apply in_seq in Hd; apply in_seq in Hin; lia).
  rewrite Hmid by lia.
  rewrite (Hskip (seq (p + c) r)) by (intros d Hd Hin; apply in_seq in Hd; apply in_seq in Hin; lia).
  reflexivity.
Qed.

Lemma valid_axes_seq : forall n s k, s + k <= n -> valid_axes n (seq s k) = true.
Proof.
  intros. unfold valid_axes. apply andb_true_intro. split.
  - apply forallb_forall. intros x Hx. apply in_seq in Hx. apply Nat.ltb_lt. lia.
  - apply nodupb_true, seq_NoDup.
Qed.

(* numpy.moveaxis(a, range(n - c, n), range(p, p + c)) *)
Lemma moveaxis_tail_spec : forall a P R Q, aok a -> shape a = P ++ R ++ Q ->
  exists x, moveaxis a (seq (ndim a - length Q) (length Q)) (seq (length P) (length Q)) = Ok x /\
    shape x = P ++ Q ++ R /\ aok x /\
    forall yp yq yr, in_shape yp P -> in_shape yq Q -> in_shape yr R ->
      get x (yp ++ yq ++ yr) = get a (yp ++ yr ++ yq).
Proof.
  intros a P R Q Ha Sa.
  assert (Hn : ndim a = length P + length R + length Q) by (unfold ndim; rewrite Sa, !app_length; lia).
  replace (ndim a - length Q) with (length P + length R) by lia.
  unfold moveaxis. rewrite Hn, !valid_axes_seq by lia. cbn [negb].
  rewrite !seq_length, Nat.eqb_refl. cbn [negb].
  rewrite moveaxis_order_tail.
  apply transpose_rot_spec; assumption.
Qed.

(* ------------------------------------------------------------------ tensordot on a block of axes *)
Lemma notin_mid : forall p k r, notin (p + k + r) (seq p k) = seq 0 p ++ seq (p + k) r.
Proof.
  intros. unfold notin. rewrite <- Nat.add_assoc, seq_app, (seq_app k r), !filter_app. cbn [Nat.add].
  rewrite filter_all, filter_none, filter_all; [reflexivity|..]; intros x Hx; apply in_seq in Hx.
  - apply negb_true_iff, mem_false_iff. rewrite in_seq. lia.
  - apply negb_false_iff, mem_true_iff, in_seq. lia.
  - apply negb_true_iff, mem_false_iff. rewrite in_seq. lia.
Qed.

(* numpy.tensordot(a, b, (range(p, p + k), range(k))) *)
Lemma tensordot_axes_mid_spec : forall a b P K R Q, aok a -> aok b ->
  shape a = P ++ K ++ R -> shape b = K ++ Q ->
  exists x, tensordot_axes a b (seq (length P) (length K)) (seq 0 (length K)) = Ok x /\
    shape x = P ++ R ++ Q /\ aok x /\
    forall yp yr yq, in_shape yp P -> in_shape yr R -> in_shape yq Q ->
      get x (yp ++ yr ++ yq) =
      csum (map (fun kk => cmul (get a (yp ++ kk ++ yr)) (get b (kk ++ yq))) (indices K)).
Proof.
  intros a b P K R Q Ha Hb Sa Sb. unfold tensordot_axes.
  rewrite !seq_length, Nat.eqb_refl. cbn [negb].
  assert (Na : ndim a = length P + length K + length R) by (unfold ndim; rewrite Sa, !app_length; lia).
  assert (Nb : ndim b = length K + length Q) by (unfold ndim; rewrite Sb, app_length; reflexivity).
  rewrite !existsb_seq_false by lia. cbn [orb].
  rewrite Sa, Sb.
  rewrite (gather_block' 0 (P ++ K ++ R) P K R (length P) (length K)) by reflexivity.
  rewrite (gather_block' 0 (K ++ Q) [] K Q 0 (length K)) by reflexivity.
  rewrite list_eqb_nat_refl. cbn [negb].
  rewrite Na, Nb, notin_mid, notin_head, <- seq_app, <- Nb, <- app_assoc.
  rewrite (transpose_id b Hb).
  destruct (transpose_rot_spec a P K R Ha Sa) as (at_ & Eat & Sat & Hat & Gat).
  unfold rot in Eat. rewrite Eat. cbn [bind].
  rewrite (app_assoc P R K) in Sat.
  rewrite (tensordot_k _ _ _ _ _ Sat Sb).
  eexists. split; [reflexivity|]. rewrite <- app_assoc.
  split; [reflexivity|]. split; [unfold aok; rewrite data_tabulate_length; reflexivity|].
  intros yp yr yq Hp Hr Hq.
  rewrite get_tabulate by (repeat apply in_shape_app; assumption).
  apply csum_ext. intros kk Hkk. apply indices_in_shape in Hkk.
  rewrite app_length, app_assoc.
  rewrite firstn_app_exact, skipn_app_exact
    by (rewrite app_length; f_equal; apply in_shape_length; assumption).
  rewrite <- app_assoc, Gat by assumption. reflexivity.
Qed.

(* ------------------------------------------------------------------ the moveaxis of a Swap *)
Lemma fswap_target_eq : forall p l r,
  fswap_target p (p + (l + r)) l r = seq (p + r) l ++ seq p r.
Proof.
  intros. unfold fswap_target. replace (p + (l + r) - p) with (l + r) by lia.
  rewrite seq_app, map_app. f_equal.
  - apply map_seq_shift. intros i Hi. replace (i <? p + l) with true by (symmetry; apply Nat.ltb_lt; lia). lia.
  - apply map_seq_shift. intros i Hi. replace (i <? p + l) with false by (symmetry; apply Nat.ltb_ge; lia). lia.
Qed.

Lemma moveaxis_swap_spec : forall a P L R E, aok a -> shape a = P ++ L ++ R ++ E ->
  exists x, moveaxis a (seq (length P) (length L + length R))
                       (seq (length P + length R) (length L) ++ seq (length P) (length R)) = Ok x /\
    shape x = P ++ R ++ L ++ E /\ aok x /\
    forall yp yr yl ye, in_shape yp P -> in_shape yr R -> in_shape yl L -> in_shape ye E ->
      get x (yp ++ yr ++ yl ++ ye) = get a (yp ++ yl ++ yr ++ ye).
Proof.
  intros a P L R E Ha Sa.
  set (p := length P). set (l := length L). set (r := length R). set (e := length E).
  set (dst := seq (p + r) l ++ seq p r).
  assert (Hb : block_perm dst p (l + r)).
  { split; [unfold dst; rewrite app_length, !seq_length; reflexivity|].
    intros i Hi. unfold dst. rewrite in_app_iff, !in_seq. lia. }
  assert (Hn : ndim a = p + (l + r) + e) by (unfold ndim; rewrite Sa, !app_length; unfold p, l, r, e; lia).
  assert (HX : gather 0 (P ++ R ++ L ++ E) (extend dst p (l + r) e) = shape a).
  { rewrite Sa. unfold extend, dst. rewrite !gather_app.
    rewrite (gather_block' 0 (P ++ R ++ L ++ E) [] P (R ++ L ++ E) 0 p) by auto.
    rewrite (gather_block' 0 (P ++ R ++ L ++ E) (P ++ R) L E (p + r) l)
      by (rewrite <- ?app_assoc, ?app_length; auto).
    rewrite (gather_block' 0 (P ++ R ++ L ++ E) P R (L ++ E) p r) by auto.
    rewrite (gather_block' 0 (P ++ R ++ L ++ E) (P ++ R ++ L) E [] (p + (l + r)) e)
      by (rewrite ?app_nil_r, <- ?app_assoc, ?app_length; auto; unfold p, l, r; lia).
    rewrite <- !app_assoc. reflexivity. }
  rewrite (moveaxis_spec a dst p (l + r) e (P ++ R ++ L ++ E) Hn Hb)
    by (try exact HX; rewrite !app_length; unfold p, l, r, e; lia).
  eexists. split; [reflexivity|]. split; [reflexivity|].
  split; [unfold aok; rewrite data_tabulate_length; reflexivity|].
  intros yp yr yl ye Hp Hr Hl He.
  rewrite get_tabulate by (repeat apply in_shape_app; assumption).
  f_equal. unfold extend, dst. rewrite !gather_app.
  apply in_shape_length in Hp, Hr, Hl, He.
  rewrite (gather_block' 0 (yp ++ yr ++ yl ++ ye) [] yp (yr ++ yl ++ ye) 0 p) by auto.
  rewrite (gather_block' 0 (yp ++ yr ++ yl ++ ye) (yp ++ yr) yl ye (p + r) l)
    by (rewrite <- ?app_assoc, ?app_length; auto).
  rewrite (gather_block' 0 (yp ++ yr ++ yl ++ ye) yp yr (yl ++ ye) p r) by auto.
  rewrite (gather_block' 0 (yp ++ yr ++ yl ++ ye) (yp ++ yr ++ yl) ye [] (p + (l + r)) e)
    by (rewrite ?app_nil_r, <- ?app_assoc, ?app_length; auto; unfold p, l, r; lia).
  rewrite <- !app_assoc. reflexivity.
Qed.

(* ------------------------------------------------------------------ axes of length 1 *)
Lemma size_ones : forall n, size (repeat 1 n) = 1.
Proof. induction n; [reflexivity|]. cbn [repeat]. rewrite size_cons, IHn. reflexivity. Qed.

Lemma in_shape_zeros : forall n, in_shape (repeat 0 n) (repeat 1 n).
Proof. induction n; cbn; constructor; [lia|assumption]. Qed.

Lemma ravel_zeros : forall n, ravel (repeat 1 n) (repeat 0 n) = 0.
Proof. induction n; [reflexivity|]. cbn [repeat ravel hd tl]. rewrite IHn. lia. Qed.

Lemma ravel_pad : forall sh i n, length i = length sh ->
  ravel (sh ++ repeat 1 n) (i ++ repeat 0 n) = ravel sh i.
Proof. intros. rewrite ravel_app by assumption. rewrite size_ones, ravel_zeros. lia. Qed.

Lemma get_pad : forall a sh n i, shape a = sh ++ repeat 1 n -> in_shape i sh ->
  get a (i ++ repeat 0 n) = nth (ravel sh i) (data a) czero.
Proof.
  intros a sh n i Sa Hi. unfold get. rewrite Sa, ravel_pad by (apply in_shape_length; assumption).
  reflexivity.
Qed.

Lemma size_pad : forall sh n, size (sh ++ repeat 1 n) = size sh.
Proof. intros. rewrite size_app, size_ones. lia. Qed.

Lemma repeat_snoc : forall {A} (x : A) n, repeat x n ++ [x] = repeat x (S n).
Proof. induction n; cbn; [reflexivity|]. now rewrite IHn. Qed.

(* ------------------------------------------------------------------ the specification side of a step *)
(* (T >> id(Sl) (x) B (x) id(Sr))(i, jl ++ m ++ jr) = sum_k T(i, jl ++ k ++ jr) * B(k, m) *)
Lemma whisker_then_entry : forall T TB D Sl K Sr Q,
  tok T -> tdom T = D -> tcod T = Sl ++ K ++ Sr -> tok TB -> tdom TB = K -> tcod TB = Q ->
  exists T', (do w <- whisker_of Sl Sr TB; tthen T w) = Ok T' /\
    tok T' /\ tdom T' = D /\ tcod T' = Sl ++ Q ++ Sr /\
    forall yd yl yq yr, in_shape yd D -> in_shape yl Sl -> in_shape yq Q -> in_shape yr Sr ->
      entry T' yd (yl ++ yq ++ yr) =
      csum (map (fun mk => cmul (entry T yd (yl ++ mk ++ yr)) (entry TB mk yq)) (indices K)).
Proof.
  intros T TB D Sl K Sr Q HT HTd HTc HB HBd HBc.
  destruct (tid_spec Sl) as (il & Eil & Hil & Hild & Hilc & _).
  destruct (tid_spec Sr) as (ir & Eir & Hir & Hird & Hirc & _).
  destruct (ttensor_spec il TB Hil HB) as (y & Ey & Hy & Hyd & Hyc & Hye).
  destruct (ttensor_spec y ir Hy Hir) as (w & Ew & Hw & Hwd & Hwc & Hwe).
  assert (Hwd' : tdom w = Sl ++ K ++ Sr) by (rewrite Hwd, Hyd, Hild, Hird, HBd, app_assoc; reflexivity).
  assert (Hwc' : tcod w = Sl ++ Q ++ Sr) by (rewrite Hwc, Hyc, Hilc, Hirc, HBc, app_assoc; reflexivity).
  destruct (tthen_spec T w HT Hw) as (T' & ET' & HT' & HT'd & HT'c & HT'e); [congruence|].
  exists T'. split.
  { unfold whisker_of. rewrite Eil, Eir. cbn [bind]. rewrite Ey. cbn [bind]. rewrite Ew. cbn [bind]. exact ET'. }
  split; [assumption|]. split; [congruence|]. split; [congruence|].
  intros yd yl yq yr Hd Hl Hq Hr.
  rewrite HT'e by (rewrite ?HTd, ?Hwc'; repeat apply in_shape_app; assumption).
  rewrite HTc, csum_indices_app.
  transitivity (csum (map (fun ml => cmul (delta (nat_list_eqb yl ml))
       (csum (map (fun mk => csum (map (fun mr => cmul (delta (nat_list_eqb yr mr))
            (cmul (entry T yd (ml ++ mk ++ mr)) (entry TB mk yq))) (indices Sr))) (indices K))))
       (indices Sl))).
  { apply csum_ext. intros ml Hml. apply indices_in_shape in Hml.
    rewrite csum_indices_app, <- csum_mul_l_map. apply csum_ext. intros mk Hmk. apply indices_in_shape in Hmk.
    rewrite <- csum_mul_l_map. apply csum_ext. intros mr Hmr. apply indices_in_shape in Hmr.
    assert (Ew2 : entry w (ml ++ mk ++ mr) (yl ++ yq ++ yr) =
                  cmul (cmul (delta (nat_list_eqb ml yl)) (entry TB mk yq)) (delta (nat_list_eqb mr yr))).
    { rewrite (app_assoc ml mk mr), (app_assoc yl yq yr).
      rewrite Hwe; try (rewrite ?Hyd, ?Hyc, ?Hild, ?Hilc, ?HBd, ?HBc; apply in_shape_app; assumption);
        try (rewrite ?Hird, ?Hirc; assumption).
      rewrite Hye; try (rewrite ?Hild, ?Hilc; assumption); try (rewrite ?HBd, ?HBc; assumption).
      rewrite (tid_entry _ _ Eil), (tid_entry _ _ Eir) by assumption. reflexivity. }
    rewrite Ew2, (nat_list_eqb_sym ml yl), (nat_list_eqb_sym mr yr). ring. }
  rewrite sum_delta by assumption.
  apply csum_ext. intros mk Hmk.
  rewrite sum_delta by assumption. reflexivity.
Qed.

(* (T >> id(Sl) (x) swap(L, R) (x) id(Sr))(i, jl ++ r ++ l ++ jr) = T(i, jl ++ l ++ r ++ jr) *)
Lemma whisker_swap_entry : forall T D Sl L R Sr,
  tok T -> tdom T = D -> tcod T = Sl ++ (L ++ R) ++ Sr ->
  exists s T', tswap L R = Ok s /\ tok s /\ tdom s = L ++ R /\ tcod s = R ++ L /\
    (do w <- whisker_of Sl Sr s; tthen T w) = Ok T' /\
    tok T' /\ tdom T' = D /\ tcod T' = Sl ++ (R ++ L) ++ Sr /\
    forall yd yl jr jl yr, in_shape yd D -> in_shape yl Sl -> in_shape jr R -> in_shape jl L -> in_shape yr Sr ->
      entry T' yd (yl ++ (jr ++ jl) ++ yr) = entry T yd (yl ++ (jl ++ jr) ++ yr).
Proof.
  intros T D Sl L R Sr HT HTd HTc.
  destruct (tswap_spec L R) as (s & Es & Hs & Hsd & Hsc & Hse).
  destruct (whisker_then_entry T s D Sl (L ++ R) Sr (R ++ L) HT HTd HTc Hs Hsd Hsc)
    as (T' & ET' & HT' & HT'd & HT'c & HT'e).
  exists s, T'. repeat (split; [assumption|]).
  intros yd yl jr jl yr Hd Hl Hr HL Hsr.
  rewrite HT'e by (try apply in_shape_app; assumption).
  transitivity (csum (map (fun mk => cmul (delta (nat_list_eqb (jl ++ jr) mk))
                                         (entry T yd (yl ++ mk ++ yr))) (indices (L ++ R)))).
  - apply csum_ext. intros mk Hmk. apply indices_in_shape in Hmk.
    apply in_shape_app_inv in Hmk. destruct Hmk as (il & ir & -> & Hil & Hir).
    rewrite Hse by assumption. rewrite (nat_list_eqb_sym (il ++ ir)). ring.
  - rewrite sum_delta by (apply in_shape_app; assumption). reflexivity.
Qed.

(* ------------------------------------------------------------------ the running array and the tensor it stands for *)
(* `array` has the shape D ++ S followed by n axes of length 1 and the entries of T *)
Definition stands_for (A : arr) (T : tensor) (n : nat) : Prop :=
  tok T /\ shape A = tdom T ++ tcod T ++ repeat 1 n /\ data A = data (tarr T).

Lemma stands_aok : forall A T n, stands_for A T n -> aok A.
Proof.
  intros A T n ([_ L] & S & Dt). unfold aok. rewrite Dt, L, S, app_assoc, size_pad. reflexivity.
Qed.

Lemma get_entry_pad : forall A T n yd ys, stands_for A T n ->
  in_shape yd (tdom T) -> in_shape ys (tcod T) ->
  get A (yd ++ ys ++ repeat 0 n) = entry T yd ys.
Proof.
  intros A T n yd ys (_ & S & Dt) Hd Hs.
  rewrite app_assoc. rewrite (get_pad A (tdom T ++ tcod T) n)
    by (try (rewrite S, app_assoc; reflexivity); apply in_shape_app; assumption).
  unfold entry. rewrite Dt. reflexivity.
Qed.

Lemma stands_from_entries : forall x T n, tok T -> aok x ->
  shape x = tdom T ++ tcod T ++ repeat 1 n ->
  (forall yd ys, in_shape yd (tdom T) -> in_shape ys (tcod T) ->
     get x (yd ++ ys ++ repeat 0 n) = entry T yd ys) ->
  stands_for x T n.
Proof.
  intros x T n HT Hx Sx He. split; [assumption|]. split; [assumption|].
  apply data_ext with (sh := tdom T ++ tcod T).
  - unfold aok in Hx. rewrite Hx, Sx, app_assoc, size_pad. reflexivity.
  - apply HT.
  - intros idx Hidx. apply in_shape_app_inv in Hidx. destruct Hidx as (yd & ys & -> & Hd & Hs).
    rewrite <- (get_pad x (tdom T ++ tcod T) n)
      by (try (rewrite Sx, app_assoc; reflexivity); apply in_shape_app; assumption).
    rewrite <- app_assoc. apply He; assumption.
Qed.

(* ------------------------------------------------------------------ one box of the loop *)
Lemma box_step : forall T TB A Sl K Sr Q n,
  stands_for A T n -> tcod T = Sl ++ K ++ Sr ->
  tok TB -> tdom TB = K -> tcod TB = Q ->
  exists a1 x T' n',
    tensordot_axes A (tarr TB) (seq (length (tdom T) + length Sl) (length K)) (seq 0 (length K)) = Ok a1 /\
    moveaxis a1 (seq (ndim a1 - length Q) (length Q)) (seq (length (tdom T) + length Sl) (length Q)) = Ok x /\
    (do w <- whisker_of Sl Sr TB; tthen T w) = Ok T' /\
    tdom T' = tdom T /\ tcod T' = Sl ++ Q ++ Sr /\ stands_for x T' n'.
Proof.
  intros T TB A Sl K Sr Q n HA HTc HB HBd HBc.
  pose proof HA as (HT & SA & DA). pose proof (stands_aok _ _ _ HA) as OA.
  set (D := tdom T) in *.
  destruct (whisker_then_entry T TB D Sl K Sr Q HT eq_refl HTc HB HBd HBc)
    as (T' & ET' & HT' & HT'd & HT'c & HT'e).
  assert (OB : aok (tarr TB)) by (apply tok_arr_ok; assumption).
  assert (SA' : shape A = (D ++ Sl) ++ K ++ (Sr ++ repeat 1 n)).
  { rewrite SA, HTc, <- !app_assoc. reflexivity. }
  assert (LP : length (D ++ Sl) = length D + length Sl) by apply app_length.
  (* entries of A in terms of T *)
  assert (GA : forall yd yl kk yr, in_shape yd D -> in_shape yl Sl -> in_shape kk K -> in_shape yr Sr ->
             get A ((yd ++ yl) ++ kk ++ (yr ++ repeat 0 n)) = entry T yd (yl ++ kk ++ yr)).
  { intros yd yl kk yr Hd Hl Hk Hr.
    rewrite <- (get_entry_pad A T n yd (yl ++ kk ++ yr) HA)
      by (try rewrite HTc; repeat apply in_shape_app; assumption).
    rewrite <- !app_assoc. reflexivity. }
  destruct (list_eq_dec Nat.eq_dec (K ++ Q) []) as [Enil|Hne].
  - (* a scalar box: its array has shape (1,), one more axis of length 1 appears *)
    apply app_eq_nil in Enil. destruct Enil as [-> ->].
    assert (SB : shape (tarr TB) = [] ++ [1]).
    { destruct HB as [SB _]. rewrite SB, HBd, HBc. reflexivity. }
    destruct (tensordot_axes_mid_spec A (tarr TB) (D ++ Sl) [] (Sr ++ repeat 1 n) [1] OA OB SA' SB)
      as (a1 & E1 & S1 & O1 & G1).
    rewrite LP in E1. cbn [length] in E1 |- *.
    exists a1, a1, T', (S n). split; [exact E1|].
    split.
    { rewrite Nat.sub_0_r. cbn [seq]. apply (moveaxis_prefix_id a1 0 O1). lia. }
    split; [exact ET'|]. split; [assumption|]. split; [assumption|].
    apply stands_from_entries; [assumption|assumption| |].
    + rewrite S1, HT'd, HT'c. cbn [app]. rewrite <- !app_assoc, repeat_snoc. reflexivity.
    + rewrite HT'd, HT'c. cbn [app]. intros yd ys Hd Hs.
      apply in_shape_app_inv in Hs. destruct Hs as (yl & yr & -> & Hl & Hr).
      pose proof (HT'e yd yl [] yr Hd Hl in_shape_nil_nil Hr) as X. cbn [app indices map] in X.
      rewrite csum_cons, csum_nil in X. rewrite X. clear X.
      replace (yd ++ (yl ++ yr) ++ repeat 0 (S n)) with ((yd ++ yl) ++ (yr ++ repeat 0 n) ++ [0])
        by (rewrite <- (repeat_snoc 0 n), <- !app_assoc; reflexivity).
      rewrite G1; [|apply in_shape_app; assumption
                   |apply in_shape_app; [assumption|apply in_shape_zeros]
                   |repeat constructor].
      cbn [indices map]. rewrite csum_cons, csum_nil.
      pose proof (GA yd yl [] yr Hd Hl in_shape_nil_nil Hr) as Y. cbn [app] in Y |- *. rewrite Y. clear Y.
      replace (get (tarr TB) [0]) with (entry TB [] []); [reflexivity|].
      unfold entry, get. rewrite SB, HBd, HBc. reflexivity.
  - (* a genuine box: contract, then bring the new axes into place *)
    assert (SB : shape (tarr TB) = K ++ Q).
    { rewrite <- HBd, <- HBc. apply tok_shape_nonnil; [assumption|congruence]. }
    destruct (tensordot_axes_mid_spec A (tarr TB) (D ++ Sl) K (Sr ++ repeat 1 n) Q OA OB SA' SB)
      as (a1 & E1 & S1 & O1 & G1).
    destruct (moveaxis_tail_spec a1 (D ++ Sl) (Sr ++ repeat 1 n) Q O1 S1) as (x & E2 & S2 & O2 & G2).
    rewrite LP in E1, E2.
    exists a1, x, T', n. split; [exact E1|]. split; [exact E2|].
    split; [exact ET'|]. split; [assumption|]. split; [assumption|].
    apply stands_from_entries; [assumption|assumption| |].
    + rewrite S2, HT'd, HT'c, <- !app_assoc. reflexivity.
    + rewrite HT'd, HT'c. intros yd ys Hd Hs.
      apply in_shape_app_inv in Hs. destruct Hs as (yl & ys' & -> & Hl & Hs).
      apply in_shape_app_inv in Hs. destruct Hs as (yq & yr & -> & Hq & Hr).
      rewrite (HT'e yd yl yq yr Hd Hl Hq Hr).
      replace (yd ++ (yl ++ yq ++ yr) ++ repeat 0 n) with ((yd ++ yl) ++ yq ++ (yr ++ repeat 0 n))
        by (rewrite <- !app_assoc; reflexivity).
      rewrite G2; [|apply in_shape_app; assumption|assumption
                   |apply in_shape_app; [assumption|apply in_shape_zeros]].
      rewrite G1; [|apply in_shape_app; assumption
                   |apply in_shape_app; [assumption|apply in_shape_zeros]|assumption].
      apply csum_ext. intros kk Hkk. apply indices_in_shape in Hkk.
      rewrite (GA yd yl kk yr Hd Hl Hkk Hr). f_equal.
      unfold entry, get. rewrite SB, HBd, HBc. reflexivity.
Qed.

(* ------------------------------------------------------------------ one Swap of the loop *)
Lemma swap_step : forall T A Sl L R Sr n,
  stands_for A T n -> tcod T = Sl ++ (L ++ R) ++ Sr ->
  exists x s T',
    moveaxis A (seq (length (tdom T) + length Sl) (length L + length R))
               (fswap_target (length (tdom T) + length Sl)
                             (length (tdom T) + length Sl + (length L + length R))
                             (length L) (length R)) = Ok x /\
    tswap L R = Ok s /\ tok s /\ tdom s = L ++ R /\ tcod s = R ++ L /\
    (do w <- whisker_of Sl Sr s; tthen T w) = Ok T' /\
    tdom T' = tdom T /\ tcod T' = Sl ++ (R ++ L) ++ Sr /\ stands_for x T' n.
Proof.
  intros T A Sl L R Sr n HA HTc.
  pose proof HA as (HT & SA & DA). pose proof (stands_aok _ _ _ HA) as OA.
  set (D := tdom T) in *.
  destruct (whisker_swap_entry T D Sl L R Sr HT eq_refl HTc)
    as (s & T' & Es & Hs & Hsd & Hsc & ET' & HT' & HT'd & HT'c & HT'e).
  assert (SA' : shape A = (D ++ Sl) ++ L ++ R ++ (Sr ++ repeat 1 n)).
  { rewrite SA, HTc, <- !app_assoc. reflexivity. }
  assert (LP : length (D ++ Sl) = length D + length Sl) by apply app_length.
  destruct (moveaxis_swap_spec A (D ++ Sl) L R (Sr ++ repeat 1 n) OA SA') as (x & E & Sx & Ox & Gx).
  rewrite LP in E. rewrite fswap_target_eq.
  exists x, s, T'. split; [exact E|]. repeat (split; [assumption|]).
  apply stands_from_entries; [assumption|assumption| |].
  - rewrite Sx, HT'd, HT'c, <- !app_assoc. reflexivity.
  - rewrite HT'd, HT'c. intros yd ys Hd Hys.
    apply in_shape_app_inv in Hys. destruct Hys as (yl & ys' & -> & Hl & Hys).
    apply in_shape_app_inv in Hys. destruct Hys as (yrl & yr & -> & Hrl & Hr).
    apply in_shape_app_inv in Hrl. destruct Hrl as (jr & jl & -> & Hjr & Hjl).
    rewrite (HT'e yd yl jr jl yr Hd Hl Hjr Hjl Hr).
    replace (yd ++ (yl ++ (jr ++ jl) ++ yr) ++ repeat 0 n)
      with ((yd ++ yl) ++ jr ++ jl ++ (yr ++ repeat 0 n)) by (rewrite <- !app_assoc; reflexivity).
    rewrite Gx; [|apply in_shape_app; assumption|assumption|assumption
                 |apply in_shape_app; [assumption|apply in_shape_zeros]].
    rewrite <- (get_entry_pad A T n yd (yl ++ (jl ++ jr) ++ yr) HA)
      by (try rewrite HTc; repeat apply in_shape_app; assumption).
    rewrite <- !app_assoc. reflexivity.
Qed.

(* ------------------------------------------------------------------ the loop invariant, in general *)
Lemma ty_head_tail : forall t : ty, ty_head t ++ ty_tail t = t.
Proof. intros. unfold ty_head, ty_tail. apply py_slice_split. lia. Qed.

Lemma fok_inv : forall {A} (r : fres A), fok r = true -> exists a, r = FOk a.
Proof. intros A [a|c] H; [eauto|discriminate]. Qed.

Lemma floop_gen : forall F dom0 D, F_ty F dom0 = FOk D ->
  forall ls scan cod A T n,
  chain scan ls cod -> forallb (layer_ok F) ls = true ->
  F_ty F scan = FOk (tcod T) -> tdom T = D -> stands_for A T n ->
  exists A' T' n',
    floop F dom0 (scan, A) (map lbox ls) (map (fun l => len (lleft l)) ls) = FOk (cod, A') /\
    fold_then F T ls = FOk T' /\ F_ty F cod = FOk (tcod T') /\ tdom T' = D /\ stands_for A' T' n'.
Proof.
  intros F dom0 D HD. induction ls as [|l ls IH]; intros scan cod A T n Hc Hok HS HTd HA.
  - cbn in Hc. subst cod. exists A, T, n. cbn. auto.
  - cbn [chain] in Hc. destruct Hc as [Hscan Hc].
    cbn [forallb] in Hok. apply andb_prop in Hok. destruct Hok as [Hl Hok].
    destruct l as [[left b] right]. unfold layer_ok in Hl. cbn [lright lbox lleft fst snd] in Hl.
    apply andb_prop in Hl. destruct Hl as [Hl Hr]. apply andb_prop in Hl. destruct Hl as [Hb Hlf].
    destruct (fok_inv _ Hlf) as (Sl & El). destruct (fok_inv _ Hr) as (Sr & Er). clear Hlf Hr.
    unfold box_ok in Hb.
    destruct (box_tensor F b) as [TB|] eqn:EB; [|discriminate].
    destruct (F_ty F (bdom b)) as [K|] eqn:EK; [|discriminate].
    destruct (F_ty F (bcod b)) as [Q|] eqn:EQ; [|discriminate].
    apply andb_prop in Hb. destruct Hb as [Hb Hc2]. apply andb_prop in Hb. destruct Hb as [Hok1 Hd2].
    apply tensor_ok_iff in Hok1. apply list_eqb_nat_eq in Hd2. apply list_eqb_nat_eq in Hc2.
    unfold ldom in Hscan. cbn [lleft lbox lright fst snd] in Hscan.
    unfold lcod in Hc. cbn [lleft lbox lright fst snd] in Hc.
    assert (HTc : tcod T = Sl ++ K ++ Sr).
    { rewrite Hscan in HS. rewrite (F_ty_app_ok _ _ _ _ _ El (F_ty_app_ok _ _ _ _ _ EK Er)) in HS.
      inversion HS. reflexivity. }
    assert (Eleft : dimF F left = FOk (length Sl)) by (apply dimF_ok; assumption).
    assert (Edom0 : dimF F dom0 = FOk (length D)) by (apply dimF_ok; assumption).
    assert (Ebd : dimF F (bdom b) = FOk (length K)) by (apply dimF_ok; assumption).
    assert (Ebc : dimF F (bcod b) = FOk (length Q)) by (apply dimF_ok; assumption).
    assert (HScod : F_ty F (left ++ bcod b ++ right) = FOk (Sl ++ Q ++ Sr))
      by (apply F_ty_app_ok; [assumption|apply F_ty_app_ok; assumption]).
    destruct (bkind_eqb (bk b) KSwap) eqn:Ekind.
    + (* a Swap: one moveaxis *)
      apply bkind_eqb_eq in Ekind.
      unfold box_tensor in EB. rewrite Ekind in EB.
      destruct (F_ty F (ty_head (bdom b))) as [L|] eqn:EL; [|discriminate].
      destruct (F_ty F (ty_tail (bdom b))) as [R|] eqn:ER; [|discriminate].
      cbn [fbind] in EB.
      assert (HK : K = L ++ R).
      { pose proof (F_ty_app_ok _ _ _ _ _ EL ER) as X. rewrite ty_head_tail, EK in X. inversion X. reflexivity. }
      rewrite HK in HTc, EK.
      destruct (swap_step T A Sl L R Sr n HA HTc)
        as (x & s & T' & E1 & Es & Hs & Hsd & Hsc & ET' & HT'd & HT'c & HA').
      rewrite Es in EB. cbn [lift] in EB. inversion EB as [EB']. clear EB.
      assert (HQ : Q = R ++ L) by (rewrite <- Hc2, <- EB'; exact Hsc).
      rewrite HQ, <- HT'c in HScod.
      destruct (IH _ cod x T' n Hc Hok HScod (eq_trans HT'd HTd) HA')
        as (A' & T'' & n' & L1 & L2 & L3).
      exists A', T'', n'. split; [|split; [|exact L3]].
      * cbn [map floop lbox lleft fst snd]. unfold fstep. cbn [fst snd].
        rewrite Hscan, slice_left, slice_right, Ekind.
        assert (Ep : dimF F (dom0 ++ left) = FOk (length (tdom T) + length Sl)).
        { rewrite (dimF_ok _ _ _ (F_ty_app_ok _ _ _ _ _ HD El)), app_length, HTd. reflexivity. }
        assert (Eq : dimF F (dom0 ++ left ++ bdom b) =
                     FOk (length (tdom T) + length Sl + (length L + length R))).
        { rewrite (dimF_ok _ _ _ (F_ty_app_ok _ _ _ _ _ HD (F_ty_app_ok _ _ _ _ _ El EK))).
          rewrite !app_length, HTd. f_equal. lia. }
        rewrite Ep, Eq. cbn [fbind].
        rewrite (dimF_ok _ _ _ EL), (dimF_ok _ _ _ ER). cbn [fbind].
        replace (length (tdom T) + length Sl + (length L + length R) - (length (tdom T) + length Sl))
          with (length L + length R) by lia.
        rewrite E1. cbn [lift fbind]. exact L1.
      * cbn [fold_then]. unfold whiskerT. cbn [lleft lbox lright fst snd].
        rewrite El, Er. cbn [fbind]. unfold box_tensor. rewrite Ekind, EL, ER. cbn [fbind].
        rewrite Es. cbn [lift fbind].
        destruct (whisker_of Sl Sr s) as [w|] eqn:Ew; [|discriminate]. cbn [bind lift fbind] in ET' |- *.
        rewrite ET'. cbn [lift fbind]. exact L2.
    + (* any other box: tensordot, then moveaxis *)
      assert (Hk : bk b <> KSwap).
      { intro E. rewrite E in Ekind. discriminate. }
      rewrite box_tensor_not_swap in EB by assumption.
      destruct (box_step T TB A Sl K Sr Q n HA HTc Hok1 Hd2 Hc2)
        as (a1 & x & T' & n1 & E1 & E2 & ET' & HT'd & HT'c & HA').
      rewrite <- HT'c in HScod.
      destruct (IH _ cod x T' n1 Hc Hok HScod (eq_trans HT'd HTd) HA')
        as (A' & T'' & n' & L1 & L2 & L3).
      exists A', T'', n'. split; [|split; [|exact L3]].
      * cbn [map floop lbox lleft fst snd]. unfold fstep. cbn [fst snd].
        rewrite Hscan, slice_left, slice_right.
        rewrite Eleft, Edom0, Ebd, Ebc, EB. rewrite HTd in E1, E2.
        destruct (bk b) eqn:Ebk; try congruence; cbn [fbind]; rewrite E1; cbn [lift fbind]; rewrite E2;
          cbn [lift fbind]; exact L1.
      * cbn [fold_then]. unfold whiskerT. cbn [lleft lbox lright fst snd].
        rewrite El, Er. cbn [fbind]. rewrite box_tensor_not_swap by assumption. rewrite EB. cbn [fbind].
        destruct (whisker_of Sl Sr TB) as [w|] eqn:Ew; [|discriminate]. cbn [bind lift fbind] in ET' |- *.
        rewrite ET'. cbn [lift fbind]. exact L2.
Qed.

(* ------------------------------------------------------------------ C09, in full *)
Theorem functor_call_compositional_full : functor_call_compositional_stmt.
Proof.
  intros F d (W1 & W2 & W3 & W4 & W5) Hok. unfold interp_ok in Hok.
  apply andb_prop in Hok. destruct Hok as [Hd Hok].
  destruct (fok_inv _ Hd) as (D & ED).
  destruct (tid_spec D) as (i & Ei & Hi & Hid & Hic & _).
  unfold la_wf in W3. rewrite W1, W2 in W3.
  assert (HA : stands_for (tarr i) i (match D with [] => 1 | _ => 0 end)).
  { split; [assumption|]. split; [|reflexivity].
    destruct Hi as [Si _]. rewrite Si, Hid, Hic.
    destruct D; cbn; [reflexivity|]. rewrite app_nil_r. reflexivity. }
  assert (HS : F_ty F (ddom d) = FOk (tcod i)) by (rewrite Hic; exact ED).
  destruct (floop_gen F (ddom d) D ED (la_ls (dlayers d)) (ddom d) (dcod d) (tarr i) i _ W3 Hok HS Hid HA)
    as (A' & T' & n' & L1 & L2 & L3 & HT'd & (HT' & SA' & DA')).
  exists T'. split; [|split].
  - unfold functor_call. rewrite ED. cbn [fbind]. rewrite Ei. cbn [lift fbind].
    rewrite W4, W5, L1. cbn [fbind snd]. rewrite L3. cbn [fbind].
    rewrite mk_tensor_ok.
    + cbn [lift]. f_equal. rewrite DA'. apply tok_eta; [assumption|assumption|reflexivity].
    + rewrite DA'. destruct HT' as [_ LT']. rewrite LT', HT'd. reflexivity.
  - unfold meaning. rewrite ED. cbn [fbind]. rewrite Ei. cbn [lift fbind]. exact L2.
  - apply tensor_ok_iff. assumption.
Qed.

(* ------------------------------------------------------------------ non-vacuity of the full theorem *)
(* x = Dim(2), y = Dim(3):  Swap(x, y) >> y @ s @ x >> y @ f >> y @ Cap(x, x.r) @ y @ y
   >> y @ Cup(x, x.r) @ y @ y >> y @ h @ y   with a scalar s, f : x -> y @ y, h : y -> 1 *)
Definition ex_s : box := Box KBox 3 [] [] false None.
Definition ex_h : box := Box KBox 4 [ex_y] [] false None.
Definition ex_xr : ob := Ob 2 1.
Definition ex_swap : box := Box KSwap (-1) [ex_x; ex_y] [ex_y; ex_x] false None.
Definition ex_cap : box := Box KCap (-3) [] [ex_x; ex_xr] false None.
Definition ex_cup : box := Box KCup (-2) [ex_x; ex_xr] [] false None.
Definition ex_F2 : finterp :=
  FI (fun n => FOk [n])
     (fun b => if (bname b =? 1)%Z then FOk (mkArr [18] (ex_data 18 3))
               else if (bname b =? 3)%Z then FOk (mkArr [1] [(2, 1)%Z])
               else if (bname b =? 4)%Z then FOk (mkArr [3] (ex_data 3 2))
               else FErr other_error).
Definition ex_d2 : diagram :=
  match mk [ex_x; ex_y] [ex_y; ex_y]
           [ex_swap; ex_s; ex_f; ex_cap; ex_cup; ex_h] [0; 1; 1; 1; 1; 1]%Z with
  | Ok d => d | Err _ => did [] end.

Lemma ex_d2_mk : mk [ex_x; ex_y] [ex_y; ex_y]
  [ex_swap; ex_s; ex_f; ex_cap; ex_cup; ex_h] [0; 1; 1; 1; 1; 1]%Z = Ok ex_d2.
Proof. reflexivity. Qed.

Example full_example :
  wf ex_d2 /\ interp_ok ex_F2 ex_d2 = true /\ length (dboxes ex_d2) = 6 /\
  exists T, functor_call ex_F2 ex_d2 = FOk T /\ meaning ex_F2 ex_d2 = FOk T /\ tensor_ok T = true.
Proof.
  split; [exact (mk_wf _ _ _ _ _ ex_d2_mk)|].
  assert (R : interp_ok ex_F2 ex_d2 = true) by (vm_compute; reflexivity).
  split; [exact R|]. split; [reflexivity|].
  exact (functor_call_compositional_full ex_F2 ex_d2 (mk_wf _ _ _ _ _ ex_d2_mk) R).
Qed.

(* ------------------------------------------------------------------ bubbles and sums *)
(* Tensor.map applies the function to every entry *)
Lemma tmap_spec : forall g t, tok t ->
  exists c, tmap g t = Ok c /\ tok c /\ tdom c = tdom t /\ tcod c = tcod t /\
    forall i j, in_shape i (tdom t) -> in_shape j (tcod t) -> entry c i j = g (entry t i j).
Proof.
  intros g t [St Lt]. unfold tmap.
  rewrite mk_tensor_ok by (cbn [data]; rewrite map_length; exact Lt).
  eexists. split; [reflexivity|]. split; [|split; [reflexivity|split; [reflexivity|]]].
  - apply tok_mk. cbn [data]. rewrite map_length. exact Lt.
  - intros i j Hi Hj. unfold entry. cbn [tdom tcod tarr data].
    apply nth_map_default. rewrite Lt. apply ravel_lt. apply in_shape_app; assumption.
Qed.

Lemma tzeros_spec : forall d c,
  exists z, tzeros d c = Ok z /\ tok z /\ tdom z = d /\ tcod z = c /\ forall i j, entry z i j = czero.
Proof.
  intros d c. unfold tzeros. rewrite mk_tensor_ok by (cbn [data]; apply repeat_length).
  eexists. split; [reflexivity|]. split; [|split; [reflexivity|split; [reflexivity|]]].
  - apply tok_mk. cbn [data]. apply repeat_length.
  - intros i j. unfold entry. cbn [tdom tcod tarr data]. apply nth_repeat.
Qed.

(* the Sum branch: sum(map(self, terms), zeros) adds the tensors of the terms *)
Lemma tsum_spec : forall ts z, tensor_ok z = true ->
  Forall (fun t => tensor_ok t = true /\ tdom t = tdom z /\ tcod t = tcod z) ts ->
  exists c, tsum z (map FOk ts) = FOk c /\ tensor_ok c = true /\ tdom c = tdom z /\ tcod c = tcod z /\
    forall i j, entry c i j = cadd (entry z i j) (csum (map (fun t => entry t i j) ts)).
Proof.
  induction ts as [|t ts IH]; intros z Hz Hall; cbn [map tsum].
  - exists z. repeat (split; [auto|]). intros. cbn [map]. rewrite csum_nil. symmetry. apply cadd_zero_r.
  - inversion Hall as [|? ? (Ht & Htd & Htc) Hrest]; subst.
    destruct (tadd_spec z t Hz Ht (eq_sym Htd) (eq_sym Htc)) as (a & Ea & Ha & Had & Hac & Hae).
    cbn [fbind]. rewrite Ea. cbn [lift fbind].
    destruct (IH a Ha) as (c & Ec & Hc & Hcd & Hcc & Hce).
    { eapply Forall_impl; [|exact Hrest]. cbn. intros x (H1 & H2 & H3). rewrite Had, Hac. auto. }
    exists c. split; [exact Ec|]. split; [exact Hc|]. split; [congruence|]. split; [congruence|].
    intros i j. rewrite Hce, Hae. cbn [map]. rewrite csum_cons. ring.
Qed.

(* boolean-hypothesis versions for Props/C09.v *)
Lemma functor_bubble_b : forall g t, tensor_ok t = true ->
  exists c, tmap g t = Ok c /\ tensor_ok c = true /\ tdom c = tdom t /\ tcod c = tcod t /\
    forall i j, in_shapeb i (tdom t) = true -> in_shapeb j (tcod t) = true ->
      entry c i j = g (entry t i j).
Proof.
  intros g t Ht. apply tensor_ok_iff in Ht.
  destruct (tmap_spec g t Ht) as (c & E & Hc & Hd & Hcd & He).
  exists c. split; [exact E|]. split; [apply tensor_ok_iff; exact Hc|]. split; [exact Hd|]. split; [exact Hcd|].
  intros i j Hi Hj. apply He; apply in_shapeb_iff; assumption.
Qed.

Example bubble_example :
  exists t c, tensor_ok t = true /\ in_shapeb [1] (tdom t) = true /\ in_shapeb [2] (tcod t) = true /\
    (exists g, bubble_func 0 = Some g /\ tmap g t = Ok c) /\ entry t [1] [2] = czero /\ entry c [1] [2] = cone.
Proof.
  exists (mkT [2] [3] (mkArr [2; 3] [(1, 0); (0, 2); (3, 0); (-1, 1); (2, 0); (0, 0)]%Z)).
  eexists. split; [reflexivity|]. split; [reflexivity|]. split; [reflexivity|].
  split; [eexists; split; [reflexivity|vm_compute; reflexivity]|]. split; reflexivity.
Qed.

(* ------------------------------------------------------------------ Tensor.cups / caps of a type and its adjoint *)
Lemma firstn1_skipn : forall (l : list nat) i, i < length l -> firstn 1 (skipn i l) = [nth i l 0].
Proof.
  induction l as [|x l IH]; intros i H; [cbn in H; lia|].
  destruct i; [reflexivity|]. cbn [skipn nth]. apply IH. cbn in H. lia.
Qed.

Lemma firstn_succ_split : forall (l : list nat) j, firstn (S j) l = firstn j l ++ firstn 1 (skipn j l).
Proof.
  induction l as [|x l IH]; intros j; [destruct j; reflexivity|].
  destruct j; [reflexivity|]. cbn [firstn skipn app]. f_equal. apply IH.
Qed.

Lemma skipn_succ_split : forall (l : list nat) i, skipn i l = firstn 1 (skipn i l) ++ skipn (S i) l.
Proof.
  induction l as [|x l IH]; intros i; [destruct i; reflexivity|].
  destruct i; [reflexivity|]. cbn [skipn]. apply IH.
Qed.

(* one iteration of rigid.cups on (left, left.r): the types work out *)
Lemma cups_step_shape : forall left i result D,
  i < length left -> tok result -> tdom result = D ->
  tcod result = firstn (length left - i) left ++ skipn i (rev left) ->
  exists r, cups_step left (rev left) result i = Ok r /\ tok r /\ tdom r = D /\
    tcod r = firstn (length left - S i) left ++ skipn (S i) (rev left).
Proof.
  intros left i result D Hi Hr Hd Hc. unfold cups_step.
  set (n := length left) in *. set (j := n - i - 1).
  assert (Elj : firstn 1 (skipn j left) = [nth j left 0]) by (apply firstn1_skipn; unfold j; lia).
  assert (Eri : firstn 1 (skipn i (rev left)) = [nth j left 0]).
  { rewrite firstn1_skipn by (rewrite rev_length; exact Hi). f_equal.
    rewrite rev_nth by exact Hi. f_equal. unfold j, n. lia. }
  rewrite Elj, Eri. set (a := nth j left 0).
  destruct (tid_spec [a]) as (idl & Eidl & Hidl & Hidld & Hidlc & _). rewrite Eidl. cbn [bind].
  assert (Lidl : length (data (tarr idl)) = size (([a] ++ [a]) ++ [])).
  { destruct Hidl as [_ L]. rewrite L, Hidld, Hidlc, app_nil_r. reflexivity. }
  rewrite (mk_tensor_ok _ _ _ Lidl). cbn [bind].
  set (cup := mkT ([a] ++ [a]) [] (mkArr (shape_of ([a] ++ [a]) []) (data (tarr idl)))).
  assert (Hcup : tok cup) by (apply tok_mk; exact Lidl).
  destruct (tid_spec (firstn j left)) as (idL & EidL & HidL & HidLd & HidLc & _). rewrite EidL. cbn [bind].
  destruct (ttensor_spec idL cup HidL Hcup) as (x & Ex & Hx & Hxd & Hxc & _). rewrite Ex. cbn [bind].
  destruct (tid_spec (skipn (i + 1) (rev left))) as (idR & EidR & HidR & HidRd & HidRc & _).
  rewrite EidR. cbn [bind].
  destruct (ttensor_spec x idR Hx HidR) as (lay & El & Hl & Hld & Hlc & _). rewrite El. cbn [bind].
  assert (Ecomp : tcod result = tdom lay).
  { rewrite Hc, Hld, Hxd, HidLd, HidRd. cbn [cup tdom].
    replace (n - i) with (S j) by (unfold j; lia).
    rewrite firstn_succ_split, Elj, (skipn_succ_split (rev left) i), Eri.
    replace (i + 1) with (S i) by lia. rewrite <- !app_assoc. reflexivity. }
  destruct (tthen_spec result lay Hr Hl Ecomp) as (r & Er & Hr' & Hrd & Hrc & _).
  exists r. split; [exact Er|]. split; [exact Hr'|]. split; [congruence|].
  rewrite Hrc, Hlc, Hxc, HidLc, HidRc. cbn [cup tcod]. rewrite app_nil_r.
  replace (n - S i) with j by (unfold j; lia). replace (i + 1) with (S i) by lia. reflexivity.
Qed.

Lemma cups_loop_shape : forall left D k i result,
  i + k = length left -> tok result -> tdom result = D ->
  tcod result = firstn (length left - i) left ++ skipn i (rev left) ->
  exists r, cups_loop left (rev left) result (seq i k) = Ok r /\ tok r /\ tdom r = D /\ tcod r = [].
Proof.
  intros left D. induction k as [|k IH]; intros i result Hik Hr Hd Hc; cbn [seq cups_loop].
  - exists result. split; [reflexivity|]. split; [assumption|]. split; [assumption|].
    rewrite Hc. replace (length left - i) with 0 by lia. cbn [firstn app].
    apply skipn_all2. rewrite rev_length. lia.
  - destruct (cups_step_shape left i result D) as (r1 & E1 & H1 & H1d & H1c); try assumption; [lia|].
    rewrite E1. cbn [bind]. apply (IH (S i) r1); try assumption. lia.
Qed.

(* Tensor.cups(l, l.r) and Tensor.caps(l, l.r) exist for every Dim l and have the right types *)
Theorem tcups_adjoint_shape : forall l,
  exists c, tcups l (rev l) = Ok c /\ tok c /\ tdom c = l ++ rev l /\ tcod c = [].
Proof.
  intros l. unfold tcups. rewrite list_eqb_nat_refl. cbn [negb andb].
  destruct (tid_spec (l ++ rev l)) as (i0 & E0 & H0 & H0d & H0c & _). rewrite E0. cbn [bind].
  apply (cups_loop_shape l (l ++ rev l) (length l) 0 i0); try assumption; [lia|].
  rewrite H0c, Nat.sub_0_r, firstn_all. reflexivity.
Qed.

Theorem tcaps_adjoint_shape : forall l,
  exists c, tcaps l (rev l) = Ok c /\ tok c /\ tdom c = [] /\ tcod c = l ++ rev l.
Proof.
  intros l. destruct (tcups_adjoint_shape l) as (c & Ec & Hc & Hcd & Hcc).
  destruct (tdagger_spec c Hc) as (c' & Ec' & Hc' & Hc'd & Hc'c & _).
  exists c'. unfold tcaps. rewrite Ec. cbn [bind]. split; [exact Ec'|]. split; [exact Hc'|].
  split; congruence.
Qed.

(* hence, after the F5 repair, every Cup(x, x.r) / Cap(x, x.r) (and the x.l variants)
   meets the condition interp_ok puts on a box, whatever the image of x *)
Lemma cup_cap_box_ok : forall F x y d, obj_to_dim F x = FOk d -> obj_to_dim F y = FOk (rev d) ->
  box_ok F (Box KCup (-2) [x; y] [] false None) = true /\
  box_ok F (Box KCap (-3) [] [x; y] false None) = true.
Proof.
  intros F x y d Hx Hy.
  assert (E1 : F_ty F [x] = FOk d) by (cbn [F_ty]; rewrite Hx; cbn [fbind]; rewrite app_nil_r; reflexivity).
  assert (E2 : F_ty F [y] = FOk (rev d)) by (cbn [F_ty]; rewrite Hy; cbn [fbind]; rewrite app_nil_r; reflexivity).
  assert (E12 : F_ty F [x; y] = FOk (d ++ rev d)) by (apply (F_ty_app_ok F [x] [y]); assumption).
  destruct (tcups_adjoint_shape d) as (c & Ec & Hc & Hcd & Hcc).
  destruct (tcaps_adjoint_shape d) as (c' & Ec' & Hc' & Hc'd & Hc'c).
  split; unfold box_ok, box_tensor, box_image; cbn [bk bdom bcod].
  - change (ty_head [x; y]) with [x]. change (ty_tail [x; y]) with [y].
    rewrite E1, E2. cbn [fbind]. rewrite Ec. cbn [lift]. rewrite E12. cbn [F_ty].
    rewrite (proj2 (tensor_ok_iff c) Hc), Hcd, Hcc, !list_eqb_nat_refl. reflexivity.
  - change (ty_head [x; y]) with [x]. change (ty_tail [x; y]) with [y].
    rewrite E1, E2. cbn [fbind]. rewrite Ec'. cbn [lift]. rewrite E12. cbn [F_ty].
    rewrite (proj2 (tensor_ok_iff c') Hc'), Hc'd, Hc'c, !list_eqb_nat_refl. reflexivity.
Qed.
