(* Well-formed tensors (Tensor.then / tensor / id of discopy.tensor, over any
   object map) are an instance of the abstract strict monoidal category
   `monoidal_model` of Sem/Monoidal.v; hence the evaluation of a diagram by
   tensor.Functor is invariant under interchange and normalisation. *)
From Coq Require Import List ZArith Bool Arith Lia Eqdep_dec.
Import ListNotations.
Require Import DV.Common.Base DV.Common.ListLemmas DV.Core.Diagram DV.Core.WF DV.Core.DiagramLemmas
  DV.Tensor.NumpyModel DV.Tensor.Tensor DV.Tensor.NumpyLemmas DV.Tensor.TensorLemmas
  DV.Core.Rewriting DV.Core.RewritingLemmas DV.Sem.Monoidal DV.Sem.MonoidalLemmas
  DV.TFun.TFun DV.TFun.TFunLemmas DV.TFun.TFunGeneral.
Open Scope nat_scope.

(* ------------------------------------------------------------------ total operations *)
Definition force (r : res tensor) (dflt : tensor) : tensor :=
  match r with Ok t => t | Err _ => dflt end.

Definition zero_t (d c : list nat) : tensor :=
  mkT d c (mkArr (shape_of d c) (repeat czero (size (d ++ c)))).

Lemma zero_t_tok : forall d c, tok (zero_t d c).
Proof. intros. apply tok_mk. apply repeat_length. Qed.

Definition id_t (d : list nat) : tensor := force (tid d) (zero_t d d).
(* composition, total: an ill-typed composite is (arbitrarily) its first factor *)
Definition comp_t (f g : tensor) : tensor := force (tthen f g) f.
Definition tens_t (f g : tensor) : tensor := force (ttensor f g) f.

Lemma id_t_eq : forall d, tid d = Ok (id_t d).
Proof. intros. unfold id_t. destruct (tid_spec d) as (c & E & _). rewrite E. reflexivity. Qed.

Lemma id_t_spec : forall d, tok (id_t d) /\ tdom (id_t d) = d /\ tcod (id_t d) = d /\
  forall i j, in_shape i d -> in_shape j d -> entry (id_t d) i j = delta (nat_list_eqb i j).
Proof.
  intros d. destruct (tid_spec d) as (c & E & Hc & Hd & Hcd & _).
  pose proof (id_t_eq d) as E'. rewrite E in E'. inversion E' as [E'']. rewrite <- E''.
  repeat (split; [assumption|]). intros. apply (tid_entry d c E); assumption.
Qed.

Lemma comp_t_spec : forall f g, tok f -> tok g -> tcod f = tdom g ->
  tthen f g = Ok (comp_t f g) /\ tok (comp_t f g) /\
  tdom (comp_t f g) = tdom f /\ tcod (comp_t f g) = tcod g /\
  forall i j, in_shape i (tdom f) -> in_shape j (tcod g) ->
    entry (comp_t f g) i j = csum (map (fun k => cmul (entry f i k) (entry g k j)) (indices (tcod f))).
Proof.
  intros f g Hf Hg E. destruct (tthen_spec f g Hf Hg E) as (c & Ec & H).
  unfold comp_t. rewrite Ec. cbn [force]. split; [reflexivity|exact H].
Qed.

Lemma tens_t_spec : forall f g, tok f -> tok g ->
  ttensor f g = Ok (tens_t f g) /\ tok (tens_t f g) /\
  tdom (tens_t f g) = tdom f ++ tdom g /\ tcod (tens_t f g) = tcod f ++ tcod g /\
  forall ia ib ja jb, in_shape ia (tdom f) -> in_shape ib (tdom g) ->
    in_shape ja (tcod f) -> in_shape jb (tcod g) ->
    entry (tens_t f g) (ia ++ ib) (ja ++ jb) = cmul (entry f ia ja) (entry g ib jb).
Proof.
  intros f g Hf Hg. destruct (ttensor_spec f g Hf Hg) as (c & Ec & H).
  unfold tens_t. rewrite Ec. cbn [force]. split; [reflexivity|exact H].
Qed.

Lemma comp_t_tok : forall f g, tok f -> tok g -> tok (comp_t f g).
Proof.
  intros f g Hf Hg. destruct (list_eq_dec Nat.eq_dec (tcod f) (tdom g)) as [E|N].
  - apply comp_t_spec; assumption.
  - unfold comp_t. rewrite (then_refuses_b f g N). exact Hf.
Qed.

(* ------------------------------------------------------------------ the laws, on raw tensors *)
Lemma sum_delta_r : forall sh k0 (f : list nat -> C), in_shape k0 sh ->
  csum (map (fun k => cmul (f k) (delta (nat_list_eqb k k0))) (indices sh)) = f k0.
Proof.
  intros sh k0 f H. rewrite <- (sum_delta sh k0 f H). apply csum_ext. intros k _.
  rewrite (nat_list_eqb_sym k k0). apply cmul_comm.
Qed.

Lemma comp_t_id_l : forall f, tok f -> comp_t (id_t (tdom f)) f = f.
Proof.
  intros f Hf. destruct (id_t_spec (tdom f)) as (Hi & Hid & Hic & Hie).
  destruct (comp_t_spec (id_t (tdom f)) f Hi Hf Hic) as (_ & Hc & Hcd & Hcc & Hce).
  apply tensor_ext; try assumption; [congruence|].
  intros i j Hi' Hj. rewrite Hcd, Hid in Hi'. rewrite Hcc in Hj.
  rewrite Hce by (rewrite ?Hid; assumption). rewrite Hic.
  transitivity (csum (map (fun k => cmul (delta (nat_list_eqb i k)) (entry f k j)) (indices (tdom f)))).
  - apply csum_ext. intros k Hk. apply indices_in_shape in Hk. rewrite Hie by assumption. reflexivity.
  - apply (sum_delta (tdom f) i (fun k => entry f k j)). assumption.
Qed.

Lemma comp_t_id_r : forall f, tok f -> comp_t f (id_t (tcod f)) = f.
Proof.
  intros f Hf. destruct (id_t_spec (tcod f)) as (Hi & Hid & Hic & Hie).
  destruct (comp_t_spec f (id_t (tcod f)) Hf Hi (eq_sym Hid)) as (_ & Hc & Hcd & Hcc & Hce).
  apply tensor_ext; try assumption; [congruence|].
  intros i j Hi' Hj. rewrite Hcd in Hi'. rewrite Hcc, Hic in Hj.
  rewrite Hce by (rewrite ?Hic; assumption).
  transitivity (csum (map (fun k => cmul (entry f i k) (delta (nat_list_eqb k j))) (indices (tcod f)))).
  - apply csum_ext. intros k Hk. apply indices_in_shape in Hk. rewrite Hie by assumption. reflexivity.
  - apply (sum_delta_r (tcod f) j (fun k => entry f i k)). assumption.
Qed.

Lemma comp_t_assoc : forall f g h, tok f -> tok g -> tok h ->
  tcod f = tdom g -> tcod g = tdom h ->
  comp_t (comp_t f g) h = comp_t f (comp_t g h).
Proof.
  intros f g h Hf Hg Hh E1 E2.
  destruct (comp_t_spec f g Hf Hg E1) as (_ & H1 & H1d & H1c & H1e).
  destruct (comp_t_spec g h Hg Hh E2) as (_ & H2 & H2d & H2c & H2e).
  destruct (comp_t_spec (comp_t f g) h H1 Hh) as (_ & H3 & H3d & H3c & H3e); [congruence|].
  destruct (comp_t_spec f (comp_t g h) Hf H2) as (_ & H4 & H4d & H4c & H4e); [congruence|].
  apply tensor_ext; try assumption; [congruence|congruence|].
  intros i j Hi Hj. rewrite H3d, H1d in Hi. rewrite H3c in Hj.
  rewrite H3e by (rewrite ?H1d; assumption).
  rewrite H4e by (rewrite ?H2c; assumption).
  rewrite H1c.
  transitivity (csum (map (fun k => csum (map (fun m =>
      cmul (cmul (entry f i m) (entry g m k)) (entry h k j)) (indices (tcod f)))) (indices (tcod g)))).
  { apply csum_ext. intros k Hk. apply indices_in_shape in Hk.
    rewrite H1e by assumption. rewrite <- csum_mul_r_map. reflexivity. }
  rewrite csum_swap.
  apply csum_ext. intros m Hm. apply indices_in_shape in Hm.
  rewrite H2e by (rewrite <- ?E1; assumption).
  rewrite <- csum_mul_l_map. apply csum_ext. intros k _. apply cmul_assoc.
Qed.

Lemma tens_t_assoc : forall f g h, tok f -> tok g -> tok h ->
  tens_t (tens_t f g) h = tens_t f (tens_t g h).
Proof.
  intros f g h Hf Hg Hh.
  destruct (tens_t_spec f g Hf Hg) as (_ & H1 & H1d & H1c & H1e).
  destruct (tens_t_spec g h Hg Hh) as (_ & H2 & H2d & H2c & H2e).
  destruct (tens_t_spec (tens_t f g) h H1 Hh) as (_ & H3 & H3d & H3c & H3e).
  destruct (tens_t_spec f (tens_t g h) Hf H2) as (_ & H4 & H4d & H4c & H4e).
  apply tensor_ext; try assumption.
  - rewrite H3d, H4d, H1d, H2d, app_assoc. reflexivity.
  - rewrite H3c, H4c, H1c, H2c, app_assoc. reflexivity.
  - intros i j Hi Hj. rewrite H3d, H1d in Hi. rewrite H3c, H1c in Hj.
    apply in_shape_app_inv in Hi. destruct Hi as (iab & ic & -> & Hiab & Hic).
    apply in_shape_app_inv in Hiab. destruct Hiab as (ia & ib & -> & Hia & Hib).
    apply in_shape_app_inv in Hj. destruct Hj as (jab & jc & -> & Hjab & Hjc).
    apply in_shape_app_inv in Hjab. destruct Hjab as (ja & jb & -> & Hja & Hjb).
    rewrite H3e; try (rewrite ?H1d, ?H1c; apply in_shape_app); try assumption.
    rewrite H1e by assumption.
    rewrite <- !app_assoc.
    rewrite H4e; try (rewrite ?H2d, ?H2c; apply in_shape_app); try assumption.
    rewrite H2e by assumption. apply cmul_assoc.
Qed.

Lemma id_nil_entry : entry (id_t []) [] [] = cone.
Proof. apply tid_nil_entry. apply id_t_eq. Qed.

Lemma tens_t_unit_l : forall f, tok f -> tens_t (id_t []) f = f.
Proof.
  intros f Hf. destruct (id_t_spec []) as (Hi & Hid & Hic & _).
  destruct (tens_t_spec (id_t []) f Hi Hf) as (_ & H1 & H1d & H1c & H1e).
  apply tensor_ext; try assumption; try (rewrite ?H1d, ?H1c, ?Hid, ?Hic; reflexivity).
  intros i j Hi' Hj. rewrite H1d, Hid in Hi'. rewrite H1c, Hic in Hj. cbn [app] in Hi', Hj.
  change i with ([] ++ i). change j with ([] ++ j).
  rewrite H1e; try (rewrite ?Hid, ?Hic; apply in_shape_nil_nil); try assumption.
  rewrite id_nil_entry. cbn [app]. ring.
Qed.

Lemma tens_t_unit_r : forall f, tok f -> tens_t f (id_t []) = f.
Proof.
  intros f Hf. destruct (id_t_spec []) as (Hi & Hid & Hic & _).
  destruct (tens_t_spec f (id_t []) Hf Hi) as (_ & H1 & H1d & H1c & H1e).
  apply tensor_ext; try assumption; try (rewrite ?H1d, ?H1c, ?Hid, ?Hic; apply app_nil_r).
  intros i j Hi' Hj. rewrite H1d, Hid, app_nil_r in Hi'. rewrite H1c, Hic, app_nil_r in Hj.
  rewrite <- (app_nil_r i) at 1. rewrite <- (app_nil_r j) at 1.
  rewrite H1e; try (rewrite ?Hid, ?Hic; apply in_shape_nil_nil); try assumption.
  rewrite id_nil_entry. ring.
Qed.

Lemma tens_t_id : forall a b, tens_t (id_t a) (id_t b) = id_t (a ++ b).
Proof.
  intros a b.
  destruct (id_t_spec a) as (Ha & Had & Hac & Hae).
  destruct (id_t_spec b) as (Hb & Hbd & Hbc & Hbe).
  destruct (id_t_spec (a ++ b)) as (Hab & Habd & Habc & Habe).
  destruct (tens_t_spec (id_t a) (id_t b) Ha Hb) as (_ & H1 & H1d & H1c & H1e).
  apply tensor_ext; try assumption; [congruence|congruence|].
  intros i j Hi Hj. rewrite H1d, Had, Hbd in Hi. rewrite H1c, Hac, Hbc in Hj.
  rewrite Habe by assumption.
  apply in_shape_app_inv in Hi. destruct Hi as (ia & ib & -> & Hia & Hib).
  apply in_shape_app_inv in Hj. destruct Hj as (ja & jb & -> & Hja & Hjb).
  rewrite H1e by (rewrite ?Had, ?Hac, ?Hbd, ?Hbc; assumption).
  rewrite Hae, Hbe by assumption.
  rewrite nat_list_eqb_app by (rewrite (in_shape_length _ _ Hia), (in_shape_length _ _ Hja); reflexivity).
  symmetry. apply delta_and.
Qed.

Lemma interchange_t : forall a b c d, tok a -> tok b -> tok c -> tok d ->
  tcod a = tdom c -> tcod b = tdom d ->
  comp_t (tens_t a b) (tens_t c d) = tens_t (comp_t a c) (comp_t b d).
Proof.
  intros a b c d Ha Hb Hc Hd E1 E2.
  destruct (interchange_law_tok a b c d Ha Hb Hc Hd E1 E2) as (t & L & R).
  destruct (tens_t_spec a b Ha Hb) as (Eab & Hab & Habd & Habc & _).
  destruct (tens_t_spec c d Hc Hd) as (Ecd & Hcd & Hcdd & Hcdc & _).
  destruct (comp_t_spec a c Ha Hc E1) as (Eac & Hac & _).
  destruct (comp_t_spec b d Hb Hd E2) as (Ebd & Hbd & _).
  rewrite Eab, Ecd in L. cbn [bind] in L.
  rewrite Eac, Ebd in R. cbn [bind] in R.
  destruct (comp_t_spec (tens_t a b) (tens_t c d) Hab Hcd) as (E3 & _); [congruence|].
  destruct (tens_t_spec (comp_t a c) (comp_t b d) Hac Hbd) as (E4 & _).
  rewrite E3 in L. rewrite E4 in R. congruence.
Qed.

(* ------------------------------------------------------------------ the instance *)
Definition wt := { t : tensor | tensor_ok t = true }.
Definition val (x : wt) : tensor := proj1_sig x.

Lemma wt_eq : forall a b : wt, val a = val b -> a = b.
Proof.
  intros [a pa] [b pb]. cbn. intros E. subst b. f_equal.
  apply UIP_dec. apply Bool.bool_dec.
Qed.

Lemma val_tok : forall x : wt, tok (val x).
Proof. intros [t H]. cbn. apply tensor_ok_iff. exact H. Qed.

Definition mk_wt (t : tensor) (H : tok t) : wt := exist _ t (proj2 (tensor_ok_iff t) H).

Definition wid (d : list nat) : wt := mk_wt (id_t d) (proj1 (id_t_spec d)).
Definition wcomp (f g : wt) : wt := mk_wt (comp_t (val f) (val g)) (comp_t_tok _ _ (val_tok f) (val_tok g)).
Definition wtens (f g : wt) : wt :=
  mk_wt (tens_t (val f) (val g)) (proj1 (proj2 (tens_t_spec _ _ (val_tok f) (val_tok g)))).

Definition tensor_model (om : ob -> list nat) : monoidal_model.
Proof.
  refine {|
    O := list nat; M := wt; ounit := []; otens := @app nat; obj := om;
    idm := wid; comp := wcomp; tens := wtens;
    domM := fun f => tdom (val f); codM := fun f => tcod (val f) |}.
  - intros. symmetry. apply app_assoc.
  - reflexivity.
  - intros. apply app_nil_r.
  - intros a. apply (id_t_spec a).
  - intros a. apply (id_t_spec a).
  - intros f g E. cbn. apply (comp_t_spec _ _ (val_tok f) (val_tok g) E).
  - intros f g E. cbn. apply (comp_t_spec _ _ (val_tok f) (val_tok g) E).
  - intros f g. cbn. apply (tens_t_spec _ _ (val_tok f) (val_tok g)).
  - intros f g. cbn. apply (tens_t_spec _ _ (val_tok f) (val_tok g)).
  - intros f g h E1 E2. apply wt_eq. cbn.
    apply comp_t_assoc; try apply val_tok; assumption.
  - intros f. apply wt_eq. cbn. apply comp_t_id_l. apply val_tok.
  - intros f. apply wt_eq. cbn. apply comp_t_id_r. apply val_tok.
  - intros f g h. apply wt_eq. cbn. apply tens_t_assoc; apply val_tok.
  - intros f. apply wt_eq. cbn. apply tens_t_unit_l. apply val_tok.
  - intros f. apply wt_eq. cbn. apply tens_t_unit_r. apply val_tok.
  - intros a b. apply wt_eq. cbn. apply tens_t_id.
  - intros f g h k E1 E2. apply wt_eq. cbn.
    apply interchange_t; try apply val_tok; assumption.
Defined.

(* ------------------------------------------------------------------ a tensor functor as a functor into the instance *)
Definition om_of (F : finterp) (o : ob) : list nat :=
  match obj_to_dim F o with FOk d => d | FErr _ => [] end.

Lemma F_ty_obj_ty : forall F t s, F_ty F t = FOk s -> obj_ty (tensor_model (om_of F)) t = s.
Proof.
  intros F. induction t as [|o t IH]; intros s H; cbn [F_ty obj_ty] in *.
  - inversion H. reflexivity.
  - destruct (obj_to_dim F o) as [d|] eqn:Eo; [|discriminate]. cbn [fbind] in H.
    destruct (F_ty F t) as [r|] eqn:Et; [|discriminate]. cbn [fbind] in H. inversion H.
    cbn. unfold om_of at 1. rewrite Eo. rewrite (IH r eq_refl). reflexivity.
Qed.

(* total box map: the tensor of the box when the interpretation respects its
   type, the zero tensor of the right type otherwise *)
Definition Fb_raw (F : finterp) (b : box) : tensor :=
  let d := obj_ty (tensor_model (om_of F)) (bdom b) in
  let c := obj_ty (tensor_model (om_of F)) (bcod b) in
  match box_tensor F b with
  | FOk t => if tensor_ok t && nat_list_eqb (tdom t) d && nat_list_eqb (tcod t) c then t else zero_t d c
  | FErr _ => zero_t d c
  end.

Lemma Fb_raw_spec : forall F b, tok (Fb_raw F b) /\
  tdom (Fb_raw F b) = obj_ty (tensor_model (om_of F)) (bdom b) /\
  tcod (Fb_raw F b) = obj_ty (tensor_model (om_of F)) (bcod b).
Proof.
  intros F b. unfold Fb_raw.
  destruct (box_tensor F b) as [t|]; [|split; [apply zero_t_tok|split; reflexivity]].
  destruct (tensor_ok t && _ && _) eqn:E; [|split; [apply zero_t_tok|split; reflexivity]].
  apply andb_prop in E. destruct E as [E E3]. apply andb_prop in E. destruct E as [E1 E2].
  split; [apply tensor_ok_iff; assumption|]. split; apply list_eqb_nat_eq; assumption.
Qed.

Definition Fb (F : finterp) (b : box) : wt := mk_wt (Fb_raw F b) (proj1 (Fb_raw_spec F b)).

Lemma Fb_respects : forall F, respects_types (tensor_model (om_of F)) (Fb F).
Proof. intros F b. cbn. split; apply (Fb_raw_spec F b). Qed.

Lemma box_ok_Fb : forall F b, box_ok F b = true -> box_tensor F b = FOk (Fb_raw F b).
Proof.
  intros F b H. unfold box_ok in H. unfold Fb_raw.
  destruct (box_tensor F b) as [t|]; [|discriminate].
  destruct (F_ty F (bdom b)) as [fd|] eqn:Ed; [|discriminate].
  destruct (F_ty F (bcod b)) as [fc|] eqn:Ec; [|discriminate].
  rewrite (F_ty_obj_ty F _ _ Ed), (F_ty_obj_ty F _ _ Ec), H. reflexivity.
Qed.

Lemma whisker_of_eq : forall fl fr b, tok b ->
  whisker_of fl fr b = Ok (tens_t (tens_t (id_t fl) b) (id_t fr)).
Proof.
  intros fl fr b Hb. unfold whisker_of. rewrite !id_t_eq. cbn [bind].
  destruct (tens_t_spec (id_t fl) b (proj1 (id_t_spec fl)) Hb) as (E1 & H1 & _).
  rewrite E1. cbn [bind].
  apply (tens_t_spec _ _ H1 (proj1 (id_t_spec fr))).
Qed.

Lemma fold_then_interp : forall F ls a b (acc : wt),
  chain a ls b -> forallb (layer_ok F) ls = true ->
  tcod (val acc) = obj_ty (tensor_model (om_of F)) a ->
  fold_then F (val acc) ls = FOk (val (interp_layers (tensor_model (om_of F)) (Fb F) acc ls)).
Proof.
  intros F. set (Mod := tensor_model (om_of F)).
  induction ls as [|l ls IH]; intros a b acc Hc Hok Hacc; cbn [fold_then interp_layers].
  - reflexivity.
  - cbn [chain] in Hc. destruct Hc as [Ha Hc].
    cbn [forallb] in Hok. apply andb_prop in Hok. destruct Hok as [Hl Hok].
    unfold layer_ok in Hl. apply andb_prop in Hl. destruct Hl as [Hl Hr].
    apply andb_prop in Hl. destruct Hl as [Hb Hlf].
    destruct (fok_inv _ Hlf) as (Sl & El). destruct (fok_inv _ Hr) as (Sr & Er).
    unfold whiskerT. rewrite El, Er. cbn [fbind]. rewrite (box_ok_Fb F _ Hb). cbn [fbind].
    rewrite (whisker_of_eq Sl Sr _ (proj1 (Fb_raw_spec F (lbox l)))). cbn [lift fbind].
    set (w := interp_layer Mod (Fb F) l).
    assert (Ew : val w = tens_t (tens_t (id_t Sl) (Fb_raw F (lbox l))) (id_t Sr)).
    { unfold w, interp_layer, whisker, Mod.
      cbn [tens idm tensor_model val wtens wid mk_wt proj1_sig].
      rewrite (F_ty_obj_ty F _ _ El), (F_ty_obj_ty F _ _ Er). reflexivity. }
    rewrite <- Ew.
    assert (Hdw : tdom (val w) = obj_ty Mod (ldom l))
      by (exact (dom_interp_layer Mod (Fb F) (Fb_respects F) l)).
    assert (Hcw : tcod (val w) = obj_ty Mod (lcod l))
      by (exact (cod_interp_layer Mod (Fb F) (Fb_respects F) l)).
    assert (Ecomp : tcod (val acc) = tdom (val w)) by (rewrite Hacc, Ha, Hdw; reflexivity).
    destruct (comp_t_spec (val acc) (val w) (val_tok acc) (val_tok w) Ecomp) as (Et & _ & _ & Hcc & _).
    rewrite Et. cbn [lift fbind].
    change (comp_t (val acc) (val w)) with (val (comp Mod acc w)).
    apply (IH (lcod l) b (comp Mod acc w) Hc Hok).
    change (tcod (comp_t (val acc) (val w)) = obj_ty Mod (lcod l)). rewrite Hcc. exact Hcw.
Qed.

Lemma meaning_interp : forall F d, wf d -> interp_ok F d = true ->
  meaning F d = FOk (val (interp (tensor_model (om_of F)) (Fb F) d)).
Proof.
  intros F d (W1 & W2 & W3 & _) Hok. unfold interp_ok in Hok.
  apply andb_prop in Hok. destruct Hok as [Hd Hok]. destruct (fok_inv _ Hd) as (D & ED).
  unfold meaning, interp. rewrite ED. cbn [fbind]. rewrite id_t_eq. cbn [lift fbind].
  rewrite (F_ty_obj_ty F _ _ ED).
  unfold la_wf in W3. rewrite W1 in W3.
  apply (fold_then_interp F _ (ddom d) _ (idm (tensor_model (om_of F)) D) W3 Hok).
  cbn. rewrite (F_ty_obj_ty F _ _ ED). apply (id_t_spec D).
Qed.

(* ------------------------------------------------------------------ C09: invariance of the evaluation *)
Lemma functor_call_interp : forall F d, wf d -> interp_ok F d = true ->
  functor_call F d = FOk (val (interp (tensor_model (om_of F)) (Fb F) d)).
Proof.
  intros F d Hwf Hok.
  destruct (functor_call_compositional_full F d Hwf Hok) as (T & E1 & E2 & _).
  rewrite E1, <- E2. apply meaning_interp; assumption.
Qed.

Theorem eval_interchange_invariant_full : forall F d i j left d',
  wf d -> interp_ok F d = true -> interchange d i j left = Ok d' -> interp_ok F d' = true ->
  functor_call F d' = functor_call F d.
Proof.
  intros F d i j left d' Hwf Hok Hi Hok'.
  destruct (interchange_wf d i j left d' Hwf Hi) as (Hwf' & _).
  rewrite (functor_call_interp F d Hwf Hok), (functor_call_interp F d' Hwf' Hok').
  rewrite (interchange_interp (tensor_model (om_of F)) (Fb F) d i j left d' (Fb_respects F) Hwf Hi).
  reflexivity.
Qed.

Theorem eval_normal_form_invariant_full : forall F d fuel left d',
  wf d -> interp_ok F d = true -> normal_form fuel d left = Ok d' -> interp_ok F d' = true ->
  functor_call F d' = functor_call F d.
Proof.
  intros F d fuel left d' Hwf Hok Hn Hok'.
  destruct (normal_form_wf fuel d left d' Hwf Hn) as (Hwf' & _).
  rewrite (functor_call_interp F d Hwf Hok), (functor_call_interp F d' Hwf' Hok').
  rewrite (normal_form_interp (tensor_model (om_of F)) (Fb F) fuel d left d' (Fb_respects F) Hwf Hn).
  reflexivity.
Qed.

(* ------------------------------------------------------------------ non-vacuity of the invariance theorems *)
Definition ex_d3 : diagram :=     (* f @ f *)
  match mk [ex_x; ex_x] [ex_y; ex_y; ex_y; ex_y] [ex_f; ex_f] [0; 2]%Z with Ok d => d | Err _ => did [] end.
Definition ex_dA : diagram :=     (* f >> y @ h >> h : not in normal form *)
  match mk [ex_x] [] [ex_f; ex_h; ex_h] [0; 1; 0]%Z with Ok d => d | Err _ => did [] end.

Example interchange_example :
  wf ex_d3 /\ interp_ok ex_F2 ex_d3 = true /\
  exists d', interchange ex_d3 0 1 false = Ok d' /\ doffs d' = [1; 0]%Z /\ doffs ex_d3 = [0; 2]%Z /\
             interp_ok ex_F2 d' = true /\ functor_call ex_F2 d' = functor_call ex_F2 ex_d3.
Proof.
  assert (W : wf ex_d3) by (apply (mk_wf [ex_x; ex_x] [ex_y; ex_y; ex_y; ex_y] [ex_f; ex_f] [0; 2]%Z); reflexivity).
  assert (R : interp_ok ex_F2 ex_d3 = true) by (vm_compute; reflexivity).
  split; [exact W|]. split; [exact R|].
  destruct (interchange ex_d3 0 1 false) as [d'|] eqn:E; [|vm_compute in E; discriminate].
  exists d'. split; [reflexivity|].
  assert (R' : interp_ok ex_F2 d' = true) by (vm_compute in E; inversion E; vm_compute; reflexivity).
  split; [vm_compute in E; inversion E; reflexivity|]. split; [reflexivity|]. split; [exact R'|].
  exact (eval_interchange_invariant_full ex_F2 ex_d3 0 1 false d' W R E R').
Qed.

Example normal_form_example :
  wf ex_dA /\ interp_ok ex_F2 ex_dA = true /\
  exists d', normal_form 50 ex_dA false = Ok d' /\ doffs d' = [0; 0; 0]%Z /\ doffs ex_dA = [0; 1; 0]%Z /\
             interp_ok ex_F2 d' = true /\ functor_call ex_F2 d' = functor_call ex_F2 ex_dA.
Proof.
  assert (W : wf ex_dA) by (apply (mk_wf [ex_x] [] [ex_f; ex_h; ex_h] [0; 1; 0]%Z); reflexivity).
  assert (R : interp_ok ex_F2 ex_dA = true) by (vm_compute; reflexivity).
  split; [exact W|]. split; [exact R|].
  destruct (normal_form 50 ex_dA false) as [d'|] eqn:E; [|vm_compute in E; discriminate].
  exists d'. split; [reflexivity|].
  assert (R' : interp_ok ex_F2 d' = true) by (vm_compute in E; inversion E; vm_compute; reflexivity).
  split; [vm_compute in E; inversion E; reflexivity|]. split; [reflexivity|]. split; [exact R'|].
  exact (eval_normal_form_invariant_full ex_F2 ex_dA 50 false d' W R E R').
Qed.

(* ------------------------------------------------------------------ rewriting stays inside the interpretation *)
(* an adjacent exchange keeps the boxes and only re-brackets the types around
   them, so interp_ok is preserved: the invariance theorems need it for d only *)
Lemma fok_F_ty_app : forall F a b, fok (F_ty F (a ++ b)) = fok (F_ty F a) && fok (F_ty F b).
Proof.
  intros. rewrite F_ty_app. destruct (F_ty F a); [|reflexivity]. destruct (F_ty F b); reflexivity.
Qed.

Lemma box_ok_types : forall F b, box_ok F b = true ->
  fok (F_ty F (bdom b)) = true /\ fok (F_ty F (bcod b)) = true.
Proof.
  intros F b H. unfold box_ok in H. destruct (box_tensor F b); [|discriminate].
  destruct (F_ty F (bdom b)); [|discriminate]. destruct (F_ty F (bcod b)); [|discriminate]. auto.
Qed.

Lemma forallb_firstn : forall {A} (f : A -> bool) l n, forallb f l = true -> forallb f (firstn n l) = true.
Proof.
  intros A f. induction l as [|y l IH]; intros [|n] H; cbn in *; auto.
  apply andb_prop in H. destruct H as [H1 H2]. rewrite H1. cbn. apply IH. exact H2.
Qed.

Lemma forallb_skipn : forall {A} (f : A -> bool) l n, forallb f l = true -> forallb f (skipn n l) = true.
Proof.
  intros A f. induction l as [|y l IH]; intros [|n] H; cbn in *; auto.
  apply andb_prop in H. destruct H as [_ H2]. apply IH. exact H2.
Qed.

Lemma forallb_nth_error : forall {A} (f : A -> bool) l i x,
  forallb f l = true -> nth_error l i = Some x -> f x = true.
Proof.
  intros A f l i x H E. rewrite forallb_forall in H. apply H. eapply nth_error_In. exact E.
Qed.

Lemma interchange_adj_interp_ok : forall F d i left d',
  wf d -> interp_ok F d = true -> interchange_adj d i left = Ok d' -> interp_ok F d' = true.
Proof.
  intros F d i left d' Hwf Hok H.
  destruct (interchange_adj_inv d i left d' Hwf H)
    as (left0 & box0 & right0 & left1 & box1 & right1 & mid & E0 & E1 & Hd & Hcase).
  unfold interp_ok in *. apply andb_prop in Hok. destruct Hok as [Hdom Hls].
  rewrite Hd, Hdom. cbn [andb].
  pose proof (forallb_nth_error _ _ _ _ Hls E0) as L0.
  pose proof (forallb_nth_error _ _ _ _ Hls E1) as L1.
  unfold layer_ok in L0, L1. cbn [lleft lbox lright fst snd] in L0, L1.
  apply andb_prop in L0. destruct L0 as [L0 R0]. apply andb_prop in L0. destruct L0 as [B0 F0].
  apply andb_prop in L1. destruct L1 as [L1 R1]. apply andb_prop in L1. destruct L1 as [B1 F1].
  destruct (box_ok_types F box0 B0) as [D0 C0]. destruct (box_ok_types F box1 B1) as [D1 C1].
  pose proof (forallb_firstn _ _ i Hls) as Hpre. pose proof (forallb_skipn _ _ (2 + i) Hls) as Hpost.
  destruct Hcase as [(HA & HB & Hls') | (HA & HB & Hls')]; rewrite Hls';
    rewrite !forallb_app, Hpre; cbn [forallb andb app];
    (apply andb_true_intro; split; [|exact Hpost]);
    unfold layer_ok; cbn [lleft lbox lright fst snd];
    rewrite B0, B1; subst; rewrite ?fok_F_ty_app in *;
    repeat match goal with
           | H : _ && _ = true |- _ => apply andb_prop in H; destruct H
           end;
    repeat match goal with
           | H : fok _ = true |- _ => rewrite H
           end; reflexivity.
Qed.

Section Preserve.
  Variable P : diagram -> Prop.
  Hypothesis HP : forall d i left d', wf d -> P d -> interchange_adj d i left = Ok d' -> P d'.

  Lemma preserve_up : forall n d i left d', wf d -> P d -> interchange_up d i n left = Ok d' -> P d'.
  Proof.
    induction n as [|n IH]; cbn; intros d i left d' Hwf Hp H.
    - inversion H; subst; assumption.
    - destruct (interchange_adj d i left) as [d1|] eqn:E; [|discriminate]. cbn in H.
      destruct (interchange_adj_shape _ _ _ _ Hwf E) as [W1 _].
      exact (IH d1 (S i) left d' W1 (HP d i left d1 Hwf Hp E) H).
  Qed.

  Lemma preserve_down : forall n d i left d', wf d -> P d -> interchange_down d i n left = Ok d' -> P d'.
  Proof.
    induction n as [|n IH]; cbn; intros d i left d' Hwf Hp H.
    - inversion H; subst; assumption.
    - destruct (interchange_adj d (i - 1) left) as [d1|] eqn:E; [|discriminate]. cbn in H.
      destruct (interchange_adj_shape _ _ _ _ Hwf E) as [W1 _].
      exact (IH d1 (i - 1) left d' W1 (HP d (i - 1) left d1 Hwf Hp E) H).
  Qed.

  Lemma preserve_interchange : forall d i j left d', wf d -> P d -> interchange d i j left = Ok d' -> P d'.
  Proof.
    intros d i j left d' Hwf Hp. unfold interchange. destruct (negb _); [discriminate|].
    destruct (i =? j)%Z; [intros H; inversion H; subst; assumption|].
    destruct (j <? i)%Z; intros H;
      [exact (preserve_down _ d _ left d' Hwf Hp H)|exact (preserve_up _ d _ left d' Hwf Hp H)].
  Qed.

  Lemma preserve_pass : forall n d i left acc moved d' acc' moved',
    wf d -> P d -> normalize_pass d i n left acc moved = Ok (d', acc', moved') -> wf d' /\ P d'.
  Proof.
    induction n as [|n IH]; cbn [normalize_pass]; intros d i left acc moved d' acc' moved' Hwf Hp H.
    - inversion H; subst. auto.
    - destruct (can_move d i left).
      + destruct (interchange_adj d i left) as [d1|] eqn:E; [|discriminate]. cbn [bind] in H.
        destruct (interchange_adj_shape _ _ _ _ Hwf E) as [W1 _].
        exact (IH d1 (S i) left (d1 :: acc) true d' acc' moved' W1 (HP d i left d1 Hwf Hp E) H).
      + exact (IH d (S i) left acc moved d' acc' moved' Hwf Hp H).
  Qed.

  Lemma preserve_nf : forall fuel d left seen d', wf d -> P d -> nf_loop fuel d left seen = Ok d' -> P d'.
  Proof.
    induction fuel as [|fuel IH]; cbn [nf_loop]; intros d left seen d' Hwf Hp H; [discriminate|].
    destruct (normalize_pass d 0 (length (dboxes d) - 1) left [] false) as [[[d1 ys] moved]|] eqn:E; [|discriminate].
    cbn [bind] in H. destruct (preserve_pass _ _ _ _ _ _ _ _ _ Hwf Hp E) as [W1 P1].
    destruct (first_repeat seen (rev ys)); [discriminate|].
    destruct moved; [exact (IH d1 left (ys ++ seen) d' W1 P1 H)|inversion H; subst; assumption].
  Qed.
End Preserve.

(* ------------------------------------------------------------------ C09: invariance, hypotheses on d only *)
Theorem eval_interchange_invariant_closed : forall F d i j left d',
  wf d -> interp_ok F d = true -> interchange d i j left = Ok d' ->
  functor_call F d' = functor_call F d.
Proof.
  intros F d i j left d' Hwf Hok Hi.
  apply (eval_interchange_invariant_full F d i j left d' Hwf Hok Hi).
  apply (preserve_interchange (fun x => interp_ok F x = true) (interchange_adj_interp_ok F) d i j left d' Hwf Hok Hi).
Qed.

Theorem eval_normal_form_invariant_closed : forall F d fuel left d',
  wf d -> interp_ok F d = true -> normal_form fuel d left = Ok d' ->
  functor_call F d' = functor_call F d.
Proof.
  intros F d fuel left d' Hwf Hok Hn.
  apply (eval_normal_form_invariant_full F d fuel left d' Hwf Hok Hn).
  apply (preserve_nf (fun x => interp_ok F x = true) (interchange_adj_interp_ok F) fuel d left [] d' Hwf Hok Hn).
Qed.

(* these are exactly the statements kept as Definitions in TFunLemmas.v *)
Theorem eval_interchange_invariant_stmt_holds : eval_interchange_invariant_stmt.
Proof. exact eval_interchange_invariant_closed. Qed.
Theorem eval_normal_form_invariant_stmt_holds : eval_normal_form_invariant_stmt.
Proof. exact eval_normal_form_invariant_closed. Qed.
