(* Proofs about the model of tensor.Functor (TFun/TFun.v). *)
From Coq Require Import List ZArith Bool Arith Lia.
Import ListNotations.
Require Import DV.Common.Base DV.Common.ListLemmas DV.Core.Diagram DV.Core.WF DV.Core.DiagramLemmas
  DV.Tensor.NumpyModel DV.Tensor.Tensor DV.Tensor.NumpyLemmas DV.Tensor.TensorLemmas
  DV.Core.Rewriting DV.Core.Rigid DV.TFun.TFun.
Open Scope nat_scope.

(* ------------------------------------------------------------------ numpy level *)
Lemma transpose_id : forall a, length (data a) = size (shape a) ->
  transpose a (seq 0 (ndim a)) = Ok a.
Proof.
  intros a Hok.
  pose proof (moveaxis_prefix_id a 0 Hok (Nat.le_0_l _)) as H.
  unfold moveaxis in H. cbn in H.
  replace (moveaxis_order (ndim a) [] []) with (seq 0 (ndim a)) in H; [exact H|].
  unfold moveaxis_order, sort_by_fst. cbn [combine].
  assert (E : forall m s, flat_map (fun d : nat => filter (fun ds : nat * nat => fst ds =? d) []) (seq s m) = []).
  { induction m; intros; cbn; auto. }
  rewrite E. cbn [fold_left]. symmetry. apply filter_all. reflexivity.
Qed.

Lemma notin_tail : forall p k, notin (p + k) (seq p k) = seq 0 p.
Proof.
  intros. unfold notin. rewrite seq_app, filter_app. cbn [Nat.add].
  rewrite filter_all, filter_none; [apply app_nil_r | |].
  - intros x Hx. apply in_seq in Hx. apply negb_false_iff, mem_true_iff, in_seq. lia.
  - intros x Hx. apply in_seq in Hx. apply negb_true_iff, mem_false_iff. rewrite in_seq. lia.
Qed.

Lemma notin_head : forall k q, notin (k + q) (seq 0 k) = seq k q.
Proof.
  intros. unfold notin. rewrite seq_app, filter_app. cbn [Nat.add].
  rewrite filter_none, filter_all; [reflexivity | |].
  - intros x Hx. apply in_seq in Hx. apply negb_true_iff, mem_false_iff. rewrite in_seq. lia.
  - intros x Hx. apply in_seq in Hx. apply negb_false_iff, mem_true_iff, in_seq. lia.
Qed.

Lemma existsb_seq_false : forall n s k, s + k <= n -> existsb (fun x => n <=? x) (seq s k) = false.
Proof.
  intros. apply not_true_iff_false. rewrite existsb_exists. intros (x & Hx & Hle).
  apply in_seq in Hx. apply Nat.leb_le in Hle. lia.
Qed.

(* contracting the LAST k axes of a with the FIRST k axes of b through explicit
   axes lists is numpy.tensordot(a, b, k): both transpositions are identities *)
Lemma tensordot_axes_tail : forall a b P K Q,
  length (data a) = size (shape a) -> length (data b) = size (shape b) ->
  shape a = P ++ K -> shape b = K ++ Q ->
  tensordot_axes a b (seq (length P) (length K)) (seq 0 (length K)) = tensordot a b (length K).
Proof.
  intros a b P K Q Oa Ob Sa Sb. unfold tensordot_axes.
  rewrite !seq_length, Nat.eqb_refl. cbn [negb].
  assert (Na : ndim a = length P + length K) by (unfold ndim; rewrite Sa, app_length; reflexivity).
  assert (Nb : ndim b = length K + length Q) by (unfold ndim; rewrite Sb, app_length; reflexivity).
  rewrite !existsb_seq_false by lia. cbn [orb].
  rewrite Sa, Sb.
  rewrite (gather_block' 0 (P ++ K) P K [] (length P) (length K)) by (rewrite ?app_nil_r; reflexivity).
  rewrite (gather_block' 0 (K ++ Q) [] K Q 0 (length K)) by reflexivity.
  rewrite list_eqb_nat_refl. cbn [negb].
  rewrite Na, Nb, notin_tail, notin_head, <- !seq_app, <- Na, <- Nb.
  rewrite !transpose_id by assumption. reflexivity.
Qed.

(* moving a block of axes onto itself is the identity *)
Lemma moveaxis_block_id : forall a p c, length (data a) = size (shape a) -> ndim a = p + c ->
  moveaxis a (seq p c) (seq p c) = Ok a.
Proof.
  intros a p c Hok Hn.
  assert (Hb : block_perm (seq p c) p c).
  { split; [apply seq_length|]. intros. apply in_seq. lia. }
  assert (Hext : extend (seq p c) p c 0 = seq 0 (ndim a)).
  { unfold extend. cbn [seq]. rewrite app_nil_r, <- seq_app. f_equal. lia. }
  rewrite moveaxis_spec with (e := 0) (X := shape a).
  - rewrite Hext. f_equal. etransitivity; [|apply (tabulate_get a Hok)].
    apply tabulate_ext. intros idx Hidx. f_equal.
    apply in_shape_length in Hidx. unfold ndim. rewrite <- Hidx. apply gather_id.
  - lia.
  - assumption.
  - unfold ndim in *. lia.
  - rewrite Hext. apply gather_id.
Qed.

Lemma tensordot_shape : forall a b k x, tensordot a b k = Ok x ->
  shape x = firstn (ndim a - k) (shape a) ++ skipn k (shape b).
Proof.
  intros a b k x. unfold tensordot.
  destruct (_ || _); [discriminate|]. destruct (negb _); [discriminate|].
  intros H; inversion H; reflexivity.
Qed.

(* ------------------------------------------------------------------ the compositional meaning *)
(* the tensor a box denotes: swaps, cups and caps by their defining tensors *)
Definition box_tensor (F : finterp) (b : box) : fres tensor :=
  match bk b with
  | KSwap => fdo l <- F_ty F (ty_head (bdom b)); fdo r <- F_ty F (ty_tail (bdom b)); lift (tswap l r)
  | _ => box_image F b
  end.

(* Tensor.id(F left) @ F(box) @ Tensor.id(F right) *)
Definition whisker_of (fl fr : list nat) (b : tensor) : res tensor :=
  do il <- tid fl; do ir <- tid fr; do x <- ttensor il b; ttensor x ir.

Definition whiskerT (F : finterp) (l : layer) : fres tensor :=
  fdo fl <- F_ty F (lleft l); fdo fr <- F_ty F (lright l);
  fdo b <- box_tensor F (lbox l);
  lift (whisker_of fl fr b).

Fixpoint fold_then (F : finterp) (acc : tensor) (ls : list layer) : fres tensor :=
  match ls with
  | [] => FOk acc
  | l :: ls' => fdo w <- whiskerT F l; fdo acc' <- lift (tthen acc w); fold_then F acc' ls'
  end.

(* id(F dom) >> layer_1 >> ... >> layer_n *)
Definition meaning (F : finterp) (d : diagram) : fres tensor :=
  fdo dd <- F_ty F (ddom d); fdo i <- lift (tid dd); fold_then F i (la_ls (dlayers d)).

(* ------------------------------------------------------------------ one contraction step *)
Lemma tok_shape_nonnil : forall t, tok t -> tdom t ++ tcod t <> [] -> shape (tarr t) = tdom t ++ tcod t.
Proof. intros t [S _] H. rewrite S. apply shape_of_nonnil. exact H. Qed.

Lemma tid_entry : forall d c, tid d = Ok c -> forall i j, in_shape i d -> in_shape j d ->
  entry c i j = delta (nat_list_eqb i j).
Proof.
  intros d c H i j Hi Hj. destruct (tid_spec d) as (c' & E & _ & _ & _ & He).
  rewrite E in H. inversion H; subst c'. rewrite He by assumption.
  rewrite list_eqb_ravel by assumption. reflexivity.
Qed.

Lemma in_shape_nil_nil : in_shape [] [].
Proof. apply in_shapeb_iff. reflexivity. Qed.

(* the identity  sum_k A(i, jl ++ k) * B(k, m) = (A ; (1 (x) B))(i, jl ++ m)
   for a box acting on the rightmost wires, in the form the loop computes it *)
Lemma ra_step : forall T TB A D Sl K Q, D <> [] -> K ++ Q <> [] ->
  tok T -> tdom T = D -> tcod T = Sl ++ K -> shape A = D ++ Sl ++ K -> data A = data (tarr T) ->
  tok TB -> tdom TB = K -> tcod TB = Q ->
  exists x T',
    tensordot_axes A (tarr TB) (seq (length D + length Sl) (length K)) (seq 0 (length K)) = Ok x /\
    moveaxis x (seq (ndim x - length Q) (length Q)) (seq (length D + length Sl) (length Q)) = Ok x /\
    (do w <- whisker_of Sl [] TB; tthen T w) = Ok T' /\
    tok T' /\ tdom T' = D /\ tcod T' = Sl ++ Q /\ shape x = D ++ Sl ++ Q /\ data x = data (tarr T').
Proof.
  intros T TB A D Sl K Q HD HKQ HT HTd HTc SA DA HB HBd HBc.
  pose proof HT as [ST LT]. pose proof HB as [SB LB].
  assert (SB' : shape (tarr TB) = K ++ Q) by (rewrite <- HBd, <- HBc; apply tok_shape_nonnil; [assumption|congruence]).
  assert (OA : length (data A) = size (shape A)).
  { rewrite DA, LT, SA, HTd, HTc. reflexivity. }
  assert (OB : length (data (tarr TB)) = size (shape (tarr TB))) by (apply tok_arr_ok; assumption).
  (* the same array seen as a tensor (D ++ Sl) -> K *)
  set (TV := mkT (D ++ Sl) K A).
  assert (HTV : tok TV).
  { split; cbn [tdom tcod tarr TV].
    - rewrite SA, app_assoc. symmetry. apply shape_of_nonnil. destruct D; [congruence|discriminate].
    - rewrite OA, SA, app_assoc. reflexivity. }
  destruct (tthen_spec TV TB HTV HB (eq_sym HBd)) as (R & ER & HR & HRd & HRc & HRe).
  cbn [TV tdom tcod] in HRd, HRe.
  (* what the loop computes *)
  assert (Hax : tensordot_axes A (tarr TB) (seq (length D + length Sl) (length K)) (seq 0 (length K))
                = tensordot A (tarr TB) (length K)).
  { rewrite <- app_length. apply tensordot_axes_tail with (Q := Q); try assumption.
    rewrite SA, app_assoc. reflexivity. }
  unfold tthen in ER. cbn [TV tdom tcod tarr] in ER. rewrite HBd, list_eqb_nat_refl in ER. cbn [negb] in ER.
  destruct (tensordot A (tarr TB) (length K)) as [x|] eqn:Ex; [|discriminate]. cbn [bind] in ER.
  pose proof (tensordot_shape _ _ _ _ Ex) as Sx.
  assert (Sx' : shape x = D ++ Sl ++ Q).
  { rewrite Sx. unfold ndim. rewrite SA, SB', !app_length.
    replace (length D + (length Sl + length K) - length K) with (length (D ++ Sl)) by (rewrite app_length; lia).
    rewrite (app_assoc D Sl K), firstn_app_exact, skipn_app_exact by reflexivity.
    rewrite <- app_assoc. reflexivity. }
  unfold mk_tensor, reshape in ER.
  destruct (size (shape_of (D ++ Sl) (tcod TB)) =? length (data x)) eqn:Esz; [|discriminate].
  cbn [bind] in ER. inversion ER as [ER']. clear ER.
  assert (DxR : data x = data (tarr R)) by (rewrite <- ER'; reflexivity).
  assert (Ox : length (data x) = size (shape x)).
  { apply Nat.eqb_eq in Esz. rewrite <- Esz, size_shape_of, Sx', HBc, app_assoc. reflexivity. }
  (* the specification side *)
  destruct (tid_spec Sl) as (il & Eil & Hil & Hild & Hilc & _).
  destruct (tid_spec []) as (ir & Eir & Hir & Hird & Hirc & _).
  destruct (ttensor_spec il TB Hil HB) as (y & Ey & Hy & Hyd & Hyc & Hye).
  destruct (ttensor_spec y ir Hy Hir) as (w & Ew & Hw & Hwd & Hwc & Hwe).
  assert (Hwd' : tdom w = Sl ++ K) by (rewrite Hwd, Hyd, Hild, Hird, HBd, app_nil_r; reflexivity).
  assert (Hwc' : tcod w = Sl ++ Q) by (rewrite Hwc, Hyc, Hilc, Hirc, HBc, app_nil_r; reflexivity).
  destruct (tthen_spec T w HT Hw) as (T' & ET' & HT' & HT'd & HT'c & HT'e); [congruence|].
  exists x, T'.
  split; [rewrite Hax; reflexivity|].
  split.
  { replace (ndim x - length Q) with (length D + length Sl)
      by (unfold ndim; rewrite Sx', !app_length; lia).
    apply moveaxis_block_id; [assumption|]. unfold ndim. rewrite Sx', !app_length. lia. }
  split.
  { unfold whisker_of. rewrite Eil, Eir. cbn [bind]. rewrite Ey. cbn [bind]. rewrite Ew. cbn [bind]. exact ET'. }
  split; [assumption|]. split; [congruence|]. split; [congruence|]. split; [assumption|].
  rewrite DxR.
  apply data_ext with (sh := D ++ Sl ++ Q).
  { destruct HR as [_ LR]. rewrite LR, HRd, HRc, HBc, app_assoc. reflexivity. }
  { destruct HT' as [_ LT']. rewrite LT', HT'd, HT'c, HTd, Hwc'. reflexivity. }
  intros idx Hidx.
  apply in_shape_app_inv in Hidx. destruct Hidx as (i & j & -> & Hi & Hj).
  apply in_shape_app_inv in Hj. destruct Hj as (jl & jq & -> & Hjl & Hjq).
  (* left: entry R (i ++ jl) jq *)
  assert (EL : nth (ravel (D ++ Sl ++ Q) (i ++ jl ++ jq)) (data (tarr R)) czero = entry R (i ++ jl) jq).
  { unfold entry. rewrite HRd, HRc, HBc, <- !app_assoc. reflexivity. }
  assert (ER2 : nth (ravel (D ++ Sl ++ Q) (i ++ jl ++ jq)) (data (tarr T')) czero = entry T' i (jl ++ jq)).
  { unfold entry. rewrite HT'd, HT'c, HTd, Hwc'. reflexivity. }
  rewrite EL, ER2.
  rewrite HRe by (try apply in_shape_app; try rewrite HBc; assumption).
  rewrite HT'e by (rewrite ?HTd, ?Hwc'; try apply in_shape_app; assumption).
  rewrite HTc, csum_indices_app.
  (* collapse the sum over the left wires with the delta of the identity *)
  transitivity (csum (map (fun ml => cmul (delta (nat_list_eqb jl ml))
       (csum (map (fun mk => cmul (entry T i (ml ++ mk)) (entry TB mk jq)) (indices K)))) (indices Sl))).
  2:{ apply csum_ext. intros ml Hml. apply indices_in_shape in Hml.
      rewrite <- csum_mul_l_map. apply csum_ext. intros mk Hmk. apply indices_in_shape in Hmk.
      assert (Ew2 : entry w (ml ++ mk) (jl ++ jq) = cmul (delta (nat_list_eqb ml jl)) (entry TB mk jq)).
      { rewrite <- (app_nil_r (ml ++ mk)), <- (app_nil_r (jl ++ jq)).
        rewrite Hwe; try (rewrite ?Hyd, ?Hyc, ?Hild, ?Hilc, ?HBd, ?HBc; apply in_shape_app; assumption);
          try (rewrite ?Hird, ?Hirc; apply in_shape_nil_nil).
        rewrite Hye; try (rewrite ?Hild, ?Hilc; assumption); try (rewrite ?HBd, ?HBc; assumption).
        rewrite (tid_entry _ _ Eil) by assumption.
        rewrite (tid_nil_entry _ Eir). ring. }
      rewrite Ew2, (nat_list_eqb_sym ml jl). ring. }
  rewrite sum_delta by assumption.
  apply csum_ext. intros mk Hmk. f_equal.
  unfold entry. cbn [TV tdom tcod tarr]. rewrite HTd, HTc, DA, <- !app_assoc. reflexivity.
Qed.

(* ------------------------------------------------------------------ object map *)
Lemma F_ty_app : forall F a b,
  F_ty F (a ++ b) = fdo x <- F_ty F a; fdo y <- F_ty F b; FOk (x ++ y).
Proof.
  intros F a b. induction a as [|o a IH]; cbn [app F_ty fbind].
  - destruct (F_ty F b); reflexivity.
  - destruct (obj_to_dim F o) as [d|]; cbn [fbind]; [|reflexivity].
    rewrite IH. destruct (F_ty F a) as [x|]; cbn [fbind]; [|reflexivity].
    destruct (F_ty F b) as [y|]; cbn [fbind]; [|reflexivity].
    now rewrite app_assoc.
Qed.

Lemma F_ty_app_ok : forall F a b x y, F_ty F a = FOk x -> F_ty F b = FOk y ->
  F_ty F (a ++ b) = FOk (x ++ y).
Proof. intros. rewrite F_ty_app, H, H0. reflexivity. Qed.

Lemma F_ty_app_inv : forall F a b s, F_ty F (a ++ b) = FOk s ->
  exists x y, F_ty F a = FOk x /\ F_ty F b = FOk y /\ s = x ++ y.
Proof.
  intros F a b s H. rewrite F_ty_app in H.
  destruct (F_ty F a) as [x|]; [|discriminate]. destruct (F_ty F b) as [y|]; [|discriminate].
  cbn in H. inversion H. eauto.
Qed.

Lemma dimF_ok : forall F t s, F_ty F t = FOk s -> dimF F t = FOk (length s).
Proof. intros. unfold dimF. rewrite H. reflexivity. Qed.

(* ------------------------------------------------------------------ slicing the scan at a layer *)
Lemma slice_left : forall (l m r : ty), py_slice (l ++ m ++ r) None (Some (len l)) = l.
Proof.
  intros. rewrite py_slice_prefix by apply len_nonneg. unfold len. rewrite Nat2Z.id.
  apply ListLemmas.firstn_app_exact.
Qed.

Lemma slice_right : forall (l m r : ty),
  py_slice (l ++ m ++ r) (Some (len l + len m)%Z) None = r.
Proof.
  intros. rewrite py_slice_suffix by (pose proof (len_nonneg l); pose proof (len_nonneg m); lia).
  rewrite <- len_app. unfold len. rewrite Nat2Z.id, app_assoc.
  apply ListLemmas.skipn_app_exact.
Qed.

(* ------------------------------------------------------------------ the loop invariant *)
(* a layer the partial theorem covers: a well-shaped, non-scalar box that is not
   a Swap, acting on the rightmost wires *)
Definition layer_ra_ok (F : finterp) (l : layer) : bool :=
  match lright l, bk (lbox l) with
  | _ :: _, _ => false
  | [], KSwap => false
  | [], _ =>
      match box_image F (lbox l), F_ty F (lleft l), F_ty F (bdom (lbox l)), F_ty F (bcod (lbox l)) with
      | FOk t, FOk _, FOk fd, FOk fc =>
          tensor_ok t && nat_list_eqb (tdom t) fd && nat_list_eqb (tcod t) fc
          && negb (nat_list_eqb (fd ++ fc) [])
      | _, _, _, _ => false
      end
  end.

Definition ra_ok (F : finterp) (d : diagram) : bool :=
  match F_ty F (ddom d) with
  | FOk (_ :: _) => forallb (layer_ra_ok F) (la_ls (dlayers d))
  | _ => false
  end.

Lemma box_tensor_not_swap : forall F b, bk b <> KSwap -> box_tensor F b = box_image F b.
Proof. intros F b H. unfold box_tensor. destruct (bk b); congruence. Qed.

Lemma floop_ra : forall F dom0 D, F_ty F dom0 = FOk D -> D <> [] ->
  forall ls scan cod A T S,
  chain scan ls cod -> forallb (layer_ra_ok F) ls = true ->
  F_ty F scan = FOk S ->
  tok T -> tdom T = D -> tcod T = S -> shape A = D ++ S -> data A = data (tarr T) ->
  exists A' T' S',
    floop F dom0 (scan, A) (map lbox ls) (map (fun l => len (lleft l)) ls) = FOk (cod, A') /\
    fold_then F T ls = FOk T' /\ F_ty F cod = FOk S' /\
    tok T' /\ tdom T' = D /\ tcod T' = S' /\ shape A' = D ++ S' /\ data A' = data (tarr T').
Proof.
  intros F dom0 D HD HDn. induction ls as [|l ls IH]; intros scan cod A T S Hc Hok HS HT HTd HTc SA DA.
  - cbn in Hc. subst cod. exists A, T, S. cbn. auto 10.
  - cbn [chain] in Hc. destruct Hc as [Hscan Hc].
    cbn [forallb] in Hok. apply andb_prop in Hok. destruct Hok as [Hl Hok].
    destruct l as [[left b] right]. unfold layer_ra_ok in Hl. cbn [lright lbox lleft fst snd] in Hl.
    destruct right as [|? ?]; [|discriminate].
    assert (Hk : bk b <> KSwap) by (intro E; rewrite E in Hl; discriminate).
    destruct (box_image F b) as [TB|] eqn:EB; [|destruct (bk b); discriminate].
    destruct (F_ty F left) as [Sl|] eqn:El; [|destruct (bk b); discriminate].
    destruct (F_ty F (bdom b)) as [K|] eqn:EK; [|destruct (bk b); discriminate].
    destruct (F_ty F (bcod b)) as [Q|] eqn:EQ; [|destruct (bk b); discriminate].
    assert (Hl' : tensor_ok TB && nat_list_eqb (tdom TB) K && nat_list_eqb (tcod TB) Q
                  && negb (nat_list_eqb (K ++ Q) []) = true) by (destruct (bk b); try discriminate; exact Hl).
    clear Hl. apply andb_prop in Hl'. destruct Hl' as [Hl' Hns].
    apply andb_prop in Hl'. destruct Hl' as [Hl' Hc2].
    apply andb_prop in Hl'. destruct Hl' as [Hok1 Hd2].
    apply tensor_ok_iff in Hok1. apply list_eqb_nat_eq in Hd2. apply list_eqb_nat_eq in Hc2.
    assert (HKQ : K ++ Q <> []).
    { intro E. rewrite E in Hns. cbn in Hns. discriminate. }
    unfold ldom in Hscan. cbn [lleft lbox lright fst snd] in Hscan. rewrite app_nil_r in Hscan.
    assert (HS' : S = Sl ++ K).
    { rewrite Hscan in HS. rewrite (F_ty_app_ok _ _ _ _ _ El EK) in HS. inversion HS. reflexivity. }
    rewrite HS' in HTc, SA. clear HS HS'.
    destruct (ra_step T TB A D Sl K Q HDn HKQ HT HTd HTc SA DA Hok1 Hd2 Hc2)
      as (x & T' & E1 & E2 & E3 & HT' & HT'd & HT'c & Sx & Dx).
    assert (HScod : F_ty F (left ++ bcod b) = FOk (Sl ++ Q)) by (apply F_ty_app_ok; assumption).
    unfold lcod in Hc. cbn [lleft lbox lright fst snd] in Hc. rewrite app_nil_r in Hc.
    destruct (IH (left ++ bcod b) cod x T' (Sl ++ Q) Hc Hok HScod HT' HT'd HT'c Sx Dx)
      as (A' & T'' & S' & L1 & L2 & L3 & L4).
    exists A', T'', S'. split; [|split; [|exact (conj L3 L4)]].
    + cbn [map floop lbox lleft fst snd]. unfold fstep. cbn [fst snd].
      rewrite Hscan.
      pose proof (slice_left left (bdom b) []) as SL. rewrite app_nil_r in SL. rewrite SL.
      pose proof (slice_right left (bdom b) []) as SR. rewrite app_nil_r in SR. rewrite SR.
      rewrite app_nil_r.
      assert (Ek : match bk b with
                   | KSwap => FErr 0%Z
                   | _ => FOk tt end = FOk tt) by (destruct (bk b); congruence).
      replace (dimF F left) with (FOk (A:=nat) (length Sl)) by (symmetry; apply dimF_ok; assumption).
      replace (dimF F dom0) with (FOk (A:=nat) (length D)) by (symmetry; apply dimF_ok; assumption).
      replace (dimF F (bdom b)) with (FOk (A:=nat) (length K)) by (symmetry; apply dimF_ok; assumption).
      replace (dimF F (bcod b)) with (FOk (A:=nat) (length Q)) by (symmetry; apply dimF_ok; assumption).
      rewrite EB.
      destruct (bk b) eqn:Ebk; try congruence; cbn [fbind]; rewrite E1; cbn [lift fbind]; rewrite E2;
        cbn [lift fbind]; exact L1.
    + cbn [fold_then]. unfold whiskerT. cbn [lleft lbox lright fst snd].
      rewrite El. cbn [F_ty fbind]. rewrite box_tensor_not_swap by assumption. rewrite EB. cbn [fbind].
      destruct (whisker_of Sl [] TB) as [w|] eqn:Ew; [|discriminate]. cbn [bind lift fbind] in E3 |- *.
      rewrite E3. cbn [lift fbind]. exact L2.
Qed.

(* ------------------------------------------------------------------ C09, main theorem *)
Definition fok {A} (r : fres A) : bool := match r with FOk _ => true | FErr _ => false end.

(* an interpretation respects the types of a diagram: every box denotes a
   well-formed tensor of the right type, every type on the way has an image *)
Definition box_ok (F : finterp) (b : box) : bool :=
  match box_tensor F b, F_ty F (bdom b), F_ty F (bcod b) with
  | FOk t, FOk fd, FOk fc => tensor_ok t && nat_list_eqb (tdom t) fd && nat_list_eqb (tcod t) fc
  | _, _, _ => false
  end.
Definition layer_ok (F : finterp) (l : layer) : bool :=
  box_ok F (lbox l) && fok (F_ty F (lleft l)) && fok (F_ty F (lright l)).
Definition interp_ok (F : finterp) (d : diagram) : bool :=
  fok (F_ty F (ddom d)) && forallb (layer_ok F) (la_ls (dlayers d)).

(* THE FULL STATEMENT OF C09: proved in TFun/TFunGeneral.v (functor_call_compositional_full);
   functor_call_compositional_ra below is the first, restricted version *)
Definition functor_call_compositional_stmt : Prop :=
  forall F d, wf d -> interp_ok F d = true ->
  exists T, functor_call F d = FOk T /\ meaning F d = FOk T /\ tensor_ok T = true.

Lemma tok_eta : forall T D S, tok T -> tdom T = D -> tcod T = S ->
  mkT D S (mkArr (shape_of D S) (data (tarr T))) = T.
Proof.
  intros [d c [sh da]] D S [Hs _] Hd Hc. cbn in *. subst. reflexivity.
Qed.

Lemma functor_call_compositional_ra : forall F d, wf d -> ra_ok F d = true ->
  exists T, functor_call F d = FOk T /\ meaning F d = FOk T /\ tensor_ok T = true.
Proof.
  intros F d (W1 & W2 & W3 & W4 & W5) Hok. unfold ra_ok in Hok.
  destruct (F_ty F (ddom d)) as [D|] eqn:ED; [|discriminate].
  assert (HDn : D <> []) by (destruct D; [discriminate|congruence]).
  assert (Hok' : forallb (layer_ra_ok F) (la_ls (dlayers d)) = true) by (destruct D; [discriminate|exact Hok]).
  destruct (tid_spec D) as (i & Ei & Hi & Hid & Hic & _).
  unfold la_wf in W3. rewrite W1, W2 in W3.
  assert (Si : shape (tarr i) = D ++ D).
  { pose proof (tok_shape_nonnil i Hi) as Hs. rewrite Hid, Hic in Hs. apply Hs.
    destruct D; [congruence|discriminate]. }
  destruct (floop_ra F (ddom d) D ED HDn (la_ls (dlayers d)) (ddom d) (dcod d) (tarr i) i D
              W3 Hok' ED Hi Hid Hic Si eq_refl)
    as (A' & T' & S' & L1 & L2 & L3 & HT' & HT'd & HT'c & SA' & DA').
  exists T'. split; [|split].
  - unfold functor_call. rewrite ED. cbn [fbind]. rewrite Ei. cbn [lift fbind].
    rewrite W4, W5, L1. cbn [fbind snd]. rewrite L3. cbn [fbind].
    rewrite mk_tensor_ok.
    + cbn [lift]. f_equal. rewrite DA'. apply tok_eta; assumption.
    + rewrite DA'. destruct HT' as [_ LT']. rewrite LT', HT'd, HT'c. reflexivity.
  - unfold meaning. rewrite ED. cbn [fbind]. rewrite Ei. cbn [lift fbind]. exact L2.
  - apply tensor_ok_iff. assumption.
Qed.

(* ------------------------------------------------------------------ daggered boxes *)
Lemma functor_dagger_box : forall F b t,
  bk b = KBox -> bdag b = true ->
  plain_image F (box_dagger b) = FOk t -> tensor_ok t = true ->
  exists c, box_image F b = FOk c /\ tensor_ok c = true /\ tdom c = tcod t /\ tcod c = tdom t /\
    forall i j, in_shapeb i (tdom t) = true -> in_shapeb j (tcod t) = true ->
      entry c j i = cconj (entry t i j).
Proof.
  intros F b t Hk Hd Ht Hok.
  destruct (dagger_is_conj_transpose_b t Hok) as (c & Ec & Hc & Hcd & Hcc & He & _).
  exists c. split; [|auto].
  unfold box_image. rewrite Hk, Hd, Ht. cbn [fbind]. rewrite Ec. reflexivity.
Qed.

(* ------------------------------------------------------------------ sums *)
Lemma ceqb_zero : forall x, ceqb x czero = true -> x = czero.
Proof.
  intros [a b] H. unfold ceqb in H. cbn in H. apply andb_prop in H. destruct H as [H1 H2].
  apply Z.eqb_eq in H1. apply Z.eqb_eq in H2. subst. reflexivity.
Qed.

Lemma all_zero_nth : forall l n, forallb (fun x => ceqb x czero) l = true -> nth n l czero = czero.
Proof.
  induction l as [|x l IH]; intros n H; destruct n; cbn in *; try reflexivity;
    apply andb_prop in H; destruct H as [H1 H2]; [apply ceqb_zero; assumption | apply IH; assumption].
Qed.

Lemma zip_add_length : forall a b, length a = length b -> length (zip_add a b) = length a.
Proof.
  induction a as [|x a IH]; intros [|y b] H; cbn in *; try reflexivity; try discriminate.
  f_equal. apply IH. lia.
Qed.

Lemma zip_add_nth : forall a b n, length a = length b ->
  nth n (zip_add a b) czero = cadd (nth n a czero) (nth n b czero).
Proof.
  induction a as [|x a IH]; intros [|y b] n H; cbn in *; try discriminate.
  - destruct n; reflexivity.
  - destruct n; [reflexivity|]. apply IH. lia.
Qed.

Lemma cadd_zero_r : forall x, cadd x czero = x.
Proof. intros [a b]. unfold cadd. cbn. f_equal; lia. Qed.

(* Tensor.__add__ adds the arrays entry by entry *)
Lemma tadd_spec : forall a b, tensor_ok a = true -> tensor_ok b = true ->
  tdom a = tdom b -> tcod a = tcod b ->
  exists c, tadd a b = Ok c /\ tensor_ok c = true /\ tdom c = tdom a /\ tcod c = tcod a /\
    forall i j, entry c i j = cadd (entry a i j) (entry b i j).
Proof.
  intros a b Ha Hb Ed Ec. unfold tadd.
  destruct (forallb (fun x => ceqb x czero) (data (tarr b))) eqn:Ez.
  - exists a. repeat split; try assumption. intros i j. unfold entry at 3.
    rewrite all_zero_nth by assumption. symmetry. apply cadd_zero_r.
  - rewrite Ed, Ec, !list_eqb_nat_refl. cbn [andb negb].
    apply tensor_ok_iff in Ha. apply tensor_ok_iff in Hb. destruct Ha as [Sa La], Hb as [Sb Lb].
    assert (Hl : length (data (tarr a)) = length (data (tarr b))) by (rewrite La, Lb, Ed, Ec; reflexivity).
    rewrite <- Ed, <- Ec. rewrite mk_tensor_ok by (cbn [data]; rewrite zip_add_length; assumption).
    eexists. split; [reflexivity|]. split; [|split; [reflexivity|split; [reflexivity|]]].
    + apply tensor_ok_iff. apply tok_mk. cbn [data]. rewrite zip_add_length; assumption.
    + intros i j. unfold entry. cbn [tdom tcod tarr data]. rewrite Ed, Ec at 1.
      rewrite <- Ed, <- Ec. apply zip_add_nth. assumption.
Qed.

(* ------------------------------------------------------------------ eval *)
(* the interpretation a program denotes (the `let F := ...` of eval_term) *)
Definition prog_interp (f : nat) (P : fprog) : finterp :=
  FI (prog_ob P)
     (fun b => match env_lookup (p_env P) b with
               | None => FErr other_error
               | Some (DLit d) => FOk (mkArr [length d] d)
               | Some (DSpider n_in n_out dim) =>
                   if (dim <? 1)%Z then FErr (err_code ValueError)
                   else FOk (spider_array (n_in + n_out) (Z.to_nat dim))
               | Some (DTerm j) => fdo t <- eval_term f P j; FOk (tarr t)
               end).

(* Diagram.eval is the functor with the identity object map (an object of a
   tensor diagram is its own dimension) and box.array as box map *)
Lemma eval_is_identity_functor : forall f P dom cod bs offs d,
  p_eval P = true ->
  nth_error (p_terms P) (p_main P) = Some (TmDiag dom cod bs offs) ->
  mk dom cod bs offs = Ok d ->
  eval_term (S f) P (p_main P) = functor_call (prog_interp f P) d /\
  forall n, fob (prog_interp f P) n = FOk [n].
Proof.
  intros f P dom cod bs offs d He Hn Hm. split.
  - cbn [eval_term]. rewrite Hn, Hm. reflexivity.
  - intros n. unfold prog_interp, prog_ob. cbn [fob]. rewrite He. reflexivity.
Qed.

(* ------------------------------------------------------------------ invariance statements *)
(* the invariance clauses; both are PROVED in TFun/TFunMonoidal.v
   (eval_interchange_invariant_stmt_holds, eval_normal_form_invariant_stmt_holds) *)
Definition eval_interchange_invariant_stmt : Prop :=
  forall F d i j left d', wf d -> interp_ok F d = true -> interchange d i j left = Ok d' ->
  functor_call F d' = functor_call F d.
Definition eval_normal_form_invariant_stmt : Prop :=
  forall F d fuel left d', wf d -> interp_ok F d = true -> normal_form fuel d left = Ok d' ->
  functor_call F d' = functor_call F d.

(* ------------------------------------------------------------------ adjoints (F5 repaired upstream, commit 413701f) *)
(* the object map is rigid: F(x.r) = F(x).r and F(x.l) = F(x).l, where .l / .r
   of a Dim reverse it *)
Lemma obj_to_dim_shift : forall F x z' d, Z.odd z' = negb (Z.odd (oz x)) ->
  obj_to_dim F x = FOk d -> obj_to_dim F (Ob (oname x) z') = FOk (rev d).
Proof.
  intros F x z' d Hz H. unfold obj_to_dim in *. cbn [oname oz].
  destruct (fob F (oname x)) as [l|]; [|discriminate]. cbn [fbind] in *.
  destruct (lift (mk_dim l)) as [d0|]; [|discriminate]. cbn [fbind] in *.
  rewrite Hz. inversion H. destruct (Z.odd (oz x)); cbn [negb]; [now rewrite rev_involutive|reflexivity].
Qed.

Lemma obj_to_dim_r : forall F x d, obj_to_dim F x = FOk d -> obj_to_dim F (ob_r x) = FOk (rev d).
Proof.
  intros F x d. apply obj_to_dim_shift. rewrite Z.add_1_r, Z.odd_succ, <- Z.negb_odd. reflexivity.
Qed.

Lemma obj_to_dim_l : forall F x d, obj_to_dim F x = FOk d -> obj_to_dim F (ob_l x) = FOk (rev d).
Proof.
  intros F x d. apply obj_to_dim_shift. rewrite Z.sub_1_r, Z.odd_pred, <- Z.negb_odd. reflexivity.
Qed.

Lemma F_ty_map_rev : forall F (g : ob -> ob),
  (forall x d, obj_to_dim F x = FOk d -> obj_to_dim F (g x) = FOk (rev d)) ->
  forall t s, F_ty F t = FOk s -> F_ty F (map g (rev t)) = FOk (rev s).
Proof.
  intros F g Hg. induction t as [|o t IH]; intros s H; cbn [F_ty rev map] in *.
  - inversion H. reflexivity.
  - destruct (obj_to_dim F o) as [d|] eqn:Eo; [|discriminate]. cbn [fbind] in H.
    destruct (F_ty F t) as [r|] eqn:Et; [|discriminate]. cbn [fbind] in H. inversion H.
    rewrite map_app, rev_app_distr. apply F_ty_app_ok; [apply IH; reflexivity|].
    cbn [map F_ty]. rewrite (Hg o d Eo). cbn [fbind]. rewrite app_nil_r. reflexivity.
Qed.

Lemma functor_adjoint_r : forall F t s, F_ty F t = FOk s -> F_ty F (ty_r t) = FOk (rev s).
Proof. intros F. apply (F_ty_map_rev F ob_r (obj_to_dim_r F)). Qed.

Lemma functor_adjoint_l : forall F t s, F_ty F t = FOk s -> F_ty F (ty_l t) = FOk (rev s).
Proof. intros F. apply (F_ty_map_rev F ob_l (obj_to_dim_l F)). Qed.

(* the former F5 witness, now a regression example: y |-> Dim(3, 2) *)
Definition f5_F : finterp := FI (fun n => if (n =? 2)%Z then FOk [3%Z; 2%Z] else FErr other_error)
                                (fun _ => FErr other_error).
Definition f5_cap : box := Box KCap (-3) [] [Ob 2 0; Ob 2 (-1)] false None.

Example adjoint_example :
  F_ty f5_F [Ob 2 0] = FOk [3; 2] /\ F_ty f5_F (ty_l [Ob 2 0]) = FOk [2; 3] /\
  F_ty f5_F (ty_r [Ob 2 0]) = FOk [2; 3] /\ F_ty f5_F [Ob 2 0; Ob 2 (-1)] = FOk [3; 2; 2; 3].
Proof. repeat split; reflexivity. Qed.

(* ------------------------------------------------------------------ non-vacuity *)
(* x = Dim(2), y = Dim(3);  f : x -> y @ y,  g : x @ y @ y -> 1  (Gaussian entries),
   d = Id(x) @ f >> g  on  x @ x *)
Definition ex_x : ob := Ob 2 0.
Definition ex_y : ob := Ob 3 0.
Definition ex_f : box := Box KBox 1 [ex_x] [ex_y; ex_y] false None.
Definition ex_g : box := Box KBox 2 [ex_x; ex_y; ex_y] [] false None.
Definition ex_gd : box := Box KBox 2 [] [ex_x; ex_y; ex_y] true None.
Definition ex_data (n : nat) (k : Z) : list C :=
  map (fun i => ((Z.of_nat i * k) mod 5 - 2, (Z.of_nat i) mod 3 - 1)%Z) (seq 0 n).
Definition ex_F : finterp :=
  FI (fun n => FOk [n])
     (fun b => if (bname b =? 1)%Z then FOk (mkArr [18] (ex_data 18 3))
               else if (bname b =? 2)%Z then FOk (mkArr [18] (ex_data 18 7))
               else FErr other_error).
Definition ex_d : diagram :=
  match mk [ex_x; ex_x] [] [ex_f; ex_g] [1; 0]%Z with Ok d => d | Err _ => did [] end.

Lemma ex_d_mk : mk [ex_x; ex_x] [] [ex_f; ex_g] [1; 0]%Z = Ok ex_d.
Proof. reflexivity. Qed.

Example compositional_example :
  wf ex_d /\ ra_ok ex_F ex_d = true /\ interp_ok ex_F ex_d = true /\
  exists T, functor_call ex_F ex_d = FOk T /\ meaning ex_F ex_d = FOk T /\
            tdom T = [2; 2] /\ tcod T = [] /\ length (data (tarr T)) = 4.
Proof.
  split; [exact (mk_wf _ _ _ _ _ ex_d_mk)|].
  assert (R : ra_ok ex_F ex_d = true) by (vm_compute; reflexivity).
  split; [exact R|]. split; [vm_compute; reflexivity|].
  destruct (functor_call_compositional_ra ex_F ex_d (mk_wf _ _ _ _ _ ex_d_mk) R) as (T & H1 & H2 & _).
  exists T. split; [exact H1|]. split; [exact H2|].
  assert (E : functor_call ex_F ex_d = FOk T) by exact H1.
  vm_compute in E. inversion E. vm_compute. auto.
Qed.

Example dagger_example :
  bk ex_gd = KBox /\ bdag ex_gd = true /\
  exists t, plain_image ex_F (box_dagger ex_gd) = FOk t /\ tensor_ok t = true /\
            tdom t = [2; 3; 3] /\ in_shapeb [1; 2; 0] (tdom t) = true /\ in_shapeb [] (tcod t) = true.
Proof.
  split; [reflexivity|]. split; [reflexivity|].
  eexists. split; [vm_compute; reflexivity|]. vm_compute. auto.
Qed.

Example sum_example :
  exists a b c, tensor_ok a = true /\ tensor_ok b = true /\ tdom a = tdom b /\ tcod a = tcod b /\
    tadd a b = Ok c /\ entry c [1] [2] = cadd (entry a [1] [2]) (entry b [1] [2]) /\ entry c [1] [2] = (-4, 2)%Z.
Proof.
  exists (mkT [2] [3] (mkArr [2; 3] (ex_data 6 3))), (mkT [2] [3] (mkArr [2; 3] (ex_data 6 7))).
  eexists. vm_compute. repeat split; reflexivity.
Qed.

(* eval on a tensor diagram: the program Id(x) @ f >> g with literal arrays *)
Definition ex_P : fprog :=
  FP true [] [(ex_f, DLit (ex_data 18 3)); (ex_g, DLit (ex_data 18 7))]
     [TmDiag [ex_x; ex_x] [] [ex_f; ex_g] [1; 0]%Z] 0.

Example eval_example :
  p_eval ex_P = true /\
  nth_error (p_terms ex_P) (p_main ex_P) = Some (TmDiag [ex_x; ex_x] [] [ex_f; ex_g] [1; 0]%Z) /\
  ra_ok (prog_interp 49 ex_P) ex_d = true /\
  exists T, run_prog ex_P = FOk T /\ meaning (prog_interp 49 ex_P) ex_d = FOk T.
Proof.
  split; [reflexivity|]. split; [reflexivity|].
  assert (R : ra_ok (prog_interp 49 ex_P) ex_d = true) by (vm_compute; reflexivity).
  split; [exact R|].
  destruct (functor_call_compositional_ra _ ex_d (mk_wf _ _ _ _ _ ex_d_mk) R) as (T & H1 & H2 & _).
  exists T. split; [|exact H2].
  unfold run_prog. rewrite <- H1.
  exact (proj1 (eval_is_identity_functor 49 ex_P _ _ _ _ ex_d eq_refl eq_refl ex_d_mk)).
Qed.
