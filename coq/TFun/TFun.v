(* Model of discopy/tensor.py: class Functor (__call__: Bubble, Sum, Ty via
   obj_to_dim, Cup, Cap, Box / daggered Box, and the single-pass loop over the
   boxes of a diagram with moveaxis for swaps and tensordot + moveaxis for
   boxes), Diagram.eval, Box.array, Spider, Bubble, Tensor.map, Tensor.__add__,
   Tensor.zeros -- on top of the numpy / Tensor models of Tensor/NumpyModel.v
   and Tensor/Tensor.v and of the structural core Core/Diagram.v.

   obj_to_dim follows the repaired code (finding F5 fixed upstream by commit
   413701f): adjoints x.l / x.r go to the reversed image.

   Also: the program DSL of the C09 correspondence check and its wire codec.
   Definitions only; proofs are in TFun/TFunLemmas.v. *)
From Coq Require Import List ZArith Bool Arith Lia.
Import ListNotations.
Require Import DV.Common.Base DV.Core.Diagram DV.Core.Prog
  DV.Tensor.NumpyModel DV.Tensor.Tensor.
Open Scope nat_scope.

(* ------------------------------------------------------------------ outcomes *)
(* Base.err has no KeyError (what a dict functor raises on a missing key) and a
   callable functor may raise anything, so outcomes of this model carry the
   harness's exception-class CODE: err_code e for the classes of Base.err,
   100 for every other class (KeyError included). *)
Inductive fres (A : Type) := FOk (a : A) | FErr (code : Z).
Arguments FOk {A}. Arguments FErr {A}.

Definition fbind {A B} (x : fres A) (f : A -> fres B) : fres B :=
  match x with FOk a => f a | FErr c => FErr c end.
Notation "'fdo' x <- a ; b" := (fbind a (fun x => b))
  (at level 200, x pattern, a at level 100, b at level 200).

Definition lift {A} (r : res A) : fres A :=
  match r with Ok a => FOk a | Err e => FErr (err_code e) end.

Definition other_error : Z := 100%Z.             (* KeyError and friends *)

(* ------------------------------------------------------------------ numpy.tensordot with axes lists *)
(* numpy.tensordot(a, b, (axes_a, axes_b)) for non-negative axes:
     if na != nb or some a.shape[axes_a[k]] != b.shape[axes_b[k]]: ValueError
     (an axis out of range: IndexError from the tuple indexing)
     notin = [k for k in range(nda) if k not in axes_a]; newaxes_a = notin + axes_a
     notin = [k for k in range(ndb) if k not in axes_b]; newaxes_b = axes_b + notin
     at = a.transpose(newaxes_a).reshape(-1, N2); bt = b.transpose(newaxes_b).reshape(N2, -1)
     dot(at, bt).reshape(olda + oldb)
   i.e. transpose both operands, then the integer-k tensordot of NumpyModel.
   TRUSTED MODEL OF AN EXTERNAL LIBRARY, compared with the installed numpy on
   every run of the C09 check (requests with tag 20). *)
Definition notin (n : nat) (axes : list nat) : list nat :=
  filter (fun k => negb (mem k axes)) (seq 0 n).

Definition tensordot_axes (a b : arr) (axa axb : list nat) : res arr :=
  if negb (length axa =? length axb) then Err ValueError else
  if existsb (fun k => ndim a <=? k) axa || existsb (fun k => ndim b <=? k) axb
  then Err IndexError else
  if negb (nat_list_eqb (gather 0 (shape a) axa) (gather 0 (shape b) axb))
  then Err ValueError else
  do at_ <- transpose a (notin (ndim a) axa ++ axa);
  do bt <- transpose b (axb ++ notin (ndim b) axb);
  tensordot at_ bt (length axa).

(* ------------------------------------------------------------------ interpretations *)
(* a tensor.Functor: ob (dict or callable) sends the NAME of an atomic type to
   an int or a Dim -- here the list of ints handed to Dim(...) -- and ar sends a
   box to numpy.array(self.ar[box]); both may raise *)
Record finterp := FI { fob : Z -> fres (list Z); far : box -> fres arr }.

(* obj_to_dim (after the F5 repair, /repo commit 413701f): the image of the
   z = 0 object, as an int -> Dim(int) or a Dim (Dim(...) drops 1s, ValueError
   on < 1), reversed when the winding number is odd:
   `return result.r if winding % 2 else result`  (Python's -1 % 2 == 1) *)
Definition obj_to_dim (F : finterp) (o : ob) : fres (list nat) :=
  fdo l <- fob F (oname o); fdo d <- lift (mk_dim l);
  FOk (if Z.odd (oz o) then rev d else d).

(* Functor.__call__ on a Ty: Dim(1).tensor( *map(obj_to_dim, diagram.objects)) -- the
   star-argument forces every lookup, left to right, before the product *)
Fixpoint F_ty (F : finterp) (t : ty) : fres (list nat) :=
  match t with
  | [] => FOk []
  | o :: t' => fdo d <- obj_to_dim F o; fdo r <- F_ty F t'; FOk (d ++ r)
  end.

(* `def dim(scan): return len(self(scan))` *)
Definition dimF (F : finterp) (t : ty) : fres nat := fdo d <- F_ty F t; FOk (length d).

(* t[:1], t[1:] *)
Definition ty_head (t : ty) : ty := py_slice t None (Some 1%Z).
Definition ty_tail (t : ty) : ty := py_slice t (Some 1%Z) None.

(* the Box branch for a box that is not a dagger:
   Tensor(self(diagram.dom), self(diagram.cod), self.ar[diagram]) *)
Definition plain_image (F : finterp) (b : box) : fres tensor :=
  fdo d <- F_ty F (bdom b); fdo c <- F_ty F (bcod b); fdo a <- far F b;
  lift (mk_tensor d c a).

(* self(box) for a box that is not a Swap: the Cup, Cap and Box branches *)
Definition box_image (F : finterp) (b : box) : fres tensor :=
  match bk b with
  | KCup => fdo l <- F_ty F (ty_head (bdom b)); fdo r <- F_ty F (ty_tail (bdom b));
            lift (tcups l r)
  | KCap => fdo l <- F_ty F (ty_head (bcod b)); fdo r <- F_ty F (ty_tail (bcod b));
            lift (tcaps l r)
  | _ => if bdag b
         then fdo t <- plain_image F (box_dagger b); lift (tdagger t)   (* self(diagram.dagger()).dagger() *)
         else plain_image F b
  end.

(* the `target` comprehension of the Swap branch: p = dim(diagram.dom @ scan[:off]),
   l = dim(box.left), r = dim(box.right), source = range(p, q) *)
Definition fswap_target (p q l r : nat) : list nat :=
  map (fun i => if i <? p + l then i + r else i - l) (seq p (q - p)).

(* one iteration of `for box, off in zip(diagram.boxes, diagram.offsets)` *)
Definition fstep (F : finterp) (dom0 : ty) (st : ty * arr) (b : box) (off : Z) : fres (ty * arr) :=
  let scan := fst st in
  let array := snd st in
  let left := py_slice scan None (Some off) in
  let scan' := left ++ bcod b ++ py_slice scan (Some (off + len (bdom b))%Z) None in
  match bk b with
  | KSwap =>
      fdo p <- dimF F (dom0 ++ left);
      fdo q <- dimF F (dom0 ++ left ++ bdom b);
      fdo l <- dimF F (ty_head (bdom b));                 (* box.left *)
      fdo r <- dimF F (ty_tail (bdom b));                 (* box.right *)
      fdo a' <- lift (moveaxis array (seq p (q - p)) (fswap_target p q l r));
      FOk (scan', a')
  | _ =>
      fdo lf <- dimF F left;
      fdo d0 <- dimF F dom0;
      fdo m <- dimF F (bdom b);
      fdo t <- box_image F b;
      fdo a1 <- lift (tensordot_axes array (tarr t) (seq (d0 + lf) m) (seq 0 m));
      fdo c <- dimF F (bcod b);
      fdo a2 <- lift (moveaxis a1 (seq (ndim a1 - c) c) (seq (d0 + lf) c));
      FOk (scan', a2)
  end.

Fixpoint floop (F : finterp) (dom0 : ty) (st : ty * arr) (bs : list box) (offs : list Z)
  : fres (ty * arr) :=
  match bs, offs with
  | b :: bs', off :: offs' => fdo st' <- fstep F dom0 st b off; floop F dom0 st' bs' offs'
  | _, _ => FOk st
  end.

(* Functor.__call__ on a Diagram that is not a Box (or is a Swap): the loop *)
Definition functor_call (F : finterp) (d : diagram) : fres tensor :=
  fdo dd <- F_ty F (ddom d);
  fdo i <- lift (tid dd);
  fdo st <- floop F (ddom d) (ddom d, tarr i) (dboxes d) (doffs d);
  fdo dd' <- F_ty F (ddom d);
  fdo cc <- F_ty F (dcod d);
  lift (mk_tensor dd' cc (snd st)).

(* Functor.__call__ on a single box: Box branch unless it is a Swap *)
Definition functor_box (F : finterp) (b : box) : fres tensor :=
  match bk b with
  | KSwap => functor_call F (dbox b)
  | _ => box_image F b
  end.

(* ------------------------------------------------------------------ Tensor.map, zeros, __add__ *)
(* Tensor.map: Tensor(dom, cod, list(map(func, self.array.flatten()))) *)
Definition tmap (f : C -> C) (t : tensor) : res tensor :=
  let d := map f (data (tarr t)) in
  mk_tensor (tdom t) (tcod t) (mkArr [length d] d).

(* Tensor.zeros(dom, cod) = Tensor(dom, cod, numpy.zeros(dom @ cod)) *)
Definition tzeros (dom cod : list nat) : res tensor :=
  mk_tensor dom cod (mkArr (dom ++ cod) (repeat czero (size (dom ++ cod)))).

(* Tensor.__add__: `if other == 0: return self` (a Tensor compares equal to 0
   when all its entries are 0, whatever its type), then AxiomError unless
   (dom, cod) agree, then elementwise sum *)
Fixpoint zip_add (a b : list C) : list C :=
  match a, b with
  | x :: a', y :: b' => cadd x y :: zip_add a' b'
  | _, _ => []
  end.

Definition tadd (a b : tensor) : res tensor :=
  if forallb (fun x => ceqb x czero) (data (tarr b)) then Ok a
  else if negb (nat_list_eqb (tdom a) (tdom b) && nat_list_eqb (tcod a) (tcod b))
  then Err AxiomError
  else mk_tensor (tdom a) (tcod a) (mkArr (shape (tarr a)) (zip_add (data (tarr a)) (data (tarr b)))).

(* the small fixed library of Bubble functions *)
Definition bubble_func (code : Z) : option (C -> C) :=
  if (code =? 0)%Z then Some (fun x => if ceqb x czero then cone else czero)   (* lambda x: int(not x) *)
  else if (code =? 1)%Z then Some (fun x => cmul x x)                          (* lambda x: x * x *)
  else if (code =? 2)%Z then Some (fun x => cadd x cone)                       (* lambda x: x + 1 *)
  else None.

(* tensor.Spider(n_legs_in, n_legs_out, dim).data:
     array = numpy.zeros(dom @ cod); for i in range(prod(dim)): array[legs * (i,)] = 1
   with dom @ cod = Dim(dim) ** legs; Dim(1) ** n = Dim() *)
Fixpoint all_eq (i : nat) (idx : list nat) : bool :=
  match idx with [] => true | j :: t => (i =? j) && all_eq i t end.

Definition spider_array (legs : nat) (dim : nat) : arr :=
  if dim =? 1 then mkArr [] [cone]
  else tabulate (repeat dim legs)
         (fun idx => match idx with [] => cone | i :: t => if all_eq i t then cone else czero end).

(* ------------------------------------------------------------------ program DSL *)
(* what self.ar / box.array gives for a box *)
Inductive def :=
| DLit (d : list C)                   (* a flat list of numbers: numpy.array(d) *)
| DSpider (n_in n_out : nat) (dim : Z)   (* a tensor.Spider box: its defining array *)
| DTerm (i : nat).                    (* a Bubble / Sum used as a box: the tensor of term i *)

Inductive term :=
| TmDiag (dom cod : ty) (bs : list box) (offs : list Z)   (* Diagram(dom, cod, boxes, offsets) *)
| TmBox (b : box)                                         (* a single box *)
| TmBubble (func : Z) (inside : nat)                      (* tensor.Bubble(term, func) *)
| TmSum (ts : list nat) (dom cod : ty).                   (* Sum([terms], dom, cod) *)

(* a test case: F(main) for F = tensor.Functor(ob, ar) when p_eval = false,
   main.eval() = Functor(ob=lambda x: x, ar=lambda f: f.array)(main) when true
   (objects of a tensor diagram are named by their dimension) *)
Record fprog := FP {
  p_eval : bool; p_ob : list (Z * list Z); p_env : list (box * def);
  p_terms : list term; p_main : nat }.

Fixpoint ob_lookup (tbl : list (Z * list Z)) (n : Z) : fres (list Z) :=
  match tbl with
  | [] => FErr other_error                                   (* KeyError *)
  | (k, v) :: tbl' => if (k =? n)%Z then FOk v else ob_lookup tbl' n
  end.

Fixpoint env_lookup (env : list (box * def)) (b : box) : option def :=
  match env with
  | [] => None
  | (k, v) :: env' => if box_eqb k b then Some v else env_lookup env' b
  end.

Definition prog_ob (P : fprog) : Z -> fres (list Z) :=
  if p_eval P then (fun n => FOk [n]) else ob_lookup (p_ob P).

Fixpoint tsum (acc : tensor) (ts : list (fres tensor)) : fres tensor :=
  match ts with
  | [] => FOk acc
  | t :: ts' => fdo x <- t; fdo acc' <- lift (tadd acc x); tsum acc' ts'
  end.

Fixpoint eval_term (fuel : nat) (P : fprog) (i : nat) : fres tensor :=
  match fuel with
  | O => FErr (err_code OutOfFuel)
  | S f =>
    let F := FI (prog_ob P)
      (fun b => match env_lookup (p_env P) b with
                | None => FErr other_error                   (* KeyError *)
                | Some (DLit d) => FOk (mkArr [length d] d)
                | Some (DSpider n_in n_out dim) =>
                    if (dim <? 1)%Z then FErr (err_code ValueError)
                    else FOk (spider_array (n_in + n_out) (Z.to_nat dim))
                | Some (DTerm j) => fdo t <- eval_term f P j; FOk (tarr t)
                end) in
    match nth_error (p_terms P) i with
    | None => FErr (err_code BadProgram)
    | Some (TmDiag dom cod bs offs) => fdo d <- lift (mk dom cod bs offs); functor_call F d
    | Some (TmBox b) => functor_box F b
    | Some (TmBubble func j) =>
        (* self(diagram.inside).map(diagram.func) *)
        fdo t <- eval_term f P j;
        match bubble_func func with
        | Some g => lift (tmap g t)
        | None => FErr (err_code BadProgram)
        end
    | Some (TmSum ts dom cod) =>
        (* dom, cod = self(diagram.dom), self(diagram.cod)
           sum(map(self, diagram), Tensor.zeros(dom, cod)) *)
        fdo d <- F_ty F dom; fdo c <- F_ty F cod;
        fdo z <- lift (tzeros d c);
        tsum z (map (eval_term f P) ts)
    end
  end.

Definition run_prog (P : fprog) : fres tensor := eval_term 50 P (p_main P).

(* ------------------------------------------------------------------ codec *)
Definition dec_cs (s : sexp) : res (list C) := do l <- sx_list s; mapM dec_c l.

Definition dec_def (s : sexp) : res def :=
  match s with
  | L [I 0; d] => do d' <- dec_cs d; Ok (DLit d')
  | L [I 1; a; b; I dim] => do a' <- dec_nat a; do b' <- dec_nat b; Ok (DSpider a' b' dim)
  | L [I 2; j] => do j' <- dec_nat j; Ok (DTerm j')
  | _ => Err BadProgram
  end.

Definition dec_term (s : sexp) : res term :=
  match s with
  | L [I 0; dom; cod; bs; offs] =>
      do dom' <- dec_ty dom; do cod' <- dec_ty cod; do bs' <- dec_boxes bs; do offs' <- sx_ints offs;
      Ok (TmDiag dom' cod' bs' offs')
  | L [I 1; b] => do b' <- dec_box b; Ok (TmBox b')
  | L [I 2; I func; j] => do j' <- dec_nat j; Ok (TmBubble func j')
  | L [I 3; js; dom; cod] =>
      do js' <- dec_nats js; do dom' <- dec_ty dom; do cod' <- dec_ty cod; Ok (TmSum js' dom' cod')
  | _ => Err BadProgram
  end.

Definition dec_fprog (s : sexp) : res fprog :=
  match s with
  | L [mode; L obs; L env; L terms; main] =>
      do mode' <- sx_bool mode;
      do obs' <- mapM (fun e => match e with
                                | L [I n; v] => do v' <- sx_ints v; Ok (n, v')
                                | _ => Err BadProgram end) obs;
      do env' <- mapM (fun e => match e with
                                | L [b; d] => do b' <- dec_box b; do d' <- dec_def d; Ok (b', d')
                                | _ => Err BadProgram end) env;
      do terms' <- mapM dec_term terms;
      do main' <- dec_nat main;
      Ok (FP mode' obs' env' terms' main')
  | _ => Err BadProgram
  end.

Definition enc_fres {A} (enc : A -> sexp) (r : fres A) : sexp :=
  match r with
  | FOk v => L [I 0; enc v]
  | FErr c => L [I 1; I c]
  end.

(* the single entry point of the extracted runner:
     (20 a b axes_a axes_b)         numpy.tensordot(a, b, (axes_a, axes_b))
     (30 (mode ob env terms main))  a functor / eval program *)
Definition run_sexp (s : sexp) : sexp :=
  match s with
  | L [I 20; a; b; xa; xb] =>
      enc_fres enc_arr (lift (do a' <- dec_arr a; do b' <- dec_arr b;
                              do xa' <- dec_nats xa; do xb' <- dec_nats xb;
                              tensordot_axes a' b' xa' xb'))
  | L [I 30; p] =>
      match dec_fprog p with
      | Ok P => enc_fres enc_tensor (run_prog P)
      | Err e => L [I 1; I (err_code e)]
      end
  | _ => L [I 1; I (err_code BadProgram)]
  end.
