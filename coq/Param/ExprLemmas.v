(* Proofs about Param/Expr.v: the canonical polynomial arithmetic is
   semantically correct (eval commutes with +, *, ^, substitution), the free
   symbols of a result are among those it may mention, substitution by closed
   values removes the substituted symbol. *)
From Coq Require Import List ZArith Bool Lia QArith Qcanon.
Import ListNotations.
Require Import DV.Common.Base DV.Param.Expr.
Local Open Scope Qc_scope.

(* ------------------------------------------------------------ Qc basics *)
Lemma qc_eqb_true : forall a b, qc_eqb a b = true -> a = b.
Proof.
  intros a b H. unfold qc_eqb in H. apply Qeq_bool_iff in H.
  apply Qc_is_canon. exact H.
Qed.

Lemma qc_is0_true : forall c, qc_is0 c = true -> c = 0.
Proof. intros c H. apply qc_eqb_true. exact H. Qed.

Lemma qpow_add : forall q a b, qpow q (a + b) = qpow q a * qpow q b.
Proof. induction a; intros; simpl; [ring | rewrite IHa; ring]. Qed.

Lemma qpow_1 : forall q, qpow q 1 = q.
Proof. intros; simpl; ring. Qed.

(* ------------------------------------------------------------ monomials *)
Lemma eval_mono_ins : forall rho x e m,
  eval_mono rho (mono_ins x e m) = qpow (rho x) e * eval_mono rho m.
Proof.
  induction m as [|[y f] m IH]; simpl; [reflexivity|].
  destruct (x <? y)%Z; [reflexivity|].
  destruct (x =? y)%Z eqn:E.
  - apply Z.eqb_eq in E; subst. simpl. rewrite qpow_add. ring.
  - simpl. rewrite IH. ring.
Qed.

Lemma eval_mono_ins0 : forall rho x e m,
  eval_mono rho (mono_ins0 x e m) = qpow (rho x) e * eval_mono rho m.
Proof.
  intros. destruct e; [simpl; ring|]. unfold mono_ins0. apply eval_mono_ins.
Qed.

Lemma eval_mono_mul : forall rho a b,
  eval_mono rho (mono_mul a b) = eval_mono rho a * eval_mono rho b.
Proof.
  induction a as [|[x e] a IH]; intros; simpl; [ring|].
  unfold mono_mul in *. rewrite eval_mono_ins0. simpl. rewrite IH. ring.
Qed.

Lemma mono_cmp_eq : forall a b, mono_cmp a b = Eq -> a = b.
Proof.
  induction a as [|[x e] a IH]; destruct b as [|[y f] b]; simpl; intros H;
    try reflexivity; try discriminate.
  destruct (x ?= y)%Z eqn:E1; try discriminate.
  destruct (Nat.compare e f) eqn:E2; try discriminate.
  apply Z.compare_eq in E1. apply Nat.compare_eq in E2. subst.
  f_equal. apply IH. exact H.
Qed.

(* ------------------------------------------------------------ polynomials *)
Lemma eval_poly_ins : forall rho m c p,
  eval_poly rho (poly_ins m c p) = c * eval_mono rho m + eval_poly rho p.
Proof.
  induction p as [|[m' c'] p IH]; simpl; [ring|].
  destruct (mono_cmp m m') eqn:E.
  - apply mono_cmp_eq in E; subst m'.
    destruct (qc_is0 (c + c')) eqn:Z0.
    + apply qc_is0_true in Z0.
      replace (c * eval_mono rho m + (c' * eval_mono rho m + eval_poly rho p))
        with ((c + c') * eval_mono rho m + eval_poly rho p) by ring.
      rewrite Z0. ring.
    + simpl. ring.
  - reflexivity.
  - simpl. rewrite IH. ring.
Qed.

Lemma eval_poly_add_term : forall rho m c p,
  eval_poly rho (poly_add_term m c p) = c * eval_mono rho m + eval_poly rho p.
Proof.
  intros. unfold poly_add_term. destruct (qc_is0 c) eqn:Z0.
  - apply qc_is0_true in Z0. subst. ring.
  - apply eval_poly_ins.
Qed.

Lemma eval_poly_add : forall rho p q,
  eval_poly rho (poly_add p q) = eval_poly rho p + eval_poly rho q.
Proof.
  induction p as [|[m c] p IH]; intros; simpl; [ring|].
  unfold poly_add in *. simpl. rewrite eval_poly_add_term, IH. ring.
Qed.

Lemma eval_poly_scale_mono : forall rho m c q,
  eval_poly rho (poly_scale_mono m c q) = c * eval_mono rho m * eval_poly rho q.
Proof.
  induction q as [|[m' c'] q IH]; simpl; [ring|].
  unfold poly_scale_mono in *. simpl.
  rewrite eval_poly_add_term, eval_mono_mul, IH. ring.
Qed.

Lemma eval_poly_mul : forall rho p q,
  eval_poly rho (poly_mul p q) = eval_poly rho p * eval_poly rho q.
Proof.
  induction p as [|[m c] p IH]; intros; simpl; [ring|].
  unfold poly_mul in *. simpl.
  rewrite eval_poly_add, eval_poly_scale_mono, IH. ring.
Qed.

Lemma eval_poly_const : forall rho c, eval_poly rho (poly_const c) = c.
Proof. intros. unfold poly_const. rewrite eval_poly_add_term. simpl. ring. Qed.

Lemma eval_poly_one : forall rho, eval_poly rho poly_one = 1.
Proof. intros. apply eval_poly_const. Qed.

Lemma eval_poly_var : forall rho x, eval_poly rho (poly_var x) = rho x.
Proof. intros. simpl. ring. Qed.

Lemma eval_poly_pow : forall rho p n,
  eval_poly rho (poly_pow p n) = qpow (eval_poly rho p) n.
Proof.
  induction n; [exact (eval_poly_one rho)|].
  change (poly_pow p (S n)) with (poly_mul p (poly_pow p n)).
  rewrite eval_poly_mul, IHn. reflexivity.
Qed.

Lemma eval_mono_norm : forall rho m, eval_mono rho (mono_norm m) = eval_mono rho m.
Proof. intros. unfold mono_norm. rewrite eval_mono_mul. simpl. ring. Qed.

Lemma eval_poly_norm : forall rho p, eval_poly rho (poly_norm p) = eval_poly rho p.
Proof.
  induction p as [|[m c] p IH]; [reflexivity|].
  change (poly_norm ((m, c) :: p)) with (poly_add_term (mono_norm m) c (poly_norm p)).
  rewrite eval_poly_add_term, eval_mono_norm, IH. reflexivity.
Qed.

(* ------------------------------------------------------------ extensionality *)
Lemma eval_mono_agree : forall rho rho' m,
  (forall y, In y (mono_vars m) -> rho y = rho' y) -> eval_mono rho m = eval_mono rho' m.
Proof.
  induction m as [|[x e] m IH]; intros H; simpl; [reflexivity|].
  rewrite (H x) by (left; reflexivity).
  rewrite IH; [reflexivity|]. intros y Hy. apply H. right. exact Hy.
Qed.

(* the value of an expression depends only on its free symbols *)
Lemma eval_poly_agree : forall rho rho' p,
  (forall y, In y (poly_vars p) -> rho y = rho' y) -> eval_poly rho p = eval_poly rho' p.
Proof.
  induction p as [|[m c] p IH]; intros H; simpl; [reflexivity|].
  rewrite (eval_mono_agree rho rho' m).
  - rewrite IH; [reflexivity|]. intros y Hy. apply H. simpl. apply in_or_app. right. exact Hy.
  - intros y Hy. apply H. simpl. apply in_or_app. left. exact Hy.
Qed.

Lemma eval_poly_ext : forall rho rho' p,
  (forall y, rho y = rho' y) -> eval_poly rho p = eval_poly rho' p.
Proof. intros. apply eval_poly_agree. intros; auto. Qed.

(* ------------------------------------------------------------ substitution *)
Lemma eval_image : forall rho s x, eval_poly rho (image s x) = env_sim rho s x.
Proof.
  intros. unfold image, env_sim. destruct (lookup s x); [reflexivity|]. apply eval_poly_var.
Qed.

Lemma eval_subs_mono : forall rho s m,
  eval_poly rho (subs_mono s m) = eval_mono (env_sim rho s) m.
Proof.
  induction m as [|[x e] m IH]; [exact (eval_poly_one rho)|].
  change (subs_mono s ((x, e) :: m)) with (poly_mul (poly_pow (image s x) e) (subs_mono s m)).
  rewrite eval_poly_mul, eval_poly_pow, eval_image, IH. reflexivity.
Qed.

Theorem eval_subs_sim : forall rho s p,
  eval_poly rho (subs_sim s p) = eval_poly (env_sim rho s) p.
Proof.
  induction p as [|[m c] p IH]; [reflexivity|].
  change (subs_sim s ((m, c) :: p)) with (poly_add (poly_scale_mono [] c (subs_mono s m)) (subs_sim s p)).
  rewrite eval_poly_add, eval_poly_scale_mono, eval_subs_mono, IH. simpl. ring.
Qed.

Theorem eval_subs_one : forall rho x v p,
  eval_poly rho (subs_one x v p) = eval_poly (upd rho x (eval_poly rho v)) p.
Proof.
  intros. unfold subs_one. rewrite eval_subs_sim. apply eval_poly_ext.
  intros y. unfold env_sim, upd. simpl. destruct (y =? x)%Z; reflexivity.
Qed.

Theorem eval_subs_seq : forall s rho p,
  eval_poly rho (subs_seq s p) = eval_poly (env_seq rho s) p.
Proof.
  induction s as [|[x v] s IH]; intros; simpl; [reflexivity|].
  unfold subs_seq in *. simpl. rewrite IH. apply eval_subs_one.
Qed.

(* ------------------------------------------------------------ sets of integers *)
Lemma In_zset_add : forall y x l, In y (zset_add x l) <-> y = x \/ In y l.
Proof.
  induction l as [|z l IH]; simpl.
  - intuition.
  - destruct (x <? z)%Z; simpl; [intuition|].
    destruct (x =? z)%Z eqn:E.
    + apply Z.eqb_eq in E; subst. simpl. intuition.
    + simpl. rewrite IH. intuition.
Qed.

Lemma In_zset_of : forall y l, In y (zset_of l) <-> In y l.
Proof.
  induction l as [|x l IH]; simpl; [reflexivity|].
  unfold zset_of in *. simpl. rewrite In_zset_add, IH. intuition.
Qed.

Lemma In_zset_union : forall y a b, In y (zset_union a b) <-> In y a \/ In y b.
Proof.
  induction a as [|x a IH]; intros; simpl; [intuition|].
  unfold zset_union in *. simpl. rewrite In_zset_add, IH. intuition.
Qed.

Lemma zmem_In : forall x l, zmem x l = true <-> In x l.
Proof.
  intros. unfold zmem. rewrite existsb_exists. split.
  - intros [y [Hy E]]. apply Z.eqb_eq in E. subst. exact Hy.
  - intros H. exists x. split; [exact H | apply Z.eqb_refl].
Qed.

Lemma zset_of_nil : forall l, zset_of l = [] -> l = [].
Proof.
  intros [|x l] H; [reflexivity|]. exfalso.
  assert (In x (zset_of (x :: l))) by (apply In_zset_of; left; reflexivity).
  rewrite H in H0. destruct H0.
Qed.

Lemma fs_In : forall y p, In y (fs p) <-> In y (poly_vars p).
Proof. intros. apply In_zset_of. Qed.

Lemma closed_true : forall p, closed p = true <-> poly_vars p = [].
Proof. intros. unfold closed. destruct (poly_vars p); split; congruence. Qed.

(* ------------------------------------------------------------ symbols of results *)
Lemma mono_ins_vars : forall y x e m,
  In y (mono_vars (mono_ins x e m)) -> y = x \/ In y (mono_vars m).
Proof.
  induction m as [|[z f] m IH]; simpl; intros H.
  - destruct H as [H|[]]; left; auto.
  - destruct (x <? z)%Z; [simpl in H; intuition|].
    destruct (x =? z)%Z eqn:E.
    + simpl in H. intuition.
    + simpl in H. destruct H as [H|H]; [intuition|]. apply IH in H. intuition.
Qed.

Lemma mono_ins0_vars : forall y x e m,
  In y (mono_vars (mono_ins0 x e m)) -> y = x \/ In y (mono_vars m).
Proof. intros y x [|e] m H; [right; exact H | apply mono_ins_vars in H; exact H]. Qed.

Lemma mono_mul_vars : forall y a b,
  In y (mono_vars (mono_mul a b)) -> In y (mono_vars a) \/ In y (mono_vars b).
Proof.
  induction a as [|[x e] a IH]; intros b H; [right; exact H|].
  unfold mono_mul in *. simpl in H. apply mono_ins0_vars in H.
  destruct H as [H|H]; [left; left; auto|]. apply IH in H. simpl. intuition.
Qed.

Lemma poly_ins_vars : forall y m c p,
  In y (poly_vars (poly_ins m c p)) -> In y (mono_vars m) \/ In y (poly_vars p).
Proof.
  induction p as [|[m' c'] p IH]; simpl; intros H.
  - rewrite app_nil_r in H. left; exact H.
  - destruct (mono_cmp m m') eqn:E.
    + destruct (qc_is0 (c + c')).
      * right. apply in_or_app. right. exact H.
      * right. exact H.
    + simpl in H. apply in_app_or in H. destruct H as [H|H]; [left; exact H | right; exact H].
    + simpl in H. apply in_app_or in H. destruct H as [H|H].
      * right. apply in_or_app. left. exact H.
      * apply IH in H. destruct H; [left; auto | right; apply in_or_app; right; auto].
Qed.

Lemma poly_add_term_vars : forall y m c p,
  In y (poly_vars (poly_add_term m c p)) -> In y (mono_vars m) \/ In y (poly_vars p).
Proof.
  intros y m c p H. unfold poly_add_term in H.
  destruct (qc_is0 c); [right; exact H | apply poly_ins_vars in H; exact H].
Qed.

Lemma poly_add_vars : forall y p q,
  In y (poly_vars (poly_add p q)) -> In y (poly_vars p) \/ In y (poly_vars q).
Proof.
  induction p as [|[m c] p IH]; intros q H; [right; exact H|].
  unfold poly_add in *. simpl in H. apply poly_add_term_vars in H. simpl.
  destruct H as [H|H].
  - left. apply in_or_app. left. exact H.
  - apply IH in H. destruct H; [left; apply in_or_app; right; auto | right; auto].
Qed.

Lemma poly_scale_mono_vars : forall y m c q,
  In y (poly_vars (poly_scale_mono m c q)) -> In y (mono_vars m) \/ In y (poly_vars q).
Proof.
  induction q as [|[m' c'] q IH]; intros H; [destruct H|].
  unfold poly_scale_mono in *. simpl in H. apply poly_add_term_vars in H. simpl.
  destruct H as [H|H].
  - apply mono_mul_vars in H. destruct H; [left; auto | right; apply in_or_app; left; auto].
  - apply IH in H. destruct H; [left; auto | right; apply in_or_app; right; auto].
Qed.

Lemma poly_mul_vars : forall y p q,
  In y (poly_vars (poly_mul p q)) -> In y (poly_vars p) \/ In y (poly_vars q).
Proof.
  induction p as [|[m c] p IH]; intros q H; [destruct H|].
  unfold poly_mul in *. simpl in H. apply poly_add_vars in H. simpl.
  destruct H as [H|H].
  - apply poly_scale_mono_vars in H. destruct H; [left; apply in_or_app; left; auto | right; auto].
  - apply IH in H. destruct H; [left; apply in_or_app; right; auto | right; auto].
Qed.

Lemma poly_const_vars : forall c, poly_vars (poly_const c) = [].
Proof.
  intros. unfold poly_const, poly_add_term. destruct (qc_is0 c); reflexivity.
Qed.

Lemma poly_one_vars : poly_vars poly_one = [].
Proof. apply poly_const_vars. Qed.

Lemma poly_pow_vars : forall y p n, In y (poly_vars (poly_pow p n)) -> In y (poly_vars p).
Proof.
  induction n; intros H.
  - change (poly_pow p 0) with poly_one in H. rewrite poly_one_vars in H. destruct H.
  - change (poly_pow p (S n)) with (poly_mul p (poly_pow p n)) in H.
    apply poly_mul_vars in H. destruct H; auto.
Qed.

Lemma subs_mono_vars : forall y s m,
  In y (poly_vars (subs_mono s m)) ->
  exists x, In x (mono_vars m) /\ In y (poly_vars (image s x)).
Proof.
  induction m as [|[x e] m IH]; intros H.
  - change (subs_mono s []) with poly_one in H. rewrite poly_one_vars in H. destruct H.
  - change (subs_mono s ((x, e) :: m)) with (poly_mul (poly_pow (image s x) e) (subs_mono s m)) in H.
    apply poly_mul_vars in H. destruct H as [H|H].
    + apply poly_pow_vars in H. exists x. split; [left; reflexivity | exact H].
    + apply IH in H. destruct H as [x' [H1 H2]]. exists x'. split; [right; exact H1 | exact H2].
Qed.

(* every symbol of a substituted expression comes from the image of a symbol of
   the original expression *)
Theorem subs_sim_vars : forall y s p,
  In y (poly_vars (subs_sim s p)) ->
  exists x, In x (poly_vars p) /\ In y (poly_vars (image s x)).
Proof.
  induction p as [|[m c] p IH]; intros H; [destruct H|].
  change (subs_sim s ((m, c) :: p)) with (poly_add (poly_scale_mono [] c (subs_mono s m)) (subs_sim s p)) in H.
  apply poly_add_vars in H. destruct H as [H|H].
  - apply poly_scale_mono_vars in H. destruct H as [[]|H].
    apply subs_mono_vars in H. destruct H as [x [H1 H2]].
    exists x. split; [simpl; apply in_or_app; left; exact H1 | exact H2].
  - apply IH in H. destruct H as [x [H1 H2]].
    exists x. split; [simpl; apply in_or_app; right; exact H1 | exact H2].
Qed.

Lemma image_unbound : forall y s x, lookup s x = None -> In y (poly_vars (image s x)) -> y = x.
Proof.
  intros y s x E H. unfold image in H. rewrite E in H. simpl in H. intuition.
Qed.

Lemma subs_one_vars : forall y x v p,
  In y (poly_vars (subs_one x v p)) ->
  (In y (poly_vars p) /\ y <> x) \/ (In x (poly_vars p) /\ In y (poly_vars v)).
Proof.
  intros y x v p H. unfold subs_one in H. apply subs_sim_vars in H.
  destruct H as [z [H1 H2]]. unfold image in H2. simpl in H2.
  destruct (z =? x)%Z eqn:E.
  - apply Z.eqb_eq in E. subst. right. split; assumption.
  - simpl in H2. destruct H2 as [H3|[]]. subst. left. split; [exact H1|].
    apply Z.eqb_neq in E. exact E.
Qed.

Lemma subs_one_vars_closed : forall y x v p,
  poly_vars v = [] -> In y (poly_vars (subs_one x v p)) -> In y (poly_vars p) /\ y <> x.
Proof.
  intros y x v p Hc H. apply subs_one_vars in H. destruct H as [H|[_ H]]; [exact H|].
  rewrite Hc in H. destruct H.
Qed.

Theorem subs_seq_vars_closed : forall s y p,
  Forall (fun xv => poly_vars (snd xv) = []) s ->
  In y (poly_vars (subs_seq s p)) -> In y (poly_vars p) /\ ~ In y (map fst s).
Proof.
  induction s as [|[x v] s IH]; intros y p Hc H; [split; [exact H | intros []]|].
  inversion Hc as [|xv s' Hv Hs]; subst. unfold subs_seq in *. simpl in H.
  apply IH in H; [|assumption]. destruct H as [Ha Hb].
  apply subs_one_vars_closed in Ha; [|exact Hv]. destruct Ha as [Ha Hd].
  split; [exact Ha|]. simpl. intros [E|E]; [congruence | contradiction].
Qed.

(* symbols that are not substituted and not introduced stay out *)
Theorem subs_seq_vars : forall s y p,
  In y (poly_vars (subs_seq s p)) ->
  In y (poly_vars p) \/ exists xv, In xv s /\ In y (poly_vars (snd xv)).
Proof.
  induction s as [|[x v] s IH]; intros y p H; [left; exact H|].
  unfold subs_seq in *. simpl in H. apply IH in H. destruct H as [H|[xv [H1 H2]]].
  - apply subs_one_vars in H. destruct H as [[H _]|[_ H]]; [left; exact H|].
    right. exists (x, v). split; [left; reflexivity | exact H].
  - right. exists xv. split; [right; exact H1 | exact H2].
Qed.

(* ------------------------------------------------------------ expressions *)
Definition expr_wf (e : pexpr) : bool := esym e || closed (epoly e).

Lemma expr_fs_In : forall y e, In y (expr_fs e) <-> In y (expr_vars e).
Proof. intros. apply In_zset_of. Qed.

Lemma env_seq_polys_nil : forall rho, env_seq rho (polys_of []) = rho.
Proof. reflexivity. Qed.

(* rsubs on one leaf commutes with evaluation *)
Theorem expr_eval_subs : forall rho s e, expr_wf e = true ->
  expr_eval rho (expr_subs s e) = expr_eval (env_seq rho (polys_of s)) e.
Proof.
  intros rho s e W. unfold expr_subs, expr_eval. destruct (esym e) eqn:E; simpl.
  - apply eval_subs_seq.
  - unfold expr_wf in W. rewrite E in W. simpl in W. apply closed_true in W.
    apply eval_poly_agree. intros y Hy. rewrite W in Hy. destruct Hy.
Qed.

Theorem expr_eval_lambdify : forall rho s e, expr_wf e = true ->
  expr_eval rho (expr_lambdify s e) = expr_eval (env_sim rho (polys_of s)) e.
Proof.
  intros rho s e W. unfold expr_lambdify, expr_eval. destruct (esym e) eqn:E; simpl.
  - apply eval_subs_sim.
  - unfold expr_wf in W. rewrite E in W. simpl in W. apply closed_true in W.
    apply eval_poly_agree. intros y Hy. rewrite W in Hy. destruct Hy.
Qed.

Lemma expr_subs_wf : forall s e, expr_wf e = true -> expr_wf (expr_subs s e) = true.
Proof.
  intros s e W. unfold expr_subs. destruct (esym e) eqn:E; [reflexivity | exact W].
Qed.

Lemma lookup_polys_of : forall s x,
  lookup (polys_of s) x = option_map epoly (lookup s x).
Proof.
  induction s as [|[y v] s IH]; intros; simpl; [reflexivity|].
  destruct (x =? y)%Z; [reflexivity | apply IH].
Qed.

(* a lambdified expression that comes out as a Python number is closed *)
Lemma expr_lambdify_wf : forall s e,
  expr_wf e = true -> Forall (fun xv => expr_wf (snd xv) = true) s ->
  expr_wf (expr_lambdify s e) = true.
Proof.
  intros s e W Ws. unfold expr_lambdify. destruct (esym e) eqn:E; [|exact W].
  unfold expr_wf. simpl.
  destruct (existsb _ (poly_vars (epoly e))) eqn:X; [reflexivity|]. simpl.
  apply closed_true. destruct (poly_vars (subs_sim (polys_of s) (epoly e))) as [|y l] eqn:V; [reflexivity|].
  exfalso. assert (Hy : In y (poly_vars (subs_sim (polys_of s) (epoly e)))) by (rewrite V; left; reflexivity).
  apply subs_sim_vars in Hy. destruct Hy as [x [H1 H2]].
  assert (F := proj1 (Bool.not_true_iff_false _) (fun T => eq_true_false_abs _ T X)).
  rewrite <- Bool.not_true_iff_false in X. apply X. apply existsb_exists.
  exists x. split; [exact H1|].
  unfold image in H2. rewrite lookup_polys_of in H2.
  destruct (lookup s x) as [v|] eqn:Lk; [|reflexivity]. simpl in H2.
  destruct (esym v) eqn:Ev; [reflexivity|]. exfalso.
  assert (Wv : expr_wf v = true).
  { clear - Ws Lk. induction s as [|[z w] s IH]; simpl in Lk; [discriminate|].
    inversion Ws; subst. destruct (x =? z)%Z; [inversion Lk; subst; assumption | apply IH; assumption]. }
  unfold expr_wf in Wv. rewrite Ev in Wv. simpl in Wv. apply closed_true in Wv.
  rewrite Wv in H2. destruct H2.
Qed.

Lemma expr_subs_vars_closed : forall s y e,
  Forall (fun xv => poly_vars (epoly (snd xv)) = []) s ->
  In y (expr_vars (expr_subs s e)) -> In y (expr_vars e) /\ ~ In y (map fst s).
Proof.
  intros s y e Hc H. unfold expr_subs in H. unfold expr_vars in *.
  destruct (esym e) eqn:E; simpl in H.
  - apply subs_seq_vars_closed in H.
    + destruct H as [H1 H2]. split; [exact H1|].
      unfold polys_of in H2. rewrite map_map in H2. simpl in H2. exact H2.
    + clear - Hc. induction Hc; simpl; constructor; auto.
  - rewrite E in H. destruct H.
Qed.

(* ------------------------------------------------------------ non-vacuity *)
Definition q (n : Z) (d : positive) : Qc := Q2Qc (n # d).
(* 2*s1*s2 + s3/3 - 1 *)
Definition ex_poly : poly :=
  poly_add (poly_scale_mono [] (q 2 1) (poly_mul (poly_var 1%Z) (poly_var 2%Z)))
           (poly_add (poly_scale_mono [] (q 1 3) (poly_var 3%Z)) (poly_const (q (-1) 1))).

Example ex_poly_canonical :
  ex_poly = [([], q (-1) 1); ([(1%Z, 1%nat); (2%Z, 1%nat)], q 2 1); ([(3%Z, 1%nat)], q 1 3)].
Proof. vm_compute. reflexivity. Qed.

Example ex_fs : fs ex_poly = [1; 2; 3]%Z.
Proof. vm_compute. reflexivity. Qed.

(* sequential: s1 := s2 + 1, then s2 := 1/2   gives   s3/3 + 1/2 *)
Example ex_subs_seq :
  subs_seq [(1%Z, poly_add (poly_var 2%Z) poly_one); (2%Z, poly_const (q 1 2))] ex_poly
  = [([], q 1 2); ([(3%Z, 1%nat)], q 1 3)].
Proof. vm_compute. reflexivity. Qed.

(* sequential and simultaneous substitution differ when values mention bound symbols *)
Example ex_seq_vs_sim :
  subs_seq [(1%Z, poly_var 2%Z); (2%Z, poly_var 1%Z)] (poly_add (poly_var 1%Z) (poly_scale_mono [] (q 2 1) (poly_var 2%Z)))
  <> subs_sim [(1%Z, poly_var 2%Z); (2%Z, poly_var 1%Z)] (poly_add (poly_var 1%Z) (poly_scale_mono [] (q 2 1) (poly_var 2%Z))).
Proof. vm_compute. discriminate. Qed.
