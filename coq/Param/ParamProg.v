(* Program DSL of the C14 correspondence check, its interpreter over the model
   (`run`) and the wire codec (nested integer lists).  Definitions only.

   request  ::= ((b c d h i j) program)            repair switches (0 / 1), then the program
   program  ::= (0 cls dom cod boxes offs)          diagram literal (class constructor)
              | (1 cls dom cod ((dom cod boxes offs) ...))   formal sum literal
              | (2 dom cod (expr ...))              Tensor literal
              | (3 program form)                    .subs(form)
              | (4 program (sym ...) (expr ...))    .lambdify(syms)(values)
              | (5 program)                         .free_symbols (sorted)
              | (6 program)                         can .eval() digest the parameters?
              | (7 form dom cod (expr ...))         CQMap.subs
   form     ::= (0 sym expr) | (1 ((sym expr) ...))
   box      ::= (kind name dom cod dagger mixed data)
   data     ::= () | (0 expr) | (1 (expr ...))
   expr     ::= (is_sympy ((((sym exp) ...) num den) ...))
   answer   ::= (0 value) | (1 error-code)
   value    ::= (0 dom cod boxes offs) | (1 dom cod ((dom cod boxes offs) ...))
              | (2 dom cod (expr ...)) | (3 (sym ...)) | (4) *)
From Coq Require Import List ZArith Bool Lia QArith Qcanon.
Import ListNotations.
Require Import DV.Common.Base DV.Param.Expr DV.Param.Param.
Open Scope Z_scope.

Inductive prog :=
| PDiag (cls : dclass) (dom cod : ty) (bs : list pbox) (offs : list Z)
| PSum (cls : dclass) (dom cod : ty) (ts : list (ty * ty * list pbox * list Z))
| PTens (t : ptensor)
| PSubs (p : prog) (f : sform)
| PLambdify (p : prog) (syms : list var) (vals : list pexpr)
| PFree (p : prog)
| PEvalStatus (p : prog)
| PCQSubs (f : sform) (t : ptensor).

Inductive value :=
| VD (cls : dclass) (d : pdiagram)
| VS (cls : dclass) (s : psum)
| VT (t : ptensor)
| VSyms (l : list var)
| VUnit.

Fixpoint run (fx : fixes) (p : prog) : xres value :=
  match p with
  | PDiag cls dom cod bs offs => dox d <- mk dom cod bs offs; XOk (VD cls d)
  | PSum cls dom cod ts =>
      dox ds <- xmapM (fun t => match t with (a, b, c, d) => mk a b c d end) ts;
      let s := PS dom cod ds in
      if sum_ok s then XOk (VS cls s) else XErr XAxiom
  | PTens t => XOk (VT t)
  | PSubs q f =>
      dox v <- run fx q;
      match v with
      | VD cls d => dox d' <- dsubs fx cls f d; XOk (VD cls d')
      | VS cls s => dox s' <- sum_subs fx cls f s; XOk (VS cls s')
      | VT t => dox t' <- tensor_subs fx f t; XOk (VT t')
      | _ => XErr XBad
      end
  | PLambdify q syms vals =>
      dox v <- run fx q;
      match v with
      | VD cls d => dox d' <- dlambdify fx cls syms vals d; XOk (VD cls d')
      | VS cls s => dox s' <- sum_lambdify fx cls syms vals s; XOk (VS cls s')
      | VT t => dox t' <- tensor_lambdify syms vals t; XOk (VT t')
      | _ => XErr XBad
      end
  | PFree q =>
      dox v <- run fx q;
      match v with
      | VD _ d => XOk (VSyms (dfree d))
      | VS _ s => XOk (VSyms (sum_free fx s))
      | _ => XErr XBad
      end
  | PEvalStatus q =>
      dox v <- run fx q;
      match v with
      | VD _ d => dox _ <- deval_status d; XOk VUnit
      | _ => XErr XBad
      end
  | PCQSubs f t => dox t' <- cqmap_subs fx f t; XOk (VT t')
  end.

(* ------------------------------------------------------------------ decoding *)
Definition dec_cls (z : Z) : res dclass :=
  if z =? 0 then Ok CCat else if z =? 1 then Ok CMonoidal else if z =? 2 then Ok CRigid
  else if z =? 3 then Ok CTensor else if z =? 4 then Ok CCircuit else if z =? 5 then Ok CZX
  else Err BadProgram.
Definition dec_kind (z : Z) : res pkind :=
  if z =? 0 then Ok KGen else if z =? 1 then Ok KRot else if z =? 2 then Ok KQScalar
  else if z =? 3 then Ok KMixedScalar else if z =? 4 then Ok KSqrt
  else if z =? 5 then Ok KClassical else if z =? 6 then Ok KSpider
  else if z =? 7 then Ok KZScalar else Err BadProgram.
Definition dec_exprs (s : sexp) : res (list pexpr) := do l <- sx_list s; mapM dec_expr l.
Definition dec_data (s : sexp) : res pdata :=
  match s with
  | L [] => Ok DNone
  | L [I 0; e] => do e' <- dec_expr e; Ok (DScalar e')
  | L [I 1; es] => do es' <- dec_exprs es; Ok (DList es')
  | _ => Err BadProgram
  end.
Definition dec_box (s : sexp) : res pbox :=
  match s with
  | L [I k; I n; d; c; dg; mx; dt] =>
      do k' <- dec_kind k; do d' <- sx_ints d; do c' <- sx_ints c;
      do dg' <- sx_bool dg; do mx' <- sx_bool mx; do dt' <- dec_data dt;
      Ok (PB k' n d' c' dg' mx' dt')
  | _ => Err BadProgram
  end.
Definition dec_boxes (s : sexp) : res (list pbox) := do l <- sx_list s; mapM dec_box l.
Definition dec_pairs (s : sexp) : res xsigma :=
  do l <- sx_list s;
  mapM (fun e => match e with
                 | L [I x; v] => do v' <- dec_expr v; Ok (x, v')
                 | _ => Err BadProgram end) l.
Definition dec_form (s : sexp) : res sform :=
  match s with
  | L [I 0; I x; v] => do v' <- dec_expr v; Ok (SSingle x v')
  | L [I 1; ps] => do ps' <- dec_pairs ps; Ok (SList ps')
  | _ => Err BadProgram
  end.
Definition dec_term4 (s : sexp) : res (ty * ty * list pbox * list Z) :=
  match s with
  | L [d; c; bs; offs] =>
      do d' <- sx_ints d; do c' <- sx_ints c; do bs' <- dec_boxes bs; do o' <- sx_ints offs;
      Ok (d', c', bs', o')
  | _ => Err BadProgram
  end.
Fixpoint nodupb (l : list Z) : bool :=
  match l with [] => true | x :: l' => negb (zmem x l') && nodupb l' end.

Fixpoint dec_prog (fuel : nat) (s : sexp) : res prog :=
  match fuel with
  | O => Err BadProgram
  | S k =>
    match s with
    | L [I 0; I c; d; cd; bs; offs] =>
        do c' <- dec_cls c; do d' <- sx_ints d; do cd' <- sx_ints cd;
        do bs' <- dec_boxes bs; do o' <- sx_ints offs; Ok (PDiag c' d' cd' bs' o')
    | L [I 1; I c; d; cd; L ts] =>
        do c' <- dec_cls c; do d' <- sx_ints d; do cd' <- sx_ints cd;
        do ts' <- mapM dec_term4 ts; Ok (PSum c' d' cd' ts')
    | L [I 2; d; cd; es] =>
        do d' <- sx_ints d; do cd' <- sx_ints cd; do es' <- dec_exprs es; Ok (PTens (PT d' cd' es'))
    | L [I 3; p; f] => do p' <- dec_prog k p; do f' <- dec_form f; Ok (PSubs p' f')
    | L [I 4; p; syms; vals] =>
        do p' <- dec_prog k p; do sy <- sx_ints syms; do vs <- dec_exprs vals;
        if nodupb sy then Ok (PLambdify p' sy vs) else Err BadProgram
    | L [I 5; p] => do p' <- dec_prog k p; Ok (PFree p')
    | L [I 6; p] => do p' <- dec_prog k p; Ok (PEvalStatus p')
    | L [I 7; f; d; cd; es] =>
        do f' <- dec_form f; do d' <- sx_ints d; do cd' <- sx_ints cd; do es' <- dec_exprs es;
        Ok (PCQSubs f' (PT d' cd' es'))
    | _ => Err BadProgram
    end
  end.

(* ------------------------------------------------------------------ encoding *)
Definition enc_data (d : pdata) : sexp :=
  match d with
  | DNone => L []
  | DScalar e => L [I 0; enc_expr e]
  | DList es => L [I 1; L (map enc_expr es)]
  end.
Definition enc_box (b : pbox) : sexp :=
  L [I (pkind_code (pk b)); I (pname b); of_ints (pdom b); of_ints (pcod b);
     of_bool (pdag b); of_bool (pmixed b); enc_data (pdat b)].
Definition enc_diag_body (d : pdiagram) : list sexp :=
  [of_ints (ddom d); of_ints (dcod d); L (map enc_box (dboxes d)); of_ints (doffs d)].
Definition enc_value (v : value) : sexp :=
  match v with
  | VD _ d => L (I 0 :: enc_diag_body d)
  | VS _ s => L [I 1; of_ints (sdom s); of_ints (scod s);
                 L (map (fun d => L (enc_diag_body d)) (sterms s))]
  | VT t => L [I 2; of_ints (tdom t); of_ints (tcod t); L (map enc_expr (tents t))]
  | VSyms l => L [I 3; of_ints l]
  | VUnit => L [I 4]
  end.
Definition enc_outcome (r : xres value) : sexp :=
  match r with
  | XOk v => L [I 0; enc_value v]
  | XErr e => L [I 1; I (xerr_code e)]
  end.

Definition dec_fixes (s : sexp) : res fixes :=
  match s with
  | L [b; c; d; h; i; j] =>
      do b' <- sx_bool b; do c' <- sx_bool c; do d' <- sx_bool d;
      do h' <- sx_bool h; do i' <- sx_bool i; do j' <- sx_bool j;
      Ok (FX b' c' d' h' i' j')
  | _ => Err BadProgram
  end.

Definition run_sexp (s : sexp) : sexp :=
  match s with
  | L [sw; p] =>
      match dec_fixes sw, dec_prog 50 p with
      | Ok fx, Ok p' => enc_outcome (run fx p')
      | _, _ => L [I 1; I 8]
      end
  | _ => L [I 1; I 8]
  end.
