(* Proofs about Param/Param.v: what subs / lambdify / free_symbols of the pinned
   DisCoPy code preserve (shapes, types, offsets), when they preserve the
   flags, that substitution commutes with grounding (C14), and the refutation
   witnesses of findings F11a-k. *)
From Coq Require Import List ZArith Bool Lia QArith Qcanon.
Import ListNotations.
Require Import DV.Common.Base DV.Common.ListLemmas DV.Param.Expr DV.Param.ExprLemmas DV.Param.Param.
Open Scope Z_scope.

(* ------------------------------------------------------------ vocabulary *)
Definition same_shape (b b' : pbox) : Prop :=
  pk b' = pk b /\ pname b' = pname b /\ pdom b' = pdom b /\ pcod b' = pcod b.
Definition same_flags (b b' : pbox) : Prop := pdag b' = pdag b /\ pmixed b' = pmixed b.
Definition no_flag_trigger (fx : fixes) (cls : dclass) (vars : list var) (d : pdiagram) : bool :=
  forallb (fun b => negb (f11b_box fx cls vars b) && negb (f11c_box fx b)) (dboxes d).
Definition closing (s : xsigma) : Prop := Forall (fun xv => poly_vars (epoly (snd xv)) = []) s.

(* the witnesses of the repairable findings, shared by the `_refuted` (pinned)
   and `_fixed` (repaired) lemmas *)
Definition wit_form : sform := SSingle 1 (PE false (poly_const (Q2Qc 2))).
(* F11b: scalar(s1, is_mixed=True) *)
Definition wit_f11b_scalar : pbox := PB KQScalar 0 [] [] false true (DScalar (PE true (poly_var 1))).
(* F11b: a pure circuit.Box with data s1 *)
Definition wit_f11b_pure : pbox := PB KGen 0 [2] [2] false false (DScalar (PE true (poly_var 1))).
(* F11c: ClassicalGate(..., data=[s1]).dagger() *)
Definition wit_f11c_gate : pbox := PB KClassical 0 [1] [1] true false (DList [PE true (poly_var 1)]).
(* F11h: Bits(0) *)
Definition wit_f11h_bits : pdiagram := PD [] [1] [PB KClassical 7 [] [1] false false DNone] [0].
(* F11i / F11j: the Sum of the single term Box(data=s1) *)
Definition wit_f11i_sum : psum :=
  PS [] [] [PD [] [] [PB KGen 0 [] [] false false (DScalar (PE true (poly_var 1)))] [0]].

(* ------------------------------------------------------------ list helpers *)
Lemma ty_eqb_eq : forall a b, ty_eqb a b = true <-> a = b.
Proof. intros. unfold ty_eqb. apply list_eqb_eq. intros; apply Z.eqb_eq. Qed.

Lemma ty_eqb_refl : forall a, ty_eqb a a = true.
Proof. intros. apply ty_eqb_eq. reflexivity. Qed.

Lemma xmapM_Forall2 : forall {A B} (f : A -> xres B) l l',
  xmapM f l = XOk l' -> Forall2 (fun a b => f a = XOk b) l l'.
Proof.
  induction l as [|x l IH]; intros l' H.
  - cbn in H. inversion H. constructor.
  - cbn [xmapM] in H. destruct (f x) as [y|e] eqn:E; cbn [xbind] in H; [|discriminate].
    destruct (xmapM f l) as [ys|e] eqn:E2; cbn [xbind] in H; [|discriminate].
    inversion H; subst. constructor; [exact E | apply IH; reflexivity].
Qed.

Lemma xmapM_total : forall {A B} (f : A -> xres B) l,
  (forall a, In a l -> exists b, f a = XOk b) -> exists l', xmapM f l = XOk l'.
Proof.
  induction l as [|x l IH]; intros H.
  - exists []. reflexivity.
  - destruct (H x (or_introl eq_refl)) as [y Hy].
    destruct IH as [ys Hys]. { intros a Ha. apply H. right. exact Ha. }
    exists (y :: ys). cbn [xmapM]. rewrite Hy. cbn [xbind]. rewrite Hys. reflexivity.
Qed.

Lemma Forall2_length_eq : forall {A B} (R : A -> B -> Prop) l l',
  Forall2 R l l' -> length l' = length l.
Proof. induction 1; cbn; congruence. Qed.

Lemma Forall2_mono_in : forall {A B} (R R' : A -> B -> Prop) l l',
  Forall2 R l l' -> (forall a b, In a l -> R a b -> R' a b) -> Forall2 R' l l'.
Proof.
  induction 1 as [|a b l l' Hab Hl IH]; intros H; constructor.
  - apply H; [left; reflexivity | exact Hab].
  - apply IH. intros a' b' Ha. apply H. right. exact Ha.
Qed.

Lemma Forall2_In_r : forall {A B} (R : A -> B -> Prop) l l' b,
  Forall2 R l l' -> In b l' -> exists a, In a l /\ R a b.
Proof.
  induction 1 as [|a0 b0 l l' Hab Hl IH]; intros Hb; [destruct Hb|].
  destruct Hb as [Hb|Hb].
  - subst. exists a0. split; [left; reflexivity | exact Hab].
  - destruct (IH Hb) as [a [Ha Hr]]. exists a. split; [right; exact Ha | exact Hr].
Qed.

Lemma Forall2_map_eq : forall {A B C} (R : A -> B -> Prop) (g : B -> C) (h : A -> C) l l',
  Forall2 R l l' -> (forall a b, In a l -> R a b -> g b = h a) -> map g l' = map h l.
Proof.
  induction 1 as [|a b l l' Hab Hl IH]; intros H; [reflexivity|].
  cbn [map]. f_equal.
  - apply H; [left; reflexivity | exact Hab].
  - apply IH. intros a' b' Ha. apply H. right. exact Ha.
Qed.

Lemma Forall2_map_eq2 : forall {A B C} (R1 R2 : A -> B -> Prop) (g : B -> C) l l1,
  Forall2 R1 l l1 -> forall l2, Forall2 R2 l l2 ->
  (forall a b c, In a l -> R1 a b -> R2 a c -> g b = g c) -> map g l1 = map g l2.
Proof.
  induction 1 as [|a b l l1 Hab Hl IH]; intros l2 H2 H; inversion H2; subst; [reflexivity|].
  cbn [map]. f_equal.
  - eapply H; [left; reflexivity | exact Hab | eassumption].
  - apply IH; [assumption|]. intros a' b' c' Ha. apply H. right. exact Ha.
Qed.

Lemma forallb_In : forall {A} (p : A -> bool) l a, forallb p l = true -> In a l -> p a = true.
Proof. intros A p l a H Ha. rewrite forallb_forall in H. apply H. exact Ha. Qed.

Lemma nil_if_no_In : forall {A} (l : list A), (forall y, ~ In y l) -> l = [].
Proof. intros A [|x l] H; [reflexivity|]. exfalso. apply (H x). left. reflexivity. Qed.

(* ------------------------------------------------------------ 1. shapes *)
Lemma box_subs_shape_l : forall fx cls f b b', box_subs fx cls f b = XOk b' -> same_shape b b'.
Proof.
  intros fx cls f b b' H. unfold box_subs in H. unfold same_shape.
  destruct (pk b) eqn:K;
    repeat match type of H with
           | context [if ?c then _ else _] => destruct c
           | context [match pdat b with _ => _ end] => destruct (pdat b)
           end;
    inversion H; subst; cbn; rewrite ?K; auto.
Qed.

Lemma box_lambdify_shape_l : forall fx cls syms vals b b',
  box_lambdify fx cls syms vals b = XOk b' -> same_shape b b'.
Proof.
  intros fx cls syms vals b b' H. unfold box_lambdify in H. unfold same_shape.
  destruct (pk b) eqn:K;
    repeat match type of H with
           | context [if ?c then _ else _] => destruct c
           | context [match pdat b with _ => _ end] => destruct (pdat b)
           end;
    inversion H; subst; cbn; rewrite ?K; auto.
Qed.

(* ------------------------------------------------------------ 2. flags *)
Lemma box_subs_flags_l : forall fx cls f b b',
  box_wf b = true -> f11b_box fx cls (form_vars f) b = false -> f11c_box fx b = false ->
  box_subs fx cls f b = XOk b' -> same_flags b b'.
Proof.
  intros fx cls f b b' W B C H.
  unfold box_wf in W. apply andb_prop in W. destruct W as [_ W].
  unfold box_subs in H. unfold f11b_box in B. unfold f11c_box in C. unfold same_flags.
  destruct (pk b) eqn:K.
  - (* KGen *)
    destruct (guard (form_vars f) b) eqn:G.
    + inversion H; subst. unfold rebuild_gen; cbn [pdag pmixed]. split; [reflexivity|].
      destruct (fx_b fx); [reflexivity|].
      destruct cls; try reflexivity. cbn in B. destruct (pmixed b); [reflexivity | discriminate].
    + inversion H; subst. split; reflexivity.
  - inversion H; subst. unfold rebuild_param; cbn [pdag pmixed]. rewrite K.
    destruct (pdag b), (pmixed b); cbn in W; try discriminate; split; reflexivity.
  - inversion H; subst. unfold rebuild_param; cbn [pdag pmixed]. rewrite K.
    destruct (fx_b fx), (pdag b), (pmixed b); cbn in W, B; try discriminate; split; reflexivity.
  - inversion H; subst. unfold rebuild_param; cbn [pdag pmixed]. rewrite K.
    destruct (pdag b), (pmixed b); cbn in W; try discriminate; split; reflexivity.
  - inversion H; subst. unfold rebuild_param; cbn [pdag pmixed]. rewrite K.
    destruct (pdag b), (pmixed b); cbn in W; try discriminate; split; reflexivity.
  - assert (Hb' : b' = b \/ exists d', b' = rebuild_classical fx b d').
    { destruct (pdat b); [destruct (fx_h fx); [left; congruence | discriminate] | |];
        right; eexists; inversion H; reflexivity. }
    destruct Hb' as [Hb'|[d' Hb']]; subst b'; [split; reflexivity|].
    unfold rebuild_classical; cbn [pdag pmixed].
    destruct (fx_c fx), (pdag b), (pmixed b); cbn in W, C; try discriminate; split; reflexivity.
  - inversion H; subst. unfold rebuild_spider; cbn [pdag pmixed].
    destruct (pdag b), (pmixed b); cbn in W; try discriminate; split; reflexivity.
  - inversion H; subst. unfold rebuild_spider; cbn [pdag pmixed].
    destruct (pdag b), (pmixed b); cbn in W; try discriminate; split; reflexivity.
Qed.

(* ------------------------------------------------------------ 3. dmap *)
Lemma scan_shape : forall bs bs',
  Forall2 (fun b b' => pdom b' = pdom b /\ pcod b' = pcod b) bs bs' ->
  forall t offs, scan t bs' offs = scan t bs offs.
Proof.
  induction 1 as [|b b' bs bs' [Hd Hc] Hl IH]; intros t offs; [reflexivity|].
  destruct offs as [|off offs]; [reflexivity|].
  cbn [scan]. rewrite Hd, Hc.
  destruct (negb _); [reflexivity|].
  destruct (ty_eqb _ _); [apply IH | reflexivity].
Qed.

Lemma wf_inv : forall d, wf d = true ->
  len (dboxes d) = len (doffs d) /\ scan (ddom d) (dboxes d) (doffs d) = XOk (dcod d).
Proof.
  intros d W. unfold wf in W. apply andb_prop in W. destruct W as [L S].
  apply Z.eqb_eq in L. split; [exact L|].
  destruct (scan (ddom d) (dboxes d) (doffs d)) as [t|e]; [|discriminate].
  apply ty_eqb_eq in S. subst. reflexivity.
Qed.

Lemma dmap_spec_l : forall step d d',
  wf d = true ->
  (forall b b', step b = XOk b' -> same_shape b b') ->
  dmap step d = XOk d' ->
  ddom d' = ddom d /\ dcod d' = dcod d /\ doffs d' = doffs d /\
  Forall2 (fun b b' => step b = XOk b') (dboxes d) (dboxes d') /\ wf d' = true.
Proof.
  intros step d d' W Hs H. apply wf_inv in W. destruct W as [L S].
  unfold dmap in H. destruct (xmapM step (dboxes d)) as [bs|e] eqn:E; cbn [xbind] in H; [|discriminate].
  apply xmapM_Forall2 in E.
  assert (Sh : Forall2 (fun b b' => pdom b' = pdom b /\ pcod b' = pcod b) (dboxes d) bs).
  { eapply Forall2_mono_in; [exact E|]. intros a b _ Hab. apply Hs in Hab.
    destruct Hab as [_ [_ [H1 H2]]]. split; assumption. }
  rewrite (scan_shape _ _ Sh), S in H. cbn [xbind] in H. inversion H; subst d'. cbn.
  repeat split; try assumption.
  unfold wf. cbn. rewrite (scan_shape _ _ Sh), S, ty_eqb_refl, andb_true_r.
  apply Z.eqb_eq. rewrite <- L. unfold len. rewrite (Forall2_length_eq _ _ _ E). reflexivity.
Qed.

Lemma dmap_total_l : forall step d,
  wf d = true ->
  (forall b b', step b = XOk b' -> same_shape b b') ->
  (forall b, In b (dboxes d) -> exists b', step b = XOk b') ->
  exists d', dmap step d = XOk d'.
Proof.
  intros step d W Hs Ht. apply wf_inv in W. destruct W as [L S].
  destruct (xmapM_total step (dboxes d) Ht) as [bs E].
  unfold dmap. rewrite E. cbn [xbind].
  apply xmapM_Forall2 in E.
  assert (Sh : Forall2 (fun b b' => pdom b' = pdom b /\ pcod b' = pcod b) (dboxes d) bs).
  { eapply Forall2_mono_in; [exact E|]. intros a b _ Hab. apply Hs in Hab.
    destruct Hab as [_ [_ [H1 H2]]]. split; assumption. }
  rewrite (scan_shape _ _ Sh), S. cbn [xbind]. eexists. reflexivity.
Qed.

(* ------------------------------------------------------------ 4. subs / lambdify keep the diagram's shape *)
Lemma dwf_inv : forall d, dwf d = true ->
  wf d = true /\ forall b, In b (dboxes d) -> box_wf b = true.
Proof.
  intros d W. unfold dwf in W. apply andb_prop in W. destruct W as [W1 W2].
  split; [exact W1|]. intros b Hb. eapply forallb_In; eassumption.
Qed.

Lemma subs_preserves_dom_cod_kinds_l : forall fx cls f d d',
  wf d = true -> dsubs fx cls f d = XOk d' ->
  ddom d' = ddom d /\ dcod d' = dcod d /\ doffs d' = doffs d /\
  Forall2 same_shape (dboxes d) (dboxes d') /\ wf d' = true.
Proof.
  intros fx cls f d d' W H. unfold dsubs in H.
  destruct (dmap_spec_l _ _ _ W (box_subs_shape_l fx cls f) H) as [H1 [H2 [H3 [H4 H5]]]].
  repeat split; try assumption.
  eapply Forall2_mono_in; [exact H4|]. intros a b _ Hab. eapply box_subs_shape_l; exact Hab.
Qed.

Lemma lambdify_preserves_dom_cod_kinds_l : forall fx cls syms vals d d',
  wf d = true -> dlambdify fx cls syms vals d = XOk d' ->
  ddom d' = ddom d /\ dcod d' = dcod d /\ doffs d' = doffs d /\
  Forall2 same_shape (dboxes d) (dboxes d') /\ wf d' = true.
Proof.
  intros fx cls syms vals d d' W H. unfold dlambdify in H.
  destruct (dmap_spec_l _ _ _ W (box_lambdify_shape_l fx cls syms vals) H) as [H1 [H2 [H3 [H4 H5]]]].
  repeat split; try assumption.
  eapply Forall2_mono_in; [exact H4|]. intros a b _ Hab. eapply box_lambdify_shape_l; exact Hab.
Qed.

Lemma no_flag_trigger_inv : forall fx cls vars d b,
  no_flag_trigger fx cls vars d = true -> In b (dboxes d) ->
  f11b_box fx cls vars b = false /\ f11c_box fx b = false.
Proof.
  intros fx cls vars d b H Hb. unfold no_flag_trigger in H.
  apply (forallb_In _ _ _ H) in Hb. apply andb_prop in Hb. destruct Hb as [H1 H2].
  apply negb_true_iff in H1. apply negb_true_iff in H2. split; assumption.
Qed.

Lemma subs_preserves_flags_l : forall fx cls f d d',
  dwf d = true -> no_flag_trigger fx cls (form_vars f) d = true ->
  dsubs fx cls f d = XOk d' -> Forall2 same_flags (dboxes d) (dboxes d').
Proof.
  intros fx cls f d d' W N H. apply dwf_inv in W. destruct W as [W Wb]. unfold dsubs in H.
  destruct (dmap_spec_l _ _ _ W (box_subs_shape_l fx cls f) H) as [_ [_ [_ [H4 _]]]].
  eapply Forall2_mono_in; [exact H4|]. intros a b Ha Hab.
  destruct (no_flag_trigger_inv _ _ _ _ _ N Ha) as [N1 N2].
  eapply box_subs_flags_l; [apply Wb; exact Ha | exact N1 | exact N2 | exact Hab].
Qed.

Lemma subs_flags_refuted_mixed_l : exists f b b',
  box_wf b = true /\ box_subs pinned CCircuit f b = XOk b' /\ pmixed b = true /\ pmixed b' = false.
Proof.
  exists wit_form. exists wit_f11b_scalar. eexists. repeat split.
Qed.

Lemma subs_flags_refuted_pure_l : exists f b b',
  box_wf b = true /\ box_subs pinned CCircuit f b = XOk b' /\ pmixed b = false /\ pmixed b' = true.
Proof.
  exists wit_form. exists wit_f11b_pure. eexists. repeat split.
Qed.

Lemma subs_flags_refuted_dagger_l : exists f b b',
  box_wf b = true /\ box_subs pinned CCircuit f b = XOk b' /\ pdag b = true /\ pdag b' = false.
Proof.
  exists wit_form. exists wit_f11c_gate. eexists. repeat split.
Qed.

(* ------------------------------------------------------------ 5. totality *)
Lemma box_subs_total : forall fx cls f b, f11h_box fx b = false -> exists b', box_subs fx cls f b = XOk b'.
Proof.
  intros fx cls f b H. unfold f11h_box in H. unfold box_subs.
  destruct (pk b); try (eexists; reflexivity).
  - destruct (guard (form_vars f) b); eexists; reflexivity.
  - destruct (pdat b); [|eexists; reflexivity|eexists; reflexivity].
    destruct (fx_h fx); [eexists; reflexivity | discriminate].
Qed.

Lemma subs_total_l : forall fx cls f d,
  wf d = true -> forallb (fun b => negb (f11h_box fx b)) (dboxes d) = true ->
  exists d', dsubs fx cls f d = XOk d'.
Proof.
  intros fx cls f d W H. unfold dsubs. apply dmap_total_l; [exact W | apply box_subs_shape_l |].
  intros b Hb. apply box_subs_total. apply (forallb_In _ _ _ H) in Hb.
  apply negb_true_iff in Hb. exact Hb.
Qed.

Lemma subs_refuted_none_data_l : exists d,
  dwf d = true /\ forall f, dsubs pinned CCircuit f d = XErr XAttribute.
Proof.
  exists wit_f11h_bits. split; [reflexivity|]. intros f. reflexivity.
Qed.

(* ------------------------------------------------------------ 6. free symbols *)
Lemma free_symbols_exact_l : forall d x,
  In x (dfree d) <-> exists b, In b (dboxes d) /\ In x (data_vars (pdat b)).
Proof.
  intros d x. unfold dfree. rewrite In_zset_of, in_flat_map.
  split; intros [b [Hb Hx]]; exists b; (split; [exact Hb|]); unfold box_fs in *.
  - apply (proj1 (In_zset_of _ _)). exact Hx.
  - apply (proj2 (In_zset_of _ _)). exact Hx.
Qed.

Lemma data_vars_In : forall y d,
  In y (data_vars d) <-> exists e, In e (data_exprs d) /\ In y (expr_vars e).
Proof. intros. unfold data_vars. apply in_flat_map. Qed.

Lemma expr_eval_agree : forall rho rho' e, expr_wf e = true ->
  (forall y, In y (expr_vars e) -> rho y = rho' y) -> expr_eval rho e = expr_eval rho' e.
Proof.
  intros rho rho' e W H. unfold expr_eval. apply eval_poly_agree. intros y Hy.
  unfold expr_vars in H. unfold expr_wf in W. destruct (esym e).
  - apply H. exact Hy.
  - cbn in W. apply closed_true in W. rewrite W in Hy. destruct Hy.
Qed.

Lemma ground_data_ext : forall rho rho' d,
  (forall e, In e (data_exprs d) -> expr_eval rho e = expr_eval rho' e) ->
  ground_data rho d = ground_data rho' d.
Proof.
  intros rho rho' [|e|es] H; cbn [ground_data].
  - reflexivity.
  - rewrite (H e); [reflexivity | left; reflexivity].
  - f_equal. apply map_ext_in. intros e He. apply H. exact He.
Qed.

Lemma data_wf_In : forall d e, data_wf d = true -> In e (data_exprs d) -> expr_wf e = true.
Proof. intros d e W He. unfold data_wf in W. apply (forallb_In _ _ _ W) in He. exact He. Qed.

Lemma box_wf_data : forall b, box_wf b = true -> data_wf (pdat b) = true.
Proof. intros b W. unfold box_wf in W. apply andb_prop in W. tauto. Qed.

Lemma ground_data_agree : forall rho rho' d, data_wf d = true ->
  (forall y, In y (data_vars d) -> rho y = rho' y) -> ground_data rho d = ground_data rho' d.
Proof.
  intros rho rho' d W H. apply ground_data_ext. intros e He.
  apply expr_eval_agree; [eapply data_wf_In; eassumption|].
  intros y Hy. apply H. apply data_vars_In. exists e. split; assumption.
Qed.

Lemma free_symbols_sound_l : forall d rho rho',
  dwf d = true -> (forall x, In x (dfree d) -> rho x = rho' x) -> ground rho d = ground rho' d.
Proof.
  intros d rho rho' W H. apply dwf_inv in W. destruct W as [_ Wb].
  unfold ground. f_equal. apply map_ext_in. intros b Hb. unfold ground_box. f_equal.
  apply ground_data_agree; [apply box_wf_data; apply Wb; exact Hb|].
  intros y Hy. apply H. apply free_symbols_exact_l. exists b. split; assumption.
Qed.

Lemma sum_free_refuted_l : exists s,
  sum_ok s = true /\ sum_free_expected s <> [] /\ sum_free pinned s = [].
Proof.
  exists wit_f11i_sum. split; [reflexivity|]. split; [|reflexivity]. vm_compute. discriminate.
Qed.

(* ------------------------------------------------------------ 7. substituted symbols disappear *)
Lemma data_exprs_map : forall g d, data_exprs (data_map g d) = map g (data_exprs d).
Proof. intros g [|e|es]; reflexivity. Qed.

Lemma guard_false : forall vars b y,
  guard vars b = false -> In y (data_vars (pdat b)) -> ~ In y vars.
Proof.
  intros vars b y G Hy Hv. unfold guard in G.
  assert (T : existsb (fun x => zmem x (box_fs b)) vars = true).
  { apply existsb_exists. exists y. split; [exact Hv|]. apply zmem_In. unfold box_fs.
    apply In_zset_of. exact Hy. }
  congruence.
Qed.

Lemma guard_true : forall vars b,
  guard vars b = true -> exists y, In y vars /\ In y (data_vars (pdat b)).
Proof.
  intros vars b G. unfold guard in G. apply existsb_exists in G. destruct G as [y [Hv Hy]].
  exists y. split; [exact Hv|]. apply (proj1 (zmem_In _ _)) in Hy. unfold box_fs in Hy.
  apply (proj1 (In_zset_of _ _)) in Hy. exact Hy.
Qed.

Lemma data_map_subs_vars : forall s y d, closing s ->
  In y (data_vars (data_map (expr_subs s) d)) -> In y (data_vars d) /\ ~ In y (map fst s).
Proof.
  intros s y d Hc H. apply data_vars_In in H. destruct H as [e' [He' Hy]].
  rewrite data_exprs_map in He'. apply in_map_iff in He'. destruct He' as [e [E He]]. subst e'.
  apply expr_subs_vars_closed in Hy; [|exact Hc]. destruct Hy as [H1 H2].
  split; [|exact H2]. apply data_vars_In. exists e. split; assumption.
Qed.

Lemma box_subs_cases : forall fx cls f b b', box_subs fx cls f b = XOk b' ->
  (b' = b /\ guard (form_vars f) b = false) \/
  pdat b' = data_map (expr_subs (form_sigma f)) (pdat b).
Proof.
  intros fx cls f b b' H. unfold box_subs in H.
  destruct (pk b) eqn:K.
  - destruct (guard (form_vars f) b) eqn:G; inversion H; subst;
      [right; reflexivity | left; split; reflexivity].
  - inversion H; subst. right. reflexivity.
  - inversion H; subst. right. reflexivity.
  - inversion H; subst. right. reflexivity.
  - inversion H; subst. right. reflexivity.
  - right. destruct (pdat b) eqn:D.
    + destruct (fx_h fx); [|discriminate]. inversion H; subst. rewrite D. reflexivity.
    + inversion H; subst. reflexivity.
    + inversion H; subst. reflexivity.
  - inversion H; subst. right. reflexivity.
  - inversion H; subst. right. reflexivity.
Qed.

Lemma box_subs_vars : forall fx cls f b b' y, closing (form_sigma f) ->
  box_subs fx cls f b = XOk b' -> In y (data_vars (pdat b')) ->
  In y (data_vars (pdat b)) /\ ~ In y (form_vars f).
Proof.
  intros fx cls f b b' y Hc H Hy. unfold form_vars.
  destruct (box_subs_cases _ _ _ _ _ H) as [[E G]|E].
  - subst b'. split; [exact Hy|]. eapply guard_false; eassumption.
  - rewrite E in Hy. apply data_map_subs_vars; assumption.
Qed.

Lemma subs_removes_symbols_l : forall fx cls f d d',
  wf d = true -> closing (form_sigma f) -> dsubs fx cls f d = XOk d' ->
  forall y, In y (dfree d') -> In y (dfree d) /\ ~ In y (form_vars f).
Proof.
  intros fx cls f d d' W Hc H y Hy. unfold dsubs in H.
  destruct (dmap_spec_l _ _ _ W (box_subs_shape_l fx cls f) H) as [_ [_ [_ [H4 _]]]].
  apply free_symbols_exact_l in Hy. destruct Hy as [b' [Hb' Hy]].
  destruct (Forall2_In_r _ _ _ _ H4 Hb') as [b [Hb Hs]].
  destruct (box_subs_vars _ _ _ _ _ _ Hc Hs Hy) as [H1 H2].
  split; [|exact H2]. apply free_symbols_exact_l. exists b. split; assumption.
Qed.

Lemma subs_all_closed_l : forall fx cls f d d',
  wf d = true -> closing (form_sigma f) ->
  (forall y, In y (dfree d) -> In y (form_vars f)) ->
  dsubs fx cls f d = XOk d' -> dfree d' = [].
Proof.
  intros fx cls f d d' W Hc Hall H. apply nil_if_no_In. intros y Hy.
  destruct (subs_removes_symbols_l _ _ _ _ _ W Hc H y Hy) as [H1 H2].
  apply H2. apply Hall. exact H1.
Qed.

(* ------------------------------------------------------------ 8. substitution commutes with evaluation *)
Lemma map_fst_polys_of : forall s, map fst (polys_of s) = map fst s.
Proof. intros. unfold polys_of. rewrite map_map. reflexivity. Qed.

Lemma env_seq_notin : forall rho s y, ~ In y (map fst s) -> env_seq rho s y = rho y.
Proof.
  induction s as [|[x v] s IH]; intros y H; [reflexivity|].
  cbn [env_seq]. unfold upd. cbn in H.
  destruct (y =? x) eqn:E.
  - apply Z.eqb_eq in E. subst. exfalso. apply H. left. reflexivity.
  - apply IH. intros Hy. apply H. right. exact Hy.
Qed.

Lemma ground_data_subs : forall rho s d, data_wf d = true ->
  ground_data rho (data_map (expr_subs s) d) = ground_data (env_seq rho (polys_of s)) d.
Proof.
  intros rho s [|e|es] W; cbn [data_map ground_data].
  - reflexivity.
  - rewrite expr_eval_subs; [reflexivity|]. apply (data_wf_In (DScalar e)); [exact W | left; reflexivity].
  - f_equal. rewrite map_map. apply map_ext_in. intros e He. apply expr_eval_subs.
    apply (data_wf_In (DList es)); [exact W | exact He].
Qed.

Lemma ground_data_unguarded : forall rho s b, box_wf b = true ->
  guard (map fst s) b = false ->
  ground_data rho (pdat b) = ground_data (env_seq rho (polys_of s)) (pdat b).
Proof.
  intros rho s b W G. apply ground_data_agree; [apply box_wf_data; exact W|].
  intros y Hy. symmetry. apply env_seq_notin. rewrite map_fst_polys_of.
  eapply guard_false; eassumption.
Qed.

Lemma box_subs_data : forall fx cls f b b' rho, box_wf b = true ->
  box_subs fx cls f b = XOk b' ->
  ground_data rho (pdat b') = ground_data (env_seq rho (polys_of (form_sigma f))) (pdat b).
Proof.
  intros fx cls f b b' rho W H. assert (Wd := box_wf_data _ W).
  destruct (box_subs_cases _ _ _ _ _ H) as [[E G]|E].
  - subst b'. apply ground_data_unguarded; assumption.
  - rewrite E. apply ground_data_subs. exact Wd.
Qed.

Lemma box_subs_ground_nf : forall fx cls f b b' rho, box_wf b = true ->
  box_subs fx cls f b = XOk b' ->
  ground_box_nf rho b' = ground_box_nf (env_seq rho (polys_of (form_sigma f))) b.
Proof.
  intros fx cls f b b' rho W H. unfold ground_box_nf.
  destruct (box_subs_shape_l _ _ _ _ _ H) as [H1 [H2 [H3 H4]]].
  rewrite H1, H2, H3, H4, (box_subs_data _ _ _ _ _ rho W H). reflexivity.
Qed.

Lemma box_subs_ground : forall fx cls f b b' rho, box_wf b = true ->
  f11b_box fx cls (form_vars f) b = false -> f11c_box fx b = false ->
  box_subs fx cls f b = XOk b' ->
  ground_box rho b' = ground_box (env_seq rho (polys_of (form_sigma f))) b.
Proof.
  intros fx cls f b b' rho W B C H. unfold ground_box.
  destruct (box_subs_shape_l _ _ _ _ _ H) as [H1 [H2 [H3 H4]]].
  destruct (box_subs_flags_l _ _ _ _ _ W B C H) as [H5 H6].
  rewrite H1, H2, H3, H4, H5, H6, (box_subs_data _ _ _ _ _ rho W H). reflexivity.
Qed.

Lemma subs_eval_commute_l : forall fx cls f d d' rho,
  dwf d = true -> dsubs fx cls f d = XOk d' ->
  ground_nf rho d' = ground_nf (env_seq rho (polys_of (form_sigma f))) d.
Proof.
  intros fx cls f d d' rho W H. apply dwf_inv in W. destruct W as [W Wb]. unfold dsubs in H.
  destruct (dmap_spec_l _ _ _ W (box_subs_shape_l fx cls f) H) as [H1 [H2 [H3 [H4 _]]]].
  unfold ground_nf. rewrite H1, H2, H3. f_equal.
  eapply Forall2_map_eq; [exact H4|]. intros a b Ha Hab.
  eapply box_subs_ground_nf; [apply Wb; exact Ha | exact Hab].
Qed.

Lemma subs_eval_commute_flags_l : forall fx cls f d d' rho,
  dwf d = true -> no_flag_trigger fx cls (form_vars f) d = true -> dsubs fx cls f d = XOk d' ->
  ground rho d' = ground (env_seq rho (polys_of (form_sigma f))) d.
Proof.
  intros fx cls f d d' rho W N H. apply dwf_inv in W. destruct W as [W Wb]. unfold dsubs in H.
  destruct (dmap_spec_l _ _ _ W (box_subs_shape_l fx cls f) H) as [H1 [H2 [H3 [H4 _]]]].
  unfold ground. rewrite H1, H2, H3. f_equal.
  eapply Forall2_map_eq; [exact H4|]. intros a b Ha Hab.
  destruct (no_flag_trigger_inv _ _ _ _ _ N Ha) as [N1 N2].
  eapply box_subs_ground; [apply Wb; exact Ha | exact N1 | exact N2 | exact Hab].
Qed.

Lemma subs_eval_commute_abstract_l : forall fx (M : Type) (ev : gdiagram -> M) cls f d d' rho,
  dwf d = true -> no_flag_trigger fx cls (form_vars f) d = true -> dsubs fx cls f d = XOk d' ->
  ev (ground rho d') = ev (ground (env_seq rho (polys_of (form_sigma f))) d).
Proof.
  intros fx M ev cls f d d' rho W N H. f_equal. eapply subs_eval_commute_flags_l; eassumption.
Qed.

Lemma subs_eval_commute_refuted_l : exists (ev : gdiagram -> bool) f d d' rho,
  dwf d = true /\ dsubs pinned CCircuit f d = XOk d' /\
  ev (ground rho d') <> ev (ground (env_seq rho (polys_of (form_sigma f))) d).
Proof.
  exists (fun g => existsb gmixed (gboxes g)).
  exists (SSingle 1 (PE false (poly_const (Q2Qc 2)))).
  exists (PD [] [] [PB KQScalar 0 [] [] false true (DScalar (PE true (poly_var 1)))] [0]).
  eexists. exists (fun _ => Q2Qc 0).
  split; [reflexivity|]. split; [reflexivity|]. cbn. discriminate.
Qed.

(* ------------------------------------------------------------ 9. lambdify against subs *)
Lemma env_seq_sim_closed : forall rho s, Forall (fun xv => poly_vars (snd xv) = []) s ->
  forall y, env_seq rho s y = env_sim rho s y.
Proof.
  induction s as [|[x v] s IH]; intros Hc y; [reflexivity|].
  inversion Hc as [|? ? Hv Hs]; subst. cbn [env_seq]. unfold upd, env_sim. cbn [lookup].
  destruct (y =? x).
  - apply eval_poly_agree. intros z Hz. cbn [snd] in Hv. rewrite Hv in Hz. destruct Hz.
  - specialize (IH Hs y). unfold env_sim in IH. exact IH.
Qed.

Lemma closed_vals_polys : forall syms vals,
  Forall (fun v => poly_vars (epoly v) = []) vals ->
  Forall (fun xv => poly_vars (snd xv) = []) (polys_of (combine syms vals)).
Proof.
  intros syms vals Hc. apply Forall_forall. intros [x p] Hin. unfold polys_of in Hin.
  apply in_map_iff in Hin. destruct Hin as [[x' v] [E Hin]]. cbn in E. inversion E; subst.
  apply in_combine_r in Hin. rewrite Forall_forall in Hc. cbn. apply Hc. exact Hin.
Qed.

Lemma map_fst_combine : forall (syms : list var) (vals : list pexpr),
  length syms = length vals -> map fst (combine syms vals) = syms.
Proof.
  induction syms as [|x syms IH]; intros [|v vals] L; try discriminate; [reflexivity|].
  cbn [combine map fst]. f_equal. apply IH. cbn in L. congruence.
Qed.

Lemma ground_data_lambdify : forall rho s d, data_wf d = true ->
  ground_data rho (data_map (expr_lambdify s) d) = ground_data (env_sim rho (polys_of s)) d.
Proof.
  intros rho s [|e|es] W; cbn [data_map ground_data].
  - reflexivity.
  - rewrite expr_eval_lambdify; [reflexivity|]. apply (data_wf_In (DScalar e)); [exact W | left; reflexivity].
  - f_equal. rewrite map_map. apply map_ext_in. intros e He. apply expr_eval_lambdify.
    apply (data_wf_In (DList es)); [exact W | exact He].
Qed.

Lemma ground_data_lam_eq_subs : forall rho s d, data_wf d = true ->
  Forall (fun xv => poly_vars (snd xv) = []) (polys_of s) ->
  ground_data rho (data_map (expr_lambdify s) d) = ground_data rho (data_map (expr_subs s) d).
Proof.
  intros rho s d W Hc. rewrite ground_data_lambdify, ground_data_subs by exact W.
  apply ground_data_ext. intros e _. unfold expr_eval. apply eval_poly_ext.
  intros y. symmetry. apply env_seq_sim_closed. exact Hc.
Qed.

Lemma box_wf_spider : forall b, box_wf b = true -> pk b = KSpider \/ pk b = KZScalar ->
  pdag b = false /\ pmixed b = false.
Proof.
  intros b W K. unfold box_wf in W. apply andb_prop in W. destruct W as [_ W].
  destruct K as [K|K]; rewrite K in W; destruct (pdag b), (pmixed b); cbn in W;
    try discriminate; split; reflexivity.
Qed.

Lemma box_lambdify_eq_subs : forall fx cls syms vals b b1 b2 rho,
  box_wf b = true -> length syms = length vals ->
  Forall (fun v => poly_vars (epoly v) = []) vals ->
  box_lambdify fx cls syms vals b = XOk b1 ->
  box_subs fx cls (SList (combine syms vals)) b = XOk b2 ->
  ground_box rho b1 = ground_box rho b2.
Proof.
  intros fx cls syms vals b b1 b2 rho W L Hc H1 H2.
  assert (Wd := box_wf_data _ W). assert (Hp := closed_vals_polys syms vals Hc).
  unfold box_lambdify in H1. unfold box_subs, form_vars in H2. cbn [form_sigma] in H2.
  rewrite (map_fst_combine _ _ L) in H2.
  assert (A : (length syms =? length vals)%nat = true) by (apply Nat.eqb_eq; exact L).
  rewrite A in H1. cbn [negb] in H1.
  destruct (pk b) eqn:K.
  - (* KGen *)
    destruct (guard syms b) eqn:G.
    + assert (E1 : b1 = rebuild_gen fx cls b (data_map (expr_lambdify (combine syms vals)) (pdat b))).
      { destruct (pdat b); try (inversion H1; reflexivity).
        destruct (existsb _ es); [discriminate | inversion H1; reflexivity]. }
      inversion H2; subst. unfold ground_box, rebuild_gen; cbn [pk pname pdom pcod pdag pmixed pdat].
      f_equal. apply ground_data_lam_eq_subs; assumption.
    + inversion H1; inversion H2; subst. reflexivity.
  - inversion H1; inversion H2; subst. unfold ground_box, rebuild_param; cbn [pk pname pdom pcod pdag pmixed pdat].
    f_equal. apply ground_data_lam_eq_subs; assumption.
  - inversion H1; inversion H2; subst. unfold ground_box, rebuild_param; cbn [pk pname pdom pcod pdag pmixed pdat].
    f_equal. apply ground_data_lam_eq_subs; assumption.
  - inversion H1; inversion H2; subst. unfold ground_box, rebuild_param; cbn [pk pname pdom pcod pdag pmixed pdat].
    f_equal. apply ground_data_lam_eq_subs; assumption.
  - inversion H1; inversion H2; subst. unfold ground_box, rebuild_param; cbn [pk pname pdom pcod pdag pmixed pdat].
    f_equal. apply ground_data_lam_eq_subs; assumption.
  - destruct (pdat b); try discriminate. destruct (fx_h fx); [|discriminate].
    inversion H1; inversion H2; subst. reflexivity.
  - destruct (guard syms b) eqn:G; [discriminate|].
    destruct (box_wf_spider b W (or_introl K)) as [Fd Fm].
    inversion H1; inversion H2; subst. unfold ground_box, rebuild_spider; cbn [pk pname pdom pcod pdag pmixed pdat].
    rewrite Fd, Fm, K. f_equal. rewrite ground_data_subs by exact Wd.
    apply ground_data_unguarded; [exact W|]. rewrite (map_fst_combine _ _ L). exact G.
  - destruct (guard syms b) eqn:G; [discriminate|].
    destruct (box_wf_spider b W (or_intror K)) as [Fd Fm].
    inversion H1; inversion H2; subst. unfold ground_box, rebuild_spider; cbn [pk pname pdom pcod pdag pmixed pdat].
    rewrite Fd, Fm, K. f_equal. rewrite ground_data_subs by exact Wd.
    apply ground_data_unguarded; [exact W|]. rewrite (map_fst_combine _ _ L). exact G.
Qed.

Lemma lambdify_eq_subs_l : forall fx cls syms vals d d1 d2 rho,
  dwf d = true -> length syms = length vals ->
  Forall (fun v => poly_vars (epoly v) = []) vals ->
  dlambdify fx cls syms vals d = XOk d1 ->
  dsubs fx cls (SList (combine syms vals)) d = XOk d2 ->
  ground rho d1 = ground rho d2.
Proof.
  intros fx cls syms vals d d1 d2 rho W L Hc H1 H2. apply dwf_inv in W. destruct W as [W Wb].
  unfold dlambdify in H1. unfold dsubs in H2.
  destruct (dmap_spec_l _ _ _ W (box_lambdify_shape_l fx cls syms vals) H1) as [A1 [A2 [A3 [A4 _]]]].
  destruct (dmap_spec_l _ _ _ W (box_subs_shape_l fx cls _) H2) as [B1 [B2 [B3 [B4 _]]]].
  unfold ground. rewrite A1, A2, A3, B1, B2, B3. f_equal.
  eapply Forall2_map_eq2; [exact A4 | exact B4 |]. intros a b c Ha R1 R2.
  eapply box_lambdify_eq_subs; [apply Wb; exact Ha | exact L | exact Hc | exact R1 | exact R2].
Qed.

(* forgetting the Python-number / sympy-object distinction *)
Definition erase_expr (e : pexpr) : pexpr := PE true (epoly e).
Definition erase_box (b : pbox) : pbox :=
  PB (pk b) (pname b) (pdom b) (pcod b) (pdag b) (pmixed b) (data_map erase_expr (pdat b)).
Definition erase (d : pdiagram) : pdiagram :=
  PD (ddom d) (dcod d) (map erase_box (dboxes d)) (doffs d).

(* NOT asserted: syntactic agreement needs the polynomials to be in canonical
   form (subs_seq / subs_sim re-normalise), which dwf does not say *)
Definition lambdify_eq_subs_syntactic_stmt : Prop :=
  forall fx cls syms vals d d1 d2,
  dwf d = true -> length syms = length vals ->
  Forall (fun v => poly_vars (epoly v) = []) vals ->
  dlambdify fx cls syms vals d = XOk d1 ->
  dsubs fx cls (SList (combine syms vals)) d = XOk d2 ->
  erase d1 = erase d2.

Lemma lambdify_refuted_zx_l : forall fx, exists d syms vals d2,
  dwf d = true /\ dlambdify fx CZX syms vals d = XErr XType /\
  dsubs fx CZX (SList (combine syms vals)) d = XOk d2.
Proof.
  intros fx.
  exists (PD [] [1] [PB KSpider 0 [] [1] false false (DScalar (PE true (poly_var 1)))] [0]).
  exists [1]. exists [PE false (poly_const (Q2Qc (1#2)))]. eexists.
  split; [reflexivity|]. split; [reflexivity|]. vm_compute. reflexivity.
Qed.

Lemma lambdify_refuted_classical_l : forall fx, exists d syms vals d2,
  dwf d = true /\ dlambdify fx CCircuit syms vals d = XErr XType /\
  dsubs fx CCircuit (SList (combine syms vals)) d = XOk d2.
Proof.
  intros fx.
  exists (PD [1] [1] [PB KClassical 0 [1] [1] false false (DList [PE true (poly_var 1)])] [0]).
  exists [1]. exists [PE false (poly_const (Q2Qc (1#2)))]. eexists.
  split; [reflexivity|]. split; [reflexivity|]. vm_compute. reflexivity.
Qed.

Lemma lambdify_refuted_partial_list_l : forall fx, exists d syms vals d2,
  dwf d = true /\ dlambdify fx CTensor syms vals d = XErr XName /\
  dsubs fx CTensor (SList (combine syms vals)) d = XOk d2.
Proof.
  intros fx.
  exists (PD [1] [1] [PB KGen 0 [1] [1] false false
                        (DList [PE true (poly_var 1); PE true (poly_var 2)])] [0]).
  exists [1]. exists [PE false (poly_const (Q2Qc (1#2)))]. eexists.
  split; [reflexivity|]. split; [reflexivity|]. vm_compute. reflexivity.
Qed.

Lemma sum_lambdify_refuted_l : exists s syms vals s',
  sum_ok s = true /\ sum_lambdify pinned CCircuit syms vals s = XOk s /\
  sum_subs pinned CCircuit (SList (combine syms vals)) s = XOk s' /\ s' <> s.
Proof.
  exists wit_f11i_sum. exists [1]. exists [PE false (poly_const (Q2Qc 2))]. eexists.
  split; [reflexivity|]. split; [reflexivity|]. split; [vm_compute; reflexivity|].
  intros E. discriminate E.
Qed.

(* ------------------------------------------------------------ 10. lambdify with numbers can be evaluated *)
Lemma lookup_combine : forall (syms : list var) (vals : list pexpr) y,
  length syms = length vals -> In y syms ->
  exists v, lookup (combine syms vals) y = Some v /\ In v vals.
Proof.
  induction syms as [|x syms IH]; intros [|v vals] y L Hy; try discriminate; [destruct Hy|].
  cbn [combine lookup]. destruct (y =? x) eqn:E.
  - exists v. split; [reflexivity | left; reflexivity].
  - destruct Hy as [Hy|Hy]; [subst; rewrite Z.eqb_refl in E; discriminate|].
    cbn in L. injection L as L. destruct (IH vals y L Hy) as [w [H1 H2]].
    exists w. split; [exact H1 | right; exact H2].
Qed.

Lemma expr_lambdify_esym_false : forall s e,
  (forall y, In y (expr_vars e) -> exists v, lookup s y = Some v /\ esym v = false) ->
  esym (expr_lambdify s e) = false.
Proof.
  intros s e H. unfold expr_lambdify. unfold expr_vars in H. destruct (esym e) eqn:E; [|exact E].
  cbn [esym]. destruct (existsb _ (poly_vars (epoly e))) eqn:X; [|reflexivity].
  apply existsb_exists in X. destruct X as [y [Hy Hm]]. destruct (H y Hy) as [v [Hl Hv]].
  rewrite Hl in Hm. congruence.
Qed.

Lemma data_lam_esym : forall syms vals d,
  length syms = length vals -> Forall (fun v => esym v = false /\ poly_vars (epoly v) = []) vals ->
  (forall y, In y (data_vars d) -> In y syms) ->
  forall e', In e' (data_exprs (data_map (expr_lambdify (combine syms vals)) d)) -> esym e' = false.
Proof.
  intros syms vals d L Hv H e' He'. rewrite data_exprs_map in He'. apply in_map_iff in He'.
  destruct He' as [e [E He]]. subst e'. apply expr_lambdify_esym_false. intros y Hy.
  assert (Hs : In y syms). { apply H. apply data_vars_In. exists e. split; assumption. }
  destruct (lookup_combine _ _ _ L Hs) as [v [H1 H2]]. exists v. split; [exact H1|].
  rewrite Forall_forall in Hv. apply Hv. exact H2.
Qed.

Lemma data_vars_nil_of_esym : forall d,
  (forall e, In e (data_exprs d) -> esym e = false) -> data_vars d = [].
Proof.
  intros d H. apply nil_if_no_In. intros y Hy. apply data_vars_In in Hy.
  destruct Hy as [e [He Hy]]. unfold expr_vars in Hy. rewrite (H e He) in Hy. destruct Hy.
Qed.

Lemma box_lambdify_closed : forall fx cls syms vals b b',
  length syms = length vals -> Forall (fun v => esym v = false /\ poly_vars (epoly v) = []) vals ->
  (forall y, In y (data_vars (pdat b)) -> In y syms) ->
  box_lambdify fx cls syms vals b = XOk b' ->
  data_vars (pdat b') = [] /\ box_evaluable b' = true.
Proof.
  intros fx cls syms vals b b' L Hv Hin H.
  assert (Hes := data_lam_esym syms vals (pdat b) L Hv Hin).
  assert (Hnil := data_vars_nil_of_esym _ Hes).
  assert (Hun : guard syms b = false -> data_vars (pdat b) = []).
  { intros G. apply nil_if_no_In. intros y Hy. apply (guard_false _ _ _ G Hy). apply Hin. exact Hy. }
  unfold box_lambdify in H.
  assert (A : (length syms =? length vals)%nat = true) by (apply Nat.eqb_eq; exact L).
  rewrite A in H. cbn [negb] in H.
  destruct (pk b) eqn:K.
  - destruct (guard syms b) eqn:G.
    + assert (E1 : b' = rebuild_gen fx cls b (data_map (expr_lambdify (combine syms vals)) (pdat b))).
      { destruct (pdat b); try (inversion H; reflexivity).
        destruct (existsb _ es); [discriminate | inversion H; reflexivity]. }
      subst b'. split; [exact Hnil | reflexivity].
    + inversion H; subst. split; [apply Hun; reflexivity|]. unfold box_evaluable. rewrite K. reflexivity.
  - (* KRot *)
    inversion H; subst. split; [exact Hnil|].
    unfold box_evaluable, rebuild_param; cbn [pk pdat]. rewrite K.
    destruct (data_map (expr_lambdify (combine syms vals)) (pdat b)) as [|e'|es'] eqn:D'; try reflexivity.
    rewrite (Hes e' (or_introl eq_refl)). reflexivity.
  - inversion H; subst. split; [exact Hnil|]. unfold box_evaluable, rebuild_param; cbn [pk pdat]. rewrite K. reflexivity.
  - inversion H; subst. split; [exact Hnil|]. unfold box_evaluable, rebuild_param; cbn [pk pdat]. rewrite K. reflexivity.
  - inversion H; subst. split; [exact Hnil|]. unfold box_evaluable, rebuild_param; cbn [pk pdat]. rewrite K. reflexivity.
  - destruct (pdat b) eqn:D; try discriminate. destruct (fx_h fx); [|discriminate].
    inversion H; subst. rewrite D. split; [reflexivity|]. unfold box_evaluable. rewrite K. reflexivity.
  - destruct (guard syms b) eqn:G; [discriminate|]. inversion H; subst.
    split; [apply Hun; reflexivity|]. unfold box_evaluable. rewrite K. reflexivity.
  - destruct (guard syms b) eqn:G; [discriminate|]. inversion H; subst.
    split; [apply Hun; reflexivity|]. unfold box_evaluable. rewrite K. reflexivity.
Qed.

Lemma lambdify_all_evaluable_l : forall fx cls syms vals d d',
  dwf d = true -> length syms = length vals ->
  Forall (fun v => esym v = false /\ poly_vars (epoly v) = []) vals ->
  (forall y, In y (dfree d) -> In y syms) ->
  dlambdify fx cls syms vals d = XOk d' ->
  dfree d' = [] /\ deval_status d' = XOk tt.
Proof.
  intros fx cls syms vals d d' W L Hv Hall H. apply dwf_inv in W. destruct W as [W _].
  unfold dlambdify in H.
  destruct (dmap_spec_l _ _ _ W (box_lambdify_shape_l fx cls syms vals) H) as [_ [_ [_ [H4 _]]]].
  assert (Hb : forall b', In b' (dboxes d') -> data_vars (pdat b') = [] /\ box_evaluable b' = true).
  { intros b' Hb'. destruct (Forall2_In_r _ _ _ _ H4 Hb') as [b [Hb Hs]].
    eapply box_lambdify_closed; [exact L | exact Hv | | exact Hs].
    intros y Hy. apply Hall. apply free_symbols_exact_l. exists b. split; assumption. }
  split.
  - apply nil_if_no_In. intros y Hy. apply free_symbols_exact_l in Hy.
    destruct Hy as [b' [Hb' Hy]]. destruct (Hb b' Hb') as [E _]. rewrite E in Hy. destruct Hy.
  - unfold deval_status.
    assert (F : forallb box_evaluable (dboxes d') = true).
    { apply forallb_forall. intros b' Hb'. apply Hb. exact Hb'. }
    rewrite F. reflexivity.
Qed.

Lemma subs_closed_not_evaluable_refuted_l : forall fx, exists f d d',
  dwf d = true /\ closing (form_sigma f) /\ dsubs fx CCircuit f d = XOk d' /\
  dfree d' = [] /\ deval_status d' = XErr XType.
Proof.
  intros fx.
  exists (SSingle 1 (PE true (poly_const (Q2Qc (1#4))))).
  exists (PD [2] [2] [PB KRot 1 [2] [2] false false (DScalar (PE true (poly_var 1)))] [0]).
  eexists. split; [reflexivity|]. split; [repeat constructor|].
  split; [vm_compute; reflexivity|]. split; reflexivity.
Qed.

(* ------------------------------------------------------------ 11. tensors *)
Lemma tensor_subs_correct_l : forall fx f t,
  forallb esym (tents t) = true -> tensor_subs fx f t = XOk (tensor_subs_expected f t).
Proof.
  intros fx f t H. unfold tensor_subs. destruct (fx_d fx); [reflexivity|].
  destruct f as [x v|s]; unfold tensor_subs_expected; cbn [form_sigma].
  - f_equal. f_equal. apply map_ext_in. intros e He. rewrite (forallb_In _ _ _ H He). reflexivity.
  - rewrite H. reflexivity.
Qed.

Lemma tensor_subs_refuted_single_l : exists x v t t',
  tensor_subs pinned (SSingle x v) t = XOk t' /\ t' <> tensor_subs_expected (SSingle x v) t.
Proof.
  exists 1. exists (PE false (poly_const (Q2Qc 2))).
  exists (PT [] [] [PE false (poly_const (Q2Qc 3))]). eexists.
  split; [reflexivity|]. intros E. discriminate E.
Qed.

Lemma tensor_subs_refuted_list_l : exists s t, tensor_subs pinned (SList s) t = XErr XValue.
Proof.
  exists [(1, PE false (poly_const (Q2Qc 2)))].
  exists (PT [] [] [PE true (poly_var 1); PE false (poly_const (Q2Qc 3))]). reflexivity.
Qed.

Lemma cqmap_subs_refuted_l : forall fx f t, cq_nonempty t = true ->
  exists e, cqmap_subs fx f t = XErr e.
Proof.
  intros fx f t H. unfold cqmap_subs. rewrite H. destruct f as [x v|s].
  - destruct (tensor_subs fx (SSingle x v) t); eexists; reflexivity.
  - destruct (forallb (fun e => negb (esym e)) (tents t)); [eexists; reflexivity|].
    destruct (tensor_subs fx (SList s) t); eexists; reflexivity.
Qed.

Lemma tensor_lambdify_refuted_l : forall syms vals t, tensor_lambdify syms vals t = XErr XType.
Proof. reflexivity. Qed.

(* ------------------------------------------------------------ 13. the repaired code *)
Lemma f11b_box_fixed : forall fx cls vars b, fx_b fx = true -> f11b_box fx cls vars b = false.
Proof. intros fx cls vars b H. unfold f11b_box. rewrite H. reflexivity. Qed.
Lemma f11c_box_fixed : forall fx b, fx_c fx = true -> f11c_box fx b = false.
Proof. intros fx b H. unfold f11c_box. rewrite H. reflexivity. Qed.
Lemma f11h_box_fixed : forall fx b, fx_h fx = true -> f11h_box fx b = false.
Proof. intros fx b H. unfold f11h_box. rewrite H. reflexivity. Qed.

Lemma no_flag_trigger_fixed : forall fx cls vars d,
  fx_b fx = true -> fx_c fx = true -> no_flag_trigger fx cls vars d = true.
Proof.
  intros fx cls vars d Hb Hc. unfold no_flag_trigger. apply forallb_forall. intros b _.
  rewrite (f11b_box_fixed _ _ _ _ Hb), (f11c_box_fixed _ _ Hc). reflexivity.
Qed.

Lemma subs_preserves_flags_repaired_l : forall fx cls f d d',
  fx_b fx = true -> fx_c fx = true -> dwf d = true -> dsubs fx cls f d = XOk d' ->
  Forall2 same_flags (dboxes d) (dboxes d').
Proof.
  intros fx cls f d d' Hb Hc W H.
  exact (subs_preserves_flags_l fx cls f d d' W (no_flag_trigger_fixed fx cls _ d Hb Hc) H).
Qed.

Lemma subs_eval_commute_repaired_l : forall fx cls f d d' rho,
  fx_b fx = true -> fx_c fx = true -> dwf d = true -> dsubs fx cls f d = XOk d' ->
  ground rho d' = ground (env_seq rho (polys_of (form_sigma f))) d.
Proof.
  intros fx cls f d d' rho Hb Hc W H.
  exact (subs_eval_commute_flags_l fx cls f d d' rho W (no_flag_trigger_fixed fx cls _ d Hb Hc) H).
Qed.

Lemma subs_total_repaired_l : forall fx cls f d,
  fx_h fx = true -> wf d = true -> exists d', dsubs fx cls f d = XOk d'.
Proof.
  intros fx cls f d Hh W. apply subs_total_l; [exact W|]. apply forallb_forall. intros b _.
  rewrite (f11h_box_fixed _ _ Hh). reflexivity.
Qed.

Lemma sum_free_repaired_l : forall fx s, fx_i fx = true ->
  forall x, In x (sum_free fx s) <-> exists t, In t (sterms s) /\ In x (dfree t).
Proof.
  intros fx s Hi x. unfold sum_free. rewrite Hi. unfold sum_free_expected.
  rewrite In_zset_of. apply in_flat_map.
Qed.

Lemma sum_terms_inv : forall (step : pdiagram -> xres pdiagram) s r,
  (dox ts <- xmapM step (sterms s);
   let r := PS (sdom s) (scod s) ts in if sum_ok r then XOk r else XErr XAxiom) = XOk r ->
  Forall2 (fun t t' => step t = XOk t') (sterms s) (sterms r) /\ sdom r = sdom s /\ scod r = scod s.
Proof.
  intros step s r H. destruct (xmapM step (sterms s)) as [ts|e] eqn:E; cbn [xbind] in H; [|discriminate].
  cbv zeta in H. destruct (sum_ok _); [|discriminate]. inversion H; subst. cbn.
  split; [apply xmapM_Forall2; exact E | split; reflexivity].
Qed.

Lemma sum_lambdify_repaired_l : forall fx cls syms vals s s1 s2 rho,
  fx_j fx = true -> forallb dwf (sterms s) = true -> length syms = length vals ->
  Forall (fun v => poly_vars (epoly v) = []) vals ->
  sum_lambdify fx cls syms vals s = XOk s1 ->
  sum_subs fx cls (SList (combine syms vals)) s = XOk s2 ->
  map (ground rho) (sterms s1) = map (ground rho) (sterms s2) /\ sdom s1 = sdom s2 /\ scod s1 = scod s2.
Proof.
  intros fx cls syms vals s s1 s2 rho Hj W L Hc H1 H2.
  unfold sum_lambdify in H1. rewrite Hj in H1. unfold sum_subs in H2.
  apply sum_terms_inv in H1. apply sum_terms_inv in H2.
  destruct H1 as [F1 [A1 A2]]. destruct H2 as [F2 [B1 B2]].
  split; [|split; congruence].
  eapply Forall2_map_eq2; [exact F1 | exact F2 |]. intros t t1 t2 Ht R1 R2.
  eapply lambdify_eq_subs_l; [exact (forallb_In _ _ _ W Ht) | exact L | exact Hc | exact R1 | exact R2].
Qed.

Lemma tensor_subs_repaired_l : forall fx f t,
  fx_d fx = true -> tensor_subs fx f t = XOk (tensor_subs_expected f t).
Proof. intros fx f t H. unfold tensor_subs. rewrite H. reflexivity. Qed.

(* the witnesses of F11b, F11c, F11h, F11i replayed on the repaired code *)
Lemma subs_flags_fixed_mixed_l : exists f b b',
  box_wf b = true /\ box_subs repaired CCircuit f b = XOk b' /\ pmixed b = true /\ pmixed b' = true.
Proof. exists wit_form. exists wit_f11b_scalar. eexists. repeat split. Qed.

Lemma subs_flags_fixed_pure_l : exists f b b',
  box_wf b = true /\ box_subs repaired CCircuit f b = XOk b' /\ pmixed b = false /\ pmixed b' = false.
Proof. exists wit_form. exists wit_f11b_pure. eexists. repeat split. Qed.

Lemma subs_flags_fixed_dagger_l : exists f b b',
  box_wf b = true /\ box_subs repaired CCircuit f b = XOk b' /\ pdag b = true /\ pdag b' = true.
Proof. exists wit_form. exists wit_f11c_gate. eexists. repeat split. Qed.

Lemma subs_fixed_none_data_l :
  dwf wit_f11h_bits = true /\ forall f, dsubs repaired CCircuit f wit_f11h_bits = XOk wit_f11h_bits.
Proof. split; [reflexivity|]. intros f. reflexivity. Qed.

Lemma sum_free_fixed_l :
  sum_free repaired wit_f11i_sum = sum_free_expected wit_f11i_sum /\
  sum_free repaired wit_f11i_sum <> [].
Proof. split; [reflexivity|]. vm_compute. discriminate. Qed.

(* ------------------------------------------------------------ 12. non-vacuity *)
Definition ex_q (n : Z) (d : positive) : Qc := Q2Qc (n # d).
(* scalar(s1*s2) ; Rx(2*s1 + 1/2) ; a plain dagger box f[::-1] : qubit -> qubit *)
Definition ex_diagram : pdiagram :=
  PD [2] [2]
     [ PB KQScalar 0 [] [] false false (DScalar (PE true (poly_mul (poly_var 1) (poly_var 2))));
       PB KRot 1 [2] [2] false false
          (DScalar (PE true (poly_add (poly_scale_mono [] (ex_q 2 1) (poly_var 1)) (poly_const (ex_q 1 2)))));
       PB KGen 5 [2] [2] true false DNone ]
     [0; 0; 0].
Definition ex_form : sform := SList [(1, PE true (poly_var 2)); (2, PE false (poly_const (ex_q 1 2)))].

Example ex_dwf : dwf ex_diagram = true.
Proof. vm_compute. reflexivity. Qed.
Example ex_no_flag_trigger : no_flag_trigger pinned CCircuit (form_vars ex_form) ex_diagram = true.
Proof. vm_compute. reflexivity. Qed.
Example ex_free : dfree ex_diagram = [1; 2].
Proof. vm_compute. reflexivity. Qed.
Example ex_dsubs :
  dsubs pinned CCircuit ex_form ex_diagram =
  XOk (PD [2] [2]
     [ PB KQScalar 0 [] [] false false (DScalar (PE true [([], ex_q 1 4)]));
       PB KRot 1 [2] [2] false false (DScalar (PE true [([], ex_q 3 2)]));
       PB KGen 5 [2] [2] true false DNone ]
     [0; 0; 0]).
Proof. vm_compute. reflexivity. Qed.
Example ex_dsubs_repaired :
  dsubs repaired CCircuit ex_form ex_diagram = dsubs pinned CCircuit ex_form ex_diagram.
Proof. vm_compute. reflexivity. Qed.
Example ex_closing : closing (form_sigma (SSingle 1 (PE true (poly_const (ex_q 1 4))))).
Proof. repeat constructor. Qed.
(* both sides of subs_eval_commute_flags on the example, computed *)
Example ex_commute : forall d', dsubs pinned CCircuit ex_form ex_diagram = XOk d' ->
  ground (fun _ => ex_q 7 1) d' =
  ground (env_seq (fun _ => ex_q 7 1) (polys_of (form_sigma ex_form))) ex_diagram.
Proof.
  intros d' H. apply (subs_eval_commute_flags_l pinned CCircuit); [exact ex_dwf | exact ex_no_flag_trigger | exact H].
Qed.
