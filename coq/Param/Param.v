(* Parametrised boxes and diagrams, and subs / lambdify / free_symbols exactly
   as the pinned DisCoPy code rebuilds them -- bug-compatible (findings F11a-k).
   Definitions only; proofs are in Param/ParamLemmas.v.

   Python code mirrored:
     cat.rsubs, cat.Box.subs / lambdify / free_symbols, cat.Arrow.free_symbols,
     cat.Arrow.subs (Functor(ob=id, ar=f.subs)) , cat.Sum.subs,
     monoidal.Diagram.subs / lambdify,
     tensor.Tensor.subs / lambdify, tensor.Box (data),
     quantum.gates.Parametrized.subs / lambdify (Rotation: Rx Ry Rz CU1 CRz CRx;
       Scalar, MixedScalar, Sqrt), ClassicalGate.subs / lambdify (also Bits,
       Copy, Match which are ClassicalGates),
     quantum.zx.Spider.subs, zx.Scalar.subs (their lambdify is cat.Box.lambdify),
     quantum.cqmap.CQMap.subs (inherited Tensor.subs). *)
From Coq Require Import List ZArith Bool Lia QArith Qcanon.
Import ListNotations.
Require Import DV.Common.Base DV.Param.Expr.
Open Scope Z_scope.

(* ---- outcomes: Common/Base.err has no NameError, which lambdify can raise ---- *)
Inductive xerr := XAxiom | XValue | XType | XAttribute | XName | XBad.
Definition xerr_code (e : xerr) : Z :=
  match e with XAxiom => 1 | XValue => 4 | XType => 5 | XBad => 8 | XAttribute => 9 | XName => 10 end.
Inductive xres (A : Type) := XOk (a : A) | XErr (e : xerr).
Arguments XOk {A}. Arguments XErr {A}.
Definition xbind {A B} (x : xres A) (f : A -> xres B) : xres B :=
  match x with XOk a => f a | XErr e => XErr e end.
Notation "'dox' x <- a ; b" := (xbind a (fun x => b))
  (at level 200, x pattern, a at level 100, b at level 200).
Fixpoint xmapM {A B} (f : A -> xres B) (l : list A) : xres (list B) :=
  match l with
  | [] => XOk []
  | x :: xs => dox y <- f x; dox ys <- xmapM f xs; XOk (y :: ys)
  end.
Definition lift {A} (r : res A) : xres A :=
  match r with Ok a => XOk a | Err _ => XErr XBad end.

(* ---- types: lists of wire codes (Dim entries, bit = 1 / qubit = 2, PRO wires = 1,
   interned names for monoidal / rigid / cat) ---- *)
Definition ty := list Z.
Definition ty_eqb : ty -> ty -> bool := list_eqb Z.eqb.

(* the class of the diagram: decides which `id`, `Box` are used when rebuilding *)
Inductive dclass := CCat | CMonoidal | CRigid | CTensor | CCircuit | CZX.
Definition dclass_eqb (a b : dclass) : bool :=
  match a, b with
  | CCat, CCat | CMonoidal, CMonoidal | CRigid, CRigid | CTensor, CTensor
  | CCircuit, CCircuit | CZX, CZX => true
  | _, _ => false
  end.

(* ---- repair switches: one per finding whose upstream fix is a few lines.
   `pinned` (all off) is the code as pinned; a switch on selects the behaviour of
   the proposed patch notes/patches/F11x.diff.  The harness sends the switches
   with every program (ParamProg.run_sexp). ---- *)
Record fixes := FX {
  fx_b : bool;   (* Scalar / circuit.Box subs + lambdify keep is_mixed *)
  fx_c : bool;   (* ClassicalGate.subs keeps _dagger *)
  fx_d : bool;   (* Tensor.subs leaves entries without .subs alone *)
  fx_h : bool;   (* ClassicalGate.subs / lambdify return self when data is None *)
  fx_i : bool;   (* Sum.free_symbols is the union over the terms *)
  fx_j : bool }. (* Sum.lambdify maps over the terms *)
Definition pinned : fixes := FX false false false false false false.
Definition repaired : fixes := FX true true true true true true.

(* box.data *)
Inductive pdata := DNone | DScalar (e : pexpr) | DList (es : list pexpr).

(* which subs / lambdify a box inherits *)
Inductive pkind :=
| KGen          (* cat / monoidal / rigid / tensor / circuit Box, and every library
                   box without its own subs (Ket, Bra, H, CX, Measure, Swap, zx.H ...):
                   cat.Box.subs, cat.Box.lambdify *)
| KRot          (* Rx Ry Rz CU1 CRz CRx (told apart by pname): Parametrized *)
| KQScalar      (* quantum.gates.Scalar built by scalar(expr, is_mixed) *)
| KMixedScalar  (* quantum.gates.MixedScalar *)
| KSqrt         (* quantum.gates.Sqrt *)
| KClassical    (* ClassicalGate, Bits / Digits (data None), Copy, Match *)
| KSpider       (* zx.Z / X / Y (told apart by pname) *)
| KZScalar.     (* zx.Scalar *)
Definition pkind_code (k : pkind) : Z :=
  match k with KGen => 0 | KRot => 1 | KQScalar => 2 | KMixedScalar => 3 | KSqrt => 4
             | KClassical => 5 | KSpider => 6 | KZScalar => 7 end.

Record pbox := PB {
  pk : pkind; pname : Z; pdom : ty; pcod : ty;
  pdag : bool;      (* bool(box.is_dagger) *)
  pmixed : bool;    (* box.is_mixed (circuits), false elsewhere *)
  pdat : pdata }.

Definition data_exprs (d : pdata) : list pexpr :=
  match d with DNone => [] | DScalar e => [e] | DList es => es end.
Definition data_map (f : pexpr -> pexpr) (d : pdata) : pdata :=
  match d with DNone => DNone | DScalar e => DScalar (f e) | DList es => DList (map f es) end.
Definition data_vars (d : pdata) : list var := flat_map expr_vars (data_exprs d).

(* cat.Box.__init__ : recursive_free_symbols(data) *)
Definition box_fs (b : pbox) : list var := zset_of (data_vars (pdat b)).

(* the argument forms of subs: subs(var, value) or subs([(var, value), ...]) *)
Inductive sform := SSingle (x : var) (v : pexpr) | SList (s : xsigma).
Definition form_sigma (f : sform) : xsigma :=
  match f with SSingle x v => [(x, v)] | SList s => s end.
Definition form_vars (f : sform) : list var := map fst (form_sigma f).

(* `any(var in self.free_symbols for var in ...)` *)
Definition guard (vars : list var) (b : pbox) : bool :=
  existsb (fun x => zmem x (box_fs b)) vars.

(* type(self)(self.name, self.dom, self.cod, _dagger=self._dagger, data=...) :
   circuit.Box.__init__ is not given is_mixed, whose default is True *)
Definition rebuild_gen (fx : fixes) (cls : dclass) (b : pbox) (d : pdata) : pbox :=
  PB KGen (pname b) (pdom b) (pcod b) (pdag b)
     (if fx_b fx then pmixed b else match cls with CCircuit => true | _ => pmixed b end) d.

(* Parametrized: type(self)(data).  Rotations are pure and never dagger;
   Scalar(data) has is_mixed=False, MixedScalar(data) has is_mixed=True *)
Definition rebuild_param (fx : fixes) (b : pbox) (d : pdata) : pbox :=
  PB (pk b) (pname b) (pdom b) (pcod b) false
     (match pk b with
      | KMixedScalar => true
      | KQScalar => fx_b fx && pmixed b   (* repaired: Scalar(data, name, is_mixed=self.is_mixed) *)
      | _ => false
      end) d.

(* ClassicalGate(self.name, self.dom, self.cod, data) : _dagger is not passed *)
Definition rebuild_classical (fx : fixes) (b : pbox) (d : pdata) : pbox :=
  PB KClassical (pname b) (pdom b) (pcod b) (fx_c fx && pdag b) false d.

(* type(self)(len(self.dom), len(self.cod), phase=data) ; zx.Scalar(data) *)
Definition rebuild_spider (b : pbox) (d : pdata) : pbox :=
  PB (pk b) (pname b) (pdom b) (pcod b) false false d.

(* box.subs( *args ) *)
Definition box_subs (fx : fixes) (cls : dclass) (f : sform) (b : pbox) : xres pbox :=
  let d' := data_map (expr_subs (form_sigma f)) (pdat b) in
  match pk b with
  | KGen => if guard (form_vars f) b then XOk (rebuild_gen fx cls b d') else XOk b
  | KRot | KQScalar | KMixedScalar | KSqrt => XOk (rebuild_param fx b d')
  | KClassical =>
      match pdat b with
      | DNone => if fx_h fx then XOk b     (* repaired: if self.data is None: return self *)
                 else XErr XAttribute      (* self.data.flatten() on None *)
      | _ => XOk (rebuild_classical fx b d')
      end
  | KSpider | KZScalar => XOk (rebuild_spider b d')
  end.

(* box.lambdify( *symbols )( *values ) *)
Definition box_lambdify (fx : fixes) (cls : dclass) (syms : list var) (vals : list pexpr)
  (b : pbox) : xres pbox :=
  let s := combine syms vals in
  let arity_ok := (length syms =? length vals)%nat in
  match pk b with
  | KGen =>
      if guard syms b then
        if negb arity_ok then XErr XType
        else match pdat b with
             | DList es =>
                 (* a list is printed without binding its other symbols *)
                 if existsb (fun e => existsb (fun y => negb (zmem y syms)) (expr_vars e)) es
                 then XErr XName
                 else XOk (rebuild_gen fx cls b (DList (map (expr_lambdify s) es)))
             | d => XOk (rebuild_gen fx cls b (data_map (expr_lambdify s) d))
             end
      else XOk b
  | KRot | KQScalar | KMixedScalar | KSqrt =>
      if negb arity_ok then XErr XType
      else XOk (rebuild_param fx b (data_map (expr_lambdify s) (pdat b)))
  | KClassical =>
      match pdat b with
      | DNone => if fx_h fx then XOk b   (* repaired: lambda *xs: self *)
                 else XErr XAttribute    (* sympy: None has no attribute replace *)
      | _ => XErr XType            (* sympy cannot lambdify the numpy object array *)
      end
  | KSpider | KZScalar =>
      (* cat.Box.lambdify calls type(self)(name, dom, cod, _dagger=..., data=...) *)
      if guard syms b then XErr XType else XOk b
  end.

(* ---- diagrams ---- *)
Record pdiagram := PD { ddom : ty; dcod : ty; dboxes : list pbox; doffs : list Z }.

(* the type scan of monoidal.Diagram.__init__ (after the F1 repair), which is
   also what composing the layers id(left) @ box @ id(right) checks *)
Fixpoint scan (t : ty) (bs : list pbox) (offs : list Z) : xres ty :=
  match bs, offs with
  | b :: bs', off :: offs' =>
      if negb ((0 <=? off) && (off <=? len t - len (pdom b))) then XErr XAxiom
      else
        let left := firstn (Z.to_nat off) t in
        let right := skipn (Z.to_nat (off + len (pdom b))) t in
        if ty_eqb t (left ++ pdom b ++ right)
        then scan (left ++ pcod b ++ right) bs' offs'
        else XErr XAxiom
  | _, _ => XOk t
  end.

Definition mk (dom cod : ty) (bs : list pbox) (offs : list Z) : xres pdiagram :=
  if negb (len bs =? len offs) then XErr XValue else
  dox t <- scan dom bs offs;
  if ty_eqb t cod then XOk (PD dom cod bs offs) else XErr XAxiom.

Definition wf (d : pdiagram) : bool :=
  (len (dboxes d) =? len (doffs d)) &&
  match scan (ddom d) (dboxes d) (doffs d) with
  | XOk t => ty_eqb t (dcod d)
  | XErr _ => false
  end.

(* monoidal.Diagram.subs: every box.subs is computed first (generator unpacked
   by then( *... )), then the layers are composed from id(dom) *)
Definition dmap (step : pbox -> xres pbox) (d : pdiagram) : xres pdiagram :=
  dox bs <- xmapM step (dboxes d);
  dox t <- scan (ddom d) bs (doffs d);
  XOk (PD (ddom d) t bs (doffs d)).

Definition dsubs (fx : fixes) (cls : dclass) (f : sform) (d : pdiagram) : xres pdiagram :=
  dmap (box_subs fx cls f) d.

(* monoidal.Diagram.lambdify( *symbols )( *values ) *)
Definition dlambdify (fx : fixes) (cls : dclass) (syms : list var) (vals : list pexpr)
  (d : pdiagram) : xres pdiagram :=
  dmap (box_lambdify fx cls syms vals) d.

(* cat.Arrow.free_symbols *)
Definition dfree (d : pdiagram) : list var := zset_of (flat_map box_fs (dboxes d)).

(* ---- formal sums ---- *)
Record psum := PS { sdom : ty; scod : ty; sterms : list pdiagram }.

Definition sum_ok (s : psum) : bool :=
  forallb (fun t => ty_eqb (ddom t) (sdom s) && ty_eqb (dcod t) (scod s)) (sterms s).

(* cat.Sum.subs *)
Definition sum_subs (fx : fixes) (cls : dclass) (f : sform) (s : psum) : xres psum :=
  dox ts <- xmapM (dsubs fx cls f) (sterms s);
  let r := PS (sdom s) (scod s) ts in
  if sum_ok r then XOk r else XErr XAxiom.

(* what one would expect, and what the repaired Sum.free_symbols returns *)
Definition sum_free_expected (s : psum) : list var := zset_of (flat_map dfree (sterms s)).
(* pinned: a Sum is a Box with data None: its free symbols are {} whatever its terms (F11i) *)
Definition sum_free (fx : fixes) (s : psum) : list var :=
  if fx_i fx then sum_free_expected s else [].
(* pinned: Sum.lambdify is cat.Box.lambdify: no symbol is free, so it returns self (F11j);
   repaired: the terms are lambdified in order and summed again *)
Definition sum_lambdify (fx : fixes) (cls : dclass) (syms : list var) (vals : list pexpr)
  (s : psum) : xres psum :=
  if fx_j fx then
    dox ts <- xmapM (dlambdify fx cls syms vals) (sterms s);
    let r := PS (sdom s) (scod s) ts in
    if sum_ok r then XOk r else XErr XAxiom
  else if fx_i fx && existsb (fun x => zmem x (sum_free_expected s)) syms
  then XErr XAttribute   (* only F11i repaired: the guard of the inherited cat.Box.lambdify now
                            passes and sympy.lambdify is handed the data None of the Sum box *)
  else XOk s.

(* ---- can numpy evaluate the boxes?  Rotation.array takes numpy.sin / exp of
   the phase when the box has no free symbol; a sympy number is not accepted
   (F11a).  A Python number or a symbolic phase is fine. ---- *)
Definition box_evaluable (b : pbox) : bool :=
  match pk b, pdat b with
  | KRot, DScalar e => negb (esym e && closed (epoly e))
  | _, _ => true
  end.
Definition deval_status (d : pdiagram) : xres unit :=
  if forallb box_evaluable (dboxes d) then XOk tt else XErr XType.

(* ---- tensor.Tensor.subs / lambdify on evaluation results ---- *)
Record ptensor := PT { tdom : ty; tcod : ty; tents : list pexpr }.

(* self.map(lambda x: getattr(x, "subs", lambda y, *_: y)(args)) : an entry
   without .subs (a Python / numpy number) is replaced by the first argument,
   i.e. by the variable, or by the list of pairs, which numpy refuses (F11d) *)
Definition tensor_subs_expected (f : sform) (t : ptensor) : ptensor :=
  PT (tdom t) (tcod t) (map (expr_subs (form_sigma f)) (tents t)).
(* repaired: the fallback is lambda *_: x, entries without .subs stay as they are *)
Definition tensor_subs (fx : fixes) (f : sform) (t : ptensor) : xres ptensor :=
  if fx_d fx then XOk (tensor_subs_expected f t) else
  match f with
  | SSingle x v =>
      XOk (PT (tdom t) (tcod t)
              (map (fun e => if esym e then expr_subs [(x, v)] e else PE true (poly_var x))
                   (tents t)))
  | SList s =>
      if forallb esym (tents t)
      then XOk (PT (tdom t) (tcod t) (map (expr_subs s) (tents t)))
      else XErr XValue
  end.

(* sympy.lambdify on a numpy object array raises TypeError (F11g) *)
Definition tensor_lambdify (syms : list var) (vals : list pexpr) (t : ptensor)
  : xres ptensor := XErr XType.
(* CQMap.subs = Tensor.subs -> Tensor.map builds Tensor(self.dom, self.cod, entries)
   with CQ types: numpy.array(entries) first (ValueError as in Tensor.subs when the
   entries are inhomogeneous), then .reshape(dom @ cod or (1, )) which raises
   TypeError unless both types are empty (F11e).  The result is a Tensor. *)
Definition cq_nonempty (t : ptensor) : bool :=
  negb (match tdom t, tcod t with [], [] => true | _, _ => false end).
Definition cqmap_subs (fx : fixes) (f : sform) (t : ptensor) : xres ptensor :=
  let all_python := forallb (fun e => negb (esym e)) (tents t) in
  if cq_nonempty t then
    match f with
    | SList _ => if all_python then XErr XType else dox _ <- tensor_subs fx f t; XErr XType
    | SSingle _ _ => dox _ <- tensor_subs fx f t; XErr XType
    end
  else tensor_subs fx f t.

(* ---- grounding: the numbers an evaluation sees ---- *)
Definition ground_data (rho : env) (d : pdata) : Z * list Qc :=
  match d with
  | DNone => (0, [])
  | DScalar e => (1, [expr_eval rho e])
  | DList es => (2, map (expr_eval rho) es)
  end.

Record gbox := GB {
  gk : pkind; gname : Z; gdom : ty; gcod : ty; gdag : bool; gmixed : bool;
  gvals : Z * list Qc }.
Definition ground_box (rho : env) (b : pbox) : gbox :=
  GB (pk b) (pname b) (pdom b) (pcod b) (pdag b) (pmixed b) (ground_data rho (pdat b)).
(* the same, forgetting the two flags *)
Definition ground_box_nf (rho : env) (b : pbox) : gbox :=
  GB (pk b) (pname b) (pdom b) (pcod b) false false (ground_data rho (pdat b)).

Record gdiagram := GD { gddom : ty; gdcod : ty; gboxes : list gbox; goffs : list Z }.
Definition ground (rho : env) (d : pdiagram) : gdiagram :=
  GD (ddom d) (dcod d) (map (ground_box rho) (dboxes d)) (doffs d).
Definition ground_nf (rho : env) (d : pdiagram) : gdiagram :=
  GD (ddom d) (dcod d) (map (ground_box_nf rho) (dboxes d)) (doffs d).

(* ---- invariants of boxes as the library builds them ---- *)
Definition data_wf (d : pdata) : bool := forallb (fun e => esym e || closed (epoly e)) (data_exprs d).
Definition box_wf (b : pbox) : bool :=
  data_wf (pdat b) &&
  match pk b with
  | KGen => true
  | KRot | KSqrt => negb (pdag b) && negb (pmixed b)
                    && match pdat b with DScalar _ => true | _ => false end
  | KQScalar => negb (pdag b) && match pdat b with DScalar _ => true | _ => false end
  | KMixedScalar => negb (pdag b) && pmixed b && match pdat b with DScalar _ => true | _ => false end
  | KClassical => negb (pmixed b) && match pdat b with DScalar _ => false | _ => true end
  | KSpider | KZScalar => negb (pdag b) && negb (pmixed b)
                          && match pdat b with DScalar _ => true | _ => false end
  end.
Definition dwf (d : pdiagram) : bool := wf d && forallb box_wf (dboxes d).

(* ---- triggers of the flag findings ---- *)
(* F11b: Scalar(..., is_mixed=True) rebuilt as Scalar(data); a pure generic
   circuit.Box with data rebuilt with the default is_mixed=True *)
Definition f11b_box (fx : fixes) (cls : dclass) (vars : list var) (b : pbox) : bool :=
  negb (fx_b fx) &&
  match pk b with
  | KQScalar => pmixed b
  | KGen => dclass_eqb cls CCircuit && guard vars b && negb (pmixed b)
  | _ => false
  end.
(* F11c: ClassicalGate.subs drops _dagger *)
Definition f11c_box (fx : fixes) (b : pbox) : bool :=
  negb (fx_c fx) && match pk b with KClassical => pdag b | _ => false end.
(* F11h: ClassicalGate with data None (Bits, Digits) *)
Definition f11h_box (fx : fixes) (b : pbox) : bool :=
  negb (fx_h fx) && match pk b, pdat b with KClassical, DNone => true | _, _ => false end.
