(* Canonical forms of Param/Expr.v polynomials.

   poly_canon p : the invariant the arithmetic of Expr.v maintains (monomials
   with strictly increasing symbols and exponents >= 1, coefficients non-zero,
   terms strictly sorted by mono_cmp).  Proved here:
     - every operation of Expr.v returns a canonical polynomial
       (poly_add / mul / pow / norm, subs_sim, subs_one, subs_seq, ...);
     - canonical forms are unique: two canonical polynomials with the same value
       under every environment over Q are (Leibniz) equal  [canon_unique] --
       the identity theorem for multivariate polynomials over Q, by induction
       on the number of symbols, a polynomial in one symbol of degree < d
       vanishing at 0, 1, ..., d-1 being zero;
     - free symbols are exact: a symbol occurs in a canonical polynomial iff
       the value depends on it  [fs_exact].
   New file; nothing of Expr.v / ExprLemmas.v is changed. *)
From Coq Require Import List ZArith Bool Lia QArith Qcanon.
From Coq Require FinFun.
Import ListNotations.
Require Import DV.Common.Base DV.Param.Expr DV.Param.ExprLemmas.
Local Open Scope Qc_scope.

(* ================================================================ 1. one symbol *)
(* a + t * (b + t * (...)) *)
Fixpoint horner (l : list Qc) (t : Qc) : Qc :=
  match l with [] => 0 | a :: l' => a + t * horner l' t end.

(* quotient of (a :: l) by (t - r), whatever a *)
Fixpoint hquot (r : Qc) (l : list Qc) : list Qc :=
  match l with [] => [] | b :: l' => horner (b :: l') r :: hquot r l' end.

Lemma hquot_length : forall r l, length (hquot r l) = length l.
Proof. induction l as [|b l IH]; simpl; [reflexivity | rewrite IH; reflexivity]. Qed.

Lemma horner_factor : forall r t l a,
  horner (a :: l) t = (t - r) * horner (hquot r l) t + horner (a :: l) r.
Proof.
  intros r t. induction l as [|b l IH]; intros a.
  - simpl. ring.
  - change (horner (a :: b :: l) t) with (a + t * horner (b :: l) t).
    change (horner (a :: b :: l) r) with (a + r * horner (b :: l) r).
    change (hquot r (b :: l)) with (horner (b :: l) r :: hquot r l).
    change (horner (horner (b :: l) r :: hquot r l) t)
      with (horner (b :: l) r + t * horner (hquot r l) t).
    rewrite (IH b). ring.
Qed.

Lemma horner_zeros : forall l t, Forall (fun a => a = 0) l -> horner l t = 0.
Proof.
  induction l as [|a l IH]; intros t H; [reflexivity|].
  inversion H as [|? ? Ha Hl]; subst. simpl. rewrite (IH t Hl). ring.
Qed.

Lemma hquot_zeros : forall r l, Forall (fun a => a = 0) (hquot r l) -> Forall (fun a => a = 0) l.
Proof.
  induction l as [|b l IH]; intros H; [constructor|].
  change (hquot r (b :: l)) with (horner (b :: l) r :: hquot r l) in H.
  inversion H as [|? ? Hb Hl]; subst. specialize (IH Hl).
  constructor; [|exact IH].
  simpl in Hb. rewrite (horner_zeros l r IH) in Hb.
  replace b with (b + r * 0) by ring. exact Hb.
Qed.

Lemma Qc_sub_0 : forall a b : Qc, a - b = 0 -> a = b.
Proof. intros a b H. replace a with ((a - b) + b) by ring. rewrite H. ring. Qed.

(* degree < length l, as many distinct roots as coefficients: all coefficients are 0 *)
Lemma horner_roots_n : forall n l roots,
  length l = n -> NoDup roots -> length roots = n ->
  (forall r, In r roots -> horner l r = 0) -> Forall (fun a => a = 0) l.
Proof.
  induction n as [|n IH]; intros l roots Ll ND L H.
  - destruct l; [constructor | discriminate].
  - destruct l as [|a l]; [discriminate|]. destruct roots as [|r rs]; [discriminate|].
    inversion ND as [|? ? Hnotin ND']; subst.
    assert (Hr : horner (a :: l) r = 0) by (apply H; left; reflexivity).
    assert (Hq : Forall (fun c => c = 0) (hquot r l)).
    { apply (IH (hquot r l) rs).
      - rewrite hquot_length. simpl in Ll. congruence.
      - exact ND'.
      - simpl in L. congruence.
      - intros r' Hr'. assert (E := horner_factor r r' l a).
        rewrite Hr, (H r' (or_intror Hr')) in E.
        assert (E' : (r' - r) * horner (hquot r l) r' = 0) by (rewrite E; ring).
        apply Qcmult_integral in E'. destruct E' as [E'|E']; [|exact E'].
        exfalso. apply Hnotin. apply Qc_sub_0 in E'. subst. exact Hr'. }
    apply hquot_zeros in Hq. constructor; [|exact Hq].
    simpl in Hr. rewrite (horner_zeros l r Hq) in Hr.
    replace a with (a + r * 0) by ring. exact Hr.
Qed.

Lemma horner_roots : forall l roots,
  NoDup roots -> length roots = length l ->
  (forall r, In r roots -> horner l r = 0) -> Forall (fun a => a = 0) l.
Proof. intros l roots ND L H. apply (horner_roots_n (length l) l roots); auto. Qed.

(* sum_{k<d} f k * t^k *)
Fixpoint psum (d : nat) (f : nat -> Qc) (t : Qc) : Qc :=
  match d with O => 0 | S d' => psum d' f t + f d' * qpow t d' end.

Lemma psum_ext : forall d f g t, (forall k, (k < d)%nat -> f k = g k) -> psum d f t = psum d g t.
Proof.
  induction d as [|d IH]; intros f g t H; [reflexivity|].
  simpl. rewrite (IH f g t), (H d) by (intros; try apply H; lia). reflexivity.
Qed.

Lemma psum_plus : forall d f g t, psum d (fun k => f k + g k) t = psum d f t + psum d g t.
Proof. induction d as [|d IH]; intros; simpl; [ring | rewrite IH; ring]. Qed.

Lemma psum_delta : forall d j a t, (j < d)%nat ->
  psum d (fun k => if (j =? k)%nat then a else 0) t = a * qpow t j.
Proof.
  induction d as [|d IH]; intros j a t H; [lia|].
  simpl. destruct (Nat.eq_dec j d) as [E|E].
  - subst. rewrite Nat.eqb_refl.
    rewrite (psum_ext d _ (fun _ => 0)).
    + assert (Z0 : forall n, psum n (fun _ => 0) t = 0) by (induction n; simpl; [reflexivity | rewrite IHn; ring]).
      rewrite Z0. ring.
    + intros k Hk. destruct (d =? k)%nat eqn:E; [apply Nat.eqb_eq in E; lia | reflexivity].
  - rewrite IH by lia. destruct (j =? d)%nat eqn:E'; [apply Nat.eqb_eq in E'; lia | ring].
Qed.

Lemma psum_const0 : forall d t, psum d (fun _ => 0) t = 0.
Proof. induction d; intros; simpl; [reflexivity | rewrite IHd; ring]. Qed.

Lemma psum_shift : forall d f t, psum (S d) f t = f O + t * psum d (fun k => f (S k)) t.
Proof.
  induction d as [|d IH]; intros f t.
  - simpl. ring.
  - change (psum (S (S d)) f t) with (psum (S d) f t + f (S d) * qpow t (S d)).
    rewrite IH. simpl. ring.
Qed.

Lemma horner_psum : forall d f t, horner (map f (seq 0 d)) t = psum d f t.
Proof.
  induction d as [|d IH]; intros f t; [reflexivity|].
  rewrite psum_shift. change (seq 0 (S d)) with (O :: seq 1 d).
  rewrite <- seq_shift, map_cons, map_map. simpl. rewrite IH. reflexivity.
Qed.

Definition qnat (i : nat) : Qc := Q2Qc (inject_Z (Z.of_nat i)).

Lemma qnat_inj : forall i j, qnat i = qnat j -> i = j.
Proof.
  intros i j H. unfold qnat in H. apply Q2Qc_eq_iff in H.
  unfold Qeq, inject_Z in H. simpl in H. lia.
Qed.

(* a polynomial function of degree < d that vanishes at 0, 1, ..., d-1 has all coefficients 0 *)
Lemma psum_zero_grid : forall d f,
  (forall i, (i < d)%nat -> psum d f (qnat i) = 0) -> forall k, (k < d)%nat -> f k = 0.
Proof.
  intros d f H k Hk.
  assert (Z0 : Forall (fun a => a = 0) (map f (seq 0 d))).
  { apply (horner_roots _ (map qnat (seq 0 d))).
    - apply FinFun.Injective_map_NoDup; [exact qnat_inj | apply seq_NoDup].
    - rewrite !map_length. reflexivity.
    - intros r Hr. apply in_map_iff in Hr. destruct Hr as [i [E Hi]]. subst r.
      apply in_seq in Hi. rewrite horner_psum. apply H. lia. }
  rewrite Forall_forall in Z0. apply Z0. apply in_map_iff. exists k.
  split; [reflexivity | apply in_seq; lia].
Qed.

Lemma psum_zero : forall d f, (forall t, psum d f t = 0) -> forall k, (k < d)%nat -> f k = 0.
Proof. intros d f H. apply psum_zero_grid. intros i _. apply H. Qed.

(* ================================================================ 2. the order on monomials *)
Lemma mono_cmp_refl : forall a, mono_cmp a a = Eq.
Proof.
  induction a as [|[x e] a IH]; simpl; [reflexivity|].
  rewrite Z.compare_refl, Nat.compare_refl. exact IH.
Qed.

Lemma mono_cmp_antisym : forall a b, mono_cmp b a = CompOpp (mono_cmp a b).
Proof.
  induction a as [|[x e] a IH]; destruct b as [|[y f] b]; simpl; try reflexivity.
  rewrite (Z.compare_antisym x y). destruct (x ?= y)%Z; simpl; try reflexivity.
  rewrite (Nat.compare_antisym e f). destruct (e ?= f)%nat; simpl; try reflexivity.
  apply IH.
Qed.

Lemma mono_cmp_gt_lt : forall a b, mono_cmp a b = Gt -> mono_cmp b a = Lt.
Proof. intros a b H. rewrite mono_cmp_antisym, H. reflexivity. Qed.

Lemma mono_cmp_lt_gt : forall a b, mono_cmp a b = Lt -> mono_cmp b a = Gt.
Proof. intros a b H. rewrite mono_cmp_antisym, H. reflexivity. Qed.

Lemma mono_cmp_trans : forall a b c,
  mono_cmp a b = Lt -> mono_cmp b c = Lt -> mono_cmp a c = Lt.
Proof.
  induction a as [|[x e] a IH]; intros [|[y f] b] [|[z g] c] H1 H2; simpl in *;
    try reflexivity; try discriminate.
  destruct (Z.compare_spec x y) as [Exy|Lxy|Gxy]; try discriminate.
  - subst y. destruct (Z.compare_spec x z) as [Exz|Lxz|Gxz]; try discriminate; try reflexivity.
    destruct (Nat.compare_spec e f) as [Eef|Lef|Gef]; try discriminate.
    + subst f. destruct (Nat.compare_spec e g) as [Eeg|Leg|Geg]; try discriminate; try reflexivity.
      eapply IH; eassumption.
    + destruct (Nat.compare_spec f g) as [Efg|Lfg|Gfg]; try discriminate.
      * subst g. apply Nat.compare_lt_iff in Lef. rewrite Lef. reflexivity.
      * assert (L : (e < g)%nat) by lia. apply Nat.compare_lt_iff in L. rewrite L. reflexivity.
  - destruct (Z.compare_spec y z) as [Eyz|Lyz|Gyz]; try discriminate.
    + subst z. apply Z.compare_lt_iff in Lxy. rewrite Lxy. reflexivity.
    + assert (L : (x < z)%Z) by lia. apply Z.compare_lt_iff in L. rewrite L. reflexivity.
Qed.

Definition mono_eqb (a b : mono) : bool := match mono_cmp a b with Eq => true | _ => false end.

Lemma mono_eqb_true : forall a b, mono_eqb a b = true <-> a = b.
Proof.
  intros a b. unfold mono_eqb. split.
  - destruct (mono_cmp a b) eqn:E; try discriminate. intros _. apply mono_cmp_eq. exact E.
  - intros ->. rewrite mono_cmp_refl. reflexivity.
Qed.

Lemma mono_eqb_refl : forall a, mono_eqb a a = true.
Proof. intros. apply mono_eqb_true. reflexivity. Qed.

(* ================================================================ 3. the invariant *)
(* symbols strictly increasing and >= lb, exponents >= 1 *)
Fixpoint mono_ok (lb : Z) (m : mono) : bool :=
  match m with
  | [] => true
  | (y, f) :: m' => (lb <=? y)%Z && (1 <=? f)%nat && mono_ok (y + 1) m'
  end.

Definition mono_canon (m : mono) : bool :=
  match m with [] => true | (y, _) :: _ => mono_ok y m end.

Definition mono_ltb (a b : mono) : bool := match mono_cmp a b with Lt => true | _ => false end.

(* strictly sorted: every term is below all later ones *)
Fixpoint poly_sorted (p : poly) : bool :=
  match p with
  | [] => true
  | t :: p' => forallb (fun t' => mono_ltb (fst t) (fst t')) p' && poly_sorted p'
  end.

Definition term_ok (t : term) : bool := mono_canon (fst t) && negb (qc_is0 (snd t)).

(* the canonical form: what sympy.Poly(...).terms() is compared with *)
Definition poly_canon (p : poly) : bool := forallb term_ok p && poly_sorted p.

(* only the monomials are canonical (no order, coefficients arbitrary) *)
Definition monos_ok (p : poly) : bool := forallb (fun t => mono_canon (fst t)) p.

(* Prop views *)
Definition below (m : mono) (p : poly) : Prop := Forall (fun t => mono_cmp m (fst t) = Lt) p.

Fixpoint psorted (p : poly) : Prop :=
  match p with [] => True | t :: p' => below (fst t) p' /\ psorted p' end.

Definition PCanon (p : poly) : Prop :=
  Forall (fun t => mono_canon (fst t) = true /\ snd t <> 0) p /\ psorted p.

Lemma qc_is0_false : forall c, qc_is0 c = false <-> c <> 0.
Proof.
  intros c. split.
  - intros H E. subst c. vm_compute in H. discriminate.
  - intros H. destruct (qc_is0 c) eqn:E; [|reflexivity]. apply qc_is0_true in E. contradiction.
Qed.

Lemma below_iff : forall m p, forallb (fun t' => mono_ltb m (fst t')) p = true <-> below m p.
Proof.
  intros m p. unfold below. rewrite forallb_forall, Forall_forall.
  split; intros H t Ht; specialize (H t Ht); unfold mono_ltb in *;
    destruct (mono_cmp m (fst t)); congruence.
Qed.

Lemma poly_sorted_iff : forall p, poly_sorted p = true <-> psorted p.
Proof.
  induction p as [|t p IH]; simpl; [tauto|].
  rewrite andb_true_iff, below_iff, IH. tauto.
Qed.

Lemma poly_canon_iff : forall p, poly_canon p = true <-> PCanon p.
Proof.
  intros p. unfold poly_canon, PCanon. rewrite andb_true_iff, poly_sorted_iff.
  rewrite forallb_forall, Forall_forall.
  split; intros [H1 H2]; (split; [|exact H2]); intros t Ht; specialize (H1 t Ht); unfold term_ok in *.
  - apply andb_prop in H1. destruct H1 as [A B]. split; [exact A|].
    apply qc_is0_false. apply negb_true_iff. exact B.
  - destruct H1 as [A B]. rewrite A. apply qc_is0_false in B. rewrite B. reflexivity.
Qed.

Lemma poly_canon_monos : forall p, poly_canon p = true -> monos_ok p = true.
Proof.
  intros p H. unfold poly_canon in H. apply andb_prop in H. destruct H as [H _].
  unfold monos_ok. rewrite forallb_forall in *. intros t Ht. specialize (H t Ht).
  unfold term_ok in H. apply andb_prop in H. tauto.
Qed.

(* ---- monomials ---- *)
Lemma mono_ok_cons : forall lb y f m,
  mono_ok lb ((y, f) :: m) = true <-> (lb <= y)%Z /\ (1 <= f)%nat /\ mono_ok (y + 1) m = true.
Proof.
  intros. cbn [mono_ok]. rewrite !andb_true_iff, Z.leb_le, Nat.leb_le. tauto.
Qed.

Lemma mono_ok_weaken : forall lb lb' m, (lb' <= lb)%Z -> mono_ok lb m = true -> mono_ok lb' m = true.
Proof.
  intros lb lb' [|[y f] m] L H; [reflexivity|].
  apply mono_ok_cons in H. apply mono_ok_cons. destruct H as [H1 [H2 H3]].
  split; [lia | split; assumption].
Qed.

Lemma mono_canon_iff : forall m, mono_canon m = true <-> exists lb, mono_ok lb m = true.
Proof.
  intros [|[y f] m]; split.
  - intros _. exists 0%Z. reflexivity.
  - reflexivity.
  - intros H. exists y. exact H.
  - intros [lb H]. unfold mono_canon. apply mono_ok_cons in H. apply mono_ok_cons.
    destruct H as [H1 [H2 H3]]. split; [lia | split; assumption].
Qed.

Lemma mono_ok_ins : forall m lb lb' x e,
  mono_ok lb m = true -> (lb' <= lb)%Z -> (lb' <= x)%Z -> (1 <= e)%nat ->
  mono_ok lb' (mono_ins x e m) = true.
Proof.
  induction m as [|[y f] m IH]; intros lb lb' x e H L Lx Le.
  - cbn [mono_ins]. apply mono_ok_cons. split; [lia | split; [lia | reflexivity]].
  - apply mono_ok_cons in H. destruct H as [H1 [H2 H3]].
    cbn [mono_ins]. destruct (x <? y)%Z eqn:E1.
    + apply Z.ltb_lt in E1. apply mono_ok_cons. split; [lia | split; [lia|]].
      apply mono_ok_cons. split; [lia | split; assumption].
    + destruct (x =? y)%Z eqn:E2.
      * apply Z.eqb_eq in E2. subst. apply mono_ok_cons. split; [lia | split; [lia | exact H3]].
      * apply Z.ltb_ge in E1. apply Z.eqb_neq in E2.
        apply mono_ok_cons. split; [lia | split; [lia|]].
        apply (IH (y + 1)%Z); [exact H3 | lia | lia | exact Le].
Qed.

Lemma mono_canon_ins : forall x e m, (1 <= e)%nat -> mono_canon m = true ->
  mono_canon (mono_ins x e m) = true.
Proof.
  intros x e m Le H. apply mono_canon_iff in H. destruct H as [lb H].
  apply mono_canon_iff. exists (Z.min lb x).
  apply (mono_ok_ins m lb); [exact H | lia | lia | exact Le].
Qed.

Lemma mono_canon_ins0 : forall x e m, mono_canon m = true -> mono_canon (mono_ins0 x e m) = true.
Proof.
  intros x [|e] m H; [exact H|]. unfold mono_ins0. apply mono_canon_ins; [lia | exact H].
Qed.

(* whatever a is *)
Lemma mono_canon_mul : forall a b, mono_canon b = true -> mono_canon (mono_mul a b) = true.
Proof.
  induction a as [|[x e] a IH]; intros b H; [exact H|].
  unfold mono_mul in *. simpl. apply mono_canon_ins0. apply IH. exact H.
Qed.

Lemma mono_canon_norm : forall m, mono_canon (mono_norm m) = true.
Proof. intros. unfold mono_norm. apply mono_canon_mul. reflexivity. Qed.

(* ---- polynomials ---- *)
Lemma below_ins : forall m0 m c p, below m0 p -> mono_cmp m0 m = Lt -> below m0 (poly_ins m c p).
Proof.
  intros m0 m c. induction p as [|[m' c'] p IH]; intros B L.
  - simpl. constructor; [exact L | constructor].
  - inversion B as [|? ? B1 B2]; subst. simpl.
    destruct (mono_cmp m m') eqn:E.
    + destruct (qc_is0 (c + c')); [exact B2 | constructor; assumption].
    + constructor; [exact L | exact B].
    + constructor; [exact B1 | apply IH; assumption].
Qed.

Lemma below_trans : forall m m' p, mono_cmp m m' = Lt -> below m' p -> below m p.
Proof.
  intros m m' p L B. unfold below in *. rewrite Forall_forall in *.
  intros t Ht. eapply mono_cmp_trans; [exact L | apply B; exact Ht].
Qed.

Lemma PCanon_ins : forall m c p, mono_canon m = true -> c <> 0 -> PCanon p -> PCanon (poly_ins m c p).
Proof.
  intros m c p Hm Hc. induction p as [|[m' c'] p IH]; intros [F S].
  - simpl. split.
    + apply Forall_cons; [split; assumption | apply Forall_nil].
    + split; [apply Forall_nil | exact Logic.I].
  - inversion F as [|? ? [F1 F1'] F2]; subst. destruct S as [S1 S2]. simpl in F1, F1', S1.
    simpl. destruct (mono_cmp m m') eqn:E.
    + apply mono_cmp_eq in E. subst m'.
      destruct (qc_is0 (c + c')) eqn:Z0.
      * split; assumption.
      * apply qc_is0_false in Z0. split; [constructor; [split; assumption | exact F2] | split; assumption].
    + split; [constructor; [split; assumption | exact F]|].
      split; [|split; assumption].
      constructor; [exact E | eapply below_trans; eassumption].
    + destruct (IH (conj F2 S2)) as [F' S'].
      split; [constructor; [split; assumption | exact F']|].
      split; [|exact S'].
      apply below_ins; [exact S1 | apply mono_cmp_gt_lt; exact E].
Qed.

Lemma PCanon_add_term : forall m c p, mono_canon m = true -> PCanon p -> PCanon (poly_add_term m c p).
Proof.
  intros m c p Hm Hp. unfold poly_add_term. destruct (qc_is0 c) eqn:Z0; [exact Hp|].
  apply PCanon_ins; [exact Hm | apply qc_is0_false; exact Z0 | exact Hp].
Qed.

Lemma PCanon_nil : PCanon [].
Proof. split; [constructor | exact Logic.I]. Qed.

Lemma monos_ok_cons : forall t p, monos_ok (t :: p) = true <-> mono_canon (fst t) = true /\ monos_ok p = true.
Proof. intros. unfold monos_ok. simpl. apply andb_true_iff. Qed.

Lemma PCanon_monos : forall p, PCanon p -> monos_ok p = true.
Proof. intros p H. apply poly_canon_monos. apply poly_canon_iff. exact H. Qed.

(* only the monomials of the first argument matter *)
Lemma PCanon_add : forall p q, monos_ok p = true -> PCanon q -> PCanon (poly_add p q).
Proof.
  induction p as [|[m c] p IH]; intros q Hp Hq; [exact Hq|].
  apply monos_ok_cons in Hp. destruct Hp as [Hm Hp].
  unfold poly_add in *. simpl. apply PCanon_add_term; [exact Hm | apply IH; assumption].
Qed.

Lemma PCanon_scale_mono : forall m c q, monos_ok q = true -> PCanon (poly_scale_mono m c q).
Proof.
  induction q as [|[m' c'] q IH]; intros Hq; [exact PCanon_nil|].
  apply monos_ok_cons in Hq. destruct Hq as [Hm Hq].
  unfold poly_scale_mono in *. simpl. apply PCanon_add_term; [|apply IH; exact Hq].
  apply mono_canon_mul. exact Hm.
Qed.

(* whatever p is *)
Lemma PCanon_mul : forall p q, monos_ok q = true -> PCanon (poly_mul p q).
Proof.
  induction p as [|[m c] p IH]; intros q Hq; [exact PCanon_nil|].
  unfold poly_mul in *. simpl. apply PCanon_add; [|apply IH; exact Hq].
  apply PCanon_monos. apply PCanon_scale_mono. exact Hq.
Qed.

Lemma PCanon_const : forall c, PCanon (poly_const c).
Proof. intros. unfold poly_const. apply PCanon_add_term; [reflexivity | exact PCanon_nil]. Qed.

Lemma PCanon_one : PCanon poly_one.
Proof. apply PCanon_const. Qed.

Lemma PCanon_var : forall x, PCanon (poly_var x).
Proof.
  intros x. apply poly_canon_iff. unfold poly_var, poly_canon, term_ok. simpl.
  rewrite Z.leb_refl. reflexivity.
Qed.

Lemma PCanon_pow : forall p n, PCanon (poly_pow p n).
Proof.
  intros p [|n]; [exact PCanon_one|].
  change (poly_pow p (S n)) with (poly_mul p (poly_pow p n)).
  apply PCanon_mul. apply PCanon_monos. induction n as [|n IH]; [exact PCanon_one|].
  change (poly_pow p (S n)) with (poly_mul p (poly_pow p n)).
  apply PCanon_mul. apply PCanon_monos. exact IH.
Qed.

Lemma PCanon_norm : forall p, PCanon (poly_norm p).
Proof.
  induction p as [|[m c] p IH]; [exact PCanon_nil|].
  change (poly_norm ((m, c) :: p)) with (poly_add_term (mono_norm m) c (poly_norm p)).
  apply PCanon_add_term; [apply mono_canon_norm | exact IH].
Qed.

(* whatever the substitution and the monomial are *)
Lemma PCanon_subs_mono : forall s m, PCanon (subs_mono s m).
Proof.
  intros s [|[x e] m]; [exact PCanon_one|].
  change (subs_mono s ((x, e) :: m)) with (poly_mul (poly_pow (image s x) e) (subs_mono s m)).
  apply PCanon_mul. apply PCanon_monos.
  induction m as [|[y f] m IH]; [exact PCanon_one|].
  change (subs_mono s ((y, f) :: m)) with (poly_mul (poly_pow (image s y) f) (subs_mono s m)).
  apply PCanon_mul. apply PCanon_monos. exact IH.
Qed.

(* the result of a substitution is canonical whatever went in *)
Lemma PCanon_subs_sim : forall s p, PCanon (subs_sim s p).
Proof.
  induction p as [|[m c] p IH]; [exact PCanon_nil|].
  change (subs_sim s ((m, c) :: p)) with (poly_add (poly_scale_mono [] c (subs_mono s m)) (subs_sim s p)).
  apply PCanon_add; [|exact IH].
  apply PCanon_monos. apply PCanon_scale_mono. apply PCanon_monos. apply PCanon_subs_mono.
Qed.

Lemma PCanon_subs_one : forall x v p, PCanon (subs_one x v p).
Proof. intros. unfold subs_one. apply PCanon_subs_sim. Qed.

Lemma PCanon_subs_seq : forall s p, PCanon p -> PCanon (subs_seq s p).
Proof.
  induction s as [|[x v] s IH]; intros p Hp; [exact Hp|].
  unfold subs_seq in *. simpl. apply IH. apply PCanon_subs_one.
Qed.

(* ================================================================ 4. coefficients *)
(* total coefficient of the monomial m in a list of terms (not necessarily merged) *)
Fixpoint coef (m : mono) (p : poly) : Qc :=
  match p with
  | [] => 0
  | (m', c) :: p' => (if mono_eqb m' m then c else 0) + coef m p'
  end.

Definition pneg (p : poly) : poly := map (fun t => (fst t, - snd t)) p.

Lemma coef_app : forall m p q, coef m (p ++ q) = coef m p + coef m q.
Proof. induction p as [|[m' c] p IH]; intros; simpl; [ring | rewrite IH; ring]. Qed.

Lemma coef_neg : forall m p, coef m (pneg p) = - coef m p.
Proof.
  induction p as [|[m' c] p IH]; simpl; [ring|]. rewrite IH.
  destruct (mono_eqb m' m); ring.
Qed.

Lemma eval_poly_app : forall rho p q, eval_poly rho (p ++ q) = eval_poly rho p + eval_poly rho q.
Proof. induction p as [|[m c] p IH]; intros; simpl; [ring | rewrite IH; ring]. Qed.

Lemma eval_poly_neg : forall rho p, eval_poly rho (pneg p) = - eval_poly rho p.
Proof. induction p as [|[m c] p IH]; simpl; [ring | rewrite IH; ring]. Qed.

Lemma coef_below : forall m p, below m p -> coef m p = 0.
Proof.
  induction p as [|[m' c] p IH]; intros B; [reflexivity|].
  inversion B as [|? ? B1 B2]; subst. simpl in *. rewrite (IH B2).
  unfold mono_eqb. rewrite (mono_cmp_lt_gt _ _ B1). ring.
Qed.

(* a sorted list of terms with non-zero coefficients is determined by its coefficients *)
Lemma canon_coef_unique : forall p q, PCanon p -> PCanon q ->
  (forall m, coef m p = coef m q) -> p = q.
Proof.
  induction p as [|[m c] p IH]; intros q Hp Hq H.
  - destruct q as [|[m' c'] q]; [reflexivity|]. exfalso.
    destruct Hq as [Fq [Bq _]]. inversion Fq as [|? ? [_ Nz] _]; subst. simpl in Nz, Bq.
    specialize (H m'). simpl in H. rewrite mono_eqb_refl, (coef_below _ _ Bq) in H.
    apply Nz. rewrite H. ring_simplify. replace c' with (c' + 0) by ring. rewrite <- H. reflexivity.
  - destruct Hp as [Fp [Bp Sp]]. inversion Fp as [|? ? [_ Nz] Fp']; subst. simpl in Nz, Bp.
    destruct q as [|[m' c'] q].
    + exfalso. specialize (H m). simpl in H. rewrite mono_eqb_refl, (coef_below _ _ Bp) in H.
      apply Nz. replace c with (c + 0) by ring. exact H.
    + destruct Hq as [Fq [Bq Sq]]. inversion Fq as [|? ? [_ Nz'] Fq']; subst. simpl in Nz', Bq.
      destruct (mono_cmp m m') eqn:E.
      * apply mono_cmp_eq in E. subst m'.
        assert (Ec : c = c').
        { specialize (H m). simpl in H.
          rewrite mono_eqb_refl, (coef_below _ _ Bp), (coef_below _ _ Bq) in H.
          replace c with (c + 0) by ring. rewrite H. ring. }
        subst c'. f_equal. apply IH; [split; assumption | split; assumption|].
        intros n. specialize (H n). simpl in H.
        destruct (mono_eqb m n) eqn:En.
        -- apply mono_eqb_true in En. subst n.
           rewrite (coef_below _ _ Bp), (coef_below _ _ Bq). reflexivity.
        -- replace (coef n p) with (0 + coef n p) by ring. rewrite H. ring.
      * exfalso. specialize (H m). simpl in H.
        rewrite mono_eqb_refl, (coef_below _ _ Bp) in H.
        assert (Bq' : below m q) by (eapply below_trans; eassumption).
        rewrite (coef_below _ _ Bq') in H. unfold mono_eqb in H.
        rewrite (mono_cmp_lt_gt _ _ E) in H.
        apply Nz. replace c with (c + 0) by ring. rewrite H. ring.
      * exfalso. apply mono_cmp_gt_lt in E. specialize (H m'). simpl in H.
        rewrite mono_eqb_refl, (coef_below _ _ Bq) in H.
        assert (Bp' : below m' p) by (eapply below_trans; eassumption).
        rewrite (coef_below _ _ Bp') in H. unfold mono_eqb in H.
        rewrite (mono_cmp_lt_gt _ _ E) in H.
        apply Nz'. replace c' with (c' + 0) by ring. rewrite <- H. ring.
Qed.

(* ================================================================ 5. slicing by the least symbol *)
(* canonical monomial whose symbols are in [lb, ub) *)
Definition mono_bd (lb ub : Z) (m : mono) : bool :=
  mono_ok lb m && forallb (fun y => (y <? ub)%Z) (mono_vars m).
Definition monos_bd (lb ub : Z) (p : poly) : bool := forallb (fun t => mono_bd lb ub (fst t)) p.

Lemma mono_bd_cons : forall lb ub y f m,
  mono_bd lb ub ((y, f) :: m) = true <->
  (lb <= y < ub)%Z /\ (1 <= f)%nat /\ mono_bd (y + 1) ub m = true.
Proof.
  intros. unfold mono_bd. cbn [mono_vars map fst forallb].
  rewrite !andb_true_iff, mono_ok_cons, Z.ltb_lt. tauto.
Qed.

Lemma mono_bd_lower : forall lb lb' ub m, (lb' <= lb)%Z -> mono_bd lb ub m = true -> mono_bd lb' ub m = true.
Proof.
  intros lb lb' ub m L H. unfold mono_bd in *. apply andb_prop in H. destruct H as [H1 H2].
  rewrite H2, (mono_ok_weaken lb lb' m L H1). reflexivity.
Qed.

Lemma mono_bd_vars : forall m lb ub y, mono_bd lb ub m = true -> In y (mono_vars m) -> (lb <= y < ub)%Z.
Proof.
  induction m as [|[z f] m IH]; intros lb ub y H Hy; [destruct Hy|].
  apply mono_bd_cons in H. destruct H as [H1 [H2 H3]]. destruct Hy as [Hy|Hy].
  - simpl in Hy. subst. exact H1.
  - specialize (IH _ _ _ H3 Hy). lia.
Qed.

(* exponent of x when x can only be the first symbol; the rest *)
Definition hdeg (x : Z) (m : mono) : nat :=
  match m with (y, f) :: _ => if (y =? x)%Z then f else O | [] => O end.
Definition hdel (x : Z) (m : mono) : mono :=
  match m with (y, f) :: m' => if (y =? x)%Z then m' else m | [] => [] end.

Lemma eval_mono_split : forall rho x m,
  eval_mono rho m = qpow (rho x) (hdeg x m) * eval_mono rho (hdel x m).
Proof.
  intros rho x [|[y f] m]; simpl; [ring|].
  destruct (y =? x)%Z eqn:E; [apply Z.eqb_eq in E; subst; reflexivity | simpl; ring].
Qed.

Lemma hdel_bd : forall x ub m, mono_bd x ub m = true -> mono_bd (x + 1) ub (hdel x m) = true.
Proof.
  intros x ub [|[y f] m] H; [reflexivity|]. cbn [hdel].
  destruct (y =? x)%Z eqn:E.
  - apply Z.eqb_eq in E. subst. apply mono_bd_cons in H. tauto.
  - apply Z.eqb_neq in E. apply mono_bd_cons in H. apply mono_bd_cons.
    destruct H as [H1 [H2 H3]]. split; [lia | split; assumption].
Qed.

Lemma hsplit_inj : forall x ub m m', mono_bd x ub m = true -> mono_bd x ub m' = true ->
  hdeg x m = hdeg x m' -> hdel x m = hdel x m' -> m = m'.
Proof.
  intros x ub [|[y f] m] [|[y' f'] m'] B B' Hd Hl; try reflexivity.
  - apply mono_bd_cons in B'. destruct B' as [_ [B2 _]]. cbn [hdeg hdel] in Hd, Hl.
    destruct (y' =? x)%Z; [lia | discriminate].
  - apply mono_bd_cons in B. destruct B as [_ [B2 _]]. cbn [hdeg hdel] in Hd, Hl.
    destruct (y =? x)%Z; [lia | discriminate].
  - apply mono_bd_cons in B. destruct B as [_ [B2 _]].
    apply mono_bd_cons in B'. destruct B' as [_ [B2' _]].
    cbn [hdeg hdel] in Hd, Hl.
    destruct (y =? x)%Z eqn:E; destruct (y' =? x)%Z eqn:E'.
    + apply Z.eqb_eq in E. apply Z.eqb_eq in E'. subst. reflexivity.
    + lia.
    + lia.
    + exact Hl.
Qed.

(* the terms whose exponent of x is k, without x *)
Fixpoint slice (x : Z) (k : nat) (p : poly) : poly :=
  match p with
  | [] => []
  | (m, c) :: p' => if (hdeg x m =? k)%nat then (hdel x m, c) :: slice x k p' else slice x k p'
  end.

Lemma slice_bd : forall x ub k p, monos_bd x ub p = true -> monos_bd (x + 1) ub (slice x k p) = true.
Proof.
  induction p as [|[m c] p IH]; intros H; [reflexivity|].
  unfold monos_bd in *. cbn [forallb fst] in H. apply andb_prop in H. destruct H as [H1 H2].
  cbn [slice]. destruct (hdeg x m =? k)%nat; [|apply IH; exact H2].
  cbn [forallb fst]. rewrite (hdel_bd _ _ _ H1). apply IH. exact H2.
Qed.

Lemma slice_eval : forall rho x d p,
  Forall (fun t => (hdeg x (fst t) < d)%nat) p ->
  eval_poly rho p = psum d (fun k => eval_poly rho (slice x k p)) (rho x).
Proof.
  intros rho x d. induction p as [|[m c] p IH]; intros H.
  - simpl. rewrite psum_const0. reflexivity.
  - inversion H as [|? ? H1 H2]; subst. cbn [fst] in H1.
    rewrite (psum_ext d _ (fun k => (if (hdeg x m =? k)%nat then c * eval_mono rho (hdel x m) else 0)
                                      + eval_poly rho (slice x k p))).
    + rewrite psum_plus, psum_delta by exact H1. rewrite <- (IH H2).
      cbn [eval_poly]. rewrite (eval_mono_split rho x m). ring.
    + intros k _. cbn [slice]. destruct (hdeg x m =? k)%nat; [reflexivity | ring].
Qed.

Lemma slice_coef : forall x ub m p, mono_bd x ub m = true -> monos_bd x ub p = true ->
  coef m p = coef (hdel x m) (slice x (hdeg x m) p).
Proof.
  intros x ub m. induction p as [|[m' c] p IH]; intros Hm Hp; [reflexivity|].
  unfold monos_bd in Hp. cbn [forallb fst] in Hp. apply andb_prop in Hp. destruct Hp as [H1 H2].
  cbn [coef slice]. rewrite (IH Hm H2).
  destruct (hdeg x m' =? hdeg x m)%nat eqn:Ed.
  - apply Nat.eqb_eq in Ed. cbn [coef].
    destruct (mono_eqb m' m) eqn:E1; destruct (mono_eqb (hdel x m') (hdel x m)) eqn:E2; try reflexivity.
    + apply mono_eqb_true in E1. subst m'. rewrite mono_eqb_refl in E2. discriminate.
    + apply mono_eqb_true in E2. rewrite (hsplit_inj x ub m' m H1 Hm Ed E2), mono_eqb_refl in E1. discriminate.
  - destruct (mono_eqb m' m) eqn:E1; [|ring].
    apply mono_eqb_true in E1. subst m'. rewrite Nat.eqb_refl in Ed. discriminate.
Qed.

Lemma slice_novar : forall x ub k p, monos_bd (x + 1) ub (slice x k p) = true ->
  forall rho t, eval_poly (upd rho x t) (slice x k p) = eval_poly rho (slice x k p).
Proof.
  intros x ub k p H rho t. apply eval_poly_agree. intros y Hy.
  unfold upd. destruct (y =? x)%Z eqn:E; [|reflexivity]. exfalso. apply Z.eqb_eq in E. subst y.
  unfold poly_vars in Hy. apply in_flat_map in Hy. destruct Hy as [t' [Ht' Hy]].
  unfold monos_bd in H. rewrite forallb_forall in H. specialize (H t' Ht').
  apply (mono_bd_vars _ _ _ _ H) in Hy. lia.
Qed.

Fixpoint pdeg (x : Z) (p : poly) : nat :=
  match p with [] => O | (m, _) :: p' => Nat.max (hdeg x m) (pdeg x p') end.

Lemma pdeg_bound : forall x p d, (pdeg x p < d)%nat -> Forall (fun t => (hdeg x (fst t) < d)%nat) p.
Proof.
  induction p as [|[m c] p IH]; intros d H; [constructor|].
  simpl in H. constructor; [simpl; lia | apply IH; lia].
Qed.

(* ================================================================ 6. the identity theorem *)
(* no symbol at all: the value is the constant coefficient *)
Lemma eval_no_symbol : forall rho lb ub p, (ub <= lb)%Z -> monos_bd lb ub p = true ->
  eval_poly rho p = coef [] p.
Proof.
  intros rho lb ub. induction p as [|[m c] p IH]; intros L H; [reflexivity|].
  unfold monos_bd in H. cbn [forallb fst] in H. apply andb_prop in H. destruct H as [H1 H2].
  destruct m as [|[y f] m].
  - simpl. rewrite (IH L H2). ring.
  - apply mono_bd_cons in H1. lia.
Qed.

(* a list of terms over canonical monomials in the symbols [lb, ub) whose value is 0
   under every environment has all its (total) coefficients 0 *)
Lemma zero_coefs : forall n lb ub p, (ub - lb <= Z.of_nat n)%Z ->
  monos_bd lb ub p = true -> (forall rho, eval_poly rho p = 0) ->
  forall m, mono_bd lb ub m = true -> coef m p = 0.
Proof.
  induction n as [|n IH]; intros lb ub p L Hp Z0 m Hm.
  - assert (L' : (ub <= lb)%Z) by lia.
    destruct m as [|[y f] m]; [|apply mono_bd_cons in Hm; lia].
    rewrite <- (eval_no_symbol (fun _ => 0) lb ub p L' Hp). apply Z0.
  - rewrite (slice_coef lb ub m p Hm Hp).
    set (d := S (Nat.max (pdeg lb p) (hdeg lb m))).
    assert (Hs : forall k, monos_bd (lb + 1) ub (slice lb k p) = true)
      by (intros k; apply slice_bd; exact Hp).
    apply (IH (lb + 1)%Z ub); [lia | apply Hs | | apply hdel_bd; exact Hm].
    intros rho.
    apply (psum_zero d (fun k => eval_poly rho (slice lb k p))); [|unfold d; lia].
    intros t. specialize (Z0 (upd rho lb t)).
    rewrite (slice_eval (upd rho lb t) lb d p) in Z0 by (apply pdeg_bound; unfold d; lia).
    rewrite <- Z0. unfold upd at 2. rewrite Z.eqb_refl.
    apply psum_ext. intros k _. symmetry. apply (slice_novar lb ub). apply Hs.
Qed.

(* bounds for the symbols of a list of terms *)
Definition vlo (l : list Z) : Z := fold_right Z.min 0%Z l.
Definition vhi (l : list Z) : Z := fold_right (fun y acc => Z.max (y + 1) acc) 0%Z l.

Lemma vlo_le : forall l y, In y l -> (vlo l <= y)%Z.
Proof. induction l as [|z l IH]; intros y H; [destruct H|]. destruct H as [H|H]; simpl; [subst; lia | specialize (IH y H); lia]. Qed.
Lemma vhi_gt : forall l y, In y l -> (y < vhi l)%Z.
Proof. induction l as [|z l IH]; intros y H; [destruct H|]. destruct H as [H|H]; simpl; [subst; lia | specialize (IH y H); lia]. Qed.

Lemma mono_ok_bd : forall m lb ub, mono_ok lb m = true ->
  (forall y, In y (mono_vars m) -> (y < ub)%Z) -> mono_bd lb ub m = true.
Proof.
  intros m lb ub H Hy. unfold mono_bd. rewrite H. apply forallb_forall.
  intros y Iy. apply Z.ltb_lt. apply Hy. exact Iy.
Qed.

Lemma mono_canon_bd : forall m lb ub, mono_canon m = true ->
  (forall y, In y (mono_vars m) -> (lb <= y < ub)%Z) -> mono_bd lb ub m = true.
Proof.
  intros m lb ub H Hy. apply mono_ok_bd; [|intros y Iy; apply Hy; exact Iy].
  destruct m as [|[z f] m]; [reflexivity|]. unfold mono_canon in H.
  apply (mono_ok_weaken z lb); [|exact H]. apply Hy. left. reflexivity.
Qed.

Lemma monos_ok_bd : forall p lb ub, monos_ok p = true ->
  (forall y, In y (poly_vars p) -> (lb <= y < ub)%Z) -> monos_bd lb ub p = true.
Proof.
  intros p lb ub H Hy. unfold monos_ok, monos_bd in *. rewrite forallb_forall in *.
  intros t Ht. apply mono_canon_bd; [apply H; exact Ht|].
  intros y Iy. apply Hy. unfold poly_vars. apply in_flat_map. exists t. split; assumption.
Qed.

Lemma monos_ok_app : forall p q, monos_ok p = true -> monos_ok q = true -> monos_ok (p ++ q) = true.
Proof. intros p q Hp Hq. unfold monos_ok in *. rewrite forallb_app. apply andb_true_intro. split; assumption. Qed.

Lemma monos_ok_neg : forall p, monos_ok p = true -> monos_ok (pneg p) = true.
Proof.
  intros p H. unfold monos_ok, pneg in *. rewrite forallb_forall in *.
  intros t Ht. apply in_map_iff in Ht. destruct Ht as [t' [E Ht']]. subst t. simpl. apply H. exact Ht'.
Qed.

(* terms over canonical monomials, zero as a function: every coefficient is 0 *)
Theorem zero_function_zero_coefs : forall p, monos_ok p = true ->
  (forall rho, eval_poly rho p = 0) -> forall m, mono_canon m = true -> coef m p = 0.
Proof.
  intros p Hp Z0 m Hm.
  set (vs := mono_vars m ++ poly_vars p).
  set (lb := vlo vs). set (ub := vhi vs).
  assert (B : forall y, In y vs -> (lb <= y < ub)%Z)
    by (intros y Hy; split; [apply vlo_le | apply vhi_gt]; exact Hy).
  apply (zero_coefs (Z.to_nat (ub - lb)) lb ub); [lia | | exact Z0 |].
  - apply monos_ok_bd; [exact Hp|]. intros y Hy. apply B. unfold vs. apply in_or_app. right. exact Hy.
  - apply mono_canon_bd; [exact Hm|]. intros y Hy. apply B. unfold vs. apply in_or_app. left. exact Hy.
Qed.

Lemma coef_noncanon : forall m p, monos_ok p = true -> mono_canon m = false -> coef m p = 0.
Proof.
  intros m. induction p as [|[m' c] p IH]; intros Hp Hm; [reflexivity|].
  apply monos_ok_cons in Hp. destruct Hp as [H1 H2]. simpl in *. rewrite (IH H2 Hm).
  destruct (mono_eqb m' m) eqn:E; [|ring]. apply mono_eqb_true in E. congruence.
Qed.

(* the identity theorem: a canonical polynomial that vanishes everywhere is the empty one *)
Theorem canon_zero : forall p, PCanon p -> (forall rho, eval_poly rho p = 0) -> p = [].
Proof.
  intros p Hp Z0. apply (canon_coef_unique p [] Hp PCanon_nil).
  intros m. simpl. assert (Mp := PCanon_monos _ Hp). destruct (mono_canon m) eqn:Hm.
  - apply zero_function_zero_coefs; assumption.
  - apply coef_noncanon; assumption.
Qed.

(* uniqueness of canonical forms *)
Theorem canon_unique : forall p q, PCanon p -> PCanon q ->
  (forall rho, eval_poly rho p = eval_poly rho q) -> p = q.
Proof.
  intros p q Hp Hq H. apply (canon_coef_unique p q Hp Hq). intros m.
  assert (Mp := PCanon_monos _ Hp). assert (Mq := PCanon_monos _ Hq).
  destruct (mono_canon m) eqn:Hm.
  - assert (Z0 : coef m (p ++ pneg q) = 0).
    { apply zero_function_zero_coefs; [apply monos_ok_app; [exact Mp | apply monos_ok_neg; exact Mq] | | exact Hm].
      intros rho. rewrite eval_poly_app, eval_poly_neg, H. ring. }
    rewrite coef_app, coef_neg in Z0. apply Qc_sub_0. exact Z0.
  - rewrite (coef_noncanon m p Mp Hm), (coef_noncanon m q Mq Hm). reflexivity.
Qed.

Theorem poly_canon_unique : forall p q, poly_canon p = true -> poly_canon q = true ->
  (forall rho, eval_poly rho p = eval_poly rho q) -> p = q.
Proof. intros p q Hp Hq. apply canon_unique; apply poly_canon_iff; assumption. Qed.

(* ================================================================ 7. free symbols are exact *)
(* a symbol of a canonical polynomial is one its value depends on *)
Theorem fs_depends : forall x p, poly_canon p = true -> In x (fs p) ->
  ~ (forall rho a, eval_poly (upd rho x a) p = eval_poly rho p).
Proof.
  intros x p Hp Hx Indep. apply fs_In in Hx.
  assert (E : subs_one x (poly_const 0) p = p).
  { apply canon_unique; [apply PCanon_subs_one | apply poly_canon_iff; exact Hp|].
    intros rho. rewrite eval_subs_one. apply Indep. }
  rewrite <- E in Hx. apply subs_one_vars_closed in Hx; [|apply poly_const_vars].
  destruct Hx as [_ Hx]. apply Hx. reflexivity.
Qed.

Theorem fs_exact : forall x p, poly_canon p = true ->
  (In x (fs p) <-> ~ (forall rho a, eval_poly (upd rho x a) p = eval_poly rho p)).
Proof.
  intros x p Hp. split; [apply fs_depends; exact Hp|].
  intros H. destruct (in_dec Z.eq_dec x (fs p)) as [I|N]; [exact I|]. exfalso. apply H.
  intros rho a. apply eval_poly_agree. intros y Hy. unfold upd.
  destruct (y =? x)%Z eqn:E; [|reflexivity]. apply Z.eqb_eq in E. subst y.
  exfalso. apply N. apply fs_In. exact Hy.
Qed.

(* ================================================================ 7b. with witnesses *)
Lemma bounded_search : forall (P : nat -> Prop), (forall i, {P i} + {~ P i}) ->
  forall n, (forall i, (i < n)%nat -> P i) \/ (exists i, (i < n)%nat /\ ~ P i).
Proof.
  intros P dec. induction n as [|n IH].
  - left. intros i Hi. lia.
  - destruct IH as [IH|[i [Hi Hn]]].
    + destruct (dec n) as [Y|N].
      * left. intros i Hi. destruct (Nat.eq_dec i n) as [->|Ne]; [exact Y | apply IH; lia].
      * right. exists n. split; [lia | exact N].
    + right. exists i. split; [lia | exact Hn].
Qed.

(* a polynomial in one symbol of degree < d with a non-zero coefficient does not vanish
   somewhere on 0, 1, ..., d-1 *)
Lemma psum_nonzero_grid : forall d f k, (k < d)%nat -> f k <> 0 ->
  exists i, (i < d)%nat /\ psum d f (qnat i) <> 0.
Proof.
  intros d f k Hk Hf.
  destruct (bounded_search (fun i => psum d f (qnat i) = 0) (fun i => Qc_eq_dec _ _) d) as [A|E].
  - exfalso. apply Hf. apply (psum_zero_grid d f A k Hk).
  - exact E.
Qed.

Lemma nonzero_point : forall n lb ub p, (ub - lb <= Z.of_nat n)%Z ->
  monos_bd lb ub p = true ->
  forall m, mono_bd lb ub m = true -> coef m p <> 0 -> exists rho, eval_poly rho p <> 0.
Proof.
  induction n as [|n IH]; intros lb ub p L Hp m Hm Hc.
  - assert (L' : (ub <= lb)%Z) by lia.
    destruct m as [|[y f] m]; [|apply mono_bd_cons in Hm; lia].
    exists (fun _ => 0). rewrite (eval_no_symbol _ lb ub p L' Hp). exact Hc.
  - rewrite (slice_coef lb ub m p Hm Hp) in Hc.
    set (d := S (Nat.max (pdeg lb p) (hdeg lb m))).
    assert (Hs : forall k, monos_bd (lb + 1) ub (slice lb k p) = true)
      by (intros k; apply slice_bd; exact Hp).
    destruct (IH (lb + 1)%Z ub (slice lb (hdeg lb m) p)) with (m := hdel lb m) as [rho Hr];
      [lia | apply Hs | apply hdel_bd; exact Hm | exact Hc |].
    destruct (psum_nonzero_grid d (fun k => eval_poly rho (slice lb k p)) (hdeg lb m)) as [i [Hi Hn]];
      [unfold d; lia | exact Hr |].
    exists (upd rho lb (qnat i)).
    rewrite (slice_eval (upd rho lb (qnat i)) lb d p) by (apply pdeg_bound; unfold d; lia).
    unfold upd at 2. rewrite Z.eqb_refl.
    rewrite (psum_ext d _ (fun k => eval_poly rho (slice lb k p))); [exact Hn|].
    intros k _. apply (slice_novar lb ub). apply Hs.
Qed.

Lemma nonzero_coef_point : forall p m, monos_ok p = true -> mono_canon m = true ->
  coef m p <> 0 -> exists rho, eval_poly rho p <> 0.
Proof.
  intros p m Hp Hm Hc.
  set (vs := mono_vars m ++ poly_vars p).
  set (lb := vlo vs). set (ub := vhi vs).
  assert (B : forall y, In y vs -> (lb <= y < ub)%Z)
    by (intros y Hy; split; [apply vlo_le | apply vhi_gt]; exact Hy).
  apply (nonzero_point (Z.to_nat (ub - lb)) lb ub p) with (m := m); [lia | | | exact Hc].
  - apply monos_ok_bd; [exact Hp|]. intros y Hy. apply B. unfold vs. apply in_or_app. right. exact Hy.
  - apply mono_canon_bd; [exact Hm|]. intros y Hy. apply B. unfold vs. apply in_or_app. left. exact Hy.
Qed.

(* the identity theorem with a witness: a canonical polynomial other than the empty one
   has a (natural-number) point where it does not vanish *)
Theorem canon_nonzero_point : forall p, PCanon p -> p <> [] -> exists rho, eval_poly rho p <> 0.
Proof.
  intros [|[m c] p] Hp Hne; [congruence|].
  assert (Mp := PCanon_monos _ Hp).
  destruct Hp as [F [B _]]. inversion F as [|? ? [Hm Nz] _]; subst. simpl in Hm, Nz, B.
  apply (nonzero_coef_point _ m Mp Hm).
  simpl. rewrite mono_eqb_refl, (coef_below _ _ B). intros E. apply Nz. rewrite <- E. ring.
Qed.

Theorem poly_canon_nonzero_point : forall p, poly_canon p = true -> p <> [] ->
  exists rho, eval_poly rho p <> 0.
Proof. intros p Hp. apply canon_nonzero_point. apply poly_canon_iff. exact Hp. Qed.

(* two different canonical polynomials differ in value somewhere *)
Theorem canon_separate : forall p q, PCanon p -> PCanon q -> p <> q ->
  exists rho, eval_poly rho p <> eval_poly rho q.
Proof.
  intros p q Hp Hq Hne.
  set (r := poly_add p (poly_scale_mono [] (- (1)) q)).
  assert (Er : forall rho, eval_poly rho r = eval_poly rho p - eval_poly rho q).
  { intros rho. unfold r. rewrite eval_poly_add, eval_poly_scale_mono. simpl. ring. }
  assert (Hr : PCanon r).
  { unfold r. apply PCanon_add; [apply PCanon_monos; exact Hp|].
    apply PCanon_scale_mono. apply PCanon_monos. exact Hq. }
  destruct r as [|t r'] eqn:R.
  - exfalso. apply Hne. apply (canon_unique p q Hp Hq). intros rho.
    apply Qc_sub_0. rewrite <- Er. reflexivity.
  - destruct (canon_nonzero_point (t :: r') Hr) as [rho Hn]; [discriminate|].
    exists rho. intros E. apply Hn. rewrite Er, E. ring.
Qed.

(* a symbol of a canonical polynomial: two environments that differ only there give two values *)
Theorem fs_depends_point : forall x p, poly_canon p = true -> In x (fs p) ->
  exists rho a, eval_poly (upd rho x a) p <> eval_poly rho p.
Proof.
  intros x p Hp Hx. apply fs_In in Hx. apply poly_canon_iff in Hp.
  destruct (canon_separate (subs_one x (poly_const 0) p) p) as [rho Hn];
    [apply PCanon_subs_one | exact Hp | |].
  - intros E. rewrite <- E in Hx. apply subs_one_vars_closed in Hx; [|apply poly_const_vars].
    destruct Hx as [_ Hx]. apply Hx. reflexivity.
  - exists rho, (eval_poly rho (poly_const 0)). rewrite <- eval_subs_one. exact Hn.
Qed.

Theorem fs_exact_point : forall x p, poly_canon p = true ->
  (In x (fs p) <-> exists rho a, eval_poly (upd rho x a) p <> eval_poly rho p).
Proof.
  intros x p Hp. split; [apply fs_depends_point; exact Hp|].
  intros [rho [a H]]. destruct (in_dec Z.eq_dec x (fs p)) as [I|N]; [exact I|]. exfalso. apply H.
  apply eval_poly_agree. intros y Hy. unfold upd.
  destruct (y =? x)%Z eqn:E; [|reflexivity]. apply Z.eqb_eq in E. subst y.
  exfalso. apply N. apply fs_In. exact Hy.
Qed.

(* ================================================================ 7c. the invariant, operation by operation (boolean form) *)
Ltac canon_bool := repeat match goal with
  | H : poly_canon _ = true |- _ => apply poly_canon_iff in H
  | |- poly_canon _ = true => apply poly_canon_iff end.

Theorem poly_ops_canon :
  (forall c, poly_canon (poly_const c) = true) /\
  (forall x, poly_canon (poly_var x) = true) /\
  (forall m c p, mono_canon m = true -> poly_canon p = true -> poly_canon (poly_add_term m c p) = true) /\
  (forall p q, poly_canon p = true -> poly_canon q = true -> poly_canon (poly_add p q) = true) /\
  (forall p q, poly_canon q = true -> poly_canon (poly_mul p q) = true) /\
  (forall c q, poly_canon q = true -> poly_canon (poly_scale_mono [] c q) = true) /\
  (forall p n, poly_canon (poly_pow p n) = true) /\
  (forall p, poly_canon (poly_norm p) = true) /\
  (forall s p, poly_canon (subs_sim s p) = true) /\
  (forall x v p, poly_canon (subs_one x v p) = true) /\
  (forall s p, poly_canon p = true -> poly_canon (subs_seq s p) = true).
Proof.
  repeat split; intros; canon_bool.
  - apply PCanon_const.
  - apply PCanon_var.
  - apply PCanon_add_term; assumption.
  - apply PCanon_add; [apply PCanon_monos|]; assumption.
  - apply PCanon_mul. apply PCanon_monos. assumption.
  - apply PCanon_scale_mono. apply PCanon_monos. assumption.
  - apply PCanon_pow.
  - apply PCanon_norm.
  - apply PCanon_subs_sim.
  - apply PCanon_subs_one.
  - apply PCanon_subs_seq. assumption.
Qed.

(* ================================================================ 8. the decoder, non-vacuity *)
(* what the wire decoder hands to the model is canonical *)
Lemma dec_poly_canon : forall s p, dec_poly s = Ok p -> poly_canon p = true.
Proof.
  intros s p H. unfold dec_poly in H.
  destruct (sx_list s) as [l|e]; [|discriminate]. cbn in H.
  destruct (mapM dec_term l) as [ts|e]; [|discriminate]. cbn in H.
  inversion H; subst. apply poly_canon_iff. apply PCanon_norm.
Qed.

Example ex_poly_is_canon : poly_canon ex_poly = true.
Proof. vm_compute. reflexivity. Qed.

(* 2*s1*s2 + s3/3 - 1 depends on s2 *)
Example ex_fs_depends : ~ (forall rho a, eval_poly (upd rho 2%Z a) ex_poly = eval_poly rho ex_poly).
Proof. apply fs_depends; [exact ex_poly_is_canon | vm_compute; tauto]. Qed.

(* unsorted, unmerged or zero-coefficient lists are not canonical *)
Example ex_not_canon :
  poly_canon [([(2%Z, 1%nat)], q 1 1); ([(1%Z, 1%nat)], q 1 1)] = false /\
  poly_canon [([(1%Z, 1%nat)], q 1 1); ([(1%Z, 1%nat)], q 1 1)] = false /\
  poly_canon [([], q 0 1)] = false /\
  poly_canon [([(2%Z, 1%nat); (1%Z, 1%nat)], q 1 1)] = false /\
  poly_canon [([(1%Z, 0%nat)], q 1 1)] = false.
Proof. vm_compute. repeat split; reflexivity. Qed.
