(* Phase / data expressions of parametrised boxes: canonical multivariate
   polynomials over Q in interned symbols s1, s2, ... (a symbol is an integer).
   This is the fragment of sympy on which the harness can compute the same
   normal form from the implementation's expressions (sympy.Poly(...).terms()
   with Rational coefficients): a polynomial is a list of terms sorted by
   monomial (Python list order on [[symbol, exponent], ...]), monomials are
   sorted by symbol, exponents are >= 1, coefficients are non-zero.

   Modelled behaviour of sympy (external library, validated by the
   correspondence run, not verified):
     e.free_symbols            ~  fs
     e.subs(x, v)              ~  subs_one x v      (polynomial substitution)
     e.subs([(x1,v1), ...])    ~  subs_seq          (sequential, in list order)
     (lambdify(xs, e)) applied to vs      ~  subs_sim (combine xs vs)   (simultaneous)
   plus the Python-number / sympy-object distinction (`esym`), which decides
   whether numpy can digest a closed parameter (finding F11a).

   Definitions only; proofs are in Param/ExprLemmas.v. *)
From Coq Require Import List ZArith Bool Lia QArith Qcanon.
Import ListNotations.
Require Import DV.Common.Base.

Definition var := Z.
(* a monomial: (symbol, exponent) pairs, symbols strictly increasing, exponents >= 1 *)
Definition mono := list (var * nat).
Definition term := (mono * Qc)%type.
Definition poly := list term.

Definition qc_eqb (a b : Qc) : bool := Qeq_bool (this a) (this b).
Definition qc_is0 (c : Qc) : bool := qc_eqb c (Q2Qc 0).

Fixpoint qpow (q : Qc) (n : nat) : Qc :=
  match n with O => Q2Qc 1 | S k => (q * qpow q k)%Qc end.

(* ---- semantics: value under an environment ---- *)
Definition env := var -> Qc.

Fixpoint eval_mono (rho : env) (m : mono) : Qc :=
  match m with
  | [] => Q2Qc 1
  | (x, e) :: m' => (qpow (rho x) e * eval_mono rho m')%Qc
  end.

Fixpoint eval_poly (rho : env) (p : poly) : Qc :=
  match p with
  | [] => Q2Qc 0
  | (m, c) :: p' => (c * eval_mono rho m + eval_poly rho p')%Qc
  end.

(* ---- canonical arithmetic ---- *)
Fixpoint mono_ins (x : var) (e : nat) (m : mono) : mono :=
  match m with
  | [] => [(x, e)]
  | (y, f) :: m' =>
      if (x <? y)%Z then (x, e) :: m
      else if (x =? y)%Z then (y, (e + f)%nat) :: m'
      else (y, f) :: mono_ins x e m'
  end.

Definition mono_ins0 (x : var) (e : nat) (m : mono) : mono :=
  match e with O => m | _ => mono_ins x e m end.

Definition mono_mul (a b : mono) : mono :=
  fold_right (fun xe acc => mono_ins0 (fst xe) (snd xe) acc) b a.

(* Python's list order on [[symbol, exponent], ...] *)
Fixpoint mono_cmp (a b : mono) : comparison :=
  match a, b with
  | [], [] => Eq
  | [], _ :: _ => Lt
  | _ :: _, [] => Gt
  | (x, e) :: a', (y, f) :: b' =>
      match (x ?= y)%Z with
      | Eq => match Nat.compare e f with Eq => mono_cmp a' b' | c => c end
      | c => c
      end
  end.

Fixpoint poly_ins (m : mono) (c : Qc) (p : poly) : poly :=
  match p with
  | [] => [(m, c)]
  | (m', c') :: p' =>
      match mono_cmp m m' with
      | Lt => (m, c) :: p
      | Eq => let s := (c + c')%Qc in if qc_is0 s then p' else (m', s) :: p'
      | Gt => (m', c') :: poly_ins m c p'
      end
  end.

Definition poly_add_term (m : mono) (c : Qc) (p : poly) : poly :=
  if qc_is0 c then p else poly_ins m c p.

Definition poly_add (p q : poly) : poly :=
  fold_right (fun t acc => poly_add_term (fst t) (snd t) acc) q p.

Definition poly_scale_mono (m : mono) (c : Qc) (q : poly) : poly :=
  fold_right (fun t acc => poly_add_term (mono_mul m (fst t)) (c * snd t)%Qc acc) [] q.

Definition poly_mul (p q : poly) : poly :=
  fold_right (fun t acc => poly_add (poly_scale_mono (fst t) (snd t) q) acc) [] p.

Definition poly_const (c : Qc) : poly := poly_add_term [] c [].
Definition poly_one : poly := poly_const (Q2Qc 1).
Definition poly_var (x : var) : poly := [([(x, 1%nat)], Q2Qc 1)].

Fixpoint poly_pow (p : poly) (n : nat) : poly :=
  match n with O => poly_one | S k => poly_mul p (poly_pow p k) end.

(* re-normalise an arbitrary list of terms (used by the wire decoder) *)
Definition mono_norm (m : mono) : mono := mono_mul m [].
Definition poly_norm (p : poly) : poly :=
  fold_right (fun t acc => poly_add_term (mono_norm (fst t)) (snd t) acc) [] p.

(* ---- substitution ---- *)
Definition sigma := list (var * poly).

Fixpoint lookup {A} (s : list (var * A)) (x : var) : option A :=
  match s with
  | [] => None
  | (y, v) :: s' => if (x =? y)%Z then Some v else lookup s' x
  end.

Definition image (s : sigma) (x : var) : poly :=
  match lookup s x with Some v => v | None => poly_var x end.

Definition subs_mono (s : sigma) (m : mono) : poly :=
  fold_right (fun xe acc => poly_mul (poly_pow (image s (fst xe)) (snd xe)) acc) poly_one m.

(* simultaneous substitution: what calling a lambdified expression computes *)
Definition subs_sim (s : sigma) (p : poly) : poly :=
  fold_right (fun t acc => poly_add (poly_scale_mono [] (snd t) (subs_mono s (fst t))) acc) [] p.

(* sympy e.subs(x, v) *)
Definition subs_one (x : var) (v : poly) (p : poly) : poly := subs_sim [(x, v)] p.

(* sympy e.subs([(x1, v1); ...]) : one pair after the other, in list order *)
Definition subs_seq (s : sigma) (p : poly) : poly :=
  fold_left (fun acc xv => subs_one (fst xv) (snd xv) acc) s p.

(* environments matching the two substitutions *)
Definition upd (rho : env) (x : var) (a : Qc) : env :=
  fun y => if (y =? x)%Z then a else rho y.

Definition env_sim (rho : env) (s : sigma) : env :=
  fun y => match lookup s y with Some v => eval_poly rho v | None => rho y end.

Fixpoint env_seq (rho : env) (s : sigma) : env :=
  match s with
  | [] => rho
  | (x, v) :: s' => let r := env_seq rho s' in upd r x (eval_poly r v)
  end.

(* ---- free symbols ---- *)
Definition mono_vars (m : mono) : list var := map fst m.
Definition poly_vars (p : poly) : list var := flat_map (fun t => mono_vars (fst t)) p.

Fixpoint zset_add (x : Z) (l : list Z) : list Z :=
  match l with
  | [] => [x]
  | y :: l' => if (x <? y)%Z then x :: l else if (x =? y)%Z then l else y :: zset_add x l'
  end.
Definition zset_of (l : list Z) : list Z := fold_right zset_add [] l.
Definition zset_union (a b : list Z) : list Z := fold_right zset_add b a.
Definition zmem (x : Z) (l : list Z) : bool := existsb (Z.eqb x) l.

(* sympy e.free_symbols, as a sorted duplicate-free list *)
Definition fs (p : poly) : list var := zset_of (poly_vars p).
Definition closed (p : poly) : bool := match poly_vars p with [] => true | _ => false end.

(* ---- expressions as the implementation holds them: a Python number
   (esym = false, always closed) or a sympy object (esym = true) ---- *)
Record pexpr := PE { esym : bool; epoly : poly }.

Definition expr_vars (e : pexpr) : list var := if esym e then poly_vars (epoly e) else [].
Definition expr_fs (e : pexpr) : list var := zset_of (expr_vars e).
Definition expr_eval (rho : env) (e : pexpr) : Qc := eval_poly rho (epoly e).

Definition xsigma := list (var * pexpr).
Definition polys_of (s : xsigma) : sigma := map (fun xv => (fst xv, epoly (snd xv))) s.

(* rsubs on one leaf: x.subs(args) if x has a subs attribute, else x: Python numbers have no subs *)
Definition expr_subs (s : xsigma) (e : pexpr) : pexpr :=
  if esym e then PE true (subs_seq (polys_of s) (epoly e)) else e.

(* lambdify(symbols, e) applied to values, for an Expr: symbols of e that are not
   arguments stay symbolic; the result is a Python number iff every symbol of e
   is bound to a Python number (a sympy constant is printed as a Python
   literal, e.g. Rational(1, 2) as 1/2) *)
Definition expr_lambdify (s : xsigma) (e : pexpr) : pexpr :=
  if esym e then
    PE (existsb (fun y => match lookup s y with None => true | Some v => esym v end)
                (poly_vars (epoly e)))
       (subs_sim (polys_of s) (epoly e))
  else e.

(* ---- wire codec ---- *)
Definition dec_pair (s : sexp) : res (var * nat) :=
  match s with
  | L [I x; I e] => if (e <? 0)%Z then Err BadProgram else Ok (x, Z.to_nat e)
  | _ => Err BadProgram
  end.
Definition dec_term (s : sexp) : res term :=
  match s with
  | L [L m; I n; I d] =>
      do m' <- mapM dec_pair m;
      if (d <=? 0)%Z then Err BadProgram else Ok (m', Q2Qc (n # Z.to_pos d))
  | _ => Err BadProgram
  end.
Definition dec_poly (s : sexp) : res poly :=
  do l <- sx_list s; do ts <- mapM dec_term l; Ok (poly_norm ts).
Definition dec_expr (s : sexp) : res pexpr :=
  match s with
  | L [fl; p] =>
      do f <- sx_bool fl; do p' <- dec_poly p;
      (* a Python number is a constant *)
      if negb f && negb (closed p') then Err BadProgram else Ok (PE f p')
  | _ => Err BadProgram
  end.

Definition enc_mono (m : mono) : sexp :=
  L (map (fun xe => L [I (fst xe); I (Z.of_nat (snd xe))]) m).
Definition enc_term (t : term) : sexp :=
  L [enc_mono (fst t); I (Qnum (this (snd t))); I (Zpos (Qden (this (snd t))))].
Definition enc_poly (p : poly) : sexp := L (map enc_term p).
Definition enc_expr (e : pexpr) : sexp := L [of_bool (esym e); enc_poly (epoly e)].
