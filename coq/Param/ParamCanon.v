(* Syntactic agreement of lambdify and subs (ParamLemmas.lambdify_eq_subs_syntactic_stmt
   with the hypothesis it was missing: the parameters of the diagram are in
   canonical form, which is what the decoder produces and what every operation
   of Expr.v maintains -- Param/ExprCanon.v).  Route: both results are canonical,
   they have the same grounding under every environment (lambdify_eq_subs_l),
   canonical forms are unique (canon_unique). *)
From Coq Require Import List ZArith Bool Lia QArith Qcanon.
Import ListNotations.
Require Import DV.Common.Base DV.Common.ListLemmas DV.Param.Expr DV.Param.ExprLemmas
  DV.Param.ExprCanon DV.Param.Param DV.Param.ParamLemmas DV.Param.ParamProg.
Open Scope Z_scope.

(* every parameter of the diagram is a canonical polynomial *)
Definition expr_canon (e : pexpr) : bool := poly_canon (epoly e).
Definition data_canon (d : pdata) : bool := forallb expr_canon (data_exprs d).
Definition box_canon (b : pbox) : bool := data_canon (pdat b).
Definition dcanon (d : pdiagram) : bool := forallb box_canon (dboxes d).

(* ------------------------------------------------------------ subs / lambdify keep canonical forms *)
Lemma expr_subs_canon : forall s e, expr_canon e = true -> expr_canon (expr_subs s e) = true.
Proof.
  intros s e H. unfold expr_subs. destruct (esym e); [|exact H].
  unfold expr_canon in *. cbn [epoly]. apply poly_canon_iff. apply PCanon_subs_seq.
  apply poly_canon_iff. exact H.
Qed.

Lemma expr_lambdify_canon : forall s e, expr_canon e = true -> expr_canon (expr_lambdify s e) = true.
Proof.
  intros s e H. unfold expr_lambdify. destruct (esym e); [|exact H].
  unfold expr_canon. cbn [epoly]. apply poly_canon_iff. apply PCanon_subs_sim.
Qed.

Lemma data_map_canon : forall g d, (forall e, expr_canon e = true -> expr_canon (g e) = true) ->
  data_canon d = true -> data_canon (data_map g d) = true.
Proof.
  intros g d Hg H. unfold data_canon in *. rewrite data_exprs_map.
  rewrite forallb_forall in *. intros e He. apply in_map_iff in He.
  destruct He as [e' [E He']]. subst e. apply Hg. apply H. exact He'.
Qed.

Lemma box_subs_canon : forall fx cls f b b', box_canon b = true ->
  box_subs fx cls f b = XOk b' -> box_canon b' = true.
Proof.
  intros fx cls f b b' C H.
  destruct (box_subs_cases _ _ _ _ _ H) as [[E _]|E]; [subst; exact C|].
  unfold box_canon. rewrite E. apply data_map_canon; [apply expr_subs_canon | exact C].
Qed.

Lemma box_lambdify_canon : forall fx cls syms vals b b', box_canon b = true ->
  box_lambdify fx cls syms vals b = XOk b' -> box_canon b' = true.
Proof.
  intros fx cls syms vals b b' C H.
  assert (D : box_canon b' = true \/ pdat b' = data_map (expr_lambdify (combine syms vals)) (pdat b)).
  { unfold box_lambdify in H. destruct (pk b).
    - destruct (guard syms b); [|inversion H; subst; left; exact C].
      destruct (negb _); [discriminate|].
      destruct (pdat b) eqn:Ed.
      + inversion H; subst. right. reflexivity.
      + inversion H; subst. right. reflexivity.
      + destruct (existsb _ es); [discriminate|]. inversion H; subst. right. reflexivity.
    - destruct (negb _); [discriminate|]. inversion H; subst. right. reflexivity.
    - destruct (negb _); [discriminate|]. inversion H; subst. right. reflexivity.
    - destruct (negb _); [discriminate|]. inversion H; subst. right. reflexivity.
    - destruct (negb _); [discriminate|]. inversion H; subst. right. reflexivity.
    - destruct (pdat b); try discriminate. destruct (fx_h fx); [|discriminate].
      inversion H; subst. left. exact C.
    - destruct (guard syms b); [discriminate|]. inversion H; subst. left. exact C.
    - destruct (guard syms b); [discriminate|]. inversion H; subst. left. exact C. }
  destruct D as [D|D]; [exact D|].
  unfold box_canon. rewrite D. apply data_map_canon; [apply expr_lambdify_canon | exact C].
Qed.

Lemma Forall2_forallb : forall {A} (R : A -> A -> Prop) (P : A -> bool) l l',
  Forall2 R l l' -> (forall a b, R a b -> P a = true -> P b = true) ->
  forallb P l = true -> forallb P l' = true.
Proof.
  induction 1 as [|a b l l' Hab Hl IH]; intros HR H; [reflexivity|].
  cbn [forallb] in *. apply andb_prop in H. destruct H as [H1 H2].
  rewrite (HR a b Hab H1), (IH HR H2). reflexivity.
Qed.

Theorem dsubs_canon : forall fx cls f d d', wf d = true -> dcanon d = true ->
  dsubs fx cls f d = XOk d' -> dcanon d' = true.
Proof.
  intros fx cls f d d' W C H. unfold dsubs in H.
  destruct (dmap_spec_l _ _ _ W (box_subs_shape_l fx cls f) H) as [_ [_ [_ [H4 _]]]].
  unfold dcanon in *. apply (Forall2_forallb _ _ _ _ H4); [|exact C].
  intros a b Hab Ca. eapply box_subs_canon; eassumption.
Qed.

Theorem dlambdify_canon : forall fx cls syms vals d d', wf d = true -> dcanon d = true ->
  dlambdify fx cls syms vals d = XOk d' -> dcanon d' = true.
Proof.
  intros fx cls syms vals d d' W C H. unfold dlambdify in H.
  destruct (dmap_spec_l _ _ _ W (box_lambdify_shape_l fx cls syms vals) H) as [_ [_ [_ [H4 _]]]].
  unfold dcanon in *. apply (Forall2_forallb _ _ _ _ H4); [|exact C].
  intros a b Hab Ca. eapply box_lambdify_canon; eassumption.
Qed.

(* ------------------------------------------------------------ equal groundings, canonical parameters: equal diagrams *)
Definition rho0 : env := fun _ => Q2Qc 0.

Lemma cons_eq_inv : forall {A} (a b : A) l l', a :: l = b :: l' -> a = b /\ l = l'.
Proof. intros A a b l l' H. inversion H. split; reflexivity. Qed.

Lemma exprs_eq_erase : forall es1 es2,
  forallb expr_canon es1 = true -> forallb expr_canon es2 = true ->
  (forall rho, map (expr_eval rho) es1 = map (expr_eval rho) es2) ->
  map erase_expr es1 = map erase_expr es2.
Proof.
  induction es1 as [|e1 es1 IH]; intros [|e2 es2] C1 C2 H; try reflexivity;
    try (specialize (H rho0); discriminate).
  cbn [forallb] in C1, C2. apply andb_prop in C1. apply andb_prop in C2.
  destruct C1 as [C1 C1']. destruct C2 as [C2 C2'].
  cbn [map]. f_equal.
  - unfold erase_expr. f_equal. apply poly_canon_unique; [exact C1 | exact C2|].
    intros rho. specialize (H rho). cbn [map] in H. apply cons_eq_inv in H. exact (proj1 H).
  - apply IH; [exact C1' | exact C2'|]. intros rho. specialize (H rho). cbn [map] in H.
    apply cons_eq_inv in H. exact (proj2 H).
Qed.

Lemma data_eq_erase : forall d1 d2, data_canon d1 = true -> data_canon d2 = true ->
  (forall rho, ground_data rho d1 = ground_data rho d2) ->
  data_map erase_expr d1 = data_map erase_expr d2.
Proof.
  intros d1 d2 C1 C2 H. unfold data_canon in *.
  destruct d1 as [|e1|es1], d2 as [|e2|es2]; try reflexivity;
    try (specialize (H rho0); cbn in H; discriminate).
  - cbn [data_map].
    assert (E : map erase_expr [e1] = map erase_expr [e2]).
    { apply exprs_eq_erase; [exact C1 | exact C2|]. intros rho. specialize (H rho).
      cbn [ground_data] in H. injection H as Ha. cbn [map]. rewrite Ha. reflexivity. }
    cbn [map] in E. congruence.
  - cbn [data_map]. f_equal. apply exprs_eq_erase; [exact C1 | exact C2|].
    intros rho. specialize (H rho). cbn [ground_data] in H. injection H as Ha. exact Ha.
Qed.

Lemma box_eq_erase : forall b1 b2, box_canon b1 = true -> box_canon b2 = true ->
  (forall rho, ground_box rho b1 = ground_box rho b2) -> erase_box b1 = erase_box b2.
Proof.
  intros b1 b2 C1 C2 H. unfold erase_box.
  assert (H0 := H rho0). unfold ground_box in H0. inversion H0.
  f_equal. apply data_eq_erase; [exact C1 | exact C2|].
  intros rho. specialize (H rho). unfold ground_box in H. inversion H. reflexivity.
Qed.

Lemma boxes_eq_erase : forall l1 l2, forallb box_canon l1 = true -> forallb box_canon l2 = true ->
  (forall rho, map (ground_box rho) l1 = map (ground_box rho) l2) ->
  map erase_box l1 = map erase_box l2.
Proof.
  induction l1 as [|b1 l1 IH]; intros [|b2 l2] C1 C2 H; try reflexivity;
    try (specialize (H rho0); discriminate).
  cbn [forallb] in C1, C2. apply andb_prop in C1. apply andb_prop in C2.
  destruct C1 as [C1 C1']. destruct C2 as [C2 C2'].
  cbn [map]. f_equal.
  - apply box_eq_erase; [exact C1 | exact C2|]. intros rho. specialize (H rho).
    cbn [map] in H. apply cons_eq_inv in H. exact (proj1 H).
  - apply IH; [exact C1' | exact C2'|]. intros rho. specialize (H rho). cbn [map] in H.
    apply cons_eq_inv in H. exact (proj2 H).
Qed.

(* two diagrams with canonical parameters that no evaluation can tell apart are the same
   diagram (up to the Python-number / sympy-object distinction) *)
Theorem ground_eq_erase : forall d1 d2, dcanon d1 = true -> dcanon d2 = true ->
  (forall rho, ground rho d1 = ground rho d2) -> erase d1 = erase d2.
Proof.
  intros d1 d2 C1 C2 H. unfold erase.
  assert (H0 := H rho0). unfold ground in H0. inversion H0.
  f_equal. apply boxes_eq_erase; [exact C1 | exact C2|].
  intros rho. specialize (H rho). unfold ground in H. inversion H. reflexivity.
Qed.

(* ------------------------------------------------------------ the syntactic statement *)
Theorem lambdify_eq_subs_syntactic_l : forall fx cls syms vals d d1 d2,
  dwf d = true -> dcanon d = true -> length syms = length vals ->
  Forall (fun v => poly_vars (epoly v) = []) vals ->
  dlambdify fx cls syms vals d = XOk d1 ->
  dsubs fx cls (SList (combine syms vals)) d = XOk d2 ->
  erase d1 = erase d2.
Proof.
  intros fx cls syms vals d d1 d2 W C L Hc H1 H2.
  assert (W' := W). apply dwf_inv in W'. destruct W' as [W' _].
  apply ground_eq_erase.
  - eapply dlambdify_canon; eassumption.
  - eapply dsubs_canon; eassumption.
  - intros rho. eapply lambdify_eq_subs_l; eassumption.
Qed.

(* the statement left open in ParamLemmas.v is the one above without `dcanon d`;
   as it stands it is false of the model: a parameter with a zero coefficient is
   re-normalised by lambdify() () but returned as it is by subs([]) *)
Lemma lambdify_eq_subs_syntactic_stmt_false : ~ lambdify_eq_subs_syntactic_stmt.
Proof.
  intros H.
  specialize (H pinned CCircuit [] []
    (PD [2] [2] [PB KRot 1 [2] [2] false false (DScalar (PE true [([], Q2Qc 0)]))] [0])).
  specialize (H _ _ eq_refl eq_refl (Forall_nil _) eq_refl eq_refl).
  vm_compute in H. discriminate.
Qed.

(* ------------------------------------------------------------ what the decoder builds is canonical *)
Lemma mapM_Forall : forall {A B} (f : A -> res B) (P : B -> Prop) l l',
  (forall a b, f a = Ok b -> P b) -> mapM f l = Ok l' -> Forall P l'.
Proof.
  intros A B f P. induction l as [|x l IH]; intros l' Hf H.
  - cbn in H. inversion H. constructor.
  - cbn [mapM] in H. destruct (f x) as [y|e] eqn:E; cbn in H; [|discriminate].
    destruct (mapM f l) as [ys|e] eqn:E2; cbn in H; [|discriminate].
    inversion H; subst. constructor; [eapply Hf; exact E | apply IH; [exact Hf | reflexivity]].
Qed.

Lemma dec_expr_canon : forall s e, dec_expr s = Ok e -> expr_canon e = true.
Proof.
  intros s e H. unfold dec_expr in H.
  destruct s as [z|l]; [discriminate|].
  destruct l as [|fl [|p [|x l]]]; try discriminate.
  destruct (sx_bool fl) as [f|er]; cbn in H; [|discriminate].
  destruct (dec_poly p) as [p'|er] eqn:E; cbn in H; [|discriminate].
  destruct (negb f && negb (closed p')); [discriminate|]. inversion H; subst.
  unfold expr_canon. cbn [epoly]. eapply dec_poly_canon. exact E.
Qed.

Lemma dec_exprs_canon : forall s es, dec_exprs s = Ok es -> forallb expr_canon es = true.
Proof.
  intros s es H. unfold dec_exprs in H. destruct (sx_list s) as [l|er]; cbn in H; [|discriminate].
  apply forallb_forall. apply Forall_forall.
  eapply mapM_Forall; [|exact H]. intros a b. apply dec_expr_canon.
Qed.

Lemma dec_data_canon : forall s d, dec_data s = Ok d -> data_canon d = true.
Proof.
  intros s d H. unfold dec_data in H.
  destruct s as [z|l]; [discriminate|].
  destruct l as [|[z|l0] l]; try discriminate; [inversion H; reflexivity|].
  destruct z as [|[?|?|]|?]; try discriminate;
    destruct l as [|e [|? ?]]; try discriminate.
  - destruct (dec_expr e) as [e'|er] eqn:E; cbn in H; [|discriminate]. inversion H; subst.
    unfold data_canon. cbn [data_exprs forallb]. rewrite (dec_expr_canon _ _ E). reflexivity.
  - destruct (dec_exprs e) as [es|er] eqn:E; cbn in H; [|discriminate]. inversion H; subst.
    unfold data_canon. cbn [data_exprs]. eapply dec_exprs_canon. exact E.
Qed.

Lemma dec_box_canon : forall s b, dec_box s = Ok b -> box_canon b = true.
Proof.
  intros s b H. unfold dec_box in H.
  destruct s as [z|l]; [discriminate|].
  destruct l as [|[k|?] [|[n|?] [|d [|c [|dg [|mx [|dt [|? ?]]]]]]]]; try discriminate.
  destruct (dec_kind k); cbn in H; [|discriminate].
  destruct (sx_ints d); cbn in H; [|discriminate].
  destruct (sx_ints c); cbn in H; [|discriminate].
  destruct (sx_bool dg); cbn in H; [|discriminate].
  destruct (sx_bool mx); cbn in H; [|discriminate].
  destruct (dec_data dt) as [dt'|er] eqn:E; cbn in H; [|discriminate].
  inversion H; subst. unfold box_canon. cbn [pdat]. eapply dec_data_canon. exact E.
Qed.

(* every list of boxes that arrives over the wire has canonical parameters *)
Theorem dec_boxes_canon : forall s bs, dec_boxes s = Ok bs -> forallb box_canon bs = true.
Proof.
  intros s bs H. unfold dec_boxes in H. destruct (sx_list s) as [l|er]; cbn in H; [|discriminate].
  apply forallb_forall. apply Forall_forall.
  eapply mapM_Forall; [|exact H]. intros a b. apply dec_box_canon.
Qed.

(* ------------------------------------------------------------ non-vacuity *)
Example ex_dcanon : dcanon ex_diagram = true.
Proof. vm_compute. reflexivity. Qed.

(* both sides on the example: lambdify(s1, s2)(1/4, 1/2) and subs([(s1, 1/4), (s2, 1/2)]) are
   the same diagram, lambdify's parameters being Python numbers *)
Definition ex_vals : list pexpr := [PE false (poly_const (ex_q 1 4)); PE false (poly_const (ex_q 1 2))].
Example ex_lambdify_subs :
  exists d1 d2,
    dlambdify pinned CCircuit [1; 2] ex_vals ex_diagram = XOk d1 /\
    dsubs pinned CCircuit (SList (combine [1; 2] ex_vals)) ex_diagram = XOk d2 /\
    erase d1 = erase d2 /\ d1 <> d2.
Proof.
  destruct (dlambdify pinned CCircuit [1; 2] ex_vals ex_diagram) as [d1|] eqn:E1; [|vm_compute in E1; discriminate].
  destruct (dsubs pinned CCircuit (SList (combine [1; 2] ex_vals)) ex_diagram) as [d2|] eqn:E2; [|vm_compute in E2; discriminate].
  exists d1, d2. split; [reflexivity|]. split; [reflexivity|]. split.
  - apply (lambdify_eq_subs_syntactic_l pinned CCircuit [1; 2] ex_vals ex_diagram);
      [exact ex_dwf | exact ex_dcanon | reflexivity | repeat constructor | exact E1 | exact E2].
  - intros E. subst d2. vm_compute in E1. vm_compute in E2. rewrite <- E1 in E2. discriminate.
Qed.
