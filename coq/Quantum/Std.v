(* The reference table: the textbook / tket matrices of the named operations,
   in [out, in] order (row = output basis state, column = input basis state,
   qubit 0 = leftmost = most significant, tket's ILO-BE convention), written
   independently of gates.py from the pytket documentation.  The C11 check
   validates this table against pytket's own Op.get_unitary() at all 32 grid
   phases on every run (it validates the reference, not the code).

   A DisCoPy phase p (full turns) corresponds to the tket parameter 2p (half
   turns); with e = exp(i*pi*p):  cos(pi*alpha/2) = pcos e,  sin(pi*alpha/2)
   = psin e,  exp(i*pi*alpha/2) = e,  exp(i*pi*alpha) = e*e.

   Definitions only. *)
From Coq Require Import List.
Import ListNotations.
Require Import DV.Quantum.Ring DV.Quantum.Matrix DV.Quantum.Gates.

Inductive std_op :=
| SH | SS | ST | SX | SY | SZ | SSdg | STdg | SRx | SRy | SRz
| SCX | SCY | SCZ | SCH | SCS | SCSdg | SSWAP | SCU1 | SCRz | SCRx | SCRy.

Definition std_qubits (op : std_op) : nat :=
  match op with
  | SH | SS | ST | SX | SY | SZ | SSdg | STdg | SRx | SRy | SRz => 1
  | _ => 2
  end.

Section Std.
  Variable SR : StarRing.
  Local Open Scope sr_scope.

  (* block_diag(I_2, U) for a 2x2 U given flat *)
  Definition std_ctrl (u : list SR) : list SR :=
    [1;0;0;0;  0;1;0;0;  0;0; nth 0 u 0; nth 1 u 0;  0;0; nth 2 u 0; nth 3 u 0].

  (* flat row-major [out, in] data of the one-qubit operations; e is ignored by
     unparametrised operations *)
  Definition std1_flat (op : std_op) (e : SR) : list SR :=
    let c := pcos e in let s := psin e in
    match op with
    | SH => [risq2; risq2; risq2; ropp risq2]
    | SS => [1; 0; 0; ri]
    | SSdg => [1; 0; 0; ropp ri]
    | ST => [1; 0; 0; rw8]
    | STdg => [1; 0; 0; rconj rw8]
    | SX => [0; 1; 1; 0]
    | SY => [0; ropp ri; ri; 0]
    | SZ => [1; 0; 0; ropp 1]
    | SRx => [c; ropp (ri * s); ropp (ri * s); c]
    | SRy => [c; ropp s; s; c]
    | SRz => [rconj e; 0; 0; e]
    | _ => []
    end.

  Definition std_flat (op : std_op) (e : SR) : list SR :=
    match op with
    | SCX => std_ctrl (std1_flat SX e)
    | SCY => std_ctrl (std1_flat SY e)
    | SCZ => std_ctrl (std1_flat SZ e)
    | SCH => std_ctrl (std1_flat SH e)
    | SCS => std_ctrl (std1_flat SS e)
    | SCSdg => std_ctrl (std1_flat SSdg e)
    | SCRz => std_ctrl (std1_flat SRz e)
    | SCRx => std_ctrl (std1_flat SRx e)
    | SCRy => std_ctrl (std1_flat SRy e)
    | SCU1 => [1;0;0;0;  0;1;0;0;  0;0;1;0;  0;0;0; e * e]
    | SSWAP => [1;0;0;0;  0;0;1;0;  0;1;0;0;  0;0;0;1]
    | _ => std1_flat op e
    end.

  (* the matrix: first index = OUTPUT bits, second = INPUT bits *)
  Definition std_mat (op : std_op) (e : SR) : mat SR := mat_of_flat (std_flat op e).

  (* ---- the reference for each model gate: "the identically named tket
     operation", the dagger of a named gate being tket's Sdg / Tdg (H, X, Y, Z
     are Hermitian) *)
  Definition std_of_named (g : named1) (dag : bool) : std_op :=
    match g with
    | NH => SH | NX => SX | NY => SY | NZ => SZ
    | NS => if dag then SSdg else SS
    | NT => if dag then STdg else ST
    end.
  Definition std_of_rot1 (r : rot1) : std_op :=
    match r with RRx => SRx | RRy => SRy | RRz => SRz end.
  Definition std_of_rot2 (r : rot2) : std_op :=
    match r with RCU1 => SCU1 | RCRz => SCRz | RCRx => SCRx end.

  Definition std_gate1 (g : gate1 SR) : list SR :=
    match g with
    | G1Named n d => std_flat (std_of_named n d) 1
    | G1Rot r e => std_flat (std_of_rot1 r) e
    end.
  (* a controlled gate: the controlled version of its target *)
  Definition std_gate2 (g : gate2 SR) : list SR :=
    match g with
    | G2CZ => std_flat SCZ 1
    | G2Ctrl g1 => std_ctrl (std_gate1 g1)
    | G2Rot r e => std_flat (std_of_rot2 r) e
    end.
End Std.

Arguments std_ctrl {_}. Arguments std1_flat {_}. Arguments std_flat {_}. Arguments std_mat {_}.
Arguments std_gate1 {_}. Arguments std_gate2 {_}.
