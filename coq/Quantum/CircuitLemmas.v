(* Proofs about pure circuits (Gates.v): evaluation is the ordered product of
   the whiskered boxes, composition is the matrix product, the dagger is the
   conjugate transpose, circuits of gates are unitary, and the [in, out]
   evaluation is the transpose of the textbook [out, in] product of the
   reference matrices (Std.v). *)
From Coq Require Import List Bool Arith ZArith Lia Ring.
Import ListNotations.
Require Import DV.Common.Base.
Require Import DV.Quantum.Ring DV.Quantum.Matrix DV.Quantum.MatrixLemmas DV.Quantum.Gates
               DV.Quantum.Std DV.Quantum.GatesLemmas.
Local Open Scope nat_scope.

Section CircuitLemmas.
  Variable SR : StarRing.
  Add Ring SRr2 : (SR_ring SR).
  Notation layers := (list (nat * box SR)).
  Implicit Types (ls : layers) (l : nat * box SR) (A B : mat SR).

  (* width after one layer *)
  Definition step_w (w : nat) l : nat := w - box_dom (snd l) + box_cod (snd l).

  (* THE ORDERED PRODUCT: (id (x) b1 (x) id) then (id (x) b2 (x) id) then ... *)
  Fixpoint lprod (w : nat) ls : mat SR :=
    match ls with
    | [] => mid
    | l :: ls' => mmul (step_w w l) (layer_mat l) (lprod (step_w w l) ls')
    end.

  Lemma run_width_cons : forall w l ls w2, run_width w (l :: ls) = Some w2 ->
    fst l + box_dom (snd l) <= w /\ run_width (step_w w l) ls = Some w2.
  Proof.
    intros w [off b] ls w2 H. cbn in H. destruct (off + box_dom b <=? w) eqn:E; [|discriminate].
    apply Nat.leb_le in E. split; [exact E | exact H].
  Qed.

  Lemma run_width_app : forall ls1 ls2 w w1, run_width w ls1 = Some w1 ->
    run_width w (ls1 ++ ls2) = run_width w1 ls2.
  Proof.
    induction ls1 as [|[off b] ls1 IH]; intros ls2 w w1 H; cbn in *.
    - injection H as ->. reflexivity.
    - destruct (off + box_dom b <=? w); [|discriminate]. apply IH, H.
  Qed.

  (* a layer that fits is a matrix from w wires to step_w w l wires: the form needed
     by the whisker lemmas *)
  Lemma layer_dims : forall w l, fst l + box_dom (snd l) <= w ->
    exists r, w = fst l + box_dom (snd l) + r /\ step_w w l = fst l + box_cod (snd l) + r.
  Proof. intros w l H. exists (w - fst l - box_dom (snd l)). unfold step_w. lia. Qed.

  (* ---------------------------------------------------------------- evaluation *)
  Lemma eval_layers_lprod : forall fz, (forall m n A, meq m n (fz m n A) A) ->
    forall ls n w w2 acc acc0, run_width w ls = Some w2 -> meq n w acc acc0 ->
    meq n w2 (eval_layers fz n w acc ls) (mmul w acc0 (lprod w ls)).
  Proof.
    intros fz Hfz. induction ls as [|l ls IH]; intros n w w2 acc acc0 Hw Hacc.
    - cbn in Hw. injection Hw as <-. cbn.
      eapply meq_trans; [exact Hacc | apply meq_sym, mmul_id_r].
    - apply run_width_cons in Hw as [Hfit Hw]. cbn [eval_layers lprod]. fold (step_w w l).
      eapply meq_trans.
      + apply (IH n (step_w w l) w2 _ (mmul w acc0 (layer_mat l)) Hw).
        eapply meq_trans; [apply Hfz|]. apply mmul_compat; [exact Hacc | apply Hfz].
      + intros i o _ _. apply mmul_assoc.
  Qed.

  Lemma eval_is_lprod : forall c : circuit SR, wf_circuit c = true ->
    meq (c_dom c) (cod_or0 c) (eval c) (lprod (c_dom c) (c_layers c)).
  Proof.
    intros c Hwf. unfold wf_circuit, cod_or0, c_cod in *.
    destruct (run_width (c_dom c) (c_layers c)) as [w2|] eqn:E; [|discriminate].
    unfold eval. eapply meq_trans.
    - apply (eval_layers_lprod mfreeze (@mfreeze_eq SR) _ _ _ _ _ mid E). apply mfreeze_eq.
    - apply mmul_id_l.
  Qed.

  Lemma eval_spec_is_lprod : forall c : circuit SR, wf_circuit c = true ->
    meq (c_dom c) (cod_or0 c) (eval_spec c) (lprod (c_dom c) (c_layers c)).
  Proof.
    intros c Hwf. unfold wf_circuit, cod_or0, c_cod in *.
    destruct (run_width (c_dom c) (c_layers c)) as [w2|] eqn:E; [|discriminate].
    unfold eval_spec. eapply meq_trans.
    - apply (eval_layers_lprod (fun _ _ A => A) (fun m n A => meq_refl SR m n A) _ _ _ _ _ mid E).
      apply meq_refl.
    - apply mmul_id_l.
  Qed.

  (* the executable evaluation computes the specification *)
  Lemma eval_is_eval_spec : forall c : circuit SR, wf_circuit c = true ->
    meq (c_dom c) (cod_or0 c) (eval c) (eval_spec c).
  Proof.
    intros. eapply meq_trans; [apply eval_is_lprod | apply meq_sym, eval_spec_is_lprod]; auto.
  Qed.

  (* ---------------------------------------------------------------- composition *)
  Lemma lprod_app : forall ls1 ls2 w w1 w2, run_width w ls1 = Some w1 ->
    run_width w1 ls2 = Some w2 ->
    meq w w2 (lprod w (ls1 ++ ls2)) (mmul w1 (lprod w ls1) (lprod w1 ls2)).
  Proof.
    induction ls1 as [|l ls1 IH]; intros ls2 w w1 w2 H1 H2.
    - cbn in H1. injection H1 as <-. cbn. apply meq_sym, mmul_id_l.
    - apply run_width_cons in H1 as [Hfit H1]. cbn [lprod app].
      eapply meq_trans.
      + apply mmul_compat; [apply meq_refl | apply (IH ls2 _ w1 w2 H1 H2)].
      + intros i o _ _. symmetry. apply mmul_assoc.
  Qed.

  Lemma cthen_wf : forall a b c : circuit SR, wf_circuit a = true -> wf_circuit b = true ->
    cthen a b = Ok c ->
    wf_circuit c = true /\ c_dom c = c_dom a /\ cod_or0 c = cod_or0 b /\ cod_or0 a = c_dom b.
  Proof.
    intros a b c Ha Hb H. unfold cthen in H.
    destruct (cod_or0 a =? c_dom b) eqn:E; [|discriminate]. injection H as <-.
    apply Nat.eqb_eq in E. unfold wf_circuit, cod_or0, c_cod in *. cbn.
    destruct (run_width (c_dom a) (c_layers a)) as [wa|] eqn:Ea; [|discriminate].
    rewrite (run_width_app _ _ _ _ Ea). rewrite E.
    destruct (run_width (c_dom b) (c_layers b)); [auto|discriminate].
  Qed.

  (* (a >> b).eval() = a.eval() then b.eval() *)
  Lemma cthen_eval : forall a b c : circuit SR, wf_circuit a = true -> wf_circuit b = true ->
    cthen a b = Ok c ->
    meq (c_dom a) (cod_or0 b) (eval c) (mmul (cod_or0 a) (eval a) (eval b)).
  Proof.
    intros a b c Ha Hb H.
    destruct (cthen_wf a b c Ha Hb H) as (Hc & Hd & Hcod & Hmid).
    pose proof (eval_is_lprod c Hc) as Ec. rewrite Hd, Hcod in Ec.
    eapply meq_trans; [exact Ec|].
    unfold cthen in H. rewrite Hmid, Nat.eqb_refl in H. injection H as <-. cbn [c_dom c_layers].
    unfold wf_circuit, cod_or0, c_cod in *.
    destruct (run_width (c_dom a) (c_layers a)) as [wa|] eqn:Ea; [|discriminate].
    destruct (run_width (c_dom b) (c_layers b)) as [wb|] eqn:Eb; [|discriminate].
    subst wa.
    eapply meq_trans; [apply (lprod_app _ _ _ _ _ Ea Eb)|].
    apply meq_sym, mmul_compat.
    - pose proof (eval_is_lprod a) as Xa. unfold wf_circuit, cod_or0, c_cod in Xa.
      rewrite Ea in Xa. apply Xa. reflexivity.
    - pose proof (eval_is_lprod b) as Xb. unfold wf_circuit, cod_or0, c_cod in Xb.
      rewrite Eb in Xb. apply Xb. reflexivity.
  Qed.

  (* ---------------------------------------------------------------- unitarity *)
  Lemma layer_unitary : forall w l, fst l + box_dom (snd l) <= w ->
    is_gate (snd l) = true -> phases_ok (snd l) ->
    step_w w l = w /\ unitary w (layer_mat l).
  Proof.
    intros w [off b] Hfit Hg Hp. cbn [fst snd] in *.
    destruct (box_unitary SR b Hg Hp) as [Hcd Hu].
    split; [unfold step_w; cbn [snd]; lia|].
    unfold layer_mat. cbn [fst snd]. rewrite Hcd.
    replace w with (off + box_dom b + (w - off - box_dom b)) at 1 by lia.
    apply unitary_whisker, Hu.
  Qed.

  Lemma lprod_unitary : forall ls w,
    (forall l, In l ls -> is_gate (snd l) = true /\ phases_ok (snd l)) ->
    (exists w2, run_width w ls = Some w2) ->
    run_width w ls = Some w /\ unitary w (lprod w ls).
  Proof.
    induction ls as [|l ls IH]; intros w Hall [w2 Hw].
    - cbn. split; [reflexivity | apply unitary_id].
    - apply run_width_cons in Hw as [Hfit Hw].
      destruct (Hall l (or_introl eq_refl)) as [Hg Hp].
      destruct (layer_unitary w l Hfit Hg Hp) as [Hs Hu].
      assert (Hall' : forall l', In l' ls -> is_gate (snd l') = true /\ phases_ok (snd l'))
        by (intros; apply Hall; right; assumption).
      rewrite Hs in Hw. destruct (IH w Hall' (ex_intro _ w2 Hw)) as [Hw' Hu'].
      split.
      + destruct l as [off b]. cbn [run_width]. cbn [fst snd] in Hfit.
        apply Nat.leb_le in Hfit. rewrite Hfit. change (w - box_dom b + box_cod b) with (step_w w (off, b)). rewrite Hs. exact Hw'.
      + cbn [lprod]. rewrite Hs. apply unitary_mmul; assumption.
  Qed.

  (* ---------------------------------------------------------------- dagger *)
  Definition dag_layers ls : layers := rev (map (fun l => (fst l, box_dagger (snd l))) ls).

  Lemma step_w_dagger : forall w l, fst l + box_dom (snd l) <= w ->
    step_w (step_w w l) (fst l, box_dagger (snd l)) = w
    /\ fst l + box_dom (box_dagger (snd l)) <= step_w w l.
  Proof.
    intros w [off b] H. unfold step_w. cbn [fst snd] in *.
    rewrite box_dagger_dom, box_dagger_cod. lia.
  Qed.

  Lemma run_width_dagger : forall ls w w2, run_width w ls = Some w2 ->
    run_width w2 (dag_layers ls) = Some w.
  Proof.
    induction ls as [|l ls IH]; intros w w2 H.
    - cbn in *. congruence.
    - apply run_width_cons in H as [Hfit H]. unfold dag_layers. cbn [map rev].
      fold (dag_layers ls). rewrite (run_width_app _ _ _ _ (IH _ _ H)).
      destruct (step_w_dagger w l Hfit) as [Hs Hf]. cbn [run_width].
      apply Nat.leb_le in Hf. cbn [fst snd]. rewrite Hf.
      change (step_w w l - box_dom (box_dagger (snd l)) + box_cod (box_dagger (snd l)))
        with (step_w (step_w w l) (fst l, box_dagger (snd l))). rewrite Hs. reflexivity.
  Qed.

  Lemma layer_dagger : forall w l, fst l + box_dom (snd l) <= w ->
    meq (step_w w l) w (layer_mat (fst l, box_dagger (snd l))) (madj (layer_mat l)).
  Proof.
    intros w [off b] Hfit. cbn [fst snd] in *.
    destruct (layer_dims w (off, b) Hfit) as (r & Hw & Hs). cbn [fst snd] in *.
    rewrite Hs. rewrite Hw at 1.
    unfold layer_mat. cbn [fst snd]. rewrite box_dagger_dom, box_dagger_cod.
    eapply meq_trans.
    - apply whisker_compat, box_dagger_eval.
    - intros i o _ _. symmetry. apply madj_whisker.
  Qed.

  Lemma lprod_dagger : forall ls w w2, run_width w ls = Some w2 ->
    meq w2 w (lprod w2 (dag_layers ls)) (madj (lprod w ls)).
  Proof.
    induction ls as [|l ls IH]; intros w w2 H.
    - cbn in H. injection H as <-. cbn. intros i o _ _. symmetry. apply madj_id.
    - apply run_width_cons in H as [Hfit H].
      pose proof (IH _ _ H) as IH'.
      pose proof (run_width_dagger _ _ _ H) as Hd.
      destruct (step_w_dagger w l Hfit) as [Hs Hf].
      unfold dag_layers. cbn [map rev]. fold (dag_layers ls).
      assert (H1 : run_width (step_w w l) [(fst l, box_dagger (snd l))] = Some w).
      { cbn [run_width fst snd]. apply Nat.leb_le in Hf. rewrite Hf.
        change (step_w w l - box_dom (box_dagger (snd l)) + box_cod (box_dagger (snd l)))
          with (step_w (step_w w l) (fst l, box_dagger (snd l))). rewrite Hs. reflexivity. }
      eapply meq_trans; [apply (lprod_app _ _ _ _ _ Hd H1)|].
      cbn [lprod]. rewrite Hs.
      eapply meq_trans.
      + apply mmul_compat; [exact IH'|].
        eapply meq_trans; [apply mmul_id_r|]. apply (layer_dagger w l Hfit).
      + intros i o _ _. symmetry. apply madj_mmul.
  Qed.

  Lemma cdagger_wf : forall c : circuit SR, wf_circuit c = true ->
    wf_circuit (cdagger c) = true /\ cod_or0 (cdagger c) = c_dom c.
  Proof.
    intros c H. unfold wf_circuit, cod_or0, c_cod, cdagger in *. cbn [c_dom c_layers].
    destruct (run_width (c_dom c) (c_layers c)) as [w2|] eqn:E; [|discriminate].
    unfold cod_or0, c_cod. rewrite E.
    pose proof (run_width_dagger _ _ _ E) as Hd. unfold dag_layers in Hd. rewrite Hd. auto.
  Qed.

  (* c.dagger().eval() = c.eval() conjugate-transposed, for every well-typed circuit *)
  Lemma cdagger_eval : forall c : circuit SR, wf_circuit c = true ->
    meq (cod_or0 c) (c_dom c) (eval (cdagger c)) (madj (eval c)).
  Proof.
    intros c Hwf.
    destruct (cdagger_wf c Hwf) as [Hwd Hcd].
    pose proof (eval_is_lprod _ Hwd) as E1. rewrite Hcd in E1.
    pose proof (eval_is_lprod _ Hwf) as E2.
    unfold wf_circuit, cod_or0, c_cod in *.
    destruct (run_width (c_dom c) (c_layers c)) as [w2|] eqn:E; [|discriminate].
    cbn [cdagger c_dom c_layers] in *. unfold cod_or0, c_cod in *. rewrite E in *.
    eapply meq_trans; [exact E1|].
    eapply meq_trans; [apply (lprod_dagger _ _ _ E)|].
    apply madj_compat, meq_sym, E2.
  Qed.

  (* ---------------------------------------------------------------- circuits of gates are unitary *)
  Definition gates_only (c : circuit SR) : Prop :=
    forall l, In l (c_layers c) -> is_gate (snd l) = true /\ phases_ok (snd l).

  Lemma circuit_unitary_l : forall c : circuit SR, wf_circuit c = true -> gates_only c ->
    cod_or0 c = c_dom c /\ unitary (c_dom c) (eval c).
  Proof.
    intros c Hwf Hg.
    pose proof (eval_is_lprod c Hwf) as E.
    unfold wf_circuit, cod_or0, c_cod in *.
    destruct (run_width (c_dom c) (c_layers c)) as [w2|] eqn:Ew; [|discriminate].
    destruct (lprod_unitary _ (c_dom c) Hg (ex_intro _ w2 Ew)) as [Hw Hu].
    rewrite Ew in Hw. injection Hw as ->. split; [reflexivity|].
    eapply unitary_compat; [apply meq_sym, E | exact Hu].
  Qed.

  (* ---------------------------------------------------------------- against the reference table *)
  (* the textbook [out, in] matrix of every box *)
  Definition std_box (b : box SR) : mat SR :=
    match b with
    | BG1 g => mat_of_flat (std_gate1 g)
    | BG2 g => mat_of_flat (std_gate2 g)
    | BSwap => std_mat SSWAP r1
    | BKet bs => fun o i => delta (o ++ i) bs          (* the basis column vector |bs> *)
    | BBra bs => fun o i => delta (o ++ i) bs          (* the basis row vector <bs| *)
    | BScalar z => fun _ _ => z
    | BSqrt2 k => fun _ _ => sqrt2_pow k
    end.

  Lemma box_matches_std : forall b : box SR,
    meq (box_cod b) (box_dom b) (mtrans (box_eval b)) (std_box b).
  Proof.
    intros [g|g| |bs|bs|z|k].
    - apply gate1_matches_std.
    - apply gate2_matches_std.
    - intros i o Hi Ho. cbn in Hi, Ho. dbits; reflexivity.
    - intros o i Ho Hi. cbn in Ho, Hi. destruct i; [|discriminate].
      unfold mtrans. cbn. rewrite app_nil_r. reflexivity.
    - intros o i Ho Hi. cbn in Ho, Hi. destruct o; [|discriminate].
      unfold mtrans. cbn. rewrite app_nil_r. reflexivity.
    - intros o i _ _. reflexivity.
    - intros o i _ _. reflexivity.
  Qed.

  (* U_k ... U_2 U_1 : the usual right-to-left product of the reference matrices, each
     acting on the stated wires (identity elsewhere) *)
  Fixpoint std_prod (w : nat) ls : mat SR :=
    match ls with
    | [] => mid
    | l :: ls' =>
        mmul (step_w w l) (std_prod (step_w w l) ls')
             (whisker (fst l) (box_cod (snd l)) (box_dom (snd l)) (std_box (snd l)))
    end.

  Lemma lprod_std : forall ls w w2, run_width w ls = Some w2 ->
    meq w2 w (mtrans (lprod w ls)) (std_prod w ls).
  Proof.
    induction ls as [|l ls IH]; intros w w2 H.
    - cbn in H. injection H as <-. cbn. intros i o _ _. apply mtrans_id.
    - apply run_width_cons in H as [Hfit H].
      cbn [lprod std_prod].
      eapply meq_trans; [intros i o _ _; apply mtrans_mmul|].
      apply mmul_compat; [apply (IH _ _ H)|].
      destruct (layer_dims w l Hfit) as (r & Hw & Hs). rewrite Hs. rewrite Hw at 1.
      eapply meq_trans; [intros i o _ _; apply mtrans_whisker|].
      apply whisker_compat, box_matches_std.
  Qed.

  (* Circuit.eval(), read as [out, in], is the product of the reference matrices *)
  Lemma eval_matches_std : forall c : circuit SR, wf_circuit c = true ->
    meq (cod_or0 c) (c_dom c) (mtrans (eval c)) (std_prod (c_dom c) (c_layers c)).
  Proof.
    intros c Hwf. pose proof (eval_is_lprod c Hwf) as E.
    unfold wf_circuit, cod_or0, c_cod in *.
    destruct (run_width (c_dom c) (c_layers c)) as [w2|] eqn:Ew; [|discriminate].
    eapply meq_trans; [apply mtrans_compat, E|]. apply (lprod_std _ _ _ Ew).
  Qed.
End CircuitLemmas.

Arguments step_w {_}. Arguments lprod {_}. Arguments dag_layers {_}.
Arguments gates_only {_}. Arguments std_box {_}. Arguments std_prod {_}.
