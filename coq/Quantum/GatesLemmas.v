(* Proofs about the gates / pure-circuit model (Gates.v) against the reference
   table (Std.v), over every StarRing and every phase unit e. *)
From Coq Require Import List Bool Arith ZArith Lia Ring.
Import ListNotations.
Require Import DV.Common.Base.
Require Import DV.Quantum.Ring DV.Quantum.Matrix DV.Quantum.MatrixLemmas DV.Quantum.Gates DV.Quantum.Std.
Local Open Scope nat_scope.

(* split index lists of known length into their bits *)
Ltac dbits :=
  repeat match goal with
  | H : length ?l = S _ |- _ =>
      destruct l as [|[] l]; cbn [length] in H; [discriminate H | injection H as H | injection H as H]
  | H : length ?l = O |- _ => destruct l; [clear H | discriminate H]
  end.

Section GateLemmas.
  Variable SR : StarRing.
  Add Ring SRr : (SR_ring SR).
  Local Open Scope sr_scope.
  Implicit Types (e z : SR) (A B U : mat SR).

  Let Hi := i_sq SR.
  Let Hh := half_2 SR.
  Let Hq := isq2_sq SR.

  (* conjugation pushed through every constant *)
  Ltac conj_norm :=
    rewrite ?(conj_mul SR), ?(conj_add SR), ?(conj_sub SR), ?(conj_opp SR), ?(conj_invol SR),
            ?(conj_i SR), ?(conj_half SR), ?(conj_isq2 SR), ?(conj_0 SR), ?(conj_1 SR).
  Ltac unf := unfold rw8, pcos, psin, rsqrt2, rtwo in *.
  (* polynomial identities modulo i^2 = -1, 2*half = 1, 2*isq2^2 = 1 and the
     phase hypotheses found in the context *)
  Ltac sring :=
    unf; repeat conj_norm;
    first [ ring
          | ring [Hi Hh Hq]
          | match goal with He : ?e * rconj ?e = 1 |- _ => ring [Hi Hh Hq He] end ].

  (* -------------------------------------------------------------- gate_matches_std *)
  Ltac gate_cases :=
    unfold mtrans, gate1_eval, gate2_eval, madj, mscale, mat_of_flat;
    cbn -[rw8 pcos psin rconj]; try reflexivity; sring.

  Lemma gate1_matches_std : forall g : gate1 SR,
    meq 1 1 (mtrans (gate1_eval g)) (mat_of_flat (std_gate1 g)).
  Proof.
    intros g i o Hi' Ho'. dbits; destruct g as [[] []|[] e]; gate_cases.
  Qed.

  Lemma gate2_matches_std : forall g : gate2 SR,
    meq 2 2 (mtrans (gate2_eval g)) (mat_of_flat (std_gate2 g)).
  Proof.
    intros g i o Hi' Ho'.
    destruct g as [|[[] []|[] e]|[] e]; dbits; gate_cases.
  Qed.

  (* -------------------------------------------------------------- controlled *)
  (* the controlled version of a one-qubit matrix U, in U's own index order:
     identity when the control (first wire) is 0, U on the target when it is 1 *)
  Definition ctrl_of U : mat SR :=
    mat_of_flat (controlled_flat [U [false] [false]; U [false] [true]; U [true] [false]; U [true] [true]]).

  (* Controlled(g) evaluates to the controlled version of g's evaluation, for every
     one-qubit gate g, daggered or not *)
  Lemma controlled_is_controlled : forall g : gate1 SR,
    meq 2 2 (gate2_eval (G2Ctrl g)) (ctrl_of (gate1_eval g)).
  Proof.
    intros g i o Hi' Ho'. unfold ctrl_of, gate2_eval, gate1_eval.
    dbits; destruct g as [[] []|[] e]; reflexivity.
  Qed.

  (* -------------------------------------------------------------- kets and bras *)
  Lemma ket_is_basis_vector : forall b o, box_eval (BKet b) [] o = (delta o b : SR).
  Proof. reflexivity. Qed.
  Lemma bra_is_basis_covector : forall b i, box_eval (BBra b) i [] = (delta i b : SR).
  Proof. intros. cbn. rewrite app_nil_r. reflexivity. Qed.

  (* -------------------------------------------------------------- unitarity of the gates *)
  Definition phases_ok1 (g : gate1 SR) : Prop :=
    match g with G1Rot _ e => is_phase e | _ => True end.
  Definition phases_ok2 (g : gate2 SR) : Prop :=
    match g with G2Ctrl g1 => phases_ok1 g1 | G2Rot _ e => is_phase e | _ => True end.

  Ltac unitary_cases :=
    unfold mmul, madj, mid, delta, mat_of_flat, gate1_eval, gate2_eval;
    cbn -[rw8 pcos psin rconj]; sring.

  Lemma gate1_raw_unitary : forall g, phases_ok1 g -> unitary 1 (mat_of_flat (gate1_flat g)).
  Proof.
    intros g Hp. split; intros i o Hi' Ho'; dbits;
      destruct g as [[] d|[] e]; cbn in Hp; unfold is_phase in Hp; unitary_cases.
  Qed.

  Lemma gate1_unitary : forall g, phases_ok1 g -> unitary 1 (gate1_eval g).
  Proof.
    intros g Hp. unfold gate1_eval. destruct (gate1_is_dagger g).
    - apply unitary_madj, gate1_raw_unitary, Hp.
    - apply gate1_raw_unitary, Hp.
  Qed.

  (* -------------------------------------------------------------- two-qubit gates *)
  Lemma ctrl_unitary : forall U, unitary 1 U -> unitary 2 (ctrl_of U).
  Proof.
    intros U [H1 H2].
    pose proof (H1 [false] [false] eq_refl eq_refl) as A00.
    pose proof (H1 [false] [true] eq_refl eq_refl) as A01.
    pose proof (H1 [true] [false] eq_refl eq_refl) as A10.
    pose proof (H1 [true] [true] eq_refl eq_refl) as A11.
    pose proof (H2 [false] [false] eq_refl eq_refl) as B00.
    pose proof (H2 [false] [true] eq_refl eq_refl) as B01.
    pose proof (H2 [true] [false] eq_refl eq_refl) as B10.
    pose proof (H2 [true] [true] eq_refl eq_refl) as B11.
    unfold mmul, madj, mid, delta in A00, A01, A10, A11, B00, B01, B10, B11.
    cbn in A00, A01, A10, A11, B00, B01, B10, B11.
    split; intros i o Hi' Ho'; dbits;
      unfold ctrl_of, mmul, madj, mid, delta, mat_of_flat; cbn; conj_norm;
      first [ ring
            | (etransitivity; [|exact A00]; ring) | (etransitivity; [|exact A01]; ring)
            | (etransitivity; [|exact A10]; ring) | (etransitivity; [|exact A11]; ring)
            | (etransitivity; [|exact B00]; ring) | (etransitivity; [|exact B01]; ring)
            | (etransitivity; [|exact B10]; ring) | (etransitivity; [|exact B11]; ring) ].
  Qed.

  Lemma gate2_unitary : forall g, phases_ok2 g -> unitary 2 (gate2_eval g).
  Proof.
    intros g Hp. destruct g as [|g1|r e].
    - split; intros i o Hi' Ho'; dbits; unitary_cases.
    - eapply unitary_compat; [apply meq_sym, controlled_is_controlled|].
      apply ctrl_unitary, gate1_unitary, Hp.
    - cbn in Hp; unfold is_phase in Hp.
      split; intros i o Hi' Ho'; dbits; destruct r; unitary_cases.
  Qed.

  Lemma swap_unitary : unitary 2 (mat_of_flat (@swap_flat SR)).
  Proof. split; intros i o Hi' Ho'; dbits; unitary_cases. Qed.

  (* a box that is a gate (a unitary on its wires) *)
  Definition is_gate (b : box SR) : bool :=
    match b with BG1 _ | BG2 _ | BSwap => true | _ => false end.
  Definition phases_ok (b : box SR) : Prop :=
    match b with BG1 g => phases_ok1 g | BG2 g => phases_ok2 g | _ => True end.

  Lemma box_unitary : forall b, is_gate b = true -> phases_ok b ->
    box_cod b = box_dom b /\ unitary (box_dom b) (box_eval b).
  Proof.
    intros [g|g| | | | | ] Hg Hp; try discriminate Hg; cbn; split; try reflexivity.
    - apply gate1_unitary, Hp.
    - apply gate2_unitary, Hp.
    - apply swap_unitary.
  Qed.

  (* -------------------------------------------------------------- dagger of a box *)
  Lemma box_dagger_dom : forall b : box SR, box_dom (box_dagger b) = box_cod b.
  Proof. destruct b; reflexivity. Qed.
  Lemma box_dagger_cod : forall b : box SR, box_cod (box_dagger b) = box_dom b.
  Proof. destruct b; reflexivity. Qed.

  Lemma conj_rpow_real : forall (x : SR) n, rconj x = x -> rconj (rpow x n) = rpow x n.
  Proof. induction n; intro H; cbn; [apply conj_1 | rewrite conj_mul, H, IHn; auto]. Qed.

  Lemma conj_sqrt2_pow : forall k, rconj (sqrt2_pow k : SR) = sqrt2_pow k.
  Proof.
    destruct k; cbn; [apply conj_1 | apply conj_rpow_real, conj_sqrt2 | apply conj_rpow_real, conj_isq2].
  Qed.

  Ltac dagger_cases :=
    unfold gate1_eval, gate2_eval; cbn -[rw8 pcos psin rconj madj mat_of_flat];
    unfold madj, mat_of_flat; cbn -[rw8 pcos psin rconj]; try reflexivity; sring.

  Lemma gate1_dagger_eval : forall g : gate1 SR,
    meq 1 1 (gate1_eval (gate1_dagger g)) (madj (gate1_eval g)).
  Proof. intros g i o Hi' Ho'. dbits; destruct g as [[] []|[] e]; dagger_cases. Qed.

  Lemma gate2_dagger_eval : forall g : gate2 SR,
    meq 2 2 (gate2_eval (gate2_dagger g)) (madj (gate2_eval g)).
  Proof.
    intros g i o Hi' Ho'.
    destruct g as [|[[] []|[] e]|[] e]; dbits; dagger_cases.
  Qed.

  Lemma box_dagger_eval : forall b : box SR,
    meq (box_cod b) (box_dom b) (box_eval (box_dagger b)) (madj (box_eval b)).
  Proof.
    intros b. destruct b as [g|g| |bs|bs|z|k].
    - apply gate1_dagger_eval.
    - apply gate2_dagger_eval.
    - intros i o Hi' Ho'. cbn in Hi', Ho'. dbits; dagger_cases.
    - intros i o Hi' Ho'. cbn in Hi', Ho'. destruct o; [|discriminate].
      unfold madj. cbn. rewrite app_nil_r, conj_delta. reflexivity.
    - intros i o Hi' Ho'. cbn in Hi', Ho'. destruct i; [|discriminate].
      unfold madj. cbn. rewrite app_nil_r, conj_delta. reflexivity.
    - intros i o _ _. reflexivity.
    - intros i o _ _. unfold madj. cbn. rewrite conj_sqrt2_pow. reflexivity.
  Qed.
End GateLemmas.

Arguments ctrl_of {_}. Arguments phases_ok1 {_}.
Arguments phases_ok2 {_}. Arguments is_gate {_}. Arguments phases_ok {_}.
