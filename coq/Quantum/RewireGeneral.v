(* rewire, every placement (C11): the general proof.

   rewire(op, a, b, dom=qubit ** n) for non-adjacent a, b is
       perm[::-1] >> op @ Id(n - 2) >> perm
   where perm = Box.permutation(l) is the network of adjacent swaps that
   monoidal.Diagram.permutation builds for the list l = [a, b, ...] computed by
   rewire's list surgery.  This file proves, for every StarRing, every width n,
   every a <> b < n and every well-typed two-qubit circuit op : 2 -> 2, that
   the result is well-typed, has width n and evaluates to `on_wires a b (eval op)`
   (op on the wires a and b, every other wire untouched):

   A. Diagram.permutation is never refused on a genuine permutation
      (dpermutation_total) and every one of its swaps is at a legal offset;
   B. routing labels through nat offsets, and its inverse (the reversed network);
   C. the layer Id(k) @ SWAP @ Id(n - k - 2) evaluates to the matrix that exchanges
      bits k and k + 1 of the index (layer_swap), hence the whole network to the
      index relabelling `pmat (nroute offs)` (lprod_swaps);
   D. conjugating K by a relabelling matrix relabels both indices of K (conj_pmat);
   E. by C10's permutation_wire_map the backward relabelling is "new bit j = old
      bit l[j]" (network_relabels);
   F. (G (x) id) read through the relabelling by a :: b :: rest is on_wires a b G;
   G. rewire's list surgery yields a permutation of the wires starting with a, b;
   H. the conjugation by the network of ANY permutation a :: b :: rest (conj_network);
   I. the contiguous placements, restated with on_wires;
   J. the theorem, and the statement rewire_acts_on_a_b_stmt of GatesWitness.v.

   No axioms; no functional extensionality (matrices are compared with meq). *)
From Coq Require Import List Bool Arith ZArith Lia Ring.
Import ListNotations.
Require Import DV.Common.Base DV.Common.ListLemmas DV.Core.Diagram DV.Core.WF DV.Core.DiagramLemmas
  DV.Core.Perm DV.Core.Route DV.Core.PermLemmas DV.Core.PermWire.
Require Import DV.Quantum.Ring DV.Quantum.Cyc32 DV.Quantum.Matrix DV.Quantum.MatrixLemmas
               DV.Quantum.Gates DV.Quantum.Std DV.Quantum.GatesLemmas DV.Quantum.CircuitLemmas
               DV.Quantum.TensorLemmas DV.Quantum.GatesWitness.
Local Open Scope nat_scope.

(* ================================================================== A. the swap network *)
Section Network.
  Local Open Scope Z_scope.

  (* every box of a well-typed diagram of two-wire boxes sits at a legal offset *)
  Lemma reads_in_range : forall bs offs a b, reads a bs offs b ->
    Forall (fun bx => length (bdom bx) = 2%nat /\ length (bcod bx) = 2%nat) bs ->
    offsets_in_range (length a) offs.
  Proof.
    induction bs as [|bx bs IH]; intros offs a b Hr Hs; destruct offs as [|off offs];
      cbn [reads] in Hr; try contradiction.
    - constructor.
    - destruct Hr as (H0 & l & r & Ea & Hl & Hr).
      inversion Hs as [|? ? [Hd Hc] Hs']; subst.
      constructor.
      + split; [exact H0|]. rewrite !app_length, Hd. unfold len. lia.
      + specialize (IH _ _ _ Hr Hs'). rewrite !app_length in *. rewrite Hc in IH. rewrite Hd. exact IH.
  Qed.

  Lemma dpermutation_in_range : forall perm dom d, dpermutation perm dom = Ok d ->
    offsets_in_range (length dom) (doffs d).
  Proof.
    intros perm dom d H.
    destruct (dpermutation_spec _ _ _ H) as (W & D & _ & S & _).
    rewrite <- D. apply (reads_in_range (dboxes d) (doffs d) (ddom d) (dcod d)).
    - apply wf_reads, W.
    - eapply Forall_impl; [|exact S]. cbn. intros bx (_ & H1 & H2). split; assumption.
  Qed.

  (* one iteration of the selection loop is never refused *)
  Lemma perm_step_total : forall d perm i j N,
    wf d -> length (dcod d) = N -> length perm = N ->
    zindex (Z.of_nat i) perm = Some j -> (i <= j)%nat ->
    exists r, perm_step d perm i = Ok r.
  Proof.
    intros d perm i j N W Hc Hp Hz Hij. unfold perm_step. rewrite Hz.
    destruct (zindex_spec _ _ _ Hz) as [Hnth _].
    assert (HjN : (j < N)%nat) by (rewrite <- Hp; apply nth_error_Some; congruence).
    set (c := dcod d) in *.
    replace (Z.of_nat j + 1) with (Z.of_nat (S j)) by lia.
    rewrite !py_slice_prefix_nat, !py_slice_suffix_nat.
    rewrite (py_slice_nat c i j) by lia. rewrite (py_slice_nat c j (S j)) by lia.
    replace (S j - j)%nat with 1%nat by lia.
    destruct (dswap_total (firstn (j - i) (skipn i c)) (firstn 1 (skipn j c))) as (s & Es).
    rewrite Es. cbn [bind].
    destruct (dswap_spec _ _ _ Es) as (Ws & Ds & Cs & _).
    destruct (dtensor_ok (did (firstn i c)) s (did_wf _) Ws) as (t1 & E1 & W1 & D1 & C1 & _).
    rewrite E1. cbn [bind].
    destruct (dtensor_ok t1 (did (skipn (S j) c)) W1 (did_wf _)) as (t2 & E2 & W2 & D2 & C2 & _).
    rewrite E2. cbn [bind].
    assert (Hx : exists x, nth_error c j = Some x).
    { destruct (nth_error c j) eqn:E; [eauto|]. apply nth_error_None in E. lia. }
    destruct Hx as (x & Hx).
    assert (Hm : dcod d = ddom t2).
    { rewrite D2, D1, Ds. cbn [did ddom]. fold c.
      rewrite (firstn1_skipn _ _ _ Hx). rewrite <- !app_assoc.
      apply (split_ij c i j x Hij Hx). }
    destruct (dthen_ok d t2 W W2 Hm) as (d' & Ed & _). rewrite Ed. cbn [bind]. eauto.
  Qed.

  Lemma perm_loop_total : forall N n d perm i,
    (i + n = N)%nat -> wf d -> length (dcod d) = N -> length perm = N ->
    has_all perm N -> sorted_prefix perm i -> exists d', perm_loop d perm i n = Ok d'.
  Proof.
    intros N. induction n as [|n IH]; intros d perm i HiN W Hc Hp Hall Hs; cbn [perm_loop].
    - eauto.
    - assert (Hin : In (Z.of_nat i) perm) by (apply Hall; lia).
      destruct (zindex_in _ _ Hin) as (j & Hz).
      pose proof (index_after_prefix _ _ _ Hs Hz) as Hij.
      destruct (zindex_spec _ _ _ Hz) as [Hj _].
      assert (HjN : (j < N)%nat) by (rewrite <- Hp; apply nth_error_Some; congruence).
      destruct (perm_step_total d perm i j N W Hc Hp Hz Hij) as ([d1 p1] & E).
      rewrite E. cbn [bind fst snd].
      destruct (perm_step_route d perm i j N d1 p1 W Hc Hp Hz Hij E) as (W1 & C1 & D1 & P1 & _).
      apply IH; auto; try lia.
      + rewrite P1, upd_length; lia.
      + intros v Hv. rewrite P1. apply (upd_In perm i j _ Hij Hj). apply Hall, Hv.
      + intros k Hk. rewrite P1. destruct (Nat.eq_dec k i) as [->|Hne].
        * apply (upd_at perm i j _ Hij Hj).
        * rewrite upd_prefix by lia. apply Hs. lia.
  Qed.

  (* Diagram.permutation is never refused on a genuine permutation of the right length *)
  Theorem dpermutation_total : forall perm dom, is_perm perm = true -> len dom = len perm ->
    exists d, dpermutation perm dom = Ok d.
  Proof.
    intros perm dom Hp Hl. unfold dpermutation. rewrite Hp. cbn [negb].
    rewrite Hl, Z.eqb_refl. cbn [negb].
    assert (Hl' : length dom = length perm) by (unfold len in Hl; lia).
    apply (perm_loop_total (length perm) (length dom) (did dom) perm 0%nat);
      auto using did_wf, is_perm_has_all; try lia.
    intros k Hk; lia.
  Qed.
End Network.

(* ================================================================== B. routing with nat offsets *)
Definition nroute {A} (offs : list nat) (ws : list A) : list A :=
  fold_left (fun ws o => swap_at o ws) offs ws.

Lemma route_nroute : forall {A} offs (ws : list A), route offs ws = nroute (map Z.to_nat offs) ws.
Proof.
  intros A offs. unfold route, nroute.
  induction offs as [|o offs IH]; intros ws; cbn [map fold_left]; [reflexivity | apply IH].
Qed.

Lemma swap_at_invol : forall {A} o (ws : list A), swap_at o (swap_at o ws) = ws.
Proof.
  intros A. induction o as [|o IH]; intros ws.
  - destruct ws as [|a [|b ws]]; reflexivity.
  - destruct ws as [|a ws]; cbn [swap_at]; [reflexivity | f_equal; apply IH].
Qed.

Lemma nroute_app : forall {A} o1 o2 (ws : list A), nroute (o1 ++ o2) ws = nroute o2 (nroute o1 ws).
Proof. intros. unfold nroute. apply fold_left_app. Qed.

Lemma nroute_rev_l : forall {A} offs (ws : list A), nroute (rev offs) (nroute offs ws) = ws.
Proof.
  intros A. induction offs as [|o offs IH]; intros ws; [reflexivity|].
  cbn [rev]. rewrite nroute_app. change (nroute (o :: offs) ws) with (nroute offs (swap_at o ws)).
  rewrite IH. cbn. apply swap_at_invol.
Qed.

Lemma nroute_rev_r : forall {A} offs (ws : list A), nroute offs (nroute (rev offs) ws) = ws.
Proof.
  intros A offs ws. rewrite <- (rev_involutive offs) at 1. apply nroute_rev_l.
Qed.

Lemma nroute_length : forall {A} offs (ws : list A), length (nroute offs ws) = length ws.
Proof.
  intros A. induction offs as [|o offs IH]; intros ws; [reflexivity|].
  change (nroute (o :: offs) ws) with (nroute offs (swap_at o ws)).
  rewrite IH. apply swap_at_length.
Qed.

Lemma nroute_map : forall {A B} (f : A -> B) offs (ws : list A),
  nroute offs (map f ws) = map f (nroute offs ws).
Proof.
  intros A B f. induction offs as [|o offs IH]; intros ws; [reflexivity|].
  change (nroute (o :: offs) (map f ws)) with (nroute offs (swap_at o (map f ws))).
  rewrite swap_at_map. apply IH.
Qed.

(* a list of length n is the table of its own entries *)
Lemma map_nth_seq : forall {A} (d : A) (l : list A),
  map (fun k => nth k l d) (seq 0 (length l)) = l.
Proof.
  intros A d. induction l as [|x l IH]; [reflexivity|].
  cbn [length seq map nth]. f_equal. rewrite <- seq_shift, map_map. exact IH.
Qed.

Lemma split_two : forall {T} k (i : list T), k + 2 <= length i ->
  exists l x y r, i = l ++ [x; y] ++ r /\ length l = k.
Proof.
  intros T k i H.
  assert (Hs : length (skipn k i) = length i - k) by apply skipn_length.
  destruct (skipn k i) as [|x [|y r]] eqn:E; cbn [length] in Hs; try lia.
  exists (firstn k i), x, y, r. split.
  - rewrite <- (firstn_skipn k i) at 1. rewrite E. reflexivity.
  - rewrite firstn_length. lia.
Qed.

(* ================================================================== C. matrices of swap layers *)
Section SwapMatrices.
  Variable SR : StarRing.
  Add Ring SRrw : (SR_ring SR).
  Local Open Scope sr_scope.
  Notation layers := (list (nat * box SR)).
  Implicit Types (A K G : mat SR).

  (* the matrix that relabels the index by f *)
  Definition pmat (f : bits -> bits) : mat SR := fun i o => delta (f i) o.

  Lemma swap_mat_spec : forall u v, length u = 2%nat -> length v = 2%nat ->
    mat_of_flat (@swap_flat SR) u v = delta (swap_at 0 u) v.
  Proof. intros u v Hu Hv. dbits; reflexivity. Qed.

  Lemma whisker_app3 : forall k p q A l m r l' m' r',
    length l = k -> length l' = k -> length m = p -> length m' = q ->
    whisker k p q A (l ++ m ++ r) (l' ++ m' ++ r') = delta l l' * A m m' * delta r r'.
  Proof.
    intros k p q A l m r l' m' r' Hl Hl' Hm Hm'. unfold whisker, kron, mid.
    rewrite !app_assoc.
    rewrite (firstn_app_len _ (k + p) (l ++ m) r) by (rewrite app_length; lia).
    rewrite (firstn_app_len _ (k + q) (l' ++ m') r') by (rewrite app_length; lia).
    rewrite (skipn_app_len _ (k + p) (l ++ m) r) by (rewrite app_length; lia).
    rewrite (skipn_app_len _ (k + q) (l' ++ m') r') by (rewrite app_length; lia).
    rewrite (firstn_app_len _ k l m Hl), (firstn_app_len _ k l' m' Hl').
    rewrite (skipn_app_len _ k l m Hl), (skipn_app_len _ k l' m' Hl').
    reflexivity.
  Qed.

  Lemma delta3 : forall (l l' r r' : bits) a b a' b', length l = length l' ->
    (delta (l ++ a :: b :: r) (l' ++ a' :: b' :: r') : SR)
    = delta l l' * delta [a; b] [a'; b'] * delta r r'.
  Proof.
    intros l l' r r' a b a' b' H.
    change (a :: b :: r) with ([a; b] ++ r). change (a' :: b' :: r') with ([a'; b'] ++ r').
    rewrite delta_app by exact H. rewrite delta_app by reflexivity. ring.
  Qed.

  (* Id(k) @ SWAP @ Id(n - k - 2) exchanges bits k and k + 1 of the index *)
  Lemma layer_swap : forall n k i o, k + 2 <= n -> length i = n -> length o = n ->
    layer_mat (k, @BSwap SR) i o = delta (swap_at k i) o.
  Proof.
    intros n k i o Hk Hi Ho.
    destruct (split_two k i ltac:(lia)) as (l & x & y & r & -> & Hl).
    destruct (split_two k o ltac:(lia)) as (l' & x' & y' & r' & -> & Hl').
    unfold layer_mat. cbn [fst snd box_dom box_cod box_eval].
    rewrite (whisker_app3 k 2 2 _ l [x; y] r l' [x'; y'] r' Hl Hl' eq_refl eq_refl).
    rewrite swap_mat_spec by reflexivity.
    replace k with (length l + 0)%nat at 1 by lia. rewrite swap_at_prefix. cbn [swap_at app].
    rewrite delta3 by lia. reflexivity.
  Qed.

  Lemma swaps_run_width : forall n offs, Forall (fun k => k + 2 <= n) offs ->
    run_width n (@swaps_at SR offs) = Some n.
  Proof.
    intros n. induction offs as [|k offs IH]; intros H; [reflexivity|].
    inversion H as [|? ? Hk H']; subst. cbn [swaps_at map run_width box_dom box_cod].
    replace (k + 2 <=? n) with true by (symmetry; apply Nat.leb_le; exact Hk).
    replace (n - 2 + 2)%nat with n by lia. apply IH, H'.
  Qed.

  (* the whole network relabels the index by the routing of its offsets *)
  Lemma lprod_swaps : forall n offs, Forall (fun k => k + 2 <= n) offs ->
    meq n n (lprod n (@swaps_at SR offs)) (pmat (nroute offs)).
  Proof.
    intros n. induction offs as [|k offs IH]; intros H i o Hi Ho.
    - reflexivity.
    - inversion H as [|? ? Hk H']; subst.
      cbn [swaps_at map lprod]. fold (@swaps_at SR offs).
      unfold step_w. cbn [snd box_dom box_cod].
      replace (length i - 2 + 2)%nat with (length i) by lia.
      unfold mmul, pmat.
      rewrite (bsum_ext SR (length i) _ (fun x => delta (swap_at k i) x * delta (nroute offs x) o)).
      + rewrite (bsum_delta_l SR (length i) (swap_at k i) (fun x => delta (nroute offs x) o))
          by apply swap_at_length.
        reflexivity.
      + intros x Hx. rewrite (layer_swap (length i) k i x Hk eq_refl Hx).
        rewrite (IH H' x o Hx Ho). reflexivity.
  Qed.

  (* ================================================================ D. conjugation by a relabelling *)
  Lemma delta_inv : forall (f g : bits -> bits), (forall x, g (f x) = x) -> (forall x, f (g x) = x) ->
    forall x i, (delta (f x) i : SR) = delta x (g i).
  Proof.
    intros f g Hgf Hfg x i. unfold delta.
    assert (E : beqb (f x) i = beqb x (g i)).
    { apply Bool.eq_iff_eq_true. rewrite !beqb_eq. split; [intros <-; symmetry; apply Hgf | intros ->; apply Hfg]. }
    rewrite E. reflexivity.
  Qed.

  Lemma conj_pmat : forall n K (f g : bits -> bits),
    (forall x, g (f x) = x) -> (forall x, f (g x) = x) -> (forall x, length (g x) = length x) ->
    meq n n (mmul n (mmul n (madj (pmat f)) K) (pmat f)) (fun i o => K (g i) (g o)).
  Proof.
    intros n K f g Hgf Hfg Hlen i o Hi Ho. unfold mmul, madj, pmat.
    rewrite (bsum_ext SR n _ (fun y => K (g i) y * delta y (g o))).
    - apply (bsum_delta_r SR n (g o) (fun y => K (g i) y)). rewrite Hlen. exact Ho.
    - intros y Hy. f_equal; [|apply (delta_inv f g Hgf Hfg)].
      rewrite (bsum_ext SR n _ (fun x => delta (g i) x * K x y)).
      + apply (bsum_delta_l SR n (g i) (fun x => K x y)). rewrite Hlen. exact Hi.
      + intros x Hx. f_equal. rewrite conj_delta. rewrite (delta_inv f g Hgf Hfg). apply delta_sym.
  Qed.
End SwapMatrices.

(* ================================================================== E. permutations as lists of nat *)
(* l lists every number below n exactly once *)
Definition nperm (n : nat) (l : list nat) : Prop :=
  length l = n /\ NoDup l /\ forall k, In k l <-> k < n.

Lemma zrange_seq : forall n s, zrange (Z.of_nat s) n = map Z.of_nat (seq s n).
Proof.
  induction n as [|n IH]; intros s; [reflexivity|]. cbn [zrange seq map]. f_equal.
  replace (Z.of_nat s + 1)%Z with (Z.of_nat (S s)) by lia. apply IH.
Qed.

Lemma zrange0_seq : forall n, zrange 0 n = map Z.of_nat (seq 0 n).
Proof. intro n. exact (zrange_seq n 0). Qed.

Lemma nperm_is_perm : forall n l, nperm n l -> is_perm (map Z.of_nat l) = true.
Proof.
  intros n l (Hl & _ & Hin). unfold is_perm. apply andb_true_iff. split.
  - apply forallb_forall. intros x Hx. apply in_map_iff in Hx. destruct Hx as (k & <- & Hk).
    apply Hin in Hk. unfold len. rewrite map_length, Hl.
    apply andb_true_iff. split; [apply Z.leb_le | apply Z.ltb_lt]; lia.
  - apply forallb_forall. intros x Hx. rewrite map_length, Hl in Hx.
    rewrite zrange0_seq in Hx. apply in_map_iff in Hx. destruct Hx as (k & <- & Hk).
    apply in_seq in Hk. apply existsb_exists. exists (Z.of_nat k). split.
    + apply in_map, Hin. lia.
    + apply Z.eqb_refl.
Qed.

(* the lists that Diagram.permutation accepts are exactly these *)
Lemma is_perm_nperm : forall l, is_perm (map Z.of_nat l) = true -> nperm (length l) l.
Proof.
  intros l H. pose proof (is_perm_has_all _ H) as Hall. rewrite map_length in Hall.
  unfold is_perm in H. apply andb_true_iff in H. destruct H as [Hb _].
  rewrite forallb_forall in Hb.
  assert (Hin : forall k, In k l <-> k < length l).
  { intro k. split.
    - intro Hk. specialize (Hb (Z.of_nat k) (in_map _ _ _ Hk)).
      apply andb_true_iff in Hb. destruct Hb as [_ Hb]. apply Z.ltb_lt in Hb.
      unfold len in Hb. rewrite map_length in Hb. lia.
    - intro Hk. specialize (Hall k Hk). apply in_map_iff in Hall.
      destruct Hall as (k' & E & Hk'). apply Nat2Z.inj in E. subst k'. exact Hk'. }
  split; [reflexivity|]. split; [|exact Hin].
  apply (@NoDup_incl_NoDup _ (seq 0 (length l)) l).
  - apply seq_NoDup.
  - rewrite seq_length. lia.
  - intros k Hk. apply in_seq in Hk. apply Hin. lia.
Qed.

(* the network of Diagram.permutation(l), read backwards, relabels the index by l:
   bit j of the new index is bit l[j] of the old one *)
Lemma network_relabels : forall n l d, nperm n l ->
  dpermutation (map Z.of_nat l) (qubit_ty n) = Ok d ->
  forall i : bits, length i = n ->
  nroute (rev (map Z.to_nat (doffs d))) i = map (fun k => nth k i false) l.
Proof.
  intros n l d (Hl & _ & _) Hd i Hi.
  pose proof (permutation_wire_map _ _ _ Hd) as Wm.
  rewrite route_nroute, nroute_map, map_length, Hl, zrange0_seq in Wm.
  apply (f_equal (map Z.to_nat)) in Wm. rewrite !map_map in Wm.
  rewrite (map_ext _ (fun x => x) Nat2Z.id), (map_ext _ (fun x => x) Nat2Z.id), !map_id in Wm.
  set (offs := map Z.to_nat (doffs d)) in *.
  assert (Hs : nroute (rev offs) (seq 0 n) = l) by (rewrite <- Wm; apply nroute_rev_l).
  rewrite <- (map_nth_seq false i) at 1. rewrite Hi, nroute_map, Hs. reflexivity.
Qed.

Lemma map_eq_at : forall {T U} (f g : T -> U) l p, map f l = map g l -> In p l -> f p = g p.
Proof.
  intros T U f g. induction l as [|x l IH]; intros p H Hp; [destruct Hp|].
  cbn [map] in H. injection H as H1 H2. destruct Hp as [<-|Hp]; [exact H1 | apply IH; assumption].
Qed.

Lemma forallb_false_ex : forall {T} (f : T -> bool) l, forallb f l = false ->
  exists x, In x l /\ f x = false.
Proof.
  intros T f. induction l as [|x l IH]; cbn [forallb]; intro H; [discriminate|].
  destruct (f x) eqn:E.
  - destruct (IH H) as (y & Hy & Hf). exists y. split; [right; exact Hy | exact Hf].
  - exists x. split; [left; reflexivity | exact E].
Qed.

(* ================================================================== F. the specification on_wires *)
Section OnWires.
  Variable SR : StarRing.
  Add Ring SRrx : (SR_ring SR).
  Local Open Scope sr_scope.
  Implicit Types (A K G : mat SR) (i o : bits).

  Lemma same_except_one : forall a b i o k, length i = length o ->
    (forall p, (p < length i)%nat -> (k + p)%nat <> a -> (k + p)%nat <> b ->
               nth p i false = nth p o false) ->
    same_except a b k i o = (1 : SR).
  Proof.
    intros a b. induction i as [|x i IH]; intros o k Hl H; destruct o as [|y o];
      try discriminate; cbn [same_except]; [reflexivity|].
    rewrite (IH o (S k)).
    - destruct (Nat.eqb k a || Nat.eqb k b) eqn:E; [ring|].
      apply orb_false_iff in E. destruct E as [E1 E2].
      apply Nat.eqb_neq in E1. apply Nat.eqb_neq in E2.
      assert (Hxy : x = y) by (apply (H 0%nat); cbn [length]; lia).
      subst y. rewrite Bool.eqb_reflx. ring.
    - cbn [length] in Hl. lia.
    - intros p Hp Ha Hb. apply (H (S p)); cbn [length]; lia.
  Qed.

  Lemma same_except_zero : forall a b i o k p, length i = length o ->
    (p < length i)%nat -> (k + p)%nat <> a -> (k + p)%nat <> b ->
    nth p i false <> nth p o false ->
    same_except a b k i o = (0 : SR).
  Proof.
    intros a b. induction i as [|x i IH]; intros o k p Hl Hp Ha Hb Hne; destruct o as [|y o];
      try discriminate; cbn [length] in *; [lia|]. cbn [same_except].
    destruct p as [|p].
    - cbn [nth] in Hne.
      replace (Nat.eqb k a) with false by (symmetry; apply Nat.eqb_neq; lia).
      replace (Nat.eqb k b) with false by (symmetry; apply Nat.eqb_neq; lia).
      cbn [orb]. destruct (Bool.eqb x y) eqn:E; [apply Bool.eqb_prop in E; contradiction | ring].
    - rewrite (IH o (S k) p); [ring | lia | lia | lia | lia | exact Hne].
  Qed.

  (* agreement on the wires listed in rest = agreement off the wires a, b *)
  Lemma rest_is_same_except : forall n a b rest i o, length i = n -> length o = n ->
    nperm n (a :: b :: rest) ->
    delta (map (fun k => nth k i false) rest) (map (fun k => nth k o false) rest)
    = (same_except a b 0 i o : SR).
  Proof.
    intros n a b rest i o Hi Ho (_ & Hnd & Hin).
    apply NoDup_cons_iff in Hnd as [Ha Hnd']. apply NoDup_cons_iff in Hnd' as [Hb _].
    destruct (forallb (fun k => Bool.eqb (nth k i false) (nth k o false)) rest) eqn:E.
    - rewrite forallb_forall in E.
      rewrite (map_ext_in _ (fun k => nth k o false) rest)
        by (intros k Hk; apply Bool.eqb_prop, E, Hk).
      rewrite delta_refl. symmetry. apply same_except_one; [congruence|].
      intros p Hp Hpa Hpb. cbn [Nat.add] in Hpa, Hpb.
      apply Bool.eqb_prop, E.
      assert (Hp' : In p (a :: b :: rest)) by (apply Hin; lia).
      destruct Hp' as [Hp'|[Hp'|Hp']]; [congruence | congruence | exact Hp'].
    - destruct (forallb_false_ex _ _ E) as (p & Hp & Hf). apply Bool.eqb_false_iff in Hf.
      rewrite (delta_neq SR).
      + symmetry. apply (same_except_zero a b i o 0 p); cbn [Nat.add].
        * congruence.
        * rewrite Hi. apply Hin. right. right. exact Hp.
        * intros ->. apply Ha. right. exact Hp.
        * intros ->. apply Hb. exact Hp.
        * exact Hf.
      + intro Heq. apply Hf.
        exact (map_eq_at _ _ _ p Heq Hp).
  Qed.

  Lemma on_wires_compat : forall n a b G G', meq 2 2 G G' ->
    meq n n (on_wires a b G) (on_wires a b G').
  Proof. intros n a b G G' H i o _ _. unfold on_wires. rewrite H; reflexivity. Qed.

  (* (G (x) id) read through the relabelling by a :: b :: rest is G on the wires a, b *)
  Lemma kron_relabel_on_wires : forall n a b rest G i o, length i = n -> length o = n ->
    nperm n (a :: b :: rest) ->
    kron 2 2 G mid (map (fun k => nth k i false) (a :: b :: rest))
                   (map (fun k => nth k o false) (a :: b :: rest))
    = on_wires a b G i o.
  Proof.
    intros n a b rest G i o Hi Ho Hp. unfold kron, on_wires, mid. cbn [map firstn skipn].
    rewrite (rest_is_same_except n a b rest i o Hi Ho Hp). reflexivity.
  Qed.
End OnWires.

(* ================================================================== G. the permutation list of rewire *)
Lemma nat_list_set_length : forall l i x, i < length l -> length (nat_list_set l i x) = length l.
Proof.
  intros l i x H. unfold nat_list_set. rewrite app_length, firstn_length. cbn [length].
  rewrite skipn_length. lia.
Qed.

Lemma nat_list_set_nth : forall l i x k d, i < length l ->
  nth k (nat_list_set l i x) d = if k =? i then x else nth k l d.
Proof.
  induction l as [|y l IH]; intros i x k d Hi; cbn [length] in Hi; [lia|].
  destruct i as [|i]; destruct k as [|k]; try reflexivity.
  unfold nat_list_set. cbn [firstn skipn app nth Nat.eqb].
  apply (IH i x k d). lia.
Qed.

(* exchange the entries at positions x and y *)
Definition lswap (l : list nat) (x y : nat) : list nat :=
  nat_list_set (nat_list_set l x (nth y l 0)) y (nth x l 0).
(* the transposition of x and y *)
Definition tr (x y k : nat) : nat := if k =? x then y else if k =? y then x else k.

Lemma tr_lt : forall n x y k, x < n -> y < n -> k < n -> tr x y k < n.
Proof. intros n x y k Hx Hy Hk. unfold tr. destruct (k =? x); [exact Hy|]. destruct (k =? y); assumption. Qed.

Lemma tr_invol : forall x y k, tr x y (tr x y k) = k.
Proof.
  intros x y k. unfold tr.
  destruct (Nat.eqb_spec k x) as [->|H1].
  - destruct (Nat.eqb_spec y x) as [->|H2]; [reflexivity|]. rewrite Nat.eqb_refl. reflexivity.
  - destruct (Nat.eqb_spec k y) as [->|H2].
    + rewrite Nat.eqb_refl. reflexivity.
    + apply Nat.eqb_neq in H1. apply Nat.eqb_neq in H2. rewrite H1, H2. reflexivity.
Qed.

Lemma lswap_length : forall l x y, x < length l -> y < length l -> length (lswap l x y) = length l.
Proof.
  intros l x y Hx Hy. unfold lswap.
  rewrite nat_list_set_length; rewrite nat_list_set_length; lia.
Qed.

Lemma lswap_nth : forall l x y k, x < length l -> y < length l ->
  nth k (lswap l x y) 0 = nth (tr x y k) l 0.
Proof.
  intros l x y k Hx Hy. unfold lswap.
  rewrite nat_list_set_nth by (rewrite nat_list_set_length; lia).
  rewrite nat_list_set_nth by lia. unfold tr.
  destruct (Nat.eqb_spec k y) as [E1|H1], (Nat.eqb_spec k x) as [E2|H2]; subst; reflexivity.
Qed.

Lemma nperm_seq : forall n, nperm n (seq 0 n).
Proof.
  intro n. split; [apply seq_length|]. split; [apply seq_NoDup|].
  intro k. rewrite in_seq. lia.
Qed.

Lemma nperm_lswap : forall n l x y, nperm n l -> x < n -> y < n -> nperm n (lswap l x y).
Proof.
  intros n l x y (Hl & Hnd & Hin) Hx Hy.
  assert (Hl' : length (lswap l x y) = n) by (rewrite lswap_length; lia).
  split; [exact Hl'|]. split.
  - apply (NoDup_nth _ 0). intros i j Hi Hj E. rewrite Hl' in Hi, Hj.
    rewrite !lswap_nth in E by lia.
    assert (Et : tr x y i = tr x y j).
    { apply (proj1 (NoDup_nth l 0) Hnd); [rewrite Hl; apply tr_lt; lia .. | exact E]. }
    rewrite <- (tr_invol x y i), <- (tr_invol x y j), Et. reflexivity.
  - intro k. split.
    + intro Hk. apply (In_nth _ _ 0) in Hk. destruct Hk as (j & Hj & <-). rewrite Hl' in Hj.
      rewrite lswap_nth by lia. apply Hin, nth_In. rewrite Hl. apply tr_lt; lia.
    + intro Hk. apply Hin in Hk. apply (In_nth _ _ 0) in Hk. destruct Hk as (j & Hj & <-).
      rewrite Hl in Hj. rewrite <- (tr_invol x y j). rewrite <- lswap_nth by lia.
      apply nth_In. rewrite Hl'. apply tr_lt; lia.
Qed.

Lemma rewire_perm_lswap : forall n a b rev, a < n -> b < n -> 2 <= n ->
  rewire_perm n a b rev =
  (let p2 := lswap (lswap (seq 0 n) 0 a) 1 b in if rev then lswap p2 0 1 else p2).
Proof.
  intros n a b rev Ha Hb Hn. unfold rewire_perm, lswap. cbv zeta.
  rewrite !seq_nth by lia. reflexivity.
Qed.

Lemma first_entries : forall n a b, a < b -> b < n ->
  nth 0 (lswap (lswap (seq 0 n) 0 a) 1 b) 0 = a /\ nth 1 (lswap (lswap (seq 0 n) 0 a) 1 b) 0 = b.
Proof.
  intros n a b Hab Hb.
  assert (L0 : length (seq 0 n) = n) by apply seq_length.
  assert (L1 : length (lswap (seq 0 n) 0 a) = n) by (rewrite lswap_length; lia).
  split.
  - rewrite lswap_nth by lia. rewrite lswap_nth by lia.
    assert (E : tr 0 a (tr 1 b 0) = a).
    { unfold tr. replace (0 =? 1) with false by reflexivity.
      replace (0 =? b) with false by (symmetry; apply Nat.eqb_neq; lia). reflexivity. }
    rewrite E. rewrite seq_nth by lia. reflexivity.
  - rewrite lswap_nth by lia. rewrite lswap_nth by lia.
    assert (E : tr 0 a (tr 1 b 1) = b).
    { unfold tr. cbn [Nat.eqb].
      replace (b =? 0) with false by (symmetry; apply Nat.eqb_neq; lia).
      replace (b =? a) with false by (symmetry; apply Nat.eqb_neq; lia). reflexivity. }
    rewrite E. rewrite seq_nth by lia. reflexivity.
Qed.

(* the list that rewire hands to Diagram.permutation is a permutation of the n wires
   that starts with a, b *)
Lemma rewire_perm_spec : forall n a b, a < n -> b < n -> a <> b ->
  exists rest, rewire_perm n (min a b) (max a b) (b <? a) = a :: b :: rest
               /\ nperm n (a :: b :: rest).
Proof.
  intros n a b Ha Hb Hab.
  assert (Hm : min a b < max a b /\ max a b < n) by lia. destruct Hm as [Hm1 Hm2].
  rewrite rewire_perm_lswap by lia. cbv zeta.
  set (p2 := lswap (lswap (seq 0 n) 0 (min a b)) 1 (max a b)).
  destruct (first_entries n (min a b) (max a b) Hm1 Hm2) as [F0 F1]. fold p2 in F0, F1.
  assert (P2 : nperm n p2).
  { unfold p2. apply nperm_lswap; [apply nperm_lswap; [apply nperm_seq | lia | lia] | lia | lia]. }
  assert (Hshape : forall l, nperm n l -> nth 0 l 0 = a -> nth 1 l 0 = b ->
                   exists rest, l = a :: b :: rest /\ nperm n (a :: b :: rest)).
  { intros l Hl H0 H1. pose proof Hl as (Hlen & _).
    destruct l as [|u [|v rest]]; cbn [length] in Hlen; try lia.
    cbn [nth] in H0, H1. subst u v. exists rest. split; [reflexivity | exact Hl]. }
  destruct (Nat.ltb_spec b a) as [Hlt|Hge].
  - apply Hshape.
    + apply nperm_lswap; [exact P2 | lia | lia].
    + pose proof P2 as (L2 & _). rewrite lswap_nth by lia.
      change (tr 0 1 0) with 1. rewrite F1. lia.
    + pose proof P2 as (L2 & _). rewrite lswap_nth by lia.
      change (tr 0 1 1) with 0. rewrite F0. lia.
  - apply Hshape; [exact P2 | rewrite F0; lia | rewrite F1; lia].
Qed.

Lemma qubit_ty_length : forall n, length (qubit_ty n) = n.
Proof. intro n. apply repeat_length. Qed.

(* Box.permutation is never refused on a permutation of the wires, and all its swaps fit *)
Lemma perm_offsets_ok : forall n l, nperm n l ->
  exists d, dpermutation (map Z.of_nat l) (qubit_ty n) = Ok d
            /\ @perm_offsets l n = Ok (map Z.to_nat (doffs d))
            /\ Forall (fun k => k + 2 <= n) (map Z.to_nat (doffs d)).
Proof.
  intros n l Hp.
  destruct (dpermutation_total (map Z.of_nat l) (qubit_ty n)) as (d & Hd).
  - apply (nperm_is_perm n), Hp.
  - unfold len. rewrite map_length, qubit_ty_length. destruct Hp as (Hl & _). rewrite Hl. reflexivity.
  - exists d. split; [exact Hd|]. split.
    + unfold perm_offsets. rewrite Hd. reflexivity.
    + pose proof (dpermutation_in_range _ _ _ Hd) as R. rewrite qubit_ty_length in R.
      apply Forall_map_iff. eapply Forall_impl; [|exact R]. cbn beta. intros o [H1 H2]. lia.
Qed.

Section RewireFar.
  Variable SR : StarRing.
  Add Ring SRry : (SR_ring SR).
  Implicit Types (op : circuit SR) (G : mat SR).

  (* ================================================================ H. conjugation by the network *)
  (* the evaluation of the swap network of Diagram.permutation(l) is the matrix that
     relabels the index by the routing of its offsets *)
  Lemma network_eval : forall n offs, Forall (fun k => k + 2 <= n) offs ->
    wf_circuit (Circ n (@swaps_at SR offs)) = true /\ cod_or0 (Circ n (@swaps_at SR offs)) = n
    /\ meq n n (eval (Circ n (@swaps_at SR offs))) (pmat SR (nroute offs)).
  Proof.
    intros n offs H.
    destruct (run_wf SR (Circ n (swaps_at offs)) n (swaps_run_width SR n offs H)) as [W C].
    split; [exact W|]. split; [exact C|].
    pose proof (eval_is_lprod SR _ W) as E. rewrite C in E. cbn [c_dom c_layers] in E.
    eapply meq_trans; [exact E | apply lprod_swaps, H].
  Qed.

  (* Box.permutation(l, qubit ** n) for EVERY list l that Diagram.permutation accepts:
     it is built, is well-typed, and evaluates to the index permutation matrix
     "input wire j leaves at output position l[j]":  E i o = [i_j = o_(l[j]) for every j] *)
  Theorem permutation_network_eval : forall l, is_perm (map Z.of_nat l) = true ->
    exists offs, @perm_offsets l (length l) = Ok offs
      /\ wf_circuit (Circ (length l) (@swaps_at SR offs)) = true
      /\ cod_or0 (Circ (length l) (@swaps_at SR offs)) = length l
      /\ meq (length l) (length l) (eval (Circ (length l) (@swaps_at SR offs)))
             (fun i o => delta i (map (fun k => nth k o false) l)).
  Proof.
    intros l Hl. pose proof (is_perm_nperm l Hl) as Hp. set (n := length l) in *.
    destruct (perm_offsets_ok n l Hp) as (d & Hd & Hoffs & Hrange).
    exists (map Z.to_nat (doffs d)). split; [exact Hoffs|].
    destruct (network_eval n _ Hrange) as (W & C & E).
    split; [exact W|]. split; [exact C|].
    eapply meq_trans; [exact E|].
    intros i o Hi Ho. unfold pmat.
    rewrite <- (network_relabels n l d Hp Hd o Ho).
    apply (delta_inv SR (nroute (map Z.to_nat (doffs d))) (nroute (rev (map Z.to_nat (doffs d))))).
    - intro z. apply nroute_rev_l.
    - intro z. apply nroute_rev_r.
  Qed.

  (* perm[::-1] >> op @ Id(n - 2) >> perm, for the network of ANY permutation l = a :: b :: rest
     of the n wires, is op acting on the wires a and b *)
  Lemma conj_network : forall op n l a b rest,
    wf_circuit op = true -> c_dom op = 2 -> cod_or0 op = 2 -> 2 <= n ->
    l = a :: b :: rest -> nperm n l ->
    exists c,
      (do offs <- @perm_offsets l n;
       let perm := Circ n (swaps_at offs) in
       do x <- cthen (cdagger perm) (ctensor op (cid (n - 2)));
       cthen x perm) = Ok c
      /\ wf_circuit c = true /\ c_dom c = n /\ cod_or0 c = n
      /\ meq n n (eval c) (on_wires a b (eval op)).
  Proof.
    intros op n l a b rest Wop Dop Cop Hn El Hp.
    destruct (perm_offsets_ok n l Hp) as (d & Hd & Hoffs & Hrange).
    rewrite Hoffs. cbn [bind]. cbv zeta.
    set (offs := map Z.to_nat (doffs d)) in *.
    set (perm := Circ n (@swaps_at SR offs)).
    destruct (network_eval n offs Hrange) as (Wp & Cp & Ep). fold perm in Wp, Cp, Ep.
    assert (Dp : c_dom perm = n) by reflexivity.
    destruct (cdagger_wf SR perm Wp) as [Wd Cd]. rewrite Dp in Cd.
    assert (Dd : c_dom (cdagger perm) = n) by (cbn [cdagger c_dom]; exact Cp).
    pose proof (cdagger_eval SR perm Wp) as Ed. rewrite Cp, Dp in Ed.
    (* the middle: op @ Id(n - 2) *)
    destruct (cid_eval SR (n - 2)) as (Wi & Ci & Ei).
    destruct (ctensor_wf SR op (cid (n - 2)) Wop Wi) as (Wm & Dm & Cm).
    pose proof (ctensor_eval SR op (cid (n - 2)) Wop Wi) as Em.
    rewrite Dop, Cop in *. rewrite Ci in Cm, Em.
    change (c_dom (@cid SR (n - 2))) with (n - 2) in *.
    replace (2 + (n - 2)) with n in * by lia.
    set (mid_c := ctensor op (cid (n - 2))) in *.
    (* perm[::-1] >> middle *)
    assert (Hx : exists x, cthen (cdagger perm) mid_c = Ok x).
    { unfold cthen. rewrite Cd, Dm, Nat.eqb_refl. eexists. reflexivity. }
    destruct Hx as [x Hx].
    destruct (cthen_wf SR _ _ x Wd Wm Hx) as (Wx & Dx & Cx & _).
    pose proof (cthen_eval SR _ _ x Wd Wm Hx) as Ex.
    rewrite Dd in Dx, Ex. rewrite Cm in Cx, Ex. rewrite Cd in Ex.
    (* >> perm *)
    assert (Hy : exists y, cthen x perm = Ok y).
    { unfold cthen. rewrite Cx, Dp, Nat.eqb_refl. eexists. reflexivity. }
    destruct Hy as [y Hy].
    destruct (cthen_wf SR _ _ y Wx Wp Hy) as (Wy & Dy & Cy & _).
    pose proof (cthen_eval SR _ _ y Wx Wp Hy) as Ey.
    rewrite Dx in Dy, Ey. rewrite Cp in Cy, Ey. rewrite Cx in Ey.
    rewrite Hx. cbn [bind]. rewrite Hy.
    exists y. split; [reflexivity|]. split; [exact Wy|]. split; [exact Dy|]. split; [exact Cy|].
    (* the matrix *)
    set (K := kron 2 2 (eval op) (@mid SR)).
    eapply meq_trans; [exact Ey|].
    eapply meq_trans.
    { apply mmul_compat; [|exact Ep].
      eapply meq_trans; [exact Ex|].
      apply (mmul_compat SR n n n _ (madj (pmat SR (nroute offs))) _ K).
      - eapply meq_trans; [exact Ed | apply madj_compat, Ep].
      - eapply meq_trans; [exact Em|]. unfold K.
        apply (meq_dims SR (2 + (n - 2)) (2 + (n - 2))); [lia | lia |].
        apply kron_compat; [apply meq_refl | exact Ei]. }
    eapply meq_trans.
    { apply (conj_pmat SR n K (nroute offs) (nroute (rev offs))).
      - intro z. apply nroute_rev_l.
      - intro z. apply nroute_rev_r.
      - intro z. apply nroute_length. }
    intros i o Hi Ho. cbv beta.
    pose proof (network_relabels n l d Hp Hd i Hi) as Ri.
    pose proof (network_relabels n l d Hp Hd o Ho) as Ro.
    fold offs in Ri, Ro. rewrite Ri, Ro.
    unfold K. rewrite El. rewrite El in Hp.
    apply (kron_relabel_on_wires SR n a b rest (eval op) i o Hi Ho Hp).
  Qed.
End RewireFar.

Section RewireAll.
  Variable SR : StarRing.
  Add Ring SRrz : (SR_ring SR).
  Implicit Types (op : circuit SR) (G : mat SR) (i o l r : bits).

  (* ================================================================ I. the contiguous placements *)
  Local Open Scope sr_scope.

  Lemma same_except_prefix : forall a b l l' k i o, length l = length l' ->
    (forall p, (p < length l)%nat -> (k + p)%nat <> a /\ (k + p)%nat <> b) ->
    same_except a b k (l ++ i) (l' ++ o)
    = (delta l l' * same_except a b (k + length l) i o : SR).
  Proof.
    intros a b. induction l as [|x l IH]; intros l' k i o Hl H; destruct l' as [|y l'];
      try discriminate.
    - cbn [app length]. rewrite Nat.add_0_r, delta_refl. ring.
    - cbn [app same_except length].
      destruct (H 0%nat ltac:(cbn [length]; lia)) as [Ha Hb]. rewrite Nat.add_0_r in Ha, Hb.
      replace (Nat.eqb k a) with false by (symmetry; apply Nat.eqb_neq; exact Ha).
      replace (Nat.eqb k b) with false by (symmetry; apply Nat.eqb_neq; exact Hb).
      cbn [orb]. rewrite delta_cons.
      rewrite (IH l' (S k) i o).
      + replace (S k + length l)%nat with (k + S (length l))%nat by lia.
        destruct (Bool.eqb x y); ring.
      + cbn [length] in Hl. lia.
      + intros p Hp. replace (S k + p)%nat with (k + S p)%nat by lia. apply H. cbn [length]. lia.
  Qed.

  Lemma same_except_suffix : forall a b i o k, (a < k)%nat -> (b < k)%nat ->
    same_except a b k i o = (delta i o : SR).
  Proof.
    intros a b. induction i as [|x i IH]; intros o k Ha Hb; destruct o as [|y o];
      try reflexivity.
    cbn [same_except].
    replace (Nat.eqb k a) with false by (symmetry; apply Nat.eqb_neq; lia).
    replace (Nat.eqb k b) with false by (symmetry; apply Nat.eqb_neq; lia).
    cbn [orb]. rewrite delta_cons. rewrite (IH o (S k)) by lia.
    destruct (Bool.eqb x y); ring.
  Qed.

  (* off two adjacent wires = equal before them and equal after them *)
  Lemma same_except_contig : forall a b l l' x y x' y' r r', length l = length l' ->
    (a = length l /\ b = S (length l)) \/ (b = length l /\ a = S (length l)) ->
    same_except a b 0 (l ++ x :: y :: r) (l' ++ x' :: y' :: r') = (delta l l' * delta r r' : SR).
  Proof.
    intros a b l l' x y x' y' r r' Hl Hab.
    rewrite same_except_prefix by (try exact Hl; intros p Hp; lia).
    cbn [Nat.add same_except].
    replace (Nat.eqb (length l) a || Nat.eqb (length l) b)%bool with true
      by (symmetry; apply orb_true_iff; rewrite !Nat.eqb_eq; lia).
    replace (Nat.eqb (S (length l)) a || Nat.eqb (S (length l)) b)%bool with true
      by (symmetry; apply orb_true_iff; rewrite !Nat.eqb_eq; lia).
    rewrite same_except_suffix by lia. ring.
  Qed.

  Lemma nth_at_0 : forall l x y r, nth (length l) (l ++ x :: y :: r) false = x.
  Proof. intros. apply nth_middle. Qed.
  Lemma nth_at_1 : forall l x y r, nth (S (length l)) (l ++ x :: y :: r) false = y.
  Proof.
    intros l x y r. change (l ++ x :: y :: r) with (l ++ [x] ++ y :: r). rewrite app_assoc.
    replace (S (length l)) with (length (l ++ [x])) by (rewrite app_length; cbn [length]; lia).
    apply nth_middle.
  Qed.

  (* Id(a) @ G @ Id(n - a - 2) is G on the wires a, a + 1 *)
  Lemma whisker_on_wires : forall n a G, (a + 2 <= n)%nat ->
    meq n n (whisker a 2 2 G) (on_wires a (S a) G).
  Proof.
    intros n a G Hn i o Hi Ho.
    destruct (split_two a i ltac:(lia)) as (l & x & y & r & -> & Hl).
    destruct (split_two a o ltac:(lia)) as (l' & x' & y' & r' & -> & Hl').
    rewrite (whisker_app3 SR a 2 2 G l [x; y] r l' [x'; y'] r' Hl Hl' eq_refl eq_refl).
    unfold on_wires. cbn [app].
    rewrite (same_except_contig a (S a) l l' x y x' y' r r') by lia.
    rewrite <- Hl at 1 2. rewrite <- Hl' at 1 2.
    rewrite !nth_at_0, !nth_at_1. ring.
  Qed.

  (* SWAP; G; SWAP is G with its two wires exchanged *)
  Lemma swap_conj : forall G x y x' y',
    mmul 2 (mmul 2 (box_eval (@BSwap SR)) G) (box_eval (@BSwap SR)) [x; y] [x'; y']
    = G [y; x] [y'; x'].
  Proof.
    intros G x y x' y'. unfold mmul. cbn [box_eval].
    rewrite (bsum_ext SR 2 _ (fun v => G [y; x] v * delta v [y'; x'])).
    - apply (bsum_delta_r SR 2 [y'; x'] (fun v => G [y; x] v)). reflexivity.
    - intros v Hv. f_equal.
      + rewrite (bsum_ext SR 2 _ (fun u => delta [y; x] u * G u v)).
        * apply (bsum_delta_l SR 2 [y; x] (fun u => G u v)). reflexivity.
        * intros u Hu. rewrite swap_mat_spec by (try reflexivity; exact Hu). reflexivity.
      + rewrite swap_mat_spec by (try reflexivity; exact Hv).
        apply (delta_inv SR (swap_at 0) (swap_at 0) (swap_at_invol 0) (swap_at_invol 0) v [x'; y']).
  Qed.

  Lemma whisker_on_wires_rev : forall n a G, (a + 2 <= n)%nat ->
    meq n n (whisker a 2 2 (mmul 2 (mmul 2 (box_eval (@BSwap SR)) G) (box_eval (@BSwap SR))))
            (on_wires (S a) a G).
  Proof.
    intros n a G Hn i o Hi Ho.
    destruct (split_two a i ltac:(lia)) as (l & x & y & r & -> & Hl).
    destruct (split_two a o ltac:(lia)) as (l' & x' & y' & r' & -> & Hl').
    rewrite (whisker_app3 SR a 2 2 _ l [x; y] r l' [x'; y'] r' Hl Hl' eq_refl eq_refl).
    rewrite swap_conj.
    unfold on_wires. cbn [app].
    rewrite (same_except_contig (S a) a l l' x y x' y' r r') by lia.
    rewrite <- Hl at 1 2. rewrite <- Hl' at 1 2.
    rewrite !nth_at_0, !nth_at_1. ring.
  Qed.
  Local Close Scope sr_scope.

  (* ================================================================ J. rewire, every placement *)
  Theorem rewire_acts_on_a_b_general : forall op n a b,
    wf_circuit op = true -> c_dom op = 2 -> cod_or0 op = 2 ->
    a < n -> b < n -> a <> b ->
    exists c, rewire op a b (Some n) = Ok c /\ wf_circuit c = true /\
              c_dom c = n /\ cod_or0 c = n /\
              meq n n (eval c) (on_wires a b (eval op)).
  Proof.
    intros op n a b Wop Dop Cop Ha Hb Hab.
    destruct (Nat.eq_dec b (S a)) as [->|Hn1].
    { destruct (rewire_contiguous_eval SR op a n Wop Dop Cop ltac:(lia)) as (c & Hc & W & D & C & E).
      exists c. repeat (split; [assumption|]).
      eapply meq_trans; [exact E | apply whisker_on_wires; lia]. }
    destruct (Nat.eq_dec a (S b)) as [->|Hn2].
    { destruct (rewire_contiguous_reversed_eval SR op b n Wop Dop Cop ltac:(lia))
        as (c & Hc & W & D & C & E).
      exists c. repeat (split; [assumption|]).
      eapply meq_trans; [exact E | apply whisker_on_wires_rev; lia]. }
    destruct (rewire_perm_spec n a b Ha Hb Hab) as (rest & El & Hp).
    rewrite <- El in Hp.
    destruct (conj_network SR op n _ a b rest Wop Dop Cop ltac:(lia) El Hp)
      as (c & Hc & W & D & C & E).
    exists c. split; [|auto].
    rewrite <- Hc. unfold rewire.
    replace (a =? b) with false by (symmetry; apply Nat.eqb_neq; lia).
    replace (n <? 2) with false by (symmetry; apply Nat.ltb_ge; lia).
    rewrite Cop, Dop. cbn [Nat.eqb negb].
    replace (n <=? Nat.max a b) with false by (symmetry; apply Nat.leb_gt; lia).
    replace (b =? S a) with false by (symmetry; apply Nat.eqb_neq; lia).
    replace (a =? S b) with false by (symmetry; apply Nat.eqb_neq; lia).
    reflexivity.
  Qed.

  (* dom=None is dom = qubit ** (max(a, b) + 1): the theorem covers the default too *)
  Lemma rewire_default_dom : forall op a b,
    rewire op a b None = rewire op a b (Some (S (Nat.max a b))).
  Proof. reflexivity. Qed.

  (* a single two-qubit gate, as a circuit *)
  Lemma cgate2_eval : forall g : gate2 SR,
    wf_circuit (cbox (BG2 g)) = true /\ c_dom (cbox (BG2 g)) = 2 /\ cod_or0 (cbox (BG2 g)) = 2
    /\ meq 2 2 (eval (cbox (BG2 g))) (gate2_eval g).
  Proof.
    intro g. split; [reflexivity|]. split; [reflexivity|]. split; [reflexivity|].
    eapply meq_trans; [apply (eval_is_lprod _ (cbox (BG2 g))); reflexivity|].
    change (cod_or0 (cbox (BG2 g))) with 2. change (c_dom (cbox (BG2 g))) with 2.
    change (c_layers (cbox (BG2 g))) with [(0, BG2 g)].
    cbn [lprod]. change (step_w 2 (0, BG2 g)) with 2.
    eapply meq_trans; [apply mmul_id_r|]. unfold layer_mat. cbn [fst snd box_dom box_cod box_eval].
    apply whisker_0.
  Qed.
End RewireAll.

(* the statement left open in GatesWitness.v, exactly as written there *)
Theorem rewire_acts_on_a_b_holds : rewire_acts_on_a_b_stmt.
Proof.
  intros SR g n a b Ha Hb Hab.
  destruct (cgate2_eval SR g) as (W & D & C & E).
  destruct (rewire_acts_on_a_b_general SR _ n a b W D C Ha Hb Hab) as (c & Hc & Wc & Dc & Cc & Ec).
  exists c. repeat (split; [assumption|]).
  eapply meq_trans; [exact Ec | apply on_wires_compat, E].
Qed.

(* non-vacuity: a circuit of three boxes meeting the hypotheses, placed on the
   non-adjacent wires 4 and 1 of 6 (reversed and not contiguous: the network case);
   the real rewire(op, 4, 1, dom=qubit ** 6) has the same 17 boxes *)
Definition ex_rewire_op : circuit Cyc32 :=
  Circ 2 [(0, BG1 (G1Named NH false)); (0, BG2 (G2Ctrl (G1Named NX false)));
          (1, BG1 (G1Named NT false))].
Example ex_rewire_hyps :
  wf_circuit ex_rewire_op = true /\ c_dom ex_rewire_op = 2 /\ cod_or0 ex_rewire_op = 2 /\
  match rewire ex_rewire_op 4 1 (Some 6) with
  | Ok c => wf_circuit c && (length (c_layers c) =? 17)
  | Err _ => false
  end = true.
Proof.
  split; [reflexivity|]. split; [reflexivity|]. split; [reflexivity|].
  vm_compute. reflexivity.
Qed.
