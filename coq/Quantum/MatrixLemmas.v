(* Lemmas about the matrices of Matrix.v over an abstract StarRing (Ring.v).

   Everything is proved for every [SR : StarRing]; no axioms, no functional
   extensionality: equalities of matrices are either pointwise
   ([forall i o, A i o = B i o]) when they hold on all indices, or [meq m n]
   when they hold only on indices of the right lengths. *)
From Coq Require Import List Bool Arith Lia Ring.
Import ListNotations.
Require Import DV.Quantum.Ring DV.Quantum.Matrix.

(* ------------------------------------------------------------ list helpers *)
Section ListHelpers.
  Variable T : Type.
  Implicit Types (a b x : list T).

  Lemma firstn_app_len : forall m a b, length a = m -> firstn m (a ++ b) = a.
  Proof.
    intros m a b <-. induction a as [|h a IH]; simpl; [reflexivity | f_equal; exact IH].
  Qed.

  Lemma skipn_app_len : forall m a b, length a = m -> skipn m (a ++ b) = b.
  Proof.
    intros m a b <-. induction a as [|h a IH]; simpl; [reflexivity | exact IH].
  Qed.

  Lemma split_len : forall m n x, length x = m + n ->
    x = firstn m x ++ skipn m x /\ length (firstn m x) = m /\ length (skipn m x) = n.
  Proof.
    intros m n x H. split; [symmetry; apply firstn_skipn|].
    rewrite firstn_length, skipn_length. lia.
  Qed.

  Lemma firstn_firstn_add : forall m p x, firstn m (firstn (m + p) x) = firstn m x.
  Proof.
    induction m as [|m IH]; intros p x; [reflexivity|].
    destruct x as [|h x]; simpl; [reflexivity | f_equal; apply IH].
  Qed.

  Lemma skipn_firstn_add : forall m p x, skipn m (firstn (m + p) x) = firstn p (skipn m x).
  Proof.
    induction m as [|m IH]; intros p x; [reflexivity|].
    destruct x as [|h x]; simpl; [destruct p; reflexivity | apply IH].
  Qed.

  Lemma skipn_add : forall m p x, skipn (m + p) x = skipn p (skipn m x).
  Proof.
    induction m as [|m IH]; intros p x; [reflexivity|].
    destruct x as [|h x]; simpl; [destruct p; reflexivity | apply IH].
  Qed.
End ListHelpers.

Section MatrixLemmas.
  Variable SR : StarRing.
  Add Ring SRr : (SR_ring SR).
  Local Open Scope sr_scope.
  Implicit Types (A B C D U V : mat SR) (f g : bits -> SR).

  (* -------------------------------------------------------------------- bits *)
  Lemma beqb_refl : forall a, beqb a a = true.
  Proof.
    induction a as [|x a IH]; simpl; [reflexivity|].
    rewrite IH, Bool.eqb_reflx. reflexivity.
  Qed.

  Lemma beqb_eq : forall a b, beqb a b = true <-> a = b.
  Proof.
    induction a as [|x a IH]; destruct b as [|y b]; simpl; split; intro H;
      try reflexivity; try discriminate.
    - apply andb_true_iff in H. destruct H as [H1 H2].
      apply Bool.eqb_prop in H1. apply IH in H2. subst. reflexivity.
    - injection H as -> ->. rewrite Bool.eqb_reflx. simpl. apply IH. reflexivity.
  Qed.

  Lemma beqb_sym : forall a b, beqb a b = beqb b a.
  Proof.
    induction a as [|x a IH]; destruct b as [|y b]; simpl; try reflexivity.
    rewrite IH. destruct x, y; reflexivity.
  Qed.

  Lemma beqb_app : forall a b c d, length a = length c ->
    beqb (a ++ b) (c ++ d) = beqb a c && beqb b d.
  Proof.
    induction a as [|x a IH]; destruct c as [|y c]; simpl; intros d H;
      try discriminate; [reflexivity|].
    rewrite IH by (injection H; auto). rewrite andb_assoc. reflexivity.
  Qed.

  Lemma delta_refl : forall a, delta a a = (1 : SR).
  Proof. intro a. unfold delta. rewrite beqb_refl. reflexivity. Qed.

  Lemma delta_sym : forall a b, delta a b = (delta b a : SR).
  Proof. intros a b. unfold delta. rewrite beqb_sym. reflexivity. Qed.

  Lemma delta_neq : forall a b, a <> b -> delta a b = (0 : SR).
  Proof.
    intros a b H. unfold delta. destruct (beqb a b) eqn:E; [|reflexivity].
    apply beqb_eq in E. contradiction.
  Qed.

  Lemma delta_app : forall a b c d, length a = length c ->
    delta (a ++ b) (c ++ d) = (delta a c * delta b d : SR).
  Proof.
    intros a b c d H. unfold delta. rewrite beqb_app by exact H.
    destruct (beqb a c), (beqb b d); simpl; ring.
  Qed.

  Lemma delta_cons : forall x y a b,
    delta (x :: a) (y :: b) = (if Bool.eqb x y then delta a b else 0 : SR).
  Proof. intros x y a b. unfold delta. simpl. destruct (Bool.eqb x y); reflexivity. Qed.

  Lemma conj_delta : forall a b, rconj (delta a b : SR) = delta a b.
  Proof.
    intros a b. unfold delta. destruct (beqb a b); [apply conj_1 | apply conj_0].
  Qed.

  Lemma length_all_bits : forall n b, In b (all_bits n) -> length b = n.
  Proof.
    induction n as [|n IH]; simpl; intros b H.
    - destruct H as [<-|[]]. reflexivity.
    - apply in_app_or in H. destruct H as [H|H]; apply in_map_iff in H;
        destruct H as [t [<- H]]; simpl; f_equal; apply IH; exact H.
  Qed.

  Lemma all_bits_complete : forall n b, length b = n -> In b (all_bits n).
  Proof.
    induction n as [|n IH]; destruct b as [|x b]; simpl; intro H; try discriminate.
    - left. reflexivity.
    - injection H as H. apply in_or_app.
      destruct x; [right | left]; apply in_map; apply IH; exact H.
  Qed.

  (* -------------------------------------------------------------------- bsum *)
  Lemma bsum_ext : forall n f g,
    (forall x, length x = n -> f x = g x) -> bsum n f = bsum n g.
  Proof.
    induction n as [|n IH]; intros f g H; simpl.
    - apply H. reflexivity.
    - f_equal; apply IH; intros x Hx; apply H; simpl; f_equal; exact Hx.
  Qed.

  Lemma bsum_0 : forall n, bsum n (fun _ => 0) = (0 : SR).
  Proof.
    induction n as [|n IH]; simpl; [reflexivity|]. rewrite IH. ring.
  Qed.

  Lemma bsum_add : forall n f g, bsum n (fun x => f x + g x) = bsum n f + bsum n g.
  Proof.
    induction n as [|n IH]; intros f g; simpl; [reflexivity|].
    rewrite (IH (fun t => f (false :: t)) (fun t => g (false :: t))).
    rewrite (IH (fun t => f (true :: t)) (fun t => g (true :: t))). ring.
  Qed.

  Lemma bsum_scale_l : forall n c f, bsum n (fun x => c * f x) = c * bsum n f.
  Proof.
    induction n as [|n IH]; intros c f; simpl; [reflexivity|].
    rewrite (IH c (fun t => f (false :: t))), (IH c (fun t => f (true :: t))). ring.
  Qed.

  Lemma bsum_scale_r : forall n c f, bsum n (fun x => f x * c) = bsum n f * c.
  Proof.
    induction n as [|n IH]; intros c f; simpl; [reflexivity|].
    rewrite (IH c (fun t => f (false :: t))), (IH c (fun t => f (true :: t))). ring.
  Qed.

  Lemma bsum_conj : forall n f, rconj (bsum n f) = bsum n (fun x => rconj (f x)).
  Proof.
    induction n as [|n IH]; intros f; simpl; [reflexivity|].
    rewrite conj_add. f_equal; apply IH.
  Qed.

  Lemma bsum_swap : forall m n (F : bits -> bits -> SR),
    bsum m (fun a => bsum n (fun b => F a b)) = bsum n (fun b => bsum m (fun a => F a b)).
  Proof.
    induction m as [|m IH]; intros n F; simpl; [reflexivity|].
    rewrite (bsum_add n (fun b => bsum m (fun t => F (false :: t) b))
                        (fun b => bsum m (fun t => F (true :: t) b))).
    f_equal; [apply (IH n (fun a b => F (false :: a) b)) | apply (IH n (fun a b => F (true :: a) b))].
  Qed.

  Lemma bsum_app : forall m n f,
    bsum (m + n) f = bsum m (fun a => bsum n (fun b => f (a ++ b))).
  Proof.
    induction m as [|m IH]; intros n f; simpl; [reflexivity|].
    f_equal; [apply (IH n (fun t => f (false :: t))) | apply (IH n (fun t => f (true :: t)))].
  Qed.

  Lemma bsum_prod : forall m n f g,
    bsum m (fun a => bsum n (fun b => f a * g b)) = bsum m f * bsum n g.
  Proof.
    intros m n f g.
    rewrite (bsum_ext m _ (fun a => f a * bsum n g)).
    - apply bsum_scale_r.
    - intros a _. apply bsum_scale_l.
  Qed.

  Lemma bsum_delta_l : forall n x f, length x = n ->
    bsum n (fun k => delta x k * f k) = f x.
  Proof.
    induction n as [|n IH]; intros x f H; destruct x as [|h x]; try discriminate; simpl.
    - rewrite delta_refl. ring.
    - injection H as H.
      destruct h.
      + rewrite (bsum_ext n _ (fun _ => 0)), bsum_0.
        * rewrite (bsum_ext n _ (fun k => delta x k * f (true :: k))).
          -- rewrite (IH x (fun k => f (true :: k)) H). ring.
          -- intros k _. rewrite delta_cons. reflexivity.
        * intros k _. rewrite delta_cons. simpl. ring.
      + rewrite (bsum_ext n (fun t => delta (false :: x) (true :: t) * f (true :: t)) (fun _ => 0)), bsum_0.
        * rewrite (bsum_ext n _ (fun k => delta x k * f (false :: k))).
          -- rewrite (IH x (fun k => f (false :: k)) H). ring.
          -- intros k _. rewrite delta_cons. reflexivity.
        * intros k _. rewrite delta_cons. simpl. ring.
  Qed.

  Lemma bsum_delta_r : forall n x f, length x = n ->
    bsum n (fun k => f k * delta k x) = f x.
  Proof.
    intros n x f H. rewrite <- (bsum_delta_l n x f H).
    apply bsum_ext. intros k _. rewrite (delta_sym k x). ring.
  Qed.

  Lemma fold_add_acc : forall f (l : list bits) (c : SR),
    fold_right (fun b acc => f b + acc) c l = fold_right (fun b acc => f b + acc) 0 l + c.
  Proof.
    intros f l c. induction l as [|h l IH]; simpl; [ring|]. rewrite IH. ring.
  Qed.

  Lemma fold_add_map : forall f (h : bits -> bits) (l : list bits) (c : SR),
    fold_right (fun b acc => f b + acc) c (map h l)
    = fold_right (fun b acc => f (h b) + acc) c l.
  Proof.
    intros f h l c. induction l as [|y l IH]; simpl; [reflexivity|]. rewrite IH. reflexivity.
  Qed.

  Lemma bsum_all_bits : forall n f,
    bsum n f = fold_right (fun b acc => f b + acc) 0 (all_bits n).
  Proof.
    induction n as [|n IH]; intros f; simpl; [ring|].
    rewrite fold_right_app, fold_add_acc, !fold_add_map.
    rewrite <- (IH (fun t => f (false :: t))), <- (IH (fun t => f (true :: t))).
    reflexivity.
  Qed.

  (* --------------------------------------------------------------------- meq *)
  Lemma meq_refl : forall m n A, meq m n A A.
  Proof. intros m n A i o _ _. reflexivity. Qed.

  Lemma meq_sym : forall m n A B, meq m n A B -> meq m n B A.
  Proof. intros m n A B H i o Hi Ho. symmetry. apply H; assumption. Qed.

  Lemma meq_trans : forall m n A B C, meq m n A B -> meq m n B C -> meq m n A C.
  Proof.
    intros m n A B C H1 H2 i o Hi Ho. rewrite (H1 i o Hi Ho). apply H2; assumption.
  Qed.

  Lemma meq_pointwise : forall m n A B, (forall i o, A i o = B i o) -> meq m n A B.
  Proof. intros m n A B H i o _ _. apply H. Qed.

  Lemma mmul_compat : forall m k n A A' B B',
    meq m k A A' -> meq k n B B' -> meq m n (mmul k A B) (mmul k A' B').
  Proof.
    intros m k n A A' B B' HA HB i o Hi Ho. unfold mmul.
    apply bsum_ext. intros x Hx. rewrite (HA i x Hi Hx), (HB x o Hx Ho). reflexivity.
  Qed.

  Lemma kron_compat : forall m n p q A A' B B',
    meq m n A A' -> meq p q B B' ->
    meq (m + p) (n + q) (kron m n A B) (kron m n A' B').
  Proof.
    intros m n p q A A' B B' HA HB i o Hi Ho. unfold kron.
    destruct (split_len _ m p i Hi) as [_ [Hi1 Hi2]].
    destruct (split_len _ n q o Ho) as [_ [Ho1 Ho2]].
    rewrite (HA _ _ Hi1 Ho1), (HB _ _ Hi2 Ho2). reflexivity.
  Qed.

  Lemma madj_compat : forall m n A A', meq m n A A' -> meq n m (madj A) (madj A').
  Proof. intros m n A A' H i o Hi Ho. unfold madj. rewrite (H o i Ho Hi). reflexivity. Qed.

  Lemma mtrans_compat : forall m n A A', meq m n A A' -> meq n m (mtrans A) (mtrans A').
  Proof. intros m n A A' H i o Hi Ho. unfold mtrans. apply H; assumption. Qed.

  Lemma mscale_compat : forall m n (c : SR) A A',
    meq m n A A' -> meq m n (mscale c A) (mscale c A').
  Proof. intros m n c A A' H i o Hi Ho. unfold mscale. rewrite (H i o Hi Ho). reflexivity. Qed.

  Lemma whisker_compat : forall l m n r A A', meq m n A A' ->
    meq (l + m + r) (l + n + r) (whisker l m n A) (whisker l m n A').
  Proof.
    intros l m n r A A' H. unfold whisker.
    apply kron_compat; [|apply meq_refl].
    apply kron_compat; [apply meq_refl | exact H].
  Qed.

  (* ----------------------------------------------------------------- algebra *)
  Lemma mmul_assoc : forall m n A B C i o,
    mmul n (mmul m A B) C i o = mmul m A (mmul n B C) i o.
  Proof.
    intros m n A B C i o. unfold mmul.
    transitivity (bsum n (fun y => bsum m (fun x => A i x * (B x y * C y o)))).
    - apply bsum_ext. intros y _. rewrite <- bsum_scale_r.
      apply bsum_ext. intros x _. ring.
    - rewrite (bsum_swap n m (fun y x => A i x * (B x y * C y o))).
      apply bsum_ext. intros x _. apply bsum_scale_l.
  Qed.

  Lemma mmul_id_l : forall m n A, meq m n (mmul m mid A) A.
  Proof.
    intros m n A i o Hi _. unfold mmul, mid.
    apply (bsum_delta_l m i (fun x => A x o) Hi).
  Qed.

  Lemma mmul_id_r : forall m n A, meq m n (mmul n A mid) A.
  Proof.
    intros m n A i o _ Ho. unfold mmul, mid.
    apply (bsum_delta_r n o (fun x => A i x) Ho).
  Qed.

  (* A : m -> n, B : p -> q, C : n -> o, D : q -> r *)
  Lemma kron_mixed : forall m n o p q r A B C D,
    meq (m + p) (o + r)
        (mmul (n + q) (kron m n A B) (kron n o C D))
        (kron m o (mmul n A C) (mmul q B D)).
  Proof.
    intros m n o p q r A B C D i j _ _. unfold mmul, kron.
    rewrite bsum_app.
    rewrite <- (bsum_prod n q
      (fun a => A (firstn m i) a * C a (firstn o j))
      (fun b => B (skipn m i) b * D b (skipn o j))).
    apply bsum_ext. intros a Ha. apply bsum_ext. intros b _.
    rewrite (firstn_app_len _ n a b Ha), (skipn_app_len _ n a b Ha). ring.
  Qed.

  Lemma kron_id : forall m n, meq (m + n) (m + n) (kron m m mid mid) (mid : mat SR).
  Proof.
    intros m n i o Hi Ho. unfold kron, mid.
    destruct (split_len _ m n i Hi) as [Ei [Hi1 _]].
    destruct (split_len _ m n o Ho) as [Eo [Ho1 _]].
    rewrite Ei, Eo at 3. symmetry. apply delta_app. rewrite Hi1, Ho1. reflexivity.
  Qed.

  Lemma kron_assoc : forall m n p q s t A B C,
    meq (m + p + s) (n + q + t)
        (kron (m + p) (n + q) (kron m n A B) C)
        (kron m n A (kron p q B C)).
  Proof.
    intros m n p q s t A B C i o _ _. unfold kron.
    rewrite !firstn_firstn_add, !skipn_firstn_add, !skipn_add. ring.
  Qed.

  Lemma madj_mmul : forall k A B i o,
    madj (mmul k A B) i o = mmul k (madj B) (madj A) i o.
  Proof.
    intros k A B i o. unfold madj, mmul. rewrite bsum_conj.
    apply bsum_ext. intros x _. rewrite conj_mul. ring.
  Qed.

  Lemma madj_kron : forall m n A B i o,
    madj (kron m n A B) i o = kron n m (madj A) (madj B) i o.
  Proof. intros m n A B i o. unfold madj, kron. apply conj_mul. Qed.

  Lemma madj_id : forall i o, madj (mid : mat SR) i o = mid i o.
  Proof. intros i o. unfold madj, mid. rewrite conj_delta. apply delta_sym. Qed.

  Lemma madj_invol : forall A i o, madj (madj A) i o = A i o.
  Proof. intros A i o. unfold madj. apply conj_invol. Qed.

  Lemma mtrans_mmul : forall k A B i o,
    mtrans (mmul k A B) i o = mmul k (mtrans B) (mtrans A) i o.
  Proof.
    intros k A B i o. unfold mtrans, mmul. apply bsum_ext. intros x _. ring.
  Qed.

  Lemma mtrans_kron : forall m n A B i o,
    mtrans (kron m n A B) i o = kron n m (mtrans A) (mtrans B) i o.
  Proof. intros m n A B i o. reflexivity. Qed.

  Lemma mtrans_id : forall i o, mtrans (mid : mat SR) i o = mid i o.
  Proof. intros i o. unfold mtrans, mid. apply delta_sym. Qed.

  Lemma mtrans_madj : forall A i o, mtrans (madj A) i o = mconj A i o.
  Proof. intros A i o. reflexivity. Qed.

  Lemma madj_whisker : forall l m n A i o,
    madj (whisker l m n A) i o = whisker l n m (madj A) i o.
  Proof.
    intros l m n A i o. unfold whisker.
    rewrite madj_kron. unfold kron at 1 3.
    rewrite madj_kron, madj_id. unfold kron. rewrite madj_id. reflexivity.
  Qed.

  Lemma mtrans_whisker : forall l m n A i o,
    mtrans (whisker l m n A) i o = whisker l n m (mtrans A) i o.
  Proof.
    intros l m n A i o. unfold whisker.
    rewrite mtrans_kron. unfold kron at 1 3.
    rewrite mtrans_kron, mtrans_id. unfold kron. rewrite mtrans_id. reflexivity.
  Qed.

  Lemma whisker_mmul : forall l m n o r A B,
    meq (l + m + r) (l + o + r)
        (mmul (l + n + r) (whisker l m n A) (whisker l n o B))
        (whisker l m o (mmul n A B)).
  Proof.
    intros l m n o r A B. unfold whisker.
    eapply meq_trans; [apply kron_mixed|].
    apply kron_compat; [|apply mmul_id_l].
    eapply meq_trans; [apply kron_mixed|].
    apply kron_compat; [apply mmul_id_l | apply meq_refl].
  Qed.

  Lemma whisker_id : forall l n r,
    meq (l + n + r) (l + n + r) (whisker l n n mid) (mid : mat SR).
  Proof.
    intros l n r. unfold whisker.
    eapply meq_trans; [|apply kron_id].
    apply kron_compat; [apply kron_id | apply meq_refl].
  Qed.

  (* --------------------------------------------------------------- unitaries *)
  Lemma unitary_compat : forall n U V, meq n n U V -> unitary n U -> unitary n V.
  Proof.
    intros n U V H [H1 H2]. split.
    - eapply meq_trans; [|exact H1].
      apply mmul_compat; [apply meq_sym; exact H | apply madj_compat, meq_sym; exact H].
    - eapply meq_trans; [|exact H2].
      apply mmul_compat; [apply madj_compat, meq_sym; exact H | apply meq_sym; exact H].
  Qed.

  Lemma unitary_id : forall n, unitary n (mid : mat SR).
  Proof.
    intro n. split.
    - eapply meq_trans; [apply mmul_id_l|]. apply meq_pointwise, madj_id.
    - eapply meq_trans; [apply mmul_id_r|]. apply meq_pointwise, madj_id.
  Qed.

  (* (A B) (B' A') = id  when  B B' = id  and  A A' = id *)
  Lemma mmul_cancel : forall n A B B' A',
    meq n n (mmul n B B') mid -> meq n n (mmul n A A') mid ->
    meq n n (mmul n (mmul n A B) (mmul n B' A')) mid.
  Proof.
    intros n A B B' A' HB HA.
    eapply meq_trans; [apply meq_pointwise, mmul_assoc|].
    eapply meq_trans; [|exact HA].
    apply mmul_compat; [apply meq_refl|].
    eapply meq_trans; [apply meq_sym, meq_pointwise, mmul_assoc|].
    eapply meq_trans; [|apply mmul_id_l].
    apply mmul_compat; [exact HB | apply meq_refl].
  Qed.

  Lemma unitary_mmul : forall n U V, unitary n U -> unitary n V -> unitary n (mmul n U V).
  Proof.
    intros n U V [U1 U2] [V1 V2]. split.
    - eapply meq_trans; [apply mmul_compat; [apply meq_refl | apply meq_pointwise, madj_mmul]|].
      apply mmul_cancel; assumption.
    - eapply meq_trans; [apply mmul_compat; [apply meq_pointwise, madj_mmul | apply meq_refl]|].
      apply mmul_cancel; assumption.
  Qed.

  Lemma unitary_kron : forall m n U V,
    unitary m U -> unitary n V -> unitary (m + n) (kron m m U V).
  Proof.
    intros m n U V [U1 U2] [V1 V2]. split.
    - eapply meq_trans; [apply mmul_compat; [apply meq_refl | apply meq_pointwise, madj_kron]|].
      eapply meq_trans; [apply kron_mixed|].
      eapply meq_trans; [|apply kron_id].
      apply kron_compat; assumption.
    - eapply meq_trans; [apply mmul_compat; [apply meq_pointwise, madj_kron | apply meq_refl]|].
      eapply meq_trans; [apply kron_mixed|].
      eapply meq_trans; [|apply kron_id].
      apply kron_compat; assumption.
  Qed.

  Lemma unitary_whisker : forall l n r U,
    unitary n U -> unitary (l + n + r) (whisker l n n U).
  Proof.
    intros l n r U H. unfold whisker.
    apply unitary_kron; [|apply unitary_id].
    apply unitary_kron; [apply unitary_id | exact H].
  Qed.

  Lemma unitary_madj : forall n U, unitary n U -> unitary n (madj U).
  Proof.
    intros n U [H1 H2]. split.
    - eapply meq_trans; [|exact H2].
      apply mmul_compat; [apply meq_refl | apply meq_pointwise, madj_invol].
    - eapply meq_trans; [|exact H1].
      apply mmul_compat; [apply meq_pointwise, madj_invol | apply meq_refl].
  Qed.

  (* ------------------------------------------------------------------ arrays *)
  Lemma tget_ttab : forall n f b, length b = n -> tget (ttab n f) b = f b.
  Proof.
    induction n as [|n IH]; intros f b H; destruct b as [|x b]; try discriminate; simpl.
    - reflexivity.
    - injection H as H. destruct x.
      + apply (IH (fun t => f (true :: t)) b H).
      + apply (IH (fun t => f (false :: t)) b H).
  Qed.

  Lemma mfreeze_eq : forall m n A, meq m n (mfreeze m n A) A.
  Proof.
    intros m n A i o Hi Ho. unfold mfreeze, mat_of_trie, mat_tab.
    rewrite tget_ttab by (rewrite app_length, Hi, Ho; reflexivity).
    rewrite (firstn_app_len _ m i o Hi), (skipn_app_len _ m i o Hi). reflexivity.
  Qed.

  Lemma tflat_ttab : forall n f, tflat (ttab n f) = map f (all_bits n).
  Proof.
    induction n as [|n IH]; intros f; simpl; [reflexivity|].
    rewrite map_app, !map_map.
    rewrite (IH (fun t => f (false :: t))), (IH (fun t => f (true :: t))). reflexivity.
  Qed.

  Lemma tdepth_ttab : forall n f, tdepth (ttab n f) = n.
  Proof.
    induction n as [|n IH]; intros f; simpl; [reflexivity|]. f_equal. apply IH.
  Qed.

End MatrixLemmas.

Print Assumptions unitary_whisker.
Print Assumptions kron_mixed.
