(* The abstract commutative *-ring over which every quantum theorem is stated
   (DESIGN 3.3).

   A [StarRing] packages a carrier with 0, 1, +, *, -, unary -, a conjugation
   [rconj] (an involutive ring automorphism) and three constants:

     ri     with  ri * ri = -1                 (the imaginary unit)
     rhalf  with  (1+1) * rhalf = 1            (1/2)
     risq2  with  (1+1) * risq2 * risq2 = 1    (1/sqrt 2)

   [rhalf], [risq2] are fixed by conjugation, [rconj ri = - ri].

   Equality is Leibniz equality, the ring laws are given as a
   [ring_theory], so that the [ring] tactic works once the user has said

       Section Foo.  Variable SR : StarRing.  Add Ring SRr : (SR_ring SR).

   (this file does it for its own lemmas).  The complex numbers are a model;
   the exact, executable model is [Cyc32] = Q[x]/(x^16+1) in Cyc32.v, which is
   also the non-vacuity witness for every theorem quantified over a StarRing.

   PHASES.  A real phase p is represented by the unit  e = exp(i*pi*p)  with
   the hypothesis  [is_phase e : e * rconj e = 1].  Then

       exp(-i*pi*p)  = rconj e            exp(2*pi*i*p) = e * e
       cos(pi*p)     = rhalf * (e + rconj e)          = [pcos e]
       sin(pi*p)     = - ri * rhalf * (e - rconj e)   = [psin e]
       phase -p      ~ rconj e           phase p + q  ~ e * e'

   A statement proved for every [e] with [is_phase e] holds for every real
   phase.  DisCoPy counts phases in full turns: Rz(p) uses exp(+-i*pi*p),
   CU1(p) uses exp(2*pi*i*p) (see gates.py), hence this choice of [e].

   This file contains the interface, notations and the small derived facts
   (they are needed by every client; there is no separate lemma file). *)
From Coq Require Import Ring.

Record StarRing : Type := mkStarRing {
  SR_car :> Type;
  r0 : SR_car;
  r1 : SR_car;
  radd : SR_car -> SR_car -> SR_car;
  rmul : SR_car -> SR_car -> SR_car;
  rsub : SR_car -> SR_car -> SR_car;
  ropp : SR_car -> SR_car;
  rconj : SR_car -> SR_car;
  ri : SR_car;
  rhalf : SR_car;
  risq2 : SR_car;
  SR_ring : ring_theory r0 r1 radd rmul rsub ropp (@eq SR_car);
  conj_add : forall x y, rconj (radd x y) = radd (rconj x) (rconj y);
  conj_mul : forall x y, rconj (rmul x y) = rmul (rconj x) (rconj y);
  conj_invol : forall x, rconj (rconj x) = x;
  conj_i : rconj ri = ropp ri;
  conj_half : rconj rhalf = rhalf;
  conj_isq2 : rconj risq2 = risq2;
  i_sq : rmul ri ri = ropp r1;
  half_2 : rmul (radd r1 r1) rhalf = r1;
  isq2_sq : rmul (radd r1 r1) (rmul risq2 risq2) = r1
}.

Arguments r0 {_}. Arguments r1 {_}. Arguments radd {_}. Arguments rmul {_}.
Arguments rsub {_}. Arguments ropp {_}. Arguments rconj {_}. Arguments ri {_}.
Arguments rhalf {_}. Arguments risq2 {_}.

Declare Scope sr_scope.
Delimit Scope sr_scope with sr.
Notation "0" := r0 : sr_scope.
Notation "1" := r1 : sr_scope.
Infix "+" := radd : sr_scope.
Infix "*" := rmul : sr_scope.
Infix "-" := rsub : sr_scope.
Notation "- x" := (ropp x) : sr_scope.

Section StarRingFacts.
  Variable SR : StarRing.
  Add Ring SRr : (SR_ring SR).
  Local Open Scope sr_scope.
  Implicit Types x y e : SR.

  (* derived constants *)
  Definition rtwo : SR := 1 + 1.
  Definition rsqrt2 : SR := rtwo * risq2.                 (* sqrt 2 *)
  Definition rw8 : SR := risq2 * (1 + ri).                (* exp(i*pi/4) *)

  (* phases *)
  Definition is_phase e : Prop := e * rconj e = 1.
  Definition pcos e : SR := rhalf * (e + rconj e).         (* cos(pi p) *)
  Definition psin e : SR := - ri * rhalf * (e - rconj e).  (* sin(pi p) *)

  Lemma conj_0 : rconj (0 : SR) = 0.
  Proof.
    assert (H : rconj (0 : SR) + rconj 0 = rconj 0) by (rewrite <- conj_add; f_equal; ring).
    transitivity (rconj (0 : SR) + rconj 0 - rconj 0); [ring | rewrite H; ring].
  Qed.

  Lemma conj_1 : rconj (1 : SR) = 1.
  Proof.
    transitivity (rconj (1 * rconj 1 : SR)).
    - rewrite conj_mul, conj_invol. ring.
    - replace (1 * rconj 1 : SR) with (rconj 1 : SR) by ring. apply conj_invol.
  Qed.

  Lemma conj_opp : forall x, rconj (- x) = - rconj x.
  Proof.
    intro x.
    assert (H : rconj (- x) + rconj x = 0) by (rewrite <- conj_add, <- conj_0; f_equal; ring).
    transitivity (rconj (- x) + rconj x - rconj x); [ring | rewrite H; ring].
  Qed.

  Lemma conj_sub : forall x y, rconj (x - y) = rconj x - rconj y.
  Proof.
    intros. replace (x - y) with (x + - y) by ring.
    rewrite conj_add, conj_opp. ring.
  Qed.

  Lemma conj_two : rconj rtwo = rtwo.
  Proof. unfold rtwo. rewrite conj_add, conj_1. reflexivity. Qed.

  Lemma conj_sqrt2 : rconj rsqrt2 = rsqrt2.
  Proof. unfold rsqrt2. rewrite conj_mul, conj_two, conj_isq2. reflexivity. Qed.

  Lemma sqrt2_sq : rsqrt2 * rsqrt2 = rtwo.
  Proof.
    unfold rsqrt2, rtwo.
    transitivity ((1 + 1) * ((1 + 1) * (risq2 * risq2)) : SR); [ring|].
    rewrite isq2_sq. ring.
  Qed.

  Lemma sqrt2_isq2 : rsqrt2 * risq2 = 1.
  Proof. unfold rsqrt2, rtwo. transitivity ((1 + 1) * (risq2 * risq2) : SR); [ring | apply isq2_sq]. Qed.

  (* rw8 is a phase (exp(i pi/4)) and squares to i *)
  Lemma w8_sq : rw8 * rw8 = ri.
  Proof.
    unfold rw8.
    transitivity ((1 + 1) * (risq2 * risq2) * ri + (risq2 * risq2) * (1 + ri * ri) : SR); [ring|].
    rewrite isq2_sq, i_sq. ring.
  Qed.

  Lemma w8_phase : is_phase rw8.
  Proof.
    unfold is_phase, rw8. rewrite conj_mul, conj_add, conj_isq2, conj_1, conj_i.
    transitivity ((1 + 1) * (risq2 * risq2) - (risq2 * risq2) * (1 + ri * ri) : SR); [ring|].
    rewrite isq2_sq, i_sq. ring.
  Qed.

  Lemma i_phase : is_phase (ri : SR).
  Proof. unfold is_phase. rewrite conj_i. transitivity (- (ri * ri) : SR); [ring|]. rewrite i_sq. ring. Qed.

  Lemma one_phase : is_phase (1 : SR).
  Proof. unfold is_phase. rewrite conj_1. ring. Qed.

  Lemma phase_conj : forall e, is_phase e -> is_phase (rconj e).
  Proof. unfold is_phase. intros e H. rewrite conj_invol. rewrite <- H. ring. Qed.

  Lemma phase_mul : forall e f, is_phase e -> is_phase f -> is_phase (e * f).
  Proof.
    unfold is_phase. intros e f He Hf. rewrite conj_mul.
    transitivity ((e * rconj e) * (f * rconj f)); [ring|]. rewrite He, Hf. ring.
  Qed.

  Lemma conj_pcos : forall e, rconj (pcos e) = pcos e.
  Proof. intro. unfold pcos. rewrite conj_mul, conj_add, conj_invol, conj_half. ring. Qed.

  Lemma conj_psin : forall e, rconj (psin e) = psin e.
  Proof.
    intro. unfold psin.
    rewrite !conj_mul, conj_sub, conj_invol, conj_half, conj_opp, conj_i. ring.
  Qed.

  (* cos^2 + sin^2 = 1 *)
  Lemma cos2_sin2 : forall e, is_phase e -> pcos e * pcos e + psin e * psin e = 1.
  Proof.
    unfold is_phase, pcos, psin. intros e He.
    transitivity (rhalf * rhalf * ((e + rconj e) * (e + rconj e)
                   + (ri * ri) * ((e - rconj e) * (e - rconj e)))); [ring|].
    rewrite i_sq.
    transitivity (((1 + 1) * rhalf) * ((1 + 1) * rhalf) * (e * rconj e)); [ring|].
    rewrite half_2, He. ring.
  Qed.

  (* cos + i sin = e,  cos - i sin = conj e *)
  Lemma cos_i_sin : forall e, pcos e + ri * psin e = e.
  Proof.
    intro e. unfold pcos, psin.
    transitivity (rhalf * ((e + rconj e) - (ri * ri) * (e - rconj e))); [ring|].
    rewrite i_sq. transitivity (((1 + 1) * rhalf) * e); [ring|]. rewrite half_2. ring.
  Qed.

  Lemma cos_mi_sin : forall e, pcos e - ri * psin e = rconj e.
  Proof.
    intro e. unfold pcos, psin.
    transitivity (rhalf * ((e + rconj e) + (ri * ri) * (e - rconj e))); [ring|].
    rewrite i_sq. transitivity (((1 + 1) * rhalf) * rconj e); [ring|]. rewrite half_2. ring.
  Qed.

  (* integer powers of a unit: e^n, used for the phase grid *)
  Fixpoint rpow x (n : nat) : SR :=
    match n with O => 1 | S n' => x * rpow x n' end.

  Lemma rpow_phase : forall e n, is_phase e -> is_phase (rpow e n).
  Proof. induction n; intros; cbn; [apply one_phase | apply phase_mul; auto]. Qed.
End StarRingFacts.

Arguments rtwo {_}. Arguments rsqrt2 {_}. Arguments rw8 {_}.
Arguments is_phase {_}. Arguments pcos {_}. Arguments psin {_}. Arguments rpow {_}.
