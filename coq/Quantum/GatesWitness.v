(* Facts established by computation in the executable instance Cyc32:
   - regression witnesses for the former findings F6, F7, F8 (repaired upstream);
   - non-vacuity examples for the hypotheses of the general theorems;
   - the bounded exhaustive check of [rewire] (every placement on <= 4 wires);
   - general refusal lemmas of [rewire]. *)
From Coq Require Import List Bool Arith ZArith QArith Qcanon Lia.
Import ListNotations.
Require Import DV.Common.Base.
Require Import DV.Quantum.Ring DV.Quantum.Cyc32 DV.Quantum.Matrix DV.Quantum.MatrixLemmas
               DV.Quantum.Gates DV.Quantum.Std DV.Quantum.GatesLemmas DV.Quantum.CircuitLemmas.
Local Open Scope nat_scope.

(* inequality in Cyc32 by comparing the rational coefficients *)
Ltac c32_neq :=
  let H := fresh in
  intro H; apply (f_equal (fun x => map (fun q => this q) (coeffs x))) in H;
  vm_compute in H; discriminate H.

(* e.g. i <> -i *)
Example c32_i_neq_minus_i : (ri : Cyc32) <> ropp ri.
Proof. c32_neq. Qed.

(* decidable equality of matrices over Cyc32 on indices of the given lengths *)
Definition mat_eqb (m n : nat) (A B : mat Cyc32) : bool :=
  forallb (fun i => forallb (fun o => c32_eqb (A i o) (B i o)) (all_bits n)) (all_bits m).

Lemma mat_eqb_ok : forall m n A B, mat_eqb m n A B = true -> meq m n A B.
Proof.
  intros m n A B H i o Hi Ho. unfold mat_eqb in H.
  rewrite forallb_forall in H. specialize (H i (all_bits_complete m i Hi)).
  rewrite forallb_forall in H. specialize (H o (all_bits_complete n o Ho)).
  apply c32_eqb_ok, H.
Qed.

Definition z5 : Cyc32 := c32_phase 5.          (* exp(i*pi*5/16): the phase 5/16 *)
Lemma z5_phase : is_phase z5.  Proof. apply c32_phase_ok. Qed.

(* ------------------------------------------------------------------ regression witnesses *)
(* The former findings F6, F7, F8 (repaired upstream by 283c08a, 648c8a7, a3ece78):
   the inputs on which the unrepaired code violated the property, now checked
   positively by computation in Cyc32 (instances of the general theorems). *)
Example former_F6_Y :
  mat_eqb 1 1 (mtrans (gate1_eval (@G1Named Cyc32 NY false))) (std_mat SY r1) = true
  /\ mat_eqb 2 2 (mtrans (gate2_eval (G2Ctrl (@G1Named Cyc32 NY false)))) (std_mat SCY r1) = true.
Proof. vm_compute. split; reflexivity. Qed.

Example former_F7_Ry :
  mat_eqb 1 1 (mtrans (gate1_eval (G1Rot RRy z5))) (std_mat SRy z5) = true
  /\ mat_eqb 2 2 (mtrans (gate2_eval (G2Ctrl (G1Rot RRy z5)))) (std_mat SCRy z5) = true.
Proof. vm_compute. split; reflexivity. Qed.

Definition CS : box Cyc32 := BG2 (G2Ctrl (G1Named NS false)).
Example former_F8_controlled_dagger :
  mat_eqb 2 2 (box_eval (box_dagger CS)) (madj (box_eval CS)) = true
  /\ mat_eqb 2 2 (mtrans (box_eval (box_dagger CS))) (std_mat SCSdg r1) = true.
Proof. vm_compute. split; reflexivity. Qed.

(* ------------------------------------------------------------------ non-vacuity *)
(* H on wire 0, CX, Rz(5/16) on wire 1, S^dagger on wire 0, CRx(5/16), SWAP *)
Definition ex_circuit : circuit Cyc32 :=
  Circ 2 [(0, BG1 (G1Named NH false)); (0, BG2 (G2Ctrl (G1Named NX false)));
          (1, BG1 (G1Rot RRz z5)); (0, BG1 (G1Named NS true));
          (0, BG2 (G2Rot RCRx z5)); (0, BSwap)].

Example ex_circuit_hyps :
  wf_circuit ex_circuit = true /\ gates_only ex_circuit.
Proof.
  split; [reflexivity|].
  intros l Hl; cbn in Hl;
    repeat (destruct Hl as [<-|Hl]; [cbn; try split; try reflexivity; try exact I; try apply z5_phase|]);
    try contradiction.
Qed.

(* a state preparation followed by a post-selection: Ket(1,0) >> H (x) Id >> Bra(0,0), and a scalar *)
Definition ex_state : circuit Cyc32 :=
  Circ 0 [(0, BKet [true; false]); (0, BG1 (G1Named NH false)); (2, BScalar (ri : Cyc32));
          (0, BBra [false; false]); (0, BSqrt2 1)].
Example ex_state_value : wf_circuit ex_state = true /\
  c32_eqb (eval ex_state [] []) (ri : Cyc32) = true.
Proof. split; [reflexivity | vm_compute; reflexivity]. Qed.

(* ------------------------------------------------------------------ rewire *)
Section RewireGeneral.
  Variable SR : StarRing.
  Implicit Types (op : circuit SR).

  Lemma rewire_same_index : forall op a dom, rewire op a a dom = Err ValueError.
  Proof. intros. unfold rewire. rewrite Nat.eqb_refl. reflexivity. Qed.

  Lemma rewire_narrow_dom : forall op a b n, a <> b -> n < 2 ->
    rewire op a b (Some n) = Err ValueError.
  Proof.
    intros op a b n Hab Hn. unfold rewire. apply Nat.eqb_neq in Hab. rewrite Hab.
    apply Nat.ltb_lt in Hn. rewrite Hn. reflexivity.
  Qed.

  Lemma rewire_wrong_width : forall op a b n, a <> b -> 2 <= n -> c_dom op <> 2 ->
    rewire op a b (Some n) = Err ValueError.
  Proof.
    intros op a b n Hab Hn Hd. unfold rewire. apply Nat.eqb_neq in Hab. rewrite Hab.
    apply Nat.ltb_ge in Hn. rewrite Hn. apply Nat.eqb_neq in Hd. rewrite Hd. reflexivity.
  Qed.

  (* the contiguous, not reversed case is the plain whiskering Id(a) @ op @ Id(n - b - 1) *)
  Lemma rewire_contiguous : forall op a n, c_dom op = 2 -> S (S a) <= n ->
    rewire op a (S a) (Some n) = Ok (ctensor (ctensor (cid a) op) (cid (n - S (S a)))).
  Proof.
    intros op a n Hd Hn. unfold rewire.
    replace (a =? S a) with false by (symmetry; apply Nat.eqb_neq; lia).
    replace (n <? 2) with false by (symmetry; apply Nat.ltb_ge; lia).
    rewrite Hd. cbn [Nat.eqb negb].
    replace (n <=? Nat.max a (S a)) with false by (symmetry; apply Nat.leb_gt; lia).
    rewrite Nat.eqb_refl. reflexivity.
  Qed.
End RewireGeneral.

(* the full statement (NOT asserted in general; proved below for every n <= 4
   by exhaustive computation, for three gates of different symmetry) *)
Definition rewire_acts_on_a_b_stmt : Prop :=
  forall (SR : StarRing) (g : gate2 SR) (n a b : nat), a < n -> b < n -> a <> b ->
  exists c, rewire (cbox (BG2 g)) a b (Some n) = Ok c /\ wf_circuit c = true /\
            c_dom c = n /\ cod_or0 c = n /\
            meq n n (eval c) (on_wires a b (gate2_eval g)).

Definition rewire_ok (g : gate2 Cyc32) (n a b : nat) : bool :=
  match rewire (cbox (BG2 g)) a b (Some n) with
  | Ok c =>
      wf_circuit c && (c_dom c =? n) && (cod_or0 c =? n)
      && (let E := eval c in mat_eqb n n E (on_wires a b (gate2_eval g)))
  | Err _ => false
  end.

Definition rewire_gates : list (gate2 Cyc32) :=
  [G2Ctrl (G1Named NX false);          (* CX: control and target differ, real *)
   G2Ctrl (G1Rot RRx z5);              (* Controlled(Rx(5/16)): complex, not symmetric under exchange *)
   G2Rot RCRz z5].                     (* CRz(5/16): diagonal, not symmetric under exchange *)

(* "P g n a b for every g in G, 2 <= n <= nmax, a <> b < n", as a boolean *)
Definition all_placements {X} (G : list X) (P : X -> nat -> nat -> nat -> bool) (nmax : nat) : bool :=
  forallb (fun g =>
    forallb (fun n =>
      forallb (fun a =>
        forallb (fun b => (a =? b) || P g n a b) (seq 0 n)) (seq 0 n))
      (seq 2 (nmax - 1))) G.

Lemma all_placements_elim : forall {X} (G : list X) P nmax, all_placements G P nmax = true ->
  forall g n a b, In g G -> 2 <= n <= nmax -> a < n -> b < n -> a <> b -> P g n a b = true.
Proof.
  intros X G P nmax H g n a b Hg Hn Ha Hb Hab. unfold all_placements in H.
  rewrite forallb_forall in H. specialize (H g Hg). cbv beta in H.
  rewrite forallb_forall in H. specialize (H n). rewrite in_seq in H.
  specialize (H ltac:(lia)). cbv beta in H.
  rewrite forallb_forall in H. specialize (H a). rewrite in_seq in H. specialize (H ltac:(lia)).
  cbv beta in H.
  rewrite forallb_forall in H. specialize (H b). rewrite in_seq in H. specialize (H ltac:(lia)).
  cbv beta in H. apply orb_true_iff in H. destruct H as [H|H]; [|exact H].
  apply Nat.eqb_eq in H. contradiction.
Qed.

Lemma rewire_all_ok_4 : all_placements rewire_gates rewire_ok 4 = true.
Proof. vm_cast_no_check (eq_refl true). Qed.

Lemma rewire_acts_on_a_b_bounded : forall g n a b, In g rewire_gates ->
  2 <= n <= 4 -> a < n -> b < n -> a <> b ->
  exists c, rewire (cbox (BG2 g)) a b (Some n) = Ok c /\ wf_circuit c = true /\
            c_dom c = n /\ cod_or0 c = n /\
            meq n n (eval c) (on_wires a b (gate2_eval g)).
Proof.
  intros g n a b Hg Hn Ha Hb Hab.
  pose proof (all_placements_elim _ _ _ rewire_all_ok_4 g n a b Hg Hn Ha Hb Hab) as H.
  unfold rewire_ok in H. destruct (rewire (cbox (BG2 g)) a b (Some n)) as [c|]; [|discriminate].
  apply andb_prop in H as [H H4]. apply andb_prop in H as [H H3]. apply andb_prop in H as [H1 H2].
  exists c. split; [reflexivity|]. split; [exact H1|].
  split; [apply Nat.eqb_eq, H2|]. split; [apply Nat.eqb_eq, H3|]. apply mat_eqb_ok, H4.
Qed.
