(* Tensor products of pure circuits (Gates.v): padding a circuit with idle wires
   on the right / on the left is the Kronecker product with the identity, the
   evaluation of [ctensor a b] is the Kronecker product of the evaluations, and
   the contiguous cases of [rewire] evaluate to the whiskered operator. *)
From Coq Require Import List Bool Arith ZArith Lia Ring.
Import ListNotations.
Require Import DV.Common.Base.
Require Import DV.Quantum.Ring DV.Quantum.Matrix DV.Quantum.MatrixLemmas DV.Quantum.Gates
               DV.Quantum.Std DV.Quantum.GatesLemmas DV.Quantum.CircuitLemmas.
Local Open Scope nat_scope.

Section TensorLemmas.
  Variable SR : StarRing.
  Add Ring SRr3 : (SR_ring SR).
  Notation layers := (list (nat * box SR)).
  Implicit Types (ls : layers) (l : nat * box SR) (A B : mat SR).

  (* ---------------------------------------------------------------- matrix level *)
  Lemma meq_dims : forall m n m' n' A B, m = m' -> n = n' -> meq m n A B -> meq m' n' A B.
  Proof. intros; subst; assumption. Qed.

  (* (A (x) id) on r + k more idle wires: regroup the trailing identity *)
  Lemma kron_pad_right : forall m n r k A,
    meq (m + r + k) (n + r + k)
        (kron m n A mid) (kron (m + r) (n + r) (kron m n A mid) mid).
  Proof.
    intros m n r k A. apply meq_sym.
    eapply meq_trans; [apply kron_assoc|].
    apply (meq_dims (m + (r + k)) (n + (r + k))); [lia | lia |].
    apply kron_compat; [apply meq_refl | apply kron_id].
  Qed.

  (* whiskering with k + l wires on the left = id_k (x) (whiskering with l wires) *)
  Lemma whisker_shift : forall k j m n r A,
    meq (k + (j + m + r)) (k + (j + n + r))
        (whisker (k + j) m n A) (kron k k mid (whisker j m n A)).
  Proof.
    intros k j m n r A. unfold whisker.
    apply (meq_dims (k + j + m + r) (k + j + n + r)); [lia | lia |].
    eapply meq_trans.
    { apply kron_compat; [|apply meq_refl].
      eapply meq_trans; [apply kron_compat; [apply meq_sym, kron_id | apply meq_refl]|].
      apply kron_assoc. }
    replace (k + j + m) with (k + (j + m)) by lia.
    replace (k + j + n) with (k + (j + n)) by lia.
    apply kron_assoc.
  Qed.

  (* whiskering with nothing on either side *)
  Lemma whisker_0 : forall m n A, meq m n (whisker 0 m n A) A.
  Proof.
    intros m n A i o <- <-. unfold whisker, kron, mid. cbn [Nat.add firstn skipn].
    rewrite !firstn_all, !skipn_all. rewrite !delta_refl. ring.
  Qed.

  (* ---------------------------------------------------------------- idle wires on the right *)
  Lemma run_width_pad : forall ls w w2 k, run_width w ls = Some w2 ->
    run_width (w + k) ls = Some (w2 + k).
  Proof.
    induction ls as [|[off b] ls IH]; intros w w2 k H; cbn in *.
    - injection H as <-. reflexivity.
    - destruct (off + box_dom b <=? w) eqn:E; [|discriminate]. apply Nat.leb_le in E.
      replace (off + box_dom b <=? w + k) with true by (symmetry; apply Nat.leb_le; lia).
      replace (w + k - box_dom b + box_cod b) with (w - box_dom b + box_cod b + k) by lia.
      apply IH, H.
  Qed.

  Lemma layer_pad_right : forall w l k, fst l + box_dom (snd l) <= w ->
    meq (w + k) (step_w w l + k) (layer_mat l) (kron w (step_w w l) (layer_mat l) mid).
  Proof.
    intros w l k Hfit. destruct (layer_dims _ w l Hfit) as (r & Hw & Hs).
    rewrite Hs. clear Hs. subst w. unfold layer_mat, whisker. apply kron_pad_right.
  Qed.

  Lemma step_w_pad : forall w l k, fst l + box_dom (snd l) <= w ->
    step_w (w + k) l = step_w w l + k.
  Proof. intros. unfold step_w. lia. Qed.

  Lemma lprod_pad_right : forall ls w w2 k, run_width w ls = Some w2 ->
    meq (w + k) (w2 + k) (lprod (w + k) ls) (kron w w2 (lprod w ls) mid).
  Proof.
    induction ls as [|l ls IH]; intros w w2 k H.
    - cbn in H. injection H as <-. cbn [lprod]. apply meq_sym, kron_id.
    - apply run_width_cons in H as [Hfit H]. cbn [lprod].
      rewrite (step_w_pad w l k Hfit).
      eapply meq_trans.
      { apply mmul_compat; [apply (layer_pad_right w l k Hfit) | apply (IH _ _ k H)]. }
      eapply meq_trans; [apply kron_mixed|].
      apply kron_compat; [apply meq_refl | apply mmul_id_l].
  Qed.

  (* ---------------------------------------------------------------- idle wires on the left *)
  Definition shift_layers (k : nat) ls : layers := map (fun l => (k + fst l, snd l)) ls.

  Lemma run_width_shift : forall ls w w2 k, run_width w ls = Some w2 ->
    run_width (k + w) (shift_layers k ls) = Some (k + w2).
  Proof.
    induction ls as [|[off b] ls IH]; intros w w2 k H; cbn in *.
    - injection H as <-. reflexivity.
    - destruct (off + box_dom b <=? w) eqn:E; [|discriminate]. apply Nat.leb_le in E.
      replace (k + off + box_dom b <=? k + w) with true by (symmetry; apply Nat.leb_le; lia).
      replace (k + w - box_dom b + box_cod b) with (k + (w - box_dom b + box_cod b)) by lia.
      apply IH, H.
  Qed.

  Lemma layer_pad_left : forall w l k, fst l + box_dom (snd l) <= w ->
    meq (k + w) (k + step_w w l) (layer_mat (k + fst l, snd l)) (kron k k mid (layer_mat l)).
  Proof.
    intros w l k Hfit. destruct (layer_dims _ w l Hfit) as (r & Hw & Hs).
    rewrite Hs. clear Hs. subst w. unfold layer_mat. cbn [fst snd]. apply whisker_shift.
  Qed.

  Lemma step_w_shift : forall w l k, fst l + box_dom (snd l) <= w ->
    step_w (k + w) (k + fst l, snd l) = k + step_w w l.
  Proof. intros. unfold step_w. cbn [snd]. lia. Qed.

  Lemma lprod_pad_left : forall ls w w2 k, run_width w ls = Some w2 ->
    meq (k + w) (k + w2) (lprod (k + w) (shift_layers k ls)) (kron k k mid (lprod w ls)).
  Proof.
    induction ls as [|l ls IH]; intros w w2 k H.
    - cbn in H. injection H as <-. cbn [shift_layers map lprod]. apply meq_sym, kron_id.
    - apply run_width_cons in H as [Hfit H]. cbn [shift_layers map lprod].
      fold (shift_layers k ls).
      rewrite (step_w_shift w l k Hfit).
      eapply meq_trans.
      { apply mmul_compat; [apply (layer_pad_left w l k Hfit) | apply (IH _ _ k H)]. }
      eapply meq_trans; [apply kron_mixed|].
      apply kron_compat; [apply mmul_id_l | apply meq_refl].
  Qed.

  (* ---------------------------------------------------------------- a @ b *)
  Lemma wf_run : forall c : circuit SR, wf_circuit c = true ->
    run_width (c_dom c) (c_layers c) = Some (cod_or0 c).
  Proof.
    intros c H. unfold wf_circuit, cod_or0, c_cod in *.
    destruct (run_width (c_dom c) (c_layers c)); [reflexivity | discriminate].
  Qed.

  Lemma run_wf : forall (c : circuit SR) w, run_width (c_dom c) (c_layers c) = Some w ->
    wf_circuit c = true /\ cod_or0 c = w.
  Proof.
    intros c w H. unfold wf_circuit, cod_or0, c_cod. rewrite H. split; reflexivity.
  Qed.

  Lemma ctensor_layers : forall a b : circuit SR,
    c_layers (ctensor a b) = c_layers a ++ shift_layers (cod_or0 a) (c_layers b).
  Proof. reflexivity. Qed.

  Lemma ctensor_run : forall la lb da db wa wb,
    run_width da la = Some wa -> run_width db lb = Some wb ->
    run_width (da + db) (la ++ shift_layers wa lb) = Some (wa + wb).
  Proof.
    intros la lb da db wa wb Ha Hb.
    rewrite (run_width_app _ _ _ _ _ (run_width_pad _ _ _ db Ha)).
    apply run_width_shift, Hb.
  Qed.

  Lemma ctensor_wf : forall a b : circuit SR, wf_circuit a = true -> wf_circuit b = true ->
    wf_circuit (ctensor a b) = true /\ c_dom (ctensor a b) = c_dom a + c_dom b
    /\ cod_or0 (ctensor a b) = cod_or0 a + cod_or0 b.
  Proof.
    intros a b Ha Hb.
    pose proof (ctensor_run _ _ _ _ _ _ (wf_run a Ha) (wf_run b Hb)) as E.
    destruct (run_wf (ctensor a b) _ E) as [Hw Hc].
    split; [exact Hw|]. split; [reflexivity | exact Hc].
  Qed.

  (* (a @ b).eval() = a.eval() (x) b.eval() *)
  Lemma ctensor_eval : forall a b : circuit SR, wf_circuit a = true -> wf_circuit b = true ->
    meq (c_dom a + c_dom b) (cod_or0 a + cod_or0 b)
        (eval (ctensor a b)) (kron (c_dom a) (cod_or0 a) (eval a) (eval b)).
  Proof.
    intros a b Ha Hb.
    destruct (ctensor_wf a b Ha Hb) as (Hw & Hd & Hc).
    pose proof (eval_is_lprod _ _ Hw) as E. rewrite Hd, Hc in E.
    eapply meq_trans; [exact E|]. clear E. rewrite ctensor_layers.
    pose proof (wf_run a Ha) as Ea. pose proof (wf_run b Hb) as Eb.
    eapply meq_trans.
    { apply (lprod_app _ _ _ _ _ _ (run_width_pad _ _ _ (c_dom b) Ea)
                       (run_width_shift _ _ _ (cod_or0 a) Eb)). }
    eapply meq_trans.
    { apply mmul_compat; [apply (lprod_pad_right _ _ _ _ Ea) | apply (lprod_pad_left _ _ _ _ Eb)]. }
    eapply meq_trans; [apply kron_mixed|].
    apply kron_compat.
    - eapply meq_trans; [apply mmul_id_r | apply meq_sym, eval_is_lprod, Ha].
    - eapply meq_trans; [apply mmul_id_l | apply meq_sym, eval_is_lprod, Hb].
  Qed.

  Lemma cid_eval : forall n, wf_circuit (cid n : circuit SR) = true
    /\ cod_or0 (cid n : circuit SR) = n /\ meq n n (eval (cid n : circuit SR)) mid.
  Proof.
    intro n. split; [reflexivity|]. split; [reflexivity|].
    unfold eval, cid. cbn [c_dom c_layers eval_layers]. apply mfreeze_eq.
  Qed.

  (* Id(a) @ op @ Id(r) evaluates to the whiskered evaluation of op *)
  Lemma cwhisker_eval : forall (op : circuit SR) a r, wf_circuit op = true ->
    wf_circuit (ctensor (ctensor (cid a) op) (cid r)) = true
    /\ c_dom (ctensor (ctensor (cid a) op) (cid r)) = a + c_dom op + r
    /\ cod_or0 (ctensor (ctensor (cid a) op) (cid r)) = a + cod_or0 op + r
    /\ meq (a + c_dom op + r) (a + cod_or0 op + r)
           (eval (ctensor (ctensor (cid a) op) (cid r)))
           (whisker a (c_dom op) (cod_or0 op) (eval op)).
  Proof.
    intros op a r Hop.
    destruct (cid_eval a) as (Wa & Ca & Ea). destruct (cid_eval r) as (Wr & Cr & Er).
    destruct (ctensor_wf (cid a) op Wa Hop) as (W1 & D1 & C1).
    pose proof (ctensor_eval (cid a) op Wa Hop) as E1.
    destruct (ctensor_wf _ (cid r) W1 Wr) as (W2 & D2 & C2).
    pose proof (ctensor_eval _ (cid r) W1 Wr) as E2.
    rewrite Ca in C1, E1. rewrite D1 in D2, E2. rewrite C1, Cr in C2, E2.
    change (c_dom (@cid SR a)) with a in *. change (c_dom (@cid SR r)) with r in *.
    split; [exact W2|]. split; [exact D2|]. split; [exact C2|].
    unfold whisker. eapply meq_trans; [exact E2|].
    apply kron_compat; [|exact Er].
    eapply meq_trans; [exact E1|].
    apply kron_compat; [exact Ea | apply meq_refl].
  Qed.

  (* ---------------------------------------------------------------- rewire, contiguous cases *)
  Lemma rewire_contiguous_shape : forall (op : circuit SR) a n, c_dom op = 2 -> S (S a) <= n ->
    rewire op a (S a) (Some n) = Ok (ctensor (ctensor (cid a) op) (cid (n - S (S a)))).
  Proof.
    intros op a n Hd Hn. unfold rewire.
    replace (a =? S a) with false by (symmetry; apply Nat.eqb_neq; lia).
    replace (n <? 2) with false by (symmetry; apply Nat.ltb_ge; lia).
    rewrite Hd. cbn [Nat.eqb negb].
    replace (n <=? Nat.max a (S a)) with false by (symmetry; apply Nat.leb_gt; lia).
    rewrite Nat.eqb_refl. reflexivity.
  Qed.

  Lemma rewire_contiguous_eval : forall (op : circuit SR) a n, wf_circuit op = true ->
    c_dom op = 2 -> cod_or0 op = 2 -> S (S a) <= n ->
    exists c, rewire op a (S a) (Some n) = Ok c /\ wf_circuit c = true /\ c_dom c = n
      /\ cod_or0 c = n /\ meq n n (eval c) (whisker a 2 2 (eval op)).
  Proof.
    intros op a n Hop Hd Hc Hn.
    exists (ctensor (ctensor (cid a) op) (cid (n - S (S a)))).
    split; [apply rewire_contiguous_shape; assumption|].
    destruct (cwhisker_eval op a (n - S (S a)) Hop) as (W & D & C & E).
    rewrite Hd in D, E. rewrite Hc in C, E.
    replace (a + 2 + (n - S (S a))) with n in * by lia.
    auto.
  Qed.
  (* the single SWAP box, as a circuit *)
  Lemma cswap_eval : wf_circuit (cbox (@BSwap SR)) = true /\ c_dom (cbox (@BSwap SR)) = 2
    /\ cod_or0 (cbox (@BSwap SR)) = 2 /\ meq 2 2 (eval (cbox (@BSwap SR))) (box_eval (@BSwap SR)).
  Proof.
    split; [reflexivity|]. split; [reflexivity|]. split; [reflexivity|].
    eapply meq_trans; [apply (eval_is_lprod _ (cbox (@BSwap SR))); reflexivity|].
    change (cod_or0 (cbox (@BSwap SR))) with 2. change (c_dom (cbox (@BSwap SR))) with 2.
    change (c_layers (cbox (@BSwap SR))) with [(0, @BSwap SR)].
    cbn [lprod]. change (step_w 2 (0, @BSwap SR)) with 2.
    eapply meq_trans; [apply mmul_id_r|]. unfold layer_mat. cbn [fst snd box_dom box_cod].
    apply whisker_0.
  Qed.

  (* rewire(op, a + 1, a): SWAP >> op >> SWAP on wires a, a + 1 (square op) *)
  Lemma rewire_contiguous_reversed_eval : forall (op : circuit SR) a n, wf_circuit op = true ->
    c_dom op = 2 -> cod_or0 op = 2 -> S (S a) <= n ->
    exists c, rewire op (S a) a (Some n) = Ok c /\ wf_circuit c = true /\ c_dom c = n
      /\ cod_or0 c = n
      /\ meq n n (eval c)
             (whisker a 2 2 (mmul 2 (mmul 2 (box_eval (@BSwap SR)) (eval op)) (box_eval (@BSwap SR)))).
  Proof.
    intros op a n Hop Hd Hc Hn.
    destruct cswap_eval as (Ws & Ds & Cs & Es).
    set (sw := cbox (@BSwap SR)) in *.
    assert (Hx : exists x, cthen sw op = Ok x).
    { unfold cthen. rewrite Cs, Hd. cbn [Nat.eqb]. eexists. reflexivity. }
    destruct Hx as [x Hx].
    destruct (cthen_wf _ sw op x Ws Hop Hx) as (Wx & Dx & Cx & _).
    pose proof (cthen_eval _ sw op x Ws Hop Hx) as Ex.
    rewrite Ds in Dx, Ex. rewrite Hc in Cx, Ex. rewrite Cs in Ex.
    assert (Hy : exists y, cthen x sw = Ok y).
    { unfold cthen. rewrite Cx, Ds. cbn [Nat.eqb]. eexists. reflexivity. }
    destruct Hy as [y Hy].
    destruct (cthen_wf _ x sw y Wx Ws Hy) as (Wy & Dy & Cy & _).
    pose proof (cthen_eval _ x sw y Wx Ws Hy) as Ey.
    rewrite Dx in Dy, Ey. rewrite Cs in Cy, Ey. rewrite Cx in Ey.
    exists (ctensor (ctensor (cid a) y) (cid (n - S (S a)))).
    split.
    { unfold rewire.
      replace (S a =? a) with false by (symmetry; apply Nat.eqb_neq; lia).
      replace (n <? 2) with false by (symmetry; apply Nat.ltb_ge; lia).
      rewrite Hc, Hd. cbn [Nat.eqb negb].
      replace (n <=? Nat.max (S a) a) with false by (symmetry; apply Nat.leb_gt; lia).
      replace (a =? S (S a)) with false by (symmetry; apply Nat.eqb_neq; lia).
      rewrite Nat.eqb_refl. fold sw. rewrite Hx. cbn [bind]. rewrite Hy. reflexivity. }
    destruct (cwhisker_eval y a (n - S (S a)) Wy) as (W & D & C & E).
    rewrite Dy in D, E. rewrite Cy in C, E.
    replace (a + 2 + (n - S (S a))) with n in * by lia.
    split; [exact W|]. split; [exact D|]. split; [exact C|].
    eapply meq_trans; [exact E|].
    apply (meq_dims (a + 2 + (n - S (S a))) (a + 2 + (n - S (S a)))); [lia | lia |].
    apply whisker_compat.
    eapply meq_trans; [exact Ey|].
    apply mmul_compat; [|exact Es].
    eapply meq_trans; [exact Ex|].
    apply mmul_compat; [exact Es | apply meq_refl].
  Qed.
End TensorLemmas.

Arguments shift_layers {_}.

Print Assumptions ctensor_eval.
Print Assumptions rewire_contiguous_eval.
Print Assumptions rewire_contiguous_reversed_eval.
