(* Matrices over a StarRing for qubit systems (every axis has dimension 2).

   An index is a bitstring [bits = list bool] (leftmost bit = leftmost wire =
   most significant).  A matrix is a function of two indices

       mat := bits -> bits -> SR            A i o

   In DisCoPy's convention ([tensor.Tensor], arrays of shape dom @ cod) the
   FIRST index is the INPUT and the second the OUTPUT, and the composite
   "A then B" is the matrix product  [mmul k A B]  with k = number of wires
   between them.  Textbook matrices ([out, in], Std.v) are the same type with
   the roles exchanged; [mtrans] converts.

   Dimensions are not part of the type: a matrix of m inputs and n outputs is
   meaningful on indices of lengths m and n, and equality of matrices is
   [meq m n] (pointwise on indices of the right lengths).  Sums over all
   bitstrings of length n are [bsum n] (structural recursion; no nat
   arithmetic, no div/mod anywhere).

   Executable arrays are binary tries [trie] of depth m+n indexed by
   (input bits ++ output bits): exactly a C-contiguous numpy array of shape
   (2,)*(m+n); [tflat] is [ndarray.flatten()], [ttab] tabulates a function,
   [mat_tab]/[mat_of_trie] convert a matrix to / from its array.  Model code
   materialises after each operation so that evaluation is not exponential.

   Definitions only; proofs are in MatrixLemmas.v. *)
From Coq Require Import List Bool Arith.
Import ListNotations.
Require Import DV.Quantum.Ring.

Definition bits := list bool.

Fixpoint beqb (a b : bits) : bool :=
  match a, b with
  | [], [] => true
  | x :: a', y :: b' => Bool.eqb x y && beqb a' b'
  | _, _ => false
  end.

(* numeric value of a bitstring, most significant bit first *)
Definition nat_of_bits (b : bits) : nat :=
  fold_left (fun acc x => (if x : bool then 1 else 0) + 2 * acc) b 0.

(* every bitstring of length n, in increasing numeric (= row-major) order *)
Fixpoint all_bits (n : nat) : list bits :=
  match n with
  | O => [[]]
  | S n' => map (cons false) (all_bits n') ++ map (cons true) (all_bits n')
  end.

Section Matrix.
  Variable SR : StarRing.
  Local Open Scope sr_scope.

  Definition mat := bits -> bits -> SR.

  (* sum of f over all bitstrings of length n *)
  Fixpoint bsum (n : nat) (f : bits -> SR) : SR :=
    match n with
    | O => f []
    | S n' => bsum n' (fun t => f (false :: t)) + bsum n' (fun t => f (true :: t))
    end.

  Definition delta (a b : bits) : SR := if beqb a b then 1 else 0.

  Definition mid : mat := delta.
  Definition mzero : mat := fun _ _ => 0.
  (* A (m -> k) then B (k -> n) *)
  Definition mmul (k : nat) (A B : mat) : mat :=
    fun i o => bsum k (fun x => A i x * B x o).
  (* A (m -> n) side by side with B: (A (x) B) (i1 ++ i2) (o1 ++ o2) = A i1 o1 * B i2 o2 *)
  Definition kron (m n : nat) (A B : mat) : mat :=
    fun i o => A (firstn m i) (firstn n o) * B (skipn m i) (skipn n o).
  Definition mtrans (A : mat) : mat := fun i o => A o i.
  Definition mconj (A : mat) : mat := fun i o => rconj (A i o).
  Definition madj (A : mat) : mat := fun i o => rconj (A o i).    (* conjugate transpose *)
  Definition mscale (c : SR) (A : mat) : mat := fun i o => c * A i o.
  Definition madd (A B : mat) : mat := fun i o => A i o + B i o.

  Definition meq (m n : nat) (A B : mat) : Prop :=
    forall i o, length i = m -> length o = n -> A i o = B i o.

  (* U : n -> n is unitary (both sides are required: over a ring one does not
     imply the other) *)
  Definition unitary (n : nat) (U : mat) : Prop :=
    meq n n (mmul n U (madj U)) mid /\ meq n n (mmul n (madj U) U) mid.
  (* V : m -> n is an isometry: V then V^dagger = id_m *)
  Definition isometry (m n : nat) (V : mat) : Prop := meq m m (mmul n V (madj V)) mid.

  (* id_l (x) A (x) id_r for A : m -> n *)
  Definition whisker (l m n : nat) (A : mat) : mat :=
    kron (l + m) (l + n) (kron l l mid A) mid.

  (* "G (two qubits -> two qubits) acting on wires a and b of n wires, every
     other wire untouched": the specification used for rewire *)
  Fixpoint same_except (a b k : nat) (i o : bits) : SR :=
    match i, o with
    | x :: i', y :: o' =>
        (if (Nat.eqb k a || Nat.eqb k b) then 1 else if Bool.eqb x y then 1 else 0)
        * same_except a b (S k) i' o'
    | [], [] => 1
    | _, _ => 0
    end.
  Definition on_wires (a b : nat) (G : mat) : mat :=
    fun i o =>
      G [nth a i false; nth b i false] [nth a o false; nth b o false] * same_except a b O i o.

  (* ---------------------------------------------------------------- arrays *)
  Inductive trie := TLeaf (x : SR) | TNode (f t : trie).

  Fixpoint tget (t : trie) (b : bits) : SR :=
    match t, b with
    | TLeaf x, _ => x
    | TNode f _, false :: b' => tget f b'
    | TNode _ t, true :: b' => tget t b'
    | TNode _ _, [] => 0
    end.

  Fixpoint ttab (n : nat) (f : bits -> SR) : trie :=
    match n with
    | O => TLeaf (f [])
    | S n' => TNode (ttab n' (fun b => f (false :: b))) (ttab n' (fun b => f (true :: b)))
    end.

  Fixpoint tflat (t : trie) : list SR :=
    match t with TLeaf x => [x] | TNode f t => tflat f ++ tflat t end.

  Fixpoint tdepth (t : trie) : nat :=
    match t with TLeaf _ => O | TNode f _ => S (tdepth f) end.

  (* numpy.array(flat).reshape((2,)*n) *)
  Definition of_flat (n : nat) (l : list SR) : trie :=
    ttab n (fun b => nth (nat_of_bits b) l 0).

  (* the matrix (first index of length m) stored in an array *)
  Definition mat_of_trie (t : trie) : mat := fun i o => tget t (i ++ o).
  (* the array of a matrix m -> n *)
  Definition mat_tab (m n : nat) (A : mat) : trie :=
    ttab (m + n) (fun b => A (firstn m b) (skipn m b)).
  (* materialise: same matrix (on indices of lengths m, n), evaluated once *)
  Definition mfreeze (m n : nat) (A : mat) : mat := mat_of_trie (mat_tab m n A).
  (* a matrix given by its flat row-major data (first index ++ second index) *)
  Definition mat_of_flat (l : list SR) : mat := fun i o => nth (nat_of_bits (i ++ o)) l 0.
End Matrix.

Arguments bsum {_}. Arguments delta {_}. Arguments mid {_}. Arguments mzero {_}.
Arguments mmul {_}. Arguments kron {_}. Arguments mtrans {_}. Arguments mconj {_}.
Arguments madj {_}. Arguments mscale {_}. Arguments madd {_}. Arguments meq {_}.
Arguments unitary {_}. Arguments isometry {_}. Arguments whisker {_}. Arguments same_except {_}. Arguments on_wires {_}.
Arguments TLeaf {_}. Arguments TNode {_}. Arguments tget {_}. Arguments ttab {_}.
Arguments tflat {_}. Arguments tdepth {_}. Arguments of_flat {_}. Arguments mat_of_trie {_}.
Arguments mat_tab {_}. Arguments mfreeze {_}. Arguments mat_of_flat {_}.
