(* Cyc32 = Q[x]/(x^16 + 1) = Q(zeta_32): the exact, executable StarRing.

   zeta = x = exp(i*pi/16);  i = zeta^8;  sqrt 2 = zeta^4 + zeta^(-4);
   exp(i*pi*k/16) = zeta^k;  conj zeta^k = zeta^(-k) = - zeta^(16-k).

   CONSTRUCTION.  A tower of four quadratic extensions over the canonical
   rationals [Qc] (Leibniz equality, stdlib ring [Qcrt]):

       K0 = Qc                       a0 = -1
       K1 = K0[t]/(t^2 - a0)         t1 = i        = zeta^8
       K2 = K1[t]/(t^2 - t1)         t2 = zeta^4
       K3 = K2[t]/(t^2 - t2)         t3 = zeta^2
       K4 = K3[t]/(t^2 - t3)         t4 = zeta        = Cyc32

   Section [QuadExt] does one step for any commutative ring K with an
   involutive automorphism [conj] and a unit a with a * conj a = 1: elements of
   K[t]/(t^2 - a) are pairs (u, v) = u + v t,  conj t = t^-1 = conj a * t.
   All ring / conjugation laws are proved ONCE there, generically.  An element
   of Cyc32 is therefore a complete binary tree of 16 rationals; the
   coefficient of zeta^k sits at the leaf whose path (from the root) reads the
   bits of k from the least significant one ([coeffs] lists them for
   k = 0..15).

   SPEED.  Each level's + and * first test their arguments for zero ([isz],
   structural, exact because Qc is canonical): almost all entries of gate
   matrices are 0 or monomials, so products cost O(16) rational operations
   instead of 625.  The shortcut operations are proved equal to the plain ones.

   This file contains the proofs that Cyc32 is a StarRing (it is the model, and
   the non-vacuity witness of every theorem quantified over StarRing). *)
From Coq Require Import List ZArith QArith Qcanon Ring Bool.
Import ListNotations.
Require Import DV.Quantum.Ring.

(* a commutative ring with an involutive automorphism and an exact zero test *)
Record CRing : Type := mkCRing {
  car :> Type;
  c0 : car; c1 : car;
  cadd : car -> car -> car; cmul : car -> car -> car; csub : car -> car -> car;
  copp : car -> car; cconj : car -> car;
  cisz : car -> bool;
  cring : ring_theory c0 c1 cadd cmul csub copp (@eq car);
  cconj_add : forall x y, cconj (cadd x y) = cadd (cconj x) (cconj y);
  cconj_mul : forall x y, cconj (cmul x y) = cmul (cconj x) (cconj y);
  cconj_invol : forall x, cconj (cconj x) = x;
  cconj_0 : cconj c0 = c0;
  cconj_1 : cconj c1 = c1;
  cisz_ok : forall x, cisz x = true -> x = c0
}.
Arguments c0 {_}. Arguments c1 {_}. Arguments cadd {_}. Arguments cmul {_}.
Arguments csub {_}. Arguments copp {_}. Arguments cconj {_}. Arguments cisz {_}.

(* ------------------------------------------------------------------ one step *)
Section QuadExt.
  Variable K : CRing.
  Variable a : K.
  Hypothesis a_unit : cmul a (cconj a) = c1.

  Add Ring Kr : (cring K).
  Notation "x + y" := (cadd x y).
  Notation "x * y" := (cmul x y).
  Notation "x - y" := (csub x y).
  Notation "- x" := (copp x).

  Definition E : Type := (K * K)%type.
  Definition e0 : E := (c0, c0).
  Definition e1 : E := (c1, c0).
  Definition et : E := (c0, c1).                       (* the new root t, t*t = a *)
  Definition emb (x : K) : E := (x, c0).
  Definition eisz (x : E) : bool := cisz (fst x) && cisz (snd x).
  (* plain operations *)
  Definition eadd_ (x y : E) : E := (fst x + fst y, snd x + snd y).
  Definition emul_ (x y : E) : E :=
    (fst x * fst y + a * (snd x * snd y), fst x * snd y + snd x * fst y).
  (* operations with the zero shortcuts *)
  Definition eadd (x y : E) : E := if eisz x then y else if eisz y then x else eadd_ x y.
  Definition emul (x y : E) : E := if eisz x then e0 else if eisz y then e0 else emul_ x y.
  Definition eopp (x : E) : E := (- fst x, - snd x).
  Definition esub (x y : E) : E := eadd x (eopp y).
  Definition econj (x : E) : E := (cconj (fst x), cconj a * cconj (snd x)).

  Lemma eisz_ok : forall x, eisz x = true -> x = e0.
  Proof.
    intros [u v]; unfold eisz; cbn. intro H. apply andb_prop in H as [Hu Hv].
    apply cisz_ok in Hu, Hv. subst. reflexivity.
  Qed.

  Lemma pair_eq : forall (u v u' v' : K), u = u' -> v = v' -> (u, v) = (u', v').
  Proof. intros; subst; reflexivity. Qed.

  Lemma eadd_eq : forall x y, eadd x y = eadd_ x y.
  Proof.
    intros x y. unfold eadd.
    destruct (eisz x) eqn:Hx; [apply eisz_ok in Hx; subst; destruct y; apply pair_eq; cbn; ring|].
    destruct (eisz y) eqn:Hy; [apply eisz_ok in Hy; subst; destruct x; apply pair_eq; cbn; ring|].
    reflexivity.
  Qed.

  Lemma emul_eq : forall x y, emul x y = emul_ x y.
  Proof.
    intros x y. unfold emul.
    destruct (eisz x) eqn:Hx; [apply eisz_ok in Hx; subst; destruct y; apply pair_eq; cbn; ring|].
    destruct (eisz y) eqn:Hy; [apply eisz_ok in Hy; subst; destruct x; apply pair_eq; cbn; ring|].
    reflexivity.
  Qed.

  Ltac ering :=
    intros; unfold esub; rewrite ?eadd_eq, ?emul_eq;
    repeat match goal with x : E |- _ => destruct x end;
    unfold eadd_, emul_, eopp, e0, e1; cbn [fst snd];
    rewrite ?eadd_eq, ?emul_eq; unfold eadd_, emul_; cbn [fst snd];
    apply pair_eq; ring.

  Lemma E_ring : ring_theory e0 e1 eadd emul esub eopp (@eq E).
  Proof.
    constructor.
    - ering.
    - ering.
    - ering.
    - ering.
    - ering.
    - ering.
    - ering.
    - reflexivity.
    - ering.
  Qed.

  Lemma econj_add : forall x y, econj (eadd x y) = eadd (econj x) (econj y).
  Proof.
    intros [u v] [u' v']. rewrite !eadd_eq. unfold econj, eadd_; cbn [fst snd].
    apply pair_eq; rewrite cconj_add; ring.
  Qed.

  Lemma econj_mul : forall x y, econj (emul x y) = emul (econj x) (econj y).
  Proof.
    intros [u v] [u' v']. rewrite !emul_eq. unfold econj, emul_; cbn [fst snd].
    apply pair_eq; rewrite ?cconj_add, ?cconj_mul.
    - transitivity (cconj u * cconj u' + (a * cconj a) * cconj a * (cconj v * cconj v')); [|ring].
      rewrite a_unit. ring.
    - ring.
  Qed.

  Lemma econj_invol : forall x, econj (econj x) = x.
  Proof.
    intros [u v]. unfold econj; cbn [fst snd]. apply pair_eq.
    - apply cconj_invol.
    - rewrite cconj_mul, !cconj_invol.
      transitivity ((a * cconj a) * v); [ring|]. rewrite a_unit. ring.
  Qed.

  Lemma econj_0 : econj e0 = e0.
  Proof. unfold econj, e0; cbn. apply pair_eq; rewrite cconj_0; ring. Qed.

  Lemma econj_1 : econj e1 = e1.
  Proof. unfold econj, e1; cbn. apply pair_eq; rewrite ?cconj_0, ?cconj_1; ring. Qed.

  (* K[t]/(t^2 - a) *)
  Definition quad_ext : CRing :=
    mkCRing E e0 e1 eadd emul esub eopp econj eisz E_ring
            econj_add econj_mul econj_invol econj_0 econj_1 eisz_ok.

  (* the new root is again a unit of modulus one: the next step can use it *)
  Lemma et_unit : emul et (econj et) = e1.
  Proof.
    rewrite emul_eq. unfold et, econj, emul_, e1; cbn [fst snd].
    apply pair_eq; rewrite ?cconj_0, ?cconj_1.
    - transitivity (a * cconj a); [ring | apply a_unit].
    - ring.
  Qed.

  Lemma et_sq : emul et et = emb a.
  Proof. rewrite emul_eq. unfold et, emul_, emb; cbn. apply pair_eq; ring. Qed.

  Lemma econj_emb : forall x, econj (emb x) = emb (cconj x).
  Proof. intro. unfold econj, emb; cbn. apply pair_eq; rewrite ?cconj_0; ring. Qed.
  Lemma emb_add : forall x y, emb (x + y) = eadd (emb x) (emb y).
  Proof. intros. rewrite eadd_eq. unfold emb, eadd_; cbn. apply pair_eq; ring. Qed.
  Lemma emb_mul : forall x y, emb (x * y) = emul (emb x) (emb y).
  Proof. intros. rewrite emul_eq. unfold emb, emul_; cbn. apply pair_eq; ring. Qed.
  Lemma emb_opp : forall x, emb (- x) = eopp (emb x).
  Proof. intros. unfold emb, eopp; cbn. apply pair_eq; ring. Qed.
End QuadExt.

(* ------------------------------------------------------------------ the tower *)
Definition qisz (x : Qc) : bool :=
  match Qnum (this x) with Z0 => true | _ => false end.

Lemma qisz_ok : forall x, qisz x = true -> x = Q2Qc 0.
Proof.
  intros x H. apply Qc_is_canon. unfold qisz in H.
  destruct x as [[n d] Hc]; cbn in *. destruct n; try discriminate. reflexivity.
Qed.

Definition qid (x : Qc) : Qc := x.

Definition K0 : CRing :=
  mkCRing Qc (Q2Qc 0) (Q2Qc 1) Qcplus Qcmult Qcminus Qcopp qid qisz Qcrt
          (fun _ _ => eq_refl) (fun _ _ => eq_refl) (fun _ => eq_refl) eq_refl eq_refl qisz_ok.

Definition a0 : K0 := Qcopp (Q2Qc 1).
Lemma a0_unit : cmul a0 (cconj a0) = (c1 : K0).
Proof. apply Qc_is_canon. reflexivity. Qed.

Definition K1 : CRing := quad_ext K0 a0 a0_unit.                          (* Q(i) *)
Definition t1 : K1 := et K0.                                              (* i = zeta^8 *)
Definition K2 : CRing := quad_ext K1 t1 (et_unit K0 a0 a0_unit).          (* Q(zeta_8) *)
Definition t2 : K2 := et K1.                                              (* zeta^4 *)
Definition K3 : CRing := quad_ext K2 t2 (et_unit K1 t1 (et_unit K0 a0 a0_unit)).
Definition t3 : K3 := et K2.                                              (* zeta^2 *)
Definition K4 : CRing :=
  quad_ext K3 t3 (et_unit K2 t2 (et_unit K1 t1 (et_unit K0 a0 a0_unit))).
Definition t4 : K4 := et K3.                                              (* zeta *)

Definition C32 : Type := car K4.

(* ------------------------------------------------------------------ equality by computation *)
Section Decide.
  Variable K : CRing.
  Add Ring Kd : (cring K).
  (* sound (and, for the tower, complete) equality test: x - y is zero *)
  Definition ceqb (x y : K) : bool := cisz (csub x y).
  Lemma ceqb_ok : forall x y, ceqb x y = true -> x = y.
  Proof.
    unfold ceqb. intros x y H. apply cisz_ok in H.
    transitivity (cadd (csub x y) y); [ring | rewrite H; ring].
  Qed.
End Decide.
Arguments ceqb {_}.

Definition c32_eqb (x y : C32) : bool := @ceqb K4 x y.
Lemma c32_eqb_ok : forall x y, c32_eqb x y = true -> x = y.
Proof. exact (ceqb_ok K4). Qed.

(* ------------------------------------------------------------------ constants *)
Definition up1 (x : K1) : C32 := emb K3 (emb K2 (emb K1 x)).
Definition up0 (q : Qc) : C32 := up1 (emb K0 q).

Definition c32_zeta : C32 := t4.                                 (* exp(i pi/16) *)
Definition c32_i : C32 := up1 t1.                                (* zeta^8 *)
Definition c32_half : C32 := up0 (Q2Qc (1 # 2)).
Definition c32_z4 : C32 := emb K3 (emb K2 t2).                   (* zeta^4 = exp(i pi/4) *)
Definition c32_isq2 : C32 :=                                     (* (zeta^4 + zeta^-4)/2 = cos(pi/4) *)
  cmul c32_half (cadd c32_z4 (cconj c32_z4)).

Ltac c32_decide := apply c32_eqb_ok; vm_compute; reflexivity.

Lemma c32_conj_i : cconj c32_i = copp c32_i.  Proof. c32_decide. Qed.
Lemma c32_conj_half : cconj c32_half = c32_half.  Proof. c32_decide. Qed.
Lemma c32_conj_isq2 : cconj c32_isq2 = c32_isq2.  Proof. c32_decide. Qed.
Lemma c32_i_sq : cmul c32_i c32_i = copp (c1 : C32).  Proof. c32_decide. Qed.
Lemma c32_half_2 : cmul (cadd c1 c1) c32_half = (c1 : C32).  Proof. c32_decide. Qed.
Lemma c32_isq2_sq : cmul (cadd c1 c1) (cmul c32_isq2 c32_isq2) = (c1 : C32).  Proof. c32_decide. Qed.

(* THE instance *)
Definition Cyc32 : StarRing :=
  mkStarRing C32 c0 c1 cadd cmul csub copp cconj c32_i c32_half c32_isq2
             (cring K4) (cconj_add K4) (cconj_mul K4) (cconj_invol K4)
             c32_conj_i c32_conj_half c32_conj_isq2 c32_i_sq c32_half_2 c32_isq2_sq.

(* zeta is a phase, zeta^16 = -1, zeta^8 = i *)
Definition zeta : Cyc32 := c32_zeta.
Lemma c32_zeta_phase : is_phase zeta.
Proof. unfold is_phase. c32_decide. Qed.
Lemma c32_zeta_16 : rpow zeta 16 = ropp r1.
Proof. c32_decide. Qed.
Lemma c32_zeta_8 : rpow zeta 8 = ri.
Proof. c32_decide. Qed.
Lemma c32_zeta_4_sqrt2 : radd (rpow zeta 4) (rconj (rpow zeta 4)) = rsqrt2.
Proof. c32_decide. Qed.

(* the grid phase exp(i*pi*k/16), k taken modulo 32 *)
Definition c32_phase (k : Z) : Cyc32 := rpow zeta (Z.to_nat (k mod 32)).
Lemma c32_phase_ok : forall k, is_phase (c32_phase k).
Proof. intro. apply rpow_phase, c32_zeta_phase. Qed.

(* ------------------------------------------------------------------ coefficients *)
Fixpoint interleave {A} (a b : list A) : list A :=
  match a, b with
  | x :: a', y :: b' => x :: y :: interleave a' b'
  | _, _ => []
  end.
Fixpoint evens {A} (l : list A) : list A :=
  match l with x :: _ :: l' => x :: evens l' | [x] => [x] | [] => [] end.
Fixpoint odds {A} (l : list A) : list A :=
  match l with _ :: y :: l' => y :: odds l' | _ => [] end.

Definition coeffs1 (x : K1) : list Qc := [fst x; snd x].
Definition coeffs2 (x : K2) : list Qc := interleave (coeffs1 (fst x)) (coeffs1 (snd x)).
Definition coeffs3 (x : K3) : list Qc := interleave (coeffs2 (fst x)) (coeffs2 (snd x)).
(* the 16 rational coefficients of zeta^0 .. zeta^15 *)
Definition coeffs (x : C32) : list Qc := interleave (coeffs3 (fst x)) (coeffs3 (snd x)).

Definition of_coeffs1 (l : list Qc) : K1 := (nth 0 l (Q2Qc 0), nth 1 l (Q2Qc 0)).
Definition of_coeffs2 (l : list Qc) : K2 := (of_coeffs1 (evens l), of_coeffs1 (odds l)).
Definition of_coeffs3 (l : list Qc) : K3 := (of_coeffs2 (evens l), of_coeffs2 (odds l)).
(* sum_k l[k] zeta^k (missing coefficients are 0) *)
Definition of_coeffs (l : list Qc) : C32 := (of_coeffs3 (evens l), of_coeffs3 (odds l)).

Lemma of_coeffs_coeffs : forall x, of_coeffs (coeffs x) = x.
Proof.
  intros [[[[a b] [c d]] [[e f] [g h]]] [[[a' b'] [c' d']] [[e' f'] [g' h']]]]. reflexivity.
Qed.

(* exact wire encoding: 16 integer numerators over one common positive denominator *)
Definition c32_den (x : C32) : Z :=
  fold_right Z.lcm 1%Z (map (fun q => Zpos (Qden (this q))) (coeffs x)).
Definition c32_nums (x : C32) : list Z :=
  let D := c32_den x in
  map (fun q => (Qnum (this q) * (D / Zpos (Qden (this q))))%Z) (coeffs x).
(* and back: numerators / denominator *)
Definition c32_of_nums (ns : list Z) (d : positive) : C32 :=
  of_coeffs (map (fun n => Q2Qc (n # d)) ns).

Example c32_isq2_coeffs :
  (c32_nums c32_isq2, c32_den c32_isq2) = ([0;0;0;0;1;0;0;0;0;0;0;0;-1;0;0;0]%Z, 2%Z).
Proof. vm_compute. reflexivity. Qed.

Example c32_roundtrip :
  let x : Cyc32 := radd rw8 (rmul rhalf risq2) in
  c32_eqb (c32_of_nums (c32_nums x) (Z.to_pos (c32_den x))) x = true /\ c32_den x = 4%Z.
Proof. vm_compute. split; reflexivity. Qed.
